(* Proofs/ExcProofs.v — the regenerated exception-entry code equals the pseudocode of Spec/Exceptions.v,
   for every machine state, configuration and PC. *)
From Coq Require Import ZArith List Bool Lia ZifyBool.
From ArmV Require Import Lib.PyZ Lib.Monad Lib.Machine Spec.Pseudocode Spec.Expected Spec.Arch
  Proofs.BitLemmas Proofs.SpecFacts Proofs.BitsOps Proofs.BitsOps2 Proofs.ShiftOps Proofs.FieldsProofs Proofs.StateLemmas
  Proofs.CondProofs Proofs.BankProofs Proofs.MachineOps Proofs.DPLemmas Spec.Exceptions.
From Gen Require Import enums bits_ops shift regviews records hubm opsyn core.
Import ListNotations.
Open Scope Z_scope.
Ltac Zify.zify_post_hook ::= Z.to_euclidean_division_equations.

(* ---------- the layout numbers of the specification are those of the regenerated code ---------- *)
Lemma exc_layout :
  [i_spsr_hyp; i_spsr_svc; i_spsr_abt; i_spsr_und; i_spsr_mon; i_spsr_irq; i_spsr_fiq; i_elr_hyp; i_scr; i_sctlr; i_hsr;
   i_hsctlr; i_hvbar; i_hcr; i_mvbar; i_vbar] =
  [slot_spsr_hyp; slot_spsr_svc; slot_spsr_abt; slot_spsr_und; slot_spsr_mon; slot_spsr_irq; slot_spsr_fiq; slot_elr_hyp;
   slot_scr; slot_sctlr; slot_hsr; slot_hsctlr; slot_hvbar; slot_hcr; slot_mvbar; slot_vbar].
Proof. reflexivity. Qed.
Lemma spsr_index_slot m : spsr_index m = spsr_slot m.
Proof. reflexivity. Qed.

Definition xcfg_of (cfg : config) : xcfg :=
  {| x_sec := truthy (cfg_have_security_ext cfg); x_virt := truthy (cfg_have_virt_ext cfg);
     x_irq_vec := cfg_impdef_irq_vector cfg; x_fiq_vec := cfg_impdef_fiq_vector cfg |}.

(* ---------- the invariant carried along an exception entry ---------- *)
Definition sys_words (s : machine) : Prop := forall i, 0 <= i < Z.of_nat n_sys -> word (getl (sys s) i).
Record xok (cfg : config) (s : machine) : Prop := { x_ctx : ctx_ok cfg s; x_words : sys_words s }.

Lemma cpsr_of_with_cpsr s p : length (sys s) = n_sys -> cpsr_of (with_cpsr s p) = p.
Proof. intros HL. unfold cpsr_of, with_cpsr. cbn [sys set_sys]. apply getl_setl_same. rewrite HL. unfold n_sys. lia. Qed.
Lemma sysv_with_cpsr s p i : 0 < i -> sysv (with_cpsr s p) i = sysv s i.
Proof. intros. unfold sysv, with_cpsr. cbn [sys set_sys]. apply getl_setl_other; lia. Qed.
Lemma sysv_set_sysv_other s j v i : 0 <= i -> 0 <= j -> i <> j -> sysv (set_sysv s j v) i = sysv s i.
Proof. intros. unfold sysv, set_sysv. cbn [sys set_sys]. apply getl_setl_other; lia. Qed.
Lemma cpsr_of_set_sysv s j v : 0 < j -> cpsr_of (set_sysv s j v) = cpsr_of s.
Proof. intros. unfold cpsr_of, set_sysv. cbn [sys set_sys]. apply getl_setl_other; lia. Qed.

Lemma length_setl (l : list Z) i v : length (setl l i v) = length l.
Proof. apply upd_length. Qed.

Lemma sys_words_setl s i v : length (sys s) = n_sys -> 0 <= i -> sys_words s -> word v -> sys_words (set_sys s (setl (sys s) i v)).
Proof.
  intros HL Hi H Hv k Hk. cbn [sys set_sys]. destruct (Z.eq_dec k i) as [->|Hne].
  - rewrite getl_setl_same by (rewrite HL; lia). exact Hv.
  - rewrite getl_setl_other by lia. apply H. exact Hk.
Qed.

Lemma xok_with_cpsr cfg s p : xok cfg s -> word p -> legal_mode cfg (psr_M p) -> xok cfg (with_cpsr s p).
Proof.
  intros [[HL HC HR Hw Hm] Hs] Hp Hlm. split; [split|].
  - unfold with_cpsr. cbn [sys set_sys]. rewrite length_setl. exact HL.
  - exact HC.
  - exact HR.
  - rewrite cpsr_of_with_cpsr by exact HL. exact Hp.
  - unfold mode_of. rewrite cpsr_of_with_cpsr by exact HL. exact Hlm.
  - apply sys_words_setl; try assumption; lia.
Qed.
Lemma xok_set_sysv cfg s i v : xok cfg s -> 0 < i -> word v -> xok cfg (set_sysv s i v).
Proof.
  intros [[HL HC HR Hw Hm] Hs] Hi Hv. split; [split|].
  - unfold set_sysv. cbn [sys set_sys]. rewrite length_setl. exact HL.
  - exact HC.
  - exact HR.
  - rewrite cpsr_of_set_sysv by exact Hi. exact Hw.
  - unfold mode_of. rewrite cpsr_of_set_sysv by exact Hi. exact Hm.
  - apply sys_words_setl; try assumption; lia.
Qed.
Lemma xok_rset cfg s n v : xok cfg s -> xok cfg (rset s n v).
Proof.
  intros [[HL HC HR Hw Hm] Hs]. split; [split|]; try assumption.
  - unfold rset, mark_changed. cbn [changed set_R set_changed]. rewrite upd_length. exact HC.
  - unfold rset. cbn [R set_R]. rewrite length_setl. exact HR.
Qed.
Lemma xok_branch_to cfg s a : xok cfg s -> xok cfg (branch_to s a).
Proof.
  intros [[HL HC HR Hw Hm] Hs]. split; [split|]; try assumption.
  - unfold branch_to, mark_changed. cbn [changed set_R set_changed]. rewrite upd_length. exact HC.
  - unfold branch_to. cbn [R set_R]. rewrite length_setl. exact HR.
Qed.

Lemma psr_M_insert_hi p i v : 0 <= p -> 5 <= i -> 0 <= v <= 1 -> psr_M (insert p i i v) = psr_M p.
Proof.
  intros Hp Hi Hv. unfold psr_M. apply Z.bits_inj'. intros n Hn. rewrite !testbit_bits by lia.
  destruct (n <=? 4 - 0) eqn:E; [|reflexivity].
  rewrite testbit_insert by (try lia; replace (i - i + 1) with 1 by lia; change (2 ^ 1) with 2; lia).
  replace ((i <=? n + 0) && (n + 0 <=? i)) with false by lia. reflexivity.
Qed.

(* ---------- stepping: one pseudocode line of the specification against one statement of the code ---------- *)
Lemma run_put_sysv_bind {A} i v (k : unit -> M machine A) s : bind (put_sys i v) k s = k tt (set_sysv s i v).
Proof. reflexivity. Qed.
Lemma run_upd_cpsr_bind {A} (f : Z -> Z) (k : unit -> M machine A) s :
  bind (get_sys 0) (fun r => bind (put_sys 0 (f r)) k) s = k tt (upd_cpsr s f).
Proof. reflexivity. Qed.
Lemma upd_cpsr_ext s f g : f (cpsr_of s) = g (cpsr_of s) -> upd_cpsr s f = upd_cpsr s g.
Proof. unfold upd_cpsr. intros ->. reflexivity. Qed.

Lemma x_bit {A} (f : Z -> Z -> Z) i v (k : unit -> M machine A) s :
  (forall p y, f p y = AbstractRegister_setitem_int p i y) -> word (cpsr_of s) -> 0 <= i < 32 -> 0 <= v <= 1 ->
  bind (get_sys 0) (fun r => bind (put_sys 0 (f r v)) k) s = k tt (upd_cpsr s (setbit i v)).
Proof.
  intros Hf Hw Hi Hv. rewrite (run_upd_cpsr_bind (fun r => f r v)). f_equal. apply upd_cpsr_ext.
  unfold setbit. apply set_flag_insert; assumption.
Qed.
Lemma x_mode {A} m (k : unit -> M machine A) s : word (cpsr_of s) -> 0 <= m < 32 ->
  bind (get_sys 0) (fun r => bind (put_sys 0 (CPSR_set_m r m)) k) s = k tt (upd_cpsr s (set_M m)).
Proof.
  intros Hw Hm. rewrite (run_upd_cpsr_bind (fun r => CPSR_set_m r m)). f_equal. apply upd_cpsr_ext.
  unfold set_M, CPSR_set_m. cbv zeta. apply set_slice; try lia. exact Hw.
Qed.
Lemma x_it0 {A} (k : unit -> M machine A) s : word (cpsr_of s) ->
  bind (get_sys 0) (fun r => bind (put_sys 0 (CPSR_set_it r 0)) k) s = k tt (upd_cpsr s (fun p => with_IT p 0)).
Proof.
  intros Hw. rewrite (run_upd_cpsr_bind (fun r => CPSR_set_it r 0)). f_equal. apply upd_cpsr_ext.
  destruct (CPSR_it_spec (cpsr_of s) 0 Hw ltac:(lia)) as [_ Hs]. rewrite Hs. reflexivity.
Qed.

Lemma xok_upd_bit cfg s i v : xok cfg s -> 5 <= i < 32 -> 0 <= v <= 1 -> xok cfg (upd_cpsr s (setbit i v)).
Proof.
  intros H Hi Hv. pose proof (ok_cpsr _ _ (x_ctx _ _ H)) as Hw. apply xok_with_cpsr; [exact H| |].
  - unfold setbit. apply word_insert_bit; try assumption; lia.
  - unfold setbit. rewrite psr_M_insert_hi by (unfold word in Hw; lia). exact (ok_mode _ _ (x_ctx _ _ H)).
Qed.
Lemma word_set_M p m : word p -> 0 <= m < 32 -> word (set_M m p).
Proof.
  intros Hp Hm. unfold set_M. rewrite <- (set_slice p 4 0 m) by (try exact Hp; try lia).
  unfold AbstractRegister_setitem_slice. cbv zeta. apply (set_substring_range p 4 0 m 32); try lia. exact Hp.
Qed.
Lemma psr_M_set_M p m : word p -> 0 <= m < 32 -> psr_M (set_M m p) = m.
Proof.
  intros Hp Hm. unfold psr_M, set_M. apply Z.bits_inj'. intros n Hn. rewrite testbit_bits by lia.
  destruct (n <=? 4 - 0) eqn:E.
  - rewrite testbit_insert by (unfold word in Hp; try lia). replace ((0 <=? n + 0) && (n + 0 <=? 4)) with true by lia. f_equal. lia.
  - symmetry. apply Z.bits_above_log2; [lia|]. destruct (Z.eq_dec m 0) as [->|]; [cbn; lia|].
    assert (Z.log2 m < 5) by (apply Z.log2_lt_pow2; lia). lia.
Qed.
Lemma xok_set_mode cfg s m : xok cfg s -> 0 <= m < 32 -> legal_mode cfg m -> xok cfg (upd_cpsr s (set_M m)).
Proof.
  intros H Hm Hl. pose proof (ok_cpsr _ _ (x_ctx _ _ H)) as Hw. apply xok_with_cpsr; [exact H| |].
  - apply word_set_M; assumption.
  - rewrite psr_M_set_M by assumption. exact Hl.
Qed.
Lemma mode_of_set_mode cfg s m : xok cfg s -> 0 <= m < 32 -> mode_of (upd_cpsr s (set_M m)) = m.
Proof.
  intros H Hm. unfold mode_of, upd_cpsr. rewrite cpsr_of_with_cpsr by exact (ok_sys_len _ _ (x_ctx _ _ H)).
  apply psr_M_set_M; [exact (ok_cpsr _ _ (x_ctx _ _ H))|exact Hm].
Qed.

Lemma word_insert_gen p hi lo v : word p -> 0 <= lo <= hi -> hi < 32 -> 0 <= v < 2 ^ (hi - lo + 1) -> word (insert p hi lo v).
Proof.
  intros Hp H Hh Hv. rewrite <- (set_slice p hi lo v) by (try exact Hp; lia).
  unfold AbstractRegister_setitem_slice. cbv zeta. apply (set_substring_range p hi lo v 32); try lia; exact Hp.
Qed.
Lemma psr_M_insert_range p hi lo v : 0 <= p -> 5 <= lo <= hi -> 0 <= v < 2 ^ (hi - lo + 1) -> psr_M (insert p hi lo v) = psr_M p.
Proof.
  intros Hp Hi Hv. unfold psr_M. apply Z.bits_inj'. intros n Hn. rewrite !testbit_bits by lia.
  destruct (n <=? 4 - 0) eqn:E; [|reflexivity].
  rewrite testbit_insert by lia.
  replace ((lo <=? n + 0) && (n + 0 <=? hi)) with false by lia. reflexivity.
Qed.
Lemma word_with_IT p it : word p -> word (with_IT p it).
Proof.
  intros Hp. unfold with_IT. pose proof (bits_range it 7 2 ltac:(lia)). pose proof (bits_range it 1 0 ltac:(lia)).
  apply word_insert_gen; try lia. apply word_insert_gen; try lia. exact Hp.
Qed.
Lemma psr_M_with_IT p it : word p -> psr_M (with_IT p it) = psr_M p.
Proof.
  intros Hp. unfold with_IT. pose proof (bits_range it 7 2 ltac:(lia)). pose proof (bits_range it 1 0 ltac:(lia)).
  assert (W : word (insert p 15 10 (bits it 7 2))) by (apply word_insert_gen; try lia; exact Hp).
  rewrite psr_M_insert_range by (unfold word in W; lia). apply psr_M_insert_range; unfold word in Hp; lia.
Qed.
Lemma xok_upd_it cfg s it : xok cfg s -> xok cfg (upd_cpsr s (fun p => with_IT p it)).
Proof.
  intros H. pose proof (ok_cpsr _ _ (x_ctx _ _ H)) as Hw. apply xok_with_cpsr; [exact H| |].
  - apply word_with_IT. exact Hw.
  - rewrite psr_M_with_IT by exact Hw. exact (ok_mode _ _ (x_ctx _ _ H)).
Qed.

(* accessors of the code, at the slot they are read from, are the specification's field names *)
Lemma acc_bit (g : Z -> Z) i v : (forall x, g x = AbstractRegister_getitem_int x i) -> 0 <= i -> g v = bit v i.
Proof. intros Hg Hi. rewrite Hg. apply flag_get. exact Hi. Qed.
Lemma bit_le1 v i : 0 <= bit v i <= 1.
Proof. apply bit_range. Qed.
Lemma negb_truthy x : negb (truthy x) = (x =? 0).
Proof. unfold truthy. destruct (x =? 0); reflexivity. Qed.
Lemma negb_truthy_bit v i : negb (truthy (bit v i)) = (bit v i =? 0).
Proof. apply negb_truthy. Qed.
Lemma truthy_bit v i : truthy (bit v i) = (bit v i =? 1).
Proof. unfold truthy. pose proof (bit_range v i). destruct (bit v i =? 0) eqn:E; cbn; lia. Qed.

Ltac xacc :=
  repeat match goal with
  | |- context [HSCTLR_get_te ?v] => rewrite (acc_bit HSCTLR_get_te 30 v) by (first [reflexivity | lia])
  | |- context [HSCTLR_get_ee ?v] => rewrite (acc_bit HSCTLR_get_ee 25 v) by (first [reflexivity | lia])
  | |- context [SCTLR_get_te ?v] => rewrite (acc_bit SCTLR_get_te 30 v) by (first [reflexivity | lia])
  | |- context [SCTLR_get_ee ?v] => rewrite (acc_bit SCTLR_get_ee 25 v) by (first [reflexivity | lia])
  | |- context [SCTLR_get_v ?v] => rewrite (acc_bit SCTLR_get_v 13 v) by (first [reflexivity | lia])
  | |- context [SCTLR_get_ve ?v] => rewrite (acc_bit SCTLR_get_ve 24 v) by (first [reflexivity | lia])
  | |- context [SCR_get_ns ?v] => rewrite (acc_bit SCR_get_ns 0 v) by (first [reflexivity | lia])
  | |- context [SCR_get_irq ?v] => rewrite (acc_bit SCR_get_irq 1 v) by (first [reflexivity | lia])
  | |- context [SCR_get_fiq ?v] => rewrite (acc_bit SCR_get_fiq 2 v) by (first [reflexivity | lia])
  | |- context [SCR_get_ea ?v] => rewrite (acc_bit SCR_get_ea 3 v) by (first [reflexivity | lia])
  | |- context [SCR_get_fw ?v] => rewrite (acc_bit SCR_get_fw 4 v) by (first [reflexivity | lia])
  | |- context [SCR_get_aw ?v] => rewrite (acc_bit SCR_get_aw 5 v) by (first [reflexivity | lia])
  | |- context [HCR_get_tge ?v] => rewrite (acc_bit HCR_get_tge 27 v) by (first [reflexivity | lia])
  | |- context [HCR_get_amo ?v] => rewrite (acc_bit HCR_get_amo 5 v) by (first [reflexivity | lia])
  | |- context [HCR_get_imo ?v] => rewrite (acc_bit HCR_get_imo 4 v) by (first [reflexivity | lia])
  | |- context [HCR_get_fmo ?v] => rewrite (acc_bit HCR_get_fmo 3 v) by (first [reflexivity | lia])
  | |- context [CPSR_get_t ?v] => rewrite (acc_bit CPSR_get_t 5 v) by (first [reflexivity | lia])
  end.

(* name the state reached on both sides, and check that they are the same term *)
Ltac xlet s' :=
  cbv beta;
  lazymatch goal with
  | |- ?k ?st = Ok tt (let x := ?v in @?b x) =>
      first [ constr_eq st v | fail 1 "states differ:" st "and" v ];
      set (s' := v); let b' := eval cbv beta in (b s') in change (k s' = Ok tt b')
  end.


Lemma spsr_index_pos m i : spsr_index m = Some i -> 0 < i.
Proof.
  unfold spsr_index. repeat (destruct (_ =? _); [intros E; inversion E; reflexivity|]). discriminate.
Qed.
Lemma x_spsr {A} cfg v (k : unit -> M machine A) s : legal_mode cfg (mode_of s) ->
  bind (Registers_set_spsr cfg v) k s = k tt (set_SPSR s v).
Proof. intros Hm. rewrite run_bind, set_spsr_spec by exact Hm. unfold set_SPSR. change (spsr_index (mode_of s)) with (spsr_slot (mode_of s)). destruct (spsr_slot _); reflexivity. Qed.
Lemma xok_set_SPSR cfg s v : xok cfg s -> word v -> xok cfg (set_SPSR s v).
Proof.
  intros H Hv. unfold set_SPSR. destruct (spsr_index (mode_of s)) eqn:E; [|exact H].
  apply xok_set_sysv; [exact H|exact (spsr_index_pos _ _ E)|exact Hv].
Qed.
Lemma x_rset {A} cfg n v (k : unit -> M machine A) s : xok cfg s -> 0 <= n <= 14 ->
  bind (Registers_set cfg n v) k s = k tt (rset s n v).
Proof. intros H Hn. rewrite run_bind, reg_set; [reflexivity|exact Hn|apply H|apply H]. Qed.
Lemma x_branch {A} cfg a (k : unit -> M machine A) s : xok cfg s ->
  bind (Registers_branch_to a) k s = k tt (branch_to s a).
Proof. intros H. rewrite run_bind, branch_to_spec; [reflexivity|apply H]. Qed.
Lemma x_if_bit {A} (c : bool) (f : Z -> Z -> Z) i (k : unit -> M machine A) s :
  (forall p y, f p y = AbstractRegister_setitem_int p i y) -> word (cpsr_of s) -> 0 <= i < 32 ->
  bind (if c then (bind (get_sys 0) (fun r => bind (put_sys 0 (f r 1)) (fun _ => ret tt))) else ret tt) k s
  = k tt (if c then upd_cpsr s (setbit i 1) else s).
Proof. intros Hf Hw Hi. destruct c; [|reflexivity]. rewrite run_bind, (x_bit f i 1) by (try assumption; lia). reflexivity. Qed.
Lemma xok_if cfg (c : bool) s s' : xok cfg s -> xok cfg s' -> xok cfg (if c then s else s').
Proof. destruct c; auto. Qed.

Ltac xsd H := first [ exact H | exact (ok_cpsr _ _ (x_ctx _ _ H)) | exact (ok_mode _ _ (x_ctx _ _ H)) | lia | apply bit_le1
                    | (intros; reflexivity) | assumption ].
(* execute the next statement of the code on the left *)
Ltac xexec1 cfg H :=
  first
  [ rewrite x_mode by xsd H
  | rewrite x_it0 by xsd H
  | rewrite (x_bit CPSR_set_j 24) by xsd H
  | rewrite (x_bit CPSR_set_t 5) by (xacc; xsd H)
  | rewrite (x_bit CPSR_set_e 9) by (xacc; xsd H)
  | rewrite (x_bit CPSR_set_a 8) by xsd H
  | rewrite (x_bit CPSR_set_i 7) by xsd H
  | rewrite (x_bit CPSR_set_f 6) by xsd H
  | rewrite (x_if_bit _ CPSR_set_a 8) by xsd H
  | rewrite (x_if_bit _ CPSR_set_i 7) by xsd H
  | rewrite (x_if_bit _ CPSR_set_f 6) by xsd H
  | rewrite (x_spsr cfg) by xsd H
  | rewrite (x_rset cfg) by xsd H
  | rewrite (x_branch cfg) by xsd H
  | rewrite run_put_sysv_bind ].
Ltac xexec0 cfg H :=
  first [ xexec1 cfg H | rewrite run_get_sys_bind; cbv beta; xexec0 cfg H ].
Ltac xexec cfg H := xexec0 cfg H; xacc; rewrite ?negb_truthy_bit, ?truthy_bit.
Ltac xokt H :=
  first [ apply xok_upd_bit; [exact H | lia | first [lia | apply bit_le1]]
        | apply xok_upd_it; exact H
        | apply xok_set_SPSR; [exact H | assumption]
        | apply xok_set_sysv; [exact H | lia | assumption]
        | apply xok_rset; exact H
        | apply xok_branch_to; exact H
        | apply xok_if; [|exact H]; xokt H ].
(* one line: execute, name the new state s', and establish its invariant as H' *)
Ltac xline cfg H s' H' :=
  xexec cfg H; xlet s'; assert (H' : xok cfg s') by (unfold s'; xokt H).

Theorem enter_hyp_mode_spec cfg s spsr pref off : xok cfg s -> truthy (cfg_have_virt_ext cfg) = true ->
  word spsr -> word pref ->
  Registers_enter_hyp_mode cfg spsr pref off s = Ok tt (EnterHypMode s spsr pref off).
Proof.
  intros H Hv Hsp Hpr. unfold Registers_enter_hyp_mode.
  cbv beta delta [EnterHypMode M_hyp hsctlr_te hsctlr_ee HSCTLR scr_ea scr_fiq scr_irq SCR sysv i_scr i_hsctlr i_elr_hyp i_hvbar].
  xexec cfg H. xlet s1.
  assert (H1 : xok cfg s1).
  { apply xok_set_mode; [exact H|lia|]. unfold legal_mode, BadMode, have_virt. cbn. unfold truthy in Hv. destruct (_ =? 0); [discriminate|reflexivity]. }
  assert (M1 : mode_of s1 = 26) by (apply (mode_of_set_mode cfg); [exact H|lia]).
  xline cfg H1 s2 H2. xline cfg H2 s3 H3. xline cfg H3 s4 H4.
  xline cfg H4 s5 H5. xline cfg H5 s6 H6. xline cfg H6 s7 H7. xline cfg H7 s8 H8. xline cfg H8 s9 H9. xline cfg H9 s10 H10.
  xexec cfg H10.
  reflexivity.
Qed.

Lemma legal_mon cfg : truthy (cfg_have_security_ext cfg) = true -> legal_mode cfg 22.
Proof. intros Hs. unfold legal_mode, BadMode, have_sec. cbn. unfold truthy in Hs. destruct (_ =? 0); [discriminate|reflexivity]. Qed.
Lemma legal_hyp cfg : truthy (cfg_have_virt_ext cfg) = true -> legal_mode cfg 26.
Proof. intros Hs. unfold legal_mode, BadMode, have_virt. cbn. unfold truthy in Hs. destruct (_ =? 0); [discriminate|reflexivity]. Qed.

Theorem enter_monitor_mode_spec cfg s spsr lr off : xok cfg s -> truthy (cfg_have_security_ext cfg) = true ->
  word spsr ->
  Registers_enter_monitor_mode cfg spsr lr off s = Ok tt (EnterMonitorMode s spsr lr off).
Proof.
  intros H Hv Hsp. unfold Registers_enter_monitor_mode.
  cbv beta delta [EnterMonitorMode M_mon sctlr_te sctlr_ee SCTLR sysv i_sctlr i_mvbar].
  xexec cfg H. xlet s1.
  assert (H1 : xok cfg s1) by (apply xok_set_mode; [exact H|lia|apply legal_mon; exact Hv]).
  xline cfg H1 s2 H2. xline cfg H2 s3 H3. xline cfg H3 s4 H4.
  xline cfg H4 s5 H5. xline cfg H5 s6 H6. xline cfg H6 s7 H7. xline cfg H7 s8 H8. xline cfg H8 s9 H9. xline cfg H9 s10 H10.
  xexec cfg H10. reflexivity.
Qed.

(* ---------- the values an entry computes before it changes anything ---------- *)
Lemma truthy_pand a b : truthy (pand a b) = truthy a && truthy b.
Proof. unfold pand. destruct (truthy a) eqn:E; [reflexivity|exact E]. Qed.
Lemma truthy_por a b : truthy (por a b) = truthy a || truthy b.
Proof. unfold por. destruct (truthy a) eqn:E; [exact E|reflexivity]. Qed.
Lemma truthy_b2z c : truthy (b2z c) = c.
Proof. destruct c; reflexivity. Qed.
Lemma truthy_B2Z c : truthy (B2Z c) = c.
Proof. destruct c; reflexivity. Qed.

Lemma x_get_pc {A} cfg (k : Z -> M machine A) s : bind (Registers_get_pc cfg) k s = k (pc_val s) s.
Proof.
  unfold Registers_get_pc. rewrite run_bind, run_bind, registers_get_pc. cbn beta iota. rewrite run_ret. cbn beta iota.
  reflexivity.
Qed.
Lemma x_if_pc {A} cfg (c : bool) (f g : Z -> Z) (k : Z -> M machine A) s :
  bind (if c then bind (Registers_get_pc cfg) (fun t => ret (f t)) else bind (Registers_get_pc cfg) (fun t => ret (g t))) k s
  = k (if c then f (pc_val s) else g (pc_val s)) s.
Proof. destruct c; rewrite run_bind, x_get_pc; reflexivity. Qed.
Lemma x_is_secure {A} cfg (k : Z -> M machine A) s :
  bind (Registers_is_secure cfg) k s = k (B2Z (is_secure (xcfg_of cfg) s)) s.
Proof.
  rewrite run_bind, is_secure_spec. cbn beta iota. f_equal. f_equal.
  unfold IsSecure, is_secure, sysctx_of, xcfg_of, scr_NS, scr_ns, SCR, sysv, mode_of, have_sec. cbn [c_have_sec c_scr x_sec].
  rewrite negb_truthy. reflexivity.
Qed.
Lemma x_vector_base {A} cfg (k : Z -> M machine A) s :
  bind (Registers_exc_vector_base cfg) k s = k (ExcVectorBase (xcfg_of cfg) s) s.
Proof.
  unfold Registers_exc_vector_base, ExcVectorBase, sctlr_v, SCTLR, sysv, i_sctlr, i_vbar, xcfg_of. cbn [x_sec].
  rewrite run_bind, run_get_sys_bind. cbv beta. xacc. rewrite truthy_bit. unfold conf_have_security_ext.
  destruct (_ =? 1); [reflexivity|]. destruct (truthy _); reflexivity.
Qed.
Lemma x_it_advance {A} cfg (k : unit -> M machine A) s : xok cfg s -> bind Registers_it_advance k s = k tt (it_adv s).
Proof. intros H. rewrite run_bind, it_advance_spec by xsd H. reflexivity. Qed.
Lemma xok_it_adv cfg s : xok cfg s -> xok cfg (it_adv s).
Proof. intros H. unfold it_adv. apply (xok_upd_it cfg s (ITAdvance (psr_IT (cpsr_of s)))) in H. exact H. Qed.

Lemma word_setbit p i v : word p -> 0 <= i < 32 -> 0 <= v <= 1 -> word (setbit i v p).
Proof. intros. unfold setbit. apply word_insert_bit; assumption. Qed.
Lemma x_clear_ns {A} cfg (k : unit -> M machine A) s : xok cfg s ->
  bind (if mode_of s =? 22 then
       bind (get_sys 9) (fun r' => bind (put_sys 9 (SCR_set_ns r' 0)) (fun _ => ret tt)) else ret tt) k s
  = k tt (clear_ns_if_mon s).
Proof.
  intros H. unfold clear_ns_if_mon, M_mon.
  destruct (mode_of s =? 22); [|reflexivity].
  rewrite run_bind, run_get_sys_bind. cbv beta. rewrite run_put_sysv_bind. cbv beta. rewrite run_ret. cbn beta iota.
  f_equal. unfold SCR, sysv, i_scr. f_equal. unfold SCR_set_ns. cbv zeta. unfold setbit.
  apply set_int; [|lia|lia]. apply (x_words _ _ H). unfold n_sys. lia.
Qed.
Lemma xok_clear_ns cfg s : xok cfg s -> xok cfg (clear_ns_if_mon s).
Proof.
  intros H. unfold clear_ns_if_mon. destruct (_ =? _); [|exact H]. apply xok_set_sysv; [exact H|unfold i_scr; lia|].
  apply word_setbit; try lia. apply (x_words _ _ H). unfold i_scr, n_sys. lia.
Qed.

(* the stepping tactic again, now also flattening nested blocks and knowing the helper calls *)
Ltac xexec2 cfg H :=
  first
  [ xexec1 cfg H
  | rewrite ?mode_of_get; rewrite (x_clear_ns cfg) by xsd H
  | rewrite bind_assoc_run; cbv beta; xexec2 cfg H
  | rewrite run_get_sys_bind; cbv beta; xexec2 cfg H
  | rewrite x_vector_base; cbv beta; xexec2 cfg H
  | rewrite bind_ret_run; cbv beta; xexec2 cfg H ].
Ltac xskip :=
  lazymatch goal with
  | |- ?L = Ok tt (let x := ?v in @?b x) => is_var v; let b' := eval cbv beta in (b v) in change (L = Ok tt b')
  end.
Ltac xexec cfg H ::= repeat xskip; xexec2 cfg H; xacc; rewrite ?negb_truthy_bit, ?truthy_bit.
Ltac xokt H ::=
  first [ apply xok_upd_bit; [exact H | lia | first [lia | apply bit_le1]]
        | apply xok_upd_it; exact H
        | apply xok_set_SPSR; [exact H | assumption]
        | apply xok_set_sysv; [exact H | lia | assumption]
        | apply xok_rset; exact H
        | apply xok_branch_to; exact H
        | apply xok_clear_ns; exact H
        | apply xok_set_mode; [exact H | lia | first [reflexivity | apply legal_mon; assumption | apply legal_hyp; assumption]]
        | apply xok_if; [|exact H]; xokt H ].
Ltac xext := repeat match goal with Hh : truthy ?c = _ |- context [truthy ?c] => rewrite Hh end.
(* the IRQ/FIQ ending: SCTLR.VE selects the implementation-defined vector *)
Ltac xve cfg H :=
  repeat (rewrite run_get_sys_bind; cbv beta); xacc; rewrite ?truthy_bit;
  lazymatch goal with |- context [if (bit ?v 24 =? 1) then _ else _] => destruct (bit v 24 =? 1) end; cbv iota;
  xexec cfg H.
(* run code and specification in lock step until the specification has no line left *)
Ltac xrun cfg H :=
  repeat xskip;
  lazymatch goal with
  | |- _ = Ok tt (let x := _ in _) =>
      let s' := fresh "s" in let H' := fresh "H" in
      xexec cfg H; xlet s'; assert (H' : xok cfg s') by (unfold s'; xokt H); xrun cfg H'
  | |- _ => first [ xexec cfg H | xve cfg H ]
  end.
Ltac xbanked cfg H0 :=
  rewrite ?bind_ret_tt;
  lazymatch goal with
  | |- _ = Ok tt (EnterBankedMode _ ?st _ _ _ _ _) =>
     let s1 := fresh "s" in let H1 := fresh "H" in
     (tryif is_var st then idtac else xexec cfg H0);
     set (s1 := st) in *; assert (H1 : xok cfg s1) by (first [exact H0 | apply xok_clear_ns; exact H0]);
     cbv beta iota delta [EnterBankedMode mask_ok sctlr_te sctlr_ee sctlr_ve scr_fw scr_aw scr_ns SCR SCTLR sysv i_sctlr i_scr];
     cbv beta iota delta [x_sec x_virt x_irq_vec x_fiq_vec xcfg_of]; xext;
     xrun cfg H1; first [reflexivity | unfold xcfg_of; xext; reflexivity]
  end.

Ltac xprep :=
  repeat (first [rewrite run_get_sys_bind | rewrite x_is_secure | rewrite x_if_pc]; cbv beta zeta);
  rewrite ?truthy_pand, ?truthy_por, ?truthy_pand, ?truthy_b2z, ?mode_of_get; xacc; rewrite ?negb_truthy_bit, ?truthy_bit, ?truthy_B2Z;
  unfold take_to_hyp, tge_route, thumb, psr_T, add32, sub32, add, sub, scr_ns, scr_irq, scr_fiq, scr_ea, hcr_tge, hcr_imo, hcr_fmo, hcr_amo,
    SCR, HCR, sysv, i_scr, i_hcr, i_hsr, M_hyp, M_usr, M_svc, M_und, M_abt, M_irq, M_fiq, M_mon, conf_have_virt_ext, conf_have_security_ext;
  cbn [x_virt x_sec xcfg_of].
Ltac xwordmod := unfold word; repeat (destruct (_ =? 1)); apply Z.mod_pos_bound; lia.
Ltac xhyp := rewrite ?bind_ret_tt, enter_hyp_mode_spec by (first [assumption | xwordmod]); reflexivity.

Theorem take_svc_spec cfg s : xok cfg s ->
  Registers_take_svc_exception cfg s = Ok tt (TakeSVCException (xcfg_of cfg) s).
Proof.
  intros H. unfold Registers_take_svc_exception. cbv beta delta [TakeSVCException].
  rewrite (x_it_advance cfg) by exact H. xlet s0. assert (H0 : xok cfg s0) by (apply xok_it_adv; exact H).
  xprep. change (cpsr_of s0) with (getl (sys s0) 0).
  assert (Wsp : word (getl (sys s0) 0)) by exact (ok_cpsr _ _ (x_ctx _ _ H0)).
  destruct (truthy (cfg_have_virt_ext cfg)) eqn:Hvirt; destruct (truthy (cfg_have_security_ext cfg)) eqn:Hsec; cbn [andb]; cbv iota;
    [ | xbanked cfg H0 ..].
  destruct ((bit (getl (sys s0) 9) 0 =? 1) && (mode_of s0 =? 26)); cbv iota; [xhyp|].
  destruct (negb (is_secure (xcfg_of cfg) s0) && (bit (getl (sys s0) 17) 27 =? 1) && (mode_of s0 =? 16)); cbv iota; [xhyp|].
  xbanked cfg H0.
Qed.

Theorem take_undef_spec cfg s : xok cfg s ->
  Registers_take_undef_instr_exception cfg s = Ok tt (TakeUndefInstrException (xcfg_of cfg) s).
Proof.
  intros H0. unfold Registers_take_undef_instr_exception. cbv beta delta [TakeUndefInstrException].
  xprep. change (cpsr_of s) with (getl (sys s) 0).
  assert (Wsp : word (getl (sys s) 0)) by exact (ok_cpsr _ _ (x_ctx _ _ H0)).
  destruct (truthy (cfg_have_virt_ext cfg)) eqn:Hvirt; destruct (truthy (cfg_have_security_ext cfg)) eqn:Hsec; cbn [andb]; cbv iota;
    [ | xbanked cfg H0 ..].
  destruct ((bit (getl (sys s) 9) 0 =? 1) && (mode_of s =? 26)); cbv iota; [xhyp|].
  destruct (negb (is_secure (xcfg_of cfg) s) && (bit (getl (sys s) 17) 27 =? 1) && (mode_of s =? 16)); cbv iota; [xhyp|].
  xbanked cfg H0.
Qed.

Ltac xmon cfg H0 :=
  xexec cfg H0; rewrite ?bind_ret_tt, enter_monitor_mode_spec by (first [assumption | apply xok_clear_ns; exact H0 | xwordmod]); reflexivity.

Theorem take_smc_spec cfg s : xok cfg s -> truthy (cfg_have_security_ext cfg) = true ->
  Registers_take_smc_exception cfg s = Ok tt (TakeSMCException s).
Proof.
  intros H Hsec. unfold Registers_take_smc_exception. cbv beta delta [TakeSMCException].
  rewrite (x_it_advance cfg) by exact H. xlet s0. assert (H0 : xok cfg s0) by (apply xok_it_adv; exact H).
  xprep. change (cpsr_of s0) with (getl (sys s0) 0).
  assert (Wsp : word (getl (sys s0) 0)) by exact (ok_cpsr _ _ (x_ctx _ _ H0)).
  xmon cfg H0.
Qed.

Theorem take_hyp_trap_spec cfg s : xok cfg s -> truthy (cfg_have_virt_ext cfg) = true ->
  Registers_take_hyp_trap_exception cfg s = Ok tt (TakeHypTrapException s).
Proof.
  intros H0 Hvirt. unfold Registers_take_hyp_trap_exception. cbv beta delta [TakeHypTrapException].
  xprep. change (cpsr_of s) with (getl (sys s) 0).
  assert (Wsp : word (getl (sys s) 0)) by exact (ok_cpsr _ _ (x_ctx _ _ H0)).
  rewrite x_get_pc. cbv beta. xprep. destruct (bit (getl (sys s) 0) 5 =? 1); xhyp.
Qed.

Theorem take_data_abort_spec cfg s dtype second : xok cfg s ->
  Registers_take_data_abort_exception cfg (EDataAbort dtype second) s =
  Ok tt (TakeDataAbortException (xcfg_of cfg) s (truthy second) (dtype =? DAbort_ALIGNMENT)).
Proof.
  intros H0. unfold Registers_take_data_abort_exception. cbv beta delta [TakeDataAbortException].
  unfold Registers_is_external_abort, Registers_is_async_abort, Registers_debug_exception,
    DataAbortException_second_stage_abort, DataAbortException_is_alignment_fault.
  xprep. change (cpsr_of s) with (getl (sys s) 0).
  assert (Wsp : word (getl (sys s) 0)) by exact (ok_cpsr _ _ (x_ctx _ _ H0)).
  change (truthy 0) with false.
  repeat (progress rewrite ?truthy_pand, ?truthy_por, ?truthy_b2z, ?andb_false_r, ?andb_false_l, ?orb_false_r, ?orb_false_l).
  cbv iota.
  destruct (truthy (cfg_have_virt_ext cfg)) eqn:Hvirt; destruct (truthy (cfg_have_security_ext cfg)) eqn:Hsec; cbn [andb]; cbv iota;
    [ | xbanked cfg H0 ..].
  destruct ((bit (getl (sys s) 9) 0 =? 1) && (mode_of s =? 26)); cbv iota; [xhyp|].
  destruct (negb (is_secure (xcfg_of cfg) s) && (truthy second || (mode_of s =? 16) && (bit (getl (sys s) 17) 27 =? 1) && (dtype =? DAbort_ALIGNMENT)));
    cbv iota; [xhyp|].
  xbanked cfg H0.
Qed.

Lemma mode26_virt cfg s : xok cfg s -> (mode_of s =? 26) = true -> truthy (cfg_have_virt_ext cfg) = true.
Proof.
  intros H E. pose proof (ok_mode _ _ (x_ctx _ _ H)) as Hm. apply Z.eqb_eq in E. rewrite E in Hm.
  unfold legal_mode, BadMode, have_virt in Hm. cbn in Hm. unfold truthy. rewrite Hm. reflexivity.
Qed.
Ltac xhypirq cfg H0 EC :=
  let Hv := fresh "Hvirt" in
  assert (Hv : truthy (cfg_have_virt_ext cfg) = true)
    by (destruct (truthy (cfg_have_virt_ext cfg)) eqn:V; [reflexivity|]; cbn [andb orb] in EC; pose proof (mode26_virt cfg _ H0 EC); congruence);
  rewrite ?bind_ret_tt; rewrite run_put_sysv_bind; cbv beta;
  rewrite ?bind_ret_tt, enter_hyp_mode_spec by (first [assumption | xwordmod | apply xok_set_sysv; [exact H0|lia|unfold word; lia]]);
  reflexivity.

Theorem take_irq_spec cfg s : xok cfg s ->
  Registers_take_physical_irq_exception cfg s = Ok tt (TakePhysicalIRQException (xcfg_of cfg) s).
Proof.
  intros H0. unfold Registers_take_physical_irq_exception. cbv beta delta [TakePhysicalIRQException].
  xprep. change (cpsr_of s) with (getl (sys s) 0).
  assert (Wsp : word (getl (sys s) 0)) by exact (ok_cpsr _ _ (x_ctx _ _ H0)).
  repeat (progress rewrite ?truthy_pand, ?truthy_por, ?truthy_b2z).
  rewrite ?negb_truthy_bit.
  destruct (truthy (cfg_have_security_ext cfg)) eqn:Hsec; cbn [andb]; cbv iota.
  - destruct (bit (getl (sys s) 9) 1 =? 1); cbv iota; [xmon cfg H0|].
    match goal with |- context [if ?c then bind (put_sys 13 0) _ else _] => destruct c eqn:EC end; cbv iota; [xhypirq cfg H0 EC|].
    xbanked cfg H0.
  - match goal with |- context [if ?c then bind (put_sys 13 0) _ else _] => destruct c eqn:EC end; cbv iota; [xhypirq cfg H0 EC|].
    xbanked cfg H0.
Qed.

Theorem take_fiq_spec cfg s : xok cfg s ->
  Registers_take_physical_fiq_exception cfg s = Ok tt (TakePhysicalFIQException (xcfg_of cfg) s).
Proof.
  intros H0. unfold Registers_take_physical_fiq_exception. cbv beta delta [TakePhysicalFIQException].
  xprep. change (cpsr_of s) with (getl (sys s) 0).
  assert (Wsp : word (getl (sys s) 0)) by exact (ok_cpsr _ _ (x_ctx _ _ H0)).
  repeat (progress rewrite ?truthy_pand, ?truthy_por, ?truthy_b2z).
  rewrite ?negb_truthy_bit.
  destruct (truthy (cfg_have_security_ext cfg)) eqn:Hsec; cbn [andb]; cbv iota.
  - destruct (bit (getl (sys s) 9) 2 =? 1); cbv iota; [xmon cfg H0|].
    match goal with |- context [if ?c then bind (put_sys 13 0) _ else _] => destruct c eqn:EC end; cbv iota; [xhypirq cfg H0 EC|].
    xbanked cfg H0.
  - match goal with |- context [if ?c then bind (put_sys 13 0) _ else _] => destruct c eqn:EC end; cbv iota; [xhypirq cfg H0 EC|].
    xbanked cfg H0.
Qed.

(* ---------- reset ---------- *)
Definition rcfg_of (cfg : config) : rcfg :=
  {| r_vfp := truthy (cfg_have_adv_simd_or_vfp cfg); r_thumbee := truthy (cfg_have_thumbee cfg);
     r_jazelle := truthy (cfg_have_jazelle cfg); r_vbar_reset := getl (cfg_reset_values cfg) 21;
     r_impdef_vector := if truthy (cfg_has_imp_def_reset_vector cfg) then Some (cfg_impdef_reset_vector cfg) else None |}.

Lemma x_if_sysbit {A} (c : bool) (f : Z -> Z -> Z) i b (k : unit -> M machine A) cfg s :
  (forall p y, f p y = AbstractRegister_setitem_int p b y) -> xok cfg s -> 0 <= i < Z.of_nat n_sys -> 0 <= b < 32 ->
  bind (if c then bind (get_sys i) (fun r => bind (put_sys i (f r 0)) (fun _ => ret tt)) else ret tt) k s
  = k tt (if c then clear_sysbit s i b else s).
Proof.
  intros Hf H Hi Hb. destruct c; [|reflexivity]. rewrite run_bind, run_get_sys_bind. cbv beta. rewrite run_put_sysv_bind. cbv beta.
  rewrite run_ret. cbn beta iota. f_equal. unfold clear_sysbit, sysv. f_equal. unfold setbit. apply set_flag_insert; try assumption; try lia.
  apply (x_words _ _ H). exact Hi.
Qed.
Lemma xok_clear_sysbit cfg s i b : xok cfg s -> 0 < i < Z.of_nat n_sys -> 0 <= b < 32 -> xok cfg (clear_sysbit s i b).
Proof.
  intros H Hi Hb. apply xok_set_sysv; [exact H|lia|]. apply word_setbit; try lia. apply (x_words _ _ H). lia.
Qed.

Lemma word_ExcVectorBase cfg x s : xok cfg s -> word (ExcVectorBase x s).
Proof.
  intros H. unfold ExcVectorBase. destruct (_ =? 1); [unfold word; lia|]. destruct (x_sec x); [|unfold word; lia].
  apply (x_words _ _ H). unfold i_vbar, n_sys. lia.
Qed.

Theorem take_reset_spec cfg s : xok cfg s -> word (getl (cfg_reset_values cfg) 21) -> word (cfg_impdef_reset_vector cfg) ->
  ArmV6_take_reset cfg s = Ok tt (TakeReset (xcfg_of cfg) (rcfg_of cfg) s).
Proof.
  intros H Wv Wi. unfold ArmV6_take_reset, Registers_reset_control_registers.
  cbv beta delta [TakeReset M_svc sctlr_te sctlr_ee SCTLR sysv i_sctlr i_scr i_vbar i_fpexc i_teecr i_jmcr].
  cbv beta iota delta [x_sec xcfg_of r_vfp r_thumbee r_jazelle r_vbar_reset r_impdef_vector rcfg_of].
  cbv delta [conf_have_security_ext conf_have_adv_simd_or_vfp conf_have_thumbee conf_have_jazelle].
  xexec cfg H. xlet s1. assert (H1 : xok cfg s1) by (unfold s1; xokt H).
  rewrite (x_if_sysbit _ SCR_set_ns 9 0 _ cfg) by (first [exact H1 | (intros; reflexivity) | unfold n_sys; lia | lia]).
  xlet s2. assert (H2 : xok cfg s2) by (unfold s2; apply xok_if; [apply xok_clear_sysbit; [exact H1|unfold n_sys; lia|lia]|exact H1]).
  rewrite bind_assoc_run. cbv beta. rewrite run_put_sysv_bind. cbv beta. rewrite bind_ret_run. cbv beta.
  xlet s3. assert (H3 : xok cfg s3) by (unfold s3; xokt H2).
  rewrite (x_if_sysbit _ FPEXC_set_en 113 30 _ cfg) by (first [exact H3 | (intros; reflexivity) | unfold n_sys; lia | lia]).
  xlet s4. assert (H4 : xok cfg s4) by (unfold s4; apply xok_if; [apply xok_clear_sysbit; [exact H3|unfold n_sys; lia|lia]|exact H3]).
  rewrite (x_if_sysbit _ TEECR_set_xed 46 0 _ cfg) by (first [exact H4 | (intros; reflexivity) | unfold n_sys; lia | lia]).
  xlet s5. assert (H5 : xok cfg s5) by (unfold s5; apply xok_if; [apply xok_clear_sysbit; [exact H4|unfold n_sys; lia|lia]|exact H4]).
  rewrite (x_if_sysbit _ JMCR_set_je 16 0 _ cfg) by (first [exact H5 | (intros; reflexivity) | unfold n_sys; lia | lia]).
  xlet s6. assert (H6 : xok cfg s6) by (unfold s6; apply xok_if; [apply xok_clear_sysbit; [exact H5|unfold n_sys; lia|lia]|exact H5]).
  xrun cfg H6.
  unfold conf_has_imp_def_reset_vector. fold (xcfg_of cfg).
  destruct (truthy (cfg_has_imp_def_reset_vector cfg)); cbv iota; rewrite clear_low_bit; try reflexivity; apply word_lt256; [exact Wi|].
  eapply word_ExcVectorBase. eassumption.
Qed.

(* ---------- dispatch of raised exceptions by emulate_cycle ---------- *)
From Gen Require Import exec conc decoders step.
(* the protected block of emulate_cycle (fetch; decode; from_bitarray; execute; advance), taken from the regenerated term *)
Definition cycle_body (cfg : config) : M machine unit :=
  ltac:(let t := eval cbv beta delta [ArmV6_emulate_cycle] in (ArmV6_emulate_cycle cfg) in
        lazymatch t with bind (catch ?b _ _) _ => exact b end).
Definition dispatch (cfg : config) (o : outcome machine unit) : outcome machine unit :=
  match o with
  | Ok _ s' => Ok tt s'
  | Exc e s' =>
      match e with
      | EEndOfInstruction => Ok tt s'
      | ESVC => Registers_take_svc_exception cfg s'
      | ESMC => Registers_take_smc_exception cfg s'
      | EDataAbort _ _ => Registers_take_data_abort_exception cfg e s'
      | EHypTrap => Registers_take_hyp_trap_exception cfg s'
      | EUndefined => Registers_take_undef_instr_exception cfg s'
      | _ => Exc e s'
      end
  end.
Theorem emulate_cycle_dispatch cfg s : ArmV6_emulate_cycle cfg s = dispatch cfg (cycle_body cfg s).
Proof.
  unfold ArmV6_emulate_cycle. fold (cycle_body cfg). rewrite bind_ret_tt. unfold catch, dispatch.
  destruct (cycle_body cfg s) as [[] s'|e s']; [reflexivity|].
  destruct e; cbn [is_EndOfInstruction is_SVC is_SMC is_DataAbort is_HypTrap is_Undefined orb]; try reflexivity;
    rewrite ?bind_ret_tt; reflexivity.
Qed.
