(* Props/C08step.v — C08 over whole steps.  After one completed emulate_cycle (Props/C04step.v: the result state is
   AdvancePC (it_step_after s1 s2), s1 = the state after fetch, s2 = the state the instruction body left) ITSTATE has advanced
   exactly once — ITAdvance of the ITSTATE the body left — iff the instruction started inside an IT block; outside a block it
   is what the body left (the IT instruction itself sets it, Props/C08it.v).  A skipped (condition-failed) instruction advances
   it the same way (Props/C05step.v).  Flag setting of the 16-bit encodings inside IT blocks: Props/C01step.v (setflags =
   !InITBlock()).  Statements only (proofs in Proofs/StepIT.v). *)
From Coq Require Import ZArith Bool List.
From ArmV Require Import Lib.PyZ Lib.Monad Lib.Machine Spec.Pseudocode Spec.Arch Spec.MachineView Spec.Branches Spec.StepFrame
  Proofs.StateLemmas Proofs.StepProofs Proofs.StepIT.
Import ListNotations.
Open Scope Z_scope.

Theorem C08_step_itstate s1 s2 : (0 < length (sys s2))%nat -> 0 <= cpsr_of s2 ->
  psr_IT (cpsr_of (AdvancePC (it_step_after s1 s2))) =
  if InITBlock (psr_IT (cpsr_of s1)) then ITAdvance (psr_IT (cpsr_of s2)) else psr_IT (cpsr_of s2).
Proof. exact (step_itstate s1 s2). Qed.
Print Assumptions C08_step_itstate.

Theorem C08_psr_IT_with_IT p it : 0 <= p -> 0 <= it < 256 -> psr_IT (with_IT p it) = it.
Proof. exact (psr_IT_with_IT p it). Qed.
Print Assumptions C08_psr_IT_with_IT.
