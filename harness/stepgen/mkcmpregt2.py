rows=[('TstRegisterT2','0 0 0 0','AND','TstRegister'),('TeqRegisterT1','0 1 0 0','EOR','TeqRegister'),
      ('CmnRegisterT2','1 0 0 0','ADD','CmnRegister'),('CmpRegisterT3','1 1 0 1','SUB','CmpRegister')]
hdr='''(* Proofs/StepInstancesCmpRegT2.v — GENERATED text (one block per encoding, same script): the 32-bit Thumb comparisons with a shifted
   register end to end — TST.W, TEQ, CMN.W, CMP.W <Rn>, <Rm>{, <shift>} (11101 01 op 1 Rn : (0) imm3 1111 imm2 type Rm), Rn, Rm in r0-r12
   and different. *)
Set Default Timeout 240.
From Coq Require Import ZArith List Bool Lia ZifyBool.
From ArmV Require Import Lib.PyZ Lib.Monad Lib.Machine Spec.Pseudocode Spec.Arch Spec.MachineView Spec.Branches Spec.StepFrame
  Spec.OperandSpec Spec.DPSem
  Proofs.SpecFacts Proofs.StateLemmas Proofs.CondProofs Proofs.GuardProofs Proofs.BankProofs Proofs.MachineOps Proofs.DPLemmas
  Proofs.DPClasses0 Proofs.DPClasses1 Proofs.DPClasses2 Proofs.DPClasses3 Proofs.DPClasses4 Proofs.DPClasses5 Proofs.DPClasses6 Proofs.DPClasses7
  Proofs.StepProofs Proofs.StepDP Proofs.DPRange Proofs.StepDPReg Proofs.StepInstances Proofs.StepInstancesCmp Proofs.StepInstancesThumb2 Proofs.StepInstancesThumb2Reg Proofs.OpTac
  Proofs.OpsT0 Proofs.OpsT1 Proofs.OpsT2 Proofs.OpsT3 Proofs.OpsT4 Proofs.OpsT5 Proofs.OpsT6 Proofs.OpsT7.
From Gen Require Import enums bits_ops shift regviews records hubm opsyn core exec conc decoders step.
Import ListNotations.
Open Scope Z_scope.
Ltac Zify.zify_post_hook ::= Z.to_euclidean_division_equations.

Definition is_cmp_sr_t32 (o24 o23 o22 o21 w : Z) : Prop :=
  bit w 31 = 1 /\\ bit w 30 = 1 /\\ bit w 29 = 1 /\\ bit w 28 = 0 /\\ bit w 27 = 1 /\\ bit w 26 = 0 /\\ bit w 25 = 1 /\\
  bit w 24 = o24 /\\ bit w 23 = o23 /\\ bit w 22 = o22 /\\ bit w 21 = o21 /\\ bit w 20 = 1 /\\ bits w 11 8 = 15 /\\
  regs13 [bits w 19 16; bits w 3 0] = true.
'''
body=''; props='(* the 32-bit Thumb comparisons with a shifted register: TST.W, TEQ, CMN.W, CMP.W *)\n'
for cls,o,op,ab in rows:
    low=cls[0].lower()+cls[1:]
    st=f'''  ArmV6_fetch_instruction cfg s = Ok w s1 ->
  0 <= w < 2 ^ 32 -> is_cmp_sr_t32 {o} w -> iset_of s1 = 1 -> opcode_len s1 = 32 -> ictx cfg s1 -> cond_holds s1 ->
  let n := bits w 19 16 in let m := bits w 3 0 in let sh := DecodeImmShift (bits w 5 4) (imm5t w) in
  let op := (code_{ab}, [w; m; n; fst sh; snd sh]) in
  exists s2,
    dp_sem cfg {op} 1 None n (Op2Reg m (fst sh) (snd sh)) (begin_instr s1 op) = Ok tt s2 /\\
    ArmV6_emulate_cycle cfg s = Ok tt (AdvancePC (it_step_after s1 s2)) /\\
    pc_of (AdvancePC (it_step_after s1 s2)) = add32 (pc_of s1) 4 /\\
    (forall k, 0 <= k -> k <> pc_index -> getl (R (AdvancePC (it_step_after s1 s2))) k = getl (R s1) k).
'''
    body+=f'''
(* ================= {cls} ================= *)
Lemma decode_{cls} w s : 0 <= w < 2 ^ 32 -> is_cmp_sr_t32 {o} w -> iset_of s = 1 -> opcode_len s = 32 ->
  ArmV6_decode_instruction w s = Ok (Some enc_{cls}) s.
Proof.
  intros Hw (H31 & H30 & H29 & H28 & H27 & H26 & H25 & H24 & H23 & H22 & H21 & H20 & Hrd & Hr) Hi Hl. split_regs. dec_t32 w Hi Hl.
  assert (D : dec_thumb_instruction_set_encoding_32_bit w = Val (Some enc_{cls})).
  {{ dec_step dec_thumb_instruction_set_encoding_32_bit. pose_expand w 28 27. pose_expand w 26 25. ops_if.
    dec_step dec_thumb_data_processing_shifted_register. pose_expand w 24 21. ops_if. reflexivity. }}
  unfold lift. rewrite D. rewrite ?Hl. reflexivity.
Qed.
Lemma from_bitarray_{cls} cfg w s : 0 <= w < 2 ^ 32 -> is_cmp_sr_t32 {o} w ->
  from_bitarray_dispatch cfg enc_{cls} w s = Ok (Some (code_{ab}, [w; bits w 3 0; bits w 19 16; fst (DecodeImmShift (bits w 5 4) (imm5t w)); snd (DecodeImmShift (bits w 5 4) (imm5t w))])) s.
Proof.
  intros Hw (_ & _ & _ & _ & _ & _ & _ & _ & _ & _ & _ & _ & _ & Hr).
  pose proof (ops_{cls} w s Hw Hr) as H. unfold fb_out, fb_plain, fb_opt, fb_res, fb_res_opt, fb_m, fb_m_opt in H.
  unfold from_bitarray_dispatch, enc_{cls}. cbv iota. unfold bind, ret, lift in *.
  repeat match goal with
  | H : match ?x with _ => _ end = _ |- context[?x] => destruct x; try discriminate H
  end.
  inversion H. first [reflexivity | match goal with E : _ = Some _ |- _ => rewrite E end; reflexivity].
Qed.
Theorem {low}_step cfg s w s1 :
{st}Proof.
  intros Hf Hw Hcube Hi Hl Hctx Hcond. pose_all_ranges. intros n m sh op.
  pose proof Hcube as (_ & _ & _ & _ & _ & _ & _ & _ & _ & _ & _ & _ & _ & Hr). split_regs.
  assert (Qn : 0 <= n <= 15) by (unfold n; lia). assert (Qm : 0 <= m <= 15) by (unfold m; lia).
  pose proof (imm5t_range w) as R5.
  assert (Hsh : valid_shift (fst sh) (snd sh)) by (unfold sh; apply DecodeImmShift_valid; lia).
  destruct (dp_cmp_step cfg s w s1 enc_{cls} op {op} 1 n (Op2Reg m (fst sh) (snd sh)) Hf) as (s2 & A & B & C & D); try assumption.
  - apply decode_{cls}; assumption.
  - apply from_bitarray_{cls}; assumption.
  - change (execute_dispatch cfg op (begin_instr s1 op)) with ({ab}_execute cfg w m n (fst sh) (snd sh) (begin_instr s1 op)).
    apply {ab}_sem; try lia; try exact Hsh; [apply ictx_begin; exact Hctx|apply cond_holds_begin; exact Hcond].
  - split; assumption.
  - exists s2. split; [exact A|]. split; [exact B|]. split; [rewrite C, Hl; reflexivity|exact D].
Qed.
'''
    props+=f'Theorem C01_{low}_step cfg s w s1 :\n{st}Proof. exact ({low}_step cfg s w s1). Qed.\nPrint Assumptions C01_{low}_step.\n'
open('/tmp/coqdev/theories/Proofs/StepInstancesCmpRegT2.v','w').write(hdr+body)
open('/tmp/opproto/cmpregt2_props_add.txt','w').write(props)
