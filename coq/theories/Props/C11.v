(* Props/C11.v — C11: exception entry.  Statements only; proofs in Proofs/ExcProofs.v.
   Each entry function of the emulator, on every machine state satisfying the representation invariant
   [xok] (lists of the right length, 32-bit CPSR and system registers, legal current mode), every
   configuration and every PC, returns normally with exactly the state the architecture's pseudocode
   (Spec/Exceptions.v) produces. *)
From Coq Require Import ZArith Bool List.
From ArmV Require Import Lib.PyZ Lib.Monad Lib.Machine Spec.Pseudocode Spec.Arch Spec.MachineView Spec.Exceptions
  Proofs.StateLemmas Proofs.BankProofs Proofs.MachineOps Proofs.ExcProofs.
From Gen Require Import enums core step.
Open Scope Z_scope.

Theorem C11_enter_hyp_mode cfg s spsr pref off : xok cfg s -> truthy (cfg_have_virt_ext cfg) = true ->
  word spsr -> word pref ->
  Registers_enter_hyp_mode cfg spsr pref off s = Ok tt (EnterHypMode s spsr pref off).
Proof. exact (enter_hyp_mode_spec cfg s spsr pref off). Qed.
Print Assumptions C11_enter_hyp_mode.
Theorem C11_enter_monitor_mode cfg s spsr lr off : xok cfg s -> truthy (cfg_have_security_ext cfg) = true ->
  word spsr ->
  Registers_enter_monitor_mode cfg spsr lr off s = Ok tt (EnterMonitorMode s spsr lr off).
Proof. exact (enter_monitor_mode_spec cfg s spsr lr off). Qed.
Print Assumptions C11_enter_monitor_mode.
Theorem C11_take_svc cfg s : xok cfg s ->
  Registers_take_svc_exception cfg s = Ok tt (TakeSVCException (xcfg_of cfg) s).
Proof. exact (take_svc_spec cfg s). Qed.
Print Assumptions C11_take_svc.
Theorem C11_take_undef cfg s : xok cfg s ->
  Registers_take_undef_instr_exception cfg s = Ok tt (TakeUndefInstrException (xcfg_of cfg) s).
Proof. exact (take_undef_spec cfg s). Qed.
Print Assumptions C11_take_undef.
Theorem C11_take_smc cfg s : xok cfg s -> truthy (cfg_have_security_ext cfg) = true ->
  Registers_take_smc_exception cfg s = Ok tt (TakeSMCException s).
Proof. exact (take_smc_spec cfg s). Qed.
Print Assumptions C11_take_smc.
Theorem C11_take_hyp_trap cfg s : xok cfg s -> truthy (cfg_have_virt_ext cfg) = true ->
  Registers_take_hyp_trap_exception cfg s = Ok tt (TakeHypTrapException s).
Proof. exact (take_hyp_trap_spec cfg s). Qed.
Print Assumptions C11_take_hyp_trap.
Theorem C11_take_data_abort cfg s dtype second : xok cfg s ->
  Registers_take_data_abort_exception cfg (EDataAbort dtype second) s =
  Ok tt (TakeDataAbortException (xcfg_of cfg) s (truthy second) (dtype =? DAbort_ALIGNMENT)).
Proof. exact (take_data_abort_spec cfg s dtype second). Qed.
Print Assumptions C11_take_data_abort.
Theorem C11_take_irq cfg s : xok cfg s ->
  Registers_take_physical_irq_exception cfg s = Ok tt (TakePhysicalIRQException (xcfg_of cfg) s).
Proof. exact (take_irq_spec cfg s). Qed.
Print Assumptions C11_take_irq.
Theorem C11_take_fiq cfg s : xok cfg s ->
  Registers_take_physical_fiq_exception cfg s = Ok tt (TakePhysicalFIQException (xcfg_of cfg) s).
Proof. exact (take_fiq_spec cfg s). Qed.
Print Assumptions C11_take_fiq.
Theorem C11_take_reset cfg s : xok cfg s -> word (getl (cfg_reset_values cfg) 21) -> word (cfg_impdef_reset_vector cfg) ->
  ArmV6_take_reset cfg s = Ok tt (TakeReset (xcfg_of cfg) (rcfg_of cfg) s).
Proof. exact (take_reset_spec cfg s). Qed.
Print Assumptions C11_take_reset.
(* emulate_cycle hands every architectural exception raised by fetch/decode/execute to the matching entry,
   from the state at the point of the raise; host errors and not-implemented errors propagate unchanged *)
Theorem C11_dispatch cfg s : ArmV6_emulate_cycle cfg s = dispatch cfg (cycle_body cfg s).
Proof. exact (emulate_cycle_dispatch cfg s). Qed.
Print Assumptions C11_dispatch.
