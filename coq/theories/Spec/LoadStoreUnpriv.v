(* Spec/LoadStoreUnpriv.v — addressing of the unprivileged loads and stores (LDRT, STRT, ...: A8.8.92, A8.8.219 ...): either
   post-indexed with write-back or plain offset, with an immediate or a (shifted) register offset; and LDRT's destination
   value, which on a misaligned address without unaligned support is rotated (ARM state) or UNKNOWN (otherwise).
   Hand-written; imports nothing generated. *)
From Coq Require Import ZArith List Bool.
From ArmV Require Import Lib.PyZ Lib.Monad Lib.Machine Spec.Pseudocode Spec.Arch Spec.MachineView Spec.LoadStore.
Import ListNotations.
Open Scope Z_scope.

Definition unp_index (post_index : Z) : Z := if post_index =? 0 then 1 else 0.
Definition unp_off_shift (s : machine) (register_form m shift_t shift_n imm32 : Z) : Z :=
  if register_form =? 0 then imm32 else fst (Shift_C 32 (rget s m) shift_t shift_n (psr_C (cpsr_of s))).
Definition unp_off (s : machine) (register_form m imm32 : Z) : Z := if register_form =? 0 then imm32 else rget s m.

Section WithMemory.
  Variable rd : Z -> Z -> M machine Z.
  Definition LOAD_T (s : machine) (base off add post_index n t : Z) : outcome machine unit :=
    let address := ls_address base off add (unp_index post_index) in
    match rd address 4 s with
    | Exc e s' => Exc e s'
    | Ok data s1 =>
        let s2 := if post_index =? 0 then s1 else rset s1 n (ls_offset_addr base off add) in
        Ok tt (rset s2 t (load_value (if iset_of s2 =? 0 then LWordArm else LWordThumb) s2 address data))
    end.
End WithMemory.

(* literal (PC-relative) loads: base = Align(PC, 4), offset addressing, no write-back (A8.8.64, 69, 81, 85, 89) *)
Definition lit_address (s : machine) (add imm32 : Z) : Z := ls_address (Align (rget s 15) 4) imm32 add 1.
Section Literal.
  Variable rd : Z -> Z -> M machine Z.
  Variables (arch jaz : Z).
  Definition LOAD_lit (k : lkind) (s : machine) (add imm32 t : Z) : outcome machine unit :=
    let address := lit_address s add imm32 in
    match rd address (lsize k) s with
    | Exc e s' => Exc e s'
    | Ok data s1 => Ok tt (rset s1 t (load_value k s1 address data))
    end.
  (* LDR (literal): rotated in ARM state, UNKNOWN otherwise, on a misaligned address without unaligned support; Rt = PC branches *)
  Definition LOAD_lit_word (s : machine) (add imm32 t : Z) : outcome machine unit :=
    let address := lit_address s add imm32 in
    match rd address 4 s with
    | Exc e s' => Exc e s'
    | Ok data s1 =>
        if t =? 15 then (if bits address 1 0 =? 0 then Ok tt (apply_pc s1 (LoadWritePC arch (cpsr_of s1) jaz data)) else Ok tt s1)
        else Ok tt (rset s1 t (load_value (if iset_of s1 =? 0 then LWordArm else LWordThumb) s1 address data))
    end.
End Literal.

(* ---------- LDRD / STRD (A8.8.72-74, 210-211): two words through MemA; with the Large Physical Address Extension a doubleword-
   aligned transfer is one 64-bit single-copy atomic access whose halves are assigned by endianness ---------- *)
Definition big_endian (s : machine) : bool := bit (cpsr_of s) 9 =? 1.
Section Dual.
  Variable rd : Z -> Z -> M machine Z.
  Variable wr : Z -> Z -> Z -> M machine unit.
  Variable lpae : Z.
  Definition LDRD_core (s : machine) (address t t2 : Z) : outcome machine unit :=
    if negb (lpae =? 0) && (bits address 2 0 =? 0) then
      match rd address 8 s with
      | Exc e s' => Exc e s'
      | Ok data s1 => Ok tt (if big_endian s1 then rset (rset s1 t (bits data 63 32)) t2 (bits data 31 0)
                             else rset (rset s1 t (bits data 31 0)) t2 (bits data 63 32))
      end
    else
      match rd address 4 s with
      | Exc e s' => Exc e s'
      | Ok d1 s1 => let s2 := rset s1 t d1 in
          match rd (add32 address 4) 4 s2 with
          | Exc e s' => Exc e s'
          | Ok d2 s3 => Ok tt (rset s3 t2 d2)
          end
      end.
  Definition STRD_core (s : machine) (address t t2 : Z) : outcome machine unit :=
    if negb (lpae =? 0) && (bits address 2 0 =? 0) then
      wr address 8 (if big_endian s then rget s t * 2 ^ 32 + rget s t2 else rget s t2 * 2 ^ 32 + rget s t) s
    else
      match wr address 4 (rget s t) s with
      | Exc e s' => Exc e s'
      | Ok _ s1 => wr (add32 address 4) 4 (rget s1 t2) s1
      end.
  Definition with_wback (r : outcome machine unit) (wback n oa : Z) : outcome machine unit :=
    match r with Exc e s' => Exc e s' | Ok _ s1 => Ok tt (if wback =? 0 then s1 else rset s1 n oa) end.
  Definition LDRD (s : machine) (base off add index wback n t t2 : Z) : outcome machine unit :=
    with_wback (LDRD_core s (ls_address base off add index) t t2) wback n (ls_offset_addr base off add).
  Definition STRD (s : machine) (base off add index wback n t t2 : Z) : outcome machine unit :=
    with_wback (STRD_core s (ls_address base off add index) t t2) wback n (ls_offset_addr base off add).
  Definition LDRD_lit (s : machine) (add imm32 t t2 : Z) : outcome machine unit := LDRD_core s (lit_address s add imm32) t t2.
End Dual.
