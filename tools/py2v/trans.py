"""py2v translator: Python AST (the subset used by armulator) -> computation IR -> Gallina.

Everything is fail-closed: an unknown construct raises Unsupported for the function
being translated; the driver records it and every obligation depending on it fails.
"""
import ast
import hashlib
from front import Unsupported, FuncInfo, ClassInfo, ModInfo
from ir import *

# ---------------------------------------------------------------- types
TZ = ('Z',)
TUNIT = ('unit',)
TNONE = ('none',)
TBYTES = ('bytes',)
TOPC = ('opcode',)       # opcode instance  (Z * list Z)
TCCLS = ('cclass',)      # concrete opcode class (Z code)
TEXN = ('exn',)


def TTup(ts):
    return ('tup', tuple(ts))


def TOpt(t):
    return t if t[0] == 'opt' else ('opt', t)


def TRec(name):
    return ('rec', name)


def TObj(name):
    return ('obj', name)       # ArmV6 / Registers / MemoryControllerHub / RAM (state objects)


def TReg(cls, loc):
    return ('reg', cls, loc)   # reference to an AbstractRegister instance; loc = ('slot', i) | ('list', li, idxterm) | ('self',)


def TDevRef():
    return ('devref',)         # index of a MemoryController in hub.memories


def TMod(m):
    return ('mod', m)


def coq_type(t):
    k = t[0]
    if k == 'Z':
        return 'Z'
    if k == 'unit' or k == 'none':
        return 'unit'
    if k == 'tup':
        return '(' + ' * '.join(coq_type(x) for x in t[1]) + ')%type'
    if k == 'opt':
        return f'(option {coq_type(t[1])})'
    if k == 'rec':
        return t[1]
    if k == 'bytes':
        return '(list Z)'
    if k == 'opcode':
        return 'opcode'
    if k == 'cclass':
        return 'Z'
    if k == 'devref':
        return 'Z'
    if k == 'exn':
        return 'exn'
    raise Unsupported(f'no Coq type for {t}')


def join_type(a, b, node=None):
    if a == b:
        return a
    if a is None:
        return b
    if b is None:
        return a
    if a == TNONE:
        return TOpt(b) if b != TUNIT else TUNIT
    if b == TNONE:
        return TOpt(a) if a != TUNIT else TUNIT
    if a[0] == 'opt' and (b == a[1]):
        return a
    if b[0] == 'opt' and (a == b[1]):
        return b
    if a == TUNIT and b == TUNIT:
        return TUNIT
    if a == TUNIT:
        return TOpt(b)
    if b == TUNIT:
        return TOpt(a)
    raise Unsupported(f'cannot join types {a} and {b}', node)


def coerce_term(term, frm, to, node=None):
    if frm == to:
        return term
    if to[0] == 'opt':
        if frm == TNONE or frm == TUNIT:
            return 'None'
        if frm == to[1]:
            return f'(Some {paren(term)})'
    if to == TUNIT and frm == TNONE:
        return 'tt'
    raise Unsupported(f'cannot coerce {frm} to {to}', node)


COQ_KEYWORDS = {'as', 'at', 'cofix', 'else', 'end', 'exists', 'fix', 'for', 'forall', 'fun', 'if', 'in', 'let',
                'match', 'mod', 'return', 'then', 'using', 'where', 'with', 'Set', 'Prop', 'Type'}


class Var:
    def __init__(self, coq, ty, optional=False, alias=None):
        self.coq = coq          # Coq identifier holding the value (or option value when optional)
        self.ty = ty
        self.optional = optional   # possibly unbound: Coq value has type option T
        self.alias = alias      # for compile-time aliases (register refs): no Coq binding


class Env:
    def __init__(self, ctx, vars=None):
        self.ctx = ctx
        self.vars = dict(vars or {})

    def copy(self):
        return Env(self.ctx, self.vars)


class FnOut:
    def __init__(self):
        self.coqname = None
        self.level = 0
        self.params = []        # [(coqname, type)]
        self.rettype = TUNIT
        self.uses_cfg = False
        self.state = None       # 'machine' | 'hub' | 'ram' | None
        self.text = ''
        self.file = None
        self.rank = 0
        self.deps = []
        self.ok = False
        self.error = None
        self.src_sha = None
        self.pyname = None
        self.mutates_self = False
        self.param_names = []   # python parameter names (without self/processor)
        self.defaults = {}
        self.ro = False


FILE_RANK = {'enums': 0, 'bits_ops': 1, 'shift': 2, 'regviews': 3, 'records': 4, 'hubm': 5, 'opsyn': 6, 'core': 7,
             'exec': 8, 'conc': 9, 'decoders': 10, 'step': 11}

STATE_TYPE = {'machine': 'machine', 'hub': 'hub', 'ram': '(list Z)'}

# exception classes -> (Coq constructor, arity)
EXN_CLASSES = {
    'EndOfInstruction': 'EEndOfInstruction',
    'SVCException': 'ESVC',
    'SMCException': 'ESMC',
    'HypTrapException': 'EHypTrap',
    'UndefinedInstructionException': 'EUndefined',
    'NotImplementedError': 'ENotImpl',
}
EXN_PRED = {
    'EndOfInstruction': 'is_EndOfInstruction', 'SVCException': 'is_SVC', 'SMCException': 'is_SMC',
    'DataAbortException': 'is_DataAbort', 'HypTrapException': 'is_HypTrap',
    'UndefinedInstructionException': 'is_Undefined',
}

CONFIG_KEYS = ['number_of_mpu_regions', 'have_security_ext', 'have_virt_ext', 'arch_version',
               'jazelle_accepts_execution', 'memory_system_architecture', 'have_lpae', 'have_mp_ext',
               'have_adv_simd_or_vfp', 'have_thumbee', 'have_jazelle', 'implementation_supports_transient',
               'processor_id', 'is_armv7r_profile', 'has_imp_def_reset_vector', 'write_hsr_hsr_value_24',
               'write_hsr_23_22_cond', 'dfsr_string_12', 'data_abort_hsr_9', 'data_abort_pmsa_change_dfar',
               'translation_walk_sd_l1descaddr_attrs_10', 'translation_walk_sd_l1descaddr_hints_01',
               'coproc_accepted_pl0_undefined', 'impdef_reset_vector', 'impdef_irq_vector', 'impdef_fiq_vector']

RECORD_CLASSES = ['FullAddress', 'MemoryAttributes', 'AddressDescriptor', 'Permissions', 'TLBRecord']

ARMV6_FIELDS = {'opcode': 'opcode_w', 'opcode_len': 'opcode_len', 'run': 'run_',
                'is_wait_for_event': 'wfe', 'is_wait_for_interrupt': 'wfi'}


class Ctx:
    """per-function translation context"""
    def __init__(self, tr, fi, kind):
        self.tr = tr
        self.fi = fi
        self.kind = kind        # 'func' | 'regmethod' | 'registers' | 'armv6' | 'execute' | 'opmethod' | 'from_bitarray' | 'hub' | 'ram' | 'excmethod'
        self.out = FnOut()
        self.counter = 0
        self.ret_types = []
        self.partial = {}       # partial-evaluation facts, e.g. {'isinstance(item, int)': True}
        self.subst = {}         # attribute substitutions for partial evaluation
        self.self_name = None
        self.proc_name = None
        self.opcode_fields = None

    def fresh(self, base='t'):
        self.counter += 1
        return f'{base}_{self.counter}'


class Translator:
    def __init__(self, prog):
        self.prog = prog
        self.memo = {}
        self.order = []          # FnOut in completion order
        self.stack = []
        self.enum_consts = {}    # (clsname, member) -> (coqname, value)
        self.enum_text = []
        self.records = {}        # name -> [(field, type, default_term)]
        self.reg_slots = {}      # attr -> ('slot', idx, clsname|None) | ('list', li, clsname|None)
        self.sys_names = []
        self.sysl_names = []
        self.opcode_classes = {}   # abstract class name -> (code, [field names])
        self.opcode_attrmap = {}
        self.opcode_defaults = {}
        self.concrete_classes = {}  # concrete class name -> (code, abstract name)
        self._collect_enums()
        self._collect_records()
        self._collect_registers()
        self._collect_opcodes()

    # ------------------------------------------------------------ static tables
    def _collect_enums(self):
        for mname in sorted(self.prog.modules):
            m = self.prog.modules[mname]
            for cname in m.classes:
                c = m.classes[cname]
                if c.enum_members is not None:
                    for (n, v) in c.enum_members:
                        cq = f'{c.name}_{n}'
                        self.enum_consts[(c.name, n)] = (cq, v)
                        self.enum_text.append(f'Definition {cq} : Z := {v}.')

    def enum_class(self, name):
        return any(k[0] == name for k in self.enum_consts)

    def _collect_records(self):
        for rn in RECORD_CLASSES:
            c = self.prog.cls(rn)
            init = c.methods.get('__init__')
            fields = []
            for st in init.node.body:
                if not (isinstance(st, ast.Assign) and len(st.targets) == 1 and isinstance(st.targets[0], ast.Attribute)
                        and isinstance(st.targets[0].value, ast.Name) and st.targets[0].value.id == 'self'):
                    raise Unsupported(f'record {rn}: unexpected __init__ statement', st, c.mod.path)
                f = st.targets[0].attr
                v = st.value
                if isinstance(v, ast.Call) and isinstance(v.func, ast.Name) and v.func.id in RECORD_CLASSES and not v.args:
                    fields.append((f, TRec(v.func.id), f'new_{v.func.id}'))
                elif isinstance(v, ast.Constant) and isinstance(v.value, (int, bool)):
                    fields.append((f, TZ, str(int(v.value))))
                elif isinstance(v, ast.Attribute) and isinstance(v.value, ast.Name) and self.enum_class(v.value.id):
                    fields.append((f, TZ, self.enum_consts[(v.value.id, v.attr)][0]))
                else:
                    raise Unsupported(f'record {rn}: field default {ast.unparse(v)}', st, c.mod.path)
            self.records[rn] = fields

    def _collect_registers(self):
        c = self.prog.cls('Registers')
        init = c.methods['__init__']
        si = 0
        li = 0
        for st in init.node.body:
            if isinstance(st, ast.For):
                continue   # for register in RName: self._R[register] = 0
            if not (isinstance(st, ast.Assign) and len(st.targets) == 1 and isinstance(st.targets[0], ast.Attribute)):
                raise Unsupported('Registers.__init__: unexpected statement', st, c.mod.path)
            attr = st.targets[0].attr
            v = st.value
            if attr in ('_R', 'changed_registers'):
                continue
            if isinstance(v, ast.Constant) and isinstance(v.value, (int, bool)):
                self.reg_slots[attr] = ('slot', si, None)
                self.sys_names.append(attr)
                si += 1
            elif isinstance(v, ast.Call) and isinstance(v.func, ast.Name):
                self.reg_slots[attr] = ('slot', si, v.func.id)
                self.sys_names.append(attr)
                si += 1
            elif isinstance(v, ast.ListComp) and isinstance(v.elt, ast.Call):
                self.reg_slots[attr] = ('list', li, v.elt.func.id)
                self.sysl_names.append(attr)
                li += 1
            elif isinstance(v, ast.BinOp) and isinstance(v.left, ast.List):
                self.reg_slots[attr] = ('list', li, None)
                self.sysl_names.append(attr)
                li += 1
            else:
                raise Unsupported(f'Registers.__init__: attribute {attr} = {ast.unparse(v)}', st, c.mod.path)

    def _collect_opcodes(self):
        opbase = self.prog.cls('Opcode')
        abstract = []
        concrete = []
        for mname in sorted(self.prog.modules):
            m = self.prog.modules[mname]
            for cname in sorted(m.classes):
                c = m.classes[cname]
                if c is opbase or not c.is_subclass_of(self.prog, 'Opcode'):
                    continue
                if mname.startswith('opcodes.abstract_opcodes'):
                    abstract.append(c)
                elif mname.startswith('opcodes.concrete'):
                    concrete.append(c)
        for i, c in enumerate(sorted(abstract, key=lambda c: c.name)):
            init = c.methods.get('__init__')
            attrmap = {'instruction': 'instruction'}
            defaults = {}
            if init is None:
                fields = ['instruction']
            else:
                fields = [a.arg for a in init.node.args.args[1:]]
                for a, dflt in zip(reversed(init.node.args.args), reversed(init.node.args.defaults)):
                    defaults[a.arg] = dflt
                for st in init.node.body:
                    if isinstance(st, ast.Assign) and len(st.targets) == 1 and isinstance(st.targets[0], ast.Attribute) \
                            and isinstance(st.targets[0].value, ast.Name) and st.targets[0].value.id == 'self':
                        if isinstance(st.value, ast.Name) and st.value.id in fields:
                            attrmap[st.targets[0].attr] = st.value.id
                        else:
                            attrmap[st.targets[0].attr] = None   # computed attribute: unsupported
            self.opcode_classes[c.name] = (i + 1, fields)
            self.opcode_attrmap[c.name] = attrmap
            self.opcode_defaults[c.name] = defaults
        for i, c in enumerate(sorted(concrete, key=lambda c: c.name)):
            abs_ = None
            for b in c.mro(self.prog)[1:]:
                if b.name in self.opcode_classes:
                    abs_ = b.name
                    break
            self.concrete_classes[c.name] = (i + 1, abs_)

    # ------------------------------------------------------------ function translation (memoized)
    def kind_of(self, fi):
        if fi.cls is None:
            return 'func'
        c = fi.cls
        if c.is_subclass_of(self.prog, 'AbstractRegister'):
            return 'regmethod'
        if c.name == 'Registers':
            return 'registers'
        if c.name == 'ArmV6':
            return 'armv6'
        if c.name == 'MemoryControllerHub':
            return 'hub'
        if c.name in ('RAM', 'MemoryType'):
            return 'ram'
        if c.name == 'DataAbortException':
            return 'excmethod'
        if c.is_subclass_of(self.prog, 'Opcode'):
            if fi.name == 'execute':
                return 'execute'
            if fi.name == 'from_bitarray':
                return 'from_bitarray'
            return 'opmethod'
        raise Unsupported(f'method of unsupported class {c.name}.{fi.name}')

    def coq_name(self, fi, kind, variant):
        mod = fi.mod.name
        last = mod.split('.')[-1]
        if kind == 'func':
            if mod in ('bits_ops', 'shift'):
                n = fi.name
            elif mod.startswith('opcodes.decoders'):
                n = 'dec_' + last
            elif mod == 'opcodes.decode_instruction':
                n = 'op_decode_instruction'
            elif mod == 'configurations':
                n = 'conf_' + fi.name
            else:
                n = f'{last}_{fi.name}'
        elif kind == 'hub':
            n = 'Hub_' + fi.name.strip('_')
        elif kind == 'ram':
            n = 'RAM_' + fi.name.strip('_')
        else:
            n = f'{fi.cls.name}_{fi.name.strip("_")}'
            if fi.is_setter:
                n = f'{fi.cls.name}_set_{fi.name}'
            elif fi.is_property:
                n = f'{fi.cls.name}_get_{fi.name}'
        if variant:
            n += '_' + variant
        if n in COQ_KEYWORDS:
            n += '_'
        return n

    def file_of(self, fi, kind):
        mod = fi.mod.name
        if kind == 'func':
            if mod in ('bits_ops', 'shift'):
                return mod
            if mod.startswith('opcodes.decoders') or mod == 'opcodes.decode_instruction':
                return 'decoders'
            if mod == 'memory_controller_hub':
                return 'hubm'
            return 'core'
        return {'regmethod': 'regviews', 'registers': 'core', 'armv6': 'core', 'hub': 'hubm', 'ram': 'hubm',
                'execute': 'exec', 'opmethod': 'opsyn', 'from_bitarray': 'conc', 'excmethod': 'core'}[kind]

    def fn(self, fi, variant=None):
        key = (fi.qual, variant)
        if key in self.memo:
            out = self.memo[key]
            if out is None:
                raise Unsupported(f'recursive call to {fi.name}')
            if not out.ok:
                raise Unsupported(f'callee {out.pyname} not translatable: {out.error}')
            return out
        self.memo[key] = None
        kind = self.kind_of(fi)
        ctx = Ctx(self, fi, kind)
        out = ctx.out
        out.pyname = '.'.join(x for x in (fi.mod.name, fi.cls.name if fi.cls else None, fi.name) if x) + \
            (('#' + variant) if variant else '') + ('#setter' if fi.is_setter else '')
        out.coqname = self.coq_name(fi, kind, variant)
        out.file = self.file_of(fi, kind)
        out.rank = FILE_RANK[out.file]
        out.src_sha = hashlib.sha256(fi.src().encode()).hexdigest()[:16]
        self.stack.append(out)
        try:
            FnTranslator(self, ctx, variant).run()
            out.ok = True
        except Unsupported as e:
            if e.where is None:
                e.where = fi.mod.path
            out.ok = False
            out.error = str(e)
        finally:
            self.stack.pop()
        self.memo[key] = out
        self.order.append(out)
        if self.stack:
            self.stack[-1].deps.append(out)
        if not out.ok:
            raise Unsupported(f'callee {out.pyname} not translatable: {out.error}')
        return out


def unparse(n):
    try:
        return ast.unparse(n)
    except Exception:
        return '<?>'


def assigned_names(stmts):
    """names (plain locals) assigned anywhere in stmts"""
    out = []

    def tgt(t):
        if isinstance(t, ast.Name):
            if t.id not in out:
                out.append(t.id)
        elif isinstance(t, (ast.Tuple, ast.List)):
            for e in t.elts:
                tgt(e)

    for st in stmts:
        for n in ast.walk(st):
            if isinstance(n, ast.Assign):
                for t in n.targets:
                    tgt(t)
                    # record-field / subscript assignment through a local name rebinds the local
                    base = t
                    while isinstance(base, (ast.Attribute, ast.Subscript)):
                        base = base.value
                    if isinstance(base, ast.Name) and not isinstance(t, ast.Name):
                        if base.id not in out:
                            out.append(base.id)
            elif isinstance(n, ast.AugAssign):
                tgt(n.target)
                base = n.target
                while isinstance(base, (ast.Attribute, ast.Subscript)):
                    base = base.value
                if isinstance(base, ast.Name) and base.id not in out:
                    out.append(base.id)
            elif isinstance(n, ast.For):
                tgt(n.target)
            elif isinstance(n, ast.ExceptHandler) and n.name:
                if n.name not in out:
                    out.append(n.name)
    return out


def loaded_names(nodes):
    out = set()
    for st in nodes:
        for n in ast.walk(st):
            if isinstance(n, ast.Name) and isinstance(n.ctx, ast.Load):
                out.add(n.id)
            elif isinstance(n, ast.AugAssign) and isinstance(n.target, ast.Name):
                out.add(n.target.id)
            elif isinstance(n, (ast.Attribute, ast.Subscript)) and isinstance(n.ctx, ast.Store):
                base = n
                while isinstance(base, (ast.Attribute, ast.Subscript)):
                    base = base.value
                if isinstance(base, ast.Name):
                    out.add(base.id)
    return out


def always_terminates(stmts):
    """syntactic: every path through stmts ends in return/raise"""
    for st in stmts:
        if isinstance(st, (ast.Return, ast.Raise)):
            return True
        if isinstance(st, ast.If):
            if st.orelse and always_terminates(st.body) and always_terminates(st.orelse):
                return True
    return False


def contains_return(stmts):
    for st in stmts:
        for n in ast.walk(st):
            if isinstance(n, ast.Return):
                return True
    return False


from fntrans import FnTranslator  # noqa: E402  (circular by design)
