(* Corr/HubModelRun.v — executable drivers used only by the correspondence check for C16:
   run a history of reads/writes on the translated hub and on the spec. *)
From Coq Require Import ZArith List Bool.
From ArmV Require Import Lib.PyZ Lib.Monad Lib.Machine Lib.Enc Spec.Hub.
From Gen Require Import records hubm.
Import ListNotations.
Open Scope Z_scope.

Definition desc_at (pa : Z) : AddressDescriptor :=
  set_AddressDescriptor_paddress new_AddressDescriptor (set_FullAddress_physicaladdress new_FullAddress pa).

Fixpoint run_hub_enc (ops : list hub_op) (h : hub) (acc : list Z) (idx : Z) : list Z :=
  match ops with
  | [] => (0 :: enc_list (rev acc)) ++ enc_hub h
  | HRead pa size :: t =>
      match Hub_getitem (desc_at pa, size) h with
      | Ok v h' => run_hub_enc t h' (v :: acc) (idx + 1)
      | Exc e h' => exn_enc e ++ [idx] ++ enc_hub h'
      end
  | HWrite pa size v :: t =>
      match Hub_setitem (desc_at pa, size) v h with
      | Ok _ h' => run_hub_enc t h' acc (idx + 1)
      | Exc e h' => exn_enc e ++ [idx] ++ enc_hub h'
      end
  end.
Definition model_hub_history (ops : list hub_op) (h : hub) : list Z := run_hub_enc ops h [] 0.

