(* Proofs/LSProofs.v — execute() of single-register load/store classes equals the pseudocode of Spec/LoadStore.v,
   with MemU instantiated by the emulator's mem_u_get / mem_u_set. *)
From Coq Require Import ZArith List Bool Lia ZifyBool.
From ArmV Require Import Lib.PyZ Lib.Monad Lib.Machine Spec.Pseudocode Spec.Expected Spec.Arch
  Proofs.BitLemmas Proofs.SpecFacts Proofs.BitsOps Proofs.BitsOps2 Proofs.ShiftOps Proofs.FieldsProofs Proofs.StateLemmas
  Proofs.CondProofs Proofs.GuardProofs Proofs.BankProofs Proofs.MachineOps Proofs.DPLemmas Proofs.DPTactics Proofs.BranchProofs
  Spec.DPSem Spec.LoadStore.
From Gen Require Import enums bits_ops shift regviews records hubm opsyn core exec.
Import ListNotations.
Open Scope Z_scope.
Ltac Zify.zify_post_hook ::= Z.to_euclidean_division_equations.

(* what the proofs need from a successful memory read/write: the representation invariant survives and data fits *)
Definition rd_ok (cfg : config) (rd : Z -> Z -> M machine Z) (s : machine) (sz : Z) : Prop :=
  forall a d s1, rd a sz s = Ok d s1 -> ictx cfg s1 /\ 0 <= d < 2 ^ (8 * sz).
Definition wr_ok (cfg : config) (wr : Z -> Z -> Z -> M machine unit) (s : machine) (sz : Z) : Prop :=
  forall a v s1, 0 <= v < 2 ^ (8 * sz) -> wr a sz v s = Ok tt s1 -> ictx cfg s1.

Lemma truthy_eq0 x : truthy x = negb (x =? 0).
Proof. reflexivity. Qed.
Lemma b_set {A} cfg n v (k : unit -> M machine A) s : ictx cfg s -> 0 <= n <= 14 ->
  bind (Registers_set cfg n v) k s = k tt (rset s n v).
Proof. intros H Hn. rewrite run_bind, reg_set; [reflexivity|exact Hn|apply H|apply H]. Qed.
Lemma b_unaligned {A} (k : Z -> M machine A) s : bind ArmV6_unaligned_support k s = k (bit (getl (sys s) 11) 22) s.
Proof. unfold ArmV6_unaligned_support. rewrite bind_assoc_run, run_get_sys_bind. cbv beta. rewrite bind_ret_run. unfold SCTLR_get_u. rewrite flag_get by lia. reflexivity. Qed.

(* the address computation shared by the immediate forms *)
Lemma ls_addr_code {A} cfg add index n imm32 (k : Z -> Z -> M machine A) s : ictx cfg s -> 0 <= n <= 15 ->
  bind (if truthy add then bind (Registers_get cfg n) (fun t => ret (bits_ops.add t imm32 32))
        else bind (Registers_get cfg n) (fun t => ret (sub t imm32 32)))
       (fun oa => bind (if truthy index then ret oa else bind (Registers_get cfg n) (fun t => ret t)) (fun a => k oa a)) s
  = k (ls_offset_addr (rget s n) imm32 add) (ls_address (rget s n) imm32 add index) s.
Proof.
  intros H Hn. unfold ls_address, ls_offset_addr, truthy, add32, sub32.
  destruct (add =? 0); cbn [negb]; rewrite bind_assoc_run, (b_get cfg) by (try exact H; lia); rewrite bind_ret_run; cbv beta;
    (destruct (index =? 0); cbn [negb]; [rewrite bind_assoc_run, (b_get cfg) by (try exact H; lia); rewrite bind_ret_run|rewrite bind_ret_run]; reflexivity).
Qed.

Lemma wb_code {A} cfg wback n oa (k : unit -> M machine A) s : ictx cfg s -> (wback <> 0 -> 0 <= n <= 14) ->
  bind (if truthy wback then bind (Registers_set cfg n oa) (fun _ => ret tt) else ret tt) k s
  = k tt (if wback =? 0 then s else rset s n oa).
Proof.
  intros H Hn. unfold truthy. destruct (wback =? 0) eqn:E; cbn [negb]; [reflexivity|].
  rewrite bind_assoc_run, (b_set cfg) by (try exact H; apply Hn; lia). reflexivity.
Qed.
Lemma ictx_wb cfg wback s n oa : ictx cfg s -> (wback <> 0 -> 0 <= n <= 14) -> word oa ->
  ictx cfg (if wback =? 0 then s else rset s n oa).
Proof. intros H Hn Ho. destruct (wback =? 0) eqn:E; [exact H|]. apply ictx_rset; [exact H|apply Hn; lia|exact Ho]. Qed.
Lemma word_offset_addr b o a : word (ls_offset_addr b o a).
Proof. unfold ls_offset_addr, add32, sub32, word. destruct (a =? 0); apply Z.mod_pos_bound; lia. Qed.
Lemma lower_chunk_2 a : lower_chunk a 2 = bits a 1 0.
Proof. rewrite lower_chunk_mod by lia. unfold bits. rewrite Z.pow_0_r, Z.div_1_r. reflexivity. Qed.
Lemma ror32_code x k : 0 <= x < 2 ^ 32 -> k <> 0 -> ror x 32 k = Val (ROR32 x k).
Proof.
  intros Hx Hk. unfold ror, ROR32. replace (k =? 0) with false by lia. cbn [ebind].
  rewrite ror_c_spec by (try assumption; lia). reflexivity.
Qed.
Lemma unaligned_bit s : truthy (bit (getl (sys s) 11) 22) = unaligned_support s.
Proof. unfold unaligned_support, truthy. pose proof (bit01 (getl (sys s) 11) 22). destruct (_ =? 0) eqn:E0, (_ =? 1) eqn:E1; try lia; reflexivity. Qed.

Theorem LdrImmediateArm_sem cfg instr add wback index t n imm32 s :
  ictx cfg s -> cond_holds s -> 0 <= n <= 15 -> 0 <= t <= 15 -> (wback <> 0 -> n <= 14) ->
  rd_ok cfg (ArmV6_mem_u_get cfg) s 4 ->
  LdrImmediateArm_execute cfg instr add wback index t n imm32 s =
  LOAD (ArmV6_mem_u_get cfg) (cfg_arch_version cfg) (cfg_jazelle_accepts_execution cfg) LWordArm s (rget s n) imm32 add index wback n t.
Proof.
  intros H Hc Hn Ht Hwb Hrd. unfold LdrImmediateArm_execute. rewrite guard_pass by exact Hc. rewrite bind_ret_tt.
  cbv zeta. rewrite (ls_addr_code cfg) by assumption. unfold LOAD.
  set (oa := ls_offset_addr (rget s n) imm32 add). set (a := ls_address (rget s n) imm32 add index). cbn [lsize].
  rewrite run_bind. destruct (ArmV6_mem_u_get cfg a 4 s) as [data s1|e s1] eqn:Erd; [|reflexivity].
  destruct (Hrd _ _ _ Erd) as [H1 Rd]. cbn beta iota.
  assert (Woa : word oa) by apply word_offset_addr.
  rewrite (wb_code cfg) by (first [exact H1 | intros; split; [lia|apply Hwb; assumption]]).
  set (s2 := if wback =? 0 then s1 else rset s1 n oa).
  assert (H2 : ictx cfg s2) by (apply ictx_wb; [exact H1|intros; split; [lia|apply Hwb; assumption]|exact Woa]).
  rewrite lower_chunk_2. destruct (t =? 15) eqn:Et.
  - destruct (bits a 1 0 =? 0); [|reflexivity].
    rewrite !bind_ret_tt, load_write_pc_spec; [reflexivity|apply H2|apply H2|apply H2|exact Rd].
  - rewrite bind_ret_tt, b_unaligned. cbv beta. rewrite unaligned_bit. unfold load_value.
    destruct (unaligned_support s2 || (bits a 1 0 =? 0)) eqn:Eu.
    + rewrite !bind_ret_tt, reg_set; [reflexivity|lia|apply H2|apply H2].
    + pose proof (bits_range a 1 0 ltac:(lia)) as Rb. change (2 ^ (1 - 0 + 1)) with 4 in Rb.
      assert (Nz : 8 * bits a 1 0 <> 0) by (destruct (bits a 1 0 =? 0) eqn:E0; [rewrite orb_true_r in Eu; discriminate|lia]).
      rewrite ror32_code by (first [exact Rd | exact Nz]).
      unfold lift. rewrite bind_assoc_run, bind_ret_run. cbv beta. rewrite !bind_ret_tt, reg_set; [reflexivity|lia|apply H2|apply H2].
Qed.

(* ThumbEE null checks happen only in ThumbEE state *)
Lemma null_check_noop cfg n s : iset_of s <> 3 -> ArmV6_null_check_if_thumbee cfg n s = Ok tt s.
Proof.
  intros Hi. unfold ArmV6_null_check_if_thumbee. rewrite b_cur_iset. unfold enums.InstrSet_THUMB_EE.
  replace (iset_of s =? 3) with false by lia. reflexivity.
Qed.
Lemma try_null_check {B} cfg n (h body : M machine B) s : iset_of s <> 3 ->
  try_else (bind (ArmV6_null_check_if_thumbee cfg n) (fun _ => ret tt)) is_EndOfInstruction h body s = body s.
Proof. intros Hi. unfold try_else. rewrite bind_ret_tt, null_check_noop by exact Hi. reflexivity. Qed.

Theorem LdrImmediateThumb_sem cfg instr add wback index t n imm32 s :
  ictx cfg s -> cond_holds s -> iset_of s <> 3 -> 0 <= n <= 15 -> 0 <= t <= 15 -> (wback <> 0 -> n <= 14) ->
  rd_ok cfg (ArmV6_mem_u_get cfg) s 4 ->
  LdrImmediateThumb_execute cfg instr add wback index t n imm32 s =
  LOAD (ArmV6_mem_u_get cfg) (cfg_arch_version cfg) (cfg_jazelle_accepts_execution cfg) LWordThumb s (rget s n) imm32 add index wback n t.
Proof.
  intros H Hc Hi Hn Ht Hwb Hrd. unfold LdrImmediateThumb_execute. rewrite guard_pass by exact Hc. rewrite bind_ret_tt.
  cbv zeta. rewrite try_null_check by exact Hi. rewrite (ls_addr_code cfg) by assumption. unfold LOAD.
  set (oa := ls_offset_addr (rget s n) imm32 add). set (a := ls_address (rget s n) imm32 add index). cbn [lsize].
  rewrite run_bind. destruct (ArmV6_mem_u_get cfg a 4 s) as [data s1|e s1] eqn:Erd; [|reflexivity].
  destruct (Hrd _ _ _ Erd) as [H1 Rd]. cbn beta iota.
  assert (Woa : word oa) by apply word_offset_addr.
  rewrite (wb_code cfg) by (first [exact H1 | intros; split; [lia|apply Hwb; assumption]]).
  set (s2 := if wback =? 0 then s1 else rset s1 n oa).
  assert (H2 : ictx cfg s2) by (apply ictx_wb; [exact H1|intros; split; [lia|apply Hwb; assumption]|exact Woa]).
  rewrite lower_chunk_2. destruct (t =? 15) eqn:Et.
  - destruct (bits a 1 0 =? 0); [|reflexivity].
    rewrite !bind_ret_tt, load_write_pc_spec; [reflexivity|apply H2|apply H2|apply H2|exact Rd].
  - rewrite bind_ret_tt, b_unaligned. cbv beta. rewrite unaligned_bit. unfold load_value.
    destruct (unaligned_support s2 || (bits a 1 0 =? 0)) eqn:Eu; rewrite !bind_ret_tt, reg_set; try reflexivity; try lia; apply H2.
Qed.

Theorem LdrbImmediateArm_sem cfg instr add wback index t n imm32 s :
  ictx cfg s -> cond_holds s -> 0 <= n <= 15 -> 0 <= t <= 14 -> (wback <> 0 -> n <= 14) ->
  rd_ok cfg (ArmV6_mem_u_get cfg) s 1 ->
  LdrbImmediateArm_execute cfg instr add wback index t n imm32 s =
  LOAD_dest_first (ArmV6_mem_u_get cfg) LByte s (rget s n) imm32 add index wback n t.
Proof.
  intros H Hc Hn Ht Hwb Hrd. unfold LdrbImmediateArm_execute. rewrite guard_pass by exact Hc. rewrite bind_ret_tt.
  cbv zeta. rewrite (ls_addr_code cfg) by assumption. unfold LOAD_dest_first.
  set (oa := ls_offset_addr (rget s n) imm32 add). set (a := ls_address (rget s n) imm32 add index). cbn [lsize].
  rewrite run_bind. destruct (ArmV6_mem_u_get cfg a 1 s) as [data s1|e s1] eqn:Erd; [|reflexivity].
  destruct (Hrd _ _ _ Erd) as [H1 Rd]. cbn beta iota.
  rewrite (b_set cfg) by (try exact H1; lia). unfold load_value.
  assert (H2 : ictx cfg (rset s1 t data)) by (apply ictx_rset; [exact H1|lia|unfold word; change (2 ^ (8 * 1)) with 256 in Rd; lia]).
  unfold truthy. destruct (wback =? 0) eqn:E; cbn [negb]; [reflexivity|].
  assert (Hn14 : n <= 14) by (apply Hwb; lia).
  rewrite !bind_ret_tt, reg_set; [reflexivity|lia|apply H2|apply H2].
Qed.

Theorem LdrshImmediate_sem cfg instr add wback index imm32 t n s :
  ictx cfg s -> cond_holds s -> iset_of s <> 3 -> 0 <= n <= 15 -> 0 <= t <= 14 -> (wback <> 0 -> n <= 14) ->
  rd_ok cfg (ArmV6_mem_u_get cfg) s 2 ->
  LdrshImmediate_execute cfg instr add wback index imm32 t n s =
  LOAD (ArmV6_mem_u_get cfg) (cfg_arch_version cfg) (cfg_jazelle_accepts_execution cfg) LSHalf s (rget s n) imm32 add index wback n t.
Proof.
  intros H Hc Hi Hn Ht Hwb Hrd. unfold LdrshImmediate_execute. rewrite guard_pass by exact Hc. rewrite bind_ret_tt.
  cbv zeta. rewrite try_null_check by exact Hi. rewrite (ls_addr_code cfg) by assumption. unfold LOAD.
  set (oa := ls_offset_addr (rget s n) imm32 add). set (a := ls_address (rget s n) imm32 add index). cbn [lsize].
  rewrite run_bind. destruct (ArmV6_mem_u_get cfg a 2 s) as [data s1|e s1] eqn:Erd; [|reflexivity].
  destruct (Hrd _ _ _ Erd) as [H1 Rd]. cbn beta iota.
  assert (Woa : word oa) by apply word_offset_addr.
  rewrite (wb_code cfg) by (first [exact H1 | intros; split; [lia|apply Hwb; assumption]]).
  set (s2 := if wback =? 0 then s1 else rset s1 n oa).
  assert (H2 : ictx cfg s2) by (apply ictx_wb; [exact H1|intros; split; [lia|apply Hwb; assumption]|exact Woa]).
  replace (t =? 15) with false by lia. rewrite b_unaligned. cbv beta. rewrite unaligned_bit. unfold load_value.
  rewrite bit_at_bit by lia. replace (negb (truthy (bit a 0))) with (bit a 0 =? 0) by (unfold truthy; rewrite negb_involutive; reflexivity).
  change (2 ^ (8 * 2)) with (2 ^ 16) in Rd. rewrite sign_extend_spec by lia.
  destruct (unaligned_support s2 || (bit a 0 =? 0)); rewrite !bind_ret_tt, reg_set; try reflexivity; try lia; apply H2.
Qed.

(* ---------- register-offset forms: offset = Shift(R[m], shift_t, shift_n, APSR.C) ---------- *)
Definition reg_offset (s : machine) (m shift_t shift_n : Z) : Z := fst (Shift_C 32 (rget s m) shift_t shift_n (psr_C (cpsr_of s))).
Lemma substring_1_0 a : substring a 1 0 = bits a 1 0.
Proof. apply substring_bits. lia. Qed.

Theorem LdrRegisterArm_sem cfg instr add wback index m t n shift_t shift_n s :
  ictx cfg s -> cond_holds s -> 0 <= n <= 15 -> 0 <= m <= 15 -> 0 <= t <= 15 -> (wback <> 0 -> n <= 14) -> valid_shift shift_t shift_n ->
  rd_ok cfg (ArmV6_mem_u_get cfg) s 4 ->
  LdrRegisterArm_execute cfg instr add wback index m t n shift_t shift_n s =
  LOAD (ArmV6_mem_u_get cfg) (cfg_arch_version cfg) (cfg_jazelle_accepts_execution cfg) LWordArm s (rget s n)
       (reg_offset s m shift_t shift_n) add index wback n t.
Proof.
  intros H Hc Hn Hm Ht Hwb [Hsn Hst] Hrd. unfold LdrRegisterArm_execute. rewrite guard_pass by exact Hc. rewrite bind_ret_tt.
  rewrite (b_get cfg) by (try exact H; lia). rewrite run_get_sys_bind. cbv beta.
  assert (Wm : word (rget s m)) by (apply (word_rget cfg); [exact H|lia]).
  rewrite shift_spec by (try exact Wm; try lia; exact Hst). unfold lift at 1. rewrite bind_ret_run. cbv beta zeta.
  rewrite (b_get cfg) by (try exact H; lia). cbv zeta. rewrite get_c_bit. fold (cpsr_of s). fold (reg_offset s m shift_t shift_n).
  set (off := reg_offset s m shift_t shift_n).
  assert (Eoa : (if truthy add then bits_ops.add (rget s n) off 32 else sub (rget s n) off 32) = ls_offset_addr (rget s n) off add).
  { unfold ls_offset_addr, truthy, add32, sub32. destruct (add =? 0); reflexivity. }
  rewrite Eoa. set (oa := ls_offset_addr (rget s n) off add).
  assert (Ea : (if truthy index then oa else rget s n) = ls_address (rget s n) off add index).
  { unfold ls_address, truthy. destruct (index =? 0); reflexivity. }
  rewrite Ea. set (a := ls_address (rget s n) off add index). unfold LOAD. fold oa a. cbn [lsize].
  rewrite run_bind. destruct (ArmV6_mem_u_get cfg a 4 s) as [data s1|e s1] eqn:Erd; [|reflexivity].
  destruct (Hrd _ _ _ Erd) as [H1 Rd]. cbn beta iota.
  assert (Woa : word oa) by apply word_offset_addr.
  rewrite (wb_code cfg) by (first [exact H1 | intros; split; [lia|apply Hwb; assumption]]).
  set (s2 := if wback =? 0 then s1 else rset s1 n oa).
  assert (H2 : ictx cfg s2) by (apply ictx_wb; [exact H1|intros; split; [lia|apply Hwb; assumption]|exact Woa]).
  rewrite !substring_1_0. destruct (t =? 15) eqn:Et.
  - destruct (bits a 1 0 =? 0); [|reflexivity].
    rewrite !bind_ret_tt, load_write_pc_spec; [reflexivity|apply H2|apply H2|apply H2|exact Rd].
  - rewrite bind_ret_tt, b_unaligned. cbv beta. rewrite unaligned_bit. unfold load_value.
    destruct (unaligned_support s2 || (bits a 1 0 =? 0)) eqn:Eu.
    + rewrite !bind_ret_tt, reg_set; [reflexivity|lia|apply H2|apply H2].
    + pose proof (bits_range a 1 0 ltac:(lia)) as Rb. change (2 ^ (1 - 0 + 1)) with 4 in Rb.
      assert (Nz : 8 * bits a 1 0 <> 0) by (destruct (bits a 1 0 =? 0) eqn:E0; [rewrite orb_true_r in Eu; discriminate|lia]).
      rewrite ror32_code by (first [exact Rd | exact Nz]).
      unfold lift. rewrite bind_assoc_run, bind_ret_run. cbv beta. rewrite !bind_ret_tt, reg_set; [reflexivity|lia|apply H2|apply H2].
Qed.

(* ---------- stores ---------- *)
Lemma ictx_wr cfg s : ictx cfg s -> True. Proof. trivial. Qed.

Theorem StrImmediateArm_sem cfg instr add wback index t n imm32 s :
  ictx cfg s -> cond_holds s -> 0 <= n <= 15 -> 0 <= t <= 15 -> (wback <> 0 -> n <= 14) ->
  wr_ok cfg (ArmV6_mem_u_set cfg) s 4 ->
  StrImmediateArm_execute cfg instr add wback index t n imm32 s =
  STORE (ArmV6_mem_u_set cfg) 4 s (rget s n) imm32 add index wback n (rget s t).
Proof.
  intros H Hc Hn Ht Hwb Hwr. unfold StrImmediateArm_execute. rewrite guard_pass by exact Hc. rewrite bind_ret_tt.
  cbv zeta. rewrite (ls_addr_code cfg) by assumption. unfold STORE.
  set (oa := ls_offset_addr (rget s n) imm32 add). set (a := ls_address (rget s n) imm32 add index).
  assert (Ev : forall k : Z -> M machine unit,
     bind (if t =? 15 then bind (Registers_get_pc cfg) (fun x => ret x) else bind (Registers_get cfg t) (fun x => ret x)) k s = k (rget s t) s).
  { intros k. destruct (t =? 15) eqn:E.
    - rewrite bind_assoc_run, (b_get_pc cfg) by exact H. rewrite bind_ret_run. replace t with 15 by lia. reflexivity.
    - rewrite bind_assoc_run, (b_get cfg) by (try exact H; lia). rewrite bind_ret_run. reflexivity. }
  rewrite Ev. rewrite run_bind. destruct (ArmV6_mem_u_set cfg a 4 (rget s t) s) as [[] s1|e s1] eqn:Ewr; [|reflexivity].
  pose proof (Hwr _ _ _ (word_rget cfg s t H Ht) Ewr) as H1. cbn beta iota.
  unfold truthy. destruct (wback =? 0) eqn:E; cbn [negb]; [reflexivity|].
  assert (Hn14 : n <= 14) by (apply Hwb; lia).
  rewrite !bind_ret_tt, reg_set; [reflexivity|lia|apply H1|apply H1].
Qed.

Theorem StrbRegister_sem cfg instr add wback index m t n shift_t shift_n s :
  ictx cfg s -> cond_holds s -> iset_of s <> 3 -> 0 <= n <= 15 -> 0 <= m <= 15 -> 0 <= t <= 15 -> (wback <> 0 -> n <= 14) ->
  valid_shift shift_t shift_n -> wr_ok cfg (ArmV6_mem_u_set cfg) s 1 ->
  StrbRegister_execute cfg instr add wback index m t n shift_t shift_n s =
  STORE (ArmV6_mem_u_set cfg) 1 s (rget s n) (reg_offset s m shift_t shift_n) add index wback n (bits (rget s t) 7 0).
Proof.
  intros H Hc Hi Hn Hm Ht Hwb [Hsn Hst] Hwr. unfold StrbRegister_execute. rewrite guard_pass by exact Hc. rewrite bind_ret_tt.
  cbv zeta. rewrite try_null_check by exact Hi.
  rewrite (b_get cfg) by (try exact H; lia). rewrite run_get_sys_bind. cbv beta.
  assert (Wm : word (rget s m)) by (apply (word_rget cfg); [exact H|lia]).
  rewrite shift_spec by (try exact Wm; try lia; exact Hst). unfold lift at 1. rewrite bind_ret_run. cbv beta zeta.
  rewrite get_c_bit. fold (cpsr_of s). fold (reg_offset s m shift_t shift_n).
  rewrite (ls_addr_code cfg) by assumption. unfold STORE.
  set (off := reg_offset s m shift_t shift_n).
  set (oa := ls_offset_addr (rget s n) off add). set (a := ls_address (rget s n) off add index).
  rewrite (b_get cfg) by (try exact H; lia). rewrite lower_chunk_mod by lia. rewrite <- bits_7_0.
  rewrite run_bind. destruct (ArmV6_mem_u_set cfg a 1 (bits (rget s t) 7 0) s) as [[] s1|e s1] eqn:Ewr; [|reflexivity].
  pose proof (Hwr _ _ _ (bits_range (rget s t) 7 0 ltac:(lia)) Ewr) as H1. cbn beta iota.
  unfold truthy. destruct (wback =? 0) eqn:E; cbn [negb]; [reflexivity|].
  assert (Hn14 : n <= 14) by (apply Hwb; lia).
  rewrite !bind_ret_tt, reg_set; [reflexivity|lia|apply H1|apply H1].
Qed.

(* ---------- the memory hypotheses hold on a flat map (so the theorems above are not vacuous) ---------- *)
From ArmV Require Import Spec.Hub Spec.Memory Proofs.HubProofs Proofs.MemProofs Proofs.MemFacts.
Lemma ictx_set_mem cfg s h : ictx cfg s -> ictx cfg (set_mem s h).
Proof. intros [[HL HC HR Hw Hm] HRw]. split; [split|]; assumption. Qed.
Lemma flat_rd_ok cfg s sz : flat cfg s -> ictx cfg s -> valid_size sz = true -> rd_ok cfg (ArmV6_mem_u_get cfg) s sz.
Proof.
  intros F H V a d s1 E. unfold ArmV6_mem_u_get in E. rewrite b_not_user in E.
  rewrite run_bind, mem_u_get_flat in E by assumption.
  assert (Sz : 0 <= sz) by (unfold valid_size in V; lia). destruct F as [Hp [Hm [Wd Hh]]].
  unfold MemU_get_flat in E. destruct (MemU_kind _ _ _ _ _ _) as [a'|a'|a'].
  - unfold MemA_get_flat in E. destruct (MemA_va _ _ _ _); [|discriminate]. cbn beta iota in E. inversion E; subst.
    split; [exact H|]. unfold MemA_read. apply endian_range'; [exact Sz|]. apply hub_read_range; assumption.
  - discriminate.
  - cbn beta iota in E. inversion E; subst. split; [exact H|]. apply endian_range'; [exact Sz|].
    set (bytes := map (fun x => hub_read (mem s1) x 1) (byte_addrs a' 0 (Z.to_nat sz))).
    assert (Fb : Forall (fun b => 0 <= b < 256) bytes).
    { unfold bytes. apply Forall_forall. intros b Hb. apply in_map_iff in Hb. destruct Hb as [x [<- _]].
      pose proof (hub_read_range (mem s1) x 1 Hh ltac:(lia)) as R. exact R. }
    pose proof (le_combine_range bytes Fb) as R.
    assert (Lb : length bytes = Z.to_nat sz).
    { assert (L : forall n k, length (zrange k n) = n) by (induction n; intros; cbn; [reflexivity|rewrite IHn; reflexivity]).
      unfold bytes, byte_addrs. rewrite !map_length. apply L. }
    rewrite Lb, Z2Nat.id in R by lia. rewrite pow256 by lia. exact R.
Qed.
Lemma flat_wr_ok cfg s sz : flat cfg s -> ictx cfg s -> valid_size sz = true -> wr_ok cfg (ArmV6_mem_u_set cfg) s sz.
Proof.
  intros F H V a v s1 Hv E. unfold ArmV6_mem_u_set in E. rewrite b_not_user in E.
  rewrite bind_ret_tt in E. rewrite mem_u_set_flat in E by assumption.
  unfold MemU_set_flat in E. destruct (MemU_kind _ _ _ _ _ _) as [a'|a'|a'].
  - unfold MemA_set_flat in E. destruct (MemA_va _ _ _ _); [|discriminate]. inversion E; subst. apply ictx_set_mem. exact H.
  - discriminate.
  - inversion E; subst. apply ictx_set_mem. exact H.
Qed.
