(* Props/C08.v — C08: IT blocks (first part: the ITSTATE machine).  Statements only. *)
From Coq Require Import ZArith Bool List.
From ArmV Require Import Lib.PyZ Lib.Monad Lib.Machine Spec.Pseudocode Spec.Arch
  Proofs.StateLemmas Proofs.CondProofs Proofs.ITSchedule.
From Gen Require Import enums core.
Import ListNotations.
Open Scope Z_scope.

(* it_advance is ITAdvance() on the IT bits of the CPSR and touches nothing else — every state *)
Theorem C08_advance s : word (cpsr_of s) ->
  Registers_it_advance s =
  Ok tt (set_sys s (setl (sys s) slot_cpsr (with_IT (cpsr_of s) (ITAdvance (psr_IT (cpsr_of s)))))).
Proof. exact (it_advance_spec s). Qed.
Print Assumptions C08_advance.
Theorem C08_in_it_block s : ArmV6_in_it_block s = Ok (B2Z (InITBlock (psr_IT (cpsr_of s)))) s.
Proof. exact (in_it_block_spec s). Qed.
Print Assumptions C08_in_it_block.
Theorem C08_last_in_it_block s : ArmV6_last_in_it_block s = Ok (B2Z (LastInITBlock (psr_IT (cpsr_of s)))) s.
Proof. exact (last_in_it_block_spec s). Qed.
Print Assumptions C08_last_in_it_block.

(* for every legal IT instruction (firstcond 0..15, mask 1..15): instruction k of the block sees the
   base condition with low bit firstcond<0> (k = 0) or mask<4-k>; the state is "in block" for exactly
   the block length, "last" exactly on the last instruction, and 0 afterwards *)
Theorem C08_schedule firstcond mask : 0 <= firstcond < 16 -> 1 <= mask < 16 -> sched_ok firstcond mask = true.
Proof. exact (it_schedule firstcond mask). Qed.
Print Assumptions C08_schedule.
Theorem C08_advance_all it : 0 <= it < 256 -> adv_ok it = true.
Proof. exact (it_advance_all it). Qed.
Print Assumptions C08_advance_all.
