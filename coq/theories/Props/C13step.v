(* Props/C13step.v — C13, the fetch stage of emulate_cycle in ARM state on a flat memory map (PMSA, MPU off) with a word-aligned PC:
   fetch_instruction delivers the four bytes at the PC as a little-endian word — whatever CPSR.E says — records it with its length in
   bits, and changes nothing else.  This discharges the fetch hypothesis of the end-to-end theorems (Props/C01step.v, C02step.v,
   C04step.v, C05step.v, C09step.v).  Statements only (proofs in Proofs/StepFetch.v). *)
From Coq Require Import ZArith Bool List.
From ArmV Require Import Lib.PyZ Lib.Monad Lib.Machine Spec.Pseudocode Spec.Arch Spec.MachineView Spec.Hub Spec.Memory
  Proofs.StateLemmas Proofs.MemProofs Proofs.StepFetch.
From Gen Require Import enums core.
Import ListNotations.
Open Scope Z_scope.

Theorem C13_fetch_arm_flat cfg s : flat cfg s -> iset_of s = 0 -> pc_of s mod 4 = 0 ->
  ArmV6_fetch_instruction cfg s = Ok (fetched_arm s) (after_fetch_arm s).
Proof. exact (fetch_arm_flat cfg s). Qed.
Print Assumptions C13_fetch_arm_flat.

(* Thumb state, a 16-bit instruction (the halfword at the PC does not start with 11101 / 11110 / 11111) *)
Theorem C13_fetch_thumb16_flat cfg s : flat cfg s -> iset_of s = 1 -> pc_of s mod 2 = 0 -> bits (fetched_t16 s) 15 11 < 29 ->
  ArmV6_fetch_instruction cfg s = Ok (fetched_t16 s) (after_fetch_t16 s).
Proof. exact (fetch_thumb16_flat cfg s). Qed.
Print Assumptions C13_fetch_thumb16_flat.

(* Thumb state, a 32-bit instruction: hw1 at the PC starts with 11101 / 11110 / 11111, the word is hw1:hw2 (hw2 at PC + 2 modulo 2^32) *)
Theorem C13_fetch_thumb32_flat cfg s : flat cfg s -> iset_of s = 1 -> pc_of s mod 2 = 0 -> 29 <= bits (fetched_t16 s) 15 11 ->
  ArmV6_fetch_instruction cfg s = Ok (fetched_t32 s) (after_fetch_t32 s).
Proof. exact (fetch_thumb32_flat cfg s). Qed.
Print Assumptions C13_fetch_thumb32_flat.
