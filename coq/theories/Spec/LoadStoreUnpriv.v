(* Spec/LoadStoreUnpriv.v — addressing of the unprivileged loads and stores (LDRT, STRT, ...: A8.8.92, A8.8.219 ...): either
   post-indexed with write-back or plain offset, with an immediate or a (shifted) register offset; and LDRT's destination
   value, which on a misaligned address without unaligned support is rotated (ARM state) or UNKNOWN (otherwise).
   Hand-written; imports nothing generated. *)
From Coq Require Import ZArith List Bool.
From ArmV Require Import Lib.PyZ Lib.Monad Lib.Machine Spec.Pseudocode Spec.Arch Spec.MachineView Spec.LoadStore.
Import ListNotations.
Open Scope Z_scope.

Definition unp_index (post_index : Z) : Z := if post_index =? 0 then 1 else 0.
Definition unp_off_shift (s : machine) (register_form m shift_t shift_n imm32 : Z) : Z :=
  if register_form =? 0 then imm32 else fst (Shift_C 32 (rget s m) shift_t shift_n (psr_C (cpsr_of s))).
Definition unp_off (s : machine) (register_form m imm32 : Z) : Z := if register_form =? 0 then imm32 else rget s m.

Section WithMemory.
  Variable rd : Z -> Z -> M machine Z.
  Definition LOAD_T (s : machine) (base off add post_index n t : Z) : outcome machine unit :=
    let address := ls_address base off add (unp_index post_index) in
    match rd address 4 s with
    | Exc e s' => Exc e s'
    | Ok data s1 =>
        let s2 := if post_index =? 0 then s1 else rset s1 n (ls_offset_addr base off add) in
        Ok tt (rset s2 t (load_value (if iset_of s2 =? 0 then LWordArm else LWordThumb) s2 address data))
    end.
End WithMemory.
