(* Proofs/DPTactics.v — the proof procedure shared by all data-processing class theorems:
   symbolic execution of the regenerated execute() through the proved accessor/helper lemmas,
   then syntactic comparison with dp_sem. *)
From Coq Require Import ZArith List Bool Lia ZifyBool.
From ArmV Require Import Lib.PyZ Lib.Monad Lib.Machine Spec.Pseudocode Spec.Expected Spec.Arch
  Proofs.BitLemmas Proofs.SpecFacts Proofs.BitsOps Proofs.BitsOps2 Proofs.ShiftOps Proofs.FieldsProofs Proofs.StateLemmas
  Proofs.CondProofs Proofs.GuardProofs Proofs.BankProofs Proofs.MachineOps Spec.DPSem Proofs.DPLemmas.
From Gen Require Import enums bits_ops shift regviews records hubm opsyn core exec.
Import ListNotations.
Open Scope Z_scope.

Lemma run_cond_pass s : cond_holds s -> ArmV6_condition_passed s = Ok 1 s.
Proof. intros H. rewrite condition_passed_spec. unfold cond_holds in H. rewrite H. reflexivity. Qed.
Lemma run_lift_val {A} (r : res A) (a : A) (s : machine) : r = Val a -> lift r s = Ok a s.
Proof. intros ->. reflexivity. Qed.

Lemma word_land a b : word a -> word b -> word (Z.land a b).
Proof.
  intros [Ha Ha'] [Hb Hb']. split; [apply Z.land_nonneg; lia|].
  destruct (Z.eq_dec (Z.land a b) 0) as [->|NZ]; [lia|].
  apply Z.log2_lt_pow2; [pose proof (Z.land_nonneg a b); lia|].
  destruct (Z_lt_dec (Z.log2 (Z.land a b)) 32); [assumption|exfalso].
  assert (NN : 0 <= Z.land a b) by (apply Z.land_nonneg; lia).
  pose proof (Z.bit_log2 (Z.land a b) ltac:(lia)) as T. rewrite Z.land_spec in T.
  rewrite (tb_small a 32) in T by lia. discriminate.
Qed.
Lemma word_lor a b : word a -> word b -> word (Z.lor a b).
Proof.
  intros [Ha Ha'] [Hb Hb']. assert (NN : 0 <= Z.lor a b) by (apply Z.lor_nonneg; lia). split; [exact NN|].
  destruct (Z.eq_dec (Z.lor a b) 0) as [->|NZ]; [lia|].
  apply Z.log2_lt_pow2; [lia|]. destruct (Z_lt_dec (Z.log2 (Z.lor a b)) 32); [assumption|exfalso].
  pose proof (Z.bit_log2 (Z.lor a b) ltac:(lia)) as T. rewrite Z.lor_spec in T.
  rewrite (tb_small a 32), (tb_small b 32) in T by lia. discriminate.
Qed.
Lemma word_lxor a b : word a -> word b -> word (Z.lxor a b).
Proof.
  intros [Ha Ha'] [Hb Hb']. assert (NN : 0 <= Z.lxor a b) by (apply Z.lxor_nonneg; lia). split; [exact NN|].
  destruct (Z.eq_dec (Z.lxor a b) 0) as [->|NZ]; [lia|].
  apply Z.log2_lt_pow2; [lia|]. destruct (Z_lt_dec (Z.log2 (Z.lxor a b)) 32); [assumption|exfalso].
  pose proof (Z.bit_log2 (Z.lxor a b) ltac:(lia)) as T. rewrite Z.lxor_spec in T.
  rewrite (tb_small a 32), (tb_small b 32) in T by lia. discriminate.
Qed.

Lemma zflag' r : (if negb (r =? 0) then 0 else 1) = (if r =? 0 then 1 else 0).
Proof. destruct (r =? 0); reflexivity. Qed.

Lemma bits_7_0 x : bits x 7 0 = x mod 2 ^ 8.
Proof. unfold bits. rewrite Z.pow_0_r, Z.div_1_r. reflexivity. Qed.

Ltac solve_word32 :=
  solve [ repeat first [ assumption
               | apply word_land | apply word_lor | apply word_lxor | apply word_NOT32
               | apply word_insert_bit
               | match goal with |- word _ => unfold word end; lia
               | lia ] ].

(* gather the facts every class proof needs *)
Ltac dp_intro :=
  intros;
  match goal with Hi : ictx ?cfg ?s |- _ =>
    let Hl := fresh "Hl" in let Hch := fresh "Hch" in let HRl := fresh "HRl" in let Hw := fresh "Hw" in
    let Hmode := fresh "Hmode" in let HR := fresh "HR" in
    pose proof Hi as [[Hl Hch HRl Hw Hmode] HR];
    pose proof (word_rget cfg s 13 Hi ltac:(lia));
    pose proof (psr_C_range (cpsr_of s));
    repeat match goal with
           | H : 0 <= ?r <= 15 |- _ =>
             lazymatch goal with
             | _ : word (rget s r) |- _ => fail
             | _ => pose proof (word_rget cfg s r Hi H)
             end
           | H : 0 <= ?r <= 14 |- _ =>
             lazymatch goal with
             | _ : word (rget s r) |- _ => fail
             | _ => pose proof (word_rget cfg s r Hi ltac:(lia))
             end
           end
  end.

Ltac unfold_head :=
  lazymatch goal with
  | |- ?lhs = _ => lazymatch lhs with ?m ?s => let h := head_of m in unfold h end
  end.

(* destruct the pseudocode results that both sides mention, keeping their ranges *)
Ltac split_shift :=
  match goal with
  | |- context [Shift_C 32 ?v ?t ?n ?c] =>
    let sh := fresh "sh" in let shc := fresh "shc" in let E := fresh "ESh" in
    let R1 := fresh "Wsh" in let R2 := fresh "Rshc" in
    assert (valid_shift t n) as Hvs by (first [assumption | unfold valid_shift, Pseudocode.SRType_LSL, Pseudocode.SRType_LSR, Pseudocode.SRType_ASR, Pseudocode.SRType_ROR, Pseudocode.SRType_RRX in *; intuition lia]);
    destruct (Shift_C_range 32 v t n c ltac:(lia) ltac:(solve_word32) ltac:(lia) Hvs) as [R1 R2];
    clear Hvs;
    destruct (Shift_C 32 v t n c) as [sh shc] eqn:E; cbn [fst snd] in *
  end.
Ltac split_awc :=
  match goal with
  | |- context [AddWithCarry 32 ?x ?y ?c] =>
    let res := fresh "res" in let cc := fresh "cy" in let vv := fresh "ov" in let E := fresh "EA" in
    let R1 := fresh "Wres" in let R2 := fresh "Rcy" in let R3 := fresh "Rov" in
    destruct (AddWithCarry_range 32 x y c ltac:(lia)) as (R1 & R2 & R3);
    destruct (AddWithCarry 32 x y c) as [[res cc] vv] eqn:E; cbn [fst snd] in *
  end.

Ltac dp_step :=
  first
  [ rewrite run_bind
  | rewrite run_ret
  | rewrite reg_get by (first [assumption | lia])
  | rewrite run_get_sys; change (getl (sys ?s) 0) with (cpsr_of s)
  | rewrite get_c_bit
  | progress (unfold Registers_get_sp)
  | erewrite run_lift_val by (apply shift_spec; first [assumption | lia | solve_word32
        | unfold valid_shift, Pseudocode.SRType_LSL, Pseudocode.SRType_LSR, Pseudocode.SRType_ASR, Pseudocode.SRType_ROR, Pseudocode.SRType_RRX in *; intuition lia])
  | erewrite run_lift_val by (apply shift_c_spec; first [assumption | lia | solve_word32
        | unfold valid_shift, Pseudocode.SRType_LSL, Pseudocode.SRType_LSR, Pseudocode.SRType_ASR, Pseudocode.SRType_ROR, Pseudocode.SRType_RRX in *; intuition lia])
  | rewrite lower_chunk_mod by lia
  | rewrite substring_bits by lia
  | rewrite bits_7_0
  | rewrite bit_not_32 by solve_word32
  | rewrite add_with_carry_spec by (first [lia | solve_word32])
  | progress cbn beta iota
  | progress cbv zeta ].

Ltac flag_side := first [ solve_word32 | match goal with |- 0 <= (if ?b then _ else _) <= 1 => destruct b; lia end
                        | match goal with |- 0 <= bit ?r ?i <= 1 => pose proof (bit01 r i); lia end
                        | (apply word_insert_bit; flag_side) ].

Ltac dp_flags :=
  repeat first [rewrite run_bind | rewrite run_get_sys | rewrite run_put_sys | rewrite run_ret | progress cbn beta iota];
  cbn [sys rset set_R mark_changed set_changed set_sys with_cpsr];
  match goal with Hl : length (sys ?s) = n_sys |- _ =>
    rewrite ?getl_setl_same by (unfold n_sys in Hl; rewrite ?setl_length; lia) end;
  change (getl (sys ?s) 0) with (cpsr_of s);
  rewrite ?bit_at_31, ?setl_setl_same, ?set_sys_set_sys; rewrite ?zflag, ?zflag';
  unfold with_flags; cbv zeta;
  rewrite ?set_n_insert by flag_side;
  rewrite ?set_z_insert by flag_side;
  rewrite ?set_c_insert by flag_side;
  rewrite ?set_v_insert by flag_side;
  reflexivity.

Ltac dp_finish :=
  lazymatch goal with
  | |- context [if ?d =? 15 then _ else _] =>
    destruct (d =? 15) eqn:?;
    [ first [ exfalso; lia | repeat dp_step; rewrite alu_write_pc_spec by (first [assumption | solve_word32]); reflexivity ]
    | dp_finish ]
  | |- context [Registers_set _ _ _] =>
    repeat dp_step; rewrite reg_set by (first [assumption | lia]); cbn beta iota;
    unfold truthy;
    lazymatch goal with
    | |- context [if negb (?S =? 0) then _ else _] => destruct (S =? 0) eqn:?; cbn [negb]; [reflexivity | dp_flags]
    | _ => dp_flags
    end
  | _ => dp_flags
  end.

Ltac dp_tac :=
  dp_intro; unfold_head; unfold dp_sem, eval_op2, dp_alu;
  unfold enums.SRType_LSL, enums.SRType_LSR, enums.SRType_ASR, enums.SRType_ROR, enums.SRType_RRX,
    Pseudocode.SRType_LSL, Pseudocode.SRType_LSR, Pseudocode.SRType_ASR, Pseudocode.SRType_ROR, Pseudocode.SRType_RRX, valid_shift in *;
  rewrite run_bind;
  match goal with Hc : cond_holds ?s |- _ => rewrite (run_cond_pass s Hc) end;
  cbn beta iota; change (truthy 1) with true; cbv iota;
  repeat first [dp_step | split_shift | split_awc];
  cbn [fst snd];
  dp_finish.
