(* Proofs/DPClasses1.v — STATIC (written by tools/spec/mkdp.py from its table; committed).
   One theorem per data-processing opcode class: with its condition passed and operand fields in range, the
   regenerated execute() equals dp_sem (Proofs/DPSem.v) for every operand value, flag state, mode, configuration. *)
From Coq Require Import ZArith List Bool Lia ZifyBool.
From ArmV Require Import Lib.PyZ Lib.Monad Lib.Machine Spec.Pseudocode Spec.Expected Spec.Arch
  Proofs.BitLemmas Proofs.SpecFacts Proofs.BitsOps Proofs.BitsOps2 Proofs.ShiftOps Proofs.FieldsProofs Proofs.StateLemmas
  Proofs.CondProofs Proofs.GuardProofs Proofs.BankProofs Proofs.MachineOps Spec.DPSem Proofs.DPLemmas Proofs.DPTactics.
From Gen Require Import enums bits_ops shift regviews records hubm opsyn core exec.
Import ListNotations.
Open Scope Z_scope.

Theorem AdcRegister_sem cfg instruction setflags m d n shift_t shift_n st :
  ictx cfg st ->
  cond_holds st ->
  0 <= d <= 15 ->
  0 <= n <= 15 ->
  0 <= m <= 15 ->
  valid_shift shift_t shift_n ->
  AdcRegister_execute cfg instruction setflags m d n shift_t shift_n st = dp_sem cfg ADC setflags (Some d) n (Op2Reg m shift_t shift_n) st.
Proof. dp_tac. Qed.

Theorem AddImmediateArm_sem cfg instruction setflags d n imm32 st :
  ictx cfg st ->
  cond_holds st ->
  0 <= d <= 15 ->
  0 <= n <= 15 ->
  word imm32 ->
  AddImmediateArm_execute cfg instruction setflags d n imm32 st = dp_sem cfg ADD setflags (Some d) n (Op2Imm imm32 0) st.
Proof. dp_tac. Qed.

Theorem SubImmediateArm_sem cfg instruction setflags d n imm32 st :
  ictx cfg st ->
  cond_holds st ->
  0 <= d <= 15 ->
  0 <= n <= 15 ->
  word imm32 ->
  SubImmediateArm_execute cfg instruction setflags d n imm32 st = dp_sem cfg SUB setflags (Some d) n (Op2Imm imm32 0) st.
Proof. dp_tac. Qed.

Theorem RsbRegisterShiftedRegister_sem cfg instruction setflags m s d n shift_t st :
  ictx cfg st ->
  cond_holds st ->
  0 <= d <= 14 ->
  0 <= n <= 15 ->
  0 <= m <= 15 ->
  0 <= s <= 15 ->
  (shift_t = Pseudocode.SRType_LSL \/ shift_t = Pseudocode.SRType_LSR \/ shift_t = Pseudocode.SRType_ASR \/ shift_t = Pseudocode.SRType_ROR) ->
  RsbRegisterShiftedRegister_execute cfg instruction setflags m s d n shift_t st = dp_sem cfg RSB setflags (Some d) n (Op2RegReg m shift_t s) st.
Proof. dp_tac. Qed.

Theorem OrrRegister_sem cfg instruction setflags m d n shift_t shift_n st :
  ictx cfg st ->
  cond_holds st ->
  0 <= d <= 15 ->
  0 <= n <= 15 ->
  0 <= m <= 15 ->
  valid_shift shift_t shift_n ->
  OrrRegister_execute cfg instruction setflags m d n shift_t shift_n st = dp_sem cfg ORR setflags (Some d) n (Op2Reg m shift_t shift_n) st.
Proof. dp_tac. Qed.

Theorem MvnRegister_sem cfg instruction setflags m d shift_t shift_n st :
  ictx cfg st ->
  cond_holds st ->
  0 <= d <= 15 ->
  0 <= m <= 15 ->
  valid_shift shift_t shift_n ->
  MvnRegister_execute cfg instruction setflags m d shift_t shift_n st = dp_sem cfg MVN setflags (Some d) 0 (Op2Reg m shift_t shift_n) st.
Proof. dp_tac. Qed.

Theorem RorImmediate_sem cfg instruction setflags m d shift_n st :
  ictx cfg st ->
  cond_holds st ->
  0 <= d <= 15 ->
  0 <= m <= 15 ->
  0 <= shift_n ->
  RorImmediate_execute cfg instruction setflags m d shift_n st = dp_sem cfg MOV setflags (Some d) 0 (Op2Reg m Pseudocode.SRType_ROR shift_n) st.
Proof. dp_tac. Qed.

Theorem CmpRegisterShiftedRegister_sem cfg instruction m s n shift_t st :
  ictx cfg st ->
  cond_holds st ->
  0 <= n <= 15 ->
  0 <= m <= 15 ->
  0 <= s <= 15 ->
  (shift_t = Pseudocode.SRType_LSL \/ shift_t = Pseudocode.SRType_LSR \/ shift_t = Pseudocode.SRType_ASR \/ shift_t = Pseudocode.SRType_ROR) ->
  CmpRegisterShiftedRegister_execute cfg instruction m s n shift_t st = dp_sem cfg SUB 1 None n (Op2RegReg m shift_t s) st.
Proof. dp_tac. Qed.

Theorem TeqRegister_sem cfg instruction m n shift_t shift_n st :
  ictx cfg st ->
  cond_holds st ->
  0 <= n <= 15 ->
  0 <= m <= 15 ->
  valid_shift shift_t shift_n ->
  TeqRegister_execute cfg instruction m n shift_t shift_n st = dp_sem cfg EOR 1 None n (Op2Reg m shift_t shift_n) st.
Proof. dp_tac. Qed.
