rows=[('MovRegisterArmA1',0,'MovRegisterArm','Op2Plain m','cbn [op2_valid]; lia'),
      ('RrxA1',3,'Rrx','Op2Reg m SRType_RRX 1','split; [lia|]; split; [lia|]; right; right; right; right; split; reflexivity')]
hdr='''(* Proofs/StepInstancesMovReg.v — GENERATED text (same script as the other instance files): MOV{S}<c> Rd, Rm and RRX{S}<c> Rd, Rm
   (ARM A1: 0001 101S (0000) Rd 00000 type 0 Rm with type = 00 / 11), end to end. *)
Set Default Timeout 240.
From Coq Require Import ZArith List Bool Lia ZifyBool.
From ArmV Require Import Lib.PyZ Lib.Monad Lib.Machine Spec.Pseudocode Spec.Arch Spec.MachineView Spec.Branches Spec.StepFrame
  Spec.OperandSpec Spec.DPSem
  Proofs.SpecFacts Proofs.StateLemmas Proofs.CondProofs Proofs.GuardProofs Proofs.BankProofs Proofs.MachineOps Proofs.DPLemmas
  Proofs.DPClasses0 Proofs.DPClasses1 Proofs.DPClasses2 Proofs.DPClasses3 Proofs.DPClasses4 Proofs.DPClasses5 Proofs.DPClasses6 Proofs.DPClasses7
  Proofs.StepProofs Proofs.StepDP Proofs.DPRange Proofs.StepDPReg Proofs.StepInstances Proofs.OpTac
  Proofs.OpsA0 Proofs.OpsA1 Proofs.OpsA2 Proofs.OpsA3 Proofs.OpsA4 Proofs.OpsA5 Proofs.OpsA6 Proofs.OpsA7.
From Gen Require Import enums bits_ops shift regviews records hubm opsyn core exec conc decoders step.
Import ListNotations.
Open Scope Z_scope.
Ltac Zify.zify_post_hook ::= Z.to_euclidean_division_equations.

Definition is_mov_reg_a1 (ty w : Z) : Prop :=
  bits w 31 28 <> 15 /\\ bit w 27 = 0 /\\ bit w 26 = 0 /\\ bit w 25 = 0 /\\ bit w 24 = 1 /\\ bit w 23 = 1 /\\ bit w 22 = 0 /\\ bit w 21 = 1
  /\\ bit w 4 = 0 /\\ bits w 6 5 = ty /\\ bits w 11 7 = 0 /\\ regs13 [bits w 15 12; bits w 3 0] = true.
'''
body=''
for cls,ty,ab,o2,valid in rows:
    low=cls[0].lower()+cls[1:]
    body+=f'''
(* ================= {cls} ================= *)
Lemma decode_{cls} w s : 0 <= w < 2 ^ 32 -> is_mov_reg_a1 {ty} w -> iset_of s = 0 ->
  ArmV6_decode_instruction w s = Ok (Some enc_{cls}) s.
Proof.
  intros Hw (Hc & H27 & H26 & H25 & H24 & H23 & H22 & H21 & H4 & Hty & Himm & Hr) Hi. split_regs.
  unfold ArmV6_decode_instruction, op_decode_instruction.
  rewrite !run_bind, current_instr_set_spec. cbv beta iota. rewrite Hi. unfold InstrSet_ARM. cbn [Z.eqb]. cbv iota.
  rewrite run_bind.
  assert (D : dec_arm_instruction_set w = Val (Some enc_{cls})).
  {{ dec_step dec_arm_instruction_set. pose_expand w 27 25. pose_expand w 27 26. ops_if. cbn [ebind].
    dec_step dec_arm_data_processing_and_miscellaneous_instructions. pose_expand w 24 23. ops_if. cbn [ebind].
    dec_step dec_arm_data_processing_register. pose_expand w 24 21. ops_if. reflexivity. }}
  rewrite D. reflexivity.
Qed.
Lemma from_bitarray_{cls} cfg w s : 0 <= w < 2 ^ 32 -> is_mov_reg_a1 {ty} w ->
  from_bitarray_dispatch cfg enc_{cls} w s = Ok (Some (code_{ab}, [w; bit w 20; bits w 3 0; bits w 15 12])) s.
Proof.
  intros Hw (_ & _ & _ & _ & _ & _ & _ & _ & _ & _ & _ & Hr).
  pose proof (ops_{cls} w s Hw Hr) as H. unfold fb_out, fb_plain, fb_opt, fb_res, fb_res_opt, fb_m, fb_m_opt in H.
  unfold from_bitarray_dispatch, enc_{cls}. cbv iota. unfold bind, ret, lift in *.
  repeat match goal with
  | H : match ?x with _ => _ end = _ |- context[?x] => destruct x; try discriminate H
  end.
  inversion H. first [reflexivity | match goal with E : _ = Some _ |- _ => rewrite E end; reflexivity].
Qed.
Theorem {low}_step cfg s w s1 :
  ArmV6_fetch_instruction cfg s = Ok w s1 ->
  0 <= w < 2 ^ 32 -> is_mov_reg_a1 {ty} w -> iset_of s1 = 0 -> ictx cfg s1 -> cond_holds s1 ->
  let d := bits w 15 12 in let m := bits w 3 0 in
  let op := (code_{ab}, [w; bit w 20; m; d]) in
  exists s2,
    dp_sem cfg MOV (bit w 20) (Some d) 0 ({o2}) (begin_instr s1 op) = Ok tt s2 /\\
    ArmV6_emulate_cycle cfg s = Ok tt (AdvancePC (it_step_after s1 s2)) /\\
    pc_of (AdvancePC (it_step_after s1 s2)) = add32 (pc_of s1) (opcode_len s1 / 8).
Proof.
  intros Hf Hw Hcube Hi Hctx Hcond. pose_all_ranges. intros d m op.
  pose proof Hcube as (_ & _ & _ & _ & _ & _ & _ & _ & _ & _ & _ & Hr). split_regs.
  assert (Qd : 0 <= d <= 14) by (unfold d; lia). assert (Qm : 0 <= m <= 15) by (unfold m; lia).
  apply (dp_step cfg s w s1 enc_{cls} op MOV (bit w 20) d 0 ({o2}) Hf); try lia; try assumption;
    try (cbn [op2_valid]; first [lia | (split; [lia|]; split; [lia|]; right; right; right; right; split; reflexivity)]).
  - apply decode_{cls}; assumption.
  - apply from_bitarray_{cls}; assumption.
  - change (execute_dispatch cfg op (begin_instr s1 op)) with ({ab}_execute cfg w (bit w 20) m d (begin_instr s1 op)).
    apply {ab}_sem; try lia; [apply ictx_begin; exact Hctx|apply cond_holds_begin; exact Hcond].
Qed.
'''
open('/tmp/coqdev/theories/Proofs/StepInstancesMovReg.v','w').write(hdr+body)
