(* Proofs/StepDPReg.v — the whole step of a data-processing instruction with ANY operand form (immediate, shifted register,
   register-shifted register, plain register) and a destination other than the PC. *)
Set Default Timeout 240.
From Coq Require Import ZArith List Bool Lia ZifyBool.
From ArmV Require Import Lib.PyZ Lib.Monad Lib.Machine Spec.Pseudocode Spec.Arch Spec.MachineView Spec.Branches Spec.StepFrame
  Spec.DPSem Proofs.SpecFacts Proofs.ArchFacts Proofs.StateLemmas Proofs.CondProofs Proofs.GuardProofs Proofs.BankProofs Proofs.MachineOps
  Proofs.DPLemmas Proofs.DPTactics Proofs.BranchProofs Proofs.BlockProofs Proofs.StepProofs Proofs.StepDP Proofs.DPRange.
From Gen Require Import enums bits_ops shift regviews records hubm opsyn core exec conc decoders step.
Import ListNotations.
Open Scope Z_scope.

(* Rd != PC: dp_sem completes, keeps the context, leaves the PC and its "written" flag alone *)
Lemma dp_sem_ok cfg opA S d n o s : ictx cfg s -> 0 <= d <= 14 -> 0 <= n <= 15 -> op2_valid o ->
  exists s2, dp_sem cfg opA S (Some d) n o s = Ok tt s2 /\ ictx cfg s2 /\
             getl (changed s2) 15 = getl (changed s) 15 /\ getl (R s2) pc_index = getl (R s) pc_index /\
             opcode_len s2 = opcode_len s.
Proof.
  intros Hctx Hd Hn Ho.
  assert (Hex : exists s2, dp_sem cfg opA S (Some d) n o s = Ok tt s2).
  { unfold dp_sem. destruct (eval_op2 s o) as [op2 shc]. destruct (dp_alu opA (rget s n) op2 (psr_C (cpsr_of s))) as [result cv].
    replace (d =? 15) with false by lia. destruct (S =? 0); eexists; reflexivity. }
  destruct Hex as [s2 Hs2]. exists s2. split; [exact Hs2|].
  split; [apply (dp_sem_ictx cfg opA S (Some d) n o s s2 Hctx Hn Ho ltac:(cbv iota; lia) Hs2)|].
  revert Hs2. unfold dp_sem. destruct (eval_op2 s o) as [op2 shc]. destruct (dp_alu opA (rget s n) op2 (psr_C (cpsr_of s))) as [result cv].
  replace (d =? 15) with false by lia.
  pose proof (spec_ridx_range d (mode_of s) ltac:(lia)) as Rx.
  assert (Fr : getl (changed (rset s d result)) 15 = getl (changed s) 15 /\
               getl (R (rset s d result)) pc_index = getl (R s) pc_index /\ opcode_len (rset s d result) = opcode_len s).
  { unfold rset, mark_changed. cbn [changed R opcode_len set_R set_changed]. split; [|split; [|reflexivity]].
    - unfold getl. rewrite nth_upd_other by lia. reflexivity.
    - apply getl_setl_other; unfold pc_index; lia. }
  destruct (S =? 0); intros H; inversion H; exact Fr.
Qed.

Theorem dp_step cfg s w s1 enc op opA S d n o :
  ArmV6_fetch_instruction cfg s = Ok w s1 ->
  ArmV6_decode_instruction w s1 = Ok (Some enc) s1 ->
  from_bitarray_dispatch cfg enc w s1 = Ok (Some op) s1 ->
  execute_dispatch cfg op (begin_instr s1 op) = dp_sem cfg opA S (Some d) n o (begin_instr s1 op) ->
  ictx cfg s1 -> 0 <= d <= 14 -> 0 <= n <= 15 -> op2_valid o ->
  exists s2,
    dp_sem cfg opA S (Some d) n o (begin_instr s1 op) = Ok tt s2 /\
    ArmV6_emulate_cycle cfg s = Ok tt (AdvancePC (it_step_after s1 s2)) /\
    pc_of (AdvancePC (it_step_after s1 s2)) = add32 (pc_of s1) (opcode_len s1 / 8).
Proof.
  intros Hf Hdec Hfb Hex Hctx Hd Hn Ho.
  destruct (dp_sem_ok cfg opA S d n o (begin_instr s1 op) (ictx_begin cfg s1 op Hctx) Hd Hn Ho)
    as (s2 & Hs2 & Hctx2 & Hch & Hpc & Hlen).
  exists s2. split; [exact Hs2|]. rewrite Hs2 in Hex.
  split.
  - apply (step_completes cfg s w s1 enc op s2 Hf Hdec Hfb Hex).
    + apply (ok_cpsr cfg s2 (i_ok cfg s2 Hctx2)).
    + apply (ok_changed_len cfg s2 (i_ok cfg s2 Hctx2)).
  - pose proof (ok_R_len cfg s2 (i_ok cfg s2 Hctx2)) as HL2.
    change (getl (changed (begin_instr s1 op)) 15) with 0 in Hch.
    change (getl (R (begin_instr s1 op)) pc_index) with (pc_of s1) in Hpc.
    change (opcode_len (begin_instr s1 op)) with (opcode_len s1) in Hlen.
    unfold AdvancePC, pc_written, it_step_after.
    destruct (InITBlock (psr_IT (cpsr_of s1))); unfold it_advance_state; cbn [changed R opcode_len set_sys];
      rewrite Hch; cbn [Z.eqb negb]; cbv iota; unfold pc_of at 1; cbn [R set_R set_sys];
      (rewrite getl_setl_same by (unfold pc_index; rewrite ?HL2; lia));
      unfold pc_of at 1; cbn [R set_sys]; rewrite Hpc, Hlen; reflexivity.
Qed.

Lemma DecodeImmShift_valid t imm5 : 0 <= t <= 3 -> 0 <= imm5 < 32 ->
  valid_shift (fst (DecodeImmShift t imm5)) (snd (DecodeImmShift t imm5)).
Proof.
  intros Ht Hi. unfold DecodeImmShift, valid_shift, SRType_LSL, SRType_LSR, SRType_ASR, SRType_ROR, SRType_RRX.
  destruct (t =? 0) eqn:E0; [cbn [fst snd]; split; [lia|auto]|].
  destruct (t =? 1) eqn:E1; [cbn [fst snd]; split; [destruct (imm5 =? 0); lia|auto]|].
  destruct (t =? 2) eqn:E2; [cbn [fst snd]; split; [destruct (imm5 =? 0); lia|auto]|].
  destruct (imm5 =? 0) eqn:E3; cbn [fst snd]; split; try lia; auto 10.
Qed.
