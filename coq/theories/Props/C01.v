(* Props/C01.v — C01, frame part: whatever a data-processing instruction computes (dp_sem), it leaves
   memory, the MPU/translation registers, every system register other than the CPSR, and every
   general register other than its destination (current bank) unchanged.  Statements only. *)
From Coq Require Import ZArith List Bool.
From ArmV Require Import Lib.PyZ Lib.Monad Lib.Machine Spec.Pseudocode Spec.Arch
  Proofs.StateLemmas Proofs.CondProofs Proofs.BankProofs Proofs.MachineOps Spec.DPSem Proofs.DPFrame.
Open Scope Z_scope.

Theorem C01_frame cfg op S dest n o s s' : dp_sem cfg op S dest n o s = Ok tt s' -> same_but_regs_flags s s'.
Proof. exact (dp_sem_frame cfg op S dest n o s s'). Qed.
Print Assumptions C01_frame.
Theorem C01_frame_regs cfg op S d n o s s' k : dp_sem cfg op S (Some d) n o s = Ok tt s' -> 0 <= d <= 14 -> 0 <= k ->
  k <> spec_ridx d (mode_of s) -> getl (R s') k = getl (R s) k.
Proof. exact (dp_sem_regs cfg op S d n o s s' k). Qed.
Print Assumptions C01_frame_regs.
Theorem C01_frame_compare cfg op S n o s s' : dp_sem cfg op S None n o s = Ok tt s' -> R s' = R s /\ changed s' = changed s.
Proof. exact (dp_sem_cmp_regs cfg op S n o s s'). Qed.
Print Assumptions C01_frame_compare.
