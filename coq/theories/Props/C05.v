(* Props/C05.v — C05: conditional execution.  Statements only (proofs in Proofs/CondProofs.v,
   Proofs/GuardProofs.v).  Left: code regenerated from arm_v6.py and every abstract_opcodes/*.py. *)
From Coq Require Import ZArith Bool List.
From ArmV Require Import Lib.PyZ Lib.Monad Lib.Machine Spec.Pseudocode Spec.Arch
  Proofs.StateLemmas Proofs.CondProofs Proofs.GuardProofs.
From Gen Require Import enums opsyn core exec step.
Import ListNotations.
Open Scope Z_scope.

(* CurrentCond(): ARM cond field, Thumb B<c> T1/T3 cond fields, otherwise the IT state — every state *)
Theorem C05_current_cond s :
  ArmV6_current_cond s = Ok (CurrentCond (iset_of s) (opcode_w s) (opcode_len s) (psr_IT (cpsr_of s))) s.
Proof. exact (current_cond_spec s). Qed.
Print Assumptions C05_current_cond.

(* ConditionPassed() is the architecture's 16-entry table of N, Z, C, V — every state (all 16 x 16 inside) *)
Theorem C05_table s :
  ArmV6_condition_passed s =
  Ok (B2Z (ConditionHolds (cond_of s) (psr_N (cpsr_of s)) (psr_Z (cpsr_of s)) (psr_C (cpsr_of s)) (psr_V (cpsr_of s)))) s.
Proof. exact (condition_passed_spec s). Qed.
Print Assumptions C05_table.

(* every conditional instruction class (all but BKPT, CBZ, CPS, ENTERX/LEAVEX, IT, SETEND), with any
   operands, is a no-op when its condition fails: state unchanged, no exception *)
Theorem C05_guard cfg c fl s : In c all_opcode_codes -> is_conditional_class c = true -> cond_fails s ->
  execute_dispatch cfg (c, fl) s = Ok tt s.
Proof. exact (guard_all_classes cfg c fl s). Qed.
Print Assumptions C05_guard.

(* when the condition passes the guard is transparent: the instruction's body runs *)
Theorem C05_pass (body : M machine unit) s : cond_holds s ->
  (t <- ArmV6_condition_passed ;; _ <- (if truthy t then body else ret tt) ;; ret tt) s = (_ <- body ;; ret tt) s.
Proof. exact (guard_pass body s). Qed.
Print Assumptions C05_pass.

(* non-vacuity: 266 classes are conditional; EQ fails when Z = 0 *)
Example C05_ex_count : length (filter is_conditional_class all_opcode_codes) = 266%nat.
Proof. vm_compute. reflexivity. Qed.
Example C05_ex_eq_fails : ConditionHolds 0 0 0 1 0 = false /\ ConditionHolds 0 0 1 0 0 = true.
Proof. vm_compute. auto. Qed.
