"""C08 — IT blocks."""
import copy
import common as C
import statelib
from framework import Unit

IMPORTS = 'From Gen Require Import enums opsyn core exec step.'
SPEC_IMPORTS = 'From ArmV Require Import Spec.Pseudocode Spec.Arch.'


def adv_cases(rng, tier):
    t = statelib.load_index(C.GEN)['tables']
    icpsr = t['sys_names'].index('cpsr')
    base = statelib.reset_state(t, mem=[])
    out = []
    for it in range(256):
        for rest in ((0x13,) if tier == 'quick' else (0x13, 0xF80F01D0 | 0x10)):
            st = copy.deepcopy(base)
            cpsr = (rest & ~((0x3F << 10) | (3 << 25))) | ((it >> 2) << 10) | ((it & 3) << 25) | (1 << 5)
            st['sys'][icpsr] = cpsr
            m = statelib.coq_machine(st)
            spec = f'(enc_pure enc_Z (with_IT {cpsr} (ITAdvance {it})))'
            out.append({'impl': {'kind': 'method', 'state': st, 'method': 'registers.it_advance', 'args': [], 'rt': ['unit'],
                                 '_probe': 'cpsr'},
                        'model': f'(match Registers_it_advance {m} with Ok _ s => [0; getl (sys s) slot_cpsr] | Exc e _ => exn_enc e end)',
                        'spec': spec, 'label': 'it_advance', 'nontrivial': True})
    return out


def units():
    return [
        Unit('it_advance', ['C08_advance', 'C08_in_it_block', 'C08_last_in_it_block'], ['Proofs/CondProofs.v'],
             ['registers.Registers.it_advance', 'arm_v6.ArmV6.in_it_block', 'arm_v6.ArmV6.last_in_it_block'],
             adv_cases, IMPORTS, SPEC_IMPORTS),
        Unit('it_schedule', ['C08_schedule', 'C08_advance_all'], ['Proofs/ITSchedule.v'], [], None, IMPORTS, SPEC_IMPORTS),
    ]
