(* Proofs/DecArm2.v — further ARM groups: the regenerated sub-decoders agree with the tables of Spec/DecTablesA2.v on every word of
   the group's domain (reflective cube checker of Proofs/Cube.v). *)
From Coq Require Import ZArith List Bool String Lia.
From ArmV Require Import Lib.PyZ Proofs.Cube Proofs.DecodeReify Spec.DecTables Spec.DecTablesA2 Proofs.DecArm1.
From Gen Require Import bits_ops opsyn decoders.
Import ListNotations.
Open Scope Z_scope.

Ltac reify_opt2 f env :=
  eexists; intros w; unfold f; cbv zeta;
  match goal with |- eval _ _ ?T w = ?rhs => let e := eval unfold env in env in let t := reify_t (option Z) w e rhs in unify T t end;
  reflexivity.
Ltac reify_res2 f env :=
  eexists; intros w; unfold f; cbv zeta;
  match goal with |- eval _ _ ?T w = ?rhs => let e := eval unfold env in env in let t := reify_t (res (option Z)) w e rhs in unify T t end;
  reflexivity.

Lemma dpr_reified : { t : tree (option Z) | forall w, eval a_no_env None t w = dec_arm_data_processing_register w }.
Proof. reify_opt2 dec_arm_data_processing_register a_no_env. Defined.
Theorem dec_arm_dpr_table w : 0 <= w < 2 ^ 32 -> in_domains w [a_dpr_domain] ->
  dec_arm_data_processing_register w = eval_leaf a_no_env None (lookup a_dpr_table (LRet None) w) w.
Proof.
  intros Hw [s [Hs Hd]]. rewrite <- (proj2_sig dpr_reified w).
  assert (G : forallb (fun s => check2 32%nat optZ_eqb a_dpr_table (LRet None) 400 (proj1_sig dpr_reified) (cube_of 32%nat s)) [a_dpr_domain] = true)
    by (vm_compute; reflexivity).
  rewrite forallb_forall in G. specialize (G s Hs).
  apply (decode_correct_cube 32%nat optZ_eqb optZ_eqb_sound a_no_env None a_dpr_table (LRet None) (proj1_sig dpr_reified) 400 (cube_of 32%nat s) G).
  apply inc_cube_of; assumption.
Qed.

Lemma rsr_reified : { t : tree (option Z) | forall w, eval a_no_env None t w = dec_arm_data_processing_register_shifted_register w }.
Proof. reify_opt2 dec_arm_data_processing_register_shifted_register a_no_env. Defined.
Theorem dec_arm_rsr_table w : 0 <= w < 2 ^ 32 -> in_domains w [a_rsr_domain] ->
  dec_arm_data_processing_register_shifted_register w = eval_leaf a_no_env None (lookup a_rsr_table (LRet None) w) w.
Proof.
  intros Hw [s [Hs Hd]]. rewrite <- (proj2_sig rsr_reified w).
  assert (G : forallb (fun s => check2 32%nat optZ_eqb a_rsr_table (LRet None) 400 (proj1_sig rsr_reified) (cube_of 32%nat s)) [a_rsr_domain] = true)
    by (vm_compute; reflexivity).
  rewrite forallb_forall in G. specialize (G s Hs).
  apply (decode_correct_cube 32%nat optZ_eqb optZ_eqb_sound a_no_env None a_rsr_table (LRet None) (proj1_sig rsr_reified) 400 (cube_of 32%nat s) G).
  apply inc_cube_of; assumption.
Qed.

Lemma hmul_reified : { t : tree (option Z) | forall w, eval a_no_env None t w = dec_arm_halfword_multiply_and_multiply_accumulate w }.
Proof. reify_opt2 dec_arm_halfword_multiply_and_multiply_accumulate a_no_env. Defined.
Theorem dec_arm_hmul_table w : 0 <= w < 2 ^ 32 ->
  dec_arm_halfword_multiply_and_multiply_accumulate w = eval_leaf a_no_env None (lookup a_hmul_table (LRet None) w) w.
Proof.
  intros Hw. rewrite <- (proj2_sig hmul_reified w).
  apply (decode_correct 32%nat optZ_eqb optZ_eqb_sound a_no_env None a_hmul_table (LRet None) (proj1_sig hmul_reified) 400).
  - vm_compute. reflexivity.
  - exact Hw.
Qed.

Lemma sat_reified : { t : tree (option Z) | forall w, eval a_no_env None t w = dec_arm_saturating_addition_and_subtraction w }.
Proof. reify_opt2 dec_arm_saturating_addition_and_subtraction a_no_env. Defined.
Theorem dec_arm_sat_table w : 0 <= w < 2 ^ 32 ->
  dec_arm_saturating_addition_and_subtraction w = eval_leaf a_no_env None (lookup a_sat_table (LRet None) w) w.
Proof.
  intros Hw. rewrite <- (proj2_sig sat_reified w).
  apply (decode_correct 32%nat optZ_eqb optZ_eqb_sound a_no_env None a_sat_table (LRet None) (proj1_sig sat_reified) 400).
  - vm_compute. reflexivity.
  - exact Hw.
Qed.

Lemma sync_reified : { t : tree (option Z) | forall w, eval a_no_env None t w = dec_arm_synchronization_primitives w }.
Proof. reify_opt2 dec_arm_synchronization_primitives a_no_env. Defined.
Theorem dec_arm_sync_table w : 0 <= w < 2 ^ 32 ->
  dec_arm_synchronization_primitives w = eval_leaf a_no_env None (lookup a_sync_table (LRet None) w) w.
Proof.
  intros Hw. rewrite <- (proj2_sig sync_reified w).
  apply (decode_correct 32%nat optZ_eqb optZ_eqb_sound a_no_env None a_sync_table (LRet None) (proj1_sig sync_reified) 400).
  - vm_compute. reflexivity.
  - exact Hw.
Qed.

Lemma misc_reified : { t : tree (res (option Z)) | forall w, eval a_misc_env (Val None) t w = dec_arm_miscellaneous_instructions w }.
Proof. reify_res2 dec_arm_miscellaneous_instructions a_misc_env. Defined.
Theorem dec_arm_misc_table w : 0 <= w < 2 ^ 32 ->
  dec_arm_miscellaneous_instructions w = eval_leaf a_misc_env (Val None) (lookup a_misc_table (LRet (Val None)) w) w.
Proof.
  intros Hw. rewrite <- (proj2_sig misc_reified w).
  apply (decode_correct 32%nat res_eqb res_eqb_sound a_misc_env (Val None) a_misc_table (LRet (Val None)) (proj1_sig misc_reified) 400).
  - vm_compute. reflexivity.
  - exact Hw.
Qed.

Lemma xls_reified : { t : tree (option Z) | forall w, eval a_no_env None t w = dec_arm_extra_load_store_instructions w }.
Proof. reify_opt2 dec_arm_extra_load_store_instructions a_no_env. Defined.
Theorem dec_arm_xls_table w : 0 <= w < 2 ^ 32 -> in_domains w a_xls_domains ->
  dec_arm_extra_load_store_instructions w = eval_leaf a_no_env None (lookup a_xls_table (LRet None) w) w.
Proof.
  intros Hw [s [Hs Hd]]. rewrite <- (proj2_sig xls_reified w).
  assert (G : forallb (fun s => check2 32%nat optZ_eqb a_xls_table (LRet None) 400 (proj1_sig xls_reified) (cube_of 32%nat s)) a_xls_domains = true)
    by (vm_compute; reflexivity).
  rewrite forallb_forall in G. specialize (G s Hs).
  apply (decode_correct_cube 32%nat optZ_eqb optZ_eqb_sound a_no_env None a_xls_table (LRet None) (proj1_sig xls_reified) 400 (cube_of 32%nat s) G).
  apply inc_cube_of; assumption.
Qed.

Lemma xlsu_reified : { t : tree (option Z) | forall w, eval a_no_env None t w = dec_arm_extra_load_store_instructions_unprivileged w }.
Proof. reify_opt2 dec_arm_extra_load_store_instructions_unprivileged a_no_env. Defined.
Theorem dec_arm_xlsu_table w : 0 <= w < 2 ^ 32 ->
  dec_arm_extra_load_store_instructions_unprivileged w = eval_leaf a_no_env None (lookup a_xlsu_table (LRet None) w) w.
Proof.
  intros Hw. rewrite <- (proj2_sig xlsu_reified w).
  apply (decode_correct 32%nat optZ_eqb optZ_eqb_sound a_no_env None a_xlsu_table (LRet None) (proj1_sig xlsu_reified) 400).
  - vm_compute. reflexivity.
  - exact Hw.
Qed.

Lemma msr_reified : { t : tree (res (option Z)) | forall w, eval a_no_env_res (Val None) t w = dec_arm_msr_immediate_and_hints w }.
Proof. reify_res2 dec_arm_msr_immediate_and_hints a_no_env_res. Defined.
Theorem dec_arm_msr_table w : 0 <= w < 2 ^ 32 ->
  dec_arm_msr_immediate_and_hints w = eval_leaf a_no_env_res (Val None) (lookup a_msr_table (LRet (Val None)) w) w.
Proof.
  intros Hw. rewrite <- (proj2_sig msr_reified w).
  apply (decode_correct 32%nat res_eqb res_eqb_sound a_no_env_res (Val None) a_msr_table (LRet (Val None)) (proj1_sig msr_reified) 400).
  - vm_compute. reflexivity.
  - exact Hw.
Qed.

Lemma media_reified : { t : tree (option Z) | forall w, eval a_media_env None t w = dec_arm_media_instructions w }.
Proof. reify_opt2 dec_arm_media_instructions a_media_env. Defined.
Theorem dec_arm_media_table w : 0 <= w < 2 ^ 32 ->
  dec_arm_media_instructions w = eval_leaf a_media_env None (lookup a_media_table (LRet None) w) w.
Proof.
  intros Hw. rewrite <- (proj2_sig media_reified w).
  apply (decode_correct 32%nat optZ_eqb optZ_eqb_sound a_media_env None a_media_table (LRet None) (proj1_sig media_reified) 400).
  - vm_compute. reflexivity.
  - exact Hw.
Qed.

Lemma pas_reified : { t : tree (option Z) | forall w, eval a_no_env None t w = dec_arm_parallel_addition_and_subtraction_signed w }.
Proof. reify_opt2 dec_arm_parallel_addition_and_subtraction_signed a_no_env. Defined.
Theorem dec_arm_pas_table w : 0 <= w < 2 ^ 32 ->
  dec_arm_parallel_addition_and_subtraction_signed w = eval_leaf a_no_env None (lookup a_pas_table (LRet None) w) w.
Proof.
  intros Hw. rewrite <- (proj2_sig pas_reified w).
  apply (decode_correct 32%nat optZ_eqb optZ_eqb_sound a_no_env None a_pas_table (LRet None) (proj1_sig pas_reified) 400).
  - vm_compute. reflexivity.
  - exact Hw.
Qed.

Lemma pau_reified : { t : tree (option Z) | forall w, eval a_no_env None t w = dec_arm_parallel_addition_and_subtraction_unsigned w }.
Proof. reify_opt2 dec_arm_parallel_addition_and_subtraction_unsigned a_no_env. Defined.
Theorem dec_arm_pau_table w : 0 <= w < 2 ^ 32 ->
  dec_arm_parallel_addition_and_subtraction_unsigned w = eval_leaf a_no_env None (lookup a_pau_table (LRet None) w) w.
Proof.
  intros Hw. rewrite <- (proj2_sig pau_reified w).
  apply (decode_correct 32%nat optZ_eqb optZ_eqb_sound a_no_env None a_pau_table (LRet None) (proj1_sig pau_reified) 400).
  - vm_compute. reflexivity.
  - exact Hw.
Qed.

Lemma pack_reified : { t : tree (option Z) | forall w, eval a_no_env None t w = dec_arm_packing_unpacking_saturation_and_reversal w }.
Proof. reify_opt2 dec_arm_packing_unpacking_saturation_and_reversal a_no_env. Defined.
Theorem dec_arm_pack_table w : 0 <= w < 2 ^ 32 ->
  dec_arm_packing_unpacking_saturation_and_reversal w = eval_leaf a_no_env None (lookup a_pack_table (LRet None) w) w.
Proof.
  intros Hw. rewrite <- (proj2_sig pack_reified w).
  apply (decode_correct 32%nat optZ_eqb optZ_eqb_sound a_no_env None a_pack_table (LRet None) (proj1_sig pack_reified) 400).
  - vm_compute. reflexivity.
  - exact Hw.
Qed.

Lemma smul_reified : { t : tree (option Z) | forall w, eval a_no_env None t w = dec_arm_signed_multiply_signed_and_unsigned_divide w }.
Proof. reify_opt2 dec_arm_signed_multiply_signed_and_unsigned_divide a_no_env. Defined.
Theorem dec_arm_smul_table w : 0 <= w < 2 ^ 32 ->
  dec_arm_signed_multiply_signed_and_unsigned_divide w = eval_leaf a_no_env None (lookup a_smul_table (LRet None) w) w.
Proof.
  intros Hw. rewrite <- (proj2_sig smul_reified w).
  apply (decode_correct 32%nat optZ_eqb optZ_eqb_sound a_no_env None a_smul_table (LRet None) (proj1_sig smul_reified) 400).
  - vm_compute. reflexivity.
  - exact Hw.
Qed.

Lemma uncond_reified : { t : tree (res (option Z)) | forall w, eval a_uncond_env (Val None) t w = dec_arm_unconditional_instructions w }.
Proof. reify_res2 dec_arm_unconditional_instructions a_uncond_env. Defined.
Theorem dec_arm_uncond_table w : 0 <= w < 2 ^ 32 ->
  dec_arm_unconditional_instructions w = eval_leaf a_uncond_env (Val None) (lookup a_uncond_table (LRet (Val None)) w) w.
Proof.
  intros Hw. rewrite <- (proj2_sig uncond_reified w).
  apply (decode_correct 32%nat res_eqb res_eqb_sound a_uncond_env (Val None) a_uncond_table (LRet (Val None)) (proj1_sig uncond_reified) 400).
  - vm_compute. reflexivity.
  - exact Hw.
Qed.

Lemma cop_reified : { t : tree (res (option Z)) | forall w, eval a_no_env_res (Val None) t w = dec_arm_coprocessor_instructions_and_supervisor_call w }.
Proof. reify_res2 dec_arm_coprocessor_instructions_and_supervisor_call a_no_env_res. Defined.
Theorem dec_arm_cop_table w : 0 <= w < 2 ^ 32 ->
  dec_arm_coprocessor_instructions_and_supervisor_call w = eval_leaf a_no_env_res (Val None) (lookup a_cop_table (LRet (Val None)) w) w.
Proof.
  intros Hw. rewrite <- (proj2_sig cop_reified w).
  apply (decode_correct 32%nat res_eqb res_eqb_sound a_no_env_res (Val None) a_cop_table (LRet (Val None)) (proj1_sig cop_reified) 400).
  - vm_compute. reflexivity.
  - exact Hw.
Qed.

Lemma dpm_reified : { t : tree (res (option Z)) | forall w, eval a_dpm_env (Val None) t w = dec_arm_data_processing_and_miscellaneous_instructions w }.
Proof. reify_res2 dec_arm_data_processing_and_miscellaneous_instructions a_dpm_env. Defined.
Theorem dec_arm_dpm_table w : 0 <= w < 2 ^ 32 -> in_domains w a_dpm_domains ->
  dec_arm_data_processing_and_miscellaneous_instructions w = eval_leaf a_dpm_env (Val None) (lookup a_dpm_table (LRet (Val None)) w) w.
Proof.
  intros Hw [s [Hs Hd]]. rewrite <- (proj2_sig dpm_reified w).
  assert (G : forallb (fun s => check2 32%nat res_eqb a_dpm_table (LRet (Val None)) 400 (proj1_sig dpm_reified) (cube_of 32%nat s)) a_dpm_domains = true)
    by (vm_compute; reflexivity).
  rewrite forallb_forall in G. specialize (G s Hs).
  apply (decode_correct_cube 32%nat res_eqb res_eqb_sound a_dpm_env (Val None) a_dpm_table (LRet (Val None)) (proj1_sig dpm_reified) 400 (cube_of 32%nat s) G).
  apply inc_cube_of; assumption.
Qed.
