(* Proofs/CoprocProofs.v — coproc_accepted for the generic coprocessors against Spec/Coproc.v (no Virtualization Extensions). *)
From Coq Require Import ZArith List Bool Lia ZifyBool.
From ArmV Require Import Lib.PyZ Lib.Monad Lib.Machine Spec.Pseudocode Spec.Expected Spec.Arch Spec.MachineView Spec.Coproc
  Proofs.BitLemmas Proofs.SpecFacts Proofs.BitsOps Proofs.BitsOps2 Proofs.FieldsProofs Proofs.StateLemmas
  Proofs.CondProofs Proofs.BankProofs Proofs.MachineOps Proofs.HubProofs Proofs.MemProofs Proofs.MpuProofs.
From Gen Require Import enums bits_ops shift regviews records hubm opsyn core.
Import ListNotations.
Open Scope Z_scope.
Ltac Zify.zify_post_hook ::= Z.to_euclidean_division_equations.

Ltac cstep := repeat (first [rewrite bind_assoc_run | rewrite bind_ret_run | rewrite run_get_sys_bind | rewrite b_is_secure
                            | rewrite b_is_hyp | rewrite b_not_user]; cbv beta iota).

(* a denied access is UNDEFINED and changes nothing; a permitted one reaches the (unimplemented) coprocessor itself *)
Theorem coproc_accepted_spec cfg cp instr s :
  cfg_have_virt_ext cfg = 0 -> 0 <= cp < 14 -> cp <> 10 -> cp <> 11 ->
  ArmV6_coproc_accepted cfg cp instr s =
  if coproc_denied (truthy (cfg_have_security_ext cfg)) (IsSecure (sysctx_of cfg s) (cpsr_of s)) (mode_of s =? 16)
                   (getl (sys s) 10) (getl (sys s) 43) cp
  then Exc EUndefined s else Exc ENotImpl s.
Proof.
  intros Hvirt Hcp H10 H11. unfold ArmV6_coproc_accepted, eassert.
  replace (negb ((cp =? 10) || (cp =? 11))) with true by lia. unfold lift at 1. cstep.
  replace (negb ((cp =? 14) || (cp =? 15))) with true by lia. cbv iota.
  unfold coproc_denied, conf_have_security_ext, conf_have_virt_ext. rewrite Hvirt.
  unfold NSACR_get_cp_n, CPACR_get_cp_n, eassert. replace (cp <? 14) with true by lia. cbn [ebind].
  set (sec := IsSecure (sysctx_of cfg s) (cpsr_of s)).
  set (f := bits (getl (sys s) 43) (2 * cp + 1) (2 * cp)).
  assert (Hf : 0 <= f < 4). { subst f. unfold bits. replace (2 * cp + 1 - 2 * cp + 1) with 2 by lia. change (2 ^ 2) with 4. lia. }
  assert (Eg : AbstractRegister_getitem_slice (getl (sys s) 43) (1 + 2 * cp) (2 * cp) = f).
  { replace (1 + 2 * cp) with (2 * cp + 1) by lia. apply get_slice. lia. }
  assert (E1 : forall k : unit -> M machine (option Z),
    bind (if truthy (cfg_have_security_ext cfg)
          then bind (Registers_is_secure cfg) (fun t_1 =>
               bind (if negb (truthy t_1) then bind (get_sys 10) (fun r_2 => bind (lift (Val (AbstractRegister_getitem_int r_2 cp)))
                                                 (fun t_3 => ret (negb (truthy t_3)))) else ret false)
                    (fun b_4 : bool => if b_4 then raise EUndefined else ret tt))
          else ret tt) k s
    = if truthy (cfg_have_security_ext cfg) && negb sec && (bit (getl (sys s) 10) cp =? 0) then Exc EUndefined s else k tt s).
  { intros k. destruct (truthy (cfg_have_security_ext cfg)); [|reflexivity]. cstep. rewrite truthy_B2Z''. fold sec.
    destruct sec; cbn [negb andb]; cbv iota; cstep; [reflexivity|].
    unfold lift at 1. cstep. rewrite flag_get by lia. rewrite truthy_bit'.
    pose proof (bit01 (getl (sys s) 10) cp). destruct (bit (getl (sys s) 10) cp =? 1) eqn:Eb, (bit (getl (sys s) 10) cp =? 0) eqn:Eb0; try lia;
      cbn [negb]; reflexivity. }
  rewrite E1. clear E1.
  destruct (truthy (cfg_have_security_ext cfg) && negb sec && (bit (getl (sys s) 10) cp =? 0)); [reflexivity|].
  cbn [orb]. cstep. change (negb (truthy 0)) with true. cbn [orb andb]. cbv iota. cstep.
  unfold lift at 1. cstep. rewrite Eg.
  assert (Ef : f = 0 \/ f = 1 \/ f = 2 \/ f = 3) by lia.
  assert (Eh : forall x y, (truthy (cfg_have_security_ext cfg) && truthy 0 && x && y) = false)
    by (intros; change (truthy 0) with false; rewrite andb_false_r; reflexivity).
  Local Ltac cgo Eg Eh := repeat (progress (cstep; try (unfold lift at 1; cbv beta iota); rewrite ?Eg, ?truthy_B2Z'', ?Eh; cbn [Z.eqb Pos.eqb]; cbv iota)).
  destruct Ef as [-> | [-> | [-> | ->]]]; cbn [Z.eqb Pos.eqb]; cbv iota; cgo Eg Eh; try reflexivity.
  destruct (mode_of s =? 16); cbn [negb]; cbv iota; [reflexivity|]. cgo Eg Eh. reflexivity.
Qed.
