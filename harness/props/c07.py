"""C07 — Thumb decode: 16-bit class selection against the hand-written A6.2 table (all 2^16 halfwords are proved;
the correspondence samples them)."""
import common as C
from framework import Unit
import mkopthm

IMPORTS = 'From Gen Require Import decoders.'
SPEC_IMPORTS = 'From ArmV Require Import Proofs.Cube Spec.DecTables.'


def cases(rng, tier):
    out = []
    n = 1200 if tier == 'quick' else 65536
    ws = list(range(65536)) if tier != 'quick' else [rng.getrandbits(16) for _ in range(n - 256)] + list(range(0xBF00, 0xC000))
    for w in ws:
        out.append({'impl': {'kind': 'decode', 'module': 'thumb_instruction_set_encoding_16_bit', 'instr': w},
                    'model': f'(match dec_thumb_instruction_set_encoding_16_bit {w} with Some c => [0; 1; c] | None => [0; 0] end)',
                    'spec': f'(enc_leaf_opt (lookup t16_table (LRet None) {w}) [] {w})', 'label': 'thumb16', 'nontrivial': True})
    return out


T32_GROUPS = [
    ('t32_move_shift', 'thumb_move_register_and_immediate_shifts', 'dec_thumb_move_register_and_immediate_shifts', 't32_mvsh_table', 'no_env'),
    ('t32_dp_shifted_register', 'thumb_data_processing_shifted_register', 'dec_thumb_data_processing_shifted_register', 't32_dpsr_table', 't32_dpsr_env'),
    ('t32_dp_modified_immediate', 'thumb_data_processing_modified_immediate', 'dec_thumb_data_processing_modified_immediate', 't32_dpmi_table', 'no_env'),
    ('t32_plain_binary_immediate', 'thumb_data_processing_plain_binary_immediate', 'dec_thumb_data_processing_plain_binary_immediate', 't32_pbi_table', 'no_env'),
    ('t32_load_store_multiple', 'thumb_load_store_multiple', 'dec_thumb_load_store_multiple', 't32_lsm_table', 'no_env'),
    ('t32_dual_exclusive', 'thumb_load_store_dual_load_store_exclusive_table_branch', 'dec_thumb_load_store_dual_load_store_exclusive_table_branch', 't32_dual_table', 'no_env'),
    ('t32_store_single', 'thumb_store_single_data_item', 'dec_thumb_store_single_data_item', 't32_sts_table', 'no_env'),
    ('t32_load_word', 'thumb_load_word', 'dec_thumb_load_word', 't32_ldw_table', 'no_env'),
    ('t32_load_byte', 'thumb_load_byte_memory_hints', 'dec_thumb_load_byte_memory_hints', 't32_ldb_table', 'res'),
    ('t32_branches_misc_control', 'thumb_branches_and_miscellaneous_control', 'dec_thumb_branches_and_miscellaneous_control', 't32_bmc_table', 'res:t32_bmc_env'),
    ('t32_cps_hints', 'thumb_change_processor_state_and_hints', 'dec_thumb_change_processor_state_and_hints', 't32_cps_table', 'res'),
    ('t32_misc_control', 'thumb_miscellaneous_control_instructions', 'dec_thumb_miscellaneous_control_instructions', 't32_mctl_table', 'res'),
    ('t32_load_halfword', 'thumb_load_halfword_memory_hints', 'dec_thumb_load_halfword_memory_hints', 't32_ldh_table', 'no_env'),
    ('t32_dp_register', 'thumb_data_processing_register', 'dec_thumb_data_processing_register', 't32_dpr_table', 't32_dpr_env'),
    ('t32_multiply', 'thumb_multiply_multiply_accumulate_and_absolute_difference', 'dec_thumb_multiply_multiply_accumulate_and_absolute_difference', 't32_mul_table', 'no_env'),
    ('t32_long_multiply', 'thumb_long_multiply_long_multiply_accumulate_and_divide', 'dec_thumb_long_multiply_long_multiply_accumulate_and_divide', 't32_lmul_table', 'no_env'),
    ('t32_parallel_signed', 'thumb_parallel_addition_and_subtraction_signed', 'dec_thumb_parallel_addition_and_subtraction_signed', 't32_pas_table', 'no_env'),
    ('t32_parallel_unsigned', 'thumb_parallel_addition_and_subtraction_unsigned', 'dec_thumb_parallel_addition_and_subtraction_unsigned', 't32_pau_table', 'no_env'),
    ('t32_misc_operations', 'thumb_miscellaneous_operations', 'dec_thumb_miscellaneous_operations', 't32_misc_table', 'no_env'),
    ('t32_coprocessor', 'thumb_coprocessor_advanced_simd_and_floating_point_instructions', 'dec_thumb_coprocessor_advanced_simd_and_floating_point_instructions', 't32_cop_table', 'res'),
]


def t32_rows(table):
    import os, re
    src = open(os.path.join(C.VERIF, 'coq', 'theories', 'Spec', 'DecTablesT32.v')).read()
    i = src.index(f'Definition {table} ')
    body = src[i:src.index('].', i)]
    return [re.sub(r'\s', '', m) for m in re.findall(r'row "([01x ]+)"', body)]


def t32_cases(rng, tier):
    """32-bit Thumb class selection of the proved groups: every table row, its one-bit neighbours, random members"""
    out = []
    n = 100 if tier == 'quick' else 5000
    for (label, module, fn, table, env) in T32_GROUPS:
        words = []
        for pat in t32_rows(table):
            assert len(pat) == 32, (table, pat)
            for rep in range(3 if tier == 'quick' else 40):
                w = 0
                for ch in pat:
                    w = (w << 1) | (int(ch) if ch in '01' else rng.getrandbits(1))
                words.append(w)
                if rep == 0:
                    for k, ch in enumerate(pat):
                        if ch in '01':
                            words.append(w ^ (1 << (31 - k)))
        words += [rng.getrandbits(32) for _ in range(n)]
        if label == 't32_load_halfword':          # the table covers Rt <> 1111 (the Rt = 1111 slots are preload hints)
            words = [w if (w >> 12) & 15 != 15 else w ^ (1 << 12) for w in words]
        for w in words:
            if env == 'res' or env.startswith('res:'):
                renv = env[4:] if env.startswith('res:') else '[]'
                model = f'(match {fn} {w} with Val (Some c) => [0; 1; c] | Val None => [0; 0] | Err EUndefined => [2; 6] | Err _ => [2; 7] end)'
                spec = (f'(match eval_leaf {renv} (Val None) (lookup {table} (LRet (Val None)) {w}) {w} with Val (Some c) => [0; 1; c] '
                        f'| Val None => [0; 0] | Err EUndefined => [2; 6] | Err _ => [2; 7] end)')
                out.append({'impl': {'kind': 'decode', 'module': module, 'instr': w}, 'model': model, 'spec': spec,
                            'label': label, 'nontrivial': True})
                continue
            model = f'(match {fn} {w} with Some c => [0; 1; c] | None => [0; 0] end)'
            spec = f'(enc_leaf_opt (lookup {table} (LRet None) {w}) {env} {w})'
            out.append({'impl': {'kind': 'decode', 'module': module, 'instr': w}, 'model': model, 'spec': spec,
                        'label': label, 'nontrivial': True})
    return out


def operand_cases(rng, tier):
    import opgen
    return opgen.operand_cases(rng, tier, False)


OP_IMPORTS = 'From Gen Require Import enums bits_ops shift opsyn core conc.'
OP_SPEC_IMPORTS = 'From ArmV Require Import Spec.Pseudocode.'


PROPS_FILES = ['C07'] + [f'C07ops{k}' for k in range(8)]


def units():
    return [Unit('thumb16', ['C07_thumb16'], ['Proofs/Cube.v', 'Proofs/DecodeReify.v', 'Proofs/DecThumb16.v'], [], cases, IMPORTS, SPEC_IMPORTS),
            Unit('thumb32_groups', ['C07_thumb32_top', 'C07_thumb32_move_shift', 'C07_thumb32_dp_shifted_register',
                                    'C07_thumb32_dp_modified_immediate', 'C07_thumb32_plain_binary_immediate'] +
                 ['C07_thumb32_' + s for s in ('lsm', 'dual', 'sts', 'ldw', 'dpr', 'mul', 'lmul', 'pas', 'pau', 'misc', 'ldh', 'ldb', 'bmc', 'cps', 'mctl', 'cop')],
                 ['Proofs/Cube.v', 'Proofs/DecodeReify.v', 'Proofs/DecThumb32.v'], [], t32_cases, IMPORTS,
                 SPEC_IMPORTS + '\nFrom ArmV Require Import Spec.DecTablesT32.'),
            Unit('operands', ['C07_ops_' + c for c in mkopthm.classes(False)],
                 ['Proofs/OpTac.v'] + [f'Proofs/OpsT{k}.v' for k in range(8)], [], operand_cases, OP_IMPORTS, OP_SPEC_IMPORTS)]
