(* Props/C06ops6.v — C06: operand extraction of the ARM encodings (shard 6 of 8).
   For every word of the stated domain, from_bitarray returns the class with the fields the encoding diagram
   names, and leaves the state alone.  Statements rendered from harness/optable.py by harness/mkopthm.py. *)
From Coq Require Import ZArith List Bool Lia ZifyBool.
From ArmV Require Import Lib.PyZ Lib.Monad Lib.Machine Spec.Pseudocode Spec.Arch Spec.MachineView Spec.OperandSpec.
From Gen Require Import enums bits_ops shift regviews records hubm opsyn core exec conc.
Import ListNotations.
Open Scope Z_scope.
From ArmV Require Proofs.OpsA6.

Theorem C06_ops_AddSpPlusImmediateA1 w s :
  0 <= w < 2 ^ 32 ->
  regs13 [bits w 15 12] = true ->
  fb_out (AddSpPlusImmediateA1_from_bitarray w) s = Ok (Some (code_AddSpPlusImmediate, [w; bit w 20; bits w 15 12; ARMExpandImm (bits w 11 0)])) s.
Proof. exact (OpsA6.ops_AddSpPlusImmediateA1 w s). Qed.
Print Assumptions C06_ops_AddSpPlusImmediateA1.

Theorem C06_ops_AsrRegisterA1 w s :
  0 <= w < 2 ^ 32 ->
  regs13 [bits w 15 12; bits w 11 8; bits w 3 0] = true ->
  fb_out (AsrRegisterA1_from_bitarray w) s = Ok (Some (code_AsrRegister, [w; bit w 20; bits w 11 8; bits w 15 12; bits w 3 0])) s.
Proof. exact (OpsA6.ops_AsrRegisterA1 w s). Qed.
Print Assumptions C06_ops_AsrRegisterA1.

Theorem C06_ops_BxA1 w s :
  0 <= w < 2 ^ 32 ->
  regs13 [bits w 3 0] = true ->
  fb_out (BxA1_from_bitarray w) s = Ok (Some (code_Bx, [w; bits w 3 0])) s.
Proof. exact (OpsA6.ops_BxA1 w s). Qed.
Print Assumptions C06_ops_BxA1.

Theorem C06_ops_CmnRegisterShiftedRegisterA1 w s :
  0 <= w < 2 ^ 32 ->
  regs13 [bits w 19 16; bits w 11 8; bits w 3 0] = true ->
  fb_out (CmnRegisterShiftedRegisterA1_from_bitarray w) s = Ok (Some (code_CmnRegisterShiftedRegister, [w; bits w 3 0; bits w 11 8; bits w 19 16; DecodeRegShift (bits w 6 5)])) s.
Proof. exact (OpsA6.ops_CmnRegisterShiftedRegisterA1 w s). Qed.
Print Assumptions C06_ops_CmnRegisterShiftedRegisterA1.

Theorem C06_ops_EorRegisterShiftedRegisterA1 w s :
  0 <= w < 2 ^ 32 ->
  regs13 [bits w 19 16; bits w 15 12; bits w 11 8; bits w 3 0] = true ->
  fb_out (EorRegisterShiftedRegisterA1_from_bitarray w) s = Ok (Some (code_EorRegisterShiftedRegister, [w; bit w 20; bits w 3 0; bits w 11 8; bits w 15 12; bits w 19 16; DecodeRegShift (bits w 6 5)])) s.
Proof. exact (OpsA6.ops_EorRegisterShiftedRegisterA1 w s). Qed.
Print Assumptions C06_ops_EorRegisterShiftedRegisterA1.

Theorem C06_ops_LdmUserRegistersA1 w s :
  0 <= w < 2 ^ 32 ->
  regs13 [bits w 19 16] = true ->
  bit w 15 = 0 ->
  pre_reglist w = true ->
  fb_out (LdmUserRegistersA1_from_bitarray w) s = Ok (Some (code_LdmUserRegisters, [w; bit w 23; if bit w 24 =? bit w 23 then 1 else 0; bits w 14 0; bits w 19 16])) s.
Proof. exact (OpsA6.ops_LdmUserRegistersA1 w s). Qed.
Print Assumptions C06_ops_LdmUserRegistersA1.

Theorem C06_ops_LdrbLiteralA1 w s :
  0 <= w < 2 ^ 32 ->
  regs13 [bits w 15 12] = true ->
  pre_lit w = true ->
  fb_out (LdrbLiteralA1_from_bitarray w) s = Ok (Some (code_LdrbLiteral, [w; bit w 23; bits w 11 0; bits w 15 12])) s.
Proof. exact (OpsA6.ops_LdrbLiteralA1 w s). Qed.
Print Assumptions C06_ops_LdrbLiteralA1.

Theorem C06_ops_LdrexbA1 w s :
  0 <= w < 2 ^ 32 ->
  regs13 [bits w 19 16; bits w 15 12] = true ->
  fb_out (LdrexbA1_from_bitarray w) s = Ok (Some (code_Ldrexb, [w; bits w 15 12; bits w 19 16])) s.
Proof. exact (OpsA6.ops_LdrexbA1 w s). Qed.
Print Assumptions C06_ops_LdrexbA1.

Theorem C06_ops_LdrsbImmediateA1 w s :
  0 <= w < 2 ^ 32 ->
  regs13 [bits w 19 16; bits w 15 12] = true ->
  fb_out (LdrsbImmediateA1_from_bitarray w) s = Ok (Some (code_LdrsbImmediate, [w; bit w 23; if (bit w 24 =? 0) || (bit w 21 =? 1) then 1 else 0; bit w 24; bits w 11 8 * 16 + bits w 3 0; bits w 15 12; bits w 19 16])) s.
Proof. exact (OpsA6.ops_LdrsbImmediateA1 w s). Qed.
Print Assumptions C06_ops_LdrsbImmediateA1.

Theorem C06_ops_LdrshtA1 w s :
  0 <= w < 2 ^ 32 ->
  regs13 [bits w 19 16; bits w 15 12] = true ->
  fb_out (LdrshtA1_from_bitarray w) s = Ok (Some (code_Ldrsht, [w; bit w 23; 0; 1; bits w 15 12; bits w 19 16; 0; bits w 11 8 * 16 + bits w 3 0])) s.
Proof. exact (OpsA6.ops_LdrshtA1 w s). Qed.
Print Assumptions C06_ops_LdrshtA1.

Theorem C06_ops_McrMcr2A1 w s :
  0 <= w < 2 ^ 32 ->
  regs13 [bits w 15 12] = true ->
  pre_cp_ok w = true ->
  fb_out (McrMcr2A1_from_bitarray w) s = Ok (Some (code_McrMcr2, [w; bits w 11 8; bits w 15 12])) s.
Proof. exact (OpsA6.ops_McrMcr2A1 w s). Qed.
Print Assumptions C06_ops_McrMcr2A1.

Theorem C06_ops_MovRegisterArmA1 w s :
  0 <= w < 2 ^ 32 ->
  regs13 [bits w 15 12; bits w 3 0] = true ->
  fb_out (MovRegisterArmA1_from_bitarray w) s = Ok (Some (code_MovRegisterArm, [w; bit w 20; bits w 3 0; bits w 15 12])) s.
Proof. exact (OpsA6.ops_MovRegisterArmA1 w s). Qed.
Print Assumptions C06_ops_MovRegisterArmA1.

Theorem C06_ops_MsrImmediateApplicationA1 w s :
  0 <= w < 2 ^ 32 ->
  pre_msr_app w = true ->
  fb_out (MsrImmediateApplicationA1_from_bitarray w) s = Ok (Some (code_MsrImmediateApplication, [w; bit w 19; bit w 18; ARMExpandImm (bits w 11 0)])) s.
Proof. exact (OpsA6.ops_MsrImmediateApplicationA1 w s). Qed.
Print Assumptions C06_ops_MsrImmediateApplicationA1.

Theorem C06_ops_NopA1 w s :
  0 <= w < 2 ^ 32 ->
  in_it s = false ->
  fb_out (NopA1_from_bitarray w) s = Ok (Some (code_Nop, [w])) s.
Proof. exact (OpsA6.ops_NopA1 w s). Qed.
Print Assumptions C06_ops_NopA1.

Theorem C06_ops_PopArmA1 (cfg : config) w s :
  0 <= w < 2 ^ 32 ->
  bit w 13 = 0 ->
  pre_list16_2 w = true ->
  fb_out (PopArmA1_from_bitarray cfg w) s = Ok (Some (code_PopArm, [w; bits w 15 0; 0])) s.
Proof. exact (OpsA6.ops_PopArmA1 cfg w s). Qed.
Print Assumptions C06_ops_PopArmA1.

Theorem C06_ops_QdaddA1 w s :
  0 <= w < 2 ^ 32 ->
  regs13 [bits w 19 16; bits w 15 12; bits w 3 0] = true ->
  fb_out (QdaddA1_from_bitarray w) s = Ok (Some (code_Qdadd, [w; bits w 3 0; bits w 15 12; bits w 19 16])) s.
Proof. exact (OpsA6.ops_QdaddA1 w s). Qed.
Print Assumptions C06_ops_QdaddA1.

Theorem C06_ops_RevA1 w s :
  0 <= w < 2 ^ 32 ->
  regs13 [bits w 15 12; bits w 3 0] = true ->
  fb_out (RevA1_from_bitarray w) s = Ok (Some (code_Rev, [w; bits w 3 0; bits w 15 12])) s.
Proof. exact (OpsA6.ops_RevA1 w s). Qed.
Print Assumptions C06_ops_RevA1.

Theorem C06_ops_RsbRegisterShiftedRegisterA1 w s :
  0 <= w < 2 ^ 32 ->
  regs13 [bits w 19 16; bits w 15 12; bits w 11 8; bits w 3 0] = true ->
  fb_out (RsbRegisterShiftedRegisterA1_from_bitarray w) s = Ok (Some (code_RsbRegisterShiftedRegister, [w; bit w 20; bits w 3 0; bits w 11 8; bits w 15 12; bits w 19 16; DecodeRegShift (bits w 6 5)])) s.
Proof. exact (OpsA6.ops_RsbRegisterShiftedRegisterA1 w s). Qed.
Print Assumptions C06_ops_RsbRegisterShiftedRegisterA1.

Theorem C06_ops_SbcRegisterA1 w s :
  0 <= w < 2 ^ 32 ->
  regs13 [bits w 19 16; bits w 15 12; bits w 3 0] = true ->
  fb_out (SbcRegisterA1_from_bitarray w) s = Ok (Some (code_SbcRegister, [w; bit w 20; bits w 3 0; bits w 15 12; bits w 19 16; fst (DecodeImmShift (bits w 6 5) (bits w 11 7)); snd (DecodeImmShift (bits w 6 5) (bits w 11 7))])) s.
Proof. exact (OpsA6.ops_SbcRegisterA1 w s). Qed.
Print Assumptions C06_ops_SbcRegisterA1.

Theorem C06_ops_Shadd8A1 w s :
  0 <= w < 2 ^ 32 ->
  regs13 [bits w 19 16; bits w 15 12; bits w 3 0] = true ->
  fb_out (Shadd8A1_from_bitarray w) s = Ok (Some (code_Shadd8, [w; bits w 3 0; bits w 15 12; bits w 19 16])) s.
Proof. exact (OpsA6.ops_Shadd8A1 w s). Qed.
Print Assumptions C06_ops_Shadd8A1.

Theorem C06_ops_SmlalA1 (cfg : config) w s :
  0 <= w < 2 ^ 32 ->
  regs13 [bits w 19 16; bits w 15 12; bits w 11 8; bits w 3 0] = true ->
  fb_out (SmlalA1_from_bitarray cfg w) s = Ok (Some (code_Smlal, [w; bit w 20; bits w 11 8; bits w 19 16; bits w 15 12; bits w 3 0])) s.
Proof. exact (OpsA6.ops_SmlalA1 cfg w s). Qed.
Print Assumptions C06_ops_SmlalA1.

Theorem C06_ops_SmmulA1 w s :
  0 <= w < 2 ^ 32 ->
  regs13 [bits w 19 16; bits w 11 8; bits w 3 0] = true ->
  fb_out (SmmulA1_from_bitarray w) s = Ok (Some (code_Smmul, [w; bit w 5; bits w 11 8; bits w 19 16; bits w 3 0])) s.
Proof. exact (OpsA6.ops_SmmulA1 w s). Qed.
Print Assumptions C06_ops_SmmulA1.

Theorem C06_ops_SsatA1 w s :
  0 <= w < 2 ^ 32 ->
  regs13 [bits w 15 12; bits w 3 0] = true ->
  fb_out (SsatA1_from_bitarray w) s = Ok (Some (code_Ssat, [w; bits w 20 16 + 1; bits w 15 12; bits w 3 0; fst (DecodeImmShift (bit w 6 * 2) (bits w 11 7)); snd (DecodeImmShift (bit w 6 * 2) (bits w 11 7))])) s.
Proof. exact (OpsA6.ops_SsatA1 w s). Qed.
Print Assumptions C06_ops_SsatA1.

Theorem C06_ops_StmdaA1 w s :
  0 <= w < 2 ^ 32 ->
  regs13 [bits w 19 16] = true ->
  pre_reglist w = true ->
  fb_out (StmdaA1_from_bitarray w) s = Ok (Some (code_Stmda, [w; bit w 21; bits w 15 0; bits w 19 16])) s.
Proof. exact (OpsA6.ops_StmdaA1 w s). Qed.
Print Assumptions C06_ops_StmdaA1.

Theorem C06_ops_StrbtA2 (cfg : config) w s :
  0 <= w < 2 ^ 32 ->
  regs13 [bits w 19 16; bits w 15 12; bits w 3 0] = true ->
  fb_out (StrbtA2_from_bitarray cfg w) s = Ok (Some (code_Strbt, [w; bit w 23; 1; 1; bits w 15 12; bits w 19 16; bits w 3 0; fst (DecodeImmShift (bits w 6 5) (bits w 11 7)); snd (DecodeImmShift (bits w 6 5) (bits w 11 7)); 0])) s.
Proof. exact (OpsA6.ops_StrbtA2 cfg w s). Qed.
Print Assumptions C06_ops_StrbtA2.

Theorem C06_ops_StrhRegisterA1 (cfg : config) w s :
  0 <= w < 2 ^ 32 ->
  regs13 [bits w 19 16; bits w 15 12; bits w 3 0] = true ->
  fb_out (StrhRegisterA1_from_bitarray cfg w) s = Ok (Some (code_StrhRegister, [w; bit w 23; if (bit w 24 =? 0) || (bit w 21 =? 1) then 1 else 0; bit w 24; bits w 3 0; bits w 15 12; bits w 19 16; 1; 0])) s.
Proof. exact (OpsA6.ops_StrhRegisterA1 cfg w s). Qed.
Print Assumptions C06_ops_StrhRegisterA1.

Theorem C06_ops_SubSpMinusImmediateA1 w s :
  0 <= w < 2 ^ 32 ->
  regs13 [bits w 15 12] = true ->
  fb_out (SubSpMinusImmediateA1_from_bitarray w) s = Ok (Some (code_SubSpMinusImmediate, [w; bit w 20; bits w 15 12; ARMExpandImm (bits w 11 0)])) s.
Proof. exact (OpsA6.ops_SubSpMinusImmediateA1 w s). Qed.
Print Assumptions C06_ops_SubSpMinusImmediateA1.

Theorem C06_ops_Sxtb16A1 w s :
  0 <= w < 2 ^ 32 ->
  regs13 [bits w 15 12; bits w 3 0] = true ->
  fb_out (Sxtb16A1_from_bitarray w) s = Ok (Some (code_Sxtb16, [w; bits w 3 0; bits w 15 12; bits w 11 10 * 8])) s.
Proof. exact (OpsA6.ops_Sxtb16A1 w s). Qed.
Print Assumptions C06_ops_Sxtb16A1.

Theorem C06_ops_TstRegisterShiftedRegisterA1 w s :
  0 <= w < 2 ^ 32 ->
  regs13 [bits w 19 16; bits w 11 8; bits w 3 0] = true ->
  fb_out (TstRegisterShiftedRegisterA1_from_bitarray w) s = Ok (Some (code_TstRegisterShiftedRegister, [w; bits w 3 0; bits w 11 8; bits w 19 16; DecodeRegShift (bits w 6 5)])) s.
Proof. exact (OpsA6.ops_TstRegisterShiftedRegisterA1 w s). Qed.
Print Assumptions C06_ops_TstRegisterShiftedRegisterA1.

Theorem C06_ops_Uhadd8A1 w s :
  0 <= w < 2 ^ 32 ->
  regs13 [bits w 19 16; bits w 15 12; bits w 3 0] = true ->
  fb_out (Uhadd8A1_from_bitarray w) s = Ok (Some (code_Uhadd8, [w; bits w 3 0; bits w 15 12; bits w 19 16])) s.
Proof. exact (OpsA6.ops_Uhadd8A1 w s). Qed.
Print Assumptions C06_ops_Uhadd8A1.

Theorem C06_ops_Uqadd16A1 w s :
  0 <= w < 2 ^ 32 ->
  regs13 [bits w 19 16; bits w 15 12; bits w 3 0] = true ->
  fb_out (Uqadd16A1_from_bitarray w) s = Ok (Some (code_Uqadd16, [w; bits w 3 0; bits w 15 12; bits w 19 16])) s.
Proof. exact (OpsA6.ops_Uqadd16A1 w s). Qed.
Print Assumptions C06_ops_Uqadd16A1.

Theorem C06_ops_Usat16A1 w s :
  0 <= w < 2 ^ 32 ->
  regs13 [bits w 15 12; bits w 3 0] = true ->
  fb_out (Usat16A1_from_bitarray w) s = Ok (Some (code_Usat16, [w; bits w 19 16; bits w 15 12; bits w 3 0])) s.
Proof. exact (OpsA6.ops_Usat16A1 w s). Qed.
Print Assumptions C06_ops_Usat16A1.

Theorem C06_ops_Uxtb16A1 w s :
  0 <= w < 2 ^ 32 ->
  regs13 [bits w 15 12; bits w 3 0] = true ->
  fb_out (Uxtb16A1_from_bitarray w) s = Ok (Some (code_Uxtb16, [w; bits w 3 0; bits w 15 12; bits w 11 10 * 8])) s.
Proof. exact (OpsA6.ops_Uxtb16A1 w s). Qed.
Print Assumptions C06_ops_Uxtb16A1.
