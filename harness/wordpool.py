"""Instruction words of every encoding class: members are constructed from the rows of the hand-written decode tables
(Spec/DecTables*.v) combined with the routing rows that lead to each sub-table, filled randomly and then classified by the
implementation's own top-level decoders (so a word is only attributed to the class it really decodes to).  Used by the
whole-step search harnesses (C05, C10, C18, C19, C20) so that rare encodings (hints, barriers, exclusive accesses, ...) are
always present, which plain random sampling does not achieve."""
import os
import re
import common as C

ROUTING_ARM = ['top_table', 'a_dpm_table', 'a_media_table', 'a_misc_table', 'a_uncond_table']
ROUTING_T32 = ['t32_table', 't32_dpsr_table', 't32_dpr_table', 't32_bmc_table']


def _tables(fname):
    src = open(os.path.join(C.VERIF, 'coq', 'theories', 'Spec', fname)).read()
    out = {}
    for m in re.finditer(r'Definition (\w+) : list \(entry[^\n]*\[(.*?)\]\.', src, re.S):
        pats = [re.sub(r'\s', '', p) for p in re.findall(r'row "([01x ]+)"', m.group(2))]
        if pats:
            out[m.group(1)] = pats
    return out


def _meet(a, b):
    r = []
    for x, y in zip(a, b):
        if x == 'x':
            r.append(y)
        elif y == 'x' or x == y:
            r.append(x)
        else:
            return None
    return ''.join(r)


def _fill(p, rng):
    w = 0
    for ch in p:
        w = (w << 1) | (int(ch) if ch in '01' else rng.getrandbits(1))
    return w


def pool(rng, per_class=2, samples=3):
    """-> list of (kind, word, class code): kind in 'arm', 't32', 't16'"""
    import framework
    ta = {}
    ta.update(_tables('DecTables.v'))
    ta.update(_tables('DecTablesA2.v'))
    tt = _tables('DecTablesT32.v')
    cand = {'arm': [], 't32': [], 't16': []}
    allx = 'x' * 32
    arm_tabs = {k: v for k, v in ta.items() if v and len(v[0]) == 32}
    r1s = arm_tabs.get('top_table', [allx])
    routing = [p for n in ROUTING_ARM[1:] for p in arm_tabs.get(n, [])]
    for name, pats in arm_tabs.items():
        for p in pats:
            found = 0
            for r1 in r1s:
                a = _meet(p, r1)
                if a is None:
                    continue
                for _ in range(samples):
                    cand['arm'].append(_fill(a, rng))
                for r2 in routing:
                    b = _meet(a, r2)
                    if b is None:
                        continue
                    cand['arm'].append(_fill(b, rng))
                    for r3 in routing:
                        c = _meet(b, r3)
                        if c is not None and c != b and found < 400:
                            cand["arm"].append(_fill(c, rng)); cand["arm"].append(_fill(c, rng))
                            found += 1
    r1s = tt.get('t32_table', [allx])
    r2s = [allx] + [p for n in ROUTING_T32[1:] for p in tt.get(n, [])]
    for name, pats in tt.items():
        for p in pats:
            if len(p) != 32:
                continue
            for r1 in r1s:
                a = _meet(p, r1)
                if a is None:
                    continue
                for r2 in r2s:
                    b = _meet(a, r2)
                    if b is not None:
                        for _ in range(samples if r2 == allx else 1):
                            w = _fill(b, rng)
                            cand['t32'].append((w & 0x1FFFFFFF) | (0b111 << 29))
    cand['t16'] = [w for w in range(65536) if (w >> 11) not in (0b11101, 0b11110, 0b11111)]
    res = []
    for kind, module in (('arm', 'arm_instruction_set'), ('t32', 'thumb_instruction_set_encoding_32_bit'),
                         ('t16', 'thumb_instruction_set_encoding_16_bit')):
        words = cand[kind]
        rng.shuffle(words)
        codes = framework.run_impl([{'kind': 'classify', 'module': module, 'words': words}], 'wordpool_' + kind)[0]
        byclass = {}
        for w, c in zip(words, codes):
            if c >= 0 and len(byclass.setdefault(c, [])) < per_class:
                byclass[c].append(w)
        for c, ws in sorted(byclass.items()):
            res += [(kind, w, c) for w in ws]
    return res
