rows=[('TstImmediateT1','0000','AND','TstImmediate',True),('TeqImmediateT1','0100','EOR','TeqImmediate',True),
      ('CmnImmediateT1','1000','ADD','CmnImmediate',False),('CmpImmediateT2','1101','SUB','CmpImmediate',False)]
hdr='''(* Proofs/StepInstancesCmpT2.v — GENERATED text (one block per encoding, same script): the 32-bit Thumb comparisons with a modified
   immediate end to end — TST, TEQ, CMN, CMP <Rn>, #const (11110 i 0 op 1 Rn : 0 imm3 1111 imm8), Rn in r0-r12. *)
Set Default Timeout 240.
From Coq Require Import ZArith List Bool Lia ZifyBool.
From ArmV Require Import Lib.PyZ Lib.Monad Lib.Machine Spec.Pseudocode Spec.Arch Spec.MachineView Spec.Branches Spec.StepFrame
  Spec.OperandSpec Spec.DPSem
  Proofs.SpecFacts Proofs.StateLemmas Proofs.CondProofs Proofs.GuardProofs Proofs.BankProofs Proofs.MachineOps Proofs.DPLemmas
  Proofs.DPClasses0 Proofs.DPClasses1 Proofs.DPClasses2 Proofs.DPClasses3 Proofs.DPClasses4 Proofs.DPClasses5 Proofs.DPClasses6 Proofs.DPClasses7
  Proofs.StepProofs Proofs.StepDP Proofs.DPRange Proofs.StepDPReg Proofs.StepInstances Proofs.StepInstancesCmp Proofs.StepInstancesThumb2 Proofs.OpTac
  Proofs.OpsT0 Proofs.OpsT1 Proofs.OpsT2 Proofs.OpsT3 Proofs.OpsT4 Proofs.OpsT5 Proofs.OpsT6 Proofs.OpsT7.
From Gen Require Import enums bits_ops shift regviews records hubm opsyn core exec conc decoders step.
Import ListNotations.
Open Scope Z_scope.
Ltac Zify.zify_post_hook ::= Z.to_euclidean_division_equations.

Definition is_cmp_mi_t32 (o24 o23 o22 o21 w : Z) : Prop :=
  bit w 31 = 1 /\\ bit w 30 = 1 /\\ bit w 29 = 1 /\\ bit w 28 = 1 /\\ bit w 27 = 0 /\\ bit w 25 = 0 /\\ bit w 15 = 0 /\\
  bit w 24 = o24 /\\ bit w 23 = o23 /\\ bit w 22 = o22 /\\ bit w 21 = o21 /\\ bit w 20 = 1 /\\ bits w 11 8 = 15 /\\ regs13 [bits w 19 16] = true.
'''
body=''
for cls,bits,op,ab,carry in rows:
    o=' '.join(bits); low=cls[0].lower()+cls[1:]
    fields = "[w; bits w 19 16; ThumbExpandImm (imm12t w)" + ("; snd (ThumbExpandImm_C (imm12t w) (cflag s))]" if carry else "]")
    fields1 = fields.replace('(cflag s)','(cflag s1)')
    cexpr = "(snd (ThumbExpandImm_C (imm12t w) (cflag s1)))" if carry else "0"
    execargs = "w n imm32" + (" c" if carry else "")
    body+=f'''
(* ================= {cls} ================= *)
Lemma decode_{cls} w s : 0 <= w < 2 ^ 32 -> is_cmp_mi_t32 {o} w -> iset_of s = 1 -> opcode_len s = 32 ->
  ArmV6_decode_instruction w s = Ok (Some enc_{cls}) s.
Proof.
  intros Hw (H31 & H30 & H29 & H28 & H27 & H25 & H15 & H24 & H23 & H22 & H21 & H20 & Hrd & Hr) Hi Hl. split_regs. dec_t32 w Hi Hl.
  assert (D : dec_thumb_instruction_set_encoding_32_bit w = Val (Some enc_{cls})).
  {{ dec_step dec_thumb_instruction_set_encoding_32_bit. pose_expand w 28 27. ops_if.
    dec_step dec_thumb_data_processing_modified_immediate. pose_expand w 24 21. ops_if. reflexivity. }}
  unfold lift. rewrite D. rewrite ?Hl. reflexivity.
Qed.
Lemma from_bitarray_{cls} cfg w s : 0 <= w < 2 ^ 32 -> is_cmp_mi_t32 {o} w ->
  from_bitarray_dispatch cfg enc_{cls} w s = Ok (Some (code_{ab}, {fields})) s.
Proof.
  intros Hw (_ & _ & _ & _ & _ & _ & _ & _ & _ & _ & _ & _ & _ & Hr).
  pose proof (ops_{cls} w s Hw Hr) as H. unfold fb_out, fb_plain, fb_opt, fb_res, fb_res_opt, fb_m, fb_m_opt in H.
  unfold from_bitarray_dispatch, enc_{cls}. cbv iota. unfold bind, ret, lift in *.
  repeat match goal with
  | H : match ?x with _ => _ end = _ |- context[?x] => destruct x; try discriminate H
  end.
  inversion H. first [reflexivity | match goal with E : _ = Some _ |- _ => rewrite E end; reflexivity].
Qed.
Theorem {low}_step cfg s w s1 :
  ArmV6_fetch_instruction cfg s = Ok w s1 ->
  0 <= w < 2 ^ 32 -> is_cmp_mi_t32 {o} w -> iset_of s1 = 1 -> opcode_len s1 = 32 -> ictx cfg s1 -> cond_holds s1 ->
  let n := bits w 19 16 in let imm32 := ThumbExpandImm (imm12t w) in let c := {cexpr} in
  let op := (code_{ab}, {fields1}) in
  exists s2,
    dp_sem cfg {op} 1 None n (Op2Imm imm32 c) (begin_instr s1 op) = Ok tt s2 /\\
    ArmV6_emulate_cycle cfg s = Ok tt (AdvancePC (it_step_after s1 s2)) /\\
    pc_of (AdvancePC (it_step_after s1 s2)) = add32 (pc_of s1) 4 /\\
    (forall k, 0 <= k -> k <> pc_index -> getl (R (AdvancePC (it_step_after s1 s2))) k = getl (R s1) k).
Proof.
  intros Hf Hw Hcube Hi Hl Hctx Hcond. pose_all_ranges. intros n imm32 c op.
  pose proof Hcube as (_ & _ & _ & _ & _ & _ & _ & _ & _ & _ & _ & _ & _ & Hr). split_regs.
  assert (Qn : 0 <= n <= 15) by (unfold n; lia).
  pose proof (imm12t_range w) as Ri.
  assert (Wi : word imm32) by (apply word_ThumbExpandImm; exact Ri).
  assert (Wc : 0 <= c <= 1) by (unfold c; first [lia | apply ThumbExpandImm_C_range; [exact Ri|apply psr_C_range]]).
  destruct (dp_cmp_step cfg s w s1 enc_{cls} op {op} 1 n (Op2Imm imm32 c) Hf) as (s2 & A & B & C & D); try assumption.
  - apply decode_{cls}; assumption.
  - apply from_bitarray_{cls}; assumption.
  - change (execute_dispatch cfg op (begin_instr s1 op)) with ({ab}_execute cfg {execargs} (begin_instr s1 op)).
    apply {ab}_sem; try lia; try exact Wi; try exact Wc; [apply ictx_begin; exact Hctx|apply cond_holds_begin; exact Hcond].
  - split; assumption.
  - exists s2. split; [exact A|]. split; [exact B|]. split; [rewrite C, Hl; reflexivity|exact D].
Qed.
'''
open('/tmp/coqdev/theories/Proofs/StepInstancesCmpT2.v','w').write(hdr+body)
