(* Spec/Branches.v — the branch instructions (A8.8.18 B, A8.8.25 BL/BLX immediate, A8.8.26 BLX register,
   A8.8.27 BX, A8.8.29 CBZ/CBNZ, A8.8.356 TBB/TBH tail) as state transformers over the machine view.
   Hand-written; imports nothing generated. *)
From Coq Require Import ZArith List Bool.
From ArmV Require Import Lib.PyZ Lib.Monad Lib.Machine Spec.Pseudocode Spec.Arch Spec.MachineView.
Import ListNotations.
Open Scope Z_scope.

Definition add32 (a b : Z) := (a + b) mod 2 ^ 32.
Definition sub32 (a b : Z) := (a - b) mod 2 ^ 32.
Definition Align (x n : Z) : Z := n * (x / n).

(* B: BranchWritePC(PC + imm32) *)
Definition B_sem (jaz : Z) (s : machine) (imm32 : Z) : machine :=
  apply_pc s (BranchWritePC (cpsr_of s) jaz (add32 (rget s 15) imm32)).

(* BL/BLX (immediate) *)
Definition BL_link (s : machine) : Z :=
  if iset_of s =? InstrSet_ARM then sub32 (rget s 15) 4 else Z.lor (rget s 15) 1.
Definition BL_target (s : machine) (target_iset imm32 : Z) : Z :=
  if target_iset =? InstrSet_ARM then add32 (Align (rget s 15) 4) imm32 else add32 (rget s 15) imm32.
Definition BL_sem (jaz : Z) (s : machine) (target_iset imm32 : Z) : machine :=
  let s1 := rset s 14 (BL_link s) in
  let s2 := with_cpsr s1 (SelectInstrSet (cpsr_of s1) target_iset) in
  apply_pc s2 (BranchWritePC (cpsr_of s2) jaz (BL_target s target_iset imm32)).

(* BLX (register) *)
Definition BLXr_link (s : machine) : Z :=
  if iset_of s =? InstrSet_ARM then sub32 (rget s 15) 4 else insert (sub32 (rget s 15) 2) 0 0 1.
Definition BLXr_sem (s : machine) (m : Z) : machine :=
  let target := rget s m in
  let s1 := rset s 14 (BLXr_link s) in
  apply_pc s1 (BXWritePC (cpsr_of s1) target).

Definition BX_sem (s : machine) (m : Z) : machine := apply_pc s (BXWritePC (cpsr_of s) (rget s m)).

(* CBZ/CBNZ: no condition check (not permitted in an IT block) *)
Definition CBZ_sem (jaz : Z) (s : machine) (nonzero n imm32 : Z) : machine :=
  if negb (Z.lxor nonzero (if rget s n =? 0 then 1 else 0) =? 0) then B_sem jaz s imm32 else s.

(* the offsets the encodings carry: imm32 = SignExtend(field) as a 32-bit pattern *)
Definition off_A1 (w : Z) : Z := SignExtend (bits w 23 0 * 4) 26 32.                       (* B/BL A1: imm24:'00' *)
Definition off_BLX_A2 (w : Z) : Z := SignExtend (bits w 23 0 * 4 + bit w 24 * 2) 26 32.   (* imm24:H:'0' *)
Definition off_T1 (w : Z) : Z := SignExtend (bits w 7 0 * 2) 9 32.                         (* imm8:'0' *)
Definition off_T2 (w : Z) : Z := SignExtend (bits w 10 0 * 2) 12 32.                       (* imm11:'0' *)
Definition off_T3 (w : Z) : Z :=                                                            (* S:J2:J1:imm6:imm11:'0' *)
  SignExtend (bit w 26 * 2 ^ 20 + bit w 11 * 2 ^ 19 + bit w 13 * 2 ^ 18 + bits w 21 16 * 2 ^ 12 + bits w 10 0 * 2) 21 32.
Definition off_T4 (w : Z) : Z :=                                                            (* S:I1:I2:imm10:imm11:'0' *)
  let s := bit w 26 in
  let i1 := 1 - Z.lxor (bit w 13) s in let i2 := 1 - Z.lxor (bit w 11) s in
  SignExtend (s * 2 ^ 24 + i1 * 2 ^ 23 + i2 * 2 ^ 22 + bits w 25 16 * 2 ^ 12 + bits w 10 0 * 2) 25 32.
Definition off_BLX_T2 (w : Z) : Z :=                                                        (* S:I1:I2:imm10H:imm10L:'00' *)
  let s := bit w 26 in
  let i1 := 1 - Z.lxor (bit w 13) s in let i2 := 1 - Z.lxor (bit w 11) s in
  SignExtend (s * 2 ^ 24 + i1 * 2 ^ 23 + i2 * 2 ^ 22 + bits w 25 16 * 2 ^ 12 + bits w 10 1 * 4) 25 32.
Definition off_CBZ (w : Z) : Z := bit w 9 * 2 ^ 6 + bits w 7 3 * 2.                        (* ZeroExtend(i:imm5:'0') *)

(* sequential PC advance: unless the instruction branched (changed<15>), PC := PC + length/8 modulo 2^32 *)
Definition pc_written (s : machine) : bool := negb (getl (changed s) 15 =? 0).
Definition AdvancePC (s : machine) : machine :=
  if pc_written s then s else set_R s (setl (R s) pc_index (add32 (pc_of s) (opcode_len s / 8))).
