(* Props/C07.v — C07: Thumb decode (16-bit class selection).  Statement only; proof in Proofs/DecThumb16.v by exhaustive
   evaluation over all 2^16 halfwords inside Coq (the bound is in the statement). *)
From Coq Require Import ZArith Bool List String.
From ArmV Require Import Lib.PyZ Proofs.Cube Proofs.DecodeReify Spec.DecTables Spec.DecTablesT32 Proofs.DecThumb16 Proofs.DecThumb32.
From Gen Require Import bits_ops opsyn decoders.
Import ListNotations.
Open Scope Z_scope.

Theorem C07_thumb16 w : 0 <= w < 2 ^ 16 ->
  LRet (dec_thumb_instruction_set_encoding_16_bit w) = lookup t16_table (LRet None) w.
Proof. exact (dec_thumb16_table w). Qed.
Print Assumptions C07_thumb16.

(* 32-bit Thumb class selection, for every one of the 2^32 words hw1:hw2: the top-level routing (A6.3) and the groups
   data-processing (shifted register) with its move/shift sub-table, (modified immediate) and (plain binary immediate) *)
Theorem C07_thumb32_top w : 0 <= w < 2 ^ 32 ->
  dec_thumb_instruction_set_encoding_32_bit w = eval_leaf t32_env (Val None) (lookup t32_table (LRet (Val None)) w) w.
Proof. exact (dec_thumb32_top_table w). Qed.
Print Assumptions C07_thumb32_top.
Theorem C07_thumb32_move_shift w : 0 <= w < 2 ^ 32 ->
  dec_thumb_move_register_and_immediate_shifts w = eval_leaf no_env None (lookup t32_mvsh_table (LRet None) w) w.
Proof. exact (dec_thumb32_move_shift_table w). Qed.
Print Assumptions C07_thumb32_move_shift.
Theorem C07_thumb32_dp_shifted_register w : 0 <= w < 2 ^ 32 ->
  dec_thumb_data_processing_shifted_register w = eval_leaf t32_dpsr_env None (lookup t32_dpsr_table (LRet None) w) w.
Proof. exact (dec_thumb32_dp_shifted_register_table w). Qed.
Print Assumptions C07_thumb32_dp_shifted_register.
Theorem C07_thumb32_dp_modified_immediate w : 0 <= w < 2 ^ 32 ->
  dec_thumb_data_processing_modified_immediate w = eval_leaf no_env None (lookup t32_dpmi_table (LRet None) w) w.
Proof. exact (dec_thumb32_dp_modified_immediate_table w). Qed.
Print Assumptions C07_thumb32_dp_modified_immediate.
Theorem C07_thumb32_plain_binary_immediate w : 0 <= w < 2 ^ 32 ->
  dec_thumb_data_processing_plain_binary_immediate w = eval_leaf no_env None (lookup t32_pbi_table (LRet None) w) w.
Proof. exact (dec_thumb32_plain_binary_immediate_table w). Qed.
Print Assumptions C07_thumb32_plain_binary_immediate.
