(* Props/C07.v — C07: Thumb decode (16-bit class selection).  Statement only; proof in Proofs/DecThumb16.v by exhaustive
   evaluation over all 2^16 halfwords inside Coq (the bound is in the statement). *)
From Coq Require Import ZArith Bool List String.
From ArmV Require Import Lib.PyZ Proofs.Cube Proofs.DecodeReify Spec.DecTables Proofs.DecThumb16.
From Gen Require Import bits_ops opsyn decoders.
Import ListNotations.
Open Scope Z_scope.

Theorem C07_thumb16 w : 0 <= w < 2 ^ 16 ->
  LRet (dec_thumb_instruction_set_encoding_16_bit w) = lookup t16_table (LRet None) w.
Proof. exact (dec_thumb16_table w). Qed.
Print Assumptions C07_thumb16.
