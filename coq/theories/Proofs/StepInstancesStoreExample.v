(* Proofs/StepInstancesStoreExample.v — a concrete machine (ARM state, Supervisor mode, PMSA with the MPU off, flat RAM,
   STR r2, [r1, #4] at the PC) on which every hypothesis of str_imm_a1_step_flat holds. *)
Set Default Timeout 240.
From Coq Require Import ZArith List Bool Lia.
From ArmV Require Import Lib.PyZ Lib.Monad Lib.Machine Spec.Pseudocode Spec.Arch Spec.MachineView Spec.Branches Spec.StepFrame
  Spec.OperandSpec Spec.LoadStore Spec.Hub Spec.Memory Proofs.StateLemmas Proofs.CondProofs Proofs.GuardProofs Proofs.BankProofs Proofs.MachineOps
  Proofs.DPLemmas Proofs.MemProofs Proofs.LSProofs Proofs.ExcProofs Proofs.StepProofs Proofs.StepInstancesStore Proofs.StepInstancesExample.
From Gen Require Import enums bits_ops shift regviews records hubm opsyn core exec conc decoders step.
Import ListNotations.
Open Scope Z_scope.

Definition ex4_cfg : config := (mk_config 12 1 0 6 0 2 0 0 0 0 0 0 0 0 0 0 1 1 0 1 1 1 1 0 24 28 [0; 0; 0; 0; 0; 0; 0; 0; 0; 0; 0; 1074069625; 0; 0; 0; 0; 0; 0; 0; 0; 0; 0; 0; 0; 0; 0; 0; 0; 0; 0; 0; 0; 0; 0; 0; 0; 0; 0; 0; 0; 0; 0; 0; 0; 0; 0; 0; 0; 1091544928; 0; 0; 0; 0; 0; 0; 0; 0; 0; 0; 0; 0; 0; 0; 0; 0; 0; 0; 0; 0; 0; 0; 0; 0; 0; 0; 0; 0; 0; 0; 0; 0; 0; 0; 0; 0; 0; 0; 0; 0; 0; 0; 0; 0; 0; 0; 0; 0; 0; 0; 0; 0; 0; 0; 0; 0; 0; 0; 0; 0; 0; 0; 0; 0; 0]).
Definition ex4_s : machine := (mk_machine [4334; 4352; 4294967294; 4191; 32767; 4294967295; 2978295591; 2557380299; 4143603128; 4176; 3572131280; 4126; 255; 4333; 4096; 2229621088; 32767; 4139; 4238; 4294967295; 3608698330; 256; 255; 4111; 3; 32767; 0; 2340482; 1; 4299; 4096; 3343678671; 1446943725; 4160] [19; 578087441; 3036610739; 47051441; 1996901424; 763121759; 1921675219; 4231751411; 0; 0; 0; 1074069624; 0; 0; 0; 0; 0; 0; 0; 0; 0; 0; 0; 0; 0; 0; 0; 0; 0; 0; 0; 0; 0; 0; 0; 0; 0; 0; 0; 0; 0; 0; 0; 0; 0; 0; 0; 0; 1091544928; 0; 0; 0; 0; 0; 0; 0; 0; 0; 0; 0; 0; 0; 0; 0; 0; 0; 0; 0; 0; 0; 0; 0; 0; 0; 0; 0; 0; 0; 0; 0; 0; 0; 0; 0; 0; 0; 0; 0; 0; 0; 0; 0; 0; 0; 0; 0; 0; 0; 0; 0; 0; 0; 0; 0; 0; 0; 0; 0; 0; 0; 0; 0; 0; 0] [[0; 0; 0; 0; 0; 0; 0; 0; 0; 0; 0; 0]; [0; 0; 0; 0; 0; 0; 0; 0; 0; 0; 0; 0]; [0; 0; 0; 0; 0; 0; 0; 0; 0; 0; 0; 0]; [0; 0; 0; 0; 0; 0; 0; 0; 0; 0; 0; 0]; [0; 0; 0; 0; 0; 0; 0; 0; 0; 0; 0; 0]; [0; 0; 0; 0; 0; 0; 0; 0; 0; 0; 0; 0]] [0; 0; 0; 0; 0; 0; 0; 0; 0; 0; 0; 0; 0; 0; 0; 0] 0 0 1 0 0 None [mk_device 0 256 [164; 101; 54; 221; 0; 0; 226; 47; 218; 0; 0; 37; 66; 156; 75; 19; 149; 0; 94; 116; 150; 147; 98; 39; 58; 0; 48; 161; 0; 243; 123; 0; 26; 131; 0; 180; 107; 0; 0; 44; 0; 0; 122; 0; 0; 0; 234; 0; 0; 105; 15; 72; 146; 0; 35; 0; 0; 0; 0; 0; 8; 0; 91; 0; 0; 162; 17; 0; 255; 115; 0; 0; 0; 0; 0; 0; 0; 175; 19; 0; 202; 127; 0; 0; 149; 18; 163; 65; 0; 0; 188; 0; 118; 0; 192; 0; 22; 58; 0; 199; 0; 0; 2; 36; 0; 43; 0; 238; 228; 103; 0; 110; 0; 0; 54; 149; 0; 34; 214; 0; 16; 0; 43; 120; 54; 0; 133; 80; 0; 0; 0; 212; 223; 0; 0; 90; 202; 0; 0; 48; 212; 199; 12; 0; 27; 0; 0; 0; 0; 0; 121; 182; 120; 0; 57; 88; 0; 0; 0; 0; 217; 0; 0; 238; 0; 115; 160; 0; 140; 0; 0; 0; 0; 166; 0; 221; 0; 0; 0; 230; 22; 0; 0; 0; 232; 0; 129; 112; 107; 0; 7; 222; 204; 136; 201; 0; 255; 0; 0; 0; 0; 0; 242; 0; 0; 143; 186; 0; 131; 0; 0; 97; 0; 0; 0; 36; 0; 0; 0; 137; 1; 0; 248; 234; 205; 0; 23; 0; 137; 235; 0; 0; 121; 86; 208; 0; 0; 0; 107; 0; 0; 199; 0; 39; 175; 185; 158; 127; 0; 130; 0; 0; 0; 0; 162; 135]; mk_device 4096 4352 [0; 0; 0; 0; 55; 0; 0; 0; 189; 0; 46; 80; 0; 199; 0; 0; 61; 22; 24; 240; 202; 0; 160; 0; 51; 0; 210; 0; 129; 0; 255; 0; 18; 6; 141; 0; 0; 48; 52; 40; 0; 0; 15; 174; 195; 100; 131; 53; 0; 179; 51; 116; 94; 49; 0; 202; 228; 215; 0; 0; 0; 153; 149; 0; 4; 32; 129; 229; 0; 229; 137; 0; 0; 0; 184; 204; 120; 227; 163; 0; 69; 0; 0; 168; 46; 0; 255; 54; 0; 0; 0; 157; 60; 102; 0; 0; 0; 66; 231; 138; 0; 0; 0; 0; 0; 0; 152; 0; 0; 240; 120; 0; 0; 0; 0; 126; 134; 79; 73; 69; 0; 183; 0; 197; 10; 0; 175; 229; 101; 253; 0; 204; 0; 122; 193; 133; 207; 0; 250; 0; 180; 159; 30; 13; 39; 113; 106; 67; 0; 0; 190; 0; 0; 0; 0; 29; 0; 129; 0; 69; 0; 0; 0; 71; 0; 63; 0; 0; 174; 15; 66; 159; 56; 0; 22; 0; 60; 0; 122; 86; 190; 222; 30; 210; 0; 0; 108; 0; 38; 167; 0; 0; 194; 0; 0; 94; 0; 82; 21; 145; 175; 210; 0; 54; 0; 0; 0; 195; 0; 36; 168; 0; 30; 112; 0; 0; 0; 0; 205; 0; 56; 239; 0; 0; 212; 93; 0; 0; 0; 0; 99; 0; 0; 0; 194; 218; 5; 14; 0; 0; 0; 0; 0; 139; 139; 20; 26; 0; 162; 0; 208; 0; 56; 232; 0; 0]]).
Definition ex4_w : Z := 3850444804.                                   (* 0xE5812004 = STR r2, [r1, #4] *)
Definition ex4_s1 : machine := set_opcode_len (set_opcode_w ex4_s ex4_w) 32.

Lemma ex4_fetch : ArmV6_fetch_instruction ex4_cfg ex4_s = Ok ex4_w ex4_s1.
Proof. vm_compute. reflexivity. Qed.
Lemma ex4_cube : is_str_imm_a1 ex4_w.
Proof. unfold is_str_imm_a1. vm_compute. repeat split; try congruence. left. reflexivity. Qed.
Lemma ex4_ictx : ictx ex4_cfg ex4_s1.
Proof.
  split; [split|]; try reflexivity.
  - vm_compute. split; [discriminate|reflexivity].
  - intros k Hk. apply Forall_getl; [|change (length (R ex4_s1)) with 34%nat; lia].
    cbn [R ex4_s1 set_opcode_len set_opcode_w ex4_s]. repeat (constructor; [unfold word; lia|]). constructor.
Qed.
Lemma ex4_cond : cond_holds ex4_s1.
Proof. vm_compute. reflexivity. Qed.
Definition byte_okb (b : Z) : bool := (0 <=? b) && (b <? 256).
Lemma ex4_flat : flat ex4_cfg ex4_s1.
Proof.
  split; [reflexivity|]. split; [vm_compute; reflexivity|]. split; [vm_compute; split; [discriminate|reflexivity]|].
  unfold hub_ok. apply Forall_forall. intros d Hd.
  assert (B : forallb (fun d => forallb byte_okb (dev_bytes d)) (mem ex4_s1) = true) by (vm_compute; reflexivity).
  rewrite forallb_forall in B. specialize (B d Hd). rewrite forallb_forall in B.
  unfold bytes_ok. apply Forall_forall. intros b Hb. specialize (B b Hb). unfold byte_okb in B. lia.
Qed.

Example str_imm_a1_step_example :
  exists o, ArmV6_emulate_cycle ex4_cfg ex4_s = o /\
  o = match STORE (ArmV6_mem_u_set ex4_cfg) 4 (begin_instr ex4_s1 (code_StrImmediateArm, [ex4_w; 1; 0; 1; 2; 1; 4]))
                  (rget ex4_s1 1) 4 1 1 0 1 (rget ex4_s1 2) with
      | Ok _ s2 => Ok tt (AdvancePC (it_step_after ex4_s1 s2))
      | Exc e s2 => dispatch ex4_cfg (Exc e s2)
      end.
Proof.
  eexists. split; [reflexivity|].
  exact (str_imm_a1_step_flat ex4_cfg ex4_s ex4_w ex4_s1 ex4_fetch ltac:(vm_compute; split; [discriminate|reflexivity]) ex4_cube
           ltac:(vm_compute; reflexivity) ex4_ictx ex4_cond ex4_flat).
Qed.
