(* Corr/BankModelRun.v — correspondence driver for C10: writes by (register, mode) then reads. *)
From Coq Require Import ZArith List Bool.
From ArmV Require Import Lib.PyZ Lib.Monad Lib.Machine Lib.Enc Spec.Arch.
From Gen Require Import enums core.
Import ListNotations.
Open Scope Z_scope.

Fixpoint bank_writes (cfg : config) (ops : list rop) (idx : Z) (s : machine) : (list Z) + machine :=
  match ops with
  | [] => inr s
  | RWrite n m v :: t =>
      match Registers_set_rmode cfg n m v s with
      | Ok _ s' => bank_writes cfg t (idx + 1) s'
      | Exc e _ => inl (exn_enc e ++ [idx])
      end
  end.
Fixpoint bank_reads (cfg : config) (rd : list (Z * Z)) (idx : Z) (s : machine) (acc : list Z) : list Z :=
  match rd with
  | [] => 0 :: rev acc
  | (n, m) :: t =>
      match Registers_get_rmode cfg n m s with
      | Ok v s' => bank_reads cfg t (idx + 1) s' (v :: acc)
      | Exc e _ => exn_enc e ++ [idx]
      end
  end.
Definition model_bank (cfg : config) (ops : list rop) (rd : list (Z * Z)) (s : machine) : list Z :=
  match bank_writes cfg ops 0 s with
  | inl e => e
  | inr s' => bank_reads cfg rd (Z.of_nat (length ops)) s' []
  end.
