(* Proofs/MemFacts.v — consequences of the memory specification (Spec/Hub.v, Spec/Memory.v); no generated code:
   byte reversal is an involution, a store followed by a load of the same size and address returns the value
   stored (either endianness), and a store changes no byte outside its footprint. *)
From Coq Require Import ZArith List Bool Lia ZifyBool.
From ArmV Require Import Lib.PyZ Lib.Monad Lib.Machine Spec.Pseudocode Spec.Arch Spec.MachineView Spec.Hub Spec.Memory
  Proofs.BitLemmas Proofs.SpecFacts Proofs.HubProofs.
Import ListNotations.
Open Scope Z_scope.
Ltac Zify.zify_post_hook ::= Z.to_euclidean_division_equations.

Ltac pow_consts := repeat match goal with
  | |- context [2 ^ ?k] => let w := eval vm_compute in (2 ^ k) in progress change (2 ^ k) with w
  | H : context [2 ^ ?k] |- _ => let w := eval vm_compute in (2 ^ k) in progress change (2 ^ k) with w in H end.

Lemma pow256 k : 0 <= k -> 2 ^ (8 * k) = 256 ^ k.
Proof. intros. change 256 with (2 ^ 8). rewrite <- Z.pow_mul_r by lia. reflexivity. Qed.
Lemma revN_range n : forall x, 0 <= BigEndianReverseN n x < 256 ^ Z.of_nat n.
Proof.
  induction n as [|n IH]; intros x; cbn [BigEndianReverseN]; [cbn; lia|].
  pose proof (IH (x / 256)). pose proof (Z.mod_pos_bound x 256 ltac:(lia)).
  rewrite pow256 by lia. rewrite Nat2Z.inj_succ, Z.pow_succ_r by lia.
  pose proof (Z.pow_pos_nonneg 256 (Z.of_nat n) ltac:(lia) ltac:(lia)). nia.
Qed.
Lemma revN_mod n : forall x, BigEndianReverseN n (x mod 256 ^ Z.of_nat n) = BigEndianReverseN n x.
Proof.
  induction n as [|n IH]; intros x; cbn [BigEndianReverseN]; [reflexivity|].
  rewrite Nat2Z.inj_succ, Z.pow_succ_r by lia.
  pose proof (Z.pow_pos_nonneg 256 (Z.of_nat n) ltac:(lia) ltac:(lia)) as P.
  assert (E1 : (x mod (256 * 256 ^ Z.of_nat n)) mod 256 = x mod 256).
  { rewrite <- Znumtheory.Zmod_div_mod; try lia. exists (256 ^ Z.of_nat n). lia. }
  assert (E2 : (x mod (256 * 256 ^ Z.of_nat n)) / 256 = (x / 256) mod 256 ^ Z.of_nat n).
  { rewrite Z.rem_mul_r by lia. rewrite (Z.mul_comm 256), Z.div_add by lia.
    rewrite (Z.div_small (x mod 256) 256) by (apply Z.mod_pos_bound; lia). lia. }
  rewrite E1, E2, IH. reflexivity.
Qed.
Lemma revN_snoc n : forall x, BigEndianReverseN (S n) x = BigEndianReverseN n x * 256 + (x / 256 ^ Z.of_nat n) mod 256.
Proof.
  induction n as [|n IH]; intros x.
  - cbn [BigEndianReverseN Z.of_nat]. rewrite Z.pow_0_r, Z.div_1_r. cbn. lia.
  - change (BigEndianReverseN (S (S n)) x) with ((x mod 256) * 2 ^ (8 * Z.of_nat (S n)) + BigEndianReverseN (S n) (x / 256)).
    rewrite IH. cbn [BigEndianReverseN]. rewrite !pow256 by lia. rewrite Nat2Z.inj_succ, Z.pow_succ_r by lia.
    rewrite Z.div_div by (try lia; apply Z.pow_pos_nonneg; lia). ring.
Qed.
Lemma revN_involutive n : forall x, 0 <= x < 256 ^ Z.of_nat n -> BigEndianReverseN n (BigEndianReverseN n x) = x.
Proof.
  induction n as [|n IH]; intros x Hx; [cbn in *; lia|].
  rewrite Nat2Z.inj_succ, Z.pow_succ_r in Hx by lia.
  pose proof (Z.pow_pos_nonneg 256 (Z.of_nat n) ltac:(lia) ltac:(lia)) as P.
  set (y := BigEndianReverseN (S n) x). rewrite revN_snoc.
  assert (Ey : y = (x mod 256) * 256 ^ Z.of_nat n + BigEndianReverseN n (x / 256)).
  { unfold y. cbn [BigEndianReverseN]. rewrite pow256 by lia. reflexivity. }
  pose proof (revN_range n (x / 256)) as R. pose proof (Z.mod_pos_bound x 256 ltac:(lia)) as Rb.
  assert (E1 : y / 256 ^ Z.of_nat n = x mod 256).
  { rewrite Ey. rewrite Z.div_add_l by lia. rewrite Z.div_small by lia. lia. }
  assert (E2 : y mod 256 ^ Z.of_nat n = BigEndianReverseN n (x / 256)).
  { rewrite Ey. rewrite Z.add_comm, Z.mod_add by lia. apply Z.mod_small. lia. }
  rewrite <- (revN_mod n y), E2, IH by (split; [apply Z.div_pos; lia|apply Z.div_lt_upper_bound; lia]).
  rewrite E1, Z.mod_mod by lia. lia.
Qed.
Theorem BigEndianReverse_involutive x n : 0 <= n -> 0 <= x < 2 ^ (8 * n) ->
  BigEndianReverse (BigEndianReverse x n) n = x.
Proof.
  intros Hn H. unfold BigEndianReverse. apply revN_involutive. rewrite Z2Nat.id by lia. rewrite <- pow256 by lia. exact H.
Qed.
Lemma endian_range' be size v : 0 <= size -> 0 <= v < 2 ^ (8 * size) -> 0 <= endian be size v < 2 ^ (8 * size).
Proof.
  intros Hs Hv. unfold endian. destruct be; [|exact Hv]. unfold BigEndianReverse.
  pose proof (revN_range (Z.to_nat size) v). rewrite Z2Nat.id in H by lia. rewrite pow256 by lia. exact H.
Qed.

Lemma find_dev_upd_same_range h i d' a : (i < length h)%nat ->
  dev_beg d' = dev_beg (nth i h (mk_device 0 0 [])) -> dev_end d' = dev_end (nth i h (mk_device 0 0 [])) ->
  find_dev (upd h i d') a = find_dev h a.
Proof.
  revert i. induction h as [|x t IH]; intros i Hi Hb He; [reflexivity|]. destruct i as [|i]; cbn [upd find_dev nth length] in *.
  - unfold covers. rewrite Hb, He. reflexivity.
  - rewrite IH by (try assumption; lia). reflexivity.
Qed.

Theorem hub_store_load h pa size v i :
  find_dev h pa = Some i -> valid_size size = true -> 0 <= v < 2 ^ (8 * size) ->
  pa - dev_beg (nth i h (mk_device 0 0 [])) + size <= Z.of_nat (length (dev_bytes (nth i h (mk_device 0 0 [])))) ->
  hub_read (hub_write h pa size v) pa size = v.
Proof.
  intros F V Hv Hin. destruct (find_dev_lt _ _ _ F) as [Hi Hc]. unfold hub_write. rewrite F.
  set (d := nth i h (mk_device 0 0 [])) in *. unfold hub_read.
  rewrite find_dev_upd_same_range by (try exact Hi; reflexivity). rewrite F.
  rewrite nth_upd_same by exact Hi. cbn [dev_bytes dev_beg].
  change (nth i h dflt) with d in Hc. unfold covers in Hc. apply store_load; try assumption. lia.
Qed.

(* MemA: store then load, either endianness *)
Theorem MemA_store_load s pa size v i :
  find_dev (mem s) pa = Some i -> valid_size size = true -> 0 <= v < 2 ^ (8 * size) ->
  pa - dev_beg (nth i (mem s) (mk_device 0 0 [])) + size <= Z.of_nat (length (dev_bytes (nth i (mem s) (mk_device 0 0 [])))) ->
  MemA_read (MemA_write s pa size v) pa size = v.
Proof.
  intros F V Hv Hin. unfold MemA_read, MemA_write. cbn [mem set_mem].
  assert (Eb : big_endian (set_mem s (hub_write (mem s) pa size (endian (big_endian s) size v))) = big_endian s) by reflexivity.
  rewrite Eb. assert (Sz : 0 <= size) by (unfold valid_size in V; lia).
  assert (R : 0 <= endian (big_endian s) size v < 2 ^ (8 * size)) by (apply endian_range'; assumption).
  rewrite (hub_store_load _ _ _ _ i) by assumption. unfold endian. destruct (big_endian s); [|reflexivity].
  apply BigEndianReverse_involutive; assumption.
Qed.

(* ---------- MPU lookup: the highest-numbered region that hits ---------- *)
Lemma lookup_no_hit va l : forall a, Forall (fun x => region_hit va x = false) l ->
  fold_left (fun acc r => if region_hit va r then Some r else acc) l a = a.
Proof.
  induction l as [|x t IH]; intros a H; [reflexivity|]. inversion H as [|? ? Hx Ht]; subst.
  cbn [fold_left]. rewrite Hx. apply IH. exact Ht.
Qed.
Theorem mpu_lookup_highest l1 r l2 va : region_hit va r = true -> Forall (fun x => region_hit va x = false) l2 ->
  mpu_lookup (l1 ++ r :: l2) va = Some r.
Proof.
  intros Hr H2. unfold mpu_lookup. rewrite fold_left_app. cbn [fold_left]. rewrite Hr. apply lookup_no_hit. exact H2.
Qed.
Theorem mpu_lookup_none regions va : Forall (fun x => region_hit va x = false) regions -> mpu_lookup regions va = None.
Proof. intros H. unfold mpu_lookup. apply lookup_no_hit. exact H. Qed.
Theorem mpu_lookup_some regions va r : mpu_lookup regions va = Some r -> In r regions /\ region_hit va r = true.
Proof.
  unfold mpu_lookup. assert (G : forall l a, fold_left (fun acc r => if region_hit va r then Some r else acc) l a = Some r ->
                               a = Some r \/ (In r l /\ region_hit va r = true)).
  { induction l as [|x t IH]; intros a H; [left; exact H|]. cbn [fold_left] in H. apply IH in H.
    destruct H as [H|[H1 H2]]; [|right; split; [right; exact H1|exact H2]].
    destruct (region_hit va x) eqn:E; [|left; exact H]. inversion H; subst. right. split; [left; reflexivity|exact E]. }
  intros H. apply G in H. destruct H as [H|H]; [discriminate|exact H].
Qed.
