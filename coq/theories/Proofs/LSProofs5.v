(* Proofs/LSProofs5.v — LDRD (immediate, literal, register) and STRD (immediate, register) proved equal to
   Spec/LoadStoreUnpriv.v [LDRD], [LDRD_lit], [STRD] with MemA as the accessor. *)
From Coq Require Import ZArith List Bool Lia ZifyBool.
From ArmV Require Import Lib.PyZ Lib.Monad Lib.Machine Spec.Pseudocode Spec.Expected Spec.Arch Spec.DPSem
  Proofs.BitLemmas Proofs.SpecFacts Proofs.BitsOps Proofs.BitsOps2 Proofs.ShiftOps Proofs.FieldsProofs Proofs.StateLemmas
  Proofs.CondProofs Proofs.GuardProofs Proofs.BankProofs Proofs.MachineOps Proofs.DPLemmas Proofs.DPTactics Proofs.BranchProofs
  Spec.MachineView Spec.LoadStore Spec.LoadStoreUnpriv Proofs.ExcProofs Proofs.LSProofs Proofs.LSProofs2 Proofs.LSProofs4 Proofs.CpsrWrite.
From Gen Require Import enums bits_ops shift regviews records hubm opsyn core exec.
Import ListNotations.
Open Scope Z_scope.
(* a sentence that runs this long no longer matches the code it was written for: fail instead of searching *)
Set Default Timeout 240.
Ltac Zify.zify_post_hook ::= Z.to_euclidean_division_equations.

Lemma b_big_endian {A} (k : Z -> M machine A) s : bind ArmV6_big_endian k s = k (CPSR_get_e (cpsr_of s)) s.
Proof. unfold ArmV6_big_endian. rewrite bind_assoc_run, run_get_sys_bind. cbv beta. rewrite bind_ret_run. reflexivity. Qed.
Lemma truthy_e s : truthy (CPSR_get_e (cpsr_of s)) = big_endian s.
Proof. unfold CPSR_get_e, big_endian. apply CpsrWrite.truthy_flag. lia. Qed.
Lemma word_hi64 d : word (bits d 63 32).
Proof. pose proof (bits_range d 63 32 ltac:(lia)) as R. change (2 ^ (63 - 32 + 1)) with (2 ^ 32) in R. exact R. Qed.
Lemma word_lo64 d : word (bits d 31 0).
Proof. pose proof (bits_range d 31 0 ltac:(lia)) as R. change (2 ^ (31 - 0 + 1)) with (2 ^ 32) in R. exact R. Qed.

Section Dual.
  Variable cfg : config.
  Variable Inv : machine -> Prop.
  Hypothesis Inv_ictx : forall s, Inv s -> ictx cfg s.
  Hypothesis Inv_rset : forall s n v, Inv s -> 0 <= n <= 14 -> word v -> Inv (rset s n v).
  Hypothesis Inv_rd4 : forall s a d s1, Inv s -> ArmV6_mem_a_get cfg a 4 s = Ok d s1 -> Inv s1 /\ word d.
  Hypothesis Inv_rd8 : forall s a d s1, Inv s -> ArmV6_mem_a_get cfg a 8 s = Ok d s1 -> Inv s1.
  Hypothesis Inv_wr4 : forall s a v s1, Inv s -> word v -> ArmV6_mem_a_set cfg a 4 v s = Ok tt s1 -> Inv s1.
  Hypothesis Inv_wr8 : forall s a v s1, Inv s -> 0 <= v < 2 ^ 64 -> ArmV6_mem_a_set cfg a 8 v s = Ok tt s1 -> Inv s1.

  (* the two-register load at [a], with any continuation *)
  Lemma ldrd_core_code a t t2 (k : unit -> M machine unit) s : Inv s -> 0 <= t <= 14 -> 0 <= t2 <= 14 ->
    bind (if truthy (conf_have_lpae cfg) && (substring a 2 0 =? 0)
          then bind (ArmV6_mem_a_get cfg a 8) (fun t_8 =>
               bind ArmV6_big_endian (fun t_9 =>
               bind (if truthy t_9
                     then bind (Registers_set cfg t (substring t_8 63 32)) (fun _ => bind (Registers_set cfg t2 (substring t_8 31 0)) (fun _ => ret tt))
                     else bind (Registers_set cfg t (substring t_8 31 0)) (fun _ => bind (Registers_set cfg t2 (substring t_8 63 32)) (fun _ => ret tt)))
                    (fun _ => ret tt)))
          else bind (ArmV6_mem_a_get cfg a 4) (fun t_14 => bind (Registers_set cfg t t_14) (fun _ =>
               bind (ArmV6_mem_a_get cfg (add a 4 32) 4) (fun t_16 => bind (Registers_set cfg t2 t_16) (fun _ => ret tt))))) k s
    = match LDRD_core (ArmV6_mem_a_get cfg) (conf_have_lpae cfg) s a t t2 with Exc e s' => Exc e s' | Ok _ s1 => k tt s1 end.
  Proof.
    intros HI Ht Ht2. pose proof (Inv_ictx _ HI) as H. unfold LDRD_core. rewrite substring_bits by lia. unfold truthy at 1.
    destruct (negb (conf_have_lpae cfg =? 0) && (bits a 2 0 =? 0)).
    - rewrite !bind_assoc_run, run_bind. destruct (ArmV6_mem_a_get cfg a 8 s) as [d s1|e s1] eqn:E; [|reflexivity].
      pose proof (Inv_rd8 _ _ _ _ HI E) as HI1. pose proof (Inv_ictx _ HI1) as H1. cbn beta iota.
      rewrite !bind_assoc_run, b_big_endian. rewrite truthy_e. rewrite !substring_bits by lia.
      destruct (big_endian s1).
      + rewrite !bind_assoc_run, (b_set cfg) by (try exact H1; lia).
        assert (H2 : ictx cfg (rset s1 t (bits d 63 32))) by (apply ictx_rset; [exact H1|lia|apply word_hi64]).
        rewrite !bind_assoc_run, (b_set cfg) by (try exact H2; lia). rewrite !bind_ret_run. reflexivity.
      + rewrite !bind_assoc_run, (b_set cfg) by (try exact H1; lia).
        assert (H2 : ictx cfg (rset s1 t (bits d 31 0))) by (apply ictx_rset; [exact H1|lia|apply word_lo64]).
        rewrite !bind_assoc_run, (b_set cfg) by (try exact H2; lia). rewrite !bind_ret_run. reflexivity.
    - rewrite !bind_assoc_run, run_bind. destruct (ArmV6_mem_a_get cfg a 4 s) as [d1 s1|e s1] eqn:E1; [|reflexivity].
      destruct (Inv_rd4 _ _ _ _ HI E1) as [HI1 W1]. pose proof (Inv_ictx _ HI1) as H1. cbn beta iota.
      rewrite !bind_assoc_run, (b_set cfg) by (try exact H1; lia). cbv zeta.
      pose proof (Inv_rset _ _ _ HI1 Ht W1) as HI2. rewrite add_spec. fold (add32 a 4).
      rewrite !bind_assoc_run, run_bind. destruct (ArmV6_mem_a_get cfg (add32 a 4) 4 (rset s1 t d1)) as [d2 s3|e s3] eqn:E2; [|reflexivity].
      destruct (Inv_rd4 _ _ _ _ HI2 E2) as [HI3 W2]. pose proof (Inv_ictx _ HI3) as H3. cbn beta iota.
      rewrite !bind_assoc_run, (b_set cfg) by (try exact H3; lia). rewrite !bind_ret_run. reflexivity.
  Qed.

  Lemma ls_addr_code_reg {A} add index n m (k : Z -> Z -> M machine A) s : ictx cfg s -> 0 <= n <= 15 -> 0 <= m <= 15 ->
    bind (if truthy add then bind (Registers_get cfg n) (fun t_2 => bind (Registers_get cfg m) (fun t_3 => ret (bits_ops.add t_2 t_3 32)))
          else bind (Registers_get cfg n) (fun t_4 => bind (Registers_get cfg m) (fun t_5 => ret (sub t_4 t_5 32))))
         (fun oa => bind (if truthy index then ret oa else bind (Registers_get cfg n) (fun t => ret t)) (fun a => k oa a)) s
    = k (ls_offset_addr (rget s n) (rget s m) add) (ls_address (rget s n) (rget s m) add index) s.
  Proof.
    intros H Hn Hm. unfold ls_address, ls_offset_addr, truthy, add32, sub32.
    destruct (add =? 0); cbn [negb]; rewrite bind_assoc_run, (b_get cfg) by (try exact H; lia); rewrite bind_assoc_run, (b_get cfg) by (try exact H; lia);
      rewrite bind_ret_run; cbv beta; rewrite ?add_spec, ?sub_spec;
      (destruct (index =? 0); cbn [negb]; [rewrite bind_assoc_run, (b_get cfg) by (try exact H; lia); rewrite bind_ret_run|rewrite bind_ret_run]; reflexivity).
  Qed.

  Lemma wb_tail (r : outcome machine unit) wback n oa : (forall s1, r = Ok tt s1 -> ictx cfg s1) -> (wback <> 0 -> 0 <= n <= 14) ->
    match r with Exc e s' => Exc e s'
    | Ok _ s1 => bind (if truthy wback then bind (Registers_set cfg n oa) (fun _ => ret tt) else ret tt) (fun _ => ret tt) s1 end
    = with_wback r wback n oa.
  Proof.
    intros Hr Hn. unfold with_wback. destruct r as [[] s1|e s1]; [|reflexivity]. pose proof (Hr s1 eq_refl) as H1.
    rewrite (wb_code cfg) by assumption. reflexivity.
  Qed.

  Lemma ldrd_core_ictx a t t2 s s4 : Inv s -> 0 <= t <= 14 -> 0 <= t2 <= 14 ->
    LDRD_core (ArmV6_mem_a_get cfg) (conf_have_lpae cfg) s a t t2 = Ok tt s4 -> ictx cfg s4.
  Proof.
    intros HI Ht Ht2. unfold LDRD_core. destruct (negb (conf_have_lpae cfg =? 0) && (bits a 2 0 =? 0)).
    - destruct (ArmV6_mem_a_get cfg a 8 s) as [d s1|e s1] eqn:E; [|discriminate]. intros Eq. inversion Eq; subst.
      pose proof (Inv_ictx _ (Inv_rd8 _ _ _ _ HI E)) as H1.
      destruct (big_endian s1); apply ictx_rset; try lia; try apply word_hi64; try apply word_lo64; apply ictx_rset; try exact H1; try lia;
        try apply word_hi64; apply word_lo64.
    - destruct (ArmV6_mem_a_get cfg a 4 s) as [d1 s1|e s1] eqn:E1; [|discriminate]. destruct (Inv_rd4 _ _ _ _ HI E1) as [HI1 W1]. cbv zeta.
      destruct (ArmV6_mem_a_get cfg (add32 a 4) 4 (rset s1 t d1)) as [d2 s3|e s3] eqn:E2; [|discriminate].
      destruct (Inv_rd4 _ _ _ _ (Inv_rset _ _ _ HI1 Ht W1) E2) as [HI3 W2]. intros Eq. inversion Eq; subst.
      apply ictx_rset; [apply Inv_ictx; exact HI3|lia|exact W2].
  Qed.

  Theorem LdrdImmediate_sem instr add wback index imm32 t t2 n s :
    Inv s -> cond_holds s -> iset_of s <> 3 -> 0 <= n <= 15 -> 0 <= t <= 14 -> 0 <= t2 <= 14 -> (wback <> 0 -> n <= 14) ->
    LdrdImmediate_execute cfg instr add wback index imm32 t t2 n s =
    LDRD (ArmV6_mem_a_get cfg) (conf_have_lpae cfg) s (rget s n) imm32 add index wback n t t2.
  Proof.
    intros HI Hc Hi Hn Ht Ht2 Hwb. pose proof (Inv_ictx _ HI) as H. unfold LdrdImmediate_execute. rewrite guard_pass by exact Hc. rewrite bind_ret_tt.
    cbv zeta. rewrite try_null_check by exact Hi. rewrite (ls_addr_code cfg) by assumption.
    rewrite ldrd_core_code by assumption. unfold LDRD.
    apply wb_tail; [intros s1 E; exact (ldrd_core_ictx _ _ _ _ _ HI Ht Ht2 E)|intros W; split; [lia|apply Hwb; exact W]].
  Qed.
  Theorem LdrdRegister_sem instr add wback index m t t2 n s :
    Inv s -> cond_holds s -> 0 <= n <= 15 -> 0 <= m <= 15 -> 0 <= t <= 14 -> 0 <= t2 <= 14 -> (wback <> 0 -> n <= 14) ->
    LdrdRegister_execute cfg instr add wback index m t t2 n s =
    LDRD (ArmV6_mem_a_get cfg) (conf_have_lpae cfg) s (rget s n) (rget s m) add index wback n t t2.
  Proof.
    intros HI Hc Hn Hm Ht Ht2 Hwb. pose proof (Inv_ictx _ HI) as H. unfold LdrdRegister_execute. rewrite guard_pass by exact Hc. rewrite bind_ret_tt.
    cbv zeta. rewrite ls_addr_code_reg by assumption.
    rewrite ldrd_core_code by assumption. unfold LDRD.
    apply wb_tail; [intros s1 E; exact (ldrd_core_ictx _ _ _ _ _ HI Ht Ht2 E)|intros W; split; [lia|apply Hwb; exact W]].
  Qed.
  Theorem LdrdLiteral_sem instr add imm32 t t2 s :
    Inv s -> cond_holds s -> iset_of s <> 3 -> 0 <= t <= 14 -> 0 <= t2 <= 14 ->
    LdrdLiteral_execute cfg instr add imm32 t t2 s = LDRD_lit (ArmV6_mem_a_get cfg) (conf_have_lpae cfg) s add imm32 t t2.
  Proof.
    intros HI Hc Hi Ht Ht2. pose proof (Inv_ictx _ HI) as H. unfold LdrdLiteral_execute. rewrite guard_pass by exact Hc. rewrite bind_ret_tt.
    cbv zeta. rewrite try_null_check by exact Hi. rewrite (b_get_pc cfg) by exact H. cbv zeta. rewrite lit_addr_code.
    rewrite ldrd_core_code by assumption. unfold LDRD_lit. destruct (LDRD_core _ _ _ _ _ _) as [[] s1|e s1]; reflexivity.
  Qed.

  Lemma chunk3 a : lower_chunk a 3 = bits a 2 0.
  Proof. rewrite lower_chunk_mod by lia. unfold bits. rewrite Z.pow_0_r, Z.div_1_r. reflexivity. Qed.
  (* the two-register store at [a] *)
  Lemma strd_core_code a t t2 (k : unit -> M machine unit) s : Inv s -> 0 <= t <= 14 -> 0 <= t2 <= 14 ->
    bind (if truthy (conf_have_lpae cfg) && (bits a 2 0 =? 0)
          then bind ArmV6_big_endian (fun t_8 =>
               bind (if truthy t_8
                     then bind (Registers_get cfg t) (fun t_9 => bind (Registers_get cfg t2) (fun t_10 => ret (chain t_9 t_10 32)))
                     else bind (Registers_get cfg t2) (fun t_11 => bind (Registers_get cfg t) (fun t_12 => ret (chain t_11 t_12 32))))
                    (fun v_data => bind (ArmV6_mem_a_set cfg a 8 v_data) (fun _ => ret tt)))
          else bind (Registers_get cfg t) (fun t_14 => bind (ArmV6_mem_a_set cfg a 4 t_14) (fun _ =>
               bind (Registers_get cfg t2) (fun t_16 => bind (ArmV6_mem_a_set cfg (add a 4 32) 4 t_16) (fun _ => ret tt))))) k s
    = match STRD_core (ArmV6_mem_a_set cfg) (conf_have_lpae cfg) s a t t2 with Exc e s' => Exc e s' | Ok _ s1 => k tt s1 end.
  Proof.
    intros HI Ht Ht2. pose proof (Inv_ictx _ HI) as H. unfold STRD_core.
    unfold truthy at 1.
    destruct (negb (conf_have_lpae cfg =? 0) && (bits a 2 0 =? 0)).
    - rewrite !bind_assoc_run, b_big_endian. rewrite truthy_e. destruct (big_endian s).
      + rewrite !bind_assoc_run, (b_get cfg) by (try exact H; lia). rewrite !bind_assoc_run, (b_get cfg) by (try exact H; lia).
        rewrite bind_ret_run. rewrite chain_spec by lia. rewrite !bind_assoc_run, run_bind.
        destruct (ArmV6_mem_a_set cfg a 8 _ s) as [[] s1|e s1]; [rewrite !bind_ret_run|]; reflexivity.
      + rewrite !bind_assoc_run, (b_get cfg) by (try exact H; lia). rewrite !bind_assoc_run, (b_get cfg) by (try exact H; lia).
        rewrite bind_ret_run. rewrite chain_spec by lia. rewrite !bind_assoc_run, run_bind.
        destruct (ArmV6_mem_a_set cfg a 8 _ s) as [[] s1|e s1]; [rewrite !bind_ret_run|]; reflexivity.
    - rewrite !bind_assoc_run, (b_get cfg) by (try exact H; lia). rewrite !bind_assoc_run, run_bind.
      assert (Wt : word (rget s t)) by (apply (word_rget cfg); [exact H|lia]).
      destruct (ArmV6_mem_a_set cfg a 4 (rget s t) s) as [[] s1|e s1] eqn:E1; [|reflexivity].
      pose proof (Inv_wr4 _ _ _ _ HI Wt E1) as HI1. pose proof (Inv_ictx _ HI1) as H1. cbn beta iota.
      rewrite !bind_assoc_run, (b_get cfg) by (try exact H1; lia). rewrite add_spec. fold (add32 a 4). rewrite !bind_assoc_run, run_bind.
      destruct (ArmV6_mem_a_set cfg (add32 a 4) 4 (rget s1 t2) s1) as [[] s2|e s2]; [rewrite !bind_ret_run|]; reflexivity.
  Qed.
  Lemma strd_core_ictx a t t2 s s4 : Inv s -> 0 <= t <= 14 -> 0 <= t2 <= 14 ->
    STRD_core (ArmV6_mem_a_set cfg) (conf_have_lpae cfg) s a t t2 = Ok tt s4 -> ictx cfg s4.
  Proof.
    intros HI Ht Ht2. pose proof (Inv_ictx _ HI) as H. unfold STRD_core.
    assert (Wt : word (rget s t)) by (apply (word_rget cfg); [exact H|lia]).
    assert (Wt2 : word (rget s t2)) by (apply (word_rget cfg); [exact H|lia]).
    destruct (negb (conf_have_lpae cfg =? 0) && (bits a 2 0 =? 0)).
    - intros E. apply Inv_ictx. refine (Inv_wr8 _ _ _ _ HI _ E). unfold word in *. destruct (big_endian s); nia.
    - destruct (ArmV6_mem_a_set cfg a 4 (rget s t) s) as [[] s1|e s1] eqn:E1; [|discriminate].
      pose proof (Inv_wr4 _ _ _ _ HI Wt E1) as HI1. intros E2. apply Inv_ictx.
      refine (Inv_wr4 _ _ _ _ HI1 _ E2). apply (word_rget cfg); [apply Inv_ictx; exact HI1|lia].
  Qed.

  Theorem StrdImmediate_sem instr add wback index imm32 t t2 n s :
    Inv s -> cond_holds s -> iset_of s <> 3 -> 0 <= n <= 15 -> 0 <= t <= 14 -> 0 <= t2 <= 14 -> (wback <> 0 -> n <= 14) ->
    StrdImmediate_execute cfg instr add wback index imm32 t t2 n s =
    STRD (ArmV6_mem_a_set cfg) (conf_have_lpae cfg) s (rget s n) imm32 add index wback n t t2.
  Proof.
    intros HI Hc Hi Hn Ht Ht2 Hwb. pose proof (Inv_ictx _ HI) as H. unfold StrdImmediate_execute. rewrite guard_pass by exact Hc. rewrite bind_ret_tt.
    cbv zeta. rewrite try_null_check by exact Hi. rewrite (ls_addr_code cfg) by assumption. rewrite chunk3.
    rewrite strd_core_code by assumption. unfold STRD.
    apply wb_tail; [intros s1 E; exact (strd_core_ictx _ _ _ _ _ HI Ht Ht2 E)|intros W; split; [lia|apply Hwb; exact W]].
  Qed.
  Theorem StrdRegister_sem instr add wback index m t t2 n s :
    Inv s -> cond_holds s -> 0 <= n <= 15 -> 0 <= m <= 15 -> 0 <= t <= 14 -> 0 <= t2 <= 14 -> (wback <> 0 -> n <= 14) ->
    StrdRegister_execute cfg instr add wback index m t t2 n s =
    STRD (ArmV6_mem_a_set cfg) (conf_have_lpae cfg) s (rget s n) (rget s m) add index wback n t t2.
  Proof.
    intros HI Hc Hn Hm Ht Ht2 Hwb. pose proof (Inv_ictx _ HI) as H. unfold StrdRegister_execute. rewrite guard_pass by exact Hc. rewrite bind_ret_tt.
    cbv zeta. rewrite ls_addr_code_reg by assumption. rewrite substring_bits by lia.
    rewrite strd_core_code by assumption. unfold STRD.
    apply wb_tail; [intros s1 E; exact (strd_core_ictx _ _ _ _ _ HI Ht Ht2 E)|intros W; split; [lia|apply Hwb; exact W]].
  Qed.
End Dual.
