(* Spec/Arith2.v — the rest of the multiply / divide / saturating / parallel / extend / pack / reverse family (A8.8) as executable
   state transformers written from the instruction pseudocode.  The five classes of Spec/Arith.v are proved equal to the code
   (Proofs/ArithProofs.v); the classes below are compared with the implementation and the regenerated model by the
   correspondence check only.  Every function takes the architecture version first (used only for the UNKNOWN flags of ARMv4
   multiplies) and then the constructor fields in constructor order.  Imports nothing generated. *)
From Coq Require Import ZArith List Bool.
From ArmV Require Import Lib.PyZ Lib.Monad Lib.Machine Spec.Pseudocode Spec.Arch Spec.MachineView Spec.Arith.
Import ListNotations.
Open Scope Z_scope.

Definition w32 (x : Z) : Z := x mod 2 ^ 32.
Definition s32 (x : Z) : Z := SInt x 32.
Definition s16 (x : Z) : Z := SInt x 16.
Definition s8 (x : Z) : Z := SInt x 8.
Definition lo16 (x : Z) : Z := bits x 15 0.
Definition hi16 (x : Z) : Z := bits x 31 16.
Definition byte (x k : Z) : Z := bits x (8 * k + 7) (8 * k).
Definition pack16 (lo hi : Z) : Z := lo mod 2 ^ 16 + (hi mod 2 ^ 16) * 2 ^ 16.
Definition pack8 (b0 b1 b2 b3 : Z) : Z := b0 mod 256 + (b1 mod 256) * 2 ^ 8 + (b2 mod 256) * 2 ^ 16 + (b3 mod 256) * 2 ^ 24.
Definition setQ (s : machine) : machine := upd_cpsr s (setbit 27 1).
Definition setGE (s : machine) (ge : Z) : machine := upd_cpsr s (fun p => insert p 19 16 ge).
Definition b2 (c : bool) : Z := if c then 1 else 0.
Definition ssat (x n : Z) : Z := fst (SignedSatQ x n).
Definition usat (x n : Z) : Z := fst (UnsignedSatQ x n).
Definition sel_half (x high : Z) : Z := if high =? 0 then lo16 x else hi16 x.
Definition nz64 (arch : Z) (s : machine) (r : Z) : machine :=
  let s2 := upd_cpsr s (setbit 31 (bit r 63)) in
  let s3 := upd_cpsr s2 (setbit 30 (zbit (r mod 2 ^ 64))) in
  if arch =? 4 then upd_cpsr (upd_cpsr s3 (setbit 29 0)) (setbit 28 0) else s3.
Definition set64 (s : machine) (dhi dlo r : Z) : machine := rset (rset s dhi (bits r 63 32)) dlo (bits r 31 0).
Definition acc64 (s : machine) (dhi dlo : Z) : Z := rget s dhi * 2 ^ 32 + rget s dlo.

(* ---------- multiply and multiply accumulate ---------- *)
Definition Mla_sem (arch : Z) (s : machine) (setflags m a d n : Z) : machine :=
  let r := w32 (s32 (rget s n) * s32 (rget s m) + s32 (rget s a)) in
  let s1 := rset s d r in
  if setflags =? 0 then s1 else
  let s3 := upd_cpsr (upd_cpsr s1 (setbit 31 (bit r 31))) (setbit 30 (zbit r)) in
  if arch =? 4 then upd_cpsr s3 (setbit 29 0) else s3.
Definition Mls_sem (arch : Z) (s : machine) (m a d n : Z) : machine :=
  rset s d (w32 (s32 (rget s a) - s32 (rget s n) * s32 (rget s m))).
Definition Umull_sem (arch : Z) (s : machine) (setflags m dhi dlo n : Z) : machine := UMULL_sem arch s setflags m dhi dlo n.
Definition Umlal_sem (arch : Z) (s : machine) (setflags m dhi dlo n : Z) : machine :=
  let r := (rget s n * rget s m + acc64 s dhi dlo) mod 2 ^ 64 in
  let s1 := set64 s dhi dlo r in if setflags =? 0 then s1 else nz64 arch s1 r.
Definition Umaal_sem (arch : Z) (s : machine) (m dhi dlo n : Z) : machine :=
  set64 s dhi dlo (rget s n * rget s m + rget s dhi + rget s dlo).
Definition Smull_sem (arch : Z) (s : machine) (setflags m dhi dlo n : Z) : machine :=
  let r := (s32 (rget s n) * s32 (rget s m)) mod 2 ^ 64 in
  let s1 := set64 s dhi dlo r in if setflags =? 0 then s1 else nz64 arch s1 r.
Definition Smlal_sem (arch : Z) (s : machine) (setflags m dhi dlo n : Z) : machine :=
  let r := (s32 (rget s n) * s32 (rget s m) + SInt (acc64 s dhi dlo) 64) mod 2 ^ 64 in
  let s1 := set64 s dhi dlo r in if setflags =? 0 then s1 else nz64 arch s1 r.

(* ---------- halfword and word-by-halfword multiplies ---------- *)
Definition Smla_sem (arch : Z) (s : machine) (m_high n_high m a d n : Z) : machine :=
  let r := s16 (sel_half (rget s n) n_high) * s16 (sel_half (rget s m) m_high) + s32 (rget s a) in
  let s1 := rset s d (w32 r) in if r =? s32 (w32 r) then s1 else setQ s1.
Definition Smul_sem (arch : Z) (s : machine) (m_high n_high m d n : Z) : machine :=
  rset s d (w32 (s16 (sel_half (rget s n) n_high) * s16 (sel_half (rget s m) m_high))).
Definition Smlalxy_sem (arch : Z) (s : machine) (m_high n_high m dhi dlo n : Z) : machine :=
  set64 s dhi dlo ((s16 (sel_half (rget s n) n_high) * s16 (sel_half (rget s m) m_high) + SInt (acc64 s dhi dlo) 64) mod 2 ^ 64).
Definition Smlaw_sem (arch : Z) (s : machine) (m_high m a d n : Z) : machine :=
  let r := s32 (rget s n) * s16 (sel_half (rget s m) m_high) + s32 (rget s a) * 2 ^ 16 in
  let s1 := rset s d (bits (r mod 2 ^ 48) 47 16) in
  if r / 2 ^ 16 =? s32 (bits (r mod 2 ^ 48) 47 16) then s1 else setQ s1.
Definition Smulw_sem (arch : Z) (s : machine) (m_high m d n : Z) : machine :=
  rset s d (bits ((s32 (rget s n) * s16 (sel_half (rget s m) m_high)) mod 2 ^ 48) 47 16).

(* ---------- dual multiplies ---------- *)
Definition swap_if (x sw : Z) : Z := if sw =? 0 then x else ROR 32 x 16.
Definition prods (s : machine) (m_swap m n : Z) : Z * Z :=
  let o2 := swap_if (rget s m) m_swap in
  (s16 (lo16 (rget s n)) * s16 (lo16 o2), s16 (hi16 (rget s n)) * s16 (hi16 o2)).
Definition Smlad_sem (arch : Z) (s : machine) (m_swap m a d n : Z) : machine :=
  let '(p1, p2) := prods s m_swap m n in let r := p1 + p2 + s32 (rget s a) in
  let s1 := rset s d (w32 r) in if r =? s32 (w32 r) then s1 else setQ s1.
Definition Smlsd_sem (arch : Z) (s : machine) (m_swap m a d n : Z) : machine :=
  let '(p1, p2) := prods s m_swap m n in let r := p1 - p2 + s32 (rget s a) in
  let s1 := rset s d (w32 r) in if r =? s32 (w32 r) then s1 else setQ s1.
Definition Smuad_sem (arch : Z) (s : machine) (m_swap m d n : Z) : machine :=
  let '(p1, p2) := prods s m_swap m n in let r := p1 + p2 in
  let s1 := rset s d (w32 r) in if r =? s32 (w32 r) then s1 else setQ s1.
Definition Smusd_sem (arch : Z) (s : machine) (m_swap m d n : Z) : machine :=
  let '(p1, p2) := prods s m_swap m n in rset s d (w32 (p1 - p2)).
Definition Smlald_sem (arch : Z) (s : machine) (m_swap m dhi dlo n : Z) : machine :=
  let '(p1, p2) := prods s m_swap m n in set64 s dhi dlo ((p1 + p2 + SInt (acc64 s dhi dlo) 64) mod 2 ^ 64).
Definition Smlsld_sem (arch : Z) (s : machine) (m_swap m dhi dlo n : Z) : machine :=
  let '(p1, p2) := prods s m_swap m n in set64 s dhi dlo ((p1 - p2 + SInt (acc64 s dhi dlo) 64) mod 2 ^ 64).
(* most significant word multiplies *)
Definition rnd (round_ : Z) : Z := if round_ =? 0 then 0 else 2 ^ 31.
Definition Smmla_sem (arch : Z) (s : machine) (round_ m a d n : Z) : machine :=
  rset s d (bits ((s32 (rget s a) * 2 ^ 32 + s32 (rget s n) * s32 (rget s m) + rnd round_) mod 2 ^ 64) 63 32).
Definition Smmls_sem (arch : Z) (s : machine) (round_ m a d n : Z) : machine :=
  rset s d (bits ((s32 (rget s a) * 2 ^ 32 - s32 (rget s n) * s32 (rget s m) + rnd round_) mod 2 ^ 64) 63 32).
Definition Smmul_sem (arch : Z) (s : machine) (round_ m d n : Z) : machine :=
  rset s d (bits ((s32 (rget s n) * s32 (rget s m) + rnd round_) mod 2 ^ 64) 63 32).

(* ---------- divide: RoundTowardsZero; division by zero gives 0 (no trap configured) ---------- *)
Definition Sdiv_sem (arch : Z) (s : machine) (m d n : Z) : machine :=
  let dv := s32 (rget s m) in
  rset s d (if dv =? 0 then 0 else w32 (Z.quot (s32 (rget s n)) dv)).
Definition Udiv_sem (arch : Z) (s : machine) (m d n : Z) : machine :=
  rset s d (if rget s m =? 0 then 0 else rget s n / rget s m).

(* ---------- saturating ---------- *)
Definition satq (s : machine) (d x n : Z) : machine :=
  let '(r, sat) := SignedSatQ x n in let s1 := rset s d (r mod 2 ^ 32) in if sat =? 0 then s1 else setQ s1.
Definition Qsub_sem (arch : Z) (s : machine) (m d n : Z) : machine := satq s d (s32 (rget s m) - s32 (rget s n)) 32.
Definition dbl (s : machine) (n : Z) : Z * Z := SignedSatQ (2 * s32 (rget s n)) 32.
Definition Qdadd_sem (arch : Z) (s : machine) (m d n : Z) : machine :=
  let '(dv, sat1) := dbl s n in let '(r, sat2) := SignedSatQ (s32 (rget s m) + s32 dv) 32 in
  let s1 := rset s d r in if (sat1 =? 0) && (sat2 =? 0) then s1 else setQ s1.
Definition Qdsub_sem (arch : Z) (s : machine) (m d n : Z) : machine :=
  let '(dv, sat1) := dbl s n in let '(r, sat2) := SignedSatQ (s32 (rget s m) - s32 dv) 32 in
  let s1 := rset s d r in if (sat1 =? 0) && (sat2 =? 0) then s1 else setQ s1.
Definition Ssat_sem (arch : Z) (s : machine) (saturate_to d n shift_t shift_n : Z) : machine :=
  let operand := fst (Shift_C 32 (rget s n) shift_t shift_n (psr_C (cpsr_of s))) in
  let '(r, sat) := SignedSatQ (s32 operand) saturate_to in
  let s1 := rset s d (SignExtend r saturate_to 32) in if sat =? 0 then s1 else setQ s1.
Definition Usat_sem (arch : Z) (s : machine) (saturate_to d n shift_t shift_n : Z) : machine :=
  let operand := fst (Shift_C 32 (rget s n) shift_t shift_n (psr_C (cpsr_of s))) in
  let '(r, sat) := UnsignedSatQ (s32 operand) saturate_to in
  let s1 := rset s d r in if sat =? 0 then s1 else setQ s1.
Definition Ssat16_sem (arch : Z) (s : machine) (saturate_to d n : Z) : machine :=
  let '(r1, q1) := SignedSatQ (s16 (lo16 (rget s n))) saturate_to in
  let '(r2, q2) := SignedSatQ (s16 (hi16 (rget s n))) saturate_to in
  let s1 := rset s d (pack16 (SignExtend r1 saturate_to 16) (SignExtend r2 saturate_to 16)) in
  if (q1 =? 0) && (q2 =? 0) then s1 else setQ s1.
Definition Usat16_sem (arch : Z) (s : machine) (saturate_to d n : Z) : machine :=
  let '(r1, q1) := UnsignedSatQ (s16 (lo16 (rget s n))) saturate_to in
  let '(r2, q2) := UnsignedSatQ (s16 (hi16 (rget s n))) saturate_to in
  let s1 := rset s d (pack16 r1 r2) in
  if (q1 =? 0) && (q2 =? 0) then s1 else setQ s1.

(* ---------- parallel addition and subtraction (A8.8: SADD16 ... UHSUB8) ----------
   sg: operands taken as signed (true) or unsigned; kind: 0 modular with GE flags, 1 saturating, 2 halving;
   op: 0 ADD16, 1 ASX, 2 SAX, 3 SUB16, 4 ADD8, 5 SUB8 *)
Definition ext (sg : bool) (w x : Z) : Z := if sg then SInt x w else x.
Definition lane_out (sg : bool) (kind w x : Z) : Z :=
  match kind with
  | 0 => x mod 2 ^ w
  | 1 => (if sg then ssat x w else usat x w) mod 2 ^ w
  | _ => (x / 2) mod 2 ^ w
  end.
(* GE for one lane: signed: result >= 0; unsigned addition: carry out; unsigned subtraction: no borrow *)
Definition lane_ge (sg : bool) (w : Z) (is_add : bool) (x : Z) : bool :=
  if sg then 0 <=? x else if is_add then 2 ^ w <=? x else 0 <=? x.
Definition par16 (sg : bool) (kind op : Z) (s : machine) (m d n : Z) : machine :=
  let nl := ext sg 16 (lo16 (rget s n)) in let nh := ext sg 16 (hi16 (rget s n)) in
  let ml := ext sg 16 (lo16 (rget s m)) in let mh := ext sg 16 (hi16 (rget s m)) in
  let '(xl, al, xh, ah) := match op with
                           | 0 => (nl + ml, true, nh + mh, true)
                           | 1 => (nl - mh, false, nh + ml, true)
                           | 2 => (nl + mh, true, nh - ml, false)
                           | _ => (nl - ml, false, nh - mh, false) end in
  let s1 := rset s d (pack16 (lane_out sg kind 16 xl) (lane_out sg kind 16 xh)) in
  if kind =? 0 then setGE s1 (3 * b2 (lane_ge sg 16 al xl) + 12 * b2 (lane_ge sg 16 ah xh)) else s1.
Definition par8 (sg : bool) (kind : Z) (is_add : bool) (s : machine) (m d n : Z) : machine :=
  let f k := let a := ext sg 8 (byte (rget s n) k) in let b := ext sg 8 (byte (rget s m) k) in if is_add then a + b else a - b in
  let s1 := rset s d (pack8 (lane_out sg kind 8 (f 0)) (lane_out sg kind 8 (f 1)) (lane_out sg kind 8 (f 2)) (lane_out sg kind 8 (f 3))) in
  if kind =? 0
  then setGE s1 (b2 (lane_ge sg 8 is_add (f 0)) + 2 * b2 (lane_ge sg 8 is_add (f 1)) + 4 * b2 (lane_ge sg 8 is_add (f 2))
                 + 8 * b2 (lane_ge sg 8 is_add (f 3)))
  else s1.
Definition par (sg : bool) (kind op : Z) (arch : Z) (s : machine) (m d n : Z) : machine :=
  if op <? 4 then par16 sg kind op s m d n else par8 sg kind (op =? 4) s m d n.

(* ---------- USAD8 / USADA8 ---------- *)
Definition absdiff (s : machine) (m n : Z) : Z :=
  Z.abs (byte (rget s n) 0 - byte (rget s m) 0) + Z.abs (byte (rget s n) 1 - byte (rget s m) 1)
  + Z.abs (byte (rget s n) 2 - byte (rget s m) 2) + Z.abs (byte (rget s n) 3 - byte (rget s m) 3).
Definition Usad8_sem (arch : Z) (s : machine) (m d n : Z) : machine := rset s d (absdiff s m n).
Definition Usada8_sem (arch : Z) (s : machine) (m a d n : Z) : machine := rset s d (w32 (rget s a + absdiff s m n)).

(* ---------- extend (and add) ---------- *)
Definition rot (s : machine) (m rotation : Z) : Z := ROR 32 (rget s m) rotation.
Definition Sxtb_sem (arch : Z) (s : machine) (m d rotation : Z) : machine := rset s d (SignExtend (bits (rot s m rotation) 7 0) 8 32).
Definition Sxth_sem (arch : Z) (s : machine) (m d rotation : Z) : machine := rset s d (SignExtend (bits (rot s m rotation) 15 0) 16 32).
Definition Uxtb_sem (arch : Z) (s : machine) (m d rotation : Z) : machine := rset s d (bits (rot s m rotation) 7 0).
Definition Uxth_sem (arch : Z) (s : machine) (m d rotation : Z) : machine := rset s d (bits (rot s m rotation) 15 0).
Definition Sxtb16_sem (arch : Z) (s : machine) (m d rotation : Z) : machine :=
  let r := rot s m rotation in rset s d (pack16 (SignExtend (bits r 7 0) 8 16) (SignExtend (bits r 23 16) 8 16)).
Definition Uxtb16_sem (arch : Z) (s : machine) (m d rotation : Z) : machine :=
  let r := rot s m rotation in rset s d (pack16 (bits r 7 0) (bits r 23 16)).
Definition Sxtab_sem (arch : Z) (s : machine) (m d n rotation : Z) : machine := rset s d (w32 (rget s n + SignExtend (bits (rot s m rotation) 7 0) 8 32)).
Definition Sxtah_sem (arch : Z) (s : machine) (m d n rotation : Z) : machine := rset s d (w32 (rget s n + SignExtend (bits (rot s m rotation) 15 0) 16 32)).
Definition Uxtab_sem (arch : Z) (s : machine) (m d n rotation : Z) : machine := rset s d (w32 (rget s n + bits (rot s m rotation) 7 0)).
Definition Uxtah_sem (arch : Z) (s : machine) (m d n rotation : Z) : machine := rset s d (w32 (rget s n + bits (rot s m rotation) 15 0)).
Definition Sxtab16_sem (arch : Z) (s : machine) (m d n rotation : Z) : machine :=
  let r := rot s m rotation in
  rset s d (pack16 (lo16 (rget s n) + SignExtend (bits r 7 0) 8 16) (hi16 (rget s n) + SignExtend (bits r 23 16) 8 16)).
Definition Uxtab16_sem (arch : Z) (s : machine) (m d n rotation : Z) : machine :=
  let r := rot s m rotation in rset s d (pack16 (lo16 (rget s n) + bits r 7 0) (hi16 (rget s n) + bits r 23 16)).

(* ---------- pack, reverse, bit field ---------- *)
Definition Pkh_sem (arch : Z) (s : machine) (tb_form m d n shift_t shift_n : Z) : machine :=
  let o2 := fst (Shift_C 32 (rget s m) shift_t shift_n (psr_C (cpsr_of s))) in
  rset s d (if tb_form =? 0 then pack16 (lo16 (rget s n)) (hi16 o2) else pack16 (lo16 o2) (hi16 (rget s n))).
Definition Rev_sem (arch : Z) (s : machine) (m d : Z) : machine :=
  let x := rget s m in rset s d (pack8 (byte x 3) (byte x 2) (byte x 1) (byte x 0)).
Definition Rev16_sem (arch : Z) (s : machine) (m d : Z) : machine :=
  let x := rget s m in rset s d (pack8 (byte x 1) (byte x 0) (byte x 3) (byte x 2)).
Definition Revsh_sem (arch : Z) (s : machine) (m d : Z) : machine :=
  let x := rget s m in rset s d (SignExtend (byte x 0) 8 24 * 2 ^ 8 + byte x 1).
Fixpoint rbit_from (k : nat) (x : Z) : Z :=
  match k with O => 0 | S k' => bit x (31 - Z.of_nat k') * 2 ^ Z.of_nat k' + rbit_from k' x end.
Definition Rbit_sem (arch : Z) (s : machine) (m d : Z) : machine := rset s d (rbit_from 32 (rget s m)).
Definition Bfc_sem (arch : Z) (s : machine) (lsbit msbit d : Z) : machine :=
  if msbit >=? lsbit then rset s d (insert (rget s d) msbit lsbit 0) else s.
Definition Sbfx_sem (arch : Z) (s : machine) (lsbit widthminus1 d n : Z) : machine :=
  if lsbit + widthminus1 <=? 31
  then rset s d (SignExtend (bits (rget s n) (lsbit + widthminus1) lsbit) (widthminus1 + 1) 32) else s.
