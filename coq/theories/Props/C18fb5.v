(* Props/C18fb5.v — C18: operand extraction is total (shard 5 of 8).  For EVERY integer w and every machine state,
   from_bitarray of the encoding class returns an operand record or None (UNPREDICTABLE), or raises the Undefined
   Instruction exception — never a host error — and leaves the state untouched.  One theorem per concrete class. *)
From Coq Require Import ZArith List Bool Lia ZifyBool.
From ArmV Require Import Lib.PyZ Lib.Monad Lib.Machine Spec.Pseudocode Spec.Arch Spec.MachineView Spec.OperandSpec.
From Gen Require Import enums bits_ops shift regviews records hubm opsyn core exec conc.
Import ListNotations.
Open Scope Z_scope.
From ArmV Require Proofs.FbTotal5.

Theorem C18_fb_AdcRegisterT2 w s : fb_safe (fb_out (AdcRegisterT2_from_bitarray w) s) s.
Proof. exact (FbTotal5.safe_AdcRegisterT2 w s). Qed.
Print Assumptions C18_fb_AdcRegisterT2.

Theorem C18_fb_AddRegisterThumbT1 w s : fb_safe (fb_out (AddRegisterThumbT1_from_bitarray w) s) s.
Proof. exact (FbTotal5.safe_AddRegisterThumbT1 w s). Qed.
Print Assumptions C18_fb_AddRegisterThumbT1.

Theorem C18_fb_AddSpPlusRegisterArmA1 w s : fb_safe (fb_out (AddSpPlusRegisterArmA1_from_bitarray w) s) s.
Proof. exact (FbTotal5.safe_AddSpPlusRegisterArmA1 w s). Qed.
Print Assumptions C18_fb_AddSpPlusRegisterArmA1.

Theorem C18_fb_AdrT3 w s : fb_safe (fb_out (AdrT3_from_bitarray w) s) s.
Proof. exact (FbTotal5.safe_AdrT3 w s). Qed.
Print Assumptions C18_fb_AdrT3.

Theorem C18_fb_AsrImmediateT1 w s : fb_safe (fb_out (AsrImmediateT1_from_bitarray w) s) s.
Proof. exact (FbTotal5.safe_AsrImmediateT1 w s). Qed.
Print Assumptions C18_fb_AsrImmediateT1.

Theorem C18_fb_BT3 w s : fb_safe (fb_out (BT3_from_bitarray w) s) s.
Proof. exact (FbTotal5.safe_BT3 w s). Qed.
Print Assumptions C18_fb_BT3.

Theorem C18_fb_BicRegisterA1 w s : fb_safe (fb_out (BicRegisterA1_from_bitarray w) s) s.
Proof. exact (FbTotal5.safe_BicRegisterA1 w s). Qed.
Print Assumptions C18_fb_BicRegisterA1.

Theorem C18_fb_BlBlxImmediateT1 w s : fb_safe (fb_out (BlBlxImmediateT1_from_bitarray w) s) s.
Proof. exact (FbTotal5.safe_BlBlxImmediateT1 w s). Qed.
Print Assumptions C18_fb_BlBlxImmediateT1.

Theorem C18_fb_CbzT1 w s : fb_safe (fb_out (CbzT1_from_bitarray w) s) s.
Proof. exact (FbTotal5.safe_CbzT1 w s). Qed.
Print Assumptions C18_fb_CbzT1.

Theorem C18_fb_ClzT1 w s : fb_safe (fb_out (ClzT1_from_bitarray w) s) s.
Proof. exact (FbTotal5.safe_ClzT1 w s). Qed.
Print Assumptions C18_fb_ClzT1.

Theorem C18_fb_CmpImmediateT1 w s : fb_safe (fb_out (CmpImmediateT1_from_bitarray w) s) s.
Proof. exact (FbTotal5.safe_CmpImmediateT1 w s). Qed.
Print Assumptions C18_fb_CmpImmediateT1.

Theorem C18_fb_CpsThumbT1 w s : fb_safe (fb_out (CpsThumbT1_from_bitarray w) s) s.
Proof. exact (FbTotal5.safe_CpsThumbT1 w s). Qed.
Print Assumptions C18_fb_CpsThumbT1.

Theorem C18_fb_EorRegisterShiftedRegisterA1 w s : fb_safe (fb_out (EorRegisterShiftedRegisterA1_from_bitarray w) s) s.
Proof. exact (FbTotal5.safe_EorRegisterShiftedRegisterA1 w s). Qed.
Print Assumptions C18_fb_EorRegisterShiftedRegisterA1.

Theorem C18_fb_LdcLdc2ImmediateA2 w s : fb_safe (fb_out (LdcLdc2ImmediateA2_from_bitarray w) s) s.
Proof. exact (FbTotal5.safe_LdcLdc2ImmediateA2 w s). Qed.
Print Assumptions C18_fb_LdcLdc2ImmediateA2.

Theorem C18_fb_LdmExceptionReturnA1 (cfg : config) w s : fb_safe (fb_out (LdmExceptionReturnA1_from_bitarray cfg w) s) s.
Proof. exact (FbTotal5.safe_LdmExceptionReturnA1 cfg w s). Qed.
Print Assumptions C18_fb_LdmExceptionReturnA1.

Theorem C18_fb_LdrImmediateArmA1 w s : fb_safe (fb_out (LdrImmediateArmA1_from_bitarray w) s) s.
Proof. exact (FbTotal5.safe_LdrImmediateArmA1 w s). Qed.
Print Assumptions C18_fb_LdrImmediateArmA1.

Theorem C18_fb_LdrRegisterArmA1 (cfg : config) w s : fb_safe (fb_out (LdrRegisterArmA1_from_bitarray cfg w) s) s.
Proof. exact (FbTotal5.safe_LdrRegisterArmA1 cfg w s). Qed.
Print Assumptions C18_fb_LdrRegisterArmA1.

Theorem C18_fb_LdrbLiteralT1 w s : fb_safe (fb_out (LdrbLiteralT1_from_bitarray w) s) s.
Proof. exact (FbTotal5.safe_LdrbLiteralT1 w s). Qed.
Print Assumptions C18_fb_LdrbLiteralT1.

Theorem C18_fb_LdrdImmediateT1 w s : fb_safe (fb_out (LdrdImmediateT1_from_bitarray w) s) s.
Proof. exact (FbTotal5.safe_LdrdImmediateT1 w s). Qed.
Print Assumptions C18_fb_LdrdImmediateT1.

Theorem C18_fb_LdrexdA1 w s : fb_safe (fb_out (LdrexdA1_from_bitarray w) s) s.
Proof. exact (FbTotal5.safe_LdrexdA1 w s). Qed.
Print Assumptions C18_fb_LdrexdA1.

Theorem C18_fb_LdrhLiteralA1 w s : fb_safe (fb_out (LdrhLiteralA1_from_bitarray w) s) s.
Proof. exact (FbTotal5.safe_LdrhLiteralA1 w s). Qed.
Print Assumptions C18_fb_LdrhLiteralA1.

Theorem C18_fb_LdrsbImmediateA1 w s : fb_safe (fb_out (LdrsbImmediateA1_from_bitarray w) s) s.
Proof. exact (FbTotal5.safe_LdrsbImmediateA1 w s). Qed.
Print Assumptions C18_fb_LdrsbImmediateA1.

Theorem C18_fb_LdrsbtA1 w s : fb_safe (fb_out (LdrsbtA1_from_bitarray w) s) s.
Proof. exact (FbTotal5.safe_LdrsbtA1 w s). Qed.
Print Assumptions C18_fb_LdrsbtA1.

Theorem C18_fb_LdrshRegisterA1 (cfg : config) w s : fb_safe (fb_out (LdrshRegisterA1_from_bitarray cfg w) s) s.
Proof. exact (FbTotal5.safe_LdrshRegisterA1 cfg w s). Qed.
Print Assumptions C18_fb_LdrshRegisterA1.

Theorem C18_fb_LdrtT1 w s : fb_safe (fb_out (LdrtT1_from_bitarray w) s) s.
Proof. exact (FbTotal5.safe_LdrtT1 w s). Qed.
Print Assumptions C18_fb_LdrtT1.

Theorem C18_fb_LsrImmediateT1 w s : fb_safe (fb_out (LsrImmediateT1_from_bitarray w) s) s.
Proof. exact (FbTotal5.safe_LsrImmediateT1 w s). Qed.
Print Assumptions C18_fb_LsrImmediateT1.

Theorem C18_fb_McrMcr2T2 w s : fb_safe (fb_out (McrMcr2T2_from_bitarray w) s) s.
Proof. exact (FbTotal5.safe_McrMcr2T2 w s). Qed.
Print Assumptions C18_fb_McrMcr2T2.

Theorem C18_fb_MlsT1 w s : fb_safe (fb_out (MlsT1_from_bitarray w) s) s.
Proof. exact (FbTotal5.safe_MlsT1 w s). Qed.
Print Assumptions C18_fb_MlsT1.

Theorem C18_fb_MovRegisterThumbT2 w s : fb_safe (fb_out (MovRegisterThumbT2_from_bitarray w) s) s.
Proof. exact (FbTotal5.safe_MovRegisterThumbT2 w s). Qed.
Print Assumptions C18_fb_MovRegisterThumbT2.

Theorem C18_fb_MrrcMrrc2A1 w s : fb_safe (fb_out (MrrcMrrc2A1_from_bitarray w) s) s.
Proof. exact (FbTotal5.safe_MrrcMrrc2A1 w s). Qed.
Print Assumptions C18_fb_MrrcMrrc2A1.

Theorem C18_fb_MsrImmediateApplicationA1 w s : fb_safe (fb_out (MsrImmediateApplicationA1_from_bitarray w) s) s.
Proof. exact (FbTotal5.safe_MsrImmediateApplicationA1 w s). Qed.
Print Assumptions C18_fb_MsrImmediateApplicationA1.

Theorem C18_fb_MulT2 w s : fb_safe (fb_out (MulT2_from_bitarray w) s) s.
Proof. exact (FbTotal5.safe_MulT2 w s). Qed.
Print Assumptions C18_fb_MulT2.

Theorem C18_fb_NopT1 w s : fb_safe (fb_out (NopT1_from_bitarray w) s) s.
Proof. exact (FbTotal5.safe_NopT1 w s). Qed.
Print Assumptions C18_fb_NopT1.

Theorem C18_fb_OrrRegisterT1 w s : fb_safe (fb_out (OrrRegisterT1_from_bitarray w) s) s.
Proof. exact (FbTotal5.safe_OrrRegisterT1 w s). Qed.
Print Assumptions C18_fb_OrrRegisterT1.

Theorem C18_fb_PldLiteralT1 w s : fb_safe (fb_out (PldLiteralT1_from_bitarray w) s) s.
Proof. exact (FbTotal5.safe_PldLiteralT1 w s). Qed.
Print Assumptions C18_fb_PldLiteralT1.

Theorem C18_fb_PushA1 w s : fb_safe (fb_out (PushA1_from_bitarray w) s) s.
Proof. exact (FbTotal5.safe_PushA1 w s). Qed.
Print Assumptions C18_fb_PushA1.

Theorem C18_fb_Qadd8T1 w s : fb_safe (fb_out (Qadd8T1_from_bitarray w) s) s.
Proof. exact (FbTotal5.safe_Qadd8T1 w s). Qed.
Print Assumptions C18_fb_Qadd8T1.

Theorem C18_fb_QdsubT1 w s : fb_safe (fb_out (QdsubT1_from_bitarray w) s) s.
Proof. exact (FbTotal5.safe_QdsubT1 w s). Qed.
Print Assumptions C18_fb_QdsubT1.

Theorem C18_fb_QsubT1 w s : fb_safe (fb_out (QsubT1_from_bitarray w) s) s.
Proof. exact (FbTotal5.safe_QsubT1 w s). Qed.
Print Assumptions C18_fb_QsubT1.

Theorem C18_fb_RevT2 w s : fb_safe (fb_out (RevT2_from_bitarray w) s) s.
Proof. exact (FbTotal5.safe_RevT2 w s). Qed.
Print Assumptions C18_fb_RevT2.

Theorem C18_fb_RorImmediateT1 w s : fb_safe (fb_out (RorImmediateT1_from_bitarray w) s) s.
Proof. exact (FbTotal5.safe_RorImmediateT1 w s). Qed.
Print Assumptions C18_fb_RorImmediateT1.

Theorem C18_fb_RsbImmediateT2 w s : fb_safe (fb_out (RsbImmediateT2_from_bitarray w) s) s.
Proof. exact (FbTotal5.safe_RsbImmediateT2 w s). Qed.
Print Assumptions C18_fb_RsbImmediateT2.

Theorem C18_fb_Sadd16T1 w s : fb_safe (fb_out (Sadd16T1_from_bitarray w) s) s.
Proof. exact (FbTotal5.safe_Sadd16T1 w s). Qed.
Print Assumptions C18_fb_Sadd16T1.

Theorem C18_fb_SbcRegisterShiftedRegisterA1 w s : fb_safe (fb_out (SbcRegisterShiftedRegisterA1_from_bitarray w) s) s.
Proof. exact (FbTotal5.safe_SbcRegisterShiftedRegisterA1 w s). Qed.
Print Assumptions C18_fb_SbcRegisterShiftedRegisterA1.

Theorem C18_fb_SelT1 w s : fb_safe (fb_out (SelT1_from_bitarray w) s) s.
Proof. exact (FbTotal5.safe_SelT1 w s). Qed.
Print Assumptions C18_fb_SelT1.

Theorem C18_fb_Shadd8A1 w s : fb_safe (fb_out (Shadd8A1_from_bitarray w) s) s.
Proof. exact (FbTotal5.safe_Shadd8A1 w s). Qed.
Print Assumptions C18_fb_Shadd8A1.

Theorem C18_fb_Shsub8A1 w s : fb_safe (fb_out (Shsub8A1_from_bitarray w) s) s.
Proof. exact (FbTotal5.safe_Shsub8A1 w s). Qed.
Print Assumptions C18_fb_Shsub8A1.

Theorem C18_fb_SmlalA1 (cfg : config) w s : fb_safe (fb_out (SmlalA1_from_bitarray cfg w) s) s.
Proof. exact (FbTotal5.safe_SmlalA1 cfg w s). Qed.
Print Assumptions C18_fb_SmlalA1.

Theorem C18_fb_SmlsdA1 w s : fb_safe (fb_out (SmlsdA1_from_bitarray w) s) s.
Proof. exact (FbTotal5.safe_SmlsdA1 w s). Qed.
Print Assumptions C18_fb_SmlsdA1.

Theorem C18_fb_SmmulA1 w s : fb_safe (fb_out (SmmulA1_from_bitarray w) s) s.
Proof. exact (FbTotal5.safe_SmmulA1 w s). Qed.
Print Assumptions C18_fb_SmmulA1.

Theorem C18_fb_SmulwA1 w s : fb_safe (fb_out (SmulwA1_from_bitarray w) s) s.
Proof. exact (FbTotal5.safe_SmulwA1 w s). Qed.
Print Assumptions C18_fb_SmulwA1.

Theorem C18_fb_Ssat16T1 w s : fb_safe (fb_out (Ssat16T1_from_bitarray w) s) s.
Proof. exact (FbTotal5.safe_Ssat16T1 w s). Qed.
Print Assumptions C18_fb_Ssat16T1.

Theorem C18_fb_Ssub8T1 w s : fb_safe (fb_out (Ssub8T1_from_bitarray w) s) s.
Proof. exact (FbTotal5.safe_Ssub8T1 w s). Qed.
Print Assumptions C18_fb_Ssub8T1.

Theorem C18_fb_StmUserRegistersA1 w s : fb_safe (fb_out (StmUserRegistersA1_from_bitarray w) s) s.
Proof. exact (FbTotal5.safe_StmUserRegistersA1 w s). Qed.
Print Assumptions C18_fb_StmUserRegistersA1.

Theorem C18_fb_StrImmediateThumbT3 w s : fb_safe (fb_out (StrImmediateThumbT3_from_bitarray w) s) s.
Proof. exact (FbTotal5.safe_StrImmediateThumbT3 w s). Qed.
Print Assumptions C18_fb_StrImmediateThumbT3.

Theorem C18_fb_StrbImmediateThumbT3 w s : fb_safe (fb_out (StrbImmediateThumbT3_from_bitarray w) s) s.
Proof. exact (FbTotal5.safe_StrbImmediateThumbT3 w s). Qed.
Print Assumptions C18_fb_StrbImmediateThumbT3.

Theorem C18_fb_StrdImmediateT1 w s : fb_safe (fb_out (StrdImmediateT1_from_bitarray w) s) s.
Proof. exact (FbTotal5.safe_StrdImmediateT1 w s). Qed.
Print Assumptions C18_fb_StrdImmediateT1.

Theorem C18_fb_StrexhA1 w s : fb_safe (fb_out (StrexhA1_from_bitarray w) s) s.
Proof. exact (FbTotal5.safe_StrexhA1 w s). Qed.
Print Assumptions C18_fb_StrexhA1.

Theorem C18_fb_StrhRegisterT2 w s : fb_safe (fb_out (StrhRegisterT2_from_bitarray w) s) s.
Proof. exact (FbTotal5.safe_StrhRegisterT2 w s). Qed.
Print Assumptions C18_fb_StrhRegisterT2.

Theorem C18_fb_SubImmediateThumbT1 w s : fb_safe (fb_out (SubImmediateThumbT1_from_bitarray w) s) s.
Proof. exact (FbTotal5.safe_SubImmediateThumbT1 w s). Qed.
Print Assumptions C18_fb_SubImmediateThumbT1.

Theorem C18_fb_SubSpMinusImmediateA1 w s : fb_safe (fb_out (SubSpMinusImmediateA1_from_bitarray w) s) s.
Proof. exact (FbTotal5.safe_SubSpMinusImmediateA1 w s). Qed.
Print Assumptions C18_fb_SubSpMinusImmediateA1.

Theorem C18_fb_SubsPcLrThumbT1 (cfg : config) w s : fb_safe (fb_out (SubsPcLrThumbT1_from_bitarray cfg w) s) s.
Proof. exact (FbTotal5.safe_SubsPcLrThumbT1 cfg w s). Qed.
Print Assumptions C18_fb_SubsPcLrThumbT1.

Theorem C18_fb_SxtahT1 w s : fb_safe (fb_out (SxtahT1_from_bitarray w) s) s.
Proof. exact (FbTotal5.safe_SxtahT1 w s). Qed.
Print Assumptions C18_fb_SxtahT1.

Theorem C18_fb_SxthT2 w s : fb_safe (fb_out (SxthT2_from_bitarray w) s) s.
Proof. exact (FbTotal5.safe_SxthT2 w s). Qed.
Print Assumptions C18_fb_SxthT2.

Theorem C18_fb_TstImmediateT1 w s : fb_safe (fb_out (TstImmediateT1_from_bitarray w) s) s.
Proof. exact (FbTotal5.safe_TstImmediateT1 w s). Qed.
Print Assumptions C18_fb_TstImmediateT1.

Theorem C18_fb_Uadd8T1 w s : fb_safe (fb_out (Uadd8T1_from_bitarray w) s) s.
Proof. exact (FbTotal5.safe_Uadd8T1 w s). Qed.
Print Assumptions C18_fb_Uadd8T1.

Theorem C18_fb_UdivA1 w s : fb_safe (fb_out (UdivA1_from_bitarray w) s) s.
Proof. exact (FbTotal5.safe_UdivA1 w s). Qed.
Print Assumptions C18_fb_UdivA1.

Theorem C18_fb_UhsaxA1 w s : fb_safe (fb_out (UhsaxA1_from_bitarray w) s) s.
Proof. exact (FbTotal5.safe_UhsaxA1 w s). Qed.
Print Assumptions C18_fb_UhsaxA1.

Theorem C18_fb_UmlalA1 (cfg : config) w s : fb_safe (fb_out (UmlalA1_from_bitarray cfg w) s) s.
Proof. exact (FbTotal5.safe_UmlalA1 cfg w s). Qed.
Print Assumptions C18_fb_UmlalA1.

Theorem C18_fb_UqasxA1 w s : fb_safe (fb_out (UqasxA1_from_bitarray w) s) s.
Proof. exact (FbTotal5.safe_UqasxA1 w s). Qed.
Print Assumptions C18_fb_UqasxA1.

Theorem C18_fb_Usad8A1 w s : fb_safe (fb_out (Usad8A1_from_bitarray w) s) s.
Proof. exact (FbTotal5.safe_Usad8A1 w s). Qed.
Print Assumptions C18_fb_Usad8A1.

Theorem C18_fb_UsaxA1 w s : fb_safe (fb_out (UsaxA1_from_bitarray w) s) s.
Proof. exact (FbTotal5.safe_UsaxA1 w s). Qed.
Print Assumptions C18_fb_UsaxA1.

Theorem C18_fb_UxtabA1 w s : fb_safe (fb_out (UxtabA1_from_bitarray w) s) s.
Proof. exact (FbTotal5.safe_UxtabA1 w s). Qed.
Print Assumptions C18_fb_UxtabA1.

Theorem C18_fb_UxtbT2 w s : fb_safe (fb_out (UxtbT2_from_bitarray w) s) s.
Proof. exact (FbTotal5.safe_UxtbT2 w s). Qed.
Print Assumptions C18_fb_UxtbT2.

Theorem C18_fb_WfiT1 w s : fb_safe (fb_out (WfiT1_from_bitarray w) s) s.
Proof. exact (FbTotal5.safe_WfiT1 w s). Qed.
Print Assumptions C18_fb_WfiT1.
