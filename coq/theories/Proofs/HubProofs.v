(* Proofs/HubProofs.v — the translated memory hub (memory_controller_hub.py, memory_types.py)
   equals Spec/Hub for every device list, address, size and value. *)
From Coq Require Import ZArith List Bool Lia ZifyBool.
From ArmV Require Import Lib.PyZ Lib.Monad Lib.Machine Spec.Hub.
From ArmV Require Import Corr.HubModelRun.
From Gen Require Import enums bits_ops shift records hubm.
Import ListNotations.
Open Scope Z_scope.
Ltac Zify.zify_post_hook ::= Z.to_euclidean_division_equations.

(* ---------- list facts ---------- *)
Fixpoint read_l (l : list Z) (n : nat) : Z :=
  match n with O => 0 | S k => hd 0 l + 256 * read_l (tl l) k end.

Lemma skipn_tl {A} (l : list A) n : skipn (S n) l = tl (skipn n l).
Proof.
  revert l; induction n as [|n IH]; intros l.
  - destruct l; reflexivity.
  - destruct l as [|x t]; [reflexivity|]. change (skipn (S (S n)) (x :: t)) with (skipn (S n) t).
    change (skipn (S n) (x :: t)) with (skipn n t). apply IH.
Qed.
Lemma hd_skipn (l : list Z) n : hd 0 (skipn n l) = nth n l 0.
Proof. revert l; induction n as [|n IH]; intros [|x t]; cbn [skipn hd nth]; auto. Qed.

Lemma read_le_read_l m off n : 0 <= off -> read_le m off n = read_l (skipn (Z.to_nat off) m) n.
Proof.
  revert off. induction n as [|n IH]; intros off Hoff; cbn [read_le read_l]; [reflexivity|].
  rewrite IH by lia. replace (Z.to_nat (off + 1)) with (S (Z.to_nat off)) by lia.
  rewrite skipn_tl, hd_skipn. unfold byte_at. replace (off <? 0) with false by lia. reflexivity.
Qed.

Lemma le_value_pad l n : le_value (firstn n l ++ repeat 0 (n - length (firstn n l))) = read_l l n.
Proof.
  revert l. induction n as [|n IH]; intros l; [reflexivity|].
  destruct l as [|b t].
  - cbn [firstn app length Nat.sub repeat le_value read_l hd tl]. specialize (IH []).
    rewrite firstn_nil in IH. cbn [app length] in IH. rewrite Nat.sub_0_r in IH. rewrite IH. reflexivity.
  - cbn [firstn app length Nat.sub le_value read_l hd tl]. rewrite IH. reflexivity.
Qed.

Lemma py_slice_nonneg m off n : 0 <= off -> 0 <= n ->
  py_slice m off (off + n) = firstn (Z.to_nat n) (skipn (Z.to_nat off) m).
Proof.
  intros Ho Hn. unfold py_slice, clip. cbv zeta.
  replace (off <? 0) with false by lia. replace (off + n <? 0) with false by lia.
  set (L := Z.of_nat (length m)).
  destruct (Z.min off L <? Z.min (off + n) L) eqn:E.
  - destruct (Z_le_dec (off + n) L).
    + f_equal; [lia|f_equal; lia].
    + (* slice clipped at the end: the remaining list is shorter than n *)
      replace (Z.min (off + n) L) with L by lia. replace (Z.min off L) with off by lia.
      assert (Len : length (skipn (Z.to_nat off) m) = Z.to_nat (L - off)) by (rewrite skipn_length; unfold L; lia).
      rewrite !firstn_all2; [reflexivity| |]; rewrite Len; lia.
  - (* empty slice *)
    destruct (Z_le_dec L off).
    + rewrite skipn_all2 by (unfold L in *; lia). symmetry. apply firstn_nil.
    + assert (n = 0) by lia. subst n. reflexivity.
Qed.

(* ---------- RAM ---------- *)
Lemma RAM_read_spec m off size : 0 <= off -> 0 <= size ->
  RAM_read off size m =
  Ok (let c := firstn (Z.to_nat size) (skipn (Z.to_nat off) m) in c ++ repeat 0 (Z.to_nat size - length c)) m.
Proof.
  intros Ho Hs. unfold RAM_read, bind, reads, lift, ret, ebytes.
  rewrite py_slice_nonneg by lia. cbv zeta.
  set (c := firstn (Z.to_nat size) (skipn (Z.to_nat off) m)).
  assert (length c <= Z.to_nat size)%nat by (unfold c; apply firstn_le_length).
  replace (size - Z.of_nat (length c) <? 0) with false by lia.
  do 3 f_equal. lia.
Qed.

Lemma length_pad (c : list Z) n : (length c <= n)%nat -> length (c ++ repeat 0 (n - length c)) = n.
Proof. intros. rewrite app_length, repeat_length. lia. Qed.

Lemma to_int_spec bs size : valid_size size = true -> Z.of_nat (length bs) = size ->
  memory_controller_hub_to_int bs size = Val (le_value bs).
Proof.
  intros V L. unfold memory_controller_hub_to_int, valid_size in *.
  destruct (size =? 1) eqn:E1; [unfold struct_unpack; replace (Z.of_nat (length bs) =? 1) with true by lia; reflexivity|].
  destruct (size =? 2) eqn:E2; [unfold struct_unpack; replace (Z.of_nat (length bs) =? 2) with true by lia; reflexivity|].
  destruct (size =? 4) eqn:E4; [unfold struct_unpack; replace (Z.of_nat (length bs) =? 4) with true by lia; reflexivity|].
  destruct (size =? 8) eqn:E8; [unfold struct_unpack; replace (Z.of_nat (length bs) =? 8) with true by lia; reflexivity|].
  cbn in V. discriminate.
Qed.

Lemma from_int_spec v size : valid_size size = true -> 0 <= v < 2 ^ (8 * size) ->
  memory_controller_hub_from_int v size = Val (le_bytes (Z.to_nat size) v).
Proof.
  intros V R. unfold memory_controller_hub_from_int, valid_size in *.
  assert (C : size = 1 \/ size = 2 \/ size = 4 \/ size = 8) by lia.
  destruct C as [-> | [-> | [-> | ->]]]; cbn [Z.eqb Pos.eqb]; unfold struct_pack;
    replace ((0 <=? v) && (v <? 2 ^ _)) with true by lia; reflexivity.
Qed.
Lemma from_int_range_error v size : valid_size size = true -> ~ 0 <= v < 2 ^ (8 * size) ->
  memory_controller_hub_from_int v size = Err (EHost HStruct).
Proof.
  intros V R. unfold memory_controller_hub_from_int, valid_size in *.
  assert (C : size = 1 \/ size = 2 \/ size = 4 \/ size = 8) by lia.
  destruct C as [-> | [-> | [-> | ->]]]; cbn [Z.eqb Pos.eqb]; unfold struct_pack;
    replace ((0 <=? v) && (v <? 2 ^ _)) with false by lia; reflexivity.
Qed.

Lemma le_bytes_length n v : length (le_bytes n v) = n.
Proof. revert v; induction n; intros; cbn [le_bytes length]; auto. Qed.
Lemma nth_le_bytes n v j : (j < n)%nat -> nth j (le_bytes n v) 0 = (v / 256 ^ Z.of_nat j) mod 256.
Proof.
  revert v j. induction n as [|n IH]; intros v j H; [lia|]. destruct j as [|j]; cbn [le_bytes nth].
  - rewrite Z.pow_0_r, Z.div_1_r. reflexivity.
  - rewrite IH by lia. replace (Z.of_nat (S j)) with (1 + Z.of_nat j) by lia.
    rewrite Z.pow_add_r by lia. rewrite Z.pow_1_r. rewrite Z.div_div by (try lia; apply Z.pow_pos_nonneg; lia). reflexivity.
Qed.

Lemma nth_write_le_from bs k off size v j : (j < length bs)%nat ->
  nth j (write_le_from bs k off size v) 0 =
  if (off <=? k + Z.of_nat j) && (k + Z.of_nat j <? off + size)
  then (v / 256 ^ (k + Z.of_nat j - off)) mod 256 else nth j bs 0.
Proof.
  revert k j. induction bs as [|b t IH]; intros k j H; [cbn in H; lia|].
  destruct j as [|j]; cbn [write_le_from nth].
  - replace (k + Z.of_nat 0) with k by lia. reflexivity.
  - rewrite IH by (cbn in H; lia). replace (k + 1 + Z.of_nat j) with (k + Z.of_nat (S j)) by lia. reflexivity.
Qed.

Lemma nth_firstn_lt (l : list Z) n j : (j < n)%nat -> nth j (firstn n l) 0 = nth j l 0.
Proof.
  revert n j. induction l as [|a t IH]; intros n j H; [rewrite firstn_nil; reflexivity|].
  destruct n as [|n]; [lia|]. destruct j as [|j]; cbn [firstn nth]; [reflexivity|]. apply IH. lia.
Qed.
Lemma nth_skipn_add (l : list Z) n j : nth j (skipn n l) 0 = nth (n + j) l 0.
Proof.
  revert l. induction n as [|n IH]; intros l; [reflexivity|]. destruct l as [|a t]; [destruct j; reflexivity|].
  cbn [skipn Nat.add nth]. apply IH.
Qed.

Lemma list_ext (l1 l2 : list Z) : length l1 = length l2 ->
  (forall j, (j < length l1)%nat -> nth j l1 0 = nth j l2 0) -> l1 = l2.
Proof.
  revert l2. induction l1 as [|a t IH]; intros [|b u] L H; cbn in L; try lia; [reflexivity|].
  f_equal; [apply (H O); cbn; lia|]. apply IH; [lia|]. intros j Hj. apply (H (S j)). cbn; lia.
Qed.

Lemma RAM_write_spec m off size v : 0 <= off -> valid_size size = true ->
  RAM_write off size (le_bytes (Z.to_nat size) v) m = Ok tt (write_le m off size v).
Proof.
  intros Ho V. assert (Hs : 0 < size) by (unfold valid_size in V; lia).
  unfold RAM_write, bind, reads, modify, ret.
  set (L := Z.of_nat (length m)). set (e := Z.min (off + size) L).
  set (bytes := le_bytes (Z.to_nat size) v).
  assert (LB : length bytes = Z.to_nat size) by apply le_bytes_length.
  destruct (off <? e) eqn:In.
  - f_equal. unfold py_slice_assign, clip. cbv zeta. fold L.
    replace (off <? 0) with false by lia. replace (e <? 0) with false by (unfold e, L; lia).
    replace (Z.min off L) with off by (unfold e in *; lia). replace (Z.max off (Z.min e L)) with e by (unfold e; lia).
    assert (PS : py_slice bytes 0 (e - off) = firstn (Z.to_nat (e - off)) bytes).
    { replace (e - off) with (0 + (e - off)) at 1 by lia. rewrite py_slice_nonneg by (unfold e in *; lia). reflexivity. }
    rewrite PS. unfold write_le. apply list_ext.
    + rewrite !app_length, firstn_length, firstn_length, skipn_length, write_le_from_length, LB. unfold e, L in *. lia.
    + intros j Hj. rewrite nth_write_le_from; [|rewrite !app_length, firstn_length, firstn_length, skipn_length, LB in Hj; unfold e, L in *; lia].
      replace (0 + Z.of_nat j) with (Z.of_nat j) by lia.
      assert (Hjm : (j < length m)%nat) by (rewrite !app_length, firstn_length, firstn_length, skipn_length, LB in Hj; unfold e, L in *; lia).
      destruct (Z_lt_dec (Z.of_nat j) off) as [Lo|NLo].
      * replace ((off <=? Z.of_nat j) && (Z.of_nat j <? off + size)) with false by lia.
        rewrite app_nth1 by (rewrite firstn_length; unfold e, L in *; lia). apply nth_firstn_lt. lia.
      * rewrite app_nth2 by (rewrite firstn_length; unfold e, L in *; lia).
        rewrite firstn_length. replace (Init.Nat.min (Z.to_nat off) (length m)) with (Z.to_nat off) by (unfold e, L in *; lia).
        destruct (Z_lt_dec (Z.of_nat j) e) as [Mid|Hi].
        -- replace ((off <=? Z.of_nat j) && (Z.of_nat j <? off + size)) with true by (unfold e in *; lia).
           rewrite app_nth1 by (rewrite firstn_length, LB; unfold e, L in *; lia).
           rewrite nth_firstn_lt by (unfold e, L in *; lia).
           unfold bytes. rewrite nth_le_bytes by (unfold e, L in *; lia). f_equal. f_equal. f_equal. lia.
        -- replace ((off <=? Z.of_nat j) && (Z.of_nat j <? off + size)) with false by (unfold e, L in *; lia).
           rewrite app_nth2 by (rewrite firstn_length, LB; unfold e, L in *; lia).
           rewrite firstn_length, LB. rewrite nth_skipn_add. f_equal. unfold e, L in *. lia.
  - (* offset at or beyond the end of the device: nothing changes *)
    f_equal. unfold write_le. apply list_ext; [rewrite write_le_from_length; reflexivity|].
    intros j Hj. rewrite nth_write_le_from by assumption.
    replace ((off <=? 0 + Z.of_nat j) && (0 + Z.of_nat j <? off + size)) with false by (unfold e, L in *; lia). reflexivity.
Qed.

(* ---------- hub ---------- *)
Definition dflt := mk_device 0 0 [].

Lemma lookup_loop (h : hub) a : forall (j : nat), (j <= length h)%nat ->
  foldM_ret (fun v_memory (_a : unit) =>
     d_1 <- reads (fun h0 : hub => dev_beg (nth (Z.to_nat v_memory) h0 dflt)) ;;
     d_2 <- reads (fun h0 : hub => dev_end (nth (Z.to_nat v_memory) h0 dflt)) ;;
     if ((d_1 <=? a) && (a <? d_2)) then ret (inl v_memory) else ret (inr tt))
    (range_up (Z.of_nat j) (length h - j) 1) tt h
  = Ok (match find_dev (skipn j h) a with Some i => inl (Z.of_nat (j + i)) | None => inr tt end) h.
Proof.
  intros j. remember (length h - j)%nat as n eqn:En. revert j En.
  induction n as [|n IH]; intros j En Hj.
  - assert (j = length h) by lia. subst j. rewrite skipn_all. reflexivity.
  - cbn [range_up foldM_ret]. unfold bind at 1. unfold bind at 1. unfold reads at 1. unfold bind at 1. unfold reads at 1.
    rewrite Nat2Z.id.
    assert (Hlt : (j < length h)%nat) by lia.
    assert (SK : skipn j h = nth j h dflt :: skipn (S j) h).
    { clear IH En Hj. revert j Hlt. induction h as [|x t IHh]; intros j Hlt; [cbn in *; lia|].
      destruct j as [|j]; [reflexivity|]. cbn [skipn nth]. apply IHh. cbn in Hlt; lia. }
    rewrite SK. cbn [find_dev]. unfold covers.
    destruct ((dev_beg (nth j h dflt) <=? a) && (a <? dev_end (nth j h dflt))) eqn:E.
    + unfold ret. cbn. rewrite Nat.add_0_r. reflexivity.
    + unfold ret at 1. cbn beta iota. replace (Z.of_nat j + 1) with (Z.of_nat (S j)) by lia.
      rewrite IH by lia. destruct (find_dev (skipn (S j) h) a); cbn [option_map]; [|reflexivity].
      do 3 f_equal. lia.
Qed.

Theorem get_memory_by_address_spec h a :
  Hub_get_memory_by_address a h = Ok (option_map Z.of_nat (find_dev h a)) h.
Proof.
  unfold Hub_get_memory_by_address. unfold bind at 1. unfold reads at 1. unfold bind at 1.
  unfold py_range. replace (1 >? 0) with true by reflexivity. cbv iota.
  destruct (0 <? Z.of_nat (length h)) eqn:E.
  - replace (Z.to_nat ((Z.of_nat (length h) - 0 + 1 - 1) / 1)) with (length h - 0)%nat by (rewrite Z.div_1_r; lia).
    pose proof (lookup_loop h a 0 ltac:(lia)) as LL. cbn [Z.of_nat] in LL. unfold dflt, hub in LL. rewrite LL.
    cbn [skipn]. destruct (find_dev h a); reflexivity.
  - assert (h = []) by (destruct h; [reflexivity|cbn in E; lia]). subst h. reflexivity.
Qed.

Lemma find_dev_lt h a i : find_dev h a = Some i -> (i < length h)%nat /\ covers (nth i h dflt) a = true.
Proof.
  revert i. induction h as [|d t IH]; intros i H; [discriminate|]. cbn [find_dev] in H.
  destruct (covers d a) eqn:E.
  - inversion H; subst. cbn. split; [lia|exact E].
  - destruct (find_dev t a) as [k|]; [|discriminate]. inversion H; subst. destruct (IH k eq_refl). cbn. split; [lia|assumption].
Qed.

Lemma nth_upd_same {A} (l : list A) n v d : (n < length l)%nat -> nth n (upd l n v) d = v.
Proof. revert n; induction l; destruct n; cbn; intros; try lia; auto. apply IHl; lia. Qed.

Definition pa_of (desc : AddressDescriptor) : Z := FullAddress_physicaladdress (AddressDescriptor_paddress desc).

Theorem Hub_getitem_spec h desc size : valid_size size = true ->
  Hub_getitem (desc, size) h = Ok (hub_read h (pa_of desc) size) h.
Proof.
  intros V. unfold Hub_getitem. cbv zeta beta iota. fold (pa_of desc).
  unfold bind at 1. unfold lift, eassert. unfold valid_size in V. rewrite V.
  unfold bind at 1. rewrite get_memory_by_address_spec. unfold hub_read.
  destruct (find_dev h (pa_of desc)) as [i|] eqn:F; cbn [option_map negb unsome]; [|reflexivity].
  destruct (find_dev_lt _ _ _ F) as [Hi Hc]. unfold covers in Hc.
  unfold bind at 1. unfold reads at 1. rewrite Nat2Z.id. fold dflt.
  unfold bind at 1. unfold zoom_dev, zoom. rewrite Nat2Z.id. fold dflt.
  unfold RAM_getitem. unfold bind at 1.
  set (d := nth i h dflt) in *.
  assert (Sz : 0 < size) by lia.
  rewrite RAM_read_spec by lia. cbv zeta.
  set (c := firstn (Z.to_nat size) (skipn (Z.to_nat (pa_of desc - dev_beg d)) (dev_bytes d))).
  unfold ret at 1. cbn beta iota.
  assert (Hd : upd h i (mk_device (dev_beg d) (dev_end d) (dev_bytes d)) = h).
  { unfold d. clear. revert i. induction h as [|x t IH]; intros [|i]; cbn [upd nth]; auto.
    - destruct x; reflexivity. - f_equal. apply IH. }
  rewrite Hd. unfold bind at 1. unfold lift.
  assert (Lc : (length c <= Z.to_nat size)%nat) by (unfold c; apply firstn_le_length).
  rewrite to_int_spec; [|unfold valid_size; exact V|rewrite length_pad by exact Lc; lia].
  unfold ret. f_equal. unfold c. rewrite le_value_pad. symmetry. apply read_le_read_l. lia.
Qed.

Theorem Hub_setitem_spec h desc size v : valid_size size = true -> 0 <= v < 2 ^ (8 * size) ->
  Hub_setitem (desc, size) v h = Ok tt (hub_write h (pa_of desc) size v).
Proof.
  intros V R. unfold Hub_setitem. cbv zeta. cbn [fst snd]. fold (pa_of desc).
  unfold bind at 1. unfold lift, eassert. pose proof V as V'. unfold valid_size in V'. rewrite V'.
  unfold bind at 1. rewrite get_memory_by_address_spec. unfold hub_write.
  destruct (find_dev h (pa_of desc)) as [i|] eqn:F; cbn [option_map negb unsome]; [|reflexivity].
  destruct (find_dev_lt _ _ _ F) as [Hi Hc]. unfold covers in Hc.
  unfold bind at 1. unfold bind at 1. rewrite from_int_spec by assumption.
  unfold bind at 1. unfold reads at 1. rewrite Nat2Z.id. fold dflt.
  unfold bind at 1. unfold zoom_dev, zoom. rewrite Nat2Z.id. fold dflt.
  unfold RAM_setitem. cbn [fst snd]. unfold bind at 1.
  rewrite RAM_write_spec by (try assumption; lia).
  reflexivity.
Qed.

Theorem Hub_setitem_rejects h desc size v : valid_size size = true -> ~ 0 <= v < 2 ^ (8 * size) ->
  find_dev h (pa_of desc) <> None ->
  Hub_setitem (desc, size) v h = Exc (EHost HStruct) h.
Proof.
  intros V R NF. unfold Hub_setitem. cbv zeta. cbn [fst snd]. fold (pa_of desc).
  unfold bind at 1. unfold lift, eassert. pose proof V as V'. unfold valid_size in V'. rewrite V'.
  unfold bind at 1. rewrite get_memory_by_address_spec.
  destruct (find_dev h (pa_of desc)) as [i|] eqn:F; [|congruence]. cbn [option_map negb unsome].
  unfold bind at 1. unfold bind at 1. rewrite from_int_range_error by assumption. reflexivity.
Qed.

Theorem Hub_bad_size h desc size v : valid_size size = false ->
  Hub_getitem (desc, size) h = Exc (EHost HAssert) h /\ Hub_setitem (desc, size) v h = Exc (EHost HAssert) h.
Proof.
  intros V. unfold valid_size in V. split.
  - unfold Hub_getitem. cbv zeta beta iota. unfold bind at 1. unfold lift, eassert. rewrite V. reflexivity.
  - unfold Hub_setitem. cbv zeta. cbn [fst snd]. unfold bind at 1. unfold lift, eassert. rewrite V. reflexivity.
Qed.

(* ---------- histories ---------- *)
Definition op_ok (o : hub_op) : Prop :=
  match o with
  | HRead _ size => valid_size size = true
  | HWrite _ size v => valid_size size = true /\ 0 <= v < 2 ^ (8 * size)
  end.
(* run a history on the translated hub, collecting the values read *)
Fixpoint run_hub (ops : list hub_op) (h : hub) : option (list Z * hub) :=
  match ops with
  | [] => Some ([], h)
  | HRead pa size :: t =>
      match Hub_getitem (desc_at pa, size) h with
      | Ok v h' => option_map (fun r => (v :: fst r, snd r)) (run_hub t h')
      | Exc _ _ => None
      end
  | HWrite pa size v :: t =>
      match Hub_setitem (desc_at pa, size) v h with
      | Ok _ h' => run_hub t h'
      | Exc _ _ => None
      end
  end.
Fixpoint spec_reads (ops : list hub_op) (h : hub) : list Z :=
  match ops with
  | [] => []
  | HRead pa size :: t => hub_read h pa size :: spec_reads t h
  | HWrite pa size v :: t => spec_reads t (hub_write h pa size v)
  end.

Theorem hub_history ops : forall h, Forall op_ok ops ->
  run_hub ops h = Some (spec_reads ops h, fold_left hub_step ops h).
Proof.
  induction ops as [|o t IH]; intros h F; [reflexivity|]. inversion F as [|? ? Ho Ft]; subst.
  destruct o as [pa size|pa size v]; cbn [run_hub spec_reads fold_left hub_step op_ok] in *.
  - rewrite Hub_getitem_spec by assumption. rewrite IH by assumption. reflexivity.
  - destruct Ho. rewrite Hub_setitem_spec by assumption. apply IH. assumption.
Qed.

(* what a history can never change: the number of devices, each device's range and size *)
Definition shape (h : hub) : list (Z * Z * nat) := map (fun d => (dev_beg d, dev_end d, length (dev_bytes d))) h.
Lemma hub_write_shape h pa size v : shape (hub_write h pa size v) = shape h.
Proof.
  unfold hub_write. destruct (find_dev h pa) as [i|] eqn:F; [|reflexivity].
  destruct (find_dev_lt _ _ _ F) as [Hi _]. fold dflt. clear F. revert i Hi.
  induction h as [|d t IH]; intros [|i] Hi; cbn in Hi; try lia; cbn [upd nth shape map].
  - cbn [dev_beg dev_end dev_bytes]. rewrite write_le_length. reflexivity.
  - f_equal. apply IH. lia.
Qed.
Theorem hub_shape_invariant ops : forall h, shape (fold_left hub_step ops h) = shape h.
Proof.
  induction ops as [|o t IH]; intros h; [reflexivity|]. cbn [fold_left]. rewrite IH.
  destruct o; cbn [hub_step]; [reflexivity|apply hub_write_shape].
Qed.

(* ---------- facts about the specification itself (what a write may change, store/load) ---------- *)
Lemma write_le_nth bs off size v j : (j < length bs)%nat ->
  nth j (write_le bs off size v) 0 =
  if (off <=? Z.of_nat j) && (Z.of_nat j <? off + size) then (v / 256 ^ (Z.of_nat j - off)) mod 256 else nth j bs 0.
Proof. intros. unfold write_le. rewrite nth_write_le_from by assumption. reflexivity. Qed.

Lemma hub_write_other_device h pa size v i k : find_dev h pa = Some i -> k <> i ->
  nth k (hub_write h pa size v) dflt = nth k h dflt.
Proof.
  intros F Hk. unfold hub_write. rewrite F. fold dflt.
  generalize (mk_device (dev_beg (nth i h dflt)) (dev_end (nth i h dflt))
                (write_le (dev_bytes (nth i h dflt)) (pa - dev_beg (nth i h dflt)) size v)).
  intro d. clear F. revert i k Hk. induction h as [|x t IH]; intros [|i] [|k] Hk; cbn [upd nth]; try congruence; auto.
Qed.

Lemma read_l_app_firstn (l : list Z) n : read_l l n = read_l (firstn n l) n.
Proof. revert l; induction n as [|n IH]; intros [|a t]; cbn [read_l firstn hd tl]; auto. rewrite <- IH. reflexivity. Qed.

Lemma read_l_le_bytes n v : 0 <= v < 256 ^ Z.of_nat n -> read_l (le_bytes n v) n = v.
Proof.
  revert v. induction n as [|n IH]; intros v Hv.
  - cbn in *. lia.
  - cbn [le_bytes read_l hd tl]. rewrite IH.
    + lia.
    + replace (Z.of_nat (S n)) with (1 + Z.of_nat n) in Hv by lia. rewrite Z.pow_add_r in Hv by lia.
      rewrite Z.pow_1_r in Hv. split; [apply Z.div_pos; lia|]. apply Z.div_lt_upper_bound; lia.
Qed.

Theorem store_load bs off size v : valid_size size = true -> 0 <= off -> off + size <= Z.of_nat (length bs) ->
  0 <= v < 2 ^ (8 * size) -> read_le (write_le bs off size v) off (Z.to_nat size) = v.
Proof.
  intros V Ho Hin Hv. assert (Hs : 0 < size) by (unfold valid_size in V; lia).
  rewrite read_le_read_l by lia. rewrite read_l_app_firstn.
  assert (E : firstn (Z.to_nat size) (skipn (Z.to_nat off) (write_le bs off size v)) = le_bytes (Z.to_nat size) v).
  { apply list_ext.
    - rewrite firstn_length, skipn_length, write_le_length, le_bytes_length. lia.
    - intros j Hj. rewrite firstn_length, skipn_length, write_le_length in Hj.
      rewrite nth_firstn_lt by lia. rewrite nth_skipn_add. rewrite write_le_nth by lia.
      replace ((off <=? Z.of_nat (Z.to_nat off + j)) && (Z.of_nat (Z.to_nat off + j) <? off + size)) with true by lia.
      rewrite nth_le_bytes by lia. f_equal. f_equal. f_equal. lia. }
  rewrite E. apply read_l_le_bytes. rewrite Z2Nat.id by lia.
  replace (2 ^ (8 * size)) with (256 ^ size) in Hv; [exact Hv|].
  change 256 with (2 ^ 8). rewrite <- Z.pow_mul_r by lia. reflexivity.
Qed.
