"""C05 — conditional execution."""
import copy
import common as C
import statelib
import stepgen
from framework import Unit

IMPORTS = 'From Gen Require Import enums opsyn core exec step.'
SPEC_IMPORTS = 'From ArmV Require Import Spec.Pseudocode Spec.Arch.'


def tables():
    return statelib.load_index(C.GEN)['tables']


def cond_cases(rng, tier):
    t = tables()
    out = []
    icpsr = t['sys_names'].index('cpsr')
    base = statelib.reset_state(t, mem=[])
    combos = []
    # ARM: every cond x every NZCV
    for cond in range(16):
        for nzcv in range(16):
            combos.append(('arm', cond, nzcv))
    # Thumb conditional branches T1 (16 bit), T3 (32 bit), and IT-state driven
    for cond in range(16):
        for nzcv in (0, 5, 10, 15, rng.randrange(16)):
            combos.append(('t1', cond, nzcv))
            combos.append(('t3', cond, nzcv))
            combos.append(('it', cond, nzcv))
            combos.append(('svc_in_it', cond, nzcv))
    for cond in range(16):
        for _ in range(6):
            combos.append(('rand32', cond, rng.randrange(16)))
            combos.append(('rand16', cond, rng.randrange(16)))
    for (kind, cond, nzcv) in combos:
        st = copy.deepcopy(base)
        cpsr = (nzcv << 28) | 0x13
        if kind == 'arm':
            st['opcode'] = (cond << 28) | rng.getrandbits(28)
            st['opcode_len'] = 32
        else:
            cpsr |= 1 << 5
            it = 0
            if kind == 't1':
                st['opcode'] = (0b1101 << 12) | (cond << 8) | rng.getrandbits(8)
                st['opcode_len'] = 16
                it = rng.choice([0, (rng.randrange(16) << 4) | 0x8])
            elif kind == 't3':
                st['opcode'] = (0b11110 << 27) | (rng.getrandbits(1) << 26) | (cond << 22) | (rng.getrandbits(6) << 16) | \
                               (0b10 << 14) | (rng.getrandbits(1) << 13) | (0 << 12) | rng.getrandbits(12)
                st['opcode_len'] = 32
                it = rng.choice([0, (rng.randrange(16) << 4) | 0x4])
            elif kind == 'it':
                st['opcode'] = rng.getrandbits(16) & 0xBFFF & ~(0b1101 << 12) | (0b0100 << 12)
                st['opcode_len'] = 16
                it = (cond << 4) | rng.choice([0x8, 0x4, 0xC, 0x2, 0x1])
            elif kind == 'rand32':   # any 32-bit Thumb word, often with <15:12> = 1101 in the low halfword
                lo = rng.getrandbits(16)
                if rng.random() < 0.6:
                    lo = (lo & 0x0FFF) | 0xD000
                st['opcode'] = (rng.choice([0b11101, 0b11110, 0b11111]) << 27) | (rng.getrandbits(11) << 16) | lo
                st['opcode_len'] = 32
                it = rng.choice([0, (cond << 4) | rng.choice([0x8, 0x4, 0x2, 0x1])])
            elif kind == 'rand16':
                st['opcode'] = rng.getrandbits(16)
                st['opcode_len'] = 16
                it = rng.choice([0, (cond << 4) | rng.choice([0x8, 0x4, 0x2, 0x1])])
            else:   # SVC (1101 1111 imm8) inside an IT block: the IT condition decides
                st['opcode'] = 0xDF00 | rng.getrandbits(8)
                st['opcode_len'] = 16
                it = (cond << 4) | 0x8
            cpsr |= ((it >> 2) << 10) | ((it & 3) << 25)
        st['sys'][icpsr] = cpsr
        m = statelib.coq_machine(st)
        n, z, c, v = (nzcv >> 3) & 1, (nzcv >> 2) & 1, (nzcv >> 1) & 1, nzcv & 1
        it = ((cpsr >> 10) & 0x3F) << 2 | ((cpsr >> 25) & 3)
        iset = ((cpsr >> 24) & 1) * 2 + ((cpsr >> 5) & 1)
        spec = (f'(enc_pure enc_Z (B2Z (ConditionHolds (CurrentCond {iset} {st["opcode"]} {st["opcode_len"]} {it}) '
                f'{n} {z} {c} {v})))')
        out.append({'impl': {'kind': 'method', 'state': st, 'method': 'condition_passed', 'args': [], 'rt': ['Z'],
                             '_only_result': True},
                    'model': f'(enc_out (fun _ => []) enc_Z (ArmV6_condition_passed {m}))',
                    'spec': spec, 'label': 'cond_' + kind, 'nontrivial': True})
    return out


FAIL = {0: 0b0000, 1: 0b0100, 2: 0b0000, 3: 0b0010, 4: 0b0000, 5: 0b1000, 6: 0b0000, 7: 0b0001, 8: 0b0000, 9: 0b0010,
        10: 0b1000, 11: 0b0000, 12: 0b0100, 13: 0b0000}      # for each condition an NZCV value for which it fails
SKIP_ARM = {'BkptA1', 'UdfA1'}                               # unconditional even with a condition field
SKIP_THUMB = {'BT1', 'BT3', 'CbzT1', 'ItT1', 'BkptT1', 'UdfT1', 'UdfT2',   # carry their own condition / UNPREDICTABLE in an IT block
              'EnterxLeavexT1'}      # ENTERX/LEAVEX have no <c> and no ConditionPassed() in their pseudocode (A9.3.1): unconditional


def condfail_cases(rng, tier):
    """whole steps of instructions whose condition fails: nothing but the PC and the IT state may change.  A few words of
    every encoding class reached by sampling (ARM: condition field forced to a failing one; Thumb: inside an IT block whose
    condition fails), which is a concrete-input search for the theorem C05_guard and extends it to the whole step"""
    t = tables()
    names = {v['code']: k for k, v in t['concrete_classes'].items()}
    icpsr = t['sys_names'].index('cpsr')
    out = []
    import wordpool
    plan = []
    for kind, w, c in wordpool.pool(rng, per_class=2 if tier == 'quick' else 25):
        nm = names.get(c, '')
        if nm in SKIP_ARM or nm in SKIP_THUMB:
            continue
        plan.append((kind, w, False))
    # the generic-coprocessor instructions (p1, and p14; CPACR at its reset value denies the access to p1): a failing condition must win over the
    # acceptance test, i.e. no Undefined Instruction exception; ARM words and the same bit patterns as 32-bit Thumb words
    for base in (0x0C521110, 0x0C421110, 0x0E111110, 0x0E011110, 0x0E000100, 0x0D911104, 0x0D811104, 0x0C911104,
                 0x0C521E10, 0x0E111E10):
        plan.append(('arm', base, True))
        plan.append(('t32', 0xE0000000 | base, True))
    for kind, w, strict in plan:
        cond = rng.randrange(14)
        nzcv = FAIL[cond]
        st = stepgen.random_state(rng, t, thumb=(kind != 'arm'), mpu=False)
        cpsr = st['sys'][icpsr] & ~((0xF << 28) | (0x3F << 10) | (3 << 25))
        cpsr |= nzcv << 28
        if kind == 'arm':
            if (w >> 28) == 0xF:
                continue
            w = (w & 0x0FFFFFFF) | (cond << 28)
            length = 4
        else:
            it = (cond << 4) | 0x8                    # last instruction of the block: branches are allowed there
            cpsr |= ((it >> 2) << 10) | ((it & 3) << 25)
            length = 2 if kind == 't16' else 4
            if kind == 't32':
                st['_thumb32'] = True
        st['sys'][icpsr] = cpsr
        st['sys'][t['sys_names'].index('event_register')] = rng.getrandbits(1)
        stepgen.put_instr(st, w, 16 if kind == 't16' else 32)
        out.append({'impl': {'kind': 'step_condfail', 'state': stepgen.clean(st), 'length': length, 'strict': strict}, 'model': None,
                    'spec': '[0]', 'label': ('coproc_condfail_' if strict else 'condfail_') + kind, 'nontrivial': True})
    return out


PROPS_FILES = ['C05', 'C05step']


def units():
    return [
        Unit('cond_table', ['C05_current_cond', 'C05_table'], ['Proofs/CondProofs.v'],
             ['arm_v6.ArmV6.condition_passed', 'arm_v6.ArmV6.current_cond'], cond_cases, IMPORTS, SPEC_IMPORTS),
        Unit('guard', ['C05_guard', 'C05_pass'], ['Proofs/CondProofs.v', 'Proofs/GuardProofs.v'],
             ['arm_v6.ArmV6.condition_passed'], None, IMPORTS, SPEC_IMPORTS),
        Unit('condfail_search', ['C05_step_cond_fails', 'C05_skip_pc', 'C05_skip_regs', 'C05_skip_mem', 'C05_skip_sys', 'C05_skip_cpsr',
                                 'C05_step_cond_fails_example', 'C05_add_imm_a1_skipped_closed'],
             ['Proofs/StepProofs.v', 'Proofs/StepExample.v', 'Proofs/StepFetch.v', 'Proofs/StepClosed.v', 'Proofs/StepInstances.v'],
             ['arm_v6.ArmV6.emulate_cycle', 'arm_v6.ArmV6.execute_instruction', 'arm_v6.ArmV6.increment_pc_if_needed'],
             condfail_cases, IMPORTS, 'From Coq Require Import ZArith List.'),
    ]
