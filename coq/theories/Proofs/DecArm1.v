(* Proofs/DecArm1.v — ARM decode, group tables (first instalment): the regenerated sub-decoders equal hand-written
   first-match tables of the ARM encoding (A5.2.5, A5.3) on every 32-bit word of their domain. *)
From Coq Require Import ZArith List Bool Lia String.
From ArmV Require Import Lib.PyZ Proofs.Cube Proofs.DecodeReify Spec.DecTables.
From Gen Require Import bits_ops opsyn decoders.
Import ListNotations.
Open Scope Z_scope.


(* ---------- A5.2.5 Multiply and multiply accumulate: cond 0000 op(23:20) .... 1001 .... ---------- *)

Lemma mul_reified : { t : tree (res (option Z)) | forall w, eval [] (Val None) t w = dec_arm_multiply_and_multiply_accumulate w }.
Proof.
  eexists. intros w. unfold dec_arm_multiply_and_multiply_accumulate. cbv zeta.
  match goal with |- eval _ _ ?T w = ?rhs => let t := reify_t (res (option Z)) w (@nil (Z -> res (option Z))) rhs in unify T t end.
  reflexivity.
Defined.
Theorem dec_multiply_table w : 0 <= w < 2 ^ 32 -> Z.land w (fst (pat mul_domain)) = snd (pat mul_domain) ->
  dec_arm_multiply_and_multiply_accumulate w = eval_leaf [] (Val None) (lookup mul_table (LRet (Val None)) w) w.
Proof.
  intros Hw Hd. rewrite <- (proj2_sig mul_reified w).
  apply (decode_correct_cube 32%nat res_eqb res_eqb_sound [] (Val None) mul_table (LRet (Val None)) (proj1_sig mul_reified) 200 (cube_of 32%nat mul_domain)).
  - vm_compute. reflexivity.
  - apply inc_cube_of; assumption.
Qed.

(* ---------- A5.3 Load/store word and unsigned byte: cond 01 A op1(24:20) Rn .... B .... ---------- *)

Lemma lsw_reified : { t : tree (option Z) | forall w, eval [] None t w = dec_arm_load_store_word_and_unsigned_byte w }.
Proof.
  eexists. intros w. unfold dec_arm_load_store_word_and_unsigned_byte. cbv zeta.
  match goal with |- eval _ _ ?T w = ?rhs => let t := reify_t (option Z) w (@nil (Z -> option Z)) rhs in unify T t end.
  reflexivity.
Defined.
Theorem dec_load_store_word_table w : 0 <= w < 2 ^ 32 -> Z.land w (fst (pat lsw_domain)) = snd (pat lsw_domain) ->
  dec_arm_load_store_word_and_unsigned_byte w = eval_leaf [] None (lookup lsw_table (LRet None) w) w.
Proof.
  intros Hw Hd. rewrite <- (proj2_sig lsw_reified w).
  apply (decode_correct_cube 32%nat optZ_eqb optZ_eqb_sound [] None lsw_table (LRet None) (proj1_sig lsw_reified) 200 (cube_of 32%nat lsw_domain)).
  - vm_compute. reflexivity.
  - apply inc_cube_of; assumption.
Qed.

(* ---------- A5.5 Branch, branch with link, and block data transfer: cond 10 op(25:20) Rn R .... ---------- *)
(* "if BitCount(register_list) < 2 then SEE LDM / STMDB" of the POP and PUSH encodings A1 *)
Lemma bbt_reified : { t : tree (option Z) | forall w, eval bbt_env None t w = dec_arm_branch_branch_with_link_and_block_data_transfer w }.
Proof.
  eexists. intros w. unfold dec_arm_branch_branch_with_link_and_block_data_transfer. cbv zeta.
  match goal with |- eval _ _ ?T w = ?rhs => let e := eval unfold bbt_env in bbt_env in let t := reify_t (option Z) w e rhs in unify T t end.
  reflexivity.
Defined.
Theorem dec_branch_block_table w : 0 <= w < 2 ^ 32 -> Z.land w (fst (pat bbt_domain)) = snd (pat bbt_domain) ->
  dec_arm_branch_branch_with_link_and_block_data_transfer w = eval_leaf bbt_env None (lookup bbt_table (LRet None) w) w.
Proof.
  intros Hw Hd. rewrite <- (proj2_sig bbt_reified w).
  apply (decode_correct_cube 32%nat optZ_eqb optZ_eqb_sound bbt_env None bbt_table (LRet None) (proj1_sig bbt_reified) 200 (cube_of 32%nat bbt_domain)).
  - vm_compute. reflexivity.
  - apply inc_cube_of; assumption.
Qed.

(* ---------- A5.1 ARM instruction set encoding: cond op1(27:25) ... op(4) ---------- *)
Definition call_res (f : Z -> res (option Z)) (w : Z) : res (option Z) := ebind (f w) (fun t => Val t).
Definition call_opt (f : Z -> option Z) (w : Z) : res (option Z) := Val (f w).
Definition top_env : list (Z -> res (option Z)) :=
  [ call_res dec_arm_data_processing_and_miscellaneous_instructions;
    call_opt dec_arm_load_store_word_and_unsigned_byte;
    call_opt dec_arm_media_instructions;
    call_opt dec_arm_branch_branch_with_link_and_block_data_transfer;
    call_res dec_arm_coprocessor_instructions_and_supervisor_call;
    call_res dec_arm_unconditional_instructions ].
Definition top_table : list (entry (res (option Z))) := [
  row "1111 xxxx xxxx xxxx xxxx xxxx xxxx xxxx" (LCall 5);
  row "xxxx 00xx xxxx xxxx xxxx xxxx xxxx xxxx" (LCall 0);
  row "xxxx 010x xxxx xxxx xxxx xxxx xxxx xxxx" (LCall 1);
  row "xxxx 011x xxxx xxxx xxxx xxxx xxx0 xxxx" (LCall 1);
  row "xxxx 011x xxxx xxxx xxxx xxxx xxx1 xxxx" (LCall 2);
  row "xxxx 10xx xxxx xxxx xxxx xxxx xxxx xxxx" (LCall 3);
  row "xxxx 11xx xxxx xxxx xxxx xxxx xxxx xxxx" (LCall 4) ].
Lemma top_reified : { t : tree (res (option Z)) | forall w, eval top_env (Val None) t w = dec_arm_instruction_set w }.
Proof.
  eexists. intros w. unfold dec_arm_instruction_set. cbv zeta.
  match goal with |- eval _ _ ?T w = ?rhs => let e := eval unfold top_env in top_env in let t := reify_t (res (option Z)) w e rhs in unify T t end.
  reflexivity.
Defined.
Theorem dec_arm_top_table w : 0 <= w < 2 ^ 32 ->
  dec_arm_instruction_set w = eval_leaf top_env (Val None) (lookup top_table (LRet (Val None)) w) w.
Proof.
  intros Hw. rewrite <- (proj2_sig top_reified w).
  apply (decode_correct 32%nat res_eqb res_eqb_sound top_env (Val None) top_table (LRet (Val None)) (proj1_sig top_reified) 200).
  - vm_compute. reflexivity.
  - exact Hw.
Qed.

(* ---------- A5.2.3 Data-processing (immediate): cond 001 op(24:20) Rn Rd imm12 ---------- *)
(* domain: op1 not 10xx0 (those are MOVW / MOVT / MSR immediate and hints) *)
Lemma dpi_reified : { t : tree (option Z) | forall w, eval [] None t w = dec_arm_data_processing_immediate w }.
Proof.
  eexists. intros w. unfold dec_arm_data_processing_immediate. cbv zeta.
  match goal with |- eval _ _ ?T w = ?rhs => let t := reify_t (option Z) w (@nil (Z -> option Z)) rhs in unify T t end.
  reflexivity.
Defined.
Definition in_domains (w : Z) (ds : list string) : Prop := exists s, In s ds /\ Z.land w (fst (pat s)) = snd (pat s).
Theorem dec_dp_immediate_table w : 0 <= w < 2 ^ 32 -> in_domains w dpi_domains ->
  dec_arm_data_processing_immediate w = eval_leaf [] None (lookup dpi_table (LRet None) w) w.
Proof.
  intros Hw [s [Hs Hd]]. rewrite <- (proj2_sig dpi_reified w).
  assert (G : forallb (fun s => check2 32%nat optZ_eqb dpi_table (LRet None) 200 (proj1_sig dpi_reified) (cube_of 32%nat s)) dpi_domains = true)
    by (vm_compute; reflexivity).
  rewrite forallb_forall in G. specialize (G s Hs).
  apply (decode_correct_cube 32%nat optZ_eqb optZ_eqb_sound [] None dpi_table (LRet None) (proj1_sig dpi_reified) 200 (cube_of 32%nat s) G).
  apply inc_cube_of; assumption.
Qed.
