(* Proofs/CpsrWrite.v — Registers.cpsr_write_by_instr equals CPSRWriteByInstr (Spec/Arch) for every
   value, byte mask, exception-return flag, configuration and state. *)
From Coq Require Import ZArith List Bool Lia ZifyBool.
From ArmV Require Import Lib.PyZ Lib.Monad Lib.Machine Spec.Pseudocode Spec.Expected Spec.Arch
  Proofs.BitLemmas Proofs.SpecFacts Proofs.BitsOps Proofs.BitsOps2 Proofs.FieldsProofs Proofs.StateLemmas Proofs.CondProofs Proofs.BankProofs.
From Gen Require Import enums bits_ops shift regviews records hubm opsyn core.
Import ListNotations.
Open Scope Z_scope.

(* ---------- merge algebra ---------- *)
Lemma testbit_mask_bits hi lo i : 0 <= lo <= hi -> 0 <= i -> Z.testbit (mask_bits hi lo) i = (lo <=? i) && (i <=? hi).
Proof.
  intros H Hi. unfold mask_bits. destruct (lo <=? i) eqn:E; cbn [andb].
  - rewrite Z.mul_pow2_bits by lia. rewrite tb_ones by lia. destruct (i <=? hi) eqn:E2; lia.
  - rewrite Z.mul_pow2_bits_low by lia. reflexivity.
Qed.
Lemma testbit_merge p v m i : 0 <= i -> Z.testbit (merge p v m) i = if Z.testbit m i then Z.testbit v i else Z.testbit p i.
Proof.
  intros. unfold merge. rewrite Z.lor_spec, !Z.land_spec, Z.lnot_spec by lia.
  destruct (Z.testbit m i); cbn [negb]; rewrite ?andb_true_r, ?andb_false_r, ?orb_false_r; reflexivity.
Qed.
Lemma merge_merge p v m1 m2 : merge (merge p v m1) v m2 = merge p v (Z.lor m1 m2).
Proof.
  apply Z.bits_inj'. intros i Hi. rewrite !testbit_merge, Z.lor_spec by lia.
  destruct (Z.testbit m1 i), (Z.testbit m2 i); reflexivity.
Qed.
Lemma merge_0 p v : merge p v 0 = p.
Proof. apply Z.bits_inj'. intros i Hi. rewrite testbit_merge, Z.bits_0 by lia. reflexivity. Qed.

Lemma set_substring_merge p hi lo v : 0 <= lo <= hi -> hi < 256 -> 0 <= p < 2 ^ 256 ->
  set_substring p hi lo (substring v hi lo) = merge p v (mask_bits hi lo).
Proof.
  intros H Hh Hp. apply Z.bits_inj'. intros i Hi.
  rewrite substring_bits by lia. rewrite set_substring_bits by (try lia; apply bits_range; lia).
  rewrite testbit_merge, testbit_mask_bits by lia.
  destruct ((lo <=? i) && (i <=? hi)) eqn:E; [|reflexivity].
  rewrite testbit_bits by lia. replace (i - lo <=? hi - lo) with true by lia. f_equal. lia.
Qed.
Lemma set_bit_at_merge p i v : 0 <= i < 256 -> 0 <= p < 2 ^ 256 ->
  set_bit_at p i (bit_at v i) = merge p v (mask_bits i i).
Proof. intros. unfold set_bit_at, bit_at. apply set_substring_merge; lia. Qed.

Lemma merge_range p v m : 0 <= p < 2 ^ 32 -> 0 <= v < 2 ^ 32 -> 0 <= m -> 0 <= merge p v m < 2 ^ 32.
Proof.
  intros Hp Hv Hm.
  assert (NN : 0 <= merge p v m).
  { unfold merge. apply Z.lor_nonneg. split; apply Z.land_nonneg; left; lia. }
  split; [exact NN|].
  destruct (Z.eq_dec (merge p v m) 0) as [->|NZ]; [lia|].
  apply Z.log2_lt_pow2; [lia|]. destruct (Z_lt_dec (Z.log2 (merge p v m)) 32); [assumption|exfalso].
  pose proof (Z.bit_log2 (merge p v m) ltac:(lia)) as T. rewrite testbit_merge in T by (apply Z.log2_nonneg).
  rewrite (tb_small p 32), (tb_small v 32) in T by lia. destruct (Z.testbit m _); discriminate.
Qed.

Lemma current_mode_is_not_user_spec cfg s :
  Registers_current_mode_is_not_user cfg s = Ok (B2Z (negb (mode_of s =? 16))) s.
Proof.
  unfold Registers_current_mode_is_not_user. mred. rewrite !mode_of_get.
  destruct (mode_of s =? 16); reflexivity.
Qed.


Lemma low_bits_zero m i : m mod 32 = 0 -> 0 <= i < 5 -> Z.testbit m i = false.
Proof.
  intros Hm Hi. rewrite <- (Z.mod_pow2_bits_low m 5 i) by lia. change (2 ^ 5) with 32. rewrite Hm. apply Z.bits_0.
Qed.
Lemma bits_merge_low p v m : m mod 32 = 0 -> bits (merge p v m) 4 0 = bits p 4 0.
Proof.
  intros Hm. apply Z.bits_inj'. intros j Hj. rewrite !testbit_bits by lia.
  destruct (j <=? 4 - 0) eqn:E; [|reflexivity]. rewrite testbit_merge by lia.
  rewrite low_bits_zero by lia. reflexivity.
Qed.

(* the state after writing a new CPSR value *)
Definition set_cpsr (s : machine) (p : Z) : machine := set_sys s (setl (sys s) 0 p).
Lemma cpsr_set_cpsr s p : length (sys s) = n_sys -> getl (sys (set_cpsr s p)) 0 = p.
Proof. intros H. unfold set_cpsr. cbn [sys set_sys]. apply getl_setl_same. unfold n_sys in H. lia. Qed.
Lemma other_set_cpsr s p i : 0 < i -> getl (sys (set_cpsr s p)) i = getl (sys s) i.
Proof. intros H. unfold set_cpsr. cbn [sys set_sys]. apply getl_setl_other; lia. Qed.
Lemma set_cpsr_set_cpsr s p q : set_cpsr (set_cpsr s p) q = set_cpsr s q.
Proof. unfold set_cpsr. cbn [sys set_sys]. rewrite setl_setl_same. reflexivity. Qed.
Lemma len_set_cpsr s p : length (sys (set_cpsr s p)) = length (sys s).
Proof. unfold set_cpsr. cbn [sys set_sys]. apply setl_length. Qed.
Lemma set_cpsr_same s : length (sys s) = n_sys -> set_cpsr s (getl (sys s) 0) = s.
Proof. intros H. unfold set_cpsr. rewrite setl_getl_same by (unfold n_sys in H; lia). apply set_sys_id. Qed.

(* ---------- field assignment in both styles ---------- *)
Lemma word_256' p : word p -> 0 <= p < 2 ^ 256.
Proof. apply word_256. Qed.
Lemma ssi p hi lo v : word p -> 0 <= lo <= hi -> hi < 32 ->
  set_substring p hi lo (substring v hi lo) = insert p hi lo (bits v hi lo).
Proof.
  intros Hp H Hh. rewrite substring_bits by lia. rewrite set_substring_insert; [reflexivity|lia|lia|apply word_256; exact Hp|apply bits_range; lia].
Qed.
Lemma sbi p i v : word p -> 0 <= i < 32 -> set_bit_at p i (bit_at v i) = insert p i i (bits v i i).
Proof. intros Hp Hi. unfold set_bit_at, bit_at. apply ssi; [exact Hp|lia|lia]. Qed.
Lemma word_insert p hi lo v : word p -> 0 <= lo <= hi -> hi < 32 -> word (insert p hi lo (bits v hi lo)).
Proof.
  intros Hp H Hh. rewrite <- ssi by assumption. rewrite substring_bits by lia.
  apply (set_substring_range p hi lo (bits v hi lo) 32); try lia; try exact Hp. apply bits_range; lia.
Qed.
Lemma word_wfield c hi lo v p : word p -> 0 <= lo <= hi -> hi < 32 -> word (wfield c hi lo v p).
Proof. intros. unfold wfield. destruct c; [apply word_insert; assumption|assumption]. Qed.
Lemma M_insert p hi lo v : word p -> 5 <= lo <= hi -> hi < 32 -> psr_M (insert p hi lo (bits v hi lo)) = psr_M p.
Proof.
  intros Hp H Hh. unfold psr_M. rewrite <- ssi by (try assumption; lia). rewrite <- !substring_bits by lia.
  apply get_set_substring_other; try lia. apply word_256; exact Hp. rewrite substring_bits by lia. apply bits_range; lia.
Qed.
Lemma M_wfield c hi lo v p : word p -> 5 <= lo <= hi -> hi < 32 -> psr_M (wfield c hi lo v p) = psr_M p.
Proof. intros. unfold wfield. destruct c; [apply M_insert; assumption|reflexivity]. Qed.

Lemma truthy_bit_at v i : 0 <= i -> truthy (bit_at v i) = (bit v i =? 1).
Proof. intros. rewrite bit_at_bit by lia. unfold truthy. pose proof (bit01 v i). destruct (bit v i =? 0) eqn:E; lia. Qed.
Lemma truthy_flag v i : 0 <= i -> truthy (AbstractRegister_getitem_int v i) = (bit v i =? 1).
Proof. intros. unfold AbstractRegister_getitem_int. apply truthy_bit_at. lia. Qed.
Lemma truthy_B2Z b : truthy (B2Z b) = b.
Proof. destruct b; reflexivity. Qed.
Lemma truthy_negb_eq0 x : truthy x = negb (x =? 0).
Proof. reflexivity. Qed.

Section CpsrWrite.
  Variables (cfg : config) (value bytemask excp : Z) (s : machine).
  Hypothesis Hlen : length (sys s) = n_sys.
  Hypothesis Hw : word (cpsr_of s).
  Let p0 := cpsr_of s.
  Let x := sysctx_of cfg s.
  Let priv := negb (psr_M p0 =? M_usr).
  Let sec := IsSecure x p0.
  Let b3 := bit bytemask 3 =? 1. Let b2 := bit bytemask 2 =? 1.
  Let b1 := bit bytemask 1 =? 1. Let b0 := bit bytemask 0 =? 1.
  Let ex := negb (excp =? 0).

  (* reads of the unchanged context in any state that differs from s only in the CPSR, with CPSR.M kept *)
  Lemma is_secure_at p : psr_M p = psr_M p0 -> Registers_is_secure cfg (set_cpsr s p) = Ok (B2Z sec) (set_cpsr s p).
  Proof.
    intros HM. rewrite is_secure_spec. do 2 f_equal. unfold sec, IsSecure, x, sysctx_of, scr_NS. cbn [c_have_sec c_scr].
    unfold cpsr_of, slot_cpsr, slot_scr. rewrite cpsr_set_cpsr by exact Hlen. rewrite other_set_cpsr by lia. rewrite HM. reflexivity.
  Qed.

  Lemma block3 : forall k : unit -> M machine unit,
    (u <- (if truthy (bit_at bytemask 3)
           then (r_3 <- get_sys 0 ;; _ <- put_sys 0 (set_substring r_3 31 27 (substring value 31 27)) ;;
                 _ <- (if truthy excp
                       then (r_4 <- get_sys 0 ;; _ <- put_sys 0 (set_substring r_4 26 24 (substring value 26 24)) ;; ret tt)
                       else ret tt) ;; ret tt)
           else ret tt) ;; k u) s
    = k tt (set_cpsr s (wfield (b3 && ex) 26 24 value (wfield b3 31 27 value p0))).
  Proof.
    intros k. rewrite run_bind. rewrite truthy_bit_at by lia. fold b3. unfold ex. rewrite <- truthy_negb_eq0.
    assert (L : (0 < length (sys s))%nat) by (rewrite Hlen; unfold n_sys; lia).
    destruct b3; [|cbn [andb]; unfold wfield; mred; rewrite set_cpsr_same by exact Hlen; reflexivity].
    mred. change (getl (sys s) 0) with p0.
    rewrite ssi by (try exact Hw; lia). cbn [andb]. unfold wfield at 2.
    destruct (truthy excp); mred.
    - rewrite getl_setl_same by lia. rewrite setl_setl_same.
      rewrite ssi by (try lia; apply word_insert; try exact Hw; lia). reflexivity.
    - reflexivity.
  Qed.

  (* every later block runs in a state whose CPSR is some word p with the original mode bits *)
  Variable p : Z.
  Hypothesis Hp : word p.
  Hypothesis HM : psr_M p = psr_M p0.
  Let sp := set_cpsr s p.
  Lemma Lsp : (0 < length (sys sp))%nat.
  Proof. unfold sp. rewrite len_set_cpsr, Hlen. unfold n_sys. lia. Qed.
  Lemma cpsr_sp : getl (sys sp) 0 = p.
  Proof. apply cpsr_set_cpsr. exact Hlen. Qed.
  Lemma sp_set q : set_sys sp (setl (sys sp) 0 q) = set_cpsr s q.
  Proof. unfold sp. change (set_sys (set_cpsr s p) (setl (sys (set_cpsr s p)) 0 q)) with (set_cpsr (set_cpsr s p) q). apply set_cpsr_set_cpsr. Qed.

  Lemma block2 : forall k : unit -> M machine unit,
    (u <- (if truthy (bit_at bytemask 2)
           then (r_5 <- get_sys 0 ;; _ <- put_sys 0 (set_substring r_5 19 16 (substring value 19 16)) ;; ret tt)
           else ret tt) ;; k u) sp
    = k tt (set_cpsr s (wfield b2 19 16 value p)).
  Proof.
    intros k. rewrite run_bind. rewrite truthy_bit_at by lia. fold b2. unfold wfield.
    destruct b2; mred.
    - rewrite cpsr_sp, sp_set. rewrite ssi by (try exact Hp; lia). reflexivity.
    - unfold sp. reflexivity.
  Qed.

  Lemma is_secure_sp : Registers_is_secure cfg sp = Ok (B2Z sec) sp.
  Proof. apply is_secure_at. exact HM. Qed.
  Lemma scr_sp : getl (sys sp) 9 = c_scr x.
  Proof. unfold sp. rewrite other_set_cpsr by lia. reflexivity. Qed.
  Lemma nsacr_sp : getl (sys sp) 10 = c_nsacr x.
  Proof. unfold sp. rewrite other_set_cpsr by lia. reflexivity. Qed.

  Definition p1a := wfield (b1 && ex) 15 10 value p.
  Definition p1b := wfield b1 9 9 value p1a.
  Definition p1c := wfield (b1 && priv && (sec || (scr_AW x =? 1) || negb (c_have_virt x =? 0))) 8 8 value p1b.

  Lemma block1 : forall k : unit -> M machine unit,
    (u <- (if truthy (bit_at bytemask 1)
           then (_ <- (if truthy excp
                       then (r_6 <- get_sys 0 ;; _ <- put_sys 0 (set_substring r_6 15 10 (substring value 15 10)) ;; ret tt)
                       else ret tt) ;;
                 r_7 <- get_sys 0 ;;
                 _ <- put_sys 0 (set_bit_at r_7 9 (bit_at value 9)) ;;
                 t_8 <- Registers_is_secure cfg ;;
                 r_9 <- get_sys 9 ;;
                 _ <- (if (truthy (B2Z priv)) && (((truthy t_8) || (truthy (SCR_get_aw r_9))) || (truthy (conf_have_virt_ext cfg)))
                       then (r_10 <- get_sys 0 ;; _ <- put_sys 0 (set_bit_at r_10 8 (bit_at value 8)) ;; ret tt)
                       else ret tt) ;;
                 ret tt)
           else ret tt) ;; k u) sp
    = k tt (set_cpsr s p1c).
  Proof.
    intros k. rewrite run_bind. rewrite truthy_bit_at by lia. fold b1. unfold p1c, p1b, p1a.
    destruct b1; [|cbn [andb]; unfold wfield; mred; unfold sp; reflexivity].
    cbn [andb]. unfold ex. rewrite <- truthy_negb_eq0.
    set (q1 := wfield (truthy excp) 15 10 value p).
    assert (Wq1 : word q1) by (apply word_wfield; try exact Hp; lia).
    assert (Mq1 : psr_M q1 = psr_M p0) by (unfold q1; rewrite M_wfield by (try exact Hp; lia); exact HM).
    set (q2 := wfield true 9 9 value q1).
    assert (Wq2 : word q2) by (apply word_wfield; try exact Wq1; lia).
    assert (Mq2 : psr_M q2 = psr_M p0) by (unfold q2; rewrite M_wfield by (try exact Wq1; lia); exact Mq1).
    (* first inner statement *)
    rewrite run_bind.
    assert (S1 : (if truthy excp
                  then (r_6 <- get_sys 0 ;; _ <- put_sys 0 (set_substring r_6 15 10 (substring value 15 10)) ;; ret tt)
                  else ret tt) sp = Ok tt (set_cpsr s q1)).
    { unfold q1, wfield. destruct (truthy excp); mred.
      - rewrite cpsr_sp, sp_set. rewrite ssi by (try exact Hp; lia). reflexivity.
      - reflexivity. }
    rewrite S1. cbn beta iota.
    (* CPSR.E *)
    rewrite run_bind, run_get_sys, cpsr_set_cpsr by exact Hlen. cbn beta iota.
    rewrite run_bind, run_put_sys. cbn beta iota.
    change (set_sys (set_cpsr s q1) (setl (sys (set_cpsr s q1)) 0 (set_bit_at q1 9 (bit_at value 9))))
      with (set_cpsr (set_cpsr s q1) (set_bit_at q1 9 (bit_at value 9))).
    rewrite set_cpsr_set_cpsr. rewrite sbi by (try exact Wq1; lia). change (insert q1 9 9 (bits value 9 9)) with q2.
    (* CPSR.A *)
    rewrite run_bind. rewrite (is_secure_at q2 Mq2). cbn beta iota.
    rewrite run_bind, run_get_sys. cbn beta iota. rewrite other_set_cpsr by lia. change (getl (sys s) 9) with (c_scr x).
    rewrite !truthy_B2Z. unfold SCR_get_aw. rewrite truthy_flag by lia. fold (scr_AW x).
    unfold conf_have_virt_ext. change (cfg_have_virt_ext cfg) with (c_have_virt x). rewrite truthy_negb_eq0.
    unfold wfield at 1.
    destruct (priv && (sec || (scr_AW x =? 1) || negb (c_have_virt x =? 0))); mred.
    - rewrite cpsr_set_cpsr by exact Hlen.
      change (set_sys (set_cpsr s q2) (setl (sys (set_cpsr s q2)) 0 (set_bit_at q2 8 (bit_at value 8))))
        with (set_cpsr (set_cpsr s q2) (set_bit_at q2 8 (bit_at value 8))).
      rewrite set_cpsr_set_cpsr. rewrite sbi by (try exact Wq2; lia). reflexivity.
    - reflexivity.
  Qed.

  (* a conditional single-bit assignment in a state whose CPSR is the word q *)
  Lemma cond_put_bit (c : bool) i q : word q -> 0 <= i < 32 ->
    (if c then (r <- get_sys 0 ;; _ <- put_sys 0 (set_bit_at r i (bit_at value i)) ;; ret tt) else ret tt) (set_cpsr s q)
    = Ok tt (set_cpsr s (wfield c i i value q)).
  Proof.
    intros Wq Hi. unfold wfield. destruct c; mred.
    - rewrite cpsr_set_cpsr by exact Hlen.
      change (set_sys (set_cpsr s q) (setl (sys (set_cpsr s q)) 0 (set_bit_at q i (bit_at value i))))
        with (set_cpsr (set_cpsr s q) (set_bit_at q i (bit_at value i))).
      rewrite set_cpsr_set_cpsr, sbi by (try exact Wq; lia). reflexivity.
    - reflexivity.
  Qed.
End CpsrWrite.

Ltac solve_word := repeat first [assumption | apply word_wfield | lia].
Ltac solve_M H := rewrite ?M_wfield; first [exact H | solve_word].

Theorem cpsr_write_spec cfg value bytemask excp s : length (sys s) = n_sys -> word (cpsr_of s) ->
  Registers_cpsr_write_by_instr cfg value bytemask excp s =
  Ok tt (set_cpsr s (CPSRWriteByInstr (sysctx_of cfg s) (cpsr_of s) value bytemask excp)).
Proof.
  intros Hlen Hw. unfold Registers_cpsr_write_by_instr.
  rewrite run_bind, current_mode_is_not_user_spec. cbn beta iota.
  rewrite run_bind, run_get_sys. cbn beta iota.
  set (p0 := cpsr_of s). set (x := sysctx_of cfg s).
  set (priv := negb (mode_of s =? 16)).
  rewrite (block3 cfg value bytemask excp s Hlen Hw).
  set (pa := wfield ((bit bytemask 3 =? 1) && negb (excp =? 0)) 26 24 value (wfield (bit bytemask 3 =? 1) 31 27 value (cpsr_of s))).
  assert (Wa : word pa) by (unfold pa; solve_word).
  assert (Ma : psr_M pa = psr_M (cpsr_of s)) by (unfold pa; rewrite !M_wfield; first [reflexivity | solve_word]).
  rewrite (block2 cfg value bytemask excp s Hlen pa Wa).
  set (pb := wfield (bit bytemask 2 =? 1) 19 16 value pa).
  assert (Wb : word pb) by (unfold pb; solve_word).
  assert (Mb : psr_M pb = psr_M (cpsr_of s)) by (unfold pb; solve_M Ma).
  rewrite (block1 cfg value bytemask excp s Hlen pb Wb Mb).
  set (pc := p1c cfg value bytemask excp s pb).
  assert (Wc : word pc) by (unfold pc, p1c, p1b, p1a; solve_word).
  assert (Mc : psr_M pc = psr_M (cpsr_of s)) by (unfold pc, p1c, p1b, p1a; solve_M Mb).
  (* last block *)
  rewrite run_bind. rewrite truthy_bit_at by lia.
  unfold CPSRWriteByInstr. cbv zeta. fold p0 x. change (psr_M p0) with (mode_of s). unfold M_usr. fold priv.
  fold pa. fold pb. change (wfield ((bit bytemask 1 =? 1) && priv && (IsSecure x p0 || (scr_AW x =? 1) || negb (c_have_virt x =? 0))) 8 8 value
            (wfield (bit bytemask 1 =? 1) 9 9 value (wfield ((bit bytemask 1 =? 1) && negb (excp =? 0)) 15 10 value pb))) with pc.
  destruct (bit bytemask 0 =? 1) eqn:B0; [|cbn [andb]; unfold wfield; mred; reflexivity].
  cbn [andb]. rewrite !truthy_B2Z.
  rewrite run_bind. rewrite (cond_put_bit cfg value bytemask excp s Hlen priv 7 pc Wc ltac:(lia)). cbn beta iota.
  set (pd := wfield priv 7 7 value pc).
  assert (Wd : word pd) by (unfold pd; solve_word).
  assert (Md : psr_M pd = psr_M (cpsr_of s)) by (unfold pd; solve_M Mc).
  rewrite run_bind, (is_secure_at cfg bytemask excp s Hlen pd Md). cbn beta iota.
  rewrite run_bind, run_get_sys. cbn beta iota. rewrite other_set_cpsr by lia. change (getl (sys s) 9) with (c_scr x).
  rewrite !truthy_B2Z. unfold SCR_get_fw, SCTLR_get_nmfi. rewrite ?truthy_flag, ?truthy_bit_at by lia.
  change (getl (sys s) 11) with (c_sctlr x). fold (scr_FW x) (sctlr_NMFI x).
  unfold conf_have_virt_ext. change (cfg_have_virt_ext cfg) with (c_have_virt x). rewrite !truthy_negb_eq0.
  fold p0. fold (IsSecure x p0).
  assert (NM : negb (sctlr_NMFI x =? 1) = (sctlr_NMFI x =? 0)).
  { unfold sctlr_NMFI. pose proof (bit01 (c_sctlr x) 27). destruct (bit (c_sctlr x) 27 =? 1) eqn:E1, (bit (c_sctlr x) 27 =? 0) eqn:E2; try reflexivity; lia. }
  assert (V6 : negb (bit value 6 =? 1) = (bit value 6 =? 0)).
  { pose proof (bit01 value 6). destruct (bit value 6 =? 1) eqn:E1, (bit value 6 =? 0) eqn:E2; try reflexivity; lia. }
  rewrite NM, V6.
  rewrite run_bind. rewrite (cond_put_bit cfg value bytemask excp s Hlen _ 6 pd Wd ltac:(lia)). cbn beta iota.
  set (pe := wfield _ 6 6 value pd).
  assert (We : word pe) by (unfold pe; solve_word).
  assert (Me : psr_M pe = psr_M (cpsr_of s)) by (unfold pe; solve_M Md).
  rewrite run_bind. rewrite (cond_put_bit cfg value bytemask excp s Hlen _ 5 pe We ltac:(lia)). cbn beta iota.
  set (pf := wfield _ 5 5 value pe).
  assert (Wf : word pf) by (unfold pf; solve_word).
  assert (Mf : psr_M pf = psr_M (cpsr_of s)) by (unfold pf; solve_M Me).
  (* mode field *)
  rewrite run_bind. cbv zeta.
  match goal with
  | |- match (match ?blk ?st with Ok _ _ => _ | Exc _ _ => _ end) with Ok _ _ => _ | Exc _ _ => _ end = _ =>
    assert (BLK : blk st
     = Ok tt (set_cpsr s (wfield (priv && mode_write_ok x p0 value excp) 4 0 value pf)))
  end.
  { destruct priv; [|cbn [andb]; reflexivity]. cbn [andb].
    rewrite run_bind. rewrite <- ?truthy_negb_eq0. rewrite bad_mode_spec, truthy_B2Z. rewrite !substring_bits by lia.
    unfold mode_write_ok. cbv zeta. change (c_have_sec x) with (have_sec cfg). change (c_have_virt x) with (have_virt cfg).
    set (vm := bits value 4 0). set (sec := IsSecure x p0).
    destruct (BadMode (have_sec cfg) (have_virt cfg) vm); [cbn [negb andb]; reflexivity|]. cbn [negb andb].
    repeat first [ rewrite run_bind | rewrite (is_secure_at cfg bytemask excp s Hlen pf Mf) | rewrite run_get_sys
                 | rewrite other_set_cpsr by lia | rewrite cpsr_set_cpsr by exact Hlen | progress cbn beta iota ].
    rewrite !truthy_B2Z. change (IsSecure (sysctx_of cfg s) (cpsr_of s)) with sec. unfold M_mon.
    destruct (negb sec && (vm =? 22)); [cbn [negb andb]; reflexivity|]. cbn [negb andb].
    repeat first [ rewrite run_bind | rewrite (is_secure_at cfg bytemask excp s Hlen pf Mf) | rewrite run_get_sys
                 | rewrite other_set_cpsr by lia | rewrite cpsr_set_cpsr by exact Hlen | progress cbn beta iota ].
    rewrite !truthy_B2Z. change (IsSecure (sysctx_of cfg s) (cpsr_of s)) with sec. unfold NSACR_get_rfr. rewrite truthy_flag by lia. change (getl (sys s) 10) with (c_nsacr x).
    fold (nsacr_RFR x). unfold M_fiq.
    destruct (negb sec && (vm =? 17) && (nsacr_RFR x =? 1)); [cbn [negb andb]; reflexivity|]. cbn [negb andb].
    repeat first [ rewrite run_bind | rewrite run_get_sys | rewrite other_set_cpsr by lia | progress cbn beta iota ].
    change (getl (sys s) 9) with (c_scr x). unfold SCR_get_ns. rewrite truthy_flag by lia. fold (scr_NS x).
    assert (NS : negb (scr_NS x =? 1) = (scr_NS x =? 0)).
    { unfold scr_NS. pose proof (bit01 (c_scr x) 0). destruct (bit (c_scr x) 0 =? 1) eqn:E1, (bit (c_scr x) 0 =? 0) eqn:E2; try reflexivity; lia. }
    rewrite NS. unfold M_hyp.
    destruct ((scr_NS x =? 0) && (vm =? 26)); [cbn [negb andb]; reflexivity|]. cbn [negb andb].
    repeat first [ rewrite run_bind | rewrite (is_secure_at cfg bytemask excp s Hlen pf Mf) | rewrite run_get_sys
                 | rewrite other_set_cpsr by lia | rewrite cpsr_set_cpsr by exact Hlen | progress cbn beta iota ].
    rewrite !truthy_B2Z. change (IsSecure (sysctx_of cfg s) (cpsr_of s)) with sec. unfold CPSR_get_m. rewrite !get_slice by lia. change (bits pf 4 0) with (psr_M pf). rewrite Mf.
    fold p0.
    destruct (negb sec && negb (psr_M p0 =? 26) && (vm =? 26)); [cbn [negb andb]; reflexivity|]. cbn [negb andb].
    repeat first [ rewrite run_bind | rewrite run_get_sys | rewrite cpsr_set_cpsr by exact Hlen | progress cbn beta iota ].
    rewrite !get_slice by lia. change (bits pf 4 0) with (psr_M pf). rewrite Mf. fold p0. rewrite truthy_negb_eq0, negb_involutive.
    destruct ((psr_M p0 =? 26) && negb (vm =? 26) && (excp =? 0)); [cbn [negb andb]; reflexivity|]. cbn [negb andb].
    repeat first [ rewrite run_bind | rewrite run_get_sys | rewrite run_put_sys | rewrite cpsr_set_cpsr by exact Hlen | progress cbn beta iota ].
    change (set_sys (set_cpsr s pf) (setl (sys (set_cpsr s pf)) 0 (CPSR_set_m pf vm))) with (set_cpsr (set_cpsr s pf) (CPSR_set_m pf vm)).
    rewrite set_cpsr_set_cpsr. unfold CPSR_set_m. cbv zeta. unfold wfield, vm.
    rewrite set_slice; [reflexivity|exact Wf|lia|lia|apply bits_range; lia]. }
  rewrite BLK. cbn beta iota. rewrite run_ret.
  reflexivity.
Qed.
