(* Props/C02excl.v — C02: the exclusive loads and stores on a flat map (PMSA, MPU disabled).  The emulator's exclusive monitors are
   mocks (marking does nothing, the local monitor never matches), so LDREX/LDREXB/LDREXH/LDREXD are MemA loads of 4/1/2/8 bytes
   (LDREXD: doubleword-aligned or alignment fault; halves by endianness) and STREX/STREXB/STREXH/STREXD write status 1 and store
   nothing, after the alignment check ExclusiveMonitorsPass makes for the access size (4/1/2/8).  [LDREX_sem], [STREX_sem],
   [LDREXD_sem] are defined next to the proofs (Proofs/ExclProofs.v); the correspondence check compares the same behaviour
   against Spec/Memory.v.  Statements only. *)
From Coq Require Import ZArith Bool List.
From ArmV Require Import Lib.PyZ Lib.Monad Lib.Machine Spec.Pseudocode Spec.Arch Spec.MachineView Spec.LoadStore Spec.LoadStoreUnpriv Spec.Memory
  Proofs.StateLemmas Proofs.CondProofs Proofs.GuardProofs Proofs.BankProofs Proofs.MachineOps Proofs.DPLemmas Proofs.MemProofs Proofs.ExclProofs.
From Gen Require Import enums bits_ops core exec.
Import ListNotations.
Open Scope Z_scope.

Theorem C02_Ldrex :
  forall cfg : config,
       pmsa cfg ->
       forall (instr imm32 t n : Z) (s : machine),
       ictx cfg s ->
       mpu_off s ->
       cond_holds s ->
       iset_of s <> 3 ->
       0 <= t <= 14 ->
       0 <= n <= 15 ->
       (forall (a d : Z) (s1 : machine), ArmV6_mem_a_get cfg a 4 s = Ok d s1 -> ictx cfg s1) ->
       Ldrex_execute cfg instr imm32 t n s = LDREX_sem cfg 4 s (add32 (rget s n) imm32) t.
Proof. exact (Ldrex_ok). Qed.
Print Assumptions C02_Ldrex.
Theorem C02_Ldrexb :
  forall cfg : config,
       pmsa cfg ->
       forall (instr t n : Z) (s : machine),
       ictx cfg s ->
       mpu_off s ->
       cond_holds s ->
       iset_of s <> 3 ->
       0 <= t <= 14 ->
       0 <= n <= 15 ->
       (forall (a d : Z) (s1 : machine), ArmV6_mem_a_get cfg a 1 s = Ok d s1 -> ictx cfg s1) -> Ldrexb_execute cfg instr t n s = LDREX_sem cfg 1 s (rget s n) t.
Proof. exact (Ldrexb_ok). Qed.
Print Assumptions C02_Ldrexb.
Theorem C02_Ldrexh :
  forall cfg : config,
       pmsa cfg ->
       forall (instr t n : Z) (s : machine),
       ictx cfg s ->
       mpu_off s ->
       cond_holds s ->
       iset_of s <> 3 ->
       0 <= t <= 14 ->
       0 <= n <= 15 ->
       (forall (a d : Z) (s1 : machine), ArmV6_mem_a_get cfg a 2 s = Ok d s1 -> ictx cfg s1) -> Ldrexh_execute cfg instr t n s = LDREX_sem cfg 2 s (rget s n) t.
Proof. exact (Ldrexh_ok). Qed.
Print Assumptions C02_Ldrexh.
Theorem C02_Ldrexd :
  forall cfg : config,
       pmsa cfg ->
       forall (instr t t2 n : Z) (s : machine),
       ictx cfg s ->
       mpu_off s ->
       word (getl (sys s) 23) ->
       cond_holds s ->
       iset_of s <> 3 ->
       0 <= t <= 14 ->
       0 <= t2 <= 14 ->
       0 <= n <= 15 ->
       (forall (a d : Z) (s1 : machine), ArmV6_mem_a_get cfg a 8 s = Ok d s1 -> ictx cfg s1) -> Ldrexd_execute cfg instr t t2 n s = LDREXD_sem cfg s (rget s n) t t2.
Proof. exact (Ldrexd_ok). Qed.
Print Assumptions C02_Ldrexd.
Theorem C02_Strex :
  forall cfg : config,
       pmsa cfg ->
       forall (instr imm32 t d n : Z) (s : machine),
       ictx cfg s ->
       mpu_off s ->
       word (getl (sys s) 23) ->
       cond_holds s -> iset_of s <> 3 -> 0 <= d <= 14 -> 0 <= n <= 15 -> Strex_execute cfg instr imm32 t d n s = STREX_sem 4 s (add32 (rget s n) imm32) d.
Proof. exact (Strex_ok). Qed.
Print Assumptions C02_Strex.
Theorem C02_Strexb :
  forall cfg : config,
       pmsa cfg ->
       forall (instr t d n : Z) (s : machine),
       ictx cfg s ->
       mpu_off s ->
       word (getl (sys s) 23) -> cond_holds s -> iset_of s <> 3 -> 0 <= d <= 14 -> 0 <= n <= 15 -> Strexb_execute cfg instr t d n s = STREX_sem 1 s (rget s n) d.
Proof. exact (Strexb_ok). Qed.
Print Assumptions C02_Strexb.
Theorem C02_Strexh :
  forall cfg : config,
       pmsa cfg ->
       forall (instr t d n : Z) (s : machine),
       ictx cfg s ->
       mpu_off s ->
       word (getl (sys s) 23) -> cond_holds s -> iset_of s <> 3 -> 0 <= d <= 14 -> 0 <= n <= 15 -> Strexh_execute cfg instr t d n s = STREX_sem 2 s (rget s n) d.
Proof. exact (Strexh_ok). Qed.
Print Assumptions C02_Strexh.
Theorem C02_Strexd :
  forall cfg : config,
       pmsa cfg ->
       forall (instr t t2 d n : Z) (s : machine),
       ictx cfg s ->
       mpu_off s ->
       word (getl (sys s) 23) ->
       cond_holds s ->
       iset_of s <> 3 -> 0 <= d <= 14 -> 0 <= n <= 15 -> 0 <= t <= 14 -> 0 <= t2 <= 14 -> Strexd_execute cfg instr t t2 d n s = STREX_sem 8 s (rget s n) d.
Proof. exact (Strexd_ok). Qed.
Print Assumptions C02_Strexd.
