#!/venv/bin/python
"""MANIFEST.setup_cmd: regenerate the model from /repo and build the whole Coq development once."""
import os
import sys
sys.path.insert(0, os.path.dirname(os.path.abspath(__file__)))
import common as C  # noqa: E402


def main():
    with C.Lock():
        ok, idx, log = C.regenerate()
        print(log[-2000:])
        if not ok:
            print('setup: py2v failed')
            return 1
        targets = []
        for dp, dn, fn in os.walk(os.path.join(C.COQ, 'theories')):
            for f in fn:
                if f.endswith('.v'):
                    targets.append(os.path.relpath(os.path.join(dp, f), C.COQ)[:-2] + '.vo')
        ok, mlog, dt = C.make(sorted(targets), timeout=3000)
        print(mlog[-3000:])
        print(f'setup: build {"ok" if ok else "FAILED"} in {dt:.0f}s')
        return 0 if ok else 1


if __name__ == '__main__':
    sys.exit(main())
