(* Corr/BankSpecRun.v — expected results of a register-bank history (spec side only). *)
From Coq Require Import ZArith List Bool.
From ArmV Require Import Spec.Pseudocode Spec.Arch.
Import ListNotations.
Open Scope Z_scope.
Definition spec_bank (ops : list rop) (rd : list (Z * Z)) (init : Z) : list Z :=
  0 :: map (fun nm => last_write ops (fst nm) (snd nm) init) rd.
