(* Props/C01_1.v — STATIC (tools/spec/mkdp.py).  C01: every data-processing opcode class, with its condition
   passed and operand fields in their encodable ranges, computes exactly dp_sem (the A8.8 pseudocode as one
   function, Proofs/DPSem.v): destination, N/Z/C/V, PC writes; the frame is C01_frame (Props/C01.v). *)
From Coq Require Import ZArith List Bool.
From ArmV Require Import Lib.PyZ Lib.Monad Lib.Machine Spec.Pseudocode Spec.Arch
  Proofs.StateLemmas Proofs.CondProofs Proofs.GuardProofs Proofs.BankProofs Proofs.MachineOps Spec.DPSem Proofs.DPLemmas
  Proofs.DPClasses0 Proofs.DPClasses1 Proofs.DPClasses2 Proofs.DPClasses3 Proofs.DPClasses4 Proofs.DPClasses5 Proofs.DPClasses6 Proofs.DPClasses7.
From Gen Require Import enums exec.
Open Scope Z_scope.

Theorem C01_AdcRegister cfg instruction setflags m d n shift_t shift_n st :
  ictx cfg st ->
  cond_holds st ->
  0 <= d <= 15 ->
  0 <= n <= 15 ->
  0 <= m <= 15 ->
  valid_shift shift_t shift_n ->
  AdcRegister_execute cfg instruction setflags m d n shift_t shift_n st = dp_sem cfg ADC setflags (Some d) n (Op2Reg m shift_t shift_n) st.
Proof. exact (AdcRegister_sem cfg instruction setflags m d n shift_t shift_n st). Qed.
Print Assumptions C01_AdcRegister.

Theorem C01_SbcRegisterShiftedRegister cfg instruction setflags m s d n shift_t st :
  ictx cfg st ->
  cond_holds st ->
  0 <= d <= 14 ->
  0 <= n <= 15 ->
  0 <= m <= 15 ->
  0 <= s <= 15 ->
  (shift_t = Pseudocode.SRType_LSL \/ shift_t = Pseudocode.SRType_LSR \/ shift_t = Pseudocode.SRType_ASR \/ shift_t = Pseudocode.SRType_ROR) ->
  SbcRegisterShiftedRegister_execute cfg instruction setflags m s d n shift_t st = dp_sem cfg SBC setflags (Some d) n (Op2RegReg m shift_t s) st.
Proof. exact (SbcRegisterShiftedRegister_sem cfg instruction setflags m s d n shift_t st). Qed.
Print Assumptions C01_SbcRegisterShiftedRegister.

Theorem C01_AddImmediateArm cfg instruction setflags d n imm32 st :
  ictx cfg st ->
  cond_holds st ->
  0 <= d <= 15 ->
  0 <= n <= 15 ->
  word imm32 ->
  AddImmediateArm_execute cfg instruction setflags d n imm32 st = dp_sem cfg ADD setflags (Some d) n (Op2Imm imm32 0) st.
Proof. exact (AddImmediateArm_sem cfg instruction setflags d n imm32 st). Qed.
Print Assumptions C01_AddImmediateArm.

Theorem C01_AddRegisterShiftedRegister cfg instruction setflags m s d n shift_t st :
  ictx cfg st ->
  cond_holds st ->
  0 <= d <= 14 ->
  0 <= n <= 15 ->
  0 <= m <= 15 ->
  0 <= s <= 15 ->
  (shift_t = Pseudocode.SRType_LSL \/ shift_t = Pseudocode.SRType_LSR \/ shift_t = Pseudocode.SRType_ASR \/ shift_t = Pseudocode.SRType_ROR) ->
  AddRegisterShiftedRegister_execute cfg instruction setflags m s d n shift_t st = dp_sem cfg ADD setflags (Some d) n (Op2RegReg m shift_t s) st.
Proof. exact (AddRegisterShiftedRegister_sem cfg instruction setflags m s d n shift_t st). Qed.
Print Assumptions C01_AddRegisterShiftedRegister.

Theorem C01_SubImmediateArm cfg instruction setflags d n imm32 st :
  ictx cfg st ->
  cond_holds st ->
  0 <= d <= 15 ->
  0 <= n <= 15 ->
  word imm32 ->
  SubImmediateArm_execute cfg instruction setflags d n imm32 st = dp_sem cfg SUB setflags (Some d) n (Op2Imm imm32 0) st.
Proof. exact (SubImmediateArm_sem cfg instruction setflags d n imm32 st). Qed.
Print Assumptions C01_SubImmediateArm.

Theorem C01_SubSpMinusImmediate cfg instruction setflags d imm32 st :
  ictx cfg st ->
  cond_holds st ->
  0 <= d <= 15 ->
  word imm32 ->
  SubSpMinusImmediate_execute cfg instruction setflags d imm32 st = dp_sem cfg SUB setflags (Some d) 13 (Op2Imm imm32 0) st.
Proof. exact (SubSpMinusImmediate_sem cfg instruction setflags d imm32 st). Qed.
Print Assumptions C01_SubSpMinusImmediate.

Theorem C01_RsbRegisterShiftedRegister cfg instruction setflags m s d n shift_t st :
  ictx cfg st ->
  cond_holds st ->
  0 <= d <= 14 ->
  0 <= n <= 15 ->
  0 <= m <= 15 ->
  0 <= s <= 15 ->
  (shift_t = Pseudocode.SRType_LSL \/ shift_t = Pseudocode.SRType_LSR \/ shift_t = Pseudocode.SRType_ASR \/ shift_t = Pseudocode.SRType_ROR) ->
  RsbRegisterShiftedRegister_execute cfg instruction setflags m s d n shift_t st = dp_sem cfg RSB setflags (Some d) n (Op2RegReg m shift_t s) st.
Proof. exact (RsbRegisterShiftedRegister_sem cfg instruction setflags m s d n shift_t st). Qed.
Print Assumptions C01_RsbRegisterShiftedRegister.

Theorem C01_EorImmediate cfg instruction setflags d n imm32 carry st :
  ictx cfg st ->
  cond_holds st ->
  0 <= d <= 15 ->
  0 <= n <= 15 ->
  word imm32 ->
  0 <= carry <= 1 ->
  EorImmediate_execute cfg instruction setflags d n imm32 carry st = dp_sem cfg EOR setflags (Some d) n (Op2Imm imm32 carry) st.
Proof. exact (EorImmediate_sem cfg instruction setflags d n imm32 carry st). Qed.
Print Assumptions C01_EorImmediate.

Theorem C01_OrrRegister cfg instruction setflags m d n shift_t shift_n st :
  ictx cfg st ->
  cond_holds st ->
  0 <= d <= 15 ->
  0 <= n <= 15 ->
  0 <= m <= 15 ->
  valid_shift shift_t shift_n ->
  OrrRegister_execute cfg instruction setflags m d n shift_t shift_n st = dp_sem cfg ORR setflags (Some d) n (Op2Reg m shift_t shift_n) st.
Proof. exact (OrrRegister_sem cfg instruction setflags m d n shift_t shift_n st). Qed.
Print Assumptions C01_OrrRegister.

Theorem C01_BicRegisterShiftedRegister cfg instruction setflags m s d n shift_t st :
  ictx cfg st ->
  cond_holds st ->
  0 <= d <= 14 ->
  0 <= n <= 15 ->
  0 <= m <= 15 ->
  0 <= s <= 15 ->
  (shift_t = Pseudocode.SRType_LSL \/ shift_t = Pseudocode.SRType_LSR \/ shift_t = Pseudocode.SRType_ASR \/ shift_t = Pseudocode.SRType_ROR) ->
  BicRegisterShiftedRegister_execute cfg instruction setflags m s d n shift_t st = dp_sem cfg BIC setflags (Some d) n (Op2RegReg m shift_t s) st.
Proof. exact (BicRegisterShiftedRegister_sem cfg instruction setflags m s d n shift_t st). Qed.
Print Assumptions C01_BicRegisterShiftedRegister.

Theorem C01_MvnRegister cfg instruction setflags m d shift_t shift_n st :
  ictx cfg st ->
  cond_holds st ->
  0 <= d <= 15 ->
  0 <= m <= 15 ->
  valid_shift shift_t shift_n ->
  MvnRegister_execute cfg instruction setflags m d shift_t shift_n st = dp_sem cfg MVN setflags (Some d) 0 (Op2Reg m shift_t shift_n) st.
Proof. exact (MvnRegister_sem cfg instruction setflags m d shift_t shift_n st). Qed.
Print Assumptions C01_MvnRegister.

Theorem C01_MovRegisterThumb cfg instruction setflags m d st :
  ictx cfg st ->
  cond_holds st ->
  0 <= d <= 15 ->
  0 <= m <= 15 ->
  MovRegisterThumb_execute cfg instruction setflags m d st = dp_sem cfg MOV setflags (Some d) 0 (Op2Plain m) st.
Proof. exact (MovRegisterThumb_sem cfg instruction setflags m d st). Qed.
Print Assumptions C01_MovRegisterThumb.

Theorem C01_RorImmediate cfg instruction setflags m d shift_n st :
  ictx cfg st ->
  cond_holds st ->
  0 <= d <= 15 ->
  0 <= m <= 15 ->
  0 <= shift_n ->
  RorImmediate_execute cfg instruction setflags m d shift_n st = dp_sem cfg MOV setflags (Some d) 0 (Op2Reg m Pseudocode.SRType_ROR shift_n) st.
Proof. exact (RorImmediate_sem cfg instruction setflags m d shift_n st). Qed.
Print Assumptions C01_RorImmediate.

Theorem C01_AsrRegister cfg instruction setflags m d n st :
  ictx cfg st ->
  cond_holds st ->
  0 <= d <= 14 ->
  0 <= m <= 15 ->
  0 <= n <= 15 ->
  AsrRegister_execute cfg instruction setflags m d n st = dp_sem cfg MOV setflags (Some d) 0 (Op2RegReg n Pseudocode.SRType_ASR m) st.
Proof. exact (AsrRegister_sem cfg instruction setflags m d n st). Qed.
Print Assumptions C01_AsrRegister.

Theorem C01_CmpRegisterShiftedRegister cfg instruction m s n shift_t st :
  ictx cfg st ->
  cond_holds st ->
  0 <= n <= 15 ->
  0 <= m <= 15 ->
  0 <= s <= 15 ->
  (shift_t = Pseudocode.SRType_LSL \/ shift_t = Pseudocode.SRType_LSR \/ shift_t = Pseudocode.SRType_ASR \/ shift_t = Pseudocode.SRType_ROR) ->
  CmpRegisterShiftedRegister_execute cfg instruction m s n shift_t st = dp_sem cfg SUB 1 None n (Op2RegReg m shift_t s) st.
Proof. exact (CmpRegisterShiftedRegister_sem cfg instruction m s n shift_t st). Qed.
Print Assumptions C01_CmpRegisterShiftedRegister.

Theorem C01_TstImmediate cfg instruction n imm32 carry st :
  ictx cfg st ->
  cond_holds st ->
  0 <= n <= 15 ->
  word imm32 ->
  0 <= carry <= 1 ->
  TstImmediate_execute cfg instruction n imm32 carry st = dp_sem cfg AND 1 None n (Op2Imm imm32 carry) st.
Proof. exact (TstImmediate_sem cfg instruction n imm32 carry st). Qed.
Print Assumptions C01_TstImmediate.

Theorem C01_TeqRegister cfg instruction m n shift_t shift_n st :
  ictx cfg st ->
  cond_holds st ->
  0 <= n <= 15 ->
  0 <= m <= 15 ->
  valid_shift shift_t shift_n ->
  TeqRegister_execute cfg instruction m n shift_t shift_n st = dp_sem cfg EOR 1 None n (Op2Reg m shift_t shift_n) st.
Proof. exact (TeqRegister_sem cfg instruction m n shift_t shift_n st). Qed.
Print Assumptions C01_TeqRegister.
