(* Props/C04step.v — C04, the whole step: once fetch, class selection and operand extraction have delivered an operand
   record, emulate_cycle is the instruction body followed by ITAdvance (inside an IT block) and AdvancePC, which adds the
   instruction length to the PC (modulo 2^32) unless the body wrote the PC; a raised exception goes to its entry (C11).
   Statements only (proofs in Proofs/StepProofs.v). *)
From Coq Require Import ZArith Bool List.
From ArmV Require Import Lib.PyZ Lib.Monad Lib.Machine Spec.Pseudocode Spec.Arch Spec.MachineView Spec.Branches Spec.StepFrame
  Proofs.StateLemmas Proofs.CondProofs Proofs.ExcProofs Proofs.StepProofs.
From Gen Require Import enums opsyn core exec conc decoders step.
Import ListNotations.
Open Scope Z_scope.

Theorem C04_step_compose cfg s w s1 cls op :
  ArmV6_fetch_instruction cfg s = Ok w s1 ->
  ArmV6_decode_instruction w s1 = Ok (Some cls) s1 ->
  from_bitarray_dispatch cfg cls w s1 = Ok (Some op) s1 ->
  ArmV6_emulate_cycle cfg s = dispatch cfg (exec_and_advance cfg op s1).
Proof. exact (step_compose cfg s w s1 cls op). Qed.
Print Assumptions C04_step_compose.

Theorem C04_step_completes cfg s w s1 cls op s2 :
  ArmV6_fetch_instruction cfg s = Ok w s1 ->
  ArmV6_decode_instruction w s1 = Ok (Some cls) s1 ->
  from_bitarray_dispatch cfg cls w s1 = Ok (Some op) s1 ->
  execute_dispatch cfg op (begin_instr s1 op) = Ok tt s2 ->
  word (cpsr_of s2) -> length (changed s2) = 16%nat ->
  ArmV6_emulate_cycle cfg s = Ok tt (AdvancePC (it_step_after s1 s2)).
Proof. exact (step_completes cfg s w s1 cls op s2). Qed.
Print Assumptions C04_step_completes.
