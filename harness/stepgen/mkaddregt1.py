rows=[('AddRegisterThumbT1',12,'ADD','AddRegisterThumb'),('SubRegisterT1',13,'SUB','SubRegister')]
hdr='''(* Proofs/StepInstancesAddRegT1.v — GENERATED text (one block per encoding, same script): the 16-bit Thumb ADDS / SUBS Rd, Rn, Rm
   (T1: 000 11 0 op Rm Rn Rd; flags = !InITBlock()) end to end, for every halfword of the encoding, in any IT position. *)
Set Default Timeout 240.
From Coq Require Import ZArith List Bool Lia ZifyBool.
From ArmV Require Import Lib.PyZ Lib.Monad Lib.Machine Spec.Pseudocode Spec.Arch Spec.MachineView Spec.Branches Spec.StepFrame
  Spec.OperandSpec Spec.DPSem
  Proofs.SpecFacts Proofs.StateLemmas Proofs.CondProofs Proofs.GuardProofs Proofs.BankProofs Proofs.MachineOps Proofs.DPLemmas
  Proofs.DPClasses0 Proofs.DPClasses1 Proofs.DPClasses2 Proofs.DPClasses3 Proofs.DPClasses4 Proofs.DPClasses5 Proofs.DPClasses6 Proofs.DPClasses7
  Proofs.StepProofs Proofs.StepDP Proofs.DPRange Proofs.StepDPReg Proofs.StepInstances Proofs.StepInstancesCmp Proofs.StepInstancesThumbReg Proofs.StepInstancesMov Proofs.OpTac
  Proofs.OpsT0 Proofs.OpsT1 Proofs.OpsT2 Proofs.OpsT3 Proofs.OpsT4 Proofs.OpsT5 Proofs.OpsT6 Proofs.OpsT7.
From Gen Require Import enums bits_ops shift regviews records hubm opsyn core exec conc decoders step.
Import ListNotations.
Open Scope Z_scope.
Ltac Zify.zify_post_hook ::= Z.to_euclidean_division_equations.

Definition is_addsub_reg_t1 (op7 w : Z) : Prop := bits w 15 14 = 0 /\\ bits w 13 9 = op7.
'''
body=''; props='(* 16-bit Thumb ADDS / SUBS Rd, Rn, Rm (T1) *)\n'
for cls,op7,op,ab in rows:
    low=cls[0].lower()+cls[1:]
    st=f'''  ArmV6_fetch_instruction cfg s = Ok w s1 ->
  0 <= w < 2 ^ 16 -> is_addsub_reg_t1 {op7} w -> iset_of s1 = 1 -> opcode_len s1 = 16 -> ictx cfg s1 -> cond_holds s1 ->
  let d := bits w 2 0 in let n := bits w 5 3 in let m := bits w 8 6 in
  let op := (code_{ab}, [w; not_in_it s1; m; d; n; 1; 0]) in
  exists s2,
    dp_sem cfg {op} (not_in_it s1) (Some d) n (Op2Reg m SRType_LSL 0) (begin_instr s1 op) = Ok tt s2 /\\
    ArmV6_emulate_cycle cfg s = Ok tt (AdvancePC (it_step_after s1 s2)) /\\
    pc_of (AdvancePC (it_step_after s1 s2)) = add32 (pc_of s1) 2.
'''
    body+=f'''
(* ================= {cls} ================= *)
Lemma decode_{cls} w s : 0 <= w < 2 ^ 16 -> is_addsub_reg_t1 {op7} w -> iset_of s = 1 -> opcode_len s = 16 ->
  ArmV6_decode_instruction w s = Ok (Some enc_{cls}) s.
Proof.
  intros Hw (H1 & H2) Hi Hl. dec_t16 w Hi Hl.
  assert (D : dec_thumb_instruction_set_encoding_16_bit w = Some enc_{cls}) by (dec_sasmc w; reflexivity).
  rewrite D. reflexivity.
Qed.
Lemma from_bitarray_{cls} cfg w s : 0 <= w < 2 ^ 16 ->
  from_bitarray_dispatch cfg enc_{cls} w s = Ok (Some (code_{ab}, [w; not_in_it s; bits w 8 6; bits w 2 0; bits w 5 3; 1; 0])) s.
Proof.
  intros Hw. pose proof (ops_{cls} w s Hw) as H. unfold fb_out, fb_plain, fb_opt, fb_res, fb_res_opt, fb_m, fb_m_opt in H.
  unfold from_bitarray_dispatch, enc_{cls}. cbv iota. unfold bind, ret, lift in *.
  repeat match goal with
  | H : match ?x with _ => _ end = _ |- context[?x] => destruct x; try discriminate H
  end.
  inversion H. first [reflexivity | match goal with E : _ = Some _ |- _ => rewrite E end; reflexivity].
Qed.
Theorem {low}_step cfg s w s1 :
{st}Proof.
  intros Hf Hw Hcube Hi Hl Hctx Hcond. pose_all_ranges. intros d n m op.
  assert (Qd : 0 <= d <= 14) by (unfold d; lia). assert (Qn : 0 <= n <= 15) by (unfold n; lia). assert (Qm : 0 <= m <= 15) by (unfold m; lia).
  destruct (dp_step cfg s w s1 enc_{cls} op {op} (not_in_it s1) d n (Op2Reg m SRType_LSL 0) Hf) as (s2 & A & B & C); try assumption.
  - apply decode_{cls}; assumption.
  - apply from_bitarray_{cls}; assumption.
  - change (execute_dispatch cfg op (begin_instr s1 op)) with ({ab}_execute cfg w (not_in_it s1) m d n 1 0 (begin_instr s1 op)).
    apply {ab}_sem; try lia; try exact valid_lsl0; [apply ictx_begin; exact Hctx|apply cond_holds_begin; exact Hcond].
  - split; [lia|exact valid_lsl0].
  - exists s2. split; [exact A|]. split; [exact B|]. rewrite C, Hl. reflexivity.
Qed.
'''
    props+=f'Theorem C01_{low}_step cfg s w s1 :\n{st}Proof. exact ({low}_step cfg s w s1). Qed.\nPrint Assumptions C01_{low}_step.\n'
open('/tmp/coqdev/theories/Proofs/StepInstancesAddRegT1.v','w').write(hdr+body)
open('/tmp/opproto/addregt1_props_add.txt','w').write(props)
