(* Proofs/StepDP.v — the whole step of a data-processing instruction with an immediate operand and a destination other than
   the PC, for any encoding: given what fetch, class selection and operand extraction deliver, emulate_cycle ends in the
   architectural result (Spec/DPSem.v) followed by ITAdvance and PC + instruction length. *)
Set Default Timeout 240.
From Coq Require Import ZArith List Bool Lia ZifyBool.
From ArmV Require Import Lib.PyZ Lib.Monad Lib.Machine Spec.Pseudocode Spec.Arch Spec.MachineView Spec.Branches Spec.StepFrame
  Spec.DPSem Proofs.SpecFacts Proofs.ArchFacts Proofs.StateLemmas Proofs.CondProofs Proofs.GuardProofs Proofs.BankProofs Proofs.MachineOps
  Proofs.DPLemmas Proofs.DPTactics Proofs.BranchProofs Proofs.BlockProofs Proofs.StepProofs.
From Gen Require Import enums bits_ops shift regviews records hubm opsyn core exec conc decoders step.
Import ListNotations.
Open Scope Z_scope.

Lemma ictx_begin cfg s op : ictx cfg s -> ictx cfg (begin_instr s op).
Proof. intros [[HL HC HR Hw Hm] HRw]. split; [split|]; try assumption. reflexivity. Qed.

Lemma word_NOT32 x : word x -> word (NOT32 x).
Proof. unfold word, NOT32. change (2 ^ 32) with 4294967296. lia. Qed.

(* results and flags of the ALU are a word and single bits *)
Lemma dp_alu_range op rn op2 cin : word rn -> word op2 -> 0 <= cin <= 1 ->
  word (fst (dp_alu op rn op2 cin)) /\
  match snd (dp_alu op rn op2 cin) with Some (c, v) => 0 <= c <= 1 /\ 0 <= v <= 1 | None => True end.
Proof.
  intros Hn H2 Hc. pose proof (word_NOT32 _ Hn). pose proof (word_NOT32 _ H2).
  destruct op; unfold dp_alu; cbv zeta; cbn [fst snd];
    try (split; [apply (AddWithCarry_range 32); lia | split; apply (AddWithCarry_range 32); lia]);
    (split; [|exact I]); try assumption; first [apply word_land | apply word_lor | apply word_lxor]; assumption.
Qed.

Lemma psr_M_insert_hi p i x : 0 <= p -> 28 <= i -> 0 <= x <= 1 -> psr_M (insert p i i x) = psr_M p /\ 0 <= insert p i i x.
Proof.
  intros Hp Hi Hx. split; [|apply insert_nonneg; lia]. unfold psr_M. apply bits_insert_other; try lia.
  replace (i - i + 1) with 1 by lia. change (2 ^ 1) with 2. lia.
Qed.
Lemma with_flags_ok p r c v : word p ->
  match c with Some c => 0 <= c <= 1 | None => True end -> match v with Some v => 0 <= v <= 1 | None => True end ->
  word (with_flags p r c v) /\ psr_M (with_flags p r c v) = psr_M p.
Proof.
  intros Hp Hc Hv. unfold with_flags. cbv zeta.
  assert (Hz : 0 <= (if r =? 0 then 1 else 0) <= 1) by (destruct (r =? 0); lia).
  pose proof (bit_range r 31) as Hb.
  assert (W1 : word (insert p 31 31 (bit r 31))) by (apply word_insert_bit; [exact Hp|lia|exact Hb]).
  destruct (psr_M_insert_hi p 31 (bit r 31) (proj1 Hp) ltac:(lia) Hb) as [E1 _].
  assert (W2 : word (insert (insert p 31 31 (bit r 31)) 30 30 (if r =? 0 then 1 else 0))) by (apply word_insert_bit; [exact W1|lia|exact Hz]).
  destruct (psr_M_insert_hi _ 30 _ (proj1 W1) ltac:(lia) Hz) as [E2 _].
  set (p2 := insert (insert p 31 31 (bit r 31)) 30 30 (if r =? 0 then 1 else 0)) in *.
  assert (W3 : word (match c with Some c => insert p2 29 29 c | None => p2 end) /\
               psr_M (match c with Some c => insert p2 29 29 c | None => p2 end) = psr_M p).
  { destruct c as [c|]; [|split; [exact W2|rewrite E2, E1; reflexivity]].
    split; [apply word_insert_bit; [exact W2|lia|exact Hc]|].
    destruct (psr_M_insert_hi p2 29 c (proj1 W2) ltac:(lia) Hc) as [E3 _]. rewrite E3, E2, E1. reflexivity. }
  destruct W3 as [W3 E3]. set (p3 := match c with Some c => insert p2 29 29 c | None => p2 end) in *.
  destruct v as [v|]; [|split; assumption].
  split; [apply word_insert_bit; [exact W3|lia|exact Hv]|].
  destruct (psr_M_insert_hi p3 28 v (proj1 W3) ltac:(lia) Hv) as [E4 _]. rewrite E4, E3. reflexivity.
Qed.

(* dp_sem with an immediate operand and Rd != PC: always completes, keeps the context, does not touch the PC *)
Lemma dp_sem_imm_ok cfg opA S d n imm c s : ictx cfg s -> 0 <= d <= 14 -> 0 <= n <= 15 -> word imm -> 0 <= c <= 1 ->
  exists s2, dp_sem cfg opA S (Some d) n (Op2Imm imm c) s = Ok tt s2 /\ ictx cfg s2 /\
             getl (changed s2) 15 = getl (changed s) 15 /\ getl (R s2) pc_index = getl (R s) pc_index /\
             opcode_len s2 = opcode_len s.
Proof.
  intros Hctx Hd Hn Hi Hc. unfold dp_sem. cbn [eval_op2]. cbv zeta.
  pose proof (dp_alu_range opA (rget s n) imm (psr_C (cpsr_of s)) (word_rget cfg s n Hctx Hn) Hi (psr_C_range _)) as [Wr Wf].
  destruct (dp_alu opA (rget s n) imm (psr_C (cpsr_of s))) as [result cv]. cbn [fst snd] in Wr, Wf.
  replace (d =? 15) with false by lia.
  pose proof (spec_ridx_range d (mode_of s) ltac:(lia)) as Rx.
  assert (Hrs : ictx cfg (rset s d result)) by (apply ictx_rset; [exact Hctx|lia|exact Wr]).
  assert (Fr : getl (changed (rset s d result)) 15 = getl (changed s) 15 /\
               getl (R (rset s d result)) pc_index = getl (R s) pc_index /\ opcode_len (rset s d result) = opcode_len s).
  { unfold rset, mark_changed. cbn [changed R opcode_len set_R set_changed]. split; [|split; [|reflexivity]].
    - unfold getl. rewrite nth_upd_other by lia. reflexivity.
    - apply getl_setl_other; unfold pc_index; lia. }
  destruct (S =? 0).
  - exists (rset s d result). split; [reflexivity|]. split; [exact Hrs|exact Fr].
  - eexists. split; [reflexivity|].
    destruct (with_flags_ok (cpsr_of s) result
                (match cv with Some (c0, _) => Some c0 | None => Some c end)
                (match cv with Some (_, v) => Some v | None => None end)
                (ok_cpsr cfg s (i_ok cfg s Hctx))) as [Ww Wm].
    + destruct cv as [[c0 v0]|]; [apply Wf|exact Hc].
    + destruct cv as [[c0 v0]|]; [apply Wf|exact I].
    + split; [apply ictx_with_cpsr; [exact Hrs|exact Ww|exact Wm]|]. exact Fr.
Qed.

Theorem dp_imm_step cfg s w s1 enc op opA S d n imm c :
  ArmV6_fetch_instruction cfg s = Ok w s1 ->
  ArmV6_decode_instruction w s1 = Ok (Some enc) s1 ->
  from_bitarray_dispatch cfg enc w s1 = Ok (Some op) s1 ->
  execute_dispatch cfg op (begin_instr s1 op) = dp_sem cfg opA S (Some d) n (Op2Imm imm c) (begin_instr s1 op) ->
  ictx cfg s1 -> 0 <= d <= 14 -> 0 <= n <= 15 -> word imm -> 0 <= c <= 1 ->
  exists s2,
    dp_sem cfg opA S (Some d) n (Op2Imm imm c) (begin_instr s1 op) = Ok tt s2 /\
    ArmV6_emulate_cycle cfg s = Ok tt (AdvancePC (it_step_after s1 s2)) /\
    pc_of (AdvancePC (it_step_after s1 s2)) = add32 (pc_of s1) (opcode_len s1 / 8).
Proof.
  intros Hf Hdec Hfb Hex Hctx Hd Hn Hi Hc.
  destruct (dp_sem_imm_ok cfg opA S d n imm c (begin_instr s1 op) (ictx_begin cfg s1 op Hctx) Hd Hn Hi Hc)
    as (s2 & Hs2 & Hctx2 & Hch & Hpc & Hlen).
  exists s2. split; [exact Hs2|]. rewrite Hs2 in Hex.
  split.
  - apply (step_completes cfg s w s1 enc op s2 Hf Hdec Hfb Hex).
    + apply (ok_cpsr cfg s2 (i_ok cfg s2 Hctx2)).
    + apply (ok_changed_len cfg s2 (i_ok cfg s2 Hctx2)).
  - pose proof (ok_R_len cfg s2 (i_ok cfg s2 Hctx2)) as HL2.
    change (getl (changed (begin_instr s1 op)) 15) with 0 in Hch.
    change (getl (R (begin_instr s1 op)) pc_index) with (pc_of s1) in Hpc.
    change (opcode_len (begin_instr s1 op)) with (opcode_len s1) in Hlen.
    unfold AdvancePC, pc_written, it_step_after.
    destruct (InITBlock (psr_IT (cpsr_of s1))); unfold it_advance_state; cbn [changed R opcode_len set_sys];
      rewrite Hch; cbn [Z.eqb negb]; cbv iota; unfold pc_of at 1; cbn [R set_R set_sys];
      (rewrite getl_setl_same by (unfold pc_index; rewrite ?HL2; lia));
      unfold pc_of at 1; cbn [R set_sys]; rewrite Hpc, Hlen; reflexivity.
Qed.
