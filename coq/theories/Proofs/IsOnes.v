(* Proofs/IsOnes.v — bits_ops.is_ones(x, N) is IsOnes(x) for an N-bit x: the population count equals N exactly when x = 2^N - 1. *)
From Coq Require Import ZArith List Bool Lia ZifyBool.
From ArmV Require Import Lib.PyZ Spec.Pseudocode Spec.Expected Proofs.BitLemmas Proofs.SpecFacts Proofs.BitsOps.
From Gen Require Import bits_ops.
Open Scope Z_scope.
(* a sentence that runs this long no longer matches the code it was written for: fail instead of searching *)
Set Default Timeout 240.
Ltac Zify.zify_post_hook ::= Z.to_euclidean_division_equations.

Lemma bit_le1 x i : 0 <= bit x i <= 1.
Proof. unfold bit. pose proof (Z.mod_pos_bound (x / 2 ^ i) 2 ltac:(lia)). lia. Qed.
Lemma BitCountN_le n x : 0 <= BitCountN n x <= Z.of_nat n.
Proof. induction n as [|n IH]; [cbn; lia|]. cbn [BitCountN]. pose proof (bit_le1 x (Z.of_nat n)). lia. Qed.
Lemma mod_succ_bit x n : 0 <= n -> x mod 2 ^ (n + 1) = x mod 2 ^ n + bit x n * 2 ^ n.
Proof.
  intros Hn. unfold bit. rewrite Z.pow_add_r by lia. change (2 ^ 1) with 2.
  assert (P : 0 < 2 ^ n) by (apply Z.pow_pos_nonneg; lia).
  rewrite Z.rem_mul_r by lia. lia.
Qed.
Lemma BitCountN_full n x : BitCountN n x = Z.of_nat n <-> x mod 2 ^ Z.of_nat n = 2 ^ Z.of_nat n - 1.
Proof.
  induction n as [|n IH].
  - cbn. rewrite Z.mod_1_r. lia.
  - cbn [BitCountN]. pose proof (BitCountN_le n x) as L. pose proof (bit_le1 x (Z.of_nat n)) as B.
    replace (Z.of_nat (S n)) with (Z.of_nat n + 1) by lia. rewrite mod_succ_bit by lia.
    assert (P : 0 < 2 ^ Z.of_nat n) by (apply Z.pow_pos_nonneg; lia).
    pose proof (Z.mod_pos_bound x (2 ^ Z.of_nat n) P) as M.
    rewrite Z.pow_add_r by lia. change (2 ^ 1) with 2. split.
    + intros E. assert (E1 : BitCountN n x = Z.of_nat n) by lia. assert (E2 : bit x (Z.of_nat n) = 1) by lia.
      apply IH in E1. rewrite E1, E2. lia.
    + intros E. assert (E2 : bit x (Z.of_nat n) = 1) by nia. rewrite E2 in *.
      assert (E1 : x mod 2 ^ Z.of_nat n = 2 ^ Z.of_nat n - 1) by lia. apply IH in E1. lia.
Qed.

Theorem is_ones_spec x N : 0 <= N -> 0 <= x < 2 ^ N -> is_ones x N = exp_is_ones x N.
Proof.
  intros HN Hx. unfold is_ones, exp_is_ones. rewrite bit_count_spec by assumption. unfold BitCount.
  pose proof (BitCountN_full (Z.to_nat N) x) as F. rewrite Z2Nat.id in F by lia. rewrite (Z.mod_small x) in F by lia.
  destruct (BitCountN (Z.to_nat N) x =? N) eqn:E1, (x =? 2 ^ N - 1) eqn:E2; try reflexivity; exfalso.
  - apply Z.eqb_eq in E1. apply Z.eqb_neq in E2. apply E2. apply F. exact E1.
  - apply Z.eqb_neq in E1. apply Z.eqb_eq in E2. apply E1. apply F. exact E2.
Qed.
