(* Proofs/StepInstancesArmReg.v — GENERATED text (one block per encoding, same script): the ARM data-processing (register)
   encodings with a destination register end to end — AND, EOR, SUB, RSB, ADD, ADC, SBC, RSC, ORR, BIC <Rd>, <Rn>, <Rm>{, <shift>}
   (A1), for every word of the encoding (cond != 1111, bit 4 = 0, Rn, Rd, Rm in r0-r12 and pairwise different) and every state. *)
Set Default Timeout 240.
From Coq Require Import ZArith List Bool Lia ZifyBool.
From ArmV Require Import Lib.PyZ Lib.Monad Lib.Machine Spec.Pseudocode Spec.Arch Spec.MachineView Spec.Branches Spec.StepFrame
  Spec.OperandSpec Spec.DPSem
  Proofs.SpecFacts Proofs.StateLemmas Proofs.CondProofs Proofs.GuardProofs Proofs.BankProofs Proofs.MachineOps Proofs.DPLemmas
  Proofs.DPClasses0 Proofs.DPClasses1 Proofs.DPClasses2 Proofs.DPClasses3 Proofs.DPClasses4 Proofs.DPClasses5 Proofs.DPClasses6 Proofs.DPClasses7
  Proofs.StepProofs Proofs.StepDP Proofs.DPRange Proofs.StepDPReg Proofs.StepInstances Proofs.OpTac
  Proofs.OpsA0 Proofs.OpsA1 Proofs.OpsA2 Proofs.OpsA3 Proofs.OpsA4 Proofs.OpsA5 Proofs.OpsA6 Proofs.OpsA7.
From Gen Require Import enums bits_ops shift regviews records hubm opsyn core exec conc decoders step.
Import ListNotations.
Open Scope Z_scope.
Ltac Zify.zify_post_hook ::= Z.to_euclidean_division_equations.

(* cond != 1111, bits 27:25 = 000, opcode = o24:o23:o22:o21, bit 4 = 0, Rn, Rd, Rm in r0-r12 and pairwise different *)
Definition is_dp_reg_a1 (o24 o23 o22 o21 w : Z) : Prop :=
  bits w 31 28 <> 15 /\ bit w 27 = 0 /\ bit w 26 = 0 /\ bit w 25 = 0 /\ bit w 24 = o24 /\ bit w 23 = o23 /\ bit w 22 = o22 /\ bit w 21 = o21
  /\ bit w 4 = 0 /\ regs13 [bits w 19 16; bits w 15 12; bits w 3 0] = true.

(* ================= AND (register, ARM) A1 ================= *)
Lemma decode_AndRegisterA1 w s : 0 <= w < 2 ^ 32 -> is_dp_reg_a1 0 0 0 0 w -> iset_of s = 0 ->
  ArmV6_decode_instruction w s = Ok (Some enc_AndRegisterA1) s.
Proof.
  intros Hw (Hc & H27 & H26 & H25 & H24 & H23 & H22 & H21 & H4 & Hr) Hi. split_regs.
  unfold ArmV6_decode_instruction, op_decode_instruction.
  rewrite !run_bind, current_instr_set_spec. cbv beta iota. rewrite Hi. unfold InstrSet_ARM. cbn [Z.eqb]. cbv iota.
  rewrite run_bind.
  assert (D : dec_arm_instruction_set w = Val (Some enc_AndRegisterA1)).
  { dec_step dec_arm_instruction_set. pose_expand w 27 25. pose_expand w 27 26. ops_if. cbn [ebind].
    dec_step dec_arm_data_processing_and_miscellaneous_instructions. pose_expand w 24 23. ops_if. cbn [ebind].
    dec_step dec_arm_data_processing_register. pose_expand w 24 21. ops_if. reflexivity. }
  rewrite D. reflexivity.
Qed.
Lemma from_bitarray_AndRegisterA1 cfg w s : 0 <= w < 2 ^ 32 -> is_dp_reg_a1 0 0 0 0 w ->
  from_bitarray_dispatch cfg enc_AndRegisterA1 w s = Ok (Some (code_AndRegister, [w; bit w 20; bits w 3 0; bits w 15 12; bits w 19 16; fst (DecodeImmShift (bits w 6 5) (bits w 11 7)); snd (DecodeImmShift (bits w 6 5) (bits w 11 7))])) s.
Proof.
  intros Hw (_ & _ & _ & _ & _ & _ & _ & _ & _ & Hr).
  pose proof (ops_AndRegisterA1 w s Hw Hr) as H. unfold fb_out, fb_plain, fb_opt, fb_res, fb_res_opt, fb_m, fb_m_opt in H.
  unfold from_bitarray_dispatch, enc_AndRegisterA1. cbv iota. unfold bind, ret, lift in *.
  repeat match goal with
  | H : match ?x with _ => _ end = _ |- context[?x] => destruct x; try discriminate H
  end.
  inversion H. reflexivity.
Qed.
Theorem andRegisterA1_step cfg s w s1 :
  ArmV6_fetch_instruction cfg s = Ok w s1 ->
  0 <= w < 2 ^ 32 -> is_dp_reg_a1 0 0 0 0 w -> iset_of s1 = 0 -> ictx cfg s1 -> cond_holds s1 ->
  let d := bits w 15 12 in let n := bits w 19 16 in let m := bits w 3 0 in
  let sh := DecodeImmShift (bits w 6 5) (bits w 11 7) in
  let op := (code_AndRegister, [w; bit w 20; m; d; n; fst sh; snd sh]) in
  exists s2,
    dp_sem cfg AND (bit w 20) (Some d) n (Op2Reg m (fst sh) (snd sh)) (begin_instr s1 op) = Ok tt s2 /\
    ArmV6_emulate_cycle cfg s = Ok tt (AdvancePC (it_step_after s1 s2)) /\
    pc_of (AdvancePC (it_step_after s1 s2)) = add32 (pc_of s1) (opcode_len s1 / 8).
Proof.
  intros Hf Hw Hcube Hi Hctx Hcond. pose_all_ranges. intros d n m sh op.
  pose proof Hcube as (_ & _ & _ & _ & _ & _ & _ & _ & _ & Hr). split_regs.
  assert (Qd : 0 <= d <= 14) by (unfold d; lia). assert (Qn : 0 <= n <= 15) by (unfold n; lia). assert (Qm : 0 <= m <= 15) by (unfold m; lia).
  assert (Hsh : valid_shift (fst sh) (snd sh)) by (unfold sh; apply DecodeImmShift_valid; lia).
  apply (dp_step cfg s w s1 enc_AndRegisterA1 op AND (bit w 20) d n (Op2Reg m (fst sh) (snd sh)) Hf); try assumption.
  - apply decode_AndRegisterA1; assumption.
  - apply from_bitarray_AndRegisterA1; assumption.
  - change (execute_dispatch cfg op (begin_instr s1 op)) with (AndRegister_execute cfg w (bit w 20) m d n (fst sh) (snd sh) (begin_instr s1 op)).
    apply AndRegister_sem; try lia; try exact Hsh; [apply ictx_begin; exact Hctx|apply cond_holds_begin; exact Hcond].
  - split; assumption.
Qed.

(* ================= EOR (register, ARM) A1 ================= *)
Lemma decode_EorRegisterA1 w s : 0 <= w < 2 ^ 32 -> is_dp_reg_a1 0 0 0 1 w -> iset_of s = 0 ->
  ArmV6_decode_instruction w s = Ok (Some enc_EorRegisterA1) s.
Proof.
  intros Hw (Hc & H27 & H26 & H25 & H24 & H23 & H22 & H21 & H4 & Hr) Hi. split_regs.
  unfold ArmV6_decode_instruction, op_decode_instruction.
  rewrite !run_bind, current_instr_set_spec. cbv beta iota. rewrite Hi. unfold InstrSet_ARM. cbn [Z.eqb]. cbv iota.
  rewrite run_bind.
  assert (D : dec_arm_instruction_set w = Val (Some enc_EorRegisterA1)).
  { dec_step dec_arm_instruction_set. pose_expand w 27 25. pose_expand w 27 26. ops_if. cbn [ebind].
    dec_step dec_arm_data_processing_and_miscellaneous_instructions. pose_expand w 24 23. ops_if. cbn [ebind].
    dec_step dec_arm_data_processing_register. pose_expand w 24 21. ops_if. reflexivity. }
  rewrite D. reflexivity.
Qed.
Lemma from_bitarray_EorRegisterA1 cfg w s : 0 <= w < 2 ^ 32 -> is_dp_reg_a1 0 0 0 1 w ->
  from_bitarray_dispatch cfg enc_EorRegisterA1 w s = Ok (Some (code_EorRegister, [w; bit w 20; bits w 3 0; bits w 15 12; bits w 19 16; fst (DecodeImmShift (bits w 6 5) (bits w 11 7)); snd (DecodeImmShift (bits w 6 5) (bits w 11 7))])) s.
Proof.
  intros Hw (_ & _ & _ & _ & _ & _ & _ & _ & _ & Hr).
  pose proof (ops_EorRegisterA1 w s Hw Hr) as H. unfold fb_out, fb_plain, fb_opt, fb_res, fb_res_opt, fb_m, fb_m_opt in H.
  unfold from_bitarray_dispatch, enc_EorRegisterA1. cbv iota. unfold bind, ret, lift in *.
  repeat match goal with
  | H : match ?x with _ => _ end = _ |- context[?x] => destruct x; try discriminate H
  end.
  inversion H. reflexivity.
Qed.
Theorem eorRegisterA1_step cfg s w s1 :
  ArmV6_fetch_instruction cfg s = Ok w s1 ->
  0 <= w < 2 ^ 32 -> is_dp_reg_a1 0 0 0 1 w -> iset_of s1 = 0 -> ictx cfg s1 -> cond_holds s1 ->
  let d := bits w 15 12 in let n := bits w 19 16 in let m := bits w 3 0 in
  let sh := DecodeImmShift (bits w 6 5) (bits w 11 7) in
  let op := (code_EorRegister, [w; bit w 20; m; d; n; fst sh; snd sh]) in
  exists s2,
    dp_sem cfg EOR (bit w 20) (Some d) n (Op2Reg m (fst sh) (snd sh)) (begin_instr s1 op) = Ok tt s2 /\
    ArmV6_emulate_cycle cfg s = Ok tt (AdvancePC (it_step_after s1 s2)) /\
    pc_of (AdvancePC (it_step_after s1 s2)) = add32 (pc_of s1) (opcode_len s1 / 8).
Proof.
  intros Hf Hw Hcube Hi Hctx Hcond. pose_all_ranges. intros d n m sh op.
  pose proof Hcube as (_ & _ & _ & _ & _ & _ & _ & _ & _ & Hr). split_regs.
  assert (Qd : 0 <= d <= 14) by (unfold d; lia). assert (Qn : 0 <= n <= 15) by (unfold n; lia). assert (Qm : 0 <= m <= 15) by (unfold m; lia).
  assert (Hsh : valid_shift (fst sh) (snd sh)) by (unfold sh; apply DecodeImmShift_valid; lia).
  apply (dp_step cfg s w s1 enc_EorRegisterA1 op EOR (bit w 20) d n (Op2Reg m (fst sh) (snd sh)) Hf); try assumption.
  - apply decode_EorRegisterA1; assumption.
  - apply from_bitarray_EorRegisterA1; assumption.
  - change (execute_dispatch cfg op (begin_instr s1 op)) with (EorRegister_execute cfg w (bit w 20) m d n (fst sh) (snd sh) (begin_instr s1 op)).
    apply EorRegister_sem; try lia; try exact Hsh; [apply ictx_begin; exact Hctx|apply cond_holds_begin; exact Hcond].
  - split; assumption.
Qed.

(* ================= SUB (register, ARM) A1 ================= *)
Lemma decode_SubRegisterA1 w s : 0 <= w < 2 ^ 32 -> is_dp_reg_a1 0 0 1 0 w -> iset_of s = 0 ->
  ArmV6_decode_instruction w s = Ok (Some enc_SubRegisterA1) s.
Proof.
  intros Hw (Hc & H27 & H26 & H25 & H24 & H23 & H22 & H21 & H4 & Hr) Hi. split_regs.
  unfold ArmV6_decode_instruction, op_decode_instruction.
  rewrite !run_bind, current_instr_set_spec. cbv beta iota. rewrite Hi. unfold InstrSet_ARM. cbn [Z.eqb]. cbv iota.
  rewrite run_bind.
  assert (D : dec_arm_instruction_set w = Val (Some enc_SubRegisterA1)).
  { dec_step dec_arm_instruction_set. pose_expand w 27 25. pose_expand w 27 26. ops_if. cbn [ebind].
    dec_step dec_arm_data_processing_and_miscellaneous_instructions. pose_expand w 24 23. ops_if. cbn [ebind].
    dec_step dec_arm_data_processing_register. pose_expand w 24 21. ops_if. reflexivity. }
  rewrite D. reflexivity.
Qed.
Lemma from_bitarray_SubRegisterA1 cfg w s : 0 <= w < 2 ^ 32 -> is_dp_reg_a1 0 0 1 0 w ->
  from_bitarray_dispatch cfg enc_SubRegisterA1 w s = Ok (Some (code_SubRegister, [w; bit w 20; bits w 3 0; bits w 15 12; bits w 19 16; fst (DecodeImmShift (bits w 6 5) (bits w 11 7)); snd (DecodeImmShift (bits w 6 5) (bits w 11 7))])) s.
Proof.
  intros Hw (_ & _ & _ & _ & _ & _ & _ & _ & _ & Hr).
  pose proof (ops_SubRegisterA1 w s Hw Hr) as H. unfold fb_out, fb_plain, fb_opt, fb_res, fb_res_opt, fb_m, fb_m_opt in H.
  unfold from_bitarray_dispatch, enc_SubRegisterA1. cbv iota. unfold bind, ret, lift in *.
  repeat match goal with
  | H : match ?x with _ => _ end = _ |- context[?x] => destruct x; try discriminate H
  end.
  inversion H. reflexivity.
Qed.
Theorem subRegisterA1_step cfg s w s1 :
  ArmV6_fetch_instruction cfg s = Ok w s1 ->
  0 <= w < 2 ^ 32 -> is_dp_reg_a1 0 0 1 0 w -> iset_of s1 = 0 -> ictx cfg s1 -> cond_holds s1 ->
  let d := bits w 15 12 in let n := bits w 19 16 in let m := bits w 3 0 in
  let sh := DecodeImmShift (bits w 6 5) (bits w 11 7) in
  let op := (code_SubRegister, [w; bit w 20; m; d; n; fst sh; snd sh]) in
  exists s2,
    dp_sem cfg SUB (bit w 20) (Some d) n (Op2Reg m (fst sh) (snd sh)) (begin_instr s1 op) = Ok tt s2 /\
    ArmV6_emulate_cycle cfg s = Ok tt (AdvancePC (it_step_after s1 s2)) /\
    pc_of (AdvancePC (it_step_after s1 s2)) = add32 (pc_of s1) (opcode_len s1 / 8).
Proof.
  intros Hf Hw Hcube Hi Hctx Hcond. pose_all_ranges. intros d n m sh op.
  pose proof Hcube as (_ & _ & _ & _ & _ & _ & _ & _ & _ & Hr). split_regs.
  assert (Qd : 0 <= d <= 14) by (unfold d; lia). assert (Qn : 0 <= n <= 15) by (unfold n; lia). assert (Qm : 0 <= m <= 15) by (unfold m; lia).
  assert (Hsh : valid_shift (fst sh) (snd sh)) by (unfold sh; apply DecodeImmShift_valid; lia).
  apply (dp_step cfg s w s1 enc_SubRegisterA1 op SUB (bit w 20) d n (Op2Reg m (fst sh) (snd sh)) Hf); try assumption.
  - apply decode_SubRegisterA1; assumption.
  - apply from_bitarray_SubRegisterA1; assumption.
  - change (execute_dispatch cfg op (begin_instr s1 op)) with (SubRegister_execute cfg w (bit w 20) m d n (fst sh) (snd sh) (begin_instr s1 op)).
    apply SubRegister_sem; try lia; try exact Hsh; [apply ictx_begin; exact Hctx|apply cond_holds_begin; exact Hcond].
  - split; assumption.
Qed.

(* ================= RSB (register, ARM) A1 ================= *)
Lemma decode_RsbRegisterA1 w s : 0 <= w < 2 ^ 32 -> is_dp_reg_a1 0 0 1 1 w -> iset_of s = 0 ->
  ArmV6_decode_instruction w s = Ok (Some enc_RsbRegisterA1) s.
Proof.
  intros Hw (Hc & H27 & H26 & H25 & H24 & H23 & H22 & H21 & H4 & Hr) Hi. split_regs.
  unfold ArmV6_decode_instruction, op_decode_instruction.
  rewrite !run_bind, current_instr_set_spec. cbv beta iota. rewrite Hi. unfold InstrSet_ARM. cbn [Z.eqb]. cbv iota.
  rewrite run_bind.
  assert (D : dec_arm_instruction_set w = Val (Some enc_RsbRegisterA1)).
  { dec_step dec_arm_instruction_set. pose_expand w 27 25. pose_expand w 27 26. ops_if. cbn [ebind].
    dec_step dec_arm_data_processing_and_miscellaneous_instructions. pose_expand w 24 23. ops_if. cbn [ebind].
    dec_step dec_arm_data_processing_register. pose_expand w 24 21. ops_if. reflexivity. }
  rewrite D. reflexivity.
Qed.
Lemma from_bitarray_RsbRegisterA1 cfg w s : 0 <= w < 2 ^ 32 -> is_dp_reg_a1 0 0 1 1 w ->
  from_bitarray_dispatch cfg enc_RsbRegisterA1 w s = Ok (Some (code_RsbRegister, [w; bit w 20; bits w 3 0; bits w 15 12; bits w 19 16; fst (DecodeImmShift (bits w 6 5) (bits w 11 7)); snd (DecodeImmShift (bits w 6 5) (bits w 11 7))])) s.
Proof.
  intros Hw (_ & _ & _ & _ & _ & _ & _ & _ & _ & Hr).
  pose proof (ops_RsbRegisterA1 w s Hw Hr) as H. unfold fb_out, fb_plain, fb_opt, fb_res, fb_res_opt, fb_m, fb_m_opt in H.
  unfold from_bitarray_dispatch, enc_RsbRegisterA1. cbv iota. unfold bind, ret, lift in *.
  repeat match goal with
  | H : match ?x with _ => _ end = _ |- context[?x] => destruct x; try discriminate H
  end.
  inversion H. reflexivity.
Qed.
Theorem rsbRegisterA1_step cfg s w s1 :
  ArmV6_fetch_instruction cfg s = Ok w s1 ->
  0 <= w < 2 ^ 32 -> is_dp_reg_a1 0 0 1 1 w -> iset_of s1 = 0 -> ictx cfg s1 -> cond_holds s1 ->
  let d := bits w 15 12 in let n := bits w 19 16 in let m := bits w 3 0 in
  let sh := DecodeImmShift (bits w 6 5) (bits w 11 7) in
  let op := (code_RsbRegister, [w; bit w 20; m; d; n; fst sh; snd sh]) in
  exists s2,
    dp_sem cfg RSB (bit w 20) (Some d) n (Op2Reg m (fst sh) (snd sh)) (begin_instr s1 op) = Ok tt s2 /\
    ArmV6_emulate_cycle cfg s = Ok tt (AdvancePC (it_step_after s1 s2)) /\
    pc_of (AdvancePC (it_step_after s1 s2)) = add32 (pc_of s1) (opcode_len s1 / 8).
Proof.
  intros Hf Hw Hcube Hi Hctx Hcond. pose_all_ranges. intros d n m sh op.
  pose proof Hcube as (_ & _ & _ & _ & _ & _ & _ & _ & _ & Hr). split_regs.
  assert (Qd : 0 <= d <= 14) by (unfold d; lia). assert (Qn : 0 <= n <= 15) by (unfold n; lia). assert (Qm : 0 <= m <= 15) by (unfold m; lia).
  assert (Hsh : valid_shift (fst sh) (snd sh)) by (unfold sh; apply DecodeImmShift_valid; lia).
  apply (dp_step cfg s w s1 enc_RsbRegisterA1 op RSB (bit w 20) d n (Op2Reg m (fst sh) (snd sh)) Hf); try assumption.
  - apply decode_RsbRegisterA1; assumption.
  - apply from_bitarray_RsbRegisterA1; assumption.
  - change (execute_dispatch cfg op (begin_instr s1 op)) with (RsbRegister_execute cfg w (bit w 20) m d n (fst sh) (snd sh) (begin_instr s1 op)).
    apply RsbRegister_sem; try lia; try exact Hsh; [apply ictx_begin; exact Hctx|apply cond_holds_begin; exact Hcond].
  - split; assumption.
Qed.

(* ================= ADD (register, ARM) A1 ================= *)
Lemma decode_AddRegisterArmA1 w s : 0 <= w < 2 ^ 32 -> is_dp_reg_a1 0 1 0 0 w -> iset_of s = 0 ->
  ArmV6_decode_instruction w s = Ok (Some enc_AddRegisterArmA1) s.
Proof.
  intros Hw (Hc & H27 & H26 & H25 & H24 & H23 & H22 & H21 & H4 & Hr) Hi. split_regs.
  unfold ArmV6_decode_instruction, op_decode_instruction.
  rewrite !run_bind, current_instr_set_spec. cbv beta iota. rewrite Hi. unfold InstrSet_ARM. cbn [Z.eqb]. cbv iota.
  rewrite run_bind.
  assert (D : dec_arm_instruction_set w = Val (Some enc_AddRegisterArmA1)).
  { dec_step dec_arm_instruction_set. pose_expand w 27 25. pose_expand w 27 26. ops_if. cbn [ebind].
    dec_step dec_arm_data_processing_and_miscellaneous_instructions. pose_expand w 24 23. ops_if. cbn [ebind].
    dec_step dec_arm_data_processing_register. pose_expand w 24 21. ops_if. reflexivity. }
  rewrite D. reflexivity.
Qed.
Lemma from_bitarray_AddRegisterArmA1 cfg w s : 0 <= w < 2 ^ 32 -> is_dp_reg_a1 0 1 0 0 w ->
  from_bitarray_dispatch cfg enc_AddRegisterArmA1 w s = Ok (Some (code_AddRegisterArm, [w; bit w 20; bits w 3 0; bits w 15 12; bits w 19 16; fst (DecodeImmShift (bits w 6 5) (bits w 11 7)); snd (DecodeImmShift (bits w 6 5) (bits w 11 7))])) s.
Proof.
  intros Hw (_ & _ & _ & _ & _ & _ & _ & _ & _ & Hr).
  pose proof (ops_AddRegisterArmA1 w s Hw Hr) as H. unfold fb_out, fb_plain, fb_opt, fb_res, fb_res_opt, fb_m, fb_m_opt in H.
  unfold from_bitarray_dispatch, enc_AddRegisterArmA1. cbv iota. unfold bind, ret, lift in *.
  repeat match goal with
  | H : match ?x with _ => _ end = _ |- context[?x] => destruct x; try discriminate H
  end.
  inversion H. reflexivity.
Qed.
Theorem addRegisterArmA1_step cfg s w s1 :
  ArmV6_fetch_instruction cfg s = Ok w s1 ->
  0 <= w < 2 ^ 32 -> is_dp_reg_a1 0 1 0 0 w -> iset_of s1 = 0 -> ictx cfg s1 -> cond_holds s1 ->
  let d := bits w 15 12 in let n := bits w 19 16 in let m := bits w 3 0 in
  let sh := DecodeImmShift (bits w 6 5) (bits w 11 7) in
  let op := (code_AddRegisterArm, [w; bit w 20; m; d; n; fst sh; snd sh]) in
  exists s2,
    dp_sem cfg ADD (bit w 20) (Some d) n (Op2Reg m (fst sh) (snd sh)) (begin_instr s1 op) = Ok tt s2 /\
    ArmV6_emulate_cycle cfg s = Ok tt (AdvancePC (it_step_after s1 s2)) /\
    pc_of (AdvancePC (it_step_after s1 s2)) = add32 (pc_of s1) (opcode_len s1 / 8).
Proof.
  intros Hf Hw Hcube Hi Hctx Hcond. pose_all_ranges. intros d n m sh op.
  pose proof Hcube as (_ & _ & _ & _ & _ & _ & _ & _ & _ & Hr). split_regs.
  assert (Qd : 0 <= d <= 14) by (unfold d; lia). assert (Qn : 0 <= n <= 15) by (unfold n; lia). assert (Qm : 0 <= m <= 15) by (unfold m; lia).
  assert (Hsh : valid_shift (fst sh) (snd sh)) by (unfold sh; apply DecodeImmShift_valid; lia).
  apply (dp_step cfg s w s1 enc_AddRegisterArmA1 op ADD (bit w 20) d n (Op2Reg m (fst sh) (snd sh)) Hf); try assumption.
  - apply decode_AddRegisterArmA1; assumption.
  - apply from_bitarray_AddRegisterArmA1; assumption.
  - change (execute_dispatch cfg op (begin_instr s1 op)) with (AddRegisterArm_execute cfg w (bit w 20) m d n (fst sh) (snd sh) (begin_instr s1 op)).
    apply AddRegisterArm_sem; try lia; try exact Hsh; [apply ictx_begin; exact Hctx|apply cond_holds_begin; exact Hcond].
  - split; assumption.
Qed.

(* ================= ADC (register, ARM) A1 ================= *)
Lemma decode_AdcRegisterA1 w s : 0 <= w < 2 ^ 32 -> is_dp_reg_a1 0 1 0 1 w -> iset_of s = 0 ->
  ArmV6_decode_instruction w s = Ok (Some enc_AdcRegisterA1) s.
Proof.
  intros Hw (Hc & H27 & H26 & H25 & H24 & H23 & H22 & H21 & H4 & Hr) Hi. split_regs.
  unfold ArmV6_decode_instruction, op_decode_instruction.
  rewrite !run_bind, current_instr_set_spec. cbv beta iota. rewrite Hi. unfold InstrSet_ARM. cbn [Z.eqb]. cbv iota.
  rewrite run_bind.
  assert (D : dec_arm_instruction_set w = Val (Some enc_AdcRegisterA1)).
  { dec_step dec_arm_instruction_set. pose_expand w 27 25. pose_expand w 27 26. ops_if. cbn [ebind].
    dec_step dec_arm_data_processing_and_miscellaneous_instructions. pose_expand w 24 23. ops_if. cbn [ebind].
    dec_step dec_arm_data_processing_register. pose_expand w 24 21. ops_if. reflexivity. }
  rewrite D. reflexivity.
Qed.
Lemma from_bitarray_AdcRegisterA1 cfg w s : 0 <= w < 2 ^ 32 -> is_dp_reg_a1 0 1 0 1 w ->
  from_bitarray_dispatch cfg enc_AdcRegisterA1 w s = Ok (Some (code_AdcRegister, [w; bit w 20; bits w 3 0; bits w 15 12; bits w 19 16; fst (DecodeImmShift (bits w 6 5) (bits w 11 7)); snd (DecodeImmShift (bits w 6 5) (bits w 11 7))])) s.
Proof.
  intros Hw (_ & _ & _ & _ & _ & _ & _ & _ & _ & Hr).
  pose proof (ops_AdcRegisterA1 w s Hw Hr) as H. unfold fb_out, fb_plain, fb_opt, fb_res, fb_res_opt, fb_m, fb_m_opt in H.
  unfold from_bitarray_dispatch, enc_AdcRegisterA1. cbv iota. unfold bind, ret, lift in *.
  repeat match goal with
  | H : match ?x with _ => _ end = _ |- context[?x] => destruct x; try discriminate H
  end.
  inversion H. reflexivity.
Qed.
Theorem adcRegisterA1_step cfg s w s1 :
  ArmV6_fetch_instruction cfg s = Ok w s1 ->
  0 <= w < 2 ^ 32 -> is_dp_reg_a1 0 1 0 1 w -> iset_of s1 = 0 -> ictx cfg s1 -> cond_holds s1 ->
  let d := bits w 15 12 in let n := bits w 19 16 in let m := bits w 3 0 in
  let sh := DecodeImmShift (bits w 6 5) (bits w 11 7) in
  let op := (code_AdcRegister, [w; bit w 20; m; d; n; fst sh; snd sh]) in
  exists s2,
    dp_sem cfg ADC (bit w 20) (Some d) n (Op2Reg m (fst sh) (snd sh)) (begin_instr s1 op) = Ok tt s2 /\
    ArmV6_emulate_cycle cfg s = Ok tt (AdvancePC (it_step_after s1 s2)) /\
    pc_of (AdvancePC (it_step_after s1 s2)) = add32 (pc_of s1) (opcode_len s1 / 8).
Proof.
  intros Hf Hw Hcube Hi Hctx Hcond. pose_all_ranges. intros d n m sh op.
  pose proof Hcube as (_ & _ & _ & _ & _ & _ & _ & _ & _ & Hr). split_regs.
  assert (Qd : 0 <= d <= 14) by (unfold d; lia). assert (Qn : 0 <= n <= 15) by (unfold n; lia). assert (Qm : 0 <= m <= 15) by (unfold m; lia).
  assert (Hsh : valid_shift (fst sh) (snd sh)) by (unfold sh; apply DecodeImmShift_valid; lia).
  apply (dp_step cfg s w s1 enc_AdcRegisterA1 op ADC (bit w 20) d n (Op2Reg m (fst sh) (snd sh)) Hf); try assumption.
  - apply decode_AdcRegisterA1; assumption.
  - apply from_bitarray_AdcRegisterA1; assumption.
  - change (execute_dispatch cfg op (begin_instr s1 op)) with (AdcRegister_execute cfg w (bit w 20) m d n (fst sh) (snd sh) (begin_instr s1 op)).
    apply AdcRegister_sem; try lia; try exact Hsh; [apply ictx_begin; exact Hctx|apply cond_holds_begin; exact Hcond].
  - split; assumption.
Qed.

(* ================= SBC (register, ARM) A1 ================= *)
Lemma decode_SbcRegisterA1 w s : 0 <= w < 2 ^ 32 -> is_dp_reg_a1 0 1 1 0 w -> iset_of s = 0 ->
  ArmV6_decode_instruction w s = Ok (Some enc_SbcRegisterA1) s.
Proof.
  intros Hw (Hc & H27 & H26 & H25 & H24 & H23 & H22 & H21 & H4 & Hr) Hi. split_regs.
  unfold ArmV6_decode_instruction, op_decode_instruction.
  rewrite !run_bind, current_instr_set_spec. cbv beta iota. rewrite Hi. unfold InstrSet_ARM. cbn [Z.eqb]. cbv iota.
  rewrite run_bind.
  assert (D : dec_arm_instruction_set w = Val (Some enc_SbcRegisterA1)).
  { dec_step dec_arm_instruction_set. pose_expand w 27 25. pose_expand w 27 26. ops_if. cbn [ebind].
    dec_step dec_arm_data_processing_and_miscellaneous_instructions. pose_expand w 24 23. ops_if. cbn [ebind].
    dec_step dec_arm_data_processing_register. pose_expand w 24 21. ops_if. reflexivity. }
  rewrite D. reflexivity.
Qed.
Lemma from_bitarray_SbcRegisterA1 cfg w s : 0 <= w < 2 ^ 32 -> is_dp_reg_a1 0 1 1 0 w ->
  from_bitarray_dispatch cfg enc_SbcRegisterA1 w s = Ok (Some (code_SbcRegister, [w; bit w 20; bits w 3 0; bits w 15 12; bits w 19 16; fst (DecodeImmShift (bits w 6 5) (bits w 11 7)); snd (DecodeImmShift (bits w 6 5) (bits w 11 7))])) s.
Proof.
  intros Hw (_ & _ & _ & _ & _ & _ & _ & _ & _ & Hr).
  pose proof (ops_SbcRegisterA1 w s Hw Hr) as H. unfold fb_out, fb_plain, fb_opt, fb_res, fb_res_opt, fb_m, fb_m_opt in H.
  unfold from_bitarray_dispatch, enc_SbcRegisterA1. cbv iota. unfold bind, ret, lift in *.
  repeat match goal with
  | H : match ?x with _ => _ end = _ |- context[?x] => destruct x; try discriminate H
  end.
  inversion H. reflexivity.
Qed.
Theorem sbcRegisterA1_step cfg s w s1 :
  ArmV6_fetch_instruction cfg s = Ok w s1 ->
  0 <= w < 2 ^ 32 -> is_dp_reg_a1 0 1 1 0 w -> iset_of s1 = 0 -> ictx cfg s1 -> cond_holds s1 ->
  let d := bits w 15 12 in let n := bits w 19 16 in let m := bits w 3 0 in
  let sh := DecodeImmShift (bits w 6 5) (bits w 11 7) in
  let op := (code_SbcRegister, [w; bit w 20; m; d; n; fst sh; snd sh]) in
  exists s2,
    dp_sem cfg SBC (bit w 20) (Some d) n (Op2Reg m (fst sh) (snd sh)) (begin_instr s1 op) = Ok tt s2 /\
    ArmV6_emulate_cycle cfg s = Ok tt (AdvancePC (it_step_after s1 s2)) /\
    pc_of (AdvancePC (it_step_after s1 s2)) = add32 (pc_of s1) (opcode_len s1 / 8).
Proof.
  intros Hf Hw Hcube Hi Hctx Hcond. pose_all_ranges. intros d n m sh op.
  pose proof Hcube as (_ & _ & _ & _ & _ & _ & _ & _ & _ & Hr). split_regs.
  assert (Qd : 0 <= d <= 14) by (unfold d; lia). assert (Qn : 0 <= n <= 15) by (unfold n; lia). assert (Qm : 0 <= m <= 15) by (unfold m; lia).
  assert (Hsh : valid_shift (fst sh) (snd sh)) by (unfold sh; apply DecodeImmShift_valid; lia).
  apply (dp_step cfg s w s1 enc_SbcRegisterA1 op SBC (bit w 20) d n (Op2Reg m (fst sh) (snd sh)) Hf); try assumption.
  - apply decode_SbcRegisterA1; assumption.
  - apply from_bitarray_SbcRegisterA1; assumption.
  - change (execute_dispatch cfg op (begin_instr s1 op)) with (SbcRegister_execute cfg w (bit w 20) m d n (fst sh) (snd sh) (begin_instr s1 op)).
    apply SbcRegister_sem; try lia; try exact Hsh; [apply ictx_begin; exact Hctx|apply cond_holds_begin; exact Hcond].
  - split; assumption.
Qed.

(* ================= RSC (register, ARM) A1 ================= *)
Lemma decode_RscRegisterA1 w s : 0 <= w < 2 ^ 32 -> is_dp_reg_a1 0 1 1 1 w -> iset_of s = 0 ->
  ArmV6_decode_instruction w s = Ok (Some enc_RscRegisterA1) s.
Proof.
  intros Hw (Hc & H27 & H26 & H25 & H24 & H23 & H22 & H21 & H4 & Hr) Hi. split_regs.
  unfold ArmV6_decode_instruction, op_decode_instruction.
  rewrite !run_bind, current_instr_set_spec. cbv beta iota. rewrite Hi. unfold InstrSet_ARM. cbn [Z.eqb]. cbv iota.
  rewrite run_bind.
  assert (D : dec_arm_instruction_set w = Val (Some enc_RscRegisterA1)).
  { dec_step dec_arm_instruction_set. pose_expand w 27 25. pose_expand w 27 26. ops_if. cbn [ebind].
    dec_step dec_arm_data_processing_and_miscellaneous_instructions. pose_expand w 24 23. ops_if. cbn [ebind].
    dec_step dec_arm_data_processing_register. pose_expand w 24 21. ops_if. reflexivity. }
  rewrite D. reflexivity.
Qed.
Lemma from_bitarray_RscRegisterA1 cfg w s : 0 <= w < 2 ^ 32 -> is_dp_reg_a1 0 1 1 1 w ->
  from_bitarray_dispatch cfg enc_RscRegisterA1 w s = Ok (Some (code_RscRegister, [w; bit w 20; bits w 3 0; bits w 15 12; bits w 19 16; fst (DecodeImmShift (bits w 6 5) (bits w 11 7)); snd (DecodeImmShift (bits w 6 5) (bits w 11 7))])) s.
Proof.
  intros Hw (_ & _ & _ & _ & _ & _ & _ & _ & _ & Hr).
  pose proof (ops_RscRegisterA1 w s Hw Hr) as H. unfold fb_out, fb_plain, fb_opt, fb_res, fb_res_opt, fb_m, fb_m_opt in H.
  unfold from_bitarray_dispatch, enc_RscRegisterA1. cbv iota. unfold bind, ret, lift in *.
  repeat match goal with
  | H : match ?x with _ => _ end = _ |- context[?x] => destruct x; try discriminate H
  end.
  inversion H. reflexivity.
Qed.
Theorem rscRegisterA1_step cfg s w s1 :
  ArmV6_fetch_instruction cfg s = Ok w s1 ->
  0 <= w < 2 ^ 32 -> is_dp_reg_a1 0 1 1 1 w -> iset_of s1 = 0 -> ictx cfg s1 -> cond_holds s1 ->
  let d := bits w 15 12 in let n := bits w 19 16 in let m := bits w 3 0 in
  let sh := DecodeImmShift (bits w 6 5) (bits w 11 7) in
  let op := (code_RscRegister, [w; bit w 20; m; d; n; fst sh; snd sh]) in
  exists s2,
    dp_sem cfg RSC (bit w 20) (Some d) n (Op2Reg m (fst sh) (snd sh)) (begin_instr s1 op) = Ok tt s2 /\
    ArmV6_emulate_cycle cfg s = Ok tt (AdvancePC (it_step_after s1 s2)) /\
    pc_of (AdvancePC (it_step_after s1 s2)) = add32 (pc_of s1) (opcode_len s1 / 8).
Proof.
  intros Hf Hw Hcube Hi Hctx Hcond. pose_all_ranges. intros d n m sh op.
  pose proof Hcube as (_ & _ & _ & _ & _ & _ & _ & _ & _ & Hr). split_regs.
  assert (Qd : 0 <= d <= 14) by (unfold d; lia). assert (Qn : 0 <= n <= 15) by (unfold n; lia). assert (Qm : 0 <= m <= 15) by (unfold m; lia).
  assert (Hsh : valid_shift (fst sh) (snd sh)) by (unfold sh; apply DecodeImmShift_valid; lia).
  apply (dp_step cfg s w s1 enc_RscRegisterA1 op RSC (bit w 20) d n (Op2Reg m (fst sh) (snd sh)) Hf); try assumption.
  - apply decode_RscRegisterA1; assumption.
  - apply from_bitarray_RscRegisterA1; assumption.
  - change (execute_dispatch cfg op (begin_instr s1 op)) with (RscRegister_execute cfg w (bit w 20) m d n (fst sh) (snd sh) (begin_instr s1 op)).
    apply RscRegister_sem; try lia; try exact Hsh; [apply ictx_begin; exact Hctx|apply cond_holds_begin; exact Hcond].
  - split; assumption.
Qed.

(* ================= ORR (register, ARM) A1 ================= *)
Lemma decode_OrrRegisterA1 w s : 0 <= w < 2 ^ 32 -> is_dp_reg_a1 1 1 0 0 w -> iset_of s = 0 ->
  ArmV6_decode_instruction w s = Ok (Some enc_OrrRegisterA1) s.
Proof.
  intros Hw (Hc & H27 & H26 & H25 & H24 & H23 & H22 & H21 & H4 & Hr) Hi. split_regs.
  unfold ArmV6_decode_instruction, op_decode_instruction.
  rewrite !run_bind, current_instr_set_spec. cbv beta iota. rewrite Hi. unfold InstrSet_ARM. cbn [Z.eqb]. cbv iota.
  rewrite run_bind.
  assert (D : dec_arm_instruction_set w = Val (Some enc_OrrRegisterA1)).
  { dec_step dec_arm_instruction_set. pose_expand w 27 25. pose_expand w 27 26. ops_if. cbn [ebind].
    dec_step dec_arm_data_processing_and_miscellaneous_instructions. pose_expand w 24 23. ops_if. cbn [ebind].
    dec_step dec_arm_data_processing_register. pose_expand w 24 21. ops_if. reflexivity. }
  rewrite D. reflexivity.
Qed.
Lemma from_bitarray_OrrRegisterA1 cfg w s : 0 <= w < 2 ^ 32 -> is_dp_reg_a1 1 1 0 0 w ->
  from_bitarray_dispatch cfg enc_OrrRegisterA1 w s = Ok (Some (code_OrrRegister, [w; bit w 20; bits w 3 0; bits w 15 12; bits w 19 16; fst (DecodeImmShift (bits w 6 5) (bits w 11 7)); snd (DecodeImmShift (bits w 6 5) (bits w 11 7))])) s.
Proof.
  intros Hw (_ & _ & _ & _ & _ & _ & _ & _ & _ & Hr).
  pose proof (ops_OrrRegisterA1 w s Hw Hr) as H. unfold fb_out, fb_plain, fb_opt, fb_res, fb_res_opt, fb_m, fb_m_opt in H.
  unfold from_bitarray_dispatch, enc_OrrRegisterA1. cbv iota. unfold bind, ret, lift in *.
  repeat match goal with
  | H : match ?x with _ => _ end = _ |- context[?x] => destruct x; try discriminate H
  end.
  inversion H. reflexivity.
Qed.
Theorem orrRegisterA1_step cfg s w s1 :
  ArmV6_fetch_instruction cfg s = Ok w s1 ->
  0 <= w < 2 ^ 32 -> is_dp_reg_a1 1 1 0 0 w -> iset_of s1 = 0 -> ictx cfg s1 -> cond_holds s1 ->
  let d := bits w 15 12 in let n := bits w 19 16 in let m := bits w 3 0 in
  let sh := DecodeImmShift (bits w 6 5) (bits w 11 7) in
  let op := (code_OrrRegister, [w; bit w 20; m; d; n; fst sh; snd sh]) in
  exists s2,
    dp_sem cfg ORR (bit w 20) (Some d) n (Op2Reg m (fst sh) (snd sh)) (begin_instr s1 op) = Ok tt s2 /\
    ArmV6_emulate_cycle cfg s = Ok tt (AdvancePC (it_step_after s1 s2)) /\
    pc_of (AdvancePC (it_step_after s1 s2)) = add32 (pc_of s1) (opcode_len s1 / 8).
Proof.
  intros Hf Hw Hcube Hi Hctx Hcond. pose_all_ranges. intros d n m sh op.
  pose proof Hcube as (_ & _ & _ & _ & _ & _ & _ & _ & _ & Hr). split_regs.
  assert (Qd : 0 <= d <= 14) by (unfold d; lia). assert (Qn : 0 <= n <= 15) by (unfold n; lia). assert (Qm : 0 <= m <= 15) by (unfold m; lia).
  assert (Hsh : valid_shift (fst sh) (snd sh)) by (unfold sh; apply DecodeImmShift_valid; lia).
  apply (dp_step cfg s w s1 enc_OrrRegisterA1 op ORR (bit w 20) d n (Op2Reg m (fst sh) (snd sh)) Hf); try assumption.
  - apply decode_OrrRegisterA1; assumption.
  - apply from_bitarray_OrrRegisterA1; assumption.
  - change (execute_dispatch cfg op (begin_instr s1 op)) with (OrrRegister_execute cfg w (bit w 20) m d n (fst sh) (snd sh) (begin_instr s1 op)).
    apply OrrRegister_sem; try lia; try exact Hsh; [apply ictx_begin; exact Hctx|apply cond_holds_begin; exact Hcond].
  - split; assumption.
Qed.

(* ================= BIC (register, ARM) A1 ================= *)
Lemma decode_BicRegisterA1 w s : 0 <= w < 2 ^ 32 -> is_dp_reg_a1 1 1 1 0 w -> iset_of s = 0 ->
  ArmV6_decode_instruction w s = Ok (Some enc_BicRegisterA1) s.
Proof.
  intros Hw (Hc & H27 & H26 & H25 & H24 & H23 & H22 & H21 & H4 & Hr) Hi. split_regs.
  unfold ArmV6_decode_instruction, op_decode_instruction.
  rewrite !run_bind, current_instr_set_spec. cbv beta iota. rewrite Hi. unfold InstrSet_ARM. cbn [Z.eqb]. cbv iota.
  rewrite run_bind.
  assert (D : dec_arm_instruction_set w = Val (Some enc_BicRegisterA1)).
  { dec_step dec_arm_instruction_set. pose_expand w 27 25. pose_expand w 27 26. ops_if. cbn [ebind].
    dec_step dec_arm_data_processing_and_miscellaneous_instructions. pose_expand w 24 23. ops_if. cbn [ebind].
    dec_step dec_arm_data_processing_register. pose_expand w 24 21. ops_if. reflexivity. }
  rewrite D. reflexivity.
Qed.
Lemma from_bitarray_BicRegisterA1 cfg w s : 0 <= w < 2 ^ 32 -> is_dp_reg_a1 1 1 1 0 w ->
  from_bitarray_dispatch cfg enc_BicRegisterA1 w s = Ok (Some (code_BicRegister, [w; bit w 20; bits w 3 0; bits w 15 12; bits w 19 16; fst (DecodeImmShift (bits w 6 5) (bits w 11 7)); snd (DecodeImmShift (bits w 6 5) (bits w 11 7))])) s.
Proof.
  intros Hw (_ & _ & _ & _ & _ & _ & _ & _ & _ & Hr).
  pose proof (ops_BicRegisterA1 w s Hw Hr) as H. unfold fb_out, fb_plain, fb_opt, fb_res, fb_res_opt, fb_m, fb_m_opt in H.
  unfold from_bitarray_dispatch, enc_BicRegisterA1. cbv iota. unfold bind, ret, lift in *.
  repeat match goal with
  | H : match ?x with _ => _ end = _ |- context[?x] => destruct x; try discriminate H
  end.
  inversion H. reflexivity.
Qed.
Theorem bicRegisterA1_step cfg s w s1 :
  ArmV6_fetch_instruction cfg s = Ok w s1 ->
  0 <= w < 2 ^ 32 -> is_dp_reg_a1 1 1 1 0 w -> iset_of s1 = 0 -> ictx cfg s1 -> cond_holds s1 ->
  let d := bits w 15 12 in let n := bits w 19 16 in let m := bits w 3 0 in
  let sh := DecodeImmShift (bits w 6 5) (bits w 11 7) in
  let op := (code_BicRegister, [w; bit w 20; m; d; n; fst sh; snd sh]) in
  exists s2,
    dp_sem cfg BIC (bit w 20) (Some d) n (Op2Reg m (fst sh) (snd sh)) (begin_instr s1 op) = Ok tt s2 /\
    ArmV6_emulate_cycle cfg s = Ok tt (AdvancePC (it_step_after s1 s2)) /\
    pc_of (AdvancePC (it_step_after s1 s2)) = add32 (pc_of s1) (opcode_len s1 / 8).
Proof.
  intros Hf Hw Hcube Hi Hctx Hcond. pose_all_ranges. intros d n m sh op.
  pose proof Hcube as (_ & _ & _ & _ & _ & _ & _ & _ & _ & Hr). split_regs.
  assert (Qd : 0 <= d <= 14) by (unfold d; lia). assert (Qn : 0 <= n <= 15) by (unfold n; lia). assert (Qm : 0 <= m <= 15) by (unfold m; lia).
  assert (Hsh : valid_shift (fst sh) (snd sh)) by (unfold sh; apply DecodeImmShift_valid; lia).
  apply (dp_step cfg s w s1 enc_BicRegisterA1 op BIC (bit w 20) d n (Op2Reg m (fst sh) (snd sh)) Hf); try assumption.
  - apply decode_BicRegisterA1; assumption.
  - apply from_bitarray_BicRegisterA1; assumption.
  - change (execute_dispatch cfg op (begin_instr s1 op)) with (BicRegister_execute cfg w (bit w 20) m d n (fst sh) (snd sh) (begin_instr s1 op)).
    apply BicRegister_sem; try lia; try exact Hsh; [apply ictx_begin; exact Hctx|apply cond_holds_begin; exact Hcond].
  - split; assumption.
Qed.
