(* Props/C12status.v — C12: status-register access.  MRS (application and system level), MSR (application level: APSR_nzcvq,
   APSR_g; system level: CPSRWriteByInstr / SPSRWriteByInstr), immediate and register forms, each equal to
   Spec/StatusAccess.v for every operand and state; spsr_write_by_instr = SPSRWriteByInstr (B1.3.3).
   Statements only; proofs in Proofs/StatusProofs.v. *)
From Coq Require Import ZArith Bool List.
From ArmV Require Import Lib.PyZ Lib.Monad Lib.Machine Spec.Pseudocode Spec.Arch Spec.MachineView Spec.Exceptions Spec.BlockFamily
  Spec.StatusAccess Proofs.StateLemmas Proofs.CondProofs Proofs.GuardProofs Proofs.BankProofs Proofs.MachineOps Proofs.DPLemmas
  Proofs.StatusProofs.
From Gen Require Import enums core exec.
Import ListNotations.
Open Scope Z_scope.

Theorem C12_MrsApplication cfg instr d s : ictx cfg s -> cond_holds s -> 0 <= d <= 14 ->
  MrsApplication_execute cfg instr d s = Ok tt (MRS_app s d).
Proof. exact (MrsApplication_ok cfg instr d s). Qed.
Print Assumptions C12_MrsApplication.
Theorem C12_MsrImmediateApplication cfg instr write_nzcvq write_g imm32 s : ictx cfg s -> cond_holds s ->
  MsrImmediateApplication_execute instr write_nzcvq write_g imm32 s = Ok tt (MSR_app s write_nzcvq write_g imm32).
Proof. exact (MsrImmediateApplication_ok cfg instr write_nzcvq write_g imm32 s). Qed.
Print Assumptions C12_MsrImmediateApplication.
Theorem C12_MsrRegisterApplication cfg instr write_nzcvq write_g n s : ictx cfg s -> cond_holds s -> 0 <= n <= 14 ->
  MsrRegisterApplication_execute cfg instr write_nzcvq write_g n s = Ok tt (MSR_app s write_nzcvq write_g (rget s n)).
Proof. exact (MsrRegisterApplication_ok cfg instr write_nzcvq write_g n s). Qed.
Print Assumptions C12_MsrRegisterApplication.
Theorem C12_MrsSystem cfg instr read_spsr d s : ictx cfg s -> cond_holds s -> 0 <= d <= 14 ->
  MrsSystem_execute cfg instr read_spsr d s = Ok tt (MRS_sys s read_spsr d).
Proof. exact (MrsSystem_ok cfg instr read_spsr d s). Qed.
Print Assumptions C12_MrsSystem.
Theorem C12_spsr_write cfg value bytemask s : ictx cfg s -> word (get_SPSR s) ->
  Registers_spsr_write_by_instr cfg value bytemask s =
  Ok tt (set_SPSR s (SPSRWriteByInstr (have_sec cfg) (have_virt cfg) (get_SPSR s) value bytemask)).
Proof. exact (spsr_write_spec cfg value bytemask s). Qed.
Print Assumptions C12_spsr_write.
Theorem C12_MsrImmediateSystem cfg instr write_spsr mask imm32 s : ictx cfg s -> cond_holds s -> word (get_SPSR s) ->
  MsrImmediateSystem_execute cfg instr write_spsr mask imm32 s = Ok tt (MSR_sys (sysctx_of cfg s) s write_spsr mask imm32).
Proof. exact (MsrImmediateSystem_ok cfg instr write_spsr mask imm32 s). Qed.
Print Assumptions C12_MsrImmediateSystem.
Theorem C12_MsrRegisterSystem cfg instr write_spsr mask n s : ictx cfg s -> cond_holds s -> word (get_SPSR s) -> 0 <= n <= 14 ->
  MsrRegisterSystem_execute cfg instr write_spsr mask n s = Ok tt (MSR_sys (sysctx_of cfg s) s write_spsr mask (rget s n)).
Proof. exact (MsrRegisterSystem_ok cfg instr write_spsr mask n s). Qed.
Print Assumptions C12_MsrRegisterSystem.
