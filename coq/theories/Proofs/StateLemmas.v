(* Proofs/StateLemmas.v — the well-formedness invariant of machine states and the basic algebra of
   the state primitives, used by every proof about translated stateful code. *)
From Coq Require Import ZArith List Bool Lia ZifyBool.
From ArmV Require Import Lib.PyZ Lib.Monad Lib.Machine.
From Gen Require Import enums.
Import ListNotations.
Open Scope Z_scope.

Definition word (v : Z) : Prop := 0 <= v < 2 ^ 32.

Record wf (s : machine) : Prop := {
  wf_R_len : length (R s) = 34%nat;
  wf_sys_len : length (sys s) = n_sys;
  wf_changed_len : length (changed s) = 16%nat;
  wf_R_word : forall k, (k < 34)%nat -> word (nth k (R s) 0);
  wf_cpsr : word (getl (sys s) slot_cpsr);
}.

(* ---- lists ---- *)
Lemma upd_length {A} (l : list A) n v : length (upd l n v) = length l.
Proof. revert n; induction l; destruct n; cbn; auto. Qed.
Lemma nth_upd_same {A} (l : list A) n v d : (n < length l)%nat -> nth n (upd l n v) d = v.
Proof. revert n; induction l; destruct n; cbn; intros; try lia; auto. apply IHl; lia. Qed.
Lemma nth_upd_other {A} (l : list A) n m v d : n <> m -> nth m (upd l n v) d = nth m l d.
Proof. revert n m; induction l; destruct n, m; cbn; intros; try congruence; auto. Qed.
Lemma setl_length l i v : length (setl l i v) = length l.
Proof. apply upd_length. Qed.
Lemma getl_setl_same l i v : 0 <= i < Z.of_nat (length l) -> getl (setl l i v) i = v.
Proof. intros. unfold getl, setl. apply nth_upd_same. lia. Qed.
Lemma getl_setl_other l i j v : 0 <= i -> 0 <= j -> i <> j -> getl (setl l i v) j = getl l j.
Proof. intros. unfold getl, setl. apply nth_upd_other. lia. Qed.
Lemma setl_setl_same l i v w : setl (setl l i v) i w = setl l i w.
Proof. unfold setl. generalize (Z.to_nat i). intro n. revert n. induction l; destruct n; cbn; auto. f_equal. apply IHl. Qed.
Lemma setl_getl_same l i : 0 <= i < Z.of_nat (length l) -> setl l i (getl l i) = l.
Proof.
  intros H. unfold setl, getl. assert (Hn : (Z.to_nat i < length l)%nat) by lia. revert Hn. generalize (Z.to_nat i).
  clear H. induction l as [|a t IH]; intros [|n] Hn; cbn in *; try lia; [reflexivity|]. f_equal. apply IH. lia.
Qed.

(* ---- running primitives ---- *)
Lemma run_get_sys i s : get_sys i s = Ok (getl (sys s) i) s.
Proof. reflexivity. Qed.
Lemma run_put_sys i v s : put_sys i v s = Ok tt (set_sys s (setl (sys s) i v)).
Proof. reflexivity. Qed.
Lemma run_bind {S A B} (m : M S A) (f : A -> M S B) s :
  bind m f s = match m s with Ok a s' => f a s' | Exc e s' => Exc e s' end.
Proof. reflexivity. Qed.
Lemma run_ret {S A} (a : A) (s : S) : ret a s = Ok a s.
Proof. reflexivity. Qed.

Lemma sys_set_sys s l : sys (set_sys s l) = l. Proof. reflexivity. Qed.
Lemma set_sys_set_sys s l l' : set_sys (set_sys s l) l' = set_sys s l'. Proof. reflexivity. Qed.
Lemma set_sys_id s : set_sys s (sys s) = s. Proof. destruct s; reflexivity. Qed.
Lemma opcode_w_set_sys s l : opcode_w (set_sys s l) = opcode_w s. Proof. reflexivity. Qed.
Lemma opcode_len_set_sys s l : opcode_len (set_sys s l) = opcode_len s. Proof. reflexivity. Qed.
Lemma R_set_sys s l : R (set_sys s l) = R s. Proof. reflexivity. Qed.

Lemma run_get_sys_bind {A} i (k : Z -> M machine A) s : bind (get_sys i) k s = k (getl (sys s) i) s.
Proof. reflexivity. Qed.
Lemma run_put_sys_bind {A} i v (k : unit -> M machine A) s : bind (put_sys i v) k s = k tt (set_sys s (setl (sys s) i v)).
Proof. reflexivity. Qed.
Lemma bind_assoc_run {A B C} (m : M machine A) (f : A -> M machine B) (g : B -> M machine C) s :
  bind (bind m f) g s = bind m (fun x => bind (f x) g) s.
Proof. unfold bind. destruct (m s); reflexivity. Qed.
Lemma bind_ret_tt (m : M machine unit) s : bind m (fun _ => ret tt) s = m s.
Proof. unfold bind, ret. destruct (m s) as [[] ?|]; reflexivity. Qed.
Lemma bind_ret_run {A B} (a : A) (f : A -> M machine B) s : bind (ret a) f s = f a s.
Proof. reflexivity. Qed.


(* symbolic execution of straight-line monadic code applied to a state *)
Ltac mstep :=
  repeat first
    [ rewrite run_bind
    | rewrite run_get_sys
    | rewrite run_put_sys
    | rewrite run_ret
    | progress cbn beta iota
    | progress rewrite ?sys_set_sys, ?set_sys_set_sys, ?opcode_w_set_sys, ?opcode_len_set_sys, ?R_set_sys ].

(* ---- path-exploring symbolic execution for small monadic functions applied to a state ----
   mred unfolds the monad and the total state primitives; msplit case-splits on the next branch
   condition that blocks evaluation.  Use only on functions with few paths. *)
Ltac mred :=
  cbv beta iota delta [bind ret lift raise reads modify passert get_state put_state
                       get_sys put_sys get_opcode_w put_opcode_w get_opcode_len put_opcode_len
                       get_run_ put_run_ get_wfe put_wfe get_wfi put_wfi get_executed put_executed
                       eassert ebind eunbound enone];
  cbn [sys R sysl changed opcode_w opcode_len run_ wfe wfi executed mem
       set_sys set_R set_sysl set_changed set_opcode_w set_opcode_len set_run_ set_wfe set_wfi set_executed set_mem].
Ltac msplit :=
  match goal with
  | |- context [match (if ?b then _ else _) _ with Ok _ _ => _ | Exc _ _ => _ end] => destruct b eqn:?
  | |- context [(if ?b then _ else _) ?s = _] => destruct b eqn:?
  | |- (if ?b then _ else _) = _ => destruct b eqn:?
  end.
Ltac mrun := mred; repeat (msplit; mred).

(* close a goal whose two sides are nested conditionals over the same atoms *)
Ltac split_ifs :=
  repeat match goal with
         | |- context [if ?b then _ else _] => destruct b eqn:?
         end.
