(* Proofs/GuardProofs.v — a failed condition makes every conditional instruction a no-op:
   one shape lemma, then every opcode class by enumeration of the regenerated dispatcher. *)
From Coq Require Import ZArith List Bool Lia ZifyBool.
From ArmV Require Import Lib.PyZ Lib.Monad Lib.Machine Spec.Pseudocode Spec.Arch
  Proofs.StateLemmas Proofs.CondProofs.
From Gen Require Import enums bits_ops shift regviews records hubm opsyn core exec conc decoders step.
Import ListNotations.
Open Scope Z_scope.

Definition cond_fails (s : machine) : Prop :=
  ConditionHolds (cond_of s) (psr_N (cpsr_of s)) (psr_Z (cpsr_of s)) (psr_C (cpsr_of s)) (psr_V (cpsr_of s)) = false.
Definition cond_holds (s : machine) : Prop :=
  ConditionHolds (cond_of s) (psr_N (cpsr_of s)) (psr_Z (cpsr_of s)) (psr_C (cpsr_of s)) (psr_V (cpsr_of s)) = true.

Lemma guard_noop (body : M machine unit) s : cond_fails s ->
  (t_1 <- ArmV6_condition_passed ;; _ <- (if truthy t_1 then body else ret tt) ;; ret tt) s = Ok tt s.
Proof. intros H. rewrite run_bind, condition_passed_spec. unfold cond_fails in H. rewrite H. reflexivity. Qed.
Lemma guard_pass (body : M machine unit) s : cond_holds s ->
  (t_1 <- ArmV6_condition_passed ;; _ <- (if truthy t_1 then body else ret tt) ;; ret tt) s
  = (_ <- body ;; ret tt) s.
Proof. intros H. rewrite run_bind, condition_passed_spec. unfold cond_holds in H. rewrite H. reflexivity. Qed.

(* the classes whose pseudocode has no ConditionPassed() test: BKPT, CBZ/CBNZ, CPS, ENTERX/LEAVEX, IT, SETEND *)
Definition unconditional_classes : list Z :=
  [code_Bkpt; code_Cbz; code_CpsArm; code_CpsThumb; code_EnterxLeavex; code_It; code_Setend].
Definition is_conditional_class (c : Z) : bool := negb (existsb (Z.eqb c) unconditional_classes).

Ltac head_of t := lazymatch t with ?f _ => head_of f | _ => t end.
Ltac guard_case :=
  cbv beta iota delta [execute_dispatch fst snd]; cbn [Z.eqb Pos.eqb];
  lazymatch goal with
  | |- ?lhs = _ => lazymatch lhs with ?m ?s => let h := head_of m in unfold h end
  end;
  first [ apply guard_noop; assumption
        | rewrite run_bind, condition_passed_spec;
          try match goal with H : cond_fails ?s |- _ => let H' := fresh in pose proof H as H'; unfold cond_fails in H'; rewrite H' end; reflexivity ].

Theorem guard_all_classes cfg c fl s : In c all_opcode_codes -> is_conditional_class c = true -> cond_fails s ->
  execute_dispatch cfg (c, fl) s = Ok tt s.
Proof.
  intros Hin Hc Hf. vm_compute in Hin.
  repeat (destruct Hin as [<- | Hin]; [first [ (vm_compute in Hc; discriminate Hc) | guard_case ] |]).
  contradiction.
Qed.
