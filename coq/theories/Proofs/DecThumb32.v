(* Proofs/DecThumb32.v — 32-bit Thumb class selection: the regenerated decoders agree with the tables of Spec/DecTablesT32.v on
   every one of the 2^32 words (reflective cube checker of Proofs/Cube.v). *)
From Coq Require Import ZArith List Bool String Lia.
From ArmV Require Import Lib.PyZ Proofs.Cube Proofs.DecodeReify Spec.DecTables Spec.DecTablesT32 Proofs.DecArm1.
From Gen Require Import bits_ops opsyn decoders.
Import ListNotations.
Open Scope Z_scope.

Lemma t32_reified : { t : tree (res (option Z)) | forall w, eval t32_env (Val None) t w = dec_thumb_instruction_set_encoding_32_bit w }.
Proof.
  eexists. intros w. unfold dec_thumb_instruction_set_encoding_32_bit. cbv zeta.
  match goal with |- eval _ _ ?T w = ?rhs => let e := eval unfold t32_env in t32_env in let t := reify_t (res (option Z)) w e rhs in unify T t end.
  reflexivity.
Defined.
Theorem dec_thumb32_top_table w : 0 <= w < 2 ^ 32 ->
  dec_thumb_instruction_set_encoding_32_bit w = eval_leaf t32_env (Val None) (lookup t32_table (LRet (Val None)) w) w.
Proof.
  intros Hw. rewrite <- (proj2_sig t32_reified w).
  apply (decode_correct 32%nat res_eqb res_eqb_sound t32_env (Val None) t32_table (LRet (Val None)) (proj1_sig t32_reified) 400).
  - vm_compute. reflexivity.
  - exact Hw.
Qed.

Ltac reify_opt f env :=
  eexists; intros w; unfold f; cbv zeta;
  match goal with |- eval _ _ ?T w = ?rhs => let e := eval unfold env in env in let t := reify_t (option Z) w e rhs in unify T t end;
  reflexivity.

Lemma mvsh_reified : { t : tree (option Z) | forall w, eval no_env None t w = dec_thumb_move_register_and_immediate_shifts w }.
Proof. reify_opt dec_thumb_move_register_and_immediate_shifts no_env. Defined.
Theorem dec_thumb32_move_shift_table w : 0 <= w < 2 ^ 32 ->
  dec_thumb_move_register_and_immediate_shifts w = eval_leaf no_env None (lookup t32_mvsh_table (LRet None) w) w.
Proof.
  intros Hw. rewrite <- (proj2_sig mvsh_reified w).
  apply (decode_correct 32%nat optZ_eqb optZ_eqb_sound no_env None t32_mvsh_table (LRet None) (proj1_sig mvsh_reified) 400).
  - vm_compute. reflexivity.
  - exact Hw.
Qed.

Lemma dpsr_reified : { t : tree (option Z) | forall w, eval t32_dpsr_env None t w = dec_thumb_data_processing_shifted_register w }.
Proof. reify_opt dec_thumb_data_processing_shifted_register t32_dpsr_env. Defined.
Theorem dec_thumb32_dp_shifted_register_table w : 0 <= w < 2 ^ 32 ->
  dec_thumb_data_processing_shifted_register w = eval_leaf t32_dpsr_env None (lookup t32_dpsr_table (LRet None) w) w.
Proof.
  intros Hw. rewrite <- (proj2_sig dpsr_reified w).
  apply (decode_correct 32%nat optZ_eqb optZ_eqb_sound t32_dpsr_env None t32_dpsr_table (LRet None) (proj1_sig dpsr_reified) 400).
  - vm_compute. reflexivity.
  - exact Hw.
Qed.

Lemma dpmi_reified : { t : tree (option Z) | forall w, eval no_env None t w = dec_thumb_data_processing_modified_immediate w }.
Proof. reify_opt dec_thumb_data_processing_modified_immediate no_env. Defined.
Theorem dec_thumb32_dp_modified_immediate_table w : 0 <= w < 2 ^ 32 ->
  dec_thumb_data_processing_modified_immediate w = eval_leaf no_env None (lookup t32_dpmi_table (LRet None) w) w.
Proof.
  intros Hw. rewrite <- (proj2_sig dpmi_reified w).
  apply (decode_correct 32%nat optZ_eqb optZ_eqb_sound no_env None t32_dpmi_table (LRet None) (proj1_sig dpmi_reified) 400).
  - vm_compute. reflexivity.
  - exact Hw.
Qed.

Lemma pbi_reified : { t : tree (option Z) | forall w, eval no_env None t w = dec_thumb_data_processing_plain_binary_immediate w }.
Proof. reify_opt dec_thumb_data_processing_plain_binary_immediate no_env. Defined.
Theorem dec_thumb32_plain_binary_immediate_table w : 0 <= w < 2 ^ 32 ->
  dec_thumb_data_processing_plain_binary_immediate w = eval_leaf no_env None (lookup t32_pbi_table (LRet None) w) w.
Proof.
  intros Hw. rewrite <- (proj2_sig pbi_reified w).
  apply (decode_correct 32%nat optZ_eqb optZ_eqb_sound no_env None t32_pbi_table (LRet None) (proj1_sig pbi_reified) 400).
  - vm_compute. reflexivity.
  - exact Hw.
Qed.

Lemma lsm_reified : { t : tree (option Z) | forall w, eval no_env None t w = dec_thumb_load_store_multiple w }.
Proof. reify_opt dec_thumb_load_store_multiple no_env. Defined.
Theorem dec_thumb32_lsm_table w : 0 <= w < 2 ^ 32 ->
  dec_thumb_load_store_multiple w = eval_leaf no_env None (lookup t32_lsm_table (LRet None) w) w.
Proof.
  intros Hw. rewrite <- (proj2_sig lsm_reified w).
  apply (decode_correct 32%nat optZ_eqb optZ_eqb_sound no_env None t32_lsm_table (LRet None) (proj1_sig lsm_reified) 400).
  - vm_compute. reflexivity.
  - exact Hw.
Qed.

Lemma dual_reified : { t : tree (option Z) | forall w, eval no_env None t w = dec_thumb_load_store_dual_load_store_exclusive_table_branch w }.
Proof. reify_opt dec_thumb_load_store_dual_load_store_exclusive_table_branch no_env. Defined.
Theorem dec_thumb32_dual_table w : 0 <= w < 2 ^ 32 ->
  dec_thumb_load_store_dual_load_store_exclusive_table_branch w = eval_leaf no_env None (lookup t32_dual_table (LRet None) w) w.
Proof.
  intros Hw. rewrite <- (proj2_sig dual_reified w).
  apply (decode_correct 32%nat optZ_eqb optZ_eqb_sound no_env None t32_dual_table (LRet None) (proj1_sig dual_reified) 400).
  - vm_compute. reflexivity.
  - exact Hw.
Qed.

Lemma sts_reified : { t : tree (option Z) | forall w, eval no_env None t w = dec_thumb_store_single_data_item w }.
Proof. reify_opt dec_thumb_store_single_data_item no_env. Defined.
Theorem dec_thumb32_sts_table w : 0 <= w < 2 ^ 32 ->
  dec_thumb_store_single_data_item w = eval_leaf no_env None (lookup t32_sts_table (LRet None) w) w.
Proof.
  intros Hw. rewrite <- (proj2_sig sts_reified w).
  apply (decode_correct 32%nat optZ_eqb optZ_eqb_sound no_env None t32_sts_table (LRet None) (proj1_sig sts_reified) 400).
  - vm_compute. reflexivity.
  - exact Hw.
Qed.

Lemma ldw_reified : { t : tree (option Z) | forall w, eval no_env None t w = dec_thumb_load_word w }.
Proof. reify_opt dec_thumb_load_word no_env. Defined.
Theorem dec_thumb32_ldw_table w : 0 <= w < 2 ^ 32 ->
  dec_thumb_load_word w = eval_leaf no_env None (lookup t32_ldw_table (LRet None) w) w.
Proof.
  intros Hw. rewrite <- (proj2_sig ldw_reified w).
  apply (decode_correct 32%nat optZ_eqb optZ_eqb_sound no_env None t32_ldw_table (LRet None) (proj1_sig ldw_reified) 400).
  - vm_compute. reflexivity.
  - exact Hw.
Qed.

Lemma dpr_reified : { t : tree (option Z) | forall w, eval t32_dpr_env None t w = dec_thumb_data_processing_register w }.
Proof. reify_opt dec_thumb_data_processing_register t32_dpr_env. Defined.
Theorem dec_thumb32_dpr_table w : 0 <= w < 2 ^ 32 ->
  dec_thumb_data_processing_register w = eval_leaf t32_dpr_env None (lookup t32_dpr_table (LRet None) w) w.
Proof.
  intros Hw. rewrite <- (proj2_sig dpr_reified w).
  apply (decode_correct 32%nat optZ_eqb optZ_eqb_sound t32_dpr_env None t32_dpr_table (LRet None) (proj1_sig dpr_reified) 400).
  - vm_compute. reflexivity.
  - exact Hw.
Qed.

Lemma mul_reified : { t : tree (option Z) | forall w, eval no_env None t w = dec_thumb_multiply_multiply_accumulate_and_absolute_difference w }.
Proof. reify_opt dec_thumb_multiply_multiply_accumulate_and_absolute_difference no_env. Defined.
Theorem dec_thumb32_mul_table w : 0 <= w < 2 ^ 32 ->
  dec_thumb_multiply_multiply_accumulate_and_absolute_difference w = eval_leaf no_env None (lookup t32_mul_table (LRet None) w) w.
Proof.
  intros Hw. rewrite <- (proj2_sig mul_reified w).
  apply (decode_correct 32%nat optZ_eqb optZ_eqb_sound no_env None t32_mul_table (LRet None) (proj1_sig mul_reified) 400).
  - vm_compute. reflexivity.
  - exact Hw.
Qed.

Lemma lmul_reified : { t : tree (option Z) | forall w, eval no_env None t w = dec_thumb_long_multiply_long_multiply_accumulate_and_divide w }.
Proof. reify_opt dec_thumb_long_multiply_long_multiply_accumulate_and_divide no_env. Defined.
Theorem dec_thumb32_lmul_table w : 0 <= w < 2 ^ 32 ->
  dec_thumb_long_multiply_long_multiply_accumulate_and_divide w = eval_leaf no_env None (lookup t32_lmul_table (LRet None) w) w.
Proof.
  intros Hw. rewrite <- (proj2_sig lmul_reified w).
  apply (decode_correct 32%nat optZ_eqb optZ_eqb_sound no_env None t32_lmul_table (LRet None) (proj1_sig lmul_reified) 400).
  - vm_compute. reflexivity.
  - exact Hw.
Qed.

Lemma ldh_reified : { t : tree (option Z) | forall w, eval no_env None t w = dec_thumb_load_halfword_memory_hints w }.
Proof. reify_opt dec_thumb_load_halfword_memory_hints no_env. Defined.
Theorem dec_thumb32_ldh_table w : 0 <= w < 2 ^ 32 -> in_domains w rt_not_pc ->
  dec_thumb_load_halfword_memory_hints w = eval_leaf no_env None (lookup t32_ldh_table (LRet None) w) w.
Proof.
  intros Hw [s [Hs Hd]]. rewrite <- (proj2_sig ldh_reified w).
  assert (G : forallb (fun s => check2 32%nat optZ_eqb t32_ldh_table (LRet None) 400 (proj1_sig ldh_reified) (cube_of 32%nat s)) rt_not_pc = true)
    by (vm_compute; reflexivity).
  rewrite forallb_forall in G. specialize (G s Hs).
  apply (decode_correct_cube 32%nat optZ_eqb optZ_eqb_sound no_env None t32_ldh_table (LRet None) (proj1_sig ldh_reified) 400 (cube_of 32%nat s) G).
  apply inc_cube_of; assumption.
Qed.

Definition no_env_res : list (Z -> res (option Z)) := [].
Lemma ldb_reified : { t : tree (res (option Z)) | forall w, eval no_env_res (Val None) t w = dec_thumb_load_byte_memory_hints w }.
Proof.
  eexists. intros w. unfold dec_thumb_load_byte_memory_hints. cbv zeta.
  match goal with |- eval _ _ ?T w = ?rhs => let e := eval unfold no_env_res in no_env_res in let t := reify_t (res (option Z)) w e rhs in unify T t end.
  reflexivity.
Defined.
Theorem dec_thumb32_ldb_table w : 0 <= w < 2 ^ 32 ->
  dec_thumb_load_byte_memory_hints w = eval_leaf no_env_res (Val None) (lookup t32_ldb_table (LRet (Val None)) w) w.
Proof.
  intros Hw. rewrite <- (proj2_sig ldb_reified w).
  apply (decode_correct 32%nat res_eqb res_eqb_sound no_env_res (Val None) t32_ldb_table (LRet (Val None)) (proj1_sig ldb_reified) 400).
  - vm_compute. reflexivity.
  - exact Hw.
Qed.

Lemma pas_reified : { t : tree (option Z) | forall w, eval no_env None t w = dec_thumb_parallel_addition_and_subtraction_signed w }.
Proof. reify_opt dec_thumb_parallel_addition_and_subtraction_signed no_env. Defined.
Theorem dec_thumb32_pas_table w : 0 <= w < 2 ^ 32 ->
  dec_thumb_parallel_addition_and_subtraction_signed w = eval_leaf no_env None (lookup t32_pas_table (LRet None) w) w.
Proof.
  intros Hw. rewrite <- (proj2_sig pas_reified w).
  apply (decode_correct 32%nat optZ_eqb optZ_eqb_sound no_env None t32_pas_table (LRet None) (proj1_sig pas_reified) 400).
  - vm_compute. reflexivity.
  - exact Hw.
Qed.

Lemma pau_reified : { t : tree (option Z) | forall w, eval no_env None t w = dec_thumb_parallel_addition_and_subtraction_unsigned w }.
Proof. reify_opt dec_thumb_parallel_addition_and_subtraction_unsigned no_env. Defined.
Theorem dec_thumb32_pau_table w : 0 <= w < 2 ^ 32 ->
  dec_thumb_parallel_addition_and_subtraction_unsigned w = eval_leaf no_env None (lookup t32_pau_table (LRet None) w) w.
Proof.
  intros Hw. rewrite <- (proj2_sig pau_reified w).
  apply (decode_correct 32%nat optZ_eqb optZ_eqb_sound no_env None t32_pau_table (LRet None) (proj1_sig pau_reified) 400).
  - vm_compute. reflexivity.
  - exact Hw.
Qed.

Lemma misc_reified : { t : tree (option Z) | forall w, eval no_env None t w = dec_thumb_miscellaneous_operations w }.
Proof. reify_opt dec_thumb_miscellaneous_operations no_env. Defined.
Theorem dec_thumb32_misc_table w : 0 <= w < 2 ^ 32 ->
  dec_thumb_miscellaneous_operations w = eval_leaf no_env None (lookup t32_misc_table (LRet None) w) w.
Proof.
  intros Hw. rewrite <- (proj2_sig misc_reified w).
  apply (decode_correct 32%nat optZ_eqb optZ_eqb_sound no_env None t32_misc_table (LRet None) (proj1_sig misc_reified) 400).
  - vm_compute. reflexivity.
  - exact Hw.
Qed.

Lemma bmc_reified : { t : tree (res (option Z)) | forall w, eval t32_bmc_env (Val None) t w = dec_thumb_branches_and_miscellaneous_control w }.
Proof.
  eexists. intros w. unfold dec_thumb_branches_and_miscellaneous_control. cbv zeta.
  match goal with |- eval _ _ ?T w = ?rhs => let e := eval unfold t32_bmc_env in t32_bmc_env in let t := reify_t (res (option Z)) w e rhs in unify T t end.
  reflexivity.
Defined.
Theorem dec_thumb32_bmc_table w : 0 <= w < 2 ^ 32 ->
  dec_thumb_branches_and_miscellaneous_control w = eval_leaf t32_bmc_env (Val None) (lookup t32_bmc_table (LRet (Val None)) w) w.
Proof.
  intros Hw. rewrite <- (proj2_sig bmc_reified w).
  apply (decode_correct 32%nat res_eqb res_eqb_sound t32_bmc_env (Val None) t32_bmc_table (LRet (Val None)) (proj1_sig bmc_reified) 400).
  - vm_compute. reflexivity.
  - exact Hw.
Qed.

Lemma cps_reified : { t : tree (res (option Z)) | forall w, eval no_env_res (Val None) t w = dec_thumb_change_processor_state_and_hints w }.
Proof.
  eexists. intros w. unfold dec_thumb_change_processor_state_and_hints. cbv zeta.
  match goal with |- eval _ _ ?T w = ?rhs => let e := eval unfold no_env_res in no_env_res in let t := reify_t (res (option Z)) w e rhs in unify T t end.
  reflexivity.
Defined.
Theorem dec_thumb32_cps_table w : 0 <= w < 2 ^ 32 ->
  dec_thumb_change_processor_state_and_hints w = eval_leaf no_env_res (Val None) (lookup t32_cps_table (LRet (Val None)) w) w.
Proof.
  intros Hw. rewrite <- (proj2_sig cps_reified w).
  apply (decode_correct 32%nat res_eqb res_eqb_sound no_env_res (Val None) t32_cps_table (LRet (Val None)) (proj1_sig cps_reified) 400).
  - vm_compute. reflexivity.
  - exact Hw.
Qed.

Lemma mctl_reified : { t : tree (res (option Z)) | forall w, eval no_env_res (Val None) t w = dec_thumb_miscellaneous_control_instructions w }.
Proof.
  eexists. intros w. unfold dec_thumb_miscellaneous_control_instructions. cbv zeta.
  match goal with |- eval _ _ ?T w = ?rhs => let e := eval unfold no_env_res in no_env_res in let t := reify_t (res (option Z)) w e rhs in unify T t end.
  reflexivity.
Defined.
Theorem dec_thumb32_mctl_table w : 0 <= w < 2 ^ 32 ->
  dec_thumb_miscellaneous_control_instructions w = eval_leaf no_env_res (Val None) (lookup t32_mctl_table (LRet (Val None)) w) w.
Proof.
  intros Hw. rewrite <- (proj2_sig mctl_reified w).
  apply (decode_correct 32%nat res_eqb res_eqb_sound no_env_res (Val None) t32_mctl_table (LRet (Val None)) (proj1_sig mctl_reified) 400).
  - vm_compute. reflexivity.
  - exact Hw.
Qed.

Lemma t32cop_reified : { t : tree (res (option Z)) | forall w, eval no_env_res (Val None) t w = dec_thumb_coprocessor_advanced_simd_and_floating_point_instructions w }.
Proof.
  eexists. intros w. unfold dec_thumb_coprocessor_advanced_simd_and_floating_point_instructions. cbv zeta.
  match goal with |- eval _ _ ?T w = ?rhs => let e := eval unfold no_env_res in no_env_res in let t := reify_t (res (option Z)) w e rhs in unify T t end.
  reflexivity.
Defined.
Theorem dec_thumb32_cop_table w : 0 <= w < 2 ^ 32 ->
  dec_thumb_coprocessor_advanced_simd_and_floating_point_instructions w = eval_leaf no_env_res (Val None) (lookup t32_cop_table (LRet (Val None)) w) w.
Proof.
  intros Hw. rewrite <- (proj2_sig t32cop_reified w).
  apply (decode_correct 32%nat res_eqb res_eqb_sound no_env_res (Val None) t32_cop_table (LRet (Val None)) (proj1_sig t32cop_reified) 400).
  - vm_compute. reflexivity.
  - exact Hw.
Qed.
