(* Proofs/StepInstancesThumb2Reg.v — GENERATED text (one block per encoding, same script): the 32-bit Thumb data-processing
   (shifted register) encodings with a destination end to end — AND, BIC, ORR, ORN, EOR, ADD, ADC, SBC, SUB, RSB <Rd>, <Rn>, <Rm>{, <shift>}
   (11101 01 op S Rn : (0) imm3 Rd imm2 type Rm), for every word of the encoding (the three registers in r0-r12 and pairwise
   different), in any IT position. *)
Set Default Timeout 240.
From Coq Require Import ZArith List Bool Lia ZifyBool.
From ArmV Require Import Lib.PyZ Lib.Monad Lib.Machine Spec.Pseudocode Spec.Arch Spec.MachineView Spec.Branches Spec.StepFrame
  Spec.OperandSpec Spec.DPSem
  Proofs.SpecFacts Proofs.StateLemmas Proofs.CondProofs Proofs.GuardProofs Proofs.BankProofs Proofs.MachineOps Proofs.DPLemmas
  Proofs.DPClasses0 Proofs.DPClasses1 Proofs.DPClasses2 Proofs.DPClasses3 Proofs.DPClasses4 Proofs.DPClasses5 Proofs.DPClasses6 Proofs.DPClasses7
  Proofs.StepProofs Proofs.StepDP Proofs.DPRange Proofs.StepDPReg Proofs.StepInstances Proofs.StepInstancesThumb2 Proofs.OpTac
  Proofs.OpsT0 Proofs.OpsT1 Proofs.OpsT2 Proofs.OpsT3 Proofs.OpsT4 Proofs.OpsT5 Proofs.OpsT6 Proofs.OpsT7.
From Gen Require Import enums bits_ops shift regviews records hubm opsyn core exec conc decoders step.
Import ListNotations.
Open Scope Z_scope.
Ltac Zify.zify_post_hook ::= Z.to_euclidean_division_equations.

Definition is_dp_sr_t32 (o24 o23 o22 o21 w : Z) : Prop :=
  bit w 31 = 1 /\ bit w 30 = 1 /\ bit w 29 = 1 /\ bit w 28 = 0 /\ bit w 27 = 1 /\ bit w 26 = 0 /\ bit w 25 = 1 /\
  bit w 24 = o24 /\ bit w 23 = o23 /\ bit w 22 = o22 /\ bit w 21 = o21 /\ regs13 [bits w 19 16; bits w 11 8; bits w 3 0] = true.

(* ================= AndRegisterT2 ================= *)
Lemma decode_AndRegisterT2 w s : 0 <= w < 2 ^ 32 -> is_dp_sr_t32 0 0 0 0 w -> iset_of s = 1 -> opcode_len s = 32 ->
  ArmV6_decode_instruction w s = Ok (Some enc_AndRegisterT2) s.
Proof.
  intros Hw (H31 & H30 & H29 & H28 & H27 & H26 & H25 & H24 & H23 & H22 & H21 & Hr) Hi Hl. split_regs. dec_t32 w Hi Hl.
  assert (D : dec_thumb_instruction_set_encoding_32_bit w = Val (Some enc_AndRegisterT2)).
  { dec_step dec_thumb_instruction_set_encoding_32_bit. pose_expand w 28 27. pose_expand w 26 25. ops_if.
    dec_step dec_thumb_data_processing_shifted_register. pose_expand w 24 21. ops_if. reflexivity. }
  unfold lift. rewrite D. rewrite ?Hl. reflexivity.
Qed.
Lemma from_bitarray_AndRegisterT2 cfg w s : 0 <= w < 2 ^ 32 -> is_dp_sr_t32 0 0 0 0 w ->
  from_bitarray_dispatch cfg enc_AndRegisterT2 w s = Ok (Some (code_AndRegister, [w; bit w 20; bits w 3 0; bits w 11 8; bits w 19 16; fst (DecodeImmShift (bits w 5 4) (imm5t w)); snd (DecodeImmShift (bits w 5 4) (imm5t w))])) s.
Proof.
  intros Hw (_ & _ & _ & _ & _ & _ & _ & _ & _ & _ & _ & Hr).
  pose proof (ops_AndRegisterT2 w s Hw Hr) as H. unfold fb_out, fb_plain, fb_opt, fb_res, fb_res_opt, fb_m, fb_m_opt in H.
  unfold from_bitarray_dispatch, enc_AndRegisterT2. cbv iota. unfold bind, ret, lift in *.
  repeat match goal with
  | H : match ?x with _ => _ end = _ |- context[?x] => destruct x; try discriminate H
  end.
  inversion H. first [reflexivity | match goal with E : _ = Some _ |- _ => rewrite E end; reflexivity].
Qed.
Theorem andRegisterT2_step cfg s w s1 :
  ArmV6_fetch_instruction cfg s = Ok w s1 ->
  0 <= w < 2 ^ 32 -> is_dp_sr_t32 0 0 0 0 w -> iset_of s1 = 1 -> opcode_len s1 = 32 -> ictx cfg s1 -> cond_holds s1 ->
  let d := bits w 11 8 in let n := bits w 19 16 in let m := bits w 3 0 in
  let sh := DecodeImmShift (bits w 5 4) (imm5t w) in
  let op := (code_AndRegister, [w; bit w 20; m; d; n; fst sh; snd sh]) in
  exists s2,
    dp_sem cfg AND (bit w 20) (Some d) n (Op2Reg m (fst sh) (snd sh)) (begin_instr s1 op) = Ok tt s2 /\
    ArmV6_emulate_cycle cfg s = Ok tt (AdvancePC (it_step_after s1 s2)) /\
    pc_of (AdvancePC (it_step_after s1 s2)) = add32 (pc_of s1) 4.
Proof.
  intros Hf Hw Hcube Hi Hl Hctx Hcond. pose_all_ranges. intros d n m sh op.
  pose proof Hcube as (_ & _ & _ & _ & _ & _ & _ & _ & _ & _ & _ & Hr). split_regs.
  assert (Qd : 0 <= d <= 14) by (unfold d; lia). assert (Qn : 0 <= n <= 15) by (unfold n; lia). assert (Qm : 0 <= m <= 15) by (unfold m; lia).
  pose proof (imm5t_range w) as R5.
  assert (Hsh : valid_shift (fst sh) (snd sh)) by (unfold sh; apply DecodeImmShift_valid; lia).
  destruct (dp_step cfg s w s1 enc_AndRegisterT2 op AND (bit w 20) d n (Op2Reg m (fst sh) (snd sh)) Hf) as (s2 & A & B & C); try assumption.
  - apply decode_AndRegisterT2; assumption.
  - apply from_bitarray_AndRegisterT2; assumption.
  - change (execute_dispatch cfg op (begin_instr s1 op)) with (AndRegister_execute cfg w (bit w 20) m d n (fst sh) (snd sh) (begin_instr s1 op)).
    apply AndRegister_sem; try lia; try exact Hsh; [apply ictx_begin; exact Hctx|apply cond_holds_begin; exact Hcond].
  - split; assumption.
  - exists s2. split; [exact A|]. split; [exact B|]. rewrite C, Hl. reflexivity.
Qed.

(* ================= BicRegisterT2 ================= *)
Lemma decode_BicRegisterT2 w s : 0 <= w < 2 ^ 32 -> is_dp_sr_t32 0 0 0 1 w -> iset_of s = 1 -> opcode_len s = 32 ->
  ArmV6_decode_instruction w s = Ok (Some enc_BicRegisterT2) s.
Proof.
  intros Hw (H31 & H30 & H29 & H28 & H27 & H26 & H25 & H24 & H23 & H22 & H21 & Hr) Hi Hl. split_regs. dec_t32 w Hi Hl.
  assert (D : dec_thumb_instruction_set_encoding_32_bit w = Val (Some enc_BicRegisterT2)).
  { dec_step dec_thumb_instruction_set_encoding_32_bit. pose_expand w 28 27. pose_expand w 26 25. ops_if.
    dec_step dec_thumb_data_processing_shifted_register. pose_expand w 24 21. ops_if. reflexivity. }
  unfold lift. rewrite D. rewrite ?Hl. reflexivity.
Qed.
Lemma from_bitarray_BicRegisterT2 cfg w s : 0 <= w < 2 ^ 32 -> is_dp_sr_t32 0 0 0 1 w ->
  from_bitarray_dispatch cfg enc_BicRegisterT2 w s = Ok (Some (code_BicRegister, [w; bit w 20; bits w 3 0; bits w 11 8; bits w 19 16; fst (DecodeImmShift (bits w 5 4) (imm5t w)); snd (DecodeImmShift (bits w 5 4) (imm5t w))])) s.
Proof.
  intros Hw (_ & _ & _ & _ & _ & _ & _ & _ & _ & _ & _ & Hr).
  pose proof (ops_BicRegisterT2 w s Hw Hr) as H. unfold fb_out, fb_plain, fb_opt, fb_res, fb_res_opt, fb_m, fb_m_opt in H.
  unfold from_bitarray_dispatch, enc_BicRegisterT2. cbv iota. unfold bind, ret, lift in *.
  repeat match goal with
  | H : match ?x with _ => _ end = _ |- context[?x] => destruct x; try discriminate H
  end.
  inversion H. first [reflexivity | match goal with E : _ = Some _ |- _ => rewrite E end; reflexivity].
Qed.
Theorem bicRegisterT2_step cfg s w s1 :
  ArmV6_fetch_instruction cfg s = Ok w s1 ->
  0 <= w < 2 ^ 32 -> is_dp_sr_t32 0 0 0 1 w -> iset_of s1 = 1 -> opcode_len s1 = 32 -> ictx cfg s1 -> cond_holds s1 ->
  let d := bits w 11 8 in let n := bits w 19 16 in let m := bits w 3 0 in
  let sh := DecodeImmShift (bits w 5 4) (imm5t w) in
  let op := (code_BicRegister, [w; bit w 20; m; d; n; fst sh; snd sh]) in
  exists s2,
    dp_sem cfg BIC (bit w 20) (Some d) n (Op2Reg m (fst sh) (snd sh)) (begin_instr s1 op) = Ok tt s2 /\
    ArmV6_emulate_cycle cfg s = Ok tt (AdvancePC (it_step_after s1 s2)) /\
    pc_of (AdvancePC (it_step_after s1 s2)) = add32 (pc_of s1) 4.
Proof.
  intros Hf Hw Hcube Hi Hl Hctx Hcond. pose_all_ranges. intros d n m sh op.
  pose proof Hcube as (_ & _ & _ & _ & _ & _ & _ & _ & _ & _ & _ & Hr). split_regs.
  assert (Qd : 0 <= d <= 14) by (unfold d; lia). assert (Qn : 0 <= n <= 15) by (unfold n; lia). assert (Qm : 0 <= m <= 15) by (unfold m; lia).
  pose proof (imm5t_range w) as R5.
  assert (Hsh : valid_shift (fst sh) (snd sh)) by (unfold sh; apply DecodeImmShift_valid; lia).
  destruct (dp_step cfg s w s1 enc_BicRegisterT2 op BIC (bit w 20) d n (Op2Reg m (fst sh) (snd sh)) Hf) as (s2 & A & B & C); try assumption.
  - apply decode_BicRegisterT2; assumption.
  - apply from_bitarray_BicRegisterT2; assumption.
  - change (execute_dispatch cfg op (begin_instr s1 op)) with (BicRegister_execute cfg w (bit w 20) m d n (fst sh) (snd sh) (begin_instr s1 op)).
    apply BicRegister_sem; try lia; try exact Hsh; [apply ictx_begin; exact Hctx|apply cond_holds_begin; exact Hcond].
  - split; assumption.
  - exists s2. split; [exact A|]. split; [exact B|]. rewrite C, Hl. reflexivity.
Qed.

(* ================= OrrRegisterT2 ================= *)
Lemma decode_OrrRegisterT2 w s : 0 <= w < 2 ^ 32 -> is_dp_sr_t32 0 0 1 0 w -> iset_of s = 1 -> opcode_len s = 32 ->
  ArmV6_decode_instruction w s = Ok (Some enc_OrrRegisterT2) s.
Proof.
  intros Hw (H31 & H30 & H29 & H28 & H27 & H26 & H25 & H24 & H23 & H22 & H21 & Hr) Hi Hl. split_regs. dec_t32 w Hi Hl.
  assert (D : dec_thumb_instruction_set_encoding_32_bit w = Val (Some enc_OrrRegisterT2)).
  { dec_step dec_thumb_instruction_set_encoding_32_bit. pose_expand w 28 27. pose_expand w 26 25. ops_if.
    dec_step dec_thumb_data_processing_shifted_register. pose_expand w 24 21. ops_if. reflexivity. }
  unfold lift. rewrite D. rewrite ?Hl. reflexivity.
Qed.
Lemma from_bitarray_OrrRegisterT2 cfg w s : 0 <= w < 2 ^ 32 -> is_dp_sr_t32 0 0 1 0 w ->
  from_bitarray_dispatch cfg enc_OrrRegisterT2 w s = Ok (Some (code_OrrRegister, [w; bit w 20; bits w 3 0; bits w 11 8; bits w 19 16; fst (DecodeImmShift (bits w 5 4) (imm5t w)); snd (DecodeImmShift (bits w 5 4) (imm5t w))])) s.
Proof.
  intros Hw (_ & _ & _ & _ & _ & _ & _ & _ & _ & _ & _ & Hr).
  pose proof (ops_OrrRegisterT2 w s Hw Hr) as H. unfold fb_out, fb_plain, fb_opt, fb_res, fb_res_opt, fb_m, fb_m_opt in H.
  unfold from_bitarray_dispatch, enc_OrrRegisterT2. cbv iota. unfold bind, ret, lift in *.
  repeat match goal with
  | H : match ?x with _ => _ end = _ |- context[?x] => destruct x; try discriminate H
  end.
  inversion H. first [reflexivity | match goal with E : _ = Some _ |- _ => rewrite E end; reflexivity].
Qed.
Theorem orrRegisterT2_step cfg s w s1 :
  ArmV6_fetch_instruction cfg s = Ok w s1 ->
  0 <= w < 2 ^ 32 -> is_dp_sr_t32 0 0 1 0 w -> iset_of s1 = 1 -> opcode_len s1 = 32 -> ictx cfg s1 -> cond_holds s1 ->
  let d := bits w 11 8 in let n := bits w 19 16 in let m := bits w 3 0 in
  let sh := DecodeImmShift (bits w 5 4) (imm5t w) in
  let op := (code_OrrRegister, [w; bit w 20; m; d; n; fst sh; snd sh]) in
  exists s2,
    dp_sem cfg ORR (bit w 20) (Some d) n (Op2Reg m (fst sh) (snd sh)) (begin_instr s1 op) = Ok tt s2 /\
    ArmV6_emulate_cycle cfg s = Ok tt (AdvancePC (it_step_after s1 s2)) /\
    pc_of (AdvancePC (it_step_after s1 s2)) = add32 (pc_of s1) 4.
Proof.
  intros Hf Hw Hcube Hi Hl Hctx Hcond. pose_all_ranges. intros d n m sh op.
  pose proof Hcube as (_ & _ & _ & _ & _ & _ & _ & _ & _ & _ & _ & Hr). split_regs.
  assert (Qd : 0 <= d <= 14) by (unfold d; lia). assert (Qn : 0 <= n <= 15) by (unfold n; lia). assert (Qm : 0 <= m <= 15) by (unfold m; lia).
  pose proof (imm5t_range w) as R5.
  assert (Hsh : valid_shift (fst sh) (snd sh)) by (unfold sh; apply DecodeImmShift_valid; lia).
  destruct (dp_step cfg s w s1 enc_OrrRegisterT2 op ORR (bit w 20) d n (Op2Reg m (fst sh) (snd sh)) Hf) as (s2 & A & B & C); try assumption.
  - apply decode_OrrRegisterT2; assumption.
  - apply from_bitarray_OrrRegisterT2; assumption.
  - change (execute_dispatch cfg op (begin_instr s1 op)) with (OrrRegister_execute cfg w (bit w 20) m d n (fst sh) (snd sh) (begin_instr s1 op)).
    apply OrrRegister_sem; try lia; try exact Hsh; [apply ictx_begin; exact Hctx|apply cond_holds_begin; exact Hcond].
  - split; assumption.
  - exists s2. split; [exact A|]. split; [exact B|]. rewrite C, Hl. reflexivity.
Qed.

(* ================= OrnRegisterT1 ================= *)
Lemma decode_OrnRegisterT1 w s : 0 <= w < 2 ^ 32 -> is_dp_sr_t32 0 0 1 1 w -> iset_of s = 1 -> opcode_len s = 32 ->
  ArmV6_decode_instruction w s = Ok (Some enc_OrnRegisterT1) s.
Proof.
  intros Hw (H31 & H30 & H29 & H28 & H27 & H26 & H25 & H24 & H23 & H22 & H21 & Hr) Hi Hl. split_regs. dec_t32 w Hi Hl.
  assert (D : dec_thumb_instruction_set_encoding_32_bit w = Val (Some enc_OrnRegisterT1)).
  { dec_step dec_thumb_instruction_set_encoding_32_bit. pose_expand w 28 27. pose_expand w 26 25. ops_if.
    dec_step dec_thumb_data_processing_shifted_register. pose_expand w 24 21. ops_if. reflexivity. }
  unfold lift. rewrite D. rewrite ?Hl. reflexivity.
Qed.
Lemma from_bitarray_OrnRegisterT1 cfg w s : 0 <= w < 2 ^ 32 -> is_dp_sr_t32 0 0 1 1 w ->
  from_bitarray_dispatch cfg enc_OrnRegisterT1 w s = Ok (Some (code_OrnRegister, [w; bit w 20; bits w 3 0; bits w 11 8; bits w 19 16; fst (DecodeImmShift (bits w 5 4) (imm5t w)); snd (DecodeImmShift (bits w 5 4) (imm5t w))])) s.
Proof.
  intros Hw (_ & _ & _ & _ & _ & _ & _ & _ & _ & _ & _ & Hr).
  pose proof (ops_OrnRegisterT1 w s Hw Hr) as H. unfold fb_out, fb_plain, fb_opt, fb_res, fb_res_opt, fb_m, fb_m_opt in H.
  unfold from_bitarray_dispatch, enc_OrnRegisterT1. cbv iota. unfold bind, ret, lift in *.
  repeat match goal with
  | H : match ?x with _ => _ end = _ |- context[?x] => destruct x; try discriminate H
  end.
  inversion H. first [reflexivity | match goal with E : _ = Some _ |- _ => rewrite E end; reflexivity].
Qed.
Theorem ornRegisterT1_step cfg s w s1 :
  ArmV6_fetch_instruction cfg s = Ok w s1 ->
  0 <= w < 2 ^ 32 -> is_dp_sr_t32 0 0 1 1 w -> iset_of s1 = 1 -> opcode_len s1 = 32 -> ictx cfg s1 -> cond_holds s1 ->
  let d := bits w 11 8 in let n := bits w 19 16 in let m := bits w 3 0 in
  let sh := DecodeImmShift (bits w 5 4) (imm5t w) in
  let op := (code_OrnRegister, [w; bit w 20; m; d; n; fst sh; snd sh]) in
  exists s2,
    dp_sem cfg ORN (bit w 20) (Some d) n (Op2Reg m (fst sh) (snd sh)) (begin_instr s1 op) = Ok tt s2 /\
    ArmV6_emulate_cycle cfg s = Ok tt (AdvancePC (it_step_after s1 s2)) /\
    pc_of (AdvancePC (it_step_after s1 s2)) = add32 (pc_of s1) 4.
Proof.
  intros Hf Hw Hcube Hi Hl Hctx Hcond. pose_all_ranges. intros d n m sh op.
  pose proof Hcube as (_ & _ & _ & _ & _ & _ & _ & _ & _ & _ & _ & Hr). split_regs.
  assert (Qd : 0 <= d <= 14) by (unfold d; lia). assert (Qn : 0 <= n <= 15) by (unfold n; lia). assert (Qm : 0 <= m <= 15) by (unfold m; lia).
  pose proof (imm5t_range w) as R5.
  assert (Hsh : valid_shift (fst sh) (snd sh)) by (unfold sh; apply DecodeImmShift_valid; lia).
  destruct (dp_step cfg s w s1 enc_OrnRegisterT1 op ORN (bit w 20) d n (Op2Reg m (fst sh) (snd sh)) Hf) as (s2 & A & B & C); try assumption.
  - apply decode_OrnRegisterT1; assumption.
  - apply from_bitarray_OrnRegisterT1; assumption.
  - change (execute_dispatch cfg op (begin_instr s1 op)) with (OrnRegister_execute cfg w (bit w 20) m d n (fst sh) (snd sh) (begin_instr s1 op)).
    apply OrnRegister_sem; try lia; try exact Hsh; [apply ictx_begin; exact Hctx|apply cond_holds_begin; exact Hcond].
  - split; assumption.
  - exists s2. split; [exact A|]. split; [exact B|]. rewrite C, Hl. reflexivity.
Qed.

(* ================= EorRegisterT2 ================= *)
Lemma decode_EorRegisterT2 w s : 0 <= w < 2 ^ 32 -> is_dp_sr_t32 0 1 0 0 w -> iset_of s = 1 -> opcode_len s = 32 ->
  ArmV6_decode_instruction w s = Ok (Some enc_EorRegisterT2) s.
Proof.
  intros Hw (H31 & H30 & H29 & H28 & H27 & H26 & H25 & H24 & H23 & H22 & H21 & Hr) Hi Hl. split_regs. dec_t32 w Hi Hl.
  assert (D : dec_thumb_instruction_set_encoding_32_bit w = Val (Some enc_EorRegisterT2)).
  { dec_step dec_thumb_instruction_set_encoding_32_bit. pose_expand w 28 27. pose_expand w 26 25. ops_if.
    dec_step dec_thumb_data_processing_shifted_register. pose_expand w 24 21. ops_if. reflexivity. }
  unfold lift. rewrite D. rewrite ?Hl. reflexivity.
Qed.
Lemma from_bitarray_EorRegisterT2 cfg w s : 0 <= w < 2 ^ 32 -> is_dp_sr_t32 0 1 0 0 w ->
  from_bitarray_dispatch cfg enc_EorRegisterT2 w s = Ok (Some (code_EorRegister, [w; bit w 20; bits w 3 0; bits w 11 8; bits w 19 16; fst (DecodeImmShift (bits w 5 4) (imm5t w)); snd (DecodeImmShift (bits w 5 4) (imm5t w))])) s.
Proof.
  intros Hw (_ & _ & _ & _ & _ & _ & _ & _ & _ & _ & _ & Hr).
  pose proof (ops_EorRegisterT2 w s Hw Hr) as H. unfold fb_out, fb_plain, fb_opt, fb_res, fb_res_opt, fb_m, fb_m_opt in H.
  unfold from_bitarray_dispatch, enc_EorRegisterT2. cbv iota. unfold bind, ret, lift in *.
  repeat match goal with
  | H : match ?x with _ => _ end = _ |- context[?x] => destruct x; try discriminate H
  end.
  inversion H. first [reflexivity | match goal with E : _ = Some _ |- _ => rewrite E end; reflexivity].
Qed.
Theorem eorRegisterT2_step cfg s w s1 :
  ArmV6_fetch_instruction cfg s = Ok w s1 ->
  0 <= w < 2 ^ 32 -> is_dp_sr_t32 0 1 0 0 w -> iset_of s1 = 1 -> opcode_len s1 = 32 -> ictx cfg s1 -> cond_holds s1 ->
  let d := bits w 11 8 in let n := bits w 19 16 in let m := bits w 3 0 in
  let sh := DecodeImmShift (bits w 5 4) (imm5t w) in
  let op := (code_EorRegister, [w; bit w 20; m; d; n; fst sh; snd sh]) in
  exists s2,
    dp_sem cfg EOR (bit w 20) (Some d) n (Op2Reg m (fst sh) (snd sh)) (begin_instr s1 op) = Ok tt s2 /\
    ArmV6_emulate_cycle cfg s = Ok tt (AdvancePC (it_step_after s1 s2)) /\
    pc_of (AdvancePC (it_step_after s1 s2)) = add32 (pc_of s1) 4.
Proof.
  intros Hf Hw Hcube Hi Hl Hctx Hcond. pose_all_ranges. intros d n m sh op.
  pose proof Hcube as (_ & _ & _ & _ & _ & _ & _ & _ & _ & _ & _ & Hr). split_regs.
  assert (Qd : 0 <= d <= 14) by (unfold d; lia). assert (Qn : 0 <= n <= 15) by (unfold n; lia). assert (Qm : 0 <= m <= 15) by (unfold m; lia).
  pose proof (imm5t_range w) as R5.
  assert (Hsh : valid_shift (fst sh) (snd sh)) by (unfold sh; apply DecodeImmShift_valid; lia).
  destruct (dp_step cfg s w s1 enc_EorRegisterT2 op EOR (bit w 20) d n (Op2Reg m (fst sh) (snd sh)) Hf) as (s2 & A & B & C); try assumption.
  - apply decode_EorRegisterT2; assumption.
  - apply from_bitarray_EorRegisterT2; assumption.
  - change (execute_dispatch cfg op (begin_instr s1 op)) with (EorRegister_execute cfg w (bit w 20) m d n (fst sh) (snd sh) (begin_instr s1 op)).
    apply EorRegister_sem; try lia; try exact Hsh; [apply ictx_begin; exact Hctx|apply cond_holds_begin; exact Hcond].
  - split; assumption.
  - exists s2. split; [exact A|]. split; [exact B|]. rewrite C, Hl. reflexivity.
Qed.

(* ================= AddRegisterThumbT3 ================= *)
Lemma decode_AddRegisterThumbT3 w s : 0 <= w < 2 ^ 32 -> is_dp_sr_t32 1 0 0 0 w -> iset_of s = 1 -> opcode_len s = 32 ->
  ArmV6_decode_instruction w s = Ok (Some enc_AddRegisterThumbT3) s.
Proof.
  intros Hw (H31 & H30 & H29 & H28 & H27 & H26 & H25 & H24 & H23 & H22 & H21 & Hr) Hi Hl. split_regs. dec_t32 w Hi Hl.
  assert (D : dec_thumb_instruction_set_encoding_32_bit w = Val (Some enc_AddRegisterThumbT3)).
  { dec_step dec_thumb_instruction_set_encoding_32_bit. pose_expand w 28 27. pose_expand w 26 25. ops_if.
    dec_step dec_thumb_data_processing_shifted_register. pose_expand w 24 21. ops_if. reflexivity. }
  unfold lift. rewrite D. rewrite ?Hl. reflexivity.
Qed.
Lemma from_bitarray_AddRegisterThumbT3 cfg w s : 0 <= w < 2 ^ 32 -> is_dp_sr_t32 1 0 0 0 w ->
  from_bitarray_dispatch cfg enc_AddRegisterThumbT3 w s = Ok (Some (code_AddRegisterThumb, [w; bit w 20; bits w 3 0; bits w 11 8; bits w 19 16; fst (DecodeImmShift (bits w 5 4) (imm5t w)); snd (DecodeImmShift (bits w 5 4) (imm5t w))])) s.
Proof.
  intros Hw (_ & _ & _ & _ & _ & _ & _ & _ & _ & _ & _ & Hr).
  pose proof (ops_AddRegisterThumbT3 w s Hw Hr) as H. unfold fb_out, fb_plain, fb_opt, fb_res, fb_res_opt, fb_m, fb_m_opt in H.
  unfold from_bitarray_dispatch, enc_AddRegisterThumbT3. cbv iota. unfold bind, ret, lift in *.
  repeat match goal with
  | H : match ?x with _ => _ end = _ |- context[?x] => destruct x; try discriminate H
  end.
  inversion H. first [reflexivity | match goal with E : _ = Some _ |- _ => rewrite E end; reflexivity].
Qed.
Theorem addRegisterThumbT3_step cfg s w s1 :
  ArmV6_fetch_instruction cfg s = Ok w s1 ->
  0 <= w < 2 ^ 32 -> is_dp_sr_t32 1 0 0 0 w -> iset_of s1 = 1 -> opcode_len s1 = 32 -> ictx cfg s1 -> cond_holds s1 ->
  let d := bits w 11 8 in let n := bits w 19 16 in let m := bits w 3 0 in
  let sh := DecodeImmShift (bits w 5 4) (imm5t w) in
  let op := (code_AddRegisterThumb, [w; bit w 20; m; d; n; fst sh; snd sh]) in
  exists s2,
    dp_sem cfg ADD (bit w 20) (Some d) n (Op2Reg m (fst sh) (snd sh)) (begin_instr s1 op) = Ok tt s2 /\
    ArmV6_emulate_cycle cfg s = Ok tt (AdvancePC (it_step_after s1 s2)) /\
    pc_of (AdvancePC (it_step_after s1 s2)) = add32 (pc_of s1) 4.
Proof.
  intros Hf Hw Hcube Hi Hl Hctx Hcond. pose_all_ranges. intros d n m sh op.
  pose proof Hcube as (_ & _ & _ & _ & _ & _ & _ & _ & _ & _ & _ & Hr). split_regs.
  assert (Qd : 0 <= d <= 14) by (unfold d; lia). assert (Qn : 0 <= n <= 15) by (unfold n; lia). assert (Qm : 0 <= m <= 15) by (unfold m; lia).
  pose proof (imm5t_range w) as R5.
  assert (Hsh : valid_shift (fst sh) (snd sh)) by (unfold sh; apply DecodeImmShift_valid; lia).
  destruct (dp_step cfg s w s1 enc_AddRegisterThumbT3 op ADD (bit w 20) d n (Op2Reg m (fst sh) (snd sh)) Hf) as (s2 & A & B & C); try assumption.
  - apply decode_AddRegisterThumbT3; assumption.
  - apply from_bitarray_AddRegisterThumbT3; assumption.
  - change (execute_dispatch cfg op (begin_instr s1 op)) with (AddRegisterThumb_execute cfg w (bit w 20) m d n (fst sh) (snd sh) (begin_instr s1 op)).
    apply AddRegisterThumb_sem; try lia; try exact Hsh; [apply ictx_begin; exact Hctx|apply cond_holds_begin; exact Hcond].
  - split; assumption.
  - exists s2. split; [exact A|]. split; [exact B|]. rewrite C, Hl. reflexivity.
Qed.

(* ================= AdcRegisterT2 ================= *)
Lemma decode_AdcRegisterT2 w s : 0 <= w < 2 ^ 32 -> is_dp_sr_t32 1 0 1 0 w -> iset_of s = 1 -> opcode_len s = 32 ->
  ArmV6_decode_instruction w s = Ok (Some enc_AdcRegisterT2) s.
Proof.
  intros Hw (H31 & H30 & H29 & H28 & H27 & H26 & H25 & H24 & H23 & H22 & H21 & Hr) Hi Hl. split_regs. dec_t32 w Hi Hl.
  assert (D : dec_thumb_instruction_set_encoding_32_bit w = Val (Some enc_AdcRegisterT2)).
  { dec_step dec_thumb_instruction_set_encoding_32_bit. pose_expand w 28 27. pose_expand w 26 25. ops_if.
    dec_step dec_thumb_data_processing_shifted_register. pose_expand w 24 21. ops_if. reflexivity. }
  unfold lift. rewrite D. rewrite ?Hl. reflexivity.
Qed.
Lemma from_bitarray_AdcRegisterT2 cfg w s : 0 <= w < 2 ^ 32 -> is_dp_sr_t32 1 0 1 0 w ->
  from_bitarray_dispatch cfg enc_AdcRegisterT2 w s = Ok (Some (code_AdcRegister, [w; bit w 20; bits w 3 0; bits w 11 8; bits w 19 16; fst (DecodeImmShift (bits w 5 4) (imm5t w)); snd (DecodeImmShift (bits w 5 4) (imm5t w))])) s.
Proof.
  intros Hw (_ & _ & _ & _ & _ & _ & _ & _ & _ & _ & _ & Hr).
  pose proof (ops_AdcRegisterT2 w s Hw Hr) as H. unfold fb_out, fb_plain, fb_opt, fb_res, fb_res_opt, fb_m, fb_m_opt in H.
  unfold from_bitarray_dispatch, enc_AdcRegisterT2. cbv iota. unfold bind, ret, lift in *.
  repeat match goal with
  | H : match ?x with _ => _ end = _ |- context[?x] => destruct x; try discriminate H
  end.
  inversion H. first [reflexivity | match goal with E : _ = Some _ |- _ => rewrite E end; reflexivity].
Qed.
Theorem adcRegisterT2_step cfg s w s1 :
  ArmV6_fetch_instruction cfg s = Ok w s1 ->
  0 <= w < 2 ^ 32 -> is_dp_sr_t32 1 0 1 0 w -> iset_of s1 = 1 -> opcode_len s1 = 32 -> ictx cfg s1 -> cond_holds s1 ->
  let d := bits w 11 8 in let n := bits w 19 16 in let m := bits w 3 0 in
  let sh := DecodeImmShift (bits w 5 4) (imm5t w) in
  let op := (code_AdcRegister, [w; bit w 20; m; d; n; fst sh; snd sh]) in
  exists s2,
    dp_sem cfg ADC (bit w 20) (Some d) n (Op2Reg m (fst sh) (snd sh)) (begin_instr s1 op) = Ok tt s2 /\
    ArmV6_emulate_cycle cfg s = Ok tt (AdvancePC (it_step_after s1 s2)) /\
    pc_of (AdvancePC (it_step_after s1 s2)) = add32 (pc_of s1) 4.
Proof.
  intros Hf Hw Hcube Hi Hl Hctx Hcond. pose_all_ranges. intros d n m sh op.
  pose proof Hcube as (_ & _ & _ & _ & _ & _ & _ & _ & _ & _ & _ & Hr). split_regs.
  assert (Qd : 0 <= d <= 14) by (unfold d; lia). assert (Qn : 0 <= n <= 15) by (unfold n; lia). assert (Qm : 0 <= m <= 15) by (unfold m; lia).
  pose proof (imm5t_range w) as R5.
  assert (Hsh : valid_shift (fst sh) (snd sh)) by (unfold sh; apply DecodeImmShift_valid; lia).
  destruct (dp_step cfg s w s1 enc_AdcRegisterT2 op ADC (bit w 20) d n (Op2Reg m (fst sh) (snd sh)) Hf) as (s2 & A & B & C); try assumption.
  - apply decode_AdcRegisterT2; assumption.
  - apply from_bitarray_AdcRegisterT2; assumption.
  - change (execute_dispatch cfg op (begin_instr s1 op)) with (AdcRegister_execute cfg w (bit w 20) m d n (fst sh) (snd sh) (begin_instr s1 op)).
    apply AdcRegister_sem; try lia; try exact Hsh; [apply ictx_begin; exact Hctx|apply cond_holds_begin; exact Hcond].
  - split; assumption.
  - exists s2. split; [exact A|]. split; [exact B|]. rewrite C, Hl. reflexivity.
Qed.

(* ================= SbcRegisterT2 ================= *)
Lemma decode_SbcRegisterT2 w s : 0 <= w < 2 ^ 32 -> is_dp_sr_t32 1 0 1 1 w -> iset_of s = 1 -> opcode_len s = 32 ->
  ArmV6_decode_instruction w s = Ok (Some enc_SbcRegisterT2) s.
Proof.
  intros Hw (H31 & H30 & H29 & H28 & H27 & H26 & H25 & H24 & H23 & H22 & H21 & Hr) Hi Hl. split_regs. dec_t32 w Hi Hl.
  assert (D : dec_thumb_instruction_set_encoding_32_bit w = Val (Some enc_SbcRegisterT2)).
  { dec_step dec_thumb_instruction_set_encoding_32_bit. pose_expand w 28 27. pose_expand w 26 25. ops_if.
    dec_step dec_thumb_data_processing_shifted_register. pose_expand w 24 21. ops_if. reflexivity. }
  unfold lift. rewrite D. rewrite ?Hl. reflexivity.
Qed.
Lemma from_bitarray_SbcRegisterT2 cfg w s : 0 <= w < 2 ^ 32 -> is_dp_sr_t32 1 0 1 1 w ->
  from_bitarray_dispatch cfg enc_SbcRegisterT2 w s = Ok (Some (code_SbcRegister, [w; bit w 20; bits w 3 0; bits w 11 8; bits w 19 16; fst (DecodeImmShift (bits w 5 4) (imm5t w)); snd (DecodeImmShift (bits w 5 4) (imm5t w))])) s.
Proof.
  intros Hw (_ & _ & _ & _ & _ & _ & _ & _ & _ & _ & _ & Hr).
  pose proof (ops_SbcRegisterT2 w s Hw Hr) as H. unfold fb_out, fb_plain, fb_opt, fb_res, fb_res_opt, fb_m, fb_m_opt in H.
  unfold from_bitarray_dispatch, enc_SbcRegisterT2. cbv iota. unfold bind, ret, lift in *.
  repeat match goal with
  | H : match ?x with _ => _ end = _ |- context[?x] => destruct x; try discriminate H
  end.
  inversion H. first [reflexivity | match goal with E : _ = Some _ |- _ => rewrite E end; reflexivity].
Qed.
Theorem sbcRegisterT2_step cfg s w s1 :
  ArmV6_fetch_instruction cfg s = Ok w s1 ->
  0 <= w < 2 ^ 32 -> is_dp_sr_t32 1 0 1 1 w -> iset_of s1 = 1 -> opcode_len s1 = 32 -> ictx cfg s1 -> cond_holds s1 ->
  let d := bits w 11 8 in let n := bits w 19 16 in let m := bits w 3 0 in
  let sh := DecodeImmShift (bits w 5 4) (imm5t w) in
  let op := (code_SbcRegister, [w; bit w 20; m; d; n; fst sh; snd sh]) in
  exists s2,
    dp_sem cfg SBC (bit w 20) (Some d) n (Op2Reg m (fst sh) (snd sh)) (begin_instr s1 op) = Ok tt s2 /\
    ArmV6_emulate_cycle cfg s = Ok tt (AdvancePC (it_step_after s1 s2)) /\
    pc_of (AdvancePC (it_step_after s1 s2)) = add32 (pc_of s1) 4.
Proof.
  intros Hf Hw Hcube Hi Hl Hctx Hcond. pose_all_ranges. intros d n m sh op.
  pose proof Hcube as (_ & _ & _ & _ & _ & _ & _ & _ & _ & _ & _ & Hr). split_regs.
  assert (Qd : 0 <= d <= 14) by (unfold d; lia). assert (Qn : 0 <= n <= 15) by (unfold n; lia). assert (Qm : 0 <= m <= 15) by (unfold m; lia).
  pose proof (imm5t_range w) as R5.
  assert (Hsh : valid_shift (fst sh) (snd sh)) by (unfold sh; apply DecodeImmShift_valid; lia).
  destruct (dp_step cfg s w s1 enc_SbcRegisterT2 op SBC (bit w 20) d n (Op2Reg m (fst sh) (snd sh)) Hf) as (s2 & A & B & C); try assumption.
  - apply decode_SbcRegisterT2; assumption.
  - apply from_bitarray_SbcRegisterT2; assumption.
  - change (execute_dispatch cfg op (begin_instr s1 op)) with (SbcRegister_execute cfg w (bit w 20) m d n (fst sh) (snd sh) (begin_instr s1 op)).
    apply SbcRegister_sem; try lia; try exact Hsh; [apply ictx_begin; exact Hctx|apply cond_holds_begin; exact Hcond].
  - split; assumption.
  - exists s2. split; [exact A|]. split; [exact B|]. rewrite C, Hl. reflexivity.
Qed.

(* ================= SubRegisterT2 ================= *)
Lemma decode_SubRegisterT2 w s : 0 <= w < 2 ^ 32 -> is_dp_sr_t32 1 1 0 1 w -> iset_of s = 1 -> opcode_len s = 32 ->
  ArmV6_decode_instruction w s = Ok (Some enc_SubRegisterT2) s.
Proof.
  intros Hw (H31 & H30 & H29 & H28 & H27 & H26 & H25 & H24 & H23 & H22 & H21 & Hr) Hi Hl. split_regs. dec_t32 w Hi Hl.
  assert (D : dec_thumb_instruction_set_encoding_32_bit w = Val (Some enc_SubRegisterT2)).
  { dec_step dec_thumb_instruction_set_encoding_32_bit. pose_expand w 28 27. pose_expand w 26 25. ops_if.
    dec_step dec_thumb_data_processing_shifted_register. pose_expand w 24 21. ops_if. reflexivity. }
  unfold lift. rewrite D. rewrite ?Hl. reflexivity.
Qed.
Lemma from_bitarray_SubRegisterT2 cfg w s : 0 <= w < 2 ^ 32 -> is_dp_sr_t32 1 1 0 1 w ->
  from_bitarray_dispatch cfg enc_SubRegisterT2 w s = Ok (Some (code_SubRegister, [w; bit w 20; bits w 3 0; bits w 11 8; bits w 19 16; fst (DecodeImmShift (bits w 5 4) (imm5t w)); snd (DecodeImmShift (bits w 5 4) (imm5t w))])) s.
Proof.
  intros Hw (_ & _ & _ & _ & _ & _ & _ & _ & _ & _ & _ & Hr).
  pose proof (ops_SubRegisterT2 w s Hw Hr) as H. unfold fb_out, fb_plain, fb_opt, fb_res, fb_res_opt, fb_m, fb_m_opt in H.
  unfold from_bitarray_dispatch, enc_SubRegisterT2. cbv iota. unfold bind, ret, lift in *.
  repeat match goal with
  | H : match ?x with _ => _ end = _ |- context[?x] => destruct x; try discriminate H
  end.
  inversion H. first [reflexivity | match goal with E : _ = Some _ |- _ => rewrite E end; reflexivity].
Qed.
Theorem subRegisterT2_step cfg s w s1 :
  ArmV6_fetch_instruction cfg s = Ok w s1 ->
  0 <= w < 2 ^ 32 -> is_dp_sr_t32 1 1 0 1 w -> iset_of s1 = 1 -> opcode_len s1 = 32 -> ictx cfg s1 -> cond_holds s1 ->
  let d := bits w 11 8 in let n := bits w 19 16 in let m := bits w 3 0 in
  let sh := DecodeImmShift (bits w 5 4) (imm5t w) in
  let op := (code_SubRegister, [w; bit w 20; m; d; n; fst sh; snd sh]) in
  exists s2,
    dp_sem cfg SUB (bit w 20) (Some d) n (Op2Reg m (fst sh) (snd sh)) (begin_instr s1 op) = Ok tt s2 /\
    ArmV6_emulate_cycle cfg s = Ok tt (AdvancePC (it_step_after s1 s2)) /\
    pc_of (AdvancePC (it_step_after s1 s2)) = add32 (pc_of s1) 4.
Proof.
  intros Hf Hw Hcube Hi Hl Hctx Hcond. pose_all_ranges. intros d n m sh op.
  pose proof Hcube as (_ & _ & _ & _ & _ & _ & _ & _ & _ & _ & _ & Hr). split_regs.
  assert (Qd : 0 <= d <= 14) by (unfold d; lia). assert (Qn : 0 <= n <= 15) by (unfold n; lia). assert (Qm : 0 <= m <= 15) by (unfold m; lia).
  pose proof (imm5t_range w) as R5.
  assert (Hsh : valid_shift (fst sh) (snd sh)) by (unfold sh; apply DecodeImmShift_valid; lia).
  destruct (dp_step cfg s w s1 enc_SubRegisterT2 op SUB (bit w 20) d n (Op2Reg m (fst sh) (snd sh)) Hf) as (s2 & A & B & C); try assumption.
  - apply decode_SubRegisterT2; assumption.
  - apply from_bitarray_SubRegisterT2; assumption.
  - change (execute_dispatch cfg op (begin_instr s1 op)) with (SubRegister_execute cfg w (bit w 20) m d n (fst sh) (snd sh) (begin_instr s1 op)).
    apply SubRegister_sem; try lia; try exact Hsh; [apply ictx_begin; exact Hctx|apply cond_holds_begin; exact Hcond].
  - split; assumption.
  - exists s2. split; [exact A|]. split; [exact B|]. rewrite C, Hl. reflexivity.
Qed.

(* ================= RsbRegisterT1 ================= *)
Lemma decode_RsbRegisterT1 w s : 0 <= w < 2 ^ 32 -> is_dp_sr_t32 1 1 1 0 w -> iset_of s = 1 -> opcode_len s = 32 ->
  ArmV6_decode_instruction w s = Ok (Some enc_RsbRegisterT1) s.
Proof.
  intros Hw (H31 & H30 & H29 & H28 & H27 & H26 & H25 & H24 & H23 & H22 & H21 & Hr) Hi Hl. split_regs. dec_t32 w Hi Hl.
  assert (D : dec_thumb_instruction_set_encoding_32_bit w = Val (Some enc_RsbRegisterT1)).
  { dec_step dec_thumb_instruction_set_encoding_32_bit. pose_expand w 28 27. pose_expand w 26 25. ops_if.
    dec_step dec_thumb_data_processing_shifted_register. pose_expand w 24 21. ops_if. reflexivity. }
  unfold lift. rewrite D. rewrite ?Hl. reflexivity.
Qed.
Lemma from_bitarray_RsbRegisterT1 cfg w s : 0 <= w < 2 ^ 32 -> is_dp_sr_t32 1 1 1 0 w ->
  from_bitarray_dispatch cfg enc_RsbRegisterT1 w s = Ok (Some (code_RsbRegister, [w; bit w 20; bits w 3 0; bits w 11 8; bits w 19 16; fst (DecodeImmShift (bits w 5 4) (imm5t w)); snd (DecodeImmShift (bits w 5 4) (imm5t w))])) s.
Proof.
  intros Hw (_ & _ & _ & _ & _ & _ & _ & _ & _ & _ & _ & Hr).
  pose proof (ops_RsbRegisterT1 w s Hw Hr) as H. unfold fb_out, fb_plain, fb_opt, fb_res, fb_res_opt, fb_m, fb_m_opt in H.
  unfold from_bitarray_dispatch, enc_RsbRegisterT1. cbv iota. unfold bind, ret, lift in *.
  repeat match goal with
  | H : match ?x with _ => _ end = _ |- context[?x] => destruct x; try discriminate H
  end.
  inversion H. first [reflexivity | match goal with E : _ = Some _ |- _ => rewrite E end; reflexivity].
Qed.
Theorem rsbRegisterT1_step cfg s w s1 :
  ArmV6_fetch_instruction cfg s = Ok w s1 ->
  0 <= w < 2 ^ 32 -> is_dp_sr_t32 1 1 1 0 w -> iset_of s1 = 1 -> opcode_len s1 = 32 -> ictx cfg s1 -> cond_holds s1 ->
  let d := bits w 11 8 in let n := bits w 19 16 in let m := bits w 3 0 in
  let sh := DecodeImmShift (bits w 5 4) (imm5t w) in
  let op := (code_RsbRegister, [w; bit w 20; m; d; n; fst sh; snd sh]) in
  exists s2,
    dp_sem cfg RSB (bit w 20) (Some d) n (Op2Reg m (fst sh) (snd sh)) (begin_instr s1 op) = Ok tt s2 /\
    ArmV6_emulate_cycle cfg s = Ok tt (AdvancePC (it_step_after s1 s2)) /\
    pc_of (AdvancePC (it_step_after s1 s2)) = add32 (pc_of s1) 4.
Proof.
  intros Hf Hw Hcube Hi Hl Hctx Hcond. pose_all_ranges. intros d n m sh op.
  pose proof Hcube as (_ & _ & _ & _ & _ & _ & _ & _ & _ & _ & _ & Hr). split_regs.
  assert (Qd : 0 <= d <= 14) by (unfold d; lia). assert (Qn : 0 <= n <= 15) by (unfold n; lia). assert (Qm : 0 <= m <= 15) by (unfold m; lia).
  pose proof (imm5t_range w) as R5.
  assert (Hsh : valid_shift (fst sh) (snd sh)) by (unfold sh; apply DecodeImmShift_valid; lia).
  destruct (dp_step cfg s w s1 enc_RsbRegisterT1 op RSB (bit w 20) d n (Op2Reg m (fst sh) (snd sh)) Hf) as (s2 & A & B & C); try assumption.
  - apply decode_RsbRegisterT1; assumption.
  - apply from_bitarray_RsbRegisterT1; assumption.
  - change (execute_dispatch cfg op (begin_instr s1 op)) with (RsbRegister_execute cfg w (bit w 20) m d n (fst sh) (snd sh) (begin_instr s1 op)).
    apply RsbRegister_sem; try lia; try exact Hsh; [apply ictx_begin; exact Hctx|apply cond_holds_begin; exact Hcond].
  - split; assumption.
  - exists s2. split; [exact A|]. split; [exact B|]. rewrite C, Hl. reflexivity.
Qed.
