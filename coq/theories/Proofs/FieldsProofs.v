(* Proofs/FieldsProofs.v — tactics and lemmas for the register field views (C17, second half). *)
From Coq Require Import ZArith Bool List Lia ZifyBool.
From ArmV Require Import Lib.PyZ Spec.Pseudocode Spec.Expected Proofs.BitLemmas Proofs.SpecFacts Proofs.BitsOps Proofs.BitsOps2.
From Gen Require Import enums bits_ops shift regviews.
Open Scope Z_scope.

Lemma word_256 v : 0 <= v < 2 ^ 32 -> 0 <= v < 2 ^ 256.
Proof. intros [H1 H2]. split; [lia|]. apply Z.lt_le_trans with (2 ^ 32); [lia|]. apply Z.pow_le_mono_r; lia. Qed.

Ltac norm_exp :=
  repeat match goal with
         | |- context [2 ^ ?k] =>
           lazymatch k with
           | Zpos _ => fail
           | _ => let k' := eval vm_compute in k in
                  lazymatch k' with Zpos _ => progress change (2 ^ k) with (2 ^ k') | Z0 => progress change (2 ^ k) with (2 ^ 0) end
           end
         end.

Lemma get_int v i : 0 <= i -> AbstractRegister_getitem_int v i = bits v i i.
Proof. intros. unfold AbstractRegister_getitem_int, bit_at. apply substring_bits. lia. Qed.
Lemma get_slice v hi lo : 0 <= lo <= hi -> AbstractRegister_getitem_slice v hi lo = bits v hi lo.
Proof. intros. unfold AbstractRegister_getitem_slice. apply substring_bits. lia. Qed.
Lemma set_int v i x : 0 <= v < 2 ^ 32 -> 0 <= i < 256 -> 0 <= x < 2 ^ 1 ->
  AbstractRegister_setitem_int v i x = insert v i i x.
Proof.
  intros Hv Hi Hx. unfold AbstractRegister_setitem_int, set_bit_at. cbv zeta.
  apply set_substring_insert; [lia|lia|apply word_256; assumption|replace (i - i + 1) with 1 by lia; exact Hx].
Qed.
Lemma set_slice v hi lo x : 0 <= v < 2 ^ 32 -> 0 <= lo <= hi -> hi < 256 -> 0 <= x < 2 ^ (hi - lo + 1) ->
  AbstractRegister_setitem_slice v hi lo x = insert v hi lo x.
Proof.
  intros Hv Hr Hh Hx. unfold AbstractRegister_setitem_slice. cbv zeta.
  apply set_substring_insert; [lia|lia|apply word_256; assumption|exact Hx].
Qed.

Ltac field_goal :=
  lazymatch goal with
  | |- _ -> _ => let Hx := fresh "Hx" in intros Hx;
                 first [ apply set_int; [assumption|lia|exact Hx]
                       | apply set_slice; [assumption|lia|lia|norm_exp; exact Hx] ]
  | |- _ = bits _ _ _ => first [ apply get_int; lia | apply get_slice; lia ]
  end.
Ltac fields_tac := repeat split; field_goal.

(* indexed families: unfold the accessor, discharge its assertion, then the same two lemmas *)
Ltac family_tac :=
  split; [| intro];
  match goal with
  | |- ?f _ _ = _ => unfold f
  | |- ?f _ _ _ = _ => unfold f
  end;
  try (match goal with |- context [eassert ?b] => replace b with true by lia end; cbn [eassert ebind]);
  cbv zeta;
  first [ rewrite get_int by lia
        | rewrite get_slice by lia
        | rewrite set_int by (assumption || lia)
        | rewrite set_slice by
            (first [ assumption | lia
                   | match goal with |- 0 <= _ < 2 ^ ?k => replace k with 2 by lia; assumption end ]) ];
  try (apply (f_equal (@Val Z))); (reflexivity || (f_equal; lia)).

(* composite views *)
Lemma bits_lt x hi lo : 0 <= lo <= hi -> 0 <= bits x hi lo < 2 ^ (hi - lo + 1).
Proof. apply bits_range. Qed.

Theorem CPSR_it_spec v x : 0 <= v < 2 ^ 32 -> 0 <= x < 2 ^ 8 ->
  CPSR_get_it v = bits v 15 10 * 4 + bits v 26 25 /\
  CPSR_set_it v x = insert (insert v 15 10 (bits x 7 2)) 26 25 (bits x 1 0).
Proof.
  intros Hv Hx. split.
  - unfold CPSR_get_it. rewrite !get_slice by lia. rewrite chain_spec by lia. reflexivity.
  - unfold CPSR_set_it. cbv zeta. rewrite !substring_bits by lia.
    pose proof (bits_lt x 7 2 ltac:(lia)) as B1. change (7 - 2 + 1) with (15 - 10 + 1) in B1.
    pose proof (bits_lt x 1 0 ltac:(lia)) as B0. change (1 - 0 + 1) with (26 - 25 + 1) in B0.
    rewrite (set_slice v 15 10) by (try assumption; lia).
    rewrite set_slice; [reflexivity| |lia|lia|assumption].
    rewrite <- (set_slice v 15 10) by (try assumption; lia).
    unfold AbstractRegister_setitem_slice. cbv zeta.
    apply (set_substring_range v 15 10 (bits x 7 2) 32); (lia || assumption).
Qed.

Theorem CPSR_isetstate_spec v x : 0 <= v < 2 ^ 32 -> 0 <= x < 4 ->
  CPSR_get_isetstate v = bit v 24 * 2 + bit v 5 /\
  CPSR_set_isetstate v x = insert (insert v 24 24 (bit x 1)) 5 5 (bit x 0).
Proof.
  intros Hv Hx. split.
  - unfold CPSR_get_isetstate. unfold AbstractRegister_getitem_int. rewrite !bit_at_bit by lia.
    rewrite chain_spec by lia. reflexivity.
  - unfold CPSR_set_isetstate. cbv zeta. rewrite !bit_at_bit by lia.
    assert (B1 : 0 <= bit x 1 < 2 ^ 1) by (pose proof (bit_range x 1); change (2 ^ 1) with 2; lia).
    assert (B0 : 0 <= bit x 0 < 2 ^ 1) by (pose proof (bit_range x 0); change (2 ^ 1) with 2; lia).
    rewrite (set_int v 24) by (try lia; assumption).
    rewrite set_int; [reflexivity| |lia|assumption].
    rewrite <- (set_int v 24) by (try lia; assumption).
    unfold AbstractRegister_setitem_int, set_bit_at. cbv zeta.
    apply (set_substring_range v 24 24 (bit x 1) 32); (lia || (replace (24 - 24 + 1) with 1 by lia; assumption)).
Qed.

Theorem DFSR_fs_spec v : 0 <= v < 2 ^ 32 -> DFSR_get_fs v = bit v 10 * 16 + bits v 3 0.
Proof.
  intros. unfold DFSR_get_fs. unfold AbstractRegister_getitem_int. rewrite bit_at_bit by lia.
  rewrite get_slice by lia. rewrite chain_spec by lia. reflexivity.
Qed.
Theorem VBAR_base_spec v : 0 <= v < 2 ^ 32 -> VBAR_get_base_address v = bits v 31 5.
Proof. intros. unfold VBAR_get_base_address. apply get_slice. lia. Qed.
