(* Proofs/MachineOps.v — the architectural view of the machine record (registers of the current mode,
   PC, flags) and the proved meaning of the translated accessors in that view. *)
From Coq Require Import ZArith List Bool Lia ZifyBool.
From ArmV Require Import Lib.PyZ Lib.Monad Lib.Machine Spec.Pseudocode Spec.Expected Spec.Arch Spec.MachineView
  Proofs.BitLemmas Proofs.SpecFacts Proofs.BitsOps Proofs.BitsOps2 Proofs.FieldsProofs Proofs.StateLemmas
  Proofs.CondProofs Proofs.BankProofs.
From Gen Require Import enums bits_ops shift regviews records hubm opsyn core.
Import ListNotations.
Open Scope Z_scope.

(* the standing assumptions of instruction-level theorems *)
Record ctx_ok (cfg : config) (s : machine) : Prop := {
  ok_sys_len : length (sys s) = n_sys;
  ok_changed_len : length (changed s) = 16%nat;
  ok_R_len : length (R s) = 34%nat;
  ok_cpsr : word (cpsr_of s);
  ok_mode : legal_mode cfg (mode_of s)
}.

Lemma iset_of_eq s : iset_of s = iset_of_psr (cpsr_of s).
Proof. reflexivity. Qed.

Theorem reg_get cfg n s : 0 <= n <= 15 -> legal_mode cfg (mode_of s) -> Registers_get cfg n s = Ok (rget s n) s.
Proof.
  intros Hn Hm. unfold rget. destruct (n =? 15) eqn:E.
  - assert (n = 15) by lia. subst n. rewrite registers_get_pc. unfold PCRead, pc_of. rewrite <- iset_of_eq. reflexivity.
  - rewrite <- ridx_spec_ridx by lia. apply registers_get_spec; [lia|assumption].
Qed.
Theorem reg_set cfg n v s : 0 <= n <= 14 -> legal_mode cfg (mode_of s) -> length (changed s) = 16%nat ->
  Registers_set cfg n v s = Ok tt (rset s n v).
Proof. intros. unfold rset, mark_changed. rewrite <- ridx_spec_ridx by lia. apply registers_set_spec; assumption. Qed.

Theorem branch_to_spec a s : length (changed s) = 16%nat -> Registers_branch_to a s = Ok tt (branch_to s a).
Proof.
  intros HL. unfold Registers_branch_to. mred. unfold put_changed, py_index. rewrite HL. cbn [Z.leb Z.ltb Z.compare Z.of_nat Pos.of_succ_nat Pos.succ Pos.compare Pos.compare_cont andb].
  mred. unfold putR, RName_PC. cbn [Z.leb Z.compare Pos.compare Pos.compare_cont andb]. reflexivity.
Qed.

(* ---- writes to the PC ---- *)
Lemma clear_low_bit a : 0 <= a < 2 ^ 256 -> set_bit_at a 0 0 = clear_low a 1.
Proof. intros. unfold clear_low. rewrite set_bit_at_insert by lia. reflexivity. Qed.
Lemma clear_low_2 a : 0 <= a < 2 ^ 256 -> set_substring a 1 0 0 = clear_low a 2.
Proof. intros. unfold clear_low. rewrite set_substring_insert; [reflexivity|lia|lia|lia|]. change (2 ^ (1 - 0 + 1)) with 4. lia. Qed.

Lemma with_cpsr_same s : length (sys s) = n_sys -> with_cpsr s (cpsr_of s) = s.
Proof.
  intros H. unfold with_cpsr, cpsr_of, slot_cpsr. rewrite setl_getl_same; [apply set_sys_id|]. unfold n_sys in H. lia.
Qed.
Lemma select_instr_set_spec iset s : length (sys s) = n_sys -> word (cpsr_of s) -> 0 <= iset < 4 ->
  Registers_select_instr_set iset s = Ok tt (with_cpsr s (SelectInstrSet (cpsr_of s) iset)).
Proof.
  intros Hl Hw Hi. unfold Registers_select_instr_set. rewrite run_bind, current_instr_set_spec. cbn beta iota.
  unfold SelectInstrSet, enums.InstrSet_ARM, enums.InstrSet_THUMB_EE, Arch.InstrSet_ARM, InstrSet_THUMBEE.
  rewrite iset_of_eq.
  destruct ((iset =? 0) && (iset_of_psr (cpsr_of s) =? 3)) eqn:E.
  - mred. rewrite with_cpsr_same by exact Hl. reflexivity.
  - mred. change (getl (sys s) 0) with (cpsr_of s).
    destruct (CPSR_isetstate_spec (cpsr_of s) iset Hw ltac:(lia)) as [_ Hs]. rewrite Hs. reflexivity.
Qed.

Lemma word_lt256 a : word a -> 0 <= a < 2 ^ 256.
Proof. apply word_256. Qed.
Lemma changed_with_cpsr s p : changed (with_cpsr s p) = changed s. Proof. reflexivity. Qed.
Lemma iset_range p : 0 <= iset_of_psr p < 4.
Proof. unfold iset_of_psr. pose proof (bit01 p 24). pose proof (bit01 p 5). lia. Qed.
Lemma truthy_bit_at' v i : 0 <= i -> truthy (bit_at v i) = (bit v i =? 1).
Proof. intros. rewrite bit_at_bit by lia. unfold truthy. pose proof (bit01 v i). destruct (bit v i =? 0) eqn:E; lia. Qed.

Theorem branch_write_pc_spec cfg a s : length (sys s) = n_sys -> length (changed s) = 16%nat -> word a ->
  ArmV6_branch_write_pc cfg a s = Ok tt (apply_pc s (BranchWritePC (cpsr_of s) (cfg_jazelle_accepts_execution cfg) a)).
Proof.
  intros Hl Hc Ha. unfold ArmV6_branch_write_pc. rewrite run_bind, current_instr_set_spec. cbn beta iota.
  unfold BranchWritePC, enums.InstrSet_ARM, enums.InstrSet_JAZELLE, Arch.InstrSet_ARM, Arch.InstrSet_JAZELLE.
  rewrite iset_of_eq. pose proof (word_lt256 a Ha) as Ha'.
  destruct (iset_of_psr (cpsr_of s) =? 0) eqn:E0.
  - rewrite run_bind, run_bind, branch_to_spec by exact Hc. cbn beta iota. rewrite clear_low_2 by exact Ha'.
    unfold apply_pc. cbn [fst snd]. rewrite with_cpsr_same by exact Hl. reflexivity.
  - rewrite run_bind, run_bind, current_instr_set_spec. cbn beta iota. rewrite iset_of_eq.
    destruct (iset_of_psr (cpsr_of s) =? 2) eqn:E2.
    + unfold conf_jazelle_accepts_execution, truthy.
      destruct (cfg_jazelle_accepts_execution cfg =? 0) eqn:EJ; cbn [negb];
        rewrite run_bind, run_bind, run_bind, branch_to_spec by exact Hc; cbn beta iota;
        unfold apply_pc; cbn [fst snd]; rewrite with_cpsr_same by exact Hl; rewrite ?clear_low_2 by exact Ha'; reflexivity.
    + rewrite run_bind, run_bind, branch_to_spec by exact Hc. cbn beta iota. rewrite clear_low_bit by exact Ha'.
      unfold apply_pc. cbn [fst snd]. rewrite with_cpsr_same by exact Hl. reflexivity.
Qed.

Theorem bx_write_pc_spec a s : length (sys s) = n_sys -> length (changed s) = 16%nat -> word (cpsr_of s) -> word a ->
  ArmV6_bx_write_pc a s = Ok tt (apply_pc s (BXWritePC (cpsr_of s) a)).
Proof.
  intros Hl Hc Hw Ha. unfold ArmV6_bx_write_pc. rewrite run_bind, current_instr_set_spec. cbn beta iota.
  unfold BXWritePC, enums.InstrSet_THUMB_EE, InstrSet_THUMBEE, enums.InstrSet_THUMB, enums.InstrSet_ARM.
  rewrite iset_of_eq. pose proof (word_lt256 a Ha) as Ha'. rewrite !truthy_bit_at' by lia.
  destruct (iset_of_psr (cpsr_of s) =? 3) eqn:E3.
  - destruct (bit a 0 =? 1) eqn:B0.
    + cbv zeta. rewrite run_bind, run_bind, run_bind, branch_to_spec by exact Hc. cbn beta iota. rewrite clear_low_bit by exact Ha'.
      unfold apply_pc. cbn [fst snd]. rewrite with_cpsr_same by exact Hl. reflexivity.
    + mred. unfold apply_pc. cbn [fst snd]. rewrite with_cpsr_same by exact Hl. reflexivity.
  - destruct (bit a 0 =? 1) eqn:B0.
    + rewrite run_bind, run_bind, run_bind. rewrite select_instr_set_spec by (try assumption; lia). cbn beta iota. cbv zeta.
      rewrite run_bind, branch_to_spec by (rewrite changed_with_cpsr; exact Hc). cbn beta iota. rewrite clear_low_bit by exact Ha'.
      unfold apply_pc. cbn [fst snd]. reflexivity.
    + assert (T : negb (bit a 1 =? 1) = (bit a 1 =? 0)).
      { pose proof (bit01 a 1). destruct (bit a 1 =? 1) eqn:E1, (bit a 1 =? 0) eqn:E2; try reflexivity; lia. }
      rewrite T. destruct (bit a 1 =? 0) eqn:B1.
      * rewrite run_bind, run_bind, run_bind, run_bind. rewrite select_instr_set_spec by (try assumption; lia). cbn beta iota.
        rewrite run_bind, branch_to_spec by (rewrite changed_with_cpsr; exact Hc). cbn beta iota.
        unfold apply_pc. cbn [fst snd]. reflexivity.
      * mred. unfold apply_pc. cbn [fst snd]. rewrite with_cpsr_same by exact Hl. reflexivity.
Qed.

Theorem alu_write_pc_spec cfg a s : length (sys s) = n_sys -> length (changed s) = 16%nat -> word (cpsr_of s) -> word a ->
  ArmV6_alu_write_pc cfg a s =
  Ok tt (apply_pc s (ALUWritePC (cfg_arch_version cfg) (cpsr_of s) (cfg_jazelle_accepts_execution cfg) a)).
Proof.
  intros Hl Hc Hw Ha. unfold ArmV6_alu_write_pc. rewrite run_bind, current_instr_set_spec. cbn beta iota.
  unfold ALUWritePC, conf_arch_version, enums.InstrSet_ARM, Arch.InstrSet_ARM. rewrite iset_of_eq.
  destruct ((cfg_arch_version cfg >=? 7) && (iset_of_psr (cpsr_of s) =? 0)).
  - rewrite run_bind, run_bind, bx_write_pc_spec by assumption. reflexivity.
  - rewrite run_bind, run_bind, branch_write_pc_spec by assumption. reflexivity.
Qed.
Theorem load_write_pc_spec cfg a s : length (sys s) = n_sys -> length (changed s) = 16%nat -> word (cpsr_of s) -> word a ->
  ArmV6_load_write_pc cfg a s =
  Ok tt (apply_pc s (LoadWritePC (cfg_arch_version cfg) (cpsr_of s) (cfg_jazelle_accepts_execution cfg) a)).
Proof.
  intros Hl Hc Hw Ha. unfold ArmV6_load_write_pc, LoadWritePC, conf_arch_version.
  destruct (cfg_arch_version cfg >=? 5).
  - rewrite run_bind, run_bind, bx_write_pc_spec by assumption. reflexivity.
  - rewrite run_bind, run_bind, branch_write_pc_spec by assumption. reflexivity.
Qed.
