#!/venv/bin/python
"""(re)writes MANIFEST.json from the table of claimed properties below"""
import json
import os

VERIF = os.path.dirname(os.path.dirname(os.path.abspath(__file__)))
COMMON_NOTE = ('Trusted: Coq 8.16.1 kernel incl. vm_compute (no native_compute); no axioms (every theorem: Closed under '
               'the global context); tools/py2v + Lib/{PyZ,Monad,Machine}.v (translator and operator/state semantics, '
               'validated by the 3-way correspondence real code / regenerated model / spec); Spec/ is the oracle. ')
CLAIMS = {
 'C01': ('67 data-processing opcode classes (ADC..TST, shifts, moves; immediate / register / register-shifted-register) '
         'each proved equal to one semantic function dp_sem (A8.8 pseudocode: Shift_C, AddWithCarry, flags, ALUWritePC) '
         'for every operand value, flag state, mode, architecture version; frame of dp_sem proved once; ADR (incl. Rd = PC) and MOVT proved separately. End to end (Props/C01step.v): for any immediate-operand data-processing encoding with Rd != PC, one emulate_cycle proved to end in dp_sem, ITAdvance inside an IT block and PC + instruction length; the same for any operand form and for the comparisons; every hypothesis but the fetch discharged for all 146 concrete encodings of the 67 classes (Props/C01step.v, Props/C01step2.v) — the SP-relative ADD/SUB in ARM, 16-bit and 32-bit Thumb, MOVW, ADDW/SUBW, MVN in every form, the shifts by register, the 16-bit high-register ADD/CMP/MOV, the 32-bit Thumb shifted-register comparisons, MOV.W / RRX / shifts by immediate in 32-bit Thumb, the 16-bit Thumb shifts by immediate, MOV (register) and RRX, the ARM register-shifted-register comparisons, the 32-bit Thumb comparisons, the ARM register comparisons, ten 32-bit Thumb modified-immediate and ten shifted-register forms, the ARM shifts by immediate, ARM AND/EOR/SUB/RSB/ADD/ADC/SBC/RSC/ORR/BIC in their immediate, register and register-shifted-register forms, MOV/MVN and TST/TEQ/CMP/CMN immediate, and fifteen 16-bit Thumb encodings (flags = !InITBlock()) — each on the whole cube of the encoding, for every state, with concrete machines meeting the hypotheses.',
         'Scope: execute() of the opcode classes with condition passed (C05 covers the failing case) and field ranges as '
         'produced by decode; the decode of operands is proved per encoding under C06/C07 and composed with these theorems for all 146 encodings (register fields r0-r12 and pairwise different where the encoding has UNPREDICTABLE register rules); for ADD (immediate) in ARM and in 16-bit Thumb also with the fetch discharged on flat memory (C01_add_imm_a1_closed, C01_add_imm_t1_closed, and C01_and_imm_t1_closed for a 32-bit Thumb encoding: no hypothesis about any stage is left).'),
 'C02': ('36 single-register load/store classes proved equal to the architecture pseudocode (Spec/LoadStore.v, Spec/LoadStoreUnpriv.v) with MemU / MemU_unpriv instantiated by the emulator (C13/C14): LDR/LDRB/LDRH/LDRSB/LDRSH and STR/STRB/STRH in their immediate and register forms, ARM and Thumb, the five literal (PC-relative) loads, and the unprivileged LDRT/LDRBT/LDRHT/LDRSBT/LDRSHT/STRT/STRBT/STRHT: address for offset/pre/post-indexed forms modulo 2^32, width, destination value (incl. legacy rotation, zero/sign extension, UNKNOWN = 0 on a misaligned access without unaligned support), base write-back only after a successful access, loads to the PC via LoadWritePC of the loaded word; the memory hypotheses are shown satisfiable on flat maps. End to end (Props/C02step.v): for STR and LDR (immediate, ARM A1; offset, pre- and post-indexed), on every word of the encoding and every state, one emulate_cycle is the architectural STORE / LOAD through MemU followed by write-back, ITAdvance and the PC advance, and on an abort exactly the exception entry with no write-back and no advance; for STR also with fetch and memory discharged on a flat map (C02_str_imm_a1_closed) and a concrete machine meeting the hypotheses.',
         'LDRD/STRD (immediate, register, literal; two words through MemA or one 64-bit access with LPAE) and the eight exclusive loads/stores (on the emulator\'s mock monitors, which never pass) are proved too (Props/C02dual.v, C02excl.v). Partial: register numbers are bounded as the encodings guarantee (Rt <= 14 where a PC destination is UNPREDICTABLE); Hyp mode is excluded for the unprivileged forms (UNPREDICTABLE); operand extraction of the encodings is checked under C06/C07.'),
 'C03': ('every member of the block-transfer family proved equal to the architectural loops by induction over the register list, for every register mask, base, W bit and state: LDM/STM in all four addressing modes (IA, DA, DB, IB; ARM and Thumb LDM), PUSH, POP, LDM/STM (user registers), LDM (exception return), RFE and SRS (ARM/Thumb): start address and written-back base per mode, lowest register at the lowest address, consecutive words modulo 2^32, PC last, write-back only after all accesses succeeded, UNKNOWN stored for a written-back base that is not lowest (the code\'s lowest-set-bit helper proved equal to the specification\'s on all 65535 non-empty lists), the user bank for the user-register forms, the banked SP of the target mode for SRS, CPSRWriteByInstr + BranchWritePC for the return forms; the invariant they need is shown to hold on flat maps for ordinary register writes.',
         'Partial: the single-register PUSH/POP encodings that use MemU have executable specifications compared three-way, without theorems; the privileged forms are stated for configurations without the Virtualization Extensions and for an invariant that also covers user-bank writes / 32-bit SPSR values (exercised by the correspondence cases, not instantiated by a theorem); transfers that abort part-way under the MPU are compared three-way; the PUSH;POP round trip is not stated separately.'),
 'C04': ('execute() of B, BL/BLX (immediate), BLX (register), BX, CBZ/CBNZ, TBB/TBH (with MemU abstracted) and the four PC-write primitives proved equal to the architectural operations for every state, offset, register and PC (incl. wrap at 2^32); the offset assembled by every branch encoding proved to be the sign-extended field for every instruction word; PC read value and sequential advance; alignment and link-value consequences.',
         'The whole step is proved as a composition (Props/C04step.v): once fetch, class selection and operand extraction deliver an operand record, emulate_cycle is the body, ITAdvance inside an IT block, and AdvancePC, which adds the instruction length modulo 2^32 unless the body wrote the PC; B<c> (ARM A1), B<c> (Thumb T1) and B (Thumb T2) discharged end to end on every word of the encoding: the step is BranchWritePC of PC_read + the sign-extended offset with no sequential advance added (C04_b_a1_step, C04_b_a1_pc, C04_b_t1_step, C04_b_t2_step). Partial: loads/ALU writes to PC belong to C01-C03; that the body of each non-branch class leaves the PC unwritten is part of that class\'s execute theorem, not restated per class here. Known finding: CBZ offset scaled by 4 (pinned by the test-suite).'),
 'C05': ('CurrentCond and the 16x16 ConditionPassed table proved for every machine state; every conditional opcode class (266 of 273, enumerated from the regenerated dispatcher) proved a no-op when its condition fails; the whole step proved (Props/C05step.v): whenever fetch, class selection and operand extraction deliver an operand record of a conditional class and the condition fails, emulate_cycle ends in exactly SkipInstr — PC + instruction length modulo 2^32, ITSTATE advanced inside an IT block, every other register, system register, CPSR field and memory unchanged — with a concrete machine on which the hypotheses hold.',
         'Partial: the hypotheses "fetch / decode / from_bitarray succeed" are discharged per encoding by the C13 fetch theorem, the C06/C07 tables and the operand theorems rather than inside this statement; the same frame is also searched on the running code over members of 600 of the 602 encoding classes; "behaves as the unconditional instruction when it passes" is proved as transparency of the guard.'),
 'C06': ("ARM class selection proved, for every word of each group's architectural domain, against hand-written A5 tables by a reflective cube checker proved sound once: top-level routing and 21 groups (data-processing register / register-shifted register / immediate, multiply, halfword multiply, saturating, synchronization, miscellaneous, MSR-and-hints, extra load/store (+unprivileged), load/store word/byte, branch/block transfer, media routing, parallel signed/unsigned, packing, signed multiply/divide, coprocessor/SVC, unconditional, dp-and-miscellaneous routing); decode is a function of the word alone by type. Operand extraction proved for 268 ARM encodings (every ARM encoding but the three branches, whose offsets are C04): for every word whose register fields are r0-r12 and pairwise distinct and that meets the encoding\'s own side condition (msb >= lsb, non-empty list, P/W rules ...), from_bitarray returns the class with exactly the fields of the encoding diagram (ARMExpandImm, DecodeImmShift, P/U/W, S, lists, scaled immediates) and leaves the state untouched (Props/C06ops0-7.v, statements rendered from the hand-written table harness/optable.py).",
         'Partial: the memory-hints/Advanced-SIMD sub-decoder and the LDRSBT/LDRSHT routing cube are outside the class-selection theorems; the operand theorems keep register operands inside r0-r12 (SP/PC operands, where an encoding allows them, are probed by the table-driven three-way correspondence, which also runs the same table on sampled words).'),
 'C07': ('Thumb 16-bit class selection proved for every one of the 2^16 halfwords (evaluation inside Coq); Thumb 32-bit class selection proved for every one of the 2^32 words: top-level routing and 19 groups (coprocessor, shifted register + move/shift, modified immediate, plain binary immediate, load/store multiple, dual/exclusive/table branch, store single, load byte/halfword/word, data-processing register, parallel signed/unsigned, miscellaneous operations, multiply, long multiply, branches and miscellaneous control + CPS/hints + miscellaneous control). Operand extraction proved for 321 Thumb encodings (all but the branches and PUSH.W T2, the recorded finding): for every halfword / word whose register fields are r0-r12 and distinct and that meets the encoding\'s side condition, from_bitarray returns the class with exactly the fields of the encoding diagram (ThumbExpandImm_C with the carry, DecodeImmShift, !InITBlock() flags, register lists, scaled immediates) and leaves the state untouched (Props/C07ops0-7.v).',
         'Partial: the load-halfword hint slots (Rt = 1111) are outside the class-selection theorems; the operand theorems keep register operands inside r0-r12 (valid SP/PC operands are probed by the table-driven correspondence); branch operands are C04. Known finding: PUSH.W T2 UnalignedAllowed.'),
 'C08': ('it_advance = ITAdvance on every state; the ITSTATE schedule for every legal (firstcond, mask) and all 256 states '
         'by exhaustive evaluation inside Coq (bound stated); executing IT sets ITSTATE = firstcond:mask and nothing else, for every state; over whole steps (Props/C08step.v with C04step/C05step): after a completed or a skipped instruction ITSTATE has advanced exactly once (ITAdvance of what the body left) iff the instruction started inside an IT block; setflags = !InITBlock() of 16-bit encodings is proved end to end for four encodings (Props/C01step.v).',
         'Partial: the IT bits saved and cleared at exception entry and restored by exception returns are part of the C11 / C12 entry and return theorems rather than restated here; the 16-bit flag rule is composed end to end for four encodings only (it is an operand theorem for every 16-bit data-processing encoding under C07).'),
 'C09': ('every class of the family (92 abstract opcode classes) proved bit-exact for every operand value and state against Spec/Arith.v / Spec/Arith2.v: MUL/MLA/MLS, the long multiplies (N/Z from the 64-bit result), halfword, word-by-halfword, dual and most-significant-word multiplies (Q on overflow), SDIV/UDIV, QADD/QSUB/QDADD/QDSUB and SSAT/USAT/SSAT16/USAT16 (saturation and the sticky Q flag), all 36 parallel add/subtract forms (lanes and GE flags), USAD8/USADA8, the twelve extend(-and-add) forms, PKH, REV/REV16/REVSH, RBIT (32-step loop by invariant), UBFX/SBFX/BFC, CLZ, SEL; BFI proved to do exactly what the code does and shown not to be the architectural BFI (recorded finding). MUL and CLZ (ARM A1) are also proved end to end over a whole emulate_cycle for every word of the encoding (Props/C09step.v), with the general statement for any body that completes without touching the PC. The helper arithmetic they share (SignedSatQ, AddWithCarry, bit fields, sign extension) is C17.',
         'Partial: SDIV/UDIV are stated for configurations without the ARMv7-R divide-by-zero trap; the specifications in Spec/Arith2.v are hand-written from A8.8 and additionally compared three-way on lane-boundary operands; int(a / b) is modelled as truncating division (DESIGN 1.2).'),
 'C10': ('the bank table (LookUpRName = architectural banks) for every configuration/register/mode, aliasing iff same architectural register, read-after-write, histories of writes by induction, current-mode access, PC read value, SPSR banking; the 32-bit range invariant proved for the data-processing family (the 67 classes whose execute() is dp_sem): any operation, operand form, flag setting and destination incl. the PC keeps every register, the PC and the CPSR 32-bit and the mode unchanged, and with a destination other than the PC changes nothing of the CPSR but N, Z, C, V (Props/C10dp.v); the block-transfer, load/store and arithmetic theorems (C02, C03, C09) carry the same invariant through their own statements.',
         'Partial: for the remaining families the range invariant is part of each execute theorem\'s context (ictx in, 32-bit values written) rather than one statement; across whole steps of every encoding class it is searched (members of 600 encoding classes from overflow-corner states).'),
 'C11': ('each of TakeReset, TakeUndefInstr, TakeSVC, TakeSMC, TakeHypTrap, TakeDataAbort, TakePhysicalIRQ, TakePhysicalFIQ '
         'and EnterHypMode/EnterMonitorMode/ExcVectorBase proved equal, as a state transformer, to the architecture pseudocode '
         '(Spec/Exceptions.v) for every state, configuration, routing bit and PC; emulate_cycle proved to hand every raised '
         'exception to its entry (C11_dispatch); UDF, SVC and SMC (where UNDEFINED) proved to raise with the state untouched (Props/C11raise.v).',
         'Partial: the HSR syndrome (write_hsr) is covered by the '
         'whole-step correspondence only, not yet by theorems; IsExternalAbort/IsAsyncAbort/DebugException are constant false '
         'in the emulator and so in the statement.'),
 'C12': ('cpsr_write_by_instr = CPSRWriteByInstr and spsr_write_by_instr = SPSRWriteByInstr for every value/mask/flag/configuration/state; consequences proved on the spec: unprivileged code cannot alter A/I/F/M, T/J/IT only on exception return, no illegal mode installed, NMFI, SCR.AW/FW; execute() of MRS and MSR (application and system level, immediate and register), CPS (ARM/Thumb), SETEND, ERET, SUBS PC,LR (ARM: all twelve opcodes, both operand forms; Thumb), NOP, CLREX, YIELD, SEV, WFE, WFI each proved equal to Spec/StatusAccess.v / Spec/Return.v (hints touch only the event register and wait flags; YIELD/SEV stop at not-implemented stubs with the state untouched); coproc_accepted proved to be the NSACR/CPACR decision (UNDEFINED when denied). LDM (exception return), RFE and SRS are proved under C03.',
         'Partial: the exception-return statements exclude the UNPREDICTABLE return to Hyp mode with J and T set (shown impossible without the Virtualization Extensions); WFE/WFI trapping to Hyp mode and SMC are covered by the regenerated model and whole-step correspondence only; the round trip "enter an exception, execute its return" is the composition of C11 and these theorems, not stated as one theorem.'),
 'C13': ('MemA read/write proved for every address/size/value/configuration and every translation outcome (bytes at the '
         'translated address, little-endian or byte-reversed by CPSR.E; alignment policy by version and SCTLR.A/U incl. legacy '
         'align-down; alignment fault with DFSR/DFAR and no transfer); MemU proved to choose aligned access / alignment fault / '
         'individual byte transfers exactly as specified; closed forms (value read, final memory) on a flat map incl. the byte loop '
         'with address wrap; instruction fetch little-endian whatever CPSR.E, and the fetch stage of emulate_cycle on a flat map, in ARM state and for 16- and 32-bit Thumb instructions (the bytes at the PC, recorded with their length, nothing else changed: Props/C13step.v); byte reversal involutive; store-then-load returns the '
         'value stored.',
         'Alignment-fault reporting is proved for PMSA (the VMSA data_abort path is C15 territory); the rotated LDR result of the '
         'legacy mode belongs to the load instructions (C02).'),
 'C14': ('translate_address_p proved, for every region configuration (any number of regions, sizes, subregion-disable bits, AP), '
         'address, privilege and direction, to return the flat address or take exactly the specified Data Abort (permission / '
         'background / alignment) with DFAR/DFSR (status, WnR) written and nothing else changed; CheckPermission table; MemA under '
         'the MPU as one function (a denied or misaligned access transfers no data); the deciding region is the highest-numbered '
         'enabled region that hits (spec-level theorem).',
         'Partial: "the faulting instruction performs no base-register write-back" and the abort position inside multi-word '
         'transfers belong to the load/store instruction theorems (C02/C03); LR_abt/SPSR_abt are the C11 entry theorems composed by '
         'C11_dispatch.'),
 'C15': ('TranslateAddressV for the short-descriptor format (stage 1, not Hyp mode) proved equal to an independent specification for every table content, TTBCR.N/PD0/PD1, TTBR0/1, DACR, SCTLR.{M,AFE,EE}, FCSE PID, PRRR/NMRR, virtual address, direction, privilege and alignment: TTBR selection, descriptor addresses, sections, supersections (40-bit), large and small pages, AP/XN/PXN/nG/NS/domain/level, memory attributes by TEX remap; translation, access-flag, domain, permission and alignment faults with DFAR = MVA and DFSR and nothing else changed; the MMU-off flat map; FCSE.',
         'Partial: the long-descriptor (LPAE) stage-1 walk has an executable specification (region selection, three levels, table attributes, access flag, AP) compared with the implementation only (py2v cannot translate that function, so it is absent from the model); its faults are a known finding (NotImplementedError stub), as is SCTLR.TRE=0; Hyp mode, stage 2 and hardware access-flag update are not covered.'),
 'C16': ('lookup, read, write, error cases, histories (induction over operation lists), shape invariant, byte frame and '
         'store/load proved for every device list, address, size and value.',
         'Device payloads are RAM only; bytearray/struct semantics are the Lib/Machine.v model.'),
 'C17': ('31 helper theorems for every width/argument (add-with-carry, shifts/rotates with carry, immediate expansion, '
         'saturation, extract/insert, byte reversal, bit count) and 186 register fields + 11 indexed families + composite '
         'views proved against the reviewed architectural table.',
         'is_ones (every width) and lowest_set_bit_ref (16-bit lists, exhaustive evaluation) are proved in Props/C17more.v; domain of negative shift/width arguments '
         'is outside the model (DESIGN 1.2).'),

 'C18': ('decode is total: for every instruction word and state, decode_instruction (ARM, Thumb 16 and 32 bit, every sub-decoder) returns a class, None, UNDEFINED or the documented not-implemented outcome and leaves the state unchanged, never a host error; with C11_dispatch an UNDEFINED outcome becomes the architectural exception. from_bitarray of every one of the 602 concrete encoding classes proved total: for EVERY integer word and every state it returns an operand record or None (UNPREDICTABLE), or raises UNDEFINED, and leaves the state untouched (Props/C18fb0-7.v).',
         'Partial: totality of the ~270 execute() bodies is a theorem only on the operand domains of their C01-C04/C09/C12 theorems; beyond them it is searched by whole-step runs over members of 600 of the 602 encoding classes with SP/LR/PC operand corners (all 2^16 Thumb halfwords in the thorough tier), which found and led to the repair of five crashes.'),

 'C19': ('proved for every value/mask/state: a PSR write executed in User mode leaves the mode, A/I/F, every other system register, the general and MPU registers and memory unchanged; an SVC from User mode enters Supervisor mode with SPSR_svc.M = User; the unprivileged load/store primitives access memory with User permissions whatever the mode (the AP check itself is C14); a skipped (condition-failed) instruction, whatever the word and mode, changes no CPSR field but IT and no other system register (Props/C19step.v with C05step).',
         'Partial: that no instruction word at all lets User mode change privileged state is not a theorem; it is searched by whole steps from User mode over members of 600 encoding classes (ARM and Thumb SRS to every mode included) with a confinement predicate.'),
 'C20': ('isolation proved for the regenerated model: under every interleaving of the steps of any number of instances each '
         'instance reaches exactly the state it reaches alone (determinism is by construction: a step is a function of the '
         'instance configuration and state); the implementation is compared with that model and with its own solo runs on '
         'interleaved multi-instance schedules.',
         'The theorem is about the model; that the implementation has no hidden shared state is established only by the '
         'correspondence runs. Known finding: the configuration is a process-wide singleton, so instances created with different '
         'configuration files influence each other.'),
}
DESIGN_REF = {k: f'DESIGN.md 3 ({k})' for k in CLAIMS}


def main():
    props = [json.loads(l) for l in open(os.path.join(VERIF, 'properties.jsonl'))]
    checks = []
    na = []
    for p in props:
        pid = p['id']
        if pid in CLAIMS:
            what, caveat = CLAIMS[pid]
            checks.append({
                'property_id': pid,
                'quick_cmd': f'/venv/bin/python harness/check.py {pid} --tier quick',
                'thorough_cmd': f'/venv/bin/python harness/check.py {pid} --tier thorough',
                'evidence_file': f'evidence/{pid}.json',
                'replay_cmd_template': '/venv/bin/python harness/check.py --replay {path}',
                'engine': 'coq-py2v',
                'level_claimed': {'category': 'proof',
                                  'text': 'Coq theorems (coq/theories/Props) about the Gallina model regenerated from /repo by '
                                          'py2v on every run. ' + what, 'design_ref': DESIGN_REF[pid]},
                'level_note': COMMON_NOTE + caveat,
                'technique': 'machine-checked proof in Coq over a model regenerated from source (py2v) + correspondence check'})
        else:
            na.append({'property_id': pid,
                       'reason': 'not yet claimed: the theorems for this property are still being built on the regenerated '
                                 'model (DESIGN.md 4); the whole-emulator model and its correspondence already cover the code'})
    m = {'version': 1, 'setup_cmd': '/venv/bin/python harness/setup.py',
         'hooks': {'guard': 'MATAN1008_ARMULATOR_VERIF',
                   'enable': 'no hooks are needed: the checks observe the emulator through its public attributes',
                   'baseline_off_cmd': 'cd /repo && /venv/bin/python -m pytest -q -p no:cacheprovider',
                   'source_commits': [], 'add_only': True},
         'engines': [{'name': 'coq-py2v', 'path': 'tools/py2v + coq/ + harness/', 'serves_properties': sorted(CLAIMS),
                      'kind_free_text': 'Python-ast -> Gallina translator (whole emulator), Coq 8.16.1 proofs, OCaml '
                                        'extraction, 3-way correspondence harness'}],
         'checks': checks, 'not_applicable': na,
         'notes': 'Every check regenerates the model from /repo, rebuilds the affected proofs, and runs the correspondence.'}
    json.dump(m, open(os.path.join(VERIF, 'MANIFEST.json'), 'w'), indent=1)
    print('claimed:', sorted(CLAIMS))


if __name__ == '__main__':
    main()
