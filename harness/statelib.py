"""Machine-state descriptions shared by the implementation driver and the extracted model.

A state is a dict:
  cfg: {config key: value}   (arm_configurations.json keys; memory_system_architecture 'PMSA'|'VMSA';
                              reset_values: {class name: int})
  R: 34 ints (RName order)   sys: ints per INDEX sys_names   sysl: list of int lists per INDEX sysl_names
  changed: 16 ints   opcode, opcode_len, run, wfe, wfi: ints   executed: None | [code, [fields]]
  mem: [[beg, end, [bytes...]], ...]
"""
import json
import os

CFG_SCALARS = ['number_of_mpu_regions', 'have_security_ext', 'have_virt_ext', 'arch_version',
               'jazelle_accepts_execution', 'memory_system_architecture', 'have_lpae', 'have_mp_ext',
               'have_adv_simd_or_vfp', 'have_thumbee', 'have_jazelle', 'implementation_supports_transient',
               'processor_id', 'is_armv7r_profile', 'has_imp_def_reset_vector', 'write_hsr_hsr_value_24',
               'write_hsr_23_22_cond', 'dfsr_string_12', 'data_abort_hsr_9', 'data_abort_pmsa_change_dfar',
               'translation_walk_sd_l1descaddr_attrs_10', 'translation_walk_sd_l1descaddr_hints_01',
               'coproc_accepted_pl0_undefined', 'impdef_reset_vector', 'impdef_irq_vector', 'impdef_fiq_vector']
MEMARCH = {'VMSA': 1, 'PMSA': 2}

DEFAULT_CFG = {
    "reset_values": {"SCTLR": 0b01000000000001010000000001111001, "MIDR": 0b01000001000011111010011101100000,
                     "ACTLR": 0b111, "VBAR": 0},
    "number_of_mpu_regions": 12, "have_security_ext": True, "have_virt_ext": False, "arch_version": 6,
    "jazelle_accepts_execution": False, "memory_system_architecture": "PMSA", "have_lpae": False,
    "have_mp_ext": False, "have_adv_simd_or_vfp": False, "have_thumbee": False, "have_jazelle": False,
    "implementation_supports_transient": False, "processor_id": 0, "is_armv7r_profile": False,
    "has_imp_def_reset_vector": False, "write_hsr_hsr_value_24": False, "write_hsr_23_22_cond": True,
    "dfsr_string_12": 1, "data_abort_hsr_9": 0, "data_abort_pmsa_change_dfar": True,
    "translation_walk_sd_l1descaddr_attrs_10": True, "translation_walk_sd_l1descaddr_hints_01": True,
    "coproc_accepted_pl0_undefined": True, "impdef_reset_vector": 0, "impdef_irq_vector": 24, "impdef_fiq_vector": 28,
}


def load_index(gen_dir):
    with open(os.path.join(gen_dir, 'INDEX.json')) as f:
        return json.load(f)


def enc_list(l):
    return [len(l)] + [int(x) for x in l]


def cfg_ints(cfg, tables):
    out = []
    for k in CFG_SCALARS:
        v = cfg[k]
        if k == 'memory_system_architecture':
            v = MEMARCH.get(v, 0)
        out.append(int(v))
    resets = []
    rv = cfg.get('reset_values', {})
    for name in tables['sys_names']:
        slot = tables['reg_slots'][name]
        cls = slot[2]
        resets.append(int(rv.get(cls, 0)) if cls else 0)
    return out + enc_list(resets)


def machine_ints(st):
    out = enc_list(st['R']) + enc_list(st['sys'])
    out += [len(st['sysl'])]
    for l in st['sysl']:
        out += enc_list(l)
    out += enc_list(st['changed'])
    out += [st['opcode'], st['opcode_len'], st['run'], st['wfe'], st['wfi']]
    ex = st.get('executed')
    if ex is None:
        out += [0]
    else:
        out += [1, ex[0]] + enc_list(ex[1])
    out += [len(st['mem'])]
    for (b, e, bs) in st['mem']:
        out += [b, e] + enc_list(bs)
    return out


def decode_machine(ints, pos=0):
    """inverse of machine_ints; returns (state dict without cfg, next pos)"""
    def lst():
        nonlocal pos
        n = ints[pos]; pos += 1
        l = ints[pos:pos + n]; pos += n
        return list(l)
    st = {}
    st['R'] = lst()
    st['sys'] = lst()
    nl = ints[pos]; pos += 1
    st['sysl'] = [lst() for _ in range(nl)]
    st['changed'] = lst()
    st['opcode'], st['opcode_len'], st['run'], st['wfe'], st['wfi'] = ints[pos:pos + 5]; pos += 5
    tag = ints[pos]; pos += 1
    if tag == 0:
        st['executed'] = None
    else:
        code = ints[pos]; pos += 1
        st['executed'] = [code, lst()]
    nd = ints[pos]; pos += 1
    st['mem'] = []
    for _ in range(nd):
        b, e = ints[pos:pos + 2]; pos += 2
        st['mem'].append([b, e, lst()])
    return st, pos


def reset_state(tables, cfg=None, mem=None):
    """the state right after ArmV6() construction (before take_reset), computed without the implementation"""
    cfg = dict(DEFAULT_CFG if cfg is None else cfg)
    rv = cfg.get('reset_values', {})
    sys_ = []
    for name in tables['sys_names']:
        cls = tables['reg_slots'][name][2]
        sys_.append(int(rv.get(cls, 0)) if cls else 0)
    n = cfg['number_of_mpu_regions']
    sysl = []
    for name in tables['sysl_names']:
        cls = tables['reg_slots'][name][2]
        sysl.append([int(rv.get(cls, 0)) if cls else 0] * n)
    return {'cfg': cfg, 'R': [0] * 34, 'sys': sys_, 'sysl': sysl, 'changed': [0] * 16, 'opcode': 0, 'opcode_len': 0,
            'run': 1, 'wfe': 0, 'wfi': 0, 'executed': None,
            'mem': mem if mem is not None else [[0, 256, [0] * 256]]}


def diff_states(a, b, tables):
    """human-readable first differences between two decoded machine states"""
    out = []
    rnames = list(tables.get('rnames', [])) or [str(i) for i in range(34)]
    for i, (x, y) in enumerate(zip(a['R'], b['R'])):
        if x != y:
            out.append(f'R[{rnames[i] if i < len(rnames) else i}]: {x:#x} vs {y:#x}')
    for i, (x, y) in enumerate(zip(a['sys'], b['sys'])):
        if x != y:
            out.append(f'{tables["sys_names"][i]}: {x:#x} vs {y:#x}')
    for li, (la, lb) in enumerate(zip(a['sysl'], b['sysl'])):
        if la != lb:
            out.append(f'{tables["sysl_names"][li]}: {la} vs {lb}')
    for k in ('changed', 'opcode', 'opcode_len', 'run', 'wfe', 'wfi', 'executed'):
        if a[k] != b[k]:
            out.append(f'{k}: {a[k]} vs {b[k]}')
    for di, (da, db) in enumerate(zip(a['mem'], b['mem'])):
        if da[:2] != db[:2] or len(da[2]) != len(db[2]):
            out.append(f'device {di}: range/length {da[:2]} len {len(da[2])} vs {db[:2]} len {len(db[2])}')
        else:
            for off, (x, y) in enumerate(zip(da[2], db[2])):
                if x != y:
                    out.append(f'device {di} byte {off:#x}: {x:#x} vs {y:#x}')
                    if len(out) > 12:
                        break
    if len(a['mem']) != len(b['mem']):
        out.append(f'device count {len(a["mem"])} vs {len(b["mem"])}')
    return out[:16]


def zl(v):
    v = int(v)
    return str(v) if v >= 0 else f'({v})'


def coq_list(l):
    return '[' + '; '.join(zl(x) for x in l) + ']'


def coq_machine(st):
    """Coq literal of type machine for a state description"""
    sysl = '[' + '; '.join(coq_list(l) for l in st['sysl']) + ']'
    ex = 'None' if st.get('executed') is None else f'(Some ({zl(st["executed"][0])}, {coq_list(st["executed"][1])}))'
    mem = '[' + '; '.join(f'mk_device {zl(b)} {zl(e)} {coq_list(bs)}' for (b, e, bs) in st['mem']) + ']'
    return (f'(mk_machine {coq_list(st["R"])} {coq_list(st["sys"])} {sysl} {coq_list(st["changed"])} '
            f'{zl(st["opcode"])} {zl(st["opcode_len"])} {zl(st["run"])} {zl(st["wfe"])} {zl(st["wfi"])} {ex} {mem})')


def coq_config(cfg, tables):
    ints = cfg_ints(cfg, tables)
    scal = ints[:len(CFG_SCALARS)]
    resets = ints[len(CFG_SCALARS) + 1:]
    return '(mk_config ' + ' '.join(zl(x) for x in scal) + ' ' + coq_list(resets) + ')'
