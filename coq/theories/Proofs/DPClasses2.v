(* Proofs/DPClasses2.v — STATIC (written by tools/spec/mkdp.py from its table; committed).
   One theorem per data-processing opcode class: with its condition passed and operand fields in range, the
   regenerated execute() equals dp_sem (Proofs/DPSem.v) for every operand value, flag state, mode, configuration. *)
From Coq Require Import ZArith List Bool Lia ZifyBool.
From ArmV Require Import Lib.PyZ Lib.Monad Lib.Machine Spec.Pseudocode Spec.Expected Spec.Arch
  Proofs.BitLemmas Proofs.SpecFacts Proofs.BitsOps Proofs.BitsOps2 Proofs.ShiftOps Proofs.FieldsProofs Proofs.StateLemmas
  Proofs.CondProofs Proofs.GuardProofs Proofs.BankProofs Proofs.MachineOps Spec.DPSem Proofs.DPLemmas Proofs.DPTactics.
From Gen Require Import enums bits_ops shift regviews records hubm opsyn core exec.
Import ListNotations.
Open Scope Z_scope.

Theorem AdcRegisterShiftedRegister_sem cfg instruction setflags m s d n shift_t st :
  ictx cfg st ->
  cond_holds st ->
  0 <= d <= 14 ->
  0 <= n <= 15 ->
  0 <= m <= 15 ->
  0 <= s <= 15 ->
  (shift_t = Pseudocode.SRType_LSL \/ shift_t = Pseudocode.SRType_LSR \/ shift_t = Pseudocode.SRType_ASR \/ shift_t = Pseudocode.SRType_ROR) ->
  AdcRegisterShiftedRegister_execute cfg instruction setflags m s d n shift_t st = dp_sem cfg ADC setflags (Some d) n (Op2RegReg m shift_t s) st.
Proof. dp_tac. Qed.

Theorem AddImmediateThumb_sem cfg instruction setflags d n imm32 st :
  ictx cfg st ->
  cond_holds st ->
  0 <= d <= 14 ->
  0 <= n <= 15 ->
  word imm32 ->
  AddImmediateThumb_execute cfg instruction setflags d n imm32 st = dp_sem cfg ADD setflags (Some d) n (Op2Imm imm32 0) st.
Proof. dp_tac. Qed.

Theorem SubImmediateThumb_sem cfg instruction setflags d n imm32 st :
  ictx cfg st ->
  cond_holds st ->
  0 <= d <= 14 ->
  0 <= n <= 15 ->
  word imm32 ->
  SubImmediateThumb_execute cfg instruction setflags d n imm32 st = dp_sem cfg SUB setflags (Some d) n (Op2Imm imm32 0) st.
Proof. dp_tac. Qed.

Theorem AndImmediate_sem cfg instruction setflags d n imm32 carry st :
  ictx cfg st ->
  cond_holds st ->
  0 <= d <= 15 ->
  0 <= n <= 15 ->
  word imm32 ->
  0 <= carry <= 1 ->
  AndImmediate_execute cfg instruction setflags d n imm32 carry st = dp_sem cfg AND setflags (Some d) n (Op2Imm imm32 carry) st.
Proof. dp_tac. Qed.

Theorem OrrRegisterShiftedRegister_sem cfg instruction setflags m s d n shift_t st :
  ictx cfg st ->
  cond_holds st ->
  0 <= d <= 14 ->
  0 <= n <= 15 ->
  0 <= m <= 15 ->
  0 <= s <= 15 ->
  (shift_t = Pseudocode.SRType_LSL \/ shift_t = Pseudocode.SRType_LSR \/ shift_t = Pseudocode.SRType_ASR \/ shift_t = Pseudocode.SRType_ROR) ->
  OrrRegisterShiftedRegister_execute cfg instruction setflags m s d n shift_t st = dp_sem cfg ORR setflags (Some d) n (Op2RegReg m shift_t s) st.
Proof. dp_tac. Qed.

Theorem MvnRegisterShiftedRegister_sem cfg instruction setflags m s d shift_t st :
  ictx cfg st ->
  cond_holds st ->
  0 <= d <= 14 ->
  0 <= m <= 15 ->
  0 <= s <= 15 ->
  (shift_t = Pseudocode.SRType_LSL \/ shift_t = Pseudocode.SRType_LSR \/ shift_t = Pseudocode.SRType_ASR \/ shift_t = Pseudocode.SRType_ROR) ->
  MvnRegisterShiftedRegister_execute cfg instruction setflags m s d shift_t st = dp_sem cfg MVN setflags (Some d) 0 (Op2RegReg m shift_t s) st.
Proof. dp_tac. Qed.

Theorem Rrx_sem cfg instruction setflags m d st :
  ictx cfg st ->
  cond_holds st ->
  0 <= d <= 15 ->
  0 <= m <= 15 ->
  Rrx_execute cfg instruction setflags m d st = dp_sem cfg MOV setflags (Some d) 0 (Op2Reg m Pseudocode.SRType_RRX 1) st.
Proof. dp_tac. Qed.

Theorem CmnImmediate_sem cfg instruction n imm32 st :
  ictx cfg st ->
  cond_holds st ->
  0 <= n <= 15 ->
  word imm32 ->
  CmnImmediate_execute cfg instruction n imm32 st = dp_sem cfg ADD 1 None n (Op2Imm imm32 0) st.
Proof. dp_tac. Qed.

Theorem TeqRegisterShiftedRegister_sem cfg instruction m s n shift_t st :
  ictx cfg st ->
  cond_holds st ->
  0 <= n <= 15 ->
  0 <= m <= 15 ->
  0 <= s <= 15 ->
  (shift_t = Pseudocode.SRType_LSL \/ shift_t = Pseudocode.SRType_LSR \/ shift_t = Pseudocode.SRType_ASR \/ shift_t = Pseudocode.SRType_ROR) ->
  TeqRegisterShiftedRegister_execute cfg instruction m s n shift_t st = dp_sem cfg EOR 1 None n (Op2RegReg m shift_t s) st.
Proof. dp_tac. Qed.
