"""C10 — register banking."""
import copy
import common as C
import statelib
from framework import Unit

IMPORTS = 'From ArmV Require Import Spec.Arch Corr.BankModelRun.\nFrom Gen Require Import enums core.'
SPEC_IMPORTS = 'From ArmV Require Import Spec.Arch Corr.BankSpecRun.'
MODES = [16, 17, 18, 19, 22, 23, 27, 31]


def bank_cases(rng, tier):
    t = statelib.load_index(C.GEN)['tables']
    out = []
    n_cases = 60 if tier == 'quick' else 1500
    for ci in range(n_cases):
        cfgd = dict(statelib.DEFAULT_CFG)
        if rng.random() < 0.3:
            cfgd['have_virt_ext'] = True
        modes = MODES + ([26] if cfgd['have_virt_ext'] else [])
        st = statelib.reset_state(t, cfg=cfgd, mem=[])
        st['R'] = [7] * 34
        icpsr = t['sys_names'].index('cpsr')
        st['sys'][icpsr] = 0x1F & rng.choice(modes) | 0x10
        ops = []
        for _ in range(rng.randrange(1, 12)):
            n = rng.choice([0, 7, 8, 12, 13, 14, rng.randrange(15)])
            ops.append((n, rng.choice(modes), rng.getrandbits(32)))
        reads = [(n, m) for n in (0, 7, 8, 10, 12, 13, 14) for m in modes]
        calls = [['registers.set_rmode', [n, m, v], False] for (n, m, v) in ops] + \
                [['registers.get_rmode', [n, m], True] for (n, m) in reads]
        cfg = statelib.coq_config(cfgd, t)
        cops = '[' + '; '.join(f'RWrite {n} {m} {v}' for (n, m, v) in ops) + ']'
        crd = '[' + '; '.join(f'({n}, {m})' for (n, m) in reads) + ']'
        out.append({'impl': {'kind': 'calls', 'state': st, 'calls': calls},
                    'model': f'(model_bank {cfg} {cops} {crd} {statelib.coq_machine(st)})',
                    'spec': f'(spec_bank {cops} {crd} 7)', 'label': 'bank_history', 'nontrivial': True})
    return out


def range_cases(rng, tier):
    """search for the range invariant: after one step from an in-range state every register is in 0..2^32-1.  Words: a few
    of every encoding class reached by sampling (so that the multiply/accumulate/long families are always present), with
    operand registers holding boundary values whose sums and products overflow 32 and 64 bits"""
    import stepgen
    import framework
    t = statelib.load_index(C.GEN)['tables']
    out = []
    import wordpool
    corners = [0, 1, 2, 0x7FFFFFFF, 0x80000000, 0x80000001, 0xFFFFFFFF, 0xFFFFFFFE, 0xFFFF0000, 0x0000FFFF, 0x10000, 0x8000, 0xFFFFFFF8]
    for kind, w, c in wordpool.pool(rng, per_class=2 if tier == 'quick' else 30):
        if kind == 't16':
            continue
        if kind == 'arm' and (w >> 28) != 0xF:
            w = (w & 0x0FFFFFFF) | 0xE0000000
        for fill in (0xFFFFFFFF, 0x80000000, 0x7FFFFFFF, None, None, None):
            st = stepgen.random_state(rng, t, thumb=(kind != 'arm'), mpu=False)
            for i in range(33):
                r = rng.random()
                if fill is not None:
                    st['R'][i] = fill
                elif r < 0.5:
                    st['R'][i] = rng.choice(corners)
                elif r < 0.7:
                    st['R'][i] = 0x1000 + 8 * rng.randrange(0, 24)
            if kind == 't32':
                st['_thumb32'] = True
            stepgen.put_instr(st, w, 32)
            out.append({'impl': {'kind': 'step_range', 'state': stepgen.clean(st)}, 'model': None, 'spec': '[0]',
                        'label': 'range_' + kind, 'nontrivial': True})
    for _ in range(300 if tier == 'quick' else 30000):
        st = stepgen.random_state(rng, t, thumb=True, mpu=False)
        for i in range(33):
            if rng.random() < 0.5:
                st['R'][i] = rng.choice(corners)
        stepgen.put_instr(st, stepgen.random_thumb16(rng), 16)
        out.append({'impl': {'kind': 'step_range', 'state': stepgen.clean(st)}, 'model': None, 'spec': '[0]',
                    'label': 'range_t16', 'nontrivial': True})
    return out


PROPS_FILES = ['C10', 'C10dp']


def units():
    thms = ['C10_bank_table', 'C10_alias', 'C10_get_rmode', 'C10_set_rmode', 'C10_rw', 'C10_history', 'C10_get',
            'C10_get_pc', 'C10_set', 'C10_get_spsr', 'C10_set_spsr']
    needs = ['registers.Registers.look_up_rname', 'registers.Registers.get_rmode', 'registers.Registers.set_rmode',
             'registers.Registers.get', 'registers.Registers.set', 'registers.Registers.get_spsr',
             'registers.Registers.set_spsr']
    return [Unit('banking', thms, ['Proofs/BankProofs.v'], needs, bank_cases, IMPORTS, SPEC_IMPORTS),
            Unit('range_search', ['C10_dp_range', 'C10_ictx_values', 'C10_dp_cpsr_low'], ['Proofs/DPRange.v', 'Proofs/StepDP.v'], [], range_cases, IMPORTS,
                 'From Coq Require Import ZArith List.')]
