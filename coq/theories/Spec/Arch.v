(* Spec/Arch.v — system-level ARM ARM pseudocode (A8.3 conditions, A2.5.2 ITSTATE, B1.3 modes and
   banking, B1.3.3 PSR writes), written over plain values.  Hand-written oracle; refers to no
   generated code. *)
From Coq Require Import ZArith List Bool Lia.
From ArmV Require Import Spec.Pseudocode.
Import ListNotations.
Open Scope Z_scope.

(* ---------- CPSR fields (architectural positions) ---------- *)
Definition psr_N (p : Z) := bit p 31.  Definition psr_Z (p : Z) := bit p 30.
Definition psr_C (p : Z) := bit p 29.  Definition psr_V (p : Z) := bit p 28.
Definition psr_Q (p : Z) := bit p 27.  Definition psr_J (p : Z) := bit p 24.
Definition psr_GE (p : Z) := bits p 19 16.
Definition psr_IT (p : Z) := bits p 15 10 * 4 + bits p 26 25.
Definition psr_E (p : Z) := bit p 9.   Definition psr_A (p : Z) := bit p 8.
Definition psr_I (p : Z) := bit p 7.   Definition psr_F (p : Z) := bit p 6.
Definition psr_T (p : Z) := bit p 5.   Definition psr_M (p : Z) := bits p 4 0.
Definition with_IT (p it : Z) : Z := insert (insert p 15 10 (bits it 7 2)) 26 25 (bits it 1 0).

(* ---------- A8.3 ConditionPassed: the 16-entry table ---------- *)
Definition ConditionHolds (cond n z c v : Z) : bool :=
  let base :=
    match bits cond 3 1 with
    | 0 => z =? 1                       (* EQ / NE *)
    | 1 => c =? 1                       (* CS / CC *)
    | 2 => n =? 1                       (* MI / PL *)
    | 3 => v =? 1                       (* VS / VC *)
    | 4 => (c =? 1) && (z =? 0)         (* HI / LS *)
    | 5 => n =? v                       (* GE / LT *)
    | 6 => (n =? v) && (z =? 0)         (* GT / LE *)
    | _ => true                         (* AL *)
    end in
  if (bit cond 0 =? 1) && negb (cond =? 15) then negb base else base.

(* A8.3 CurrentCond: ARM cond field; Thumb B<c> T1 (16-bit 1101 cond, cond <> 111x) and T3
   (11110 S cond imm6 10 J1 0 J2 imm11, cond <> 111x) fields; otherwise the IT state *)
Definition InstrSet_ARM := 0. Definition InstrSet_THUMB := 1.
Definition CurrentCond (iset opcode opcode_len itstate : Z) : Z :=
  if iset =? InstrSet_ARM then bits opcode 31 28
  else if (opcode_len =? 16) && (bits opcode 15 12 =? 13) && negb (bits opcode 11 9 =? 7) then bits opcode 11 8
  else if (opcode_len =? 32) && (bits opcode 31 27 =? 30) && (bits opcode 15 14 =? 2) && (bit opcode 12 =? 0)
          && negb (bits opcode 25 23 =? 7) then bits opcode 25 22
  else if negb (bits itstate 3 0 =? 0) then bits itstate 7 4
  else if itstate =? 0 then 14
  else 0 (* UNPREDICTABLE: the code's documented choice *).

(* ---------- A2.5.2 ITAdvance ---------- *)
Definition ITAdvance (it : Z) : Z :=
  if bits it 2 0 =? 0 then 0 else bits it 7 5 * 32 + (bits it 4 0 * 2) mod 32.
Definition InITBlock (it : Z) : bool := negb (bits it 3 0 =? 0).
Definition LastInITBlock (it : Z) : bool := bits it 3 0 =? 8.

(* ---------- B1.3.1 modes ---------- *)
Definition M_usr := 16. Definition M_fiq := 17. Definition M_irq := 18. Definition M_svc := 19.
Definition M_mon := 22. Definition M_abt := 23. Definition M_hyp := 26. Definition M_und := 27. Definition M_sys := 31.
Definition BadMode (have_sec have_virt mode : Z) : bool :=
  if (mode =? M_usr) || (mode =? M_fiq) || (mode =? M_irq) || (mode =? M_svc) || (mode =? M_abt)
     || (mode =? M_und) || (mode =? M_sys) then false
  else if mode =? M_mon then have_sec =? 0
  else if mode =? M_hyp then have_virt =? 0
  else true.

(* ---------- B1.3.2 register banking ----------
   a physical register is (architectural number, bank); banks are named by the mode that owns them *)
Inductive bank := Busr | Bfiq | Birq | Bsvc | Babt | Bund | Bmon | Bhyp.
Definition bank_eqb (a b : bank) : bool :=
  match a, b with
  | Busr, Busr | Bfiq, Bfiq | Birq, Birq | Bsvc, Bsvc | Babt, Babt | Bund, Bund | Bmon, Bmon | Bhyp, Bhyp => true
  | _, _ => false
  end.
Definition mode_bank (mode : Z) : bank :=
  if mode =? M_fiq then Bfiq else if mode =? M_irq then Birq else if mode =? M_svc then Bsvc
  else if mode =? M_abt then Babt else if mode =? M_und then Bund else if mode =? M_mon then Bmon
  else if mode =? M_hyp then Bhyp else Busr.
(* which copy of Rn (n <= 14) a legal mode sees *)
Definition phys_bank (n mode : Z) : bank :=
  if n <=? 7 then Busr
  else if n <=? 12 then (if mode =? M_fiq then Bfiq else Busr)
  else if n =? 13 then mode_bank mode
  else (* LR *) if mode =? M_hyp then Busr else mode_bank mode.
Definition same_phys (n m1 m2 : Z) : bool := bank_eqb (phys_bank n m1) (phys_bank n m2).

(* histories of writes to (register number, mode): the value the architecture says (n, m) holds is that
   of the last write to an aliasing register *)
Inductive rop := RWrite (n mode v : Z).
Fixpoint last_write (ops : list rop) (n m : Z) (init : Z) : Z :=
  match ops with
  | [] => init
  | RWrite n' m' v :: t => last_write t n m (if (n' =? n) && same_phys n' m' m then v else init)
  end.

(* ---------- B1.3.3 CPSRWriteByInstr, as a bit mask ----------
   bit i of the new CPSR is bit i of `value` where writable, else the old bit *)
Definition merge (old new mask : Z) : Z := Z.lor (Z.land old (Z.lnot mask)) (Z.land new mask).
Definition mask_bits (hi lo : Z) : Z := (2 ^ (hi - lo + 1) - 1) * 2 ^ lo.

Record sysctx := {
  c_have_sec : Z; c_have_virt : Z;
  c_scr : Z; c_sctlr : Z; c_nsacr : Z
}.
Definition scr_NS (x : sysctx) := bit (c_scr x) 0.
Definition scr_FW (x : sysctx) := bit (c_scr x) 4.
Definition scr_AW (x : sysctx) := bit (c_scr x) 5.
Definition sctlr_NMFI (x : sysctx) := bit (c_sctlr x) 27.
Definition nsacr_RFR (x : sysctx) := bit (c_nsacr x) 19.
Definition IsSecure (x : sysctx) (cpsr : Z) : bool :=
  (c_have_sec x =? 0) || (scr_NS x =? 0) || (psr_M cpsr =? M_mon).

Definition mode_write_ok (x : sysctx) (cpsr value excp : Z) : bool :=
  let vm := bits value 4 0 in
  let sec := IsSecure x cpsr in
  negb (BadMode (c_have_sec x) (c_have_virt x) vm)
  && negb (negb sec && (vm =? M_mon))
  && negb (negb sec && (vm =? M_fiq) && (nsacr_RFR x =? 1))
  && negb ((scr_NS x =? 0) && (vm =? M_hyp))
  && negb (negb sec && negb (psr_M cpsr =? M_hyp) && (vm =? M_hyp))
  && negb ((psr_M cpsr =? M_hyp) && negb (vm =? M_hyp) && (excp =? 0)).

Definition cpsr_write_mask (x : sysctx) (cpsr value bytemask excp : Z) : Z :=
  let priv := negb (psr_M cpsr =? M_usr) in
  let sec := IsSecure x cpsr in
  let b3 := bit bytemask 3 =? 1 in let b2 := bit bytemask 2 =? 1 in
  let b1 := bit bytemask 1 =? 1 in let b0 := bit bytemask 0 =? 1 in
  let ex := negb (excp =? 0) in
  Z.lor (if b3 then mask_bits 31 27 else 0)
 (Z.lor (if b3 && ex then mask_bits 26 24 else 0)
 (Z.lor (if b2 then mask_bits 19 16 else 0)
 (Z.lor (if b1 && ex then mask_bits 15 10 else 0)
 (Z.lor (if b1 then mask_bits 9 9 else 0)
 (Z.lor (if b1 && priv && (sec || (scr_AW x =? 1) || negb (c_have_virt x =? 0)) then mask_bits 8 8 else 0)
 (Z.lor (if b0 && priv then mask_bits 7 7 else 0)
 (Z.lor (if b0 && priv && ((sctlr_NMFI x =? 0) || (bit value 6 =? 0))
            && (sec || (scr_FW x =? 1) || negb (c_have_virt x =? 0)) then mask_bits 6 6 else 0)
 (Z.lor (if b0 && ex then mask_bits 5 5 else 0)
        (if b0 && priv && mode_write_ok x cpsr value excp then mask_bits 4 0 else 0))))))))).
(* B1.3.3 CPSRWriteByInstr as the pseudocode writes it: a sequence of conditional field assignments.
   CPSR.M is read (for the privilege and security tests) before any assignment can change it. *)
Definition wfield (c : bool) (hi lo value p : Z) : Z := if c then insert p hi lo (bits value hi lo) else p.
Definition CPSRWriteByInstr (x : sysctx) (cpsr value bytemask excp : Z) : Z :=
  let priv := negb (psr_M cpsr =? M_usr) in
  let sec := IsSecure x cpsr in
  let b3 := bit bytemask 3 =? 1 in let b2 := bit bytemask 2 =? 1 in
  let b1 := bit bytemask 1 =? 1 in let b0 := bit bytemask 0 =? 1 in
  let ex := negb (excp =? 0) in
  let p := wfield b3 31 27 value cpsr in
  let p := wfield (b3 && ex) 26 24 value p in
  let p := wfield b2 19 16 value p in
  let p := wfield (b1 && ex) 15 10 value p in
  let p := wfield b1 9 9 value p in
  let p := wfield (b1 && priv && (sec || (scr_AW x =? 1) || negb (c_have_virt x =? 0))) 8 8 value p in
  let p := wfield (b0 && priv) 7 7 value p in
  let p := wfield (b0 && priv && ((sctlr_NMFI x =? 0) || (bit value 6 =? 0))
                   && (sec || (scr_FW x =? 1) || negb (c_have_virt x =? 0))) 6 6 value p in
  let p := wfield (b0 && ex) 5 5 value p in
  wfield (b0 && priv && mode_write_ok x cpsr value excp) 4 0 value p.
(* the same function as one masked merge (proved equal in Proofs/ArchFacts.v) *)
Definition CPSRWriteByMask (x : sysctx) (cpsr value bytemask excp : Z) : Z :=
  merge cpsr value (cpsr_write_mask x cpsr value bytemask excp).

(* ---------- A2.3.1 writes to the PC ---------- *)
Definition InstrSet_JAZELLE := 2. Definition InstrSet_THUMBEE := 3.
Definition clear_low (addr n : Z) : Z := insert addr (n - 1) 0 0.       (* addr<n-1:0> := 0 *)
Definition with_iset (cpsr iset : Z) : Z := insert (insert cpsr 24 24 (bit iset 1)) 5 5 (bit iset 0).
Definition iset_of_psr (cpsr : Z) : Z := bit cpsr 24 * 2 + bit cpsr 5.
(* each returns the new CPSR and the branch target; None = UNPREDICTABLE, where the code documents "no effect" *)
Definition BranchWritePC (cpsr jazelle_accepts addr : Z) : Z * option Z :=
  let iset := iset_of_psr cpsr in
  if iset =? InstrSet_ARM then (cpsr, Some (clear_low addr 2))
  else if iset =? InstrSet_JAZELLE then (cpsr, Some (if jazelle_accepts =? 0 then clear_low addr 2 else addr))
  else (cpsr, Some (clear_low addr 1)).
Definition SelectInstrSet (cpsr iset : Z) : Z :=
  if (iset =? InstrSet_ARM) && (iset_of_psr cpsr =? InstrSet_THUMBEE) then cpsr else with_iset cpsr iset.
Definition BXWritePC (cpsr addr : Z) : Z * option Z :=
  if iset_of_psr cpsr =? InstrSet_THUMBEE then
    (if bit addr 0 =? 1 then (cpsr, Some (clear_low addr 1)) else (cpsr, None))
  else if bit addr 0 =? 1 then (SelectInstrSet cpsr InstrSet_THUMB, Some (clear_low addr 1))
  else if bit addr 1 =? 0 then (SelectInstrSet cpsr InstrSet_ARM, Some addr)
  else (cpsr, None).
Definition ALUWritePC (arch cpsr jaz addr : Z) : Z * option Z :=
  if (arch >=? 7) && (iset_of_psr cpsr =? InstrSet_ARM) then BXWritePC cpsr addr else BranchWritePC cpsr jaz addr.
Definition LoadWritePC (arch cpsr jaz addr : Z) : Z * option Z :=
  if arch >=? 5 then BXWritePC cpsr addr else BranchWritePC cpsr jaz addr.
(* the value read from R15 *)
Definition PCRead (cpsr pc : Z) : Z := (pc + (if iset_of_psr cpsr =? InstrSet_ARM then 8 else 4)) mod 2 ^ 32.
