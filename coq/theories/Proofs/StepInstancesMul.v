(* Proofs/StepInstancesMul.v — the multiply family end to end, one member: MUL{S}<c> Rd, Rn, Rm (ARM, encoding A1).  A generic
   statement for any instruction whose body completes without touching the PC (`plain_step`), then its instance. *)
Set Default Timeout 240.
From Coq Require Import ZArith List Bool Lia ZifyBool.
From ArmV Require Import Lib.PyZ Lib.Monad Lib.Machine Spec.Pseudocode Spec.Arch Spec.MachineView Spec.Branches Spec.StepFrame
  Spec.OperandSpec Spec.DPSem Spec.Arith
  Proofs.SpecFacts Proofs.StateLemmas Proofs.CondProofs Proofs.GuardProofs Proofs.BankProofs Proofs.MachineOps Proofs.DPLemmas
  Proofs.BranchProofs Proofs.ArithProofs Proofs.StepProofs Proofs.StepDP Proofs.StepInstances Proofs.OpTac
  Proofs.OpsA0 Proofs.OpsA1 Proofs.OpsA2 Proofs.OpsA3 Proofs.OpsA4 Proofs.OpsA5 Proofs.OpsA6 Proofs.OpsA7.
From Gen Require Import enums bits_ops shift regviews records hubm opsyn core exec conc decoders step.
Import ListNotations.
Open Scope Z_scope.
Ltac Zify.zify_post_hook ::= Z.to_euclidean_division_equations.

(* the body left the PC, its "written" flag and the instruction length alone *)
Definition keeps_pc (s s2 : machine) : Prop :=
  getl (changed s2) 15 = getl (changed s) 15 /\ getl (R s2) pc_index = getl (R s) pc_index /\ opcode_len s2 = opcode_len s.
Lemma keeps_pc_refl s : keeps_pc s s.
Proof. repeat split. Qed.
Lemma keeps_pc_trans a b c : keeps_pc a b -> keeps_pc b c -> keeps_pc a c.
Proof. intros (A1 & A2 & A3) (B1 & B2 & B3). repeat split; congruence. Qed.
Lemma keeps_pc_rset s d v : 0 <= d <= 14 -> keeps_pc s (rset s d v).
Proof.
  intros Hd. pose proof (spec_ridx_range d (mode_of s) ltac:(lia)) as Rx.
  unfold keeps_pc, rset, mark_changed. cbn [changed R opcode_len set_R set_changed]. split; [|split; [|reflexivity]].
  - unfold getl. rewrite nth_upd_other by lia. reflexivity.
  - apply getl_setl_other; unfold pc_index; lia.
Qed.
Lemma keeps_pc_upd_cpsr s f : keeps_pc s (upd_cpsr s f).
Proof. repeat split. Qed.

Theorem plain_step cfg s w s1 cls op s2 :
  ArmV6_fetch_instruction cfg s = Ok w s1 ->
  ArmV6_decode_instruction w s1 = Ok (Some cls) s1 ->
  from_bitarray_dispatch cfg cls w s1 = Ok (Some op) s1 ->
  execute_dispatch cfg op (begin_instr s1 op) = Ok tt s2 ->
  ictx cfg s1 -> ictx cfg s2 -> keeps_pc (begin_instr s1 op) s2 ->
  ArmV6_emulate_cycle cfg s = Ok tt (AdvancePC (it_step_after s1 s2)) /\
  pc_of (AdvancePC (it_step_after s1 s2)) = add32 (pc_of s1) (opcode_len s1 / 8).
Proof.
  intros Hf Hd Hb He Hctx Hctx2 (Hch & Hpc & Hlen). split.
  - apply (step_completes cfg s w s1 cls op s2 Hf Hd Hb He).
    + apply (ok_cpsr cfg s2 (i_ok cfg s2 Hctx2)).
    + apply (ok_changed_len cfg s2 (i_ok cfg s2 Hctx2)).
  - pose proof (ok_R_len cfg s2 (i_ok cfg s2 Hctx2)) as HL2.
    change (getl (changed (begin_instr s1 op)) 15) with 0 in Hch.
    change (getl (R (begin_instr s1 op)) pc_index) with (pc_of s1) in Hpc.
    change (opcode_len (begin_instr s1 op)) with (opcode_len s1) in Hlen.
    unfold AdvancePC, pc_written, it_step_after.
    destruct (InITBlock (psr_IT (cpsr_of s1))); unfold it_advance_state; cbn [changed R opcode_len set_sys];
      rewrite Hch; cbn [Z.eqb negb]; cbv iota; unfold pc_of at 1; cbn [R set_R set_sys];
      (rewrite getl_setl_same by (unfold pc_index; rewrite ?HL2; lia));
      unfold pc_of at 1; cbn [R set_sys]; rewrite Hpc, Hlen; reflexivity.
Qed.

(* ================= MUL (ARM) A1: cond != 1111, 0000 000S Rd (0000) Rm 1001 Rn ================= *)
Definition is_mul_a1 (w : Z) : Prop :=
  bits w 31 28 <> 15 /\ bit w 27 = 0 /\ bit w 26 = 0 /\ bit w 25 = 0 /\ bit w 24 = 0 /\ bit w 23 = 0 /\ bit w 22 = 0 /\ bit w 21 = 0
  /\ bit w 7 = 1 /\ bit w 6 = 0 /\ bit w 5 = 0 /\ bit w 4 = 1 /\ regs13 [bits w 19 16; bits w 11 8; bits w 3 0] = true.

Lemma decode_MulA1 w s : 0 <= w < 2 ^ 32 -> is_mul_a1 w -> iset_of s = 0 ->
  ArmV6_decode_instruction w s = Ok (Some enc_MulA1) s.
Proof.
  intros Hw (Hc & H27 & H26 & H25 & H24 & H23 & H22 & H21 & H7 & H6 & H5 & H4 & Hr) Hi. split_regs.
  unfold ArmV6_decode_instruction, op_decode_instruction.
  rewrite !run_bind, current_instr_set_spec. cbv beta iota. rewrite Hi. unfold InstrSet_ARM. cbn [Z.eqb]. cbv iota.
  rewrite run_bind.
  assert (D : dec_arm_instruction_set w = Val (Some enc_MulA1)).
  { dec_step dec_arm_instruction_set. pose_expand w 27 25. pose_expand w 27 26. ops_if. cbn [ebind].
    dec_step dec_arm_data_processing_and_miscellaneous_instructions. pose_expand w 24 23. pose_expand w 7 4. ops_if. cbn [ebind].
    dec_step dec_arm_multiply_and_multiply_accumulate. pose_expand w 23 21. ops_if. reflexivity. }
  rewrite D. reflexivity.
Qed.

Lemma from_bitarray_MulA1 cfg w s : 0 <= w < 2 ^ 32 -> is_mul_a1 w ->
  from_bitarray_dispatch cfg enc_MulA1 w s = Ok (Some (code_Mul, [w; bit w 20; bits w 11 8; bits w 19 16; bits w 3 0])) s.
Proof.
  intros Hw (_ & _ & _ & _ & _ & _ & _ & _ & _ & _ & _ & _ & Hr).
  pose proof (ops_MulA1 cfg w s Hw Hr) as H. unfold fb_out, fb_plain, fb_opt, fb_res, fb_res_opt, fb_m, fb_m_opt in H.
  unfold from_bitarray_dispatch, enc_MulA1. cbv iota. unfold bind, ret, lift in *.
  repeat match goal with
  | H : match ?x with _ => _ end = _ |- context[?x] => destruct x; try discriminate H
  end.
  inversion H. first [reflexivity | match goal with E : _ = Some _ |- _ => rewrite E end; reflexivity].
Qed.

Lemma MUL_sem_ok cfg s S m d n : ictx cfg s -> 0 <= d <= 14 ->
  ictx cfg (MUL_sem (cfg_arch_version cfg) s S m d n) /\ keeps_pc s (MUL_sem (cfg_arch_version cfg) s S m d n).
Proof.
  intros Hctx Hd. unfold MUL_sem. cbv zeta.
  set (r := (SInt (rget s n) 32 * SInt (rget s m) 32) mod 2 ^ 32).
  assert (Wr : word r) by (unfold r, word; apply Z.mod_pos_bound; lia).
  assert (H1 : ictx cfg (rset s d r)) by (apply ictx_rset; [exact Hctx|lia|exact Wr]).
  pose proof (keeps_pc_rset s d r Hd) as K1.
  destruct (S =? 0); [split; assumption|].
  assert (Hb : 0 <= bit r 31 <= 1) by apply bit_range.
  assert (Hz : 0 <= zbit r <= 1) by (unfold zbit; destruct (r =? 0); lia).
  assert (H2 : ictx cfg (upd_cpsr (rset s d r) (setbit 31 (bit r 31)))) by (apply ictx_upd_bit; [exact H1|lia|exact Hb]).
  assert (H3 : ictx cfg (upd_cpsr (upd_cpsr (rset s d r) (setbit 31 (bit r 31))) (setbit 30 (zbit r)))) by (apply ictx_upd_bit; [exact H2|lia|exact Hz]).
  destruct (cfg_arch_version cfg =? 4).
  - split; [apply ictx_upd_bit; [exact H3|lia|lia]|].
    eapply keeps_pc_trans; [exact K1|]. eapply keeps_pc_trans; [apply keeps_pc_upd_cpsr|].
    eapply keeps_pc_trans; [apply keeps_pc_upd_cpsr|apply keeps_pc_upd_cpsr].
  - split; [exact H3|]. eapply keeps_pc_trans; [exact K1|]. eapply keeps_pc_trans; apply keeps_pc_upd_cpsr.
Qed.

Theorem mul_a1_step cfg s w s1 :
  ArmV6_fetch_instruction cfg s = Ok w s1 ->
  0 <= w < 2 ^ 32 -> is_mul_a1 w -> iset_of s1 = 0 -> ictx cfg s1 -> cond_holds s1 ->
  let d := bits w 19 16 in let n := bits w 3 0 in let m := bits w 11 8 in
  let op := (code_Mul, [w; bit w 20; m; d; n]) in
  let s2 := MUL_sem (cfg_arch_version cfg) (begin_instr s1 op) (bit w 20) m d n in
  ArmV6_emulate_cycle cfg s = Ok tt (AdvancePC (it_step_after s1 s2)) /\
  pc_of (AdvancePC (it_step_after s1 s2)) = add32 (pc_of s1) (opcode_len s1 / 8).
Proof.
  intros Hf Hw Hcube Hi Hctx Hcond. pose_all_ranges. intros d n m op s2.
  pose proof Hcube as (_ & _ & _ & _ & _ & _ & _ & _ & _ & _ & _ & _ & Hr). split_regs.
  assert (Qd : 0 <= d <= 12) by (unfold d; lia). assert (Qn : 0 <= n <= 12) by (unfold n; lia). assert (Qm : 0 <= m <= 12) by (unfold m; lia).
  destruct (MUL_sem_ok cfg (begin_instr s1 op) (bit w 20) m d n (ictx_begin cfg s1 op Hctx) ltac:(lia)) as [Hc2 Hk].
  apply (plain_step cfg s w s1 enc_MulA1 op s2 Hf); try assumption.
  - apply decode_MulA1; assumption.
  - apply from_bitarray_MulA1; assumption.
  - change (execute_dispatch cfg op (begin_instr s1 op)) with (Mul_execute cfg w (bit w 20) m d n (begin_instr s1 op)).
    apply Mul_sem; try lia; [apply ictx_begin; exact Hctx|apply cond_holds_begin; exact Hcond].
Qed.

(* ================= CLZ (ARM) A1: cond != 1111, 0001 0110 (1111) Rd (1111) 0001 Rm ================= *)
Definition is_clz_a1 (w : Z) : Prop :=
  bits w 31 28 <> 15 /\ bit w 27 = 0 /\ bit w 26 = 0 /\ bit w 25 = 0 /\ bit w 24 = 1 /\ bit w 23 = 0 /\ bit w 22 = 1 /\ bit w 21 = 1
  /\ bit w 20 = 0 /\ bit w 7 = 0 /\ bit w 6 = 0 /\ bit w 5 = 0 /\ bit w 4 = 1 /\ regs13 [bits w 15 12; bits w 3 0] = true.

Lemma decode_ClzA1 w s : 0 <= w < 2 ^ 32 -> is_clz_a1 w -> iset_of s = 0 ->
  ArmV6_decode_instruction w s = Ok (Some enc_ClzA1) s.
Proof.
  intros Hw (Hc & H27 & H26 & H25 & H24 & H23 & H22 & H21 & H20 & H7 & H6 & H5 & H4 & Hr) Hi. split_regs.
  unfold ArmV6_decode_instruction, op_decode_instruction.
  rewrite !run_bind, current_instr_set_spec. cbv beta iota. rewrite Hi. unfold InstrSet_ARM. cbn [Z.eqb]. cbv iota.
  rewrite run_bind.
  assert (D : dec_arm_instruction_set w = Val (Some enc_ClzA1)).
  { dec_step dec_arm_instruction_set. pose_expand w 27 25. pose_expand w 27 26. ops_if. cbn [ebind].
    dec_step dec_arm_data_processing_and_miscellaneous_instructions. pose_expand w 24 23. ops_if. cbn [ebind].
    dec_step dec_arm_miscellaneous_instructions. pose_expand w 6 4. pose_expand w 22 21. ops_if. reflexivity. }
  rewrite D. reflexivity.
Qed.

Lemma from_bitarray_ClzA1 cfg w s : 0 <= w < 2 ^ 32 -> is_clz_a1 w ->
  from_bitarray_dispatch cfg enc_ClzA1 w s = Ok (Some (code_Clz, [w; bits w 3 0; bits w 15 12])) s.
Proof.
  intros Hw (_ & _ & _ & _ & _ & _ & _ & _ & _ & _ & _ & _ & _ & Hr).
  pose proof (ops_ClzA1 w s Hw Hr) as H. unfold fb_out, fb_plain, fb_opt, fb_res, fb_res_opt, fb_m, fb_m_opt in H.
  unfold from_bitarray_dispatch, enc_ClzA1. cbv iota. unfold bind, ret, lift in *.
  repeat match goal with
  | H : match ?x with _ => _ end = _ |- context[?x] => destruct x; try discriminate H
  end.
  inversion H. first [reflexivity | match goal with E : _ = Some _ |- _ => rewrite E end; reflexivity].
Qed.

Lemma clz_word x : 0 <= x -> word (CountLeadingZeroBits32 x) \/ x >= 2 ^ 32.
Proof.
  intros Hx. destruct (Z_lt_ge_dec x (2 ^ 32)) as [Hlt|Hge]; [left|right; lia].
  unfold CountLeadingZeroBits32, word. destruct (x =? 0) eqn:E; [change (2 ^ 32) with 4294967296; lia|].
  assert (0 < x) by lia. pose proof (Z.log2_nonneg x). assert (Z.log2 x < 32) by (apply Z.log2_lt_pow2; lia).
  change (2 ^ 32) with 4294967296. lia.
Qed.

Theorem clz_a1_step cfg s w s1 :
  ArmV6_fetch_instruction cfg s = Ok w s1 ->
  0 <= w < 2 ^ 32 -> is_clz_a1 w -> iset_of s1 = 0 -> ictx cfg s1 -> cond_holds s1 ->
  let d := bits w 15 12 in let m := bits w 3 0 in
  let op := (code_Clz, [w; m; d]) in
  let s2 := CLZ_sem (begin_instr s1 op) m d in
  ArmV6_emulate_cycle cfg s = Ok tt (AdvancePC (it_step_after s1 s2)) /\
  pc_of (AdvancePC (it_step_after s1 s2)) = add32 (pc_of s1) (opcode_len s1 / 8).
Proof.
  intros Hf Hw Hcube Hi Hctx Hcond. pose_all_ranges. intros d m op s2.
  pose proof Hcube as (_ & _ & _ & _ & _ & _ & _ & _ & _ & _ & _ & _ & _ & Hr). split_regs.
  assert (Qd : 0 <= d <= 12) by (unfold d; lia). assert (Qm : 0 <= m <= 12) by (unfold m; lia).
  pose proof (ictx_begin cfg s1 op Hctx) as Hctx0.
  pose proof (word_rget cfg (begin_instr s1 op) m Hctx0 ltac:(lia)) as Wm.
  assert (Wv : word (CountLeadingZeroBits32 (rget (begin_instr s1 op) m))).
  { destruct (clz_word (rget (begin_instr s1 op) m) ltac:(destruct Wm; lia)) as [W|W]; [exact W|destruct Wm; lia]. }
  apply (plain_step cfg s w s1 enc_ClzA1 op s2 Hf); try assumption.
  - apply decode_ClzA1; assumption.
  - apply from_bitarray_ClzA1; assumption.
  - change (execute_dispatch cfg op (begin_instr s1 op)) with (Clz_execute cfg w m d (begin_instr s1 op)).
    apply Clz_sem; try lia; [exact Hctx0|apply cond_holds_begin; exact Hcond].
  - unfold s2, CLZ_sem. apply ictx_rset; [exact Hctx0|lia|exact Wv].
  - unfold s2, CLZ_sem. apply keeps_pc_rset. lia.
Qed.
