(* Props/C13.v — C13: the memory access model.  Statements only; proofs in Proofs/MemProofs.v (code = Spec/Memory.v)
   and Proofs/MemFacts.v (consequences of the specification). *)
From Coq Require Import ZArith Bool List.
From ArmV Require Import Lib.PyZ Lib.Monad Lib.Machine Spec.Pseudocode Spec.Arch Spec.MachineView Spec.Hub Spec.Memory
  Proofs.StateLemmas Proofs.BankProofs Proofs.HubProofs Proofs.MemProofs Proofs.MemFacts.
From Gen Require Import enums bits_ops regviews core.
Import ListNotations.
Open Scope Z_scope.

(* ---- MemA, for any translation outcome (MPU on or off, PMSA or VMSA): the bytes at the translated address, in the
        data endianness; under strict alignment an unaligned address is an alignment fault and nothing is transferred ---- *)
Theorem C13_MemA_read cfg address size priv wa s va pa s1 :
  valid_size size = true -> hub_ok (mem s1) ->
  MemA_va (cfg_arch_version cfg) s address size = Some va ->
  translated cfg s va priv 0 size wa pa s1 ->
  ArmV6_mem_a_with_priv_get cfg address size priv wa s = Ok (MemA_read s1 pa size) s1.
Proof. exact (mem_a_get_ok cfg address size priv wa s va pa s1). Qed.
Print Assumptions C13_MemA_read.
Theorem C13_MemA_write cfg address size priv wa value s va pa s1 :
  valid_size size = true -> 0 <= value < 2 ^ (8 * size) ->
  MemA_va (cfg_arch_version cfg) s address size = Some va ->
  translated cfg s va priv 1 size wa pa s1 ->
  ArmV6_mem_a_with_priv_set cfg address size priv wa value s = Ok tt (MemA_write s1 pa size value).
Proof. exact (mem_a_set_ok cfg address size priv wa value s va pa s1). Qed.
Print Assumptions C13_MemA_write.
Theorem C13_MemA_read_fault cfg address size priv wa s : pmsa cfg -> word (getl (sys s) 23) ->
  MemA_va (cfg_arch_version cfg) s address size = None ->
  ArmV6_mem_a_with_priv_get cfg address size priv wa s
  = Exc (EDataAbort DAbort_ALIGNMENT 0) (pmsa_fault_state s address 0 FS_alignment).
Proof. exact (mem_a_get_alignment_fault cfg address size priv wa s). Qed.
Print Assumptions C13_MemA_read_fault.
Theorem C13_MemA_write_fault cfg address size priv wa value s : pmsa cfg -> word (getl (sys s) 23) ->
  MemA_va (cfg_arch_version cfg) s address size = None ->
  ArmV6_mem_a_with_priv_set cfg address size priv wa value s
  = Exc (EDataAbort DAbort_ALIGNMENT 0) (pmsa_fault_state s address 1 FS_alignment).
Proof. exact (mem_a_set_alignment_fault cfg address size priv wa value s). Qed.
Print Assumptions C13_MemA_write_fault.

(* ---- MemU: aligned access, alignment fault, or the individual byte transfers, decided as the architecture says ---- *)
Theorem C13_MemU_read_dispatch cfg address size priv s :
  ArmV6_mem_u_with_priv_get cfg address size priv s =
  match kind_of cfg s address size with
  | MU_aligned a => ArmV6_mem_a_with_priv_get cfg a size priv 1 s
  | MU_fault a => bind (ArmV6_alignment_fault cfg a 0) (fun _ => ret 0) s
  | MU_bytes a =>
      bind (foldM (fun i v => bind (ArmV6_mem_a_with_priv_get cfg (add a i 32) 1 priv 0)
                                   (fun t => ret (set_substring v (8 * i + 7) (8 * i) t))) (py_range 0 size 1) 0)
           (fun v => bind (get_sys 0) (fun r => lift (if truthy (CPSR_get_e r) then big_endian_reverse v size else Val v))) s
  end.
Proof. exact (mem_u_get_dispatch cfg address size priv s). Qed.
Print Assumptions C13_MemU_read_dispatch.
Theorem C13_MemU_write_dispatch cfg address size priv value s :
  ArmV6_mem_u_with_priv_set cfg address size priv value s =
  match kind_of cfg s address size with
  | MU_aligned a => ArmV6_mem_a_with_priv_set cfg a size priv 1 value s
  | MU_fault a => ArmV6_alignment_fault cfg a 1 s
  | MU_bytes a =>
      bind (get_sys 0) (fun r => bind (lift (if truthy (CPSR_get_e r) then big_endian_reverse value size else Val value))
        (fun v => foldM (fun i (_ : unit) => bind (ArmV6_mem_a_with_priv_set cfg (add a i 32) 1 priv 0 (substring v (8 * i + 7) (8 * i)))
                                                  (fun _ => ret tt))
                        (py_range 0 size 1) tt)) s
  end.
Proof. exact (mem_u_set_dispatch cfg address size priv value s). Qed.
Print Assumptions C13_MemU_write_dispatch.

(* ---- closed forms on a flat map (PMSA, MPU disabled): value / final memory as explicit functions of the bytes ---- *)
Theorem C13_flat_translation cfg va priv iswrite size wa s : pmsa cfg -> bit (getl (sys s) 11) 0 = 0 ->
  translated cfg s va priv iswrite size wa va s.
Proof. exact (translate_flat_mpu_off cfg va priv iswrite size wa s). Qed.
Print Assumptions C13_flat_translation.
Theorem C13_MemA_read_flat cfg address size priv wa s : flat cfg s -> valid_size size = true ->
  ArmV6_mem_a_with_priv_get cfg address size priv wa s = MemA_get_flat (cfg_arch_version cfg) s address size.
Proof. exact (mem_a_get_flat cfg address size priv wa s). Qed.
Print Assumptions C13_MemA_read_flat.
Theorem C13_MemA_write_flat cfg address size priv wa value s : flat cfg s -> valid_size size = true -> 0 <= value < 2 ^ (8 * size) ->
  ArmV6_mem_a_with_priv_set cfg address size priv wa value s = MemA_set_flat (cfg_arch_version cfg) s address size value.
Proof. exact (mem_a_set_flat cfg address size priv wa value s). Qed.
Print Assumptions C13_MemA_write_flat.
Theorem C13_MemU_read_flat cfg address size priv s : flat cfg s -> valid_size size = true ->
  ArmV6_mem_u_with_priv_get cfg address size priv s
  = MemU_get_flat (cfg_arch_version cfg) (truthy (cfg_have_virt_ext cfg)) (IsSecure (sysctx_of cfg s) (cpsr_of s)) s address size.
Proof. exact (mem_u_get_flat cfg address size priv s). Qed.
Print Assumptions C13_MemU_read_flat.
Theorem C13_MemU_write_flat cfg address size priv value s : flat cfg s -> valid_size size = true -> 0 <= value < 2 ^ (8 * size) ->
  ArmV6_mem_u_with_priv_set cfg address size priv value s
  = MemU_set_flat (cfg_arch_version cfg) (truthy (cfg_have_virt_ext cfg)) (IsSecure (sysctx_of cfg s) (cpsr_of s)) s address size value.
Proof. exact (mem_u_set_flat cfg address size priv value s). Qed.
Print Assumptions C13_MemU_write_flat.

(* ---- instruction fetch is little-endian whatever CPSR.E says ---- *)
Theorem C13_fetch_little_endian cfg address size s va pa s1 :
  valid_size size = true -> hub_ok (mem s1) ->
  MemA_va (cfg_arch_version cfg) s address size = Some va ->
  translated cfg s va (priv_of s) 0 size 1 pa s1 ->
  ArmV6_mem_i_get cfg address size s = Ok (hub_read (mem s1) pa size) s1.
Proof. exact (mem_i_get_little_endian cfg address size s va pa s1). Qed.
Print Assumptions C13_fetch_little_endian.

(* ---- consequences of the specification ---- *)
Theorem C13_reverse_involutive x n : 0 <= n -> 0 <= x < 2 ^ (8 * n) -> BigEndianReverse (BigEndianReverse x n) n = x.
Proof. exact (BigEndianReverse_involutive x n). Qed.
Print Assumptions C13_reverse_involutive.
Theorem C13_store_load s pa size v i :
  find_dev (mem s) pa = Some i -> valid_size size = true -> 0 <= v < 2 ^ (8 * size) ->
  pa - dev_beg (nth i (mem s) (mk_device 0 0 [])) + size <= Z.of_nat (length (dev_bytes (nth i (mem s) (mk_device 0 0 [])))) ->
  MemA_read (MemA_write s pa size v) pa size = v.
Proof. exact (MemA_store_load s pa size v i). Qed.
Print Assumptions C13_store_load.
