(* Props/C07ops7.v — C07: operand extraction of the Thumb encodings (shard 7 of 8).
   For every word of the stated domain, from_bitarray returns the class with the fields the encoding diagram
   names, and leaves the state alone.  Statements rendered from harness/optable.py by harness/mkopthm.py. *)
From Coq Require Import ZArith List Bool Lia ZifyBool.
From ArmV Require Import Lib.PyZ Lib.Monad Lib.Machine Spec.Pseudocode Spec.Arch Spec.MachineView Spec.OperandSpec.
From Gen Require Import enums bits_ops shift regviews records hubm opsyn core exec conc.
Import ListNotations.
Open Scope Z_scope.
From ArmV Require Proofs.OpsT7.

Theorem C07_ops_AddRegisterThumbT1 w s :
  0 <= w < 2 ^ 16 ->
  fb_out (AddRegisterThumbT1_from_bitarray w) s = Ok (Some (code_AddRegisterThumb, [w; not_in_it s; bits w 8 6; bits w 2 0; bits w 5 3; 1; 0])) s.
Proof. exact (OpsT7.ops_AddRegisterThumbT1 w s). Qed.
Print Assumptions C07_ops_AddRegisterThumbT1.

Theorem C07_ops_AddSpPlusRegisterThumbT2 w s :
  0 <= w < 2 ^ 16 ->
  pre_rm63_low w = true ->
  fb_out (AddSpPlusRegisterThumbT2_from_bitarray w) s = Ok (Some (code_AddSpPlusRegisterThumb, [w; 0; bits w 6 3; 13; 1; 0])) s.
Proof. exact (OpsT7.ops_AddSpPlusRegisterThumbT2 w s). Qed.
Print Assumptions C07_ops_AddSpPlusRegisterThumbT2.

Theorem C07_ops_AsrImmediateT1 w s :
  0 <= w < 2 ^ 16 ->
  fb_out (AsrImmediateT1_from_bitarray w) s = Ok (Some (code_AsrImmediate, [w; not_in_it s; bits w 5 3; bits w 2 0; snd (DecodeImmShift 2 (bits w 10 6))])) s.
Proof. exact (OpsT7.ops_AsrImmediateT1 w s). Qed.
Print Assumptions C07_ops_AsrImmediateT1.

Theorem C07_ops_BicRegisterT2 w s :
  0 <= w < 2 ^ 32 ->
  regs13 [bits w 19 16; bits w 11 8; bits w 3 0] = true ->
  fb_out (BicRegisterT2_from_bitarray w) s = Ok (Some (code_BicRegister, [w; bit w 20; bits w 3 0; bits w 11 8; bits w 19 16; fst (DecodeImmShift (bits w 5 4) (imm5t w)); snd (DecodeImmShift (bits w 5 4) (imm5t w))])) s.
Proof. exact (OpsT7.ops_BicRegisterT2 w s). Qed.
Print Assumptions C07_ops_BicRegisterT2.

Theorem C07_ops_CmnRegisterT1 w s :
  0 <= w < 2 ^ 16 ->
  fb_out (CmnRegisterT1_from_bitarray w) s = Ok (Some (code_CmnRegister, [w; bits w 5 3; bits w 2 0; 1; 0])) s.
Proof. exact (OpsT7.ops_CmnRegisterT1 w s). Qed.
Print Assumptions C07_ops_CmnRegisterT1.

Theorem C07_ops_CpsThumbT2 w s :
  0 <= w < 2 ^ 32 ->
  pre_cps_t2 w = true ->
  in_it s = false ->
  fb_out (CpsThumbT2_from_bitarray w) s = Ok (Some (code_CpsThumb, [w; bit w 7; bit w 6; bit w 5; if bits w 10 9 =? 2 then 1 else 0; if bits w 10 9 =? 3 then 1 else 0; bit w 8; bits w 4 0])) s.
Proof. exact (OpsT7.ops_CpsThumbT2 w s). Qed.
Print Assumptions C07_ops_CpsThumbT2.

Theorem C07_ops_ItT1 w s :
  0 <= w < 2 ^ 16 ->
  pre_it_ok w = true ->
  in_it s = false ->
  fb_out (ItT1_from_bitarray w) s = Ok (Some (code_It, [w; bits w 7 4; bits w 3 0])) s.
Proof. exact (OpsT7.ops_ItT1 w s). Qed.
Print Assumptions C07_ops_ItT1.

Theorem C07_ops_LdrImmediateThumbT1 w s :
  0 <= w < 2 ^ 16 ->
  fb_out (LdrImmediateThumbT1_from_bitarray w) s = Ok (Some (code_LdrImmediateThumb, [w; 1; 0; 1; bits w 2 0; bits w 5 3; bits w 10 6 * 4])) s.
Proof. exact (OpsT7.ops_LdrImmediateThumbT1 w s). Qed.
Print Assumptions C07_ops_LdrImmediateThumbT1.

Theorem C07_ops_LdrbImmediateThumbT1 w s :
  0 <= w < 2 ^ 16 ->
  fb_out (LdrbImmediateThumbT1_from_bitarray w) s = Ok (Some (code_LdrbImmediateThumb, [w; 1; 0; 1; bits w 2 0; bits w 5 3; bits w 10 6])) s.
Proof. exact (OpsT7.ops_LdrbImmediateThumbT1 w s). Qed.
Print Assumptions C07_ops_LdrbImmediateThumbT1.

Theorem C07_ops_LdrdLiteralT1 w s :
  0 <= w < 2 ^ 32 ->
  regs13 [bits w 15 12; bits w 11 8] = true ->
  pre_pw_lit_t w = true ->
  fb_out (LdrdLiteralT1_from_bitarray w) s = Ok (Some (code_LdrdLiteral, [w; bit w 23; bits w 7 0 * 4; bits w 15 12; bits w 11 8])) s.
Proof. exact (OpsT7.ops_LdrdLiteralT1 w s). Qed.
Print Assumptions C07_ops_LdrdLiteralT1.

Theorem C07_ops_LdrhLiteralT1 w s :
  0 <= w < 2 ^ 32 ->
  regs13 [bits w 15 12] = true ->
  fb_out (LdrhLiteralT1_from_bitarray w) s = Ok (Some (code_LdrhLiteral, [w; bit w 23; bits w 11 0; bits w 15 12])) s.
Proof. exact (OpsT7.ops_LdrhLiteralT1 w s). Qed.
Print Assumptions C07_ops_LdrhLiteralT1.

Theorem C07_ops_LdrsbRegisterT2 w s :
  0 <= w < 2 ^ 32 ->
  regs13 [bits w 19 16; bits w 15 12; bits w 3 0] = true ->
  fb_out (LdrsbRegisterT2_from_bitarray w) s = Ok (Some (code_LdrsbRegister, [w; 1; 0; 1; bits w 3 0; bits w 15 12; bits w 19 16; 1; bits w 5 4])) s.
Proof. exact (OpsT7.ops_LdrsbRegisterT2 w s). Qed.
Print Assumptions C07_ops_LdrsbRegisterT2.

Theorem C07_ops_LdrtT1 w s :
  0 <= w < 2 ^ 32 ->
  regs13 [bits w 19 16; bits w 15 12] = true ->
  fb_out (LdrtT1_from_bitarray w) s = Ok (Some (code_Ldrt, [w; 1; 0; 0; bits w 15 12; bits w 19 16; 0; 1; 0; bits w 7 0])) s.
Proof. exact (OpsT7.ops_LdrtT1 w s). Qed.
Print Assumptions C07_ops_LdrtT1.

Theorem C07_ops_LsrRegisterT2 w s :
  0 <= w < 2 ^ 32 ->
  regs13 [bits w 19 16; bits w 11 8; bits w 3 0] = true ->
  fb_out (LsrRegisterT2_from_bitarray w) s = Ok (Some (code_LsrRegister, [w; bit w 20; bits w 3 0; bits w 11 8; bits w 19 16])) s.
Proof. exact (OpsT7.ops_LsrRegisterT2 w s). Qed.
Print Assumptions C07_ops_LsrRegisterT2.

Theorem C07_ops_MovImmediateT2 w s :
  0 <= w < 2 ^ 32 ->
  regs13 [bits w 11 8] = true ->
  fb_out (MovImmediateT2_from_bitarray w) s = Ok (Some (code_MovImmediate, [w; bit w 20; bits w 11 8; ThumbExpandImm (imm12t w); snd (ThumbExpandImm_C (imm12t w) (cflag s))])) s.
Proof. exact (OpsT7.ops_MovImmediateT2 w s). Qed.
Print Assumptions C07_ops_MovImmediateT2.

Theorem C07_ops_MrrcMrrc2T1 w s :
  0 <= w < 2 ^ 32 ->
  regs13 [bits w 19 16; bits w 15 12] = true ->
  pre_cp_ok w = true ->
  fb_out (MrrcMrrc2T1_from_bitarray w) s = Ok (Some (code_MrrcMrrc2, [w; bits w 11 8; bits w 15 12; bits w 19 16])) s.
Proof. exact (OpsT7.ops_MrrcMrrc2T1 w s). Qed.
Print Assumptions C07_ops_MrrcMrrc2T1.

Theorem C07_ops_MvnImmediateT1 w s :
  0 <= w < 2 ^ 32 ->
  regs13 [bits w 11 8] = true ->
  fb_out (MvnImmediateT1_from_bitarray w) s = Ok (Some (code_MvnImmediate, [w; bit w 20; bits w 11 8; ThumbExpandImm (imm12t w); snd (ThumbExpandImm_C (imm12t w) (cflag s))])) s.
Proof. exact (OpsT7.ops_MvnImmediateT1 w s). Qed.
Print Assumptions C07_ops_MvnImmediateT1.

Theorem C07_ops_OrrRegisterT1 w s :
  0 <= w < 2 ^ 16 ->
  fb_out (OrrRegisterT1_from_bitarray w) s = Ok (Some (code_OrrRegister, [w; not_in_it s; bits w 5 3; bits w 2 0; bits w 2 0; 1; 0])) s.
Proof. exact (OpsT7.ops_OrrRegisterT1 w s). Qed.
Print Assumptions C07_ops_OrrRegisterT1.

Theorem C07_ops_PopThumbT2 w s :
  0 <= w < 2 ^ 32 ->
  bit w 13 = 0 ->
  pre_list13_2pm w = true ->
  in_it s = false ->
  fb_out (PopThumbT2_from_bitarray w) s = Ok (Some (code_PopThumb, [w; bits w 15 14 * 2 ^ 14 + bits w 12 0; 0])) s.
Proof. exact (OpsT7.ops_PopThumbT2 w s). Qed.
Print Assumptions C07_ops_PopThumbT2.

Theorem C07_ops_QdaddT1 w s :
  0 <= w < 2 ^ 32 ->
  regs13 [bits w 19 16; bits w 11 8; bits w 3 0] = true ->
  fb_out (QdaddT1_from_bitarray w) s = Ok (Some (code_Qdadd, [w; bits w 3 0; bits w 11 8; bits w 19 16])) s.
Proof. exact (OpsT7.ops_QdaddT1 w s). Qed.
Print Assumptions C07_ops_QdaddT1.

Theorem C07_ops_Rev16T2 w s :
  0 <= w < 2 ^ 32 ->
  regs13 [bits w 11 8; bits w 3 0] = true ->
  pre_rm_twice w = true ->
  fb_out (Rev16T2_from_bitarray w) s = Ok (Some (code_Rev16, [w; bits w 3 0; bits w 11 8])) s.
Proof. exact (OpsT7.ops_Rev16T2 w s). Qed.
Print Assumptions C07_ops_Rev16T2.

Theorem C07_ops_RorRegisterT1 w s :
  0 <= w < 2 ^ 16 ->
  fb_out (RorRegisterT1_from_bitarray w) s = Ok (Some (code_RorRegister, [w; not_in_it s; bits w 5 3; bits w 2 0; bits w 2 0])) s.
Proof. exact (OpsT7.ops_RorRegisterT1 w s). Qed.
Print Assumptions C07_ops_RorRegisterT1.

Theorem C07_ops_SasxT1 w s :
  0 <= w < 2 ^ 32 ->
  regs13 [bits w 19 16; bits w 11 8; bits w 3 0] = true ->
  fb_out (SasxT1_from_bitarray w) s = Ok (Some (code_Sasx, [w; bits w 3 0; bits w 11 8; bits w 19 16])) s.
Proof. exact (OpsT7.ops_SasxT1 w s). Qed.
Print Assumptions C07_ops_SasxT1.

Theorem C07_ops_SevT1 w s :
  0 <= w < 2 ^ 16 ->
  in_it s = false ->
  fb_out (SevT1_from_bitarray w) s = Ok (Some (code_Sev, [w])) s.
Proof. exact (OpsT7.ops_SevT1 w s). Qed.
Print Assumptions C07_ops_SevT1.

Theorem C07_ops_SmcT1 w s :
  0 <= w < 2 ^ 32 ->
  in_it s = false ->
  fb_out (SmcT1_from_bitarray w) s = Ok (Some (code_Smc, [w])) s.
Proof. exact (OpsT7.ops_SmcT1 w s). Qed.
Print Assumptions C07_ops_SmcT1.

Theorem C07_ops_SmlsldT1 w s :
  0 <= w < 2 ^ 32 ->
  regs13 [bits w 19 16; bits w 15 12; bits w 11 8; bits w 3 0] = true ->
  fb_out (SmlsldT1_from_bitarray w) s = Ok (Some (code_Smlsld, [w; bit w 4; bits w 3 0; bits w 11 8; bits w 15 12; bits w 19 16])) s.
Proof. exact (OpsT7.ops_SmlsldT1 w s). Qed.
Print Assumptions C07_ops_SmlsldT1.

Theorem C07_ops_SmusdT1 w s :
  0 <= w < 2 ^ 32 ->
  regs13 [bits w 19 16; bits w 11 8; bits w 3 0] = true ->
  fb_out (SmusdT1_from_bitarray w) s = Ok (Some (code_Smusd, [w; bit w 4; bits w 3 0; bits w 11 8; bits w 19 16])) s.
Proof. exact (OpsT7.ops_SmusdT1 w s). Qed.
Print Assumptions C07_ops_SmusdT1.

Theorem C07_ops_StcStc2T1 w s :
  0 <= w < 2 ^ 32 ->
  regs13 [bits w 19 16] = true ->
  pre_ldc w = true ->
  fb_out (StcStc2T1_from_bitarray w) s = Ok (Some (code_StcStc2, [w; bits w 11 8; bits w 19 16; bit w 23; bits w 7 0 * 4; bit w 24; bit w 21])) s.
Proof. exact (OpsT7.ops_StcStc2T1 w s). Qed.
Print Assumptions C07_ops_StcStc2T1.

Theorem C07_ops_StrImmediateThumbT4 w s :
  0 <= w < 2 ^ 32 ->
  regs13 [bits w 19 16; bits w 15 12] = true ->
  pre_puw w = true ->
  fb_out (StrImmediateThumbT4_from_bitarray w) s = Ok (Some (code_StrImmediateThumb, [w; bit w 9; bit w 8; bit w 10; bits w 15 12; bits w 19 16; bits w 7 0])) s.
Proof. exact (OpsT7.ops_StrImmediateThumbT4 w s). Qed.
Print Assumptions C07_ops_StrImmediateThumbT4.

Theorem C07_ops_StrbtT1 w s :
  0 <= w < 2 ^ 32 ->
  regs13 [bits w 19 16; bits w 15 12] = true ->
  fb_out (StrbtT1_from_bitarray w) s = Ok (Some (code_Strbt, [w; 1; 0; 0; bits w 15 12; bits w 19 16; 0; 1; 0; bits w 7 0])) s.
Proof. exact (OpsT7.ops_StrbtT1 w s). Qed.
Print Assumptions C07_ops_StrbtT1.

Theorem C07_ops_StrhImmediateThumbT3 w s :
  0 <= w < 2 ^ 32 ->
  regs13 [bits w 19 16; bits w 15 12] = true ->
  pre_puw w = true ->
  fb_out (StrhImmediateThumbT3_from_bitarray w) s = Ok (Some (code_StrhImmediateThumb, [w; bit w 9; bit w 8; bit w 10; bits w 15 12; bits w 19 16; bits w 7 0])) s.
Proof. exact (OpsT7.ops_StrhImmediateThumbT3 w s). Qed.
Print Assumptions C07_ops_StrhImmediateThumbT3.

Theorem C07_ops_SubImmediateThumbT4 w s :
  0 <= w < 2 ^ 32 ->
  regs13 [bits w 19 16; bits w 11 8] = true ->
  fb_out (SubImmediateThumbT4_from_bitarray w) s = Ok (Some (code_SubImmediateThumb, [w; 0; bits w 11 8; bits w 19 16; imm12t w])) s.
Proof. exact (OpsT7.ops_SubImmediateThumbT4 w s). Qed.
Print Assumptions C07_ops_SubImmediateThumbT4.

Theorem C07_ops_SvcT1 w s :
  0 <= w < 2 ^ 16 ->
  fb_out (SvcT1_from_bitarray w) s = Ok (Some (code_Svc, [w; bits w 7 0])) s.
Proof. exact (OpsT7.ops_SvcT1 w s). Qed.
Print Assumptions C07_ops_SvcT1.

Theorem C07_ops_SxthT2 w s :
  0 <= w < 2 ^ 32 ->
  regs13 [bits w 11 8; bits w 3 0] = true ->
  fb_out (SxthT2_from_bitarray w) s = Ok (Some (code_Sxth, [w; bits w 3 0; bits w 11 8; bits w 5 4 * 8])) s.
Proof. exact (OpsT7.ops_SxthT2 w s). Qed.
Print Assumptions C07_ops_SxthT2.

Theorem C07_ops_Uadd8T1 w s :
  0 <= w < 2 ^ 32 ->
  regs13 [bits w 19 16; bits w 11 8; bits w 3 0] = true ->
  fb_out (Uadd8T1_from_bitarray w) s = Ok (Some (code_Uadd8, [w; bits w 3 0; bits w 11 8; bits w 19 16])) s.
Proof. exact (OpsT7.ops_Uadd8T1 w s). Qed.
Print Assumptions C07_ops_Uadd8T1.

Theorem C07_ops_UhasxT1 w s :
  0 <= w < 2 ^ 32 ->
  regs13 [bits w 19 16; bits w 11 8; bits w 3 0] = true ->
  fb_out (UhasxT1_from_bitarray w) s = Ok (Some (code_Uhasx, [w; bits w 3 0; bits w 11 8; bits w 19 16])) s.
Proof. exact (OpsT7.ops_UhasxT1 w s). Qed.
Print Assumptions C07_ops_UhasxT1.

Theorem C07_ops_Uqadd8T1 w s :
  0 <= w < 2 ^ 32 ->
  regs13 [bits w 19 16; bits w 11 8; bits w 3 0] = true ->
  fb_out (Uqadd8T1_from_bitarray w) s = Ok (Some (code_Uqadd8, [w; bits w 3 0; bits w 11 8; bits w 19 16])) s.
Proof. exact (OpsT7.ops_Uqadd8T1 w s). Qed.
Print Assumptions C07_ops_Uqadd8T1.

Theorem C07_ops_UsatT1 w s :
  0 <= w < 2 ^ 32 ->
  regs13 [bits w 19 16; bits w 11 8] = true ->
  pre_sat_t w = true ->
  fb_out (UsatT1_from_bitarray w) s = Ok (Some (code_Usat, [w; bits w 4 0; bits w 11 8; bits w 19 16; fst (DecodeImmShift (bit w 21 * 2) (imm5t w)); snd (DecodeImmShift (bit w 21 * 2) (imm5t w))])) s.
Proof. exact (OpsT7.ops_UsatT1 w s). Qed.
Print Assumptions C07_ops_UsatT1.

Theorem C07_ops_UxtbT1 w s :
  0 <= w < 2 ^ 16 ->
  fb_out (UxtbT1_from_bitarray w) s = Ok (Some (code_Uxtb, [w; bits w 5 3; bits w 2 0; 0])) s.
Proof. exact (OpsT7.ops_UxtbT1 w s). Qed.
Print Assumptions C07_ops_UxtbT1.

Theorem C07_ops_YieldT1 w s :
  0 <= w < 2 ^ 16 ->
  in_it s = false ->
  fb_out (YieldT1_from_bitarray w) s = Ok (Some (code_Yield, [w])) s.
Proof. exact (OpsT7.ops_YieldT1 w s). Qed.
Print Assumptions C07_ops_YieldT1.
