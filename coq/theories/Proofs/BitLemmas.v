(* Proofs/BitLemmas.v — arithmetic bridge lemmas between the bit-operator style of the
   translated Python (land / shiftl / shiftr / lor / lxor) and div / mod / 2^n. *)
From Coq Require Import ZArith Znumtheory Bool Lia ZifyBool.
Open Scope Z_scope.
Ltac Zify.zify_post_hook ::= Z.to_euclidean_division_equations.

Lemma pow_pos n : 0 <= n -> 0 < 2 ^ n.
Proof. intros; apply Z.pow_pos_nonneg; lia. Qed.
Lemma pow_split a b : 0 <= a -> 0 <= b -> 2 ^ (a + b) = 2 ^ a * 2 ^ b.
Proof. intros; apply Z.pow_add_r; lia. Qed.
Lemma pow_succ N : 0 < N -> 2 ^ N = 2 * 2 ^ (N - 1).
Proof. intros. rewrite <- Z.pow_succ_r by lia. f_equal. lia. Qed.
Lemma land_ones_mod b n : 0 <= n -> Z.land b (2 ^ n - 1) = b mod 2 ^ n.
Proof. intros. replace (2 ^ n - 1) with (Z.ones n) by (rewrite Z.ones_equiv; lia). apply Z.land_ones; lia. Qed.
Lemma land1 a : Z.land a 1 = a mod 2.
Proof. change 1 with (Z.ones 1) at 1. rewrite Z.land_ones by lia. reflexivity. Qed.
Lemma mod_div_swap a b c : 0 < b -> 0 < c -> (a mod (b * c)) / b = (a / b) mod c.
Proof. intros. rewrite Z.rem_mul_r by lia. rewrite Z.mul_comm, Z.div_add by lia.
  rewrite (Z.div_small (a mod b)) by (apply Z.mod_pos_bound; lia). lia. Qed.
Lemma mod_mod_pow a n m : 0 <= n <= m -> (a mod 2 ^ m) mod 2 ^ n = a mod 2 ^ n.
Proof. intros. symmetry. apply Zmod_div_mod; try (apply pow_pos; lia).
  exists (2 ^ (m - n)). rewrite <- Z.pow_add_r by lia. f_equal. lia. Qed.

Lemma tb_ones n i : 0 <= n -> 0 <= i -> Z.testbit (2 ^ n - 1) i = (i <? n).
Proof. intros. replace (2 ^ n - 1) with (Z.ones n) by (rewrite Z.ones_equiv; lia).
  rewrite Z.testbit_ones by lia. destruct (0 <=? i) eqn:E; destruct (i <? n); try reflexivity; lia. Qed.
Lemma tb_shl1m1 n i : 0 <= n -> 0 <= i -> Z.testbit (Z.shiftl 1 n - 1) i = (i <? n).
Proof. intros. rewrite Z.shiftl_mul_pow2 by lia. rewrite Z.mul_1_l. apply tb_ones; lia. Qed.
Lemma tb_small v w i : 0 <= v < 2 ^ w -> w <= i -> Z.testbit v i = false.
Proof. intros. destruct (Z.eq_dec v 0) as [->|]; [apply Z.bits_0|].
  apply Z.bits_above_log2; [lia|]. assert (Z.log2 v < w) by (apply Z.log2_lt_pow2; lia). lia. Qed.

(* disjoint or is addition *)
Lemma lor_disjoint_add a b k : 0 <= k -> 0 <= a < 2 ^ k -> Z.lor a (b * 2 ^ k) = a + b * 2 ^ k.
Proof.
  intros Hk Ha.
  assert (L : Z.land a (b * 2 ^ k) = 0).
  { apply Z.bits_inj'. intros i Hi. rewrite Z.land_spec, Z.bits_0.
    destruct (Z_lt_dec i k).
    - rewrite Z.mul_pow2_bits_low by lia. apply andb_false_r.
    - rewrite (tb_small a k) by lia. reflexivity. }
  rewrite <- Z.lxor_lor by exact L. symmetry. apply Z.add_nocarry_lxor. exact L.
Qed.
