(* Proofs/DPRange.v — C10, range invariant for the data-processing family: whatever dp_sem computes (any of the thirteen
   operations, any operand form, any destination incl. the PC, flags or not), every general register, the PC and the CPSR
   still hold 32-bit values and the mode is unchanged (ictx). *)
Set Default Timeout 240.
From Coq Require Import ZArith List Bool Lia ZifyBool.
From ArmV Require Import Lib.PyZ Lib.Monad Lib.Machine Spec.Pseudocode Spec.Arch Spec.MachineView Spec.Branches Spec.DPSem
  Proofs.SpecFacts Proofs.ArchFacts Proofs.StateLemmas Proofs.CondProofs Proofs.BankProofs Proofs.MachineOps
  Proofs.DPLemmas Proofs.DPTactics Proofs.BranchProofs Proofs.BlockProofs Proofs.StepProofs Proofs.StepDP.
Import ListNotations.
Open Scope Z_scope.

Definition op2_valid (o : operand2) : Prop :=
  match o with
  | Op2Imm imm c => word imm /\ 0 <= c <= 1
  | Op2Reg m t n => 0 <= m <= 15 /\ valid_shift t n
  | Op2RegReg m t rs => 0 <= m <= 15 /\ 0 <= rs <= 15 /\ (t = SRType_LSL \/ t = SRType_LSR \/ t = SRType_ASR \/ t = SRType_ROR)
  | Op2Plain m => 0 <= m <= 15
  end.

Lemma eval_op2_range cfg s o : ictx cfg s -> op2_valid o ->
  word (fst (eval_op2 s o)) /\ match snd (eval_op2 s o) with Some c => 0 <= c <= 1 | None => True end.
Proof.
  intros Hctx Hv. destruct o as [imm c|m t n|m t rs|m]; cbn [eval_op2 op2_valid fst snd] in *.
  - exact Hv.
  - destruct Hv as [Hm Hs]. cbv zeta. cbn [fst snd].
    apply (Shift_C_range 32 (rget s m) t n (psr_C (cpsr_of s))); try lia; [apply (word_rget cfg); assumption|apply psr_C_range|exact Hs].
  - destruct Hv as (Hm & Hrs & Ht). cbv zeta. cbn [fst snd].
    apply (Shift_C_range 32 (rget s m) t (rget s rs mod 2 ^ 8) (psr_C (cpsr_of s))); try lia;
      [apply (word_rget cfg); assumption|apply psr_C_range|].
    split; [apply Z.mod_pos_bound; lia|]. destruct Ht as [-> | [-> | [-> | ->]]]; auto.
  - split; [apply (word_rget cfg); assumption|exact I].
Qed.

Lemma ictx_alu_write_pc cfg s d : ictx cfg s -> word d ->
  ictx cfg (apply_pc s (ALUWritePC (cfg_arch_version cfg) (cpsr_of s) (cfg_jazelle_accepts_execution cfg) d)).
Proof.
  intros H Hd. pose proof (ok_cpsr _ _ (i_ok _ _ H)) as Hw.
  unfold ALUWritePC, BXWritePC, BranchWritePC, SelectInstrSet.
  repeat match goal with |- context [if ?c then _ else _] => destruct c end;
    apply ictx_apply_pc; try exact H; try exact Hw; try reflexivity; try (apply word_with_iset; exact Hw);
    try (apply psr_M_with_iset; exact Hw); intros a Ea; inversion Ea; subst; try exact Hd; try (apply word_clear_low; [exact Hd|lia]); discriminate.
Qed.

Theorem dp_sem_ictx cfg opA S dest n o s s' : ictx cfg s -> 0 <= n <= 15 -> op2_valid o ->
  match dest with Some d => 0 <= d <= 15 | None => True end ->
  dp_sem cfg opA S dest n o s = Ok tt s' -> ictx cfg s'.
Proof.
  intros Hctx Hn Ho Hd. unfold dp_sem.
  destruct (eval_op2_range cfg s o Hctx Ho) as [W2 Wc]. destruct (eval_op2 s o) as [op2 shc]. cbn [fst snd] in W2, Wc.
  pose proof (dp_alu_range opA (rget s n) op2 (psr_C (cpsr_of s)) (word_rget cfg s n Hctx Hn) W2 (psr_C_range _)) as [Wr Wf].
  destruct (dp_alu opA (rget s n) op2 (psr_C (cpsr_of s))) as [result cv]. cbn [fst snd] in Wr, Wf.
  assert (Wfl : forall p, word p ->
            word (with_flags p result (match cv with Some (c, _) => Some c | None => shc end) (match cv with Some (_, v) => Some v | None => None end)) /\
            psr_M (with_flags p result (match cv with Some (c, _) => Some c | None => shc end) (match cv with Some (_, v) => Some v | None => None end)) = psr_M p).
  { intros p Hp. apply with_flags_ok; [exact Hp| |].
    - destruct cv as [[c0 v0]|]; [apply Wf|exact Wc].
    - destruct cv as [[c0 v0]|]; [apply Wf|exact I]. }
  pose proof (ok_cpsr cfg s (i_ok cfg s Hctx)) as Wp.
  destruct dest as [d|].
  - destruct (d =? 15) eqn:E15.
    + intros H. inversion H. apply ictx_alu_write_pc; assumption.
    + assert (Hrs : ictx cfg (rset s d result)) by (apply ictx_rset; [exact Hctx|lia|exact Wr]).
      destruct (S =? 0); intros H; inversion H; [exact Hrs|].
      destruct (Wfl (cpsr_of s) Wp) as [A B]. apply ictx_with_cpsr; [exact Hrs|exact A|exact B].
  - intros H. inversion H. destruct (Wfl (cpsr_of s) Wp) as [A B]. apply ictx_with_cpsr; [exact Hctx|exact A|exact B].
Qed.

Lemma ictx_values cfg s : ictx cfg s ->
  (forall k, 0 <= k < 34 -> 0 <= getl (R s) k < 2 ^ 32) /\ 0 <= cpsr_of s < 2 ^ 32 /\ length (R s) = 34%nat.
Proof.
  intros H. split; [exact (i_R_word cfg s H)|]. split; [exact (ok_cpsr cfg s (i_ok cfg s H))|exact (ok_R_len cfg s (i_ok cfg s H))].
Qed.
