txt=open('/tmp/opproto/ex_state4.txt').read(); cfg,m=[x.strip() for x in txt.split('#####')]
src='''(* Proofs/StepInstancesStoreExample.v — a concrete machine (ARM state, Supervisor mode, PMSA with the MPU off, flat RAM,
   STR r2, [r1, #4] at the PC) on which every hypothesis of str_imm_a1_step_flat holds. *)
Set Default Timeout 240.
From Coq Require Import ZArith List Bool Lia.
From ArmV Require Import Lib.PyZ Lib.Monad Lib.Machine Spec.Pseudocode Spec.Arch Spec.MachineView Spec.Branches Spec.StepFrame
  Spec.OperandSpec Spec.LoadStore Spec.Hub Spec.Memory Proofs.StateLemmas Proofs.CondProofs Proofs.GuardProofs Proofs.BankProofs Proofs.MachineOps
  Proofs.DPLemmas Proofs.MemProofs Proofs.LSProofs Proofs.ExcProofs Proofs.StepProofs Proofs.StepInstancesStore Proofs.StepInstancesExample.
From Gen Require Import enums bits_ops shift regviews records hubm opsyn core exec conc decoders step.
Import ListNotations.
Open Scope Z_scope.

Definition ex4_cfg : config := CFG.
Definition ex4_s : machine := MACH.
Definition ex4_w : Z := 3850444804.                                   (* 0xE5812004 = STR r2, [r1, #4] *)
Definition ex4_s1 : machine := set_opcode_len (set_opcode_w ex4_s ex4_w) 32.

Lemma ex4_fetch : ArmV6_fetch_instruction ex4_cfg ex4_s = Ok ex4_w ex4_s1.
Proof. vm_compute. reflexivity. Qed.
Lemma ex4_cube : is_str_imm_a1 ex4_w.
Proof. unfold is_str_imm_a1. vm_compute. repeat split; try congruence. left. reflexivity. Qed.
Lemma ex4_ictx : ictx ex4_cfg ex4_s1.
Proof.
  split; [split|]; try reflexivity.
  - vm_compute. split; [discriminate|reflexivity].
  - intros k Hk. apply Forall_getl; [|change (length (R ex4_s1)) with 34%nat; lia].
    cbn [R ex4_s1 set_opcode_len set_opcode_w ex4_s]. repeat (constructor; [unfold word; lia|]). constructor.
Qed.
Lemma ex4_cond : cond_holds ex4_s1.
Proof. vm_compute. reflexivity. Qed.
Definition byte_okb (b : Z) : bool := (0 <=? b) && (b <? 256).
Lemma ex4_flat : flat ex4_cfg ex4_s1.
Proof.
  split; [reflexivity|]. split; [vm_compute; reflexivity|]. split; [vm_compute; split; [discriminate|reflexivity]|].
  unfold hub_ok. apply Forall_forall. intros d Hd.
  assert (B : forallb (fun d => forallb byte_okb (dev_bytes d)) (mem ex4_s1) = true) by (vm_compute; reflexivity).
  rewrite forallb_forall in B. specialize (B d Hd). rewrite forallb_forall in B.
  unfold bytes_ok. apply Forall_forall. intros b Hb. specialize (B b Hb). unfold byte_okb in B. lia.
Qed.

Example str_imm_a1_step_example :
  exists o, ArmV6_emulate_cycle ex4_cfg ex4_s = o /\\
  o = match STORE (ArmV6_mem_u_set ex4_cfg) 4 (begin_instr ex4_s1 (code_StrImmediateArm, [ex4_w; 1; 0; 1; 2; 1; 4]))
                  (rget ex4_s1 1) 4 1 1 0 1 (rget ex4_s1 2) with
      | Ok _ s2 => Ok tt (AdvancePC (it_step_after ex4_s1 s2))
      | Exc e s2 => dispatch ex4_cfg (Exc e s2)
      end.
Proof.
  eexists. split; [reflexivity|].
  exact (str_imm_a1_step_flat ex4_cfg ex4_s ex4_w ex4_s1 ex4_fetch ltac:(vm_compute; split; [discriminate|reflexivity]) ex4_cube
           ltac:(vm_compute; reflexivity) ex4_ictx ex4_cond ex4_flat).
Qed.
'''
open('/tmp/coqdev/theories/Proofs/StepInstancesStoreExample.v','w').write(src.replace('CFG',cfg).replace('MACH',m))
