(* PyZ.v — runtime support for the Gallina code emitted by tools/py2v.
   Python ints and bools are Z (True = 1, False = 0).  Nothing here is proved;
   this file only fixes the meaning of the Python operators the translator emits.
   The modelling decisions are listed in DESIGN.md 1.2 and exercised by the
   correspondence check. *)
From Coq Require Import ZArith List Bool.
Import ListNotations.
Open Scope Z_scope.

(* ---------- truth values ---------- *)
Definition truthy (z : Z) : bool := negb (z =? 0).
Definition b2z (b : bool) : Z := if b then 1 else 0.
(* Python `a and b` / `a or b` return an operand *)
Definition pand (a b : Z) : Z := if truthy a then b else a.
Definition por (a b : Z) : Z := if truthy a then a else b.

(* ---------- arithmetic that needs care ---------- *)
(* bin(x).count('1'): number of one bits of |x| *)
Fixpoint pos_popcount (p : positive) : Z :=
  match p with xH => 1 | xO q => pos_popcount q | xI q => 1 + pos_popcount q end.
Definition popcount (z : Z) : Z :=
  match z with Z0 => 0 | Zpos p => pos_popcount p | Zneg p => pos_popcount p end.
(* x.bit_length() *)
Definition bit_length (z : Z) : Z :=
  match z with Z0 => 0 | Zpos p => Z.log2 (Zpos p) + 1 | Zneg p => Z.log2 (Zpos p) + 1 end.
(* int(a / b) for ints: true division then truncation toward zero.  Modelled as
   Z.quot (exact when the float quotient is exact enough; see DESIGN 1.2). *)
Definition int_truediv (a b : Z) : Z := Z.quot a b.

(* range(a, b, step) as a list, step <> 0 *)
Fixpoint range_up (a : Z) (n : nat) (step : Z) : list Z :=
  match n with O => [] | S k => a :: range_up (a + step) k step end.
Definition py_range (a b step : Z) : list Z :=
  if step >? 0 then
    (if a <? b then range_up a (Z.to_nat ((b - a + step - 1) / step)) step else [])
  else if step <? 0 then
    (if b <? a then range_up a (Z.to_nat ((a - b + (- step) - 1) / (- step))) step else [])
  else [].

(* ---------- host-level errors (Python exceptions that are not architectural) ---------- *)
Inductive hosterr : Type :=
| HAssert          (* AssertionError *)
| HUnbound         (* UnboundLocalError *)
| HNone            (* None used where a value is required: Type/AttributeError *)
| HType            (* TypeError *)
| HKey             (* KeyError *)
| HIndex           (* IndexError *)
| HStruct          (* struct.error *)
| HValue           (* ValueError: negative shift count, bad enum value ... *)
| HZeroDiv         (* ZeroDivisionError *)
| HFuel.           (* a `while` loop ran out of model fuel *)

(* every Python exception the emulator can raise *)
Inductive exn : Type :=
| EHost (h : hosterr)
| EEndOfInstruction
| ESVC
| ESMC
| EDataAbort (dtype : Z) (second_stage : Z)
| EHypTrap
| EUndefined
| ENotImpl                 (* NotImplementedError: the documented "# mock" outcome *)
| EUnsupported.            (* the model gives up: construct outside the translated subset *)

(* ---------- error monad for pure helpers that may raise ---------- *)
Inductive res (A : Type) : Type := Val (a : A) | Err (e : exn).
Arguments Val {A}. Arguments Err {A}.
Notation eret := Val (only parsing).
Definition ebind {A B} (m : res A) (f : A -> res B) : res B :=
  match m with Val a => f a | Err e => Err e end.
Definition eassert (b : bool) : res unit := if b then Val tt else Err (EHost HAssert).
Definition eunbound {A} (o : option A) : res A :=
  match o with Some a => Val a | None => Err (EHost HUnbound) end.
Definition enone {A} (o : option A) : res A :=
  match o with Some a => Val a | None => Err (EHost HNone) end.
Fixpoint efold {A} (f : Z -> A -> res A) (l : list Z) (a : A) : res A :=
  match l with [] => Val a | i :: t => ebind (f i a) (efold f t) end.
(* loop with early exit: accumulator is (inl result) once the body returned *)
Fixpoint efold_ret {A R} (f : Z -> A -> res (R + A)) (l : list Z) (a : A) : res (R + A) :=
  match l with
  | [] => Val (inr a)
  | i :: t => ebind (f i a) (fun x => match x with inl r => Val (inl r) | inr a' => efold_ret f t a' end)
  end.
(* checked operators *)
Definition eshiftl (a n : Z) : res Z := if n <? 0 then Err (EHost HValue) else Val (Z.shiftl a n).
Definition eshiftr (a n : Z) : res Z := if n <? 0 then Err (EHost HValue) else Val (Z.shiftr a n).
Definition epow (a n : Z) : res Z := if n <? 0 then Err (EHost HType) else Val (Z.pow a n).
(* bytes(n): n zero bytes; negative n is a ValueError *)
Definition ebytes (n : Z) : res (list Z) := if n <? 0 then Err (EHost HValue) else Val (repeat 0 (Z.to_nat n)).
Definition ediv (a b : Z) : res Z := if b =? 0 then Err (EHost HZeroDiv) else Val (Z.div a b).
Definition emod (a b : Z) : res Z := if b =? 0 then Err (EHost HZeroDiv) else Val (Z.modulo a b).

Declare Scope res_scope.
Notation "x <-e m ;; k" := (ebind m (fun x => k))
  (at level 61, m at next level, right associativity) : res_scope.
Notation "' p <-e m ;; k" := (ebind m (fun p => k))
  (at level 61, p pattern, m at next level, right associativity) : res_scope.
Notation "m ;;e k" := (ebind m (fun _ => k)) (at level 61, right associativity) : res_scope.
Open Scope res_scope.

(* pure (identity-monad) loop combinators *)
Fixpoint pfold {A} (f : Z -> A -> A) (l : list Z) (a : A) : A :=
  match l with [] => a | i :: t => pfold f t (f i a) end.
Fixpoint pfold_ret {A R} (f : Z -> A -> R + A) (l : list Z) (a : A) : R + A :=
  match l with
  | [] => inr a
  | i :: t => match f i a with inl r => inl r | inr a' => pfold_ret f t a' end
  end.

Definition unsome {A} (d : A) (o : option A) : A := match o with Some a => a | None => d end.

(* ---------- lists of Z with Z indices ---------- *)
Definition getl (l : list Z) (i : Z) : Z := nth (Z.to_nat i) l 0.
Fixpoint upd {A} (l : list A) (n : nat) (v : A) : list A :=
  match l, n with [] , _ => [] | _ :: t, O => v :: t | x :: t, S k => x :: upd t k v end.
Definition setl (l : list Z) (i v : Z) : list Z := upd l (Z.to_nat i) v.
Definition in_range (l : list Z) (i : Z) : bool := (0 <=? i) && (i <? Z.of_nat (length l)).
