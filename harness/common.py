"""Shared machinery for the /verif checks: regenerate the model from /repo, build Coq,
evaluate model/spec terms inside Coq, drive the real implementation, write evidence."""
import fcntl
import hashlib
import json
import os
import random
import re
import subprocess
import sys
import time

VERIF = os.path.dirname(os.path.dirname(os.path.abspath(__file__)))
REPO = os.environ.get('VERIF_REPO', '/repo')
COQ = os.path.join(VERIF, 'coq')
GEN = os.path.join(COQ, 'gen')
BUILD = os.path.join(VERIF, 'build')
EVID = os.path.join(VERIF, 'evidence')
REPLAYS = os.path.join(EVID, 'replays')
PY = '/venv/bin/python'
COQFLAGS = ['-Q', 'theories', 'ArmV', '-Q', 'gen', 'Gen']
ALLOWED_AXIOMS = {
    # stdlib axioms that may appear (named in DESIGN 2.8); none is needed so far
    'Coq.Logic.FunctionalExtensionality.functional_extensionality_dep',
}

TRUSTED_BASE = [
    'Coq 8.16.1 kernel (coqc), including the vm_compute VM; no native_compute',
    'axioms: none (every property theorem prints "Closed under the global context")',
    'tools/py2v (our Python-ast -> Gallina translator) and the modelling decisions of DESIGN 1.2, '
    'validated by the correspondence check (implementation vs regenerated model on generated inputs)',
    'coq/theories/Spec (hand-written transcription of the ARM ARM pseudocode) is the oracle',
    'coq/theories/Lib/{PyZ,Monad,Machine}.v fix the meaning of Python operators/state primitives',
    'CPython 3.12 and the harness (harness/*.py) for the correspondence and the failing-input search',
]


def os_makedirs():
    for d in (BUILD, EVID, REPLAYS):
        os.makedirs(d, exist_ok=True)


def run(cmd, timeout, cwd=None, env=None, input=None):
    """run a command in its own process group; on timeout the whole group (make and its coqc children) is killed"""
    import signal
    t0 = time.time()
    p = subprocess.Popen(cmd, cwd=cwd, env=env, stdin=subprocess.PIPE if input is not None else None,
                         stdout=subprocess.PIPE, stderr=subprocess.PIPE, text=True, start_new_session=True)
    try:
        out, err = p.communicate(input=input, timeout=timeout)
        return p.returncode, out, err, time.time() - t0
    except subprocess.TimeoutExpired:
        try:
            os.killpg(p.pid, signal.SIGKILL)
        except OSError:
            pass
        out, err = p.communicate()
        return 124, out or '', (err or '') + 'TIMEOUT', time.time() - t0


class Lock:
    """exclusive while anything under coq/ or build/ is (re)built; shared while compiled files are only read (evaluation of
    model and specification terms), so that checks started in parallel never read a library another one is rebuilding"""
    def __init__(self, shared=False):
        self.shared = shared

    def __enter__(self):
        os_makedirs()
        self.f = open(os.path.join(BUILD, '.lock'), 'a')
        fcntl.flock(self.f, fcntl.LOCK_SH if self.shared else fcntl.LOCK_EX)
        return self

    def __exit__(self, *a):
        fcntl.flock(self.f, fcntl.LOCK_UN)
        self.f.close()


def regenerate():
    """run py2v on the current /repo tree; returns (ok, index, log)"""
    rc, out, err, dt = run([PY, os.path.join(VERIF, 'tools', 'py2v', 'main.py'), REPO, GEN, '--verbose'], 600)
    idx = None
    p = os.path.join(GEN, 'INDEX.json')
    if rc == 0 and os.path.exists(p):
        with open(p) as f:
            idx = json.load(f)
    return rc == 0, idx, out + err


def write_coqproject():
    files = []
    for root in ('theories', 'gen'):
        for dp, dn, fn in os.walk(os.path.join(COQ, root)):
            dn.sort()
            for f in sorted(fn):
                if f.endswith('.v'):
                    files.append(os.path.relpath(os.path.join(dp, f), COQ))
    text = '-Q theories ArmV\n-Q gen Gen\n-arg -w -arg -notation-overridden\n' + '\n'.join(files) + '\n'
    p = os.path.join(COQ, '_CoqProject')
    old = open(p).read() if os.path.exists(p) else None
    if old != text or not os.path.exists(os.path.join(COQ, 'Makefile.coq')):
        with open(p, 'w') as f:
            f.write(text)
        run(['coq_makefile', '-f', '_CoqProject', '-o', 'Makefile.coq'], 120, cwd=COQ)


def make(targets, timeout=2400, jobs=16):
    """build the given .vo targets (paths relative to coq/); returns (ok, log)"""
    write_coqproject()
    # every coqc invocation is capped: a proof that no longer matches the code can send reflexivity / apply into an unbounded
    # unification instead of failing; a file that exceeds the cap counts as not compiling
    rc, out, err, dt = run(['make', '-f', 'Makefile.coq', f'-j{jobs}', '-k', 'COQC=timeout 420 coqc'] + targets, timeout, cwd=COQ)
    return rc == 0, out + err, dt


def first_coq_error(log):
    """extract (file, line, message) of the first Coq error in a make log"""
    m = re.search(r'File "\./([^"]+)", line (\d+), characters [\d-]+:\n(Error:.*?)(?:\n\n|\nmake|\Z)', log, re.S)
    if not m:
        if 'TIMEOUT' in log:
            return ('?', 0, 'TIMEOUT')
        return None
    return (m.group(1), int(m.group(2)), m.group(3).strip()[:600])


def enclosing_lemma(relfile, line):
    try:
        lines = open(os.path.join(COQ, relfile)).read().split('\n')
    except OSError:
        return None
    for i in range(min(line, len(lines)) - 1, -1, -1):
        m = re.match(r'\s*(Theorem|Lemma|Corollary|Example|Definition|Fixpoint)\s+([A-Za-z0-9_\']+)', lines[i])
        if m:
            return m.group(2)
    return None


def compile_props_many(files, timeout=900):
    from concurrent.futures import ThreadPoolExecutor
    with ThreadPoolExecutor(max_workers=8) as ex:
        return list(ex.map(lambda f: compile_props(f, timeout), files))


def compile_props(prop_file, timeout=900):
    """coqc a Props file directly to capture its Print Assumptions output.
    returns (ok, {theorem: 'closed' | [axioms]}, log)"""
    rel = f'theories/Props/{prop_file}.v'
    rc, out, err, dt = run(['coqc'] + COQFLAGS + ['-w', '-notation-overridden', rel], timeout, cwd=COQ)
    log = out + err
    res = {}
    # theorems in order
    names = re.findall(r'^\s*Print Assumptions\s+([A-Za-z0-9_\'.]+)\s*\.', open(os.path.join(COQ, rel)).read(), re.M)
    blocks = re.split(r'(?=Closed under the global context|Axioms:)', out)
    blocks = [b for b in blocks if b.startswith('Closed under') or b.startswith('Axioms:')]
    for n, b in zip(names, blocks):
        if b.startswith('Closed under'):
            res[n] = 'closed'
        else:
            res[n] = [l.split(':')[0].strip() for l in b.split('\n')[1:] if l and not l.startswith(' ') and ':' in l]
    return rc == 0 and len(blocks) == len(names), res, log, names


def forbidden_scan():
    """fail closed on Admitted/admit/Axiom/... anywhere in the development"""
    bad = []
    pat = re.compile(r'\b(Admitted|admit|Axiom|Axioms|Parameter|Parameters|Conjecture|Conjectures|Admit Obligations|'
                     r'Unset Guard Checking|Unset Positivity Checking|Unset Universe Checking|bypass_check|'
                     r'native_compute|type-in-type|impredicative-set)\b')
    for root in ('theories', 'gen'):
        for dp, dn, fn in os.walk(os.path.join(COQ, root)):
            for f in fn:
                if f.endswith('.v'):
                    txt = open(os.path.join(dp, f)).read()
                    txt = re.sub(r'\(\*.*?\*\)', '', txt, flags=re.S)
                    for m in pat.finditer(txt):
                        bad.append((os.path.relpath(os.path.join(dp, f), COQ), m.group(1)))
    # Variable/Hypothesis outside a section
    return bad


# ------------------------------------------------------------------ evaluating terms in Coq
EVAL_HEADER = '''From Coq Require Import ZArith List Bool.
From ArmV Require Import Lib.PyZ Lib.Monad Lib.Machine Lib.Enc.
{imports}
Import ListNotations.
Open Scope Z_scope.
'''


def coq_eval(terms, imports, tag, chunk=400, timeout=600):
    """terms: list of Coq terms of type `list Z`; returns list of python int lists (or None per failed chunk)."""
    os_makedirs()
    d = os.path.join(BUILD, 'eval')
    os.makedirs(d, exist_ok=True)
    results = [None] * len(terms)
    procs = []
    for ci in range(0, len(terms), chunk):
        part = terms[ci:ci + chunk]
        name = f'ev_{tag}_{ci // chunk}'
        path = os.path.join(d, name + '.v')
        body = EVAL_HEADER.format(imports=imports)
        body += 'Definition cases : list (list Z) := [\n' + ';\n'.join(part) + '\n].\n'
        body += 'Eval vm_compute in cases.\n'
        with open(path, 'w') as f:
            f.write(body)
        p = subprocess.Popen(['coqc'] + COQFLAGS + ['-noglob', '-w', '-notation-overridden', '-o', os.path.join(d, name + '.vo'), path],
                             cwd=COQ, stdout=subprocess.PIPE, stderr=subprocess.PIPE, text=True)
        procs.append((ci, len(part), p, path))
        if len(procs) >= 12:
            _drain(procs, results, timeout)
            procs = []
    _drain(procs, results, timeout)
    return results


def _drain(procs, results, timeout):
    for (ci, n, p, path) in procs:
        try:
            out, err = p.communicate(timeout=timeout)
        except subprocess.TimeoutExpired:
            p.kill()
            continue
        if p.returncode != 0:
            sys.stderr.write(f'coq_eval failed for {path}:\n{err[:2000]}\n')
            continue
        parsed = parse_list_list(out)
        if parsed is None or len(parsed) != n:
            sys.stderr.write(f'coq_eval: cannot parse output of {path}\n')
            continue
        for i, r in enumerate(parsed):
            results[ci + i] = r
        # evaluated: the generated file and what coqc left beside it are scratch (kept only when something went wrong)
        base = path[:-2]
        for ext in ('.v', '.vo', '.vok', '.vos', '.glob'):
            try:
                os.remove(base + ext)
            except OSError:
                pass
        try:
            os.remove(os.path.join(os.path.dirname(base), '.' + os.path.basename(base) + '.aux'))
        except OSError:
            pass


def parse_list_list(out):
    m = re.search(r'=\s*(\[.*\])\s*:\s*list \(list Z\)', out, re.S)
    if not m:
        return None
    txt = m.group(1).replace('\n', ' ')
    txt = re.sub(r'\s+', ' ', txt)
    res = []
    depth = 0
    cur = None
    for tok in re.findall(r'\[|\]|-?\d+', txt):
        if tok == '[':
            depth += 1
            if depth == 2:
                cur = []
        elif tok == ']':
            if depth == 2:
                res.append(cur)
                cur = None
            depth -= 1
        else:
            if cur is not None:
                cur.append(int(tok))
    return res


def zc(v):
    """Coq Z literal"""
    v = int(v)
    return str(v) if v >= 0 else f'({v})'


# ------------------------------------------------------------------ evidence
def write_evidence(pid, tier, seed, coverage, wall, violations, assumptions=None, extra=None):
    os_makedirs()
    ev = {'property_id': pid, 'tier': tier, 'seed': seed, 'level': 'proof', 'coverage': coverage,
          'assumptions': assumptions or [], 'wall_s': round(wall, 2), 'violations': violations}
    if extra:
        ev.update(extra)
    with open(os.path.join(EVID, pid + '.json'), 'w') as f:
        json.dump(ev, f, indent=1, sort_keys=True, default=str)


def write_replay(pid, unit, payload):
    os_makedirs()
    h = hashlib.sha256(json.dumps(payload, sort_keys=True, default=str).encode()).hexdigest()[:12]
    p = os.path.join(REPLAYS, f'{pid}-{unit}-{h}.json'.replace('/', '_'))
    with open(p, 'w') as f:
        json.dump(payload, f, indent=1, sort_keys=True, default=str)
    return p


def known_findings():
    """parse known-findings.txt -> list of dicts (kind, property, unit, text)"""
    out = []
    p = os.path.join(VERIF, 'known-findings.txt')
    if not os.path.exists(p):
        return out
    for line in open(p):
        line = line.strip()
        if not line or line.startswith('#'):
            continue
        m = re.match(r'(finding|fixed):\s+property=(\S+)\s+(.*)', line)
        if not m:
            continue
        d = {'kind': m.group(1), 'property': m.group(2), 'rest': m.group(3)}
        mu = re.search(r'unit=(\S+)', m.group(3))
        d['unit'] = mu.group(1) if mu else None
        ml = re.search(r'label=(\S+)', m.group(3))
        d['label'] = ml.group(1) if ml else None
        mi = re.search(r'impl=([\d,]+)', m.group(3))
        d['impl_prefix'] = [int(x) for x in mi.group(1).split(',')] if mi else None
        ms = re.search(r'spec=([\d,]+)', m.group(3))
        d['spec_prefix'] = [int(x) for x in ms.group(1).split(',')] if ms else None
        mw = re.search(r'witness=(\S+)', m.group(3))
        d['witness'] = mw.group(1) if mw else None
        d['text'] = m.group(3).split('::', 1)[1].strip() if '::' in m.group(3) else m.group(3)
        out.append(d)
    return out


def rng(seed, salt):
    return random.Random(f'{seed}:{salt}')


# ------------------------------------------------------------------ extracted model (OCaml)
EXTRACT = os.path.join(COQ, 'extract')


def build_armsim(timeout=900):
    """extract the regenerated model and compile the driver; returns (ok, log).  Rebuilt only when
    gen/step.vo is newer than the binary."""
    binp = os.path.join(BUILD, 'armsim')
    stepvo = os.path.join(GEN, 'step.vo')
    srcs = [stepvo, os.path.join(EXTRACT, 'Extract.v'), os.path.join(EXTRACT, 'driver.ml'),
            os.path.join(COQ, 'theories', 'Lib', 'Enc.vo')]
    if not all(os.path.exists(s) for s in srcs):
        return False, 'model not built'
    if os.path.exists(binp) and all(os.path.getmtime(binp) >= os.path.getmtime(s) for s in srcs):
        return True, 'up to date'
    work = os.path.join(BUILD, 'extract')
    os.makedirs(work, exist_ok=True)
    for f in ('Extract.v', 'driver.ml'):
        with open(os.path.join(EXTRACT, f)) as a, open(os.path.join(work, f), 'w') as b:
            b.write(a.read())
    rc, out, err, dt = run(['coqc', '-Q', os.path.join(COQ, 'theories'), 'ArmV', '-Q', GEN, 'Gen', 'Extract.v'],
                           timeout, cwd=work)
    if rc != 0:
        return False, out + err
    rc, out, err, dt = run(['ocamlfind', 'ocamlopt', '-O2', '-w', '-a', 'armsim.mli', 'armsim.ml', 'driver.ml',
                            '-o', binp], timeout, cwd=work)
    return rc == 0, out + err


def armsim_run(lines, timeout=3000):
    """lines: list of strings for the driver; returns list of int lists (None on failure)"""
    binp = os.path.join(BUILD, 'armsim')
    env = dict(os.environ)
    p = subprocess.run(['bash', '-c', f'ulimit -s unlimited; exec {binp}'], input='\n'.join(lines) + '\n',
                       capture_output=True, text=True, timeout=timeout, env=env)
    outs = p.stdout.split('\n')
    res = []
    for i in range(len(lines)):
        if i < len(outs) and outs[i].strip() != '':
            try:
                res.append([int(x) for x in outs[i].split()])
            except ValueError:
                res.append(None)
        else:
            res.append(None)
    return res
