(* Props/C15.v — C15: VMSA translation, short-descriptor format (stage 1, PL1&0 regime) and the MMU-off flat map.
   Statements only; proofs in Proofs/VmsaProofs.v (fault reporting, FCSE, domain and permission checks, TEX remap),
   Proofs/VmsaWalk.v (the table walk) and Proofs/VmsaXlate.v (TranslateAddressV).  The specification is Spec/Vmsa.v. *)
From Coq Require Import ZArith Bool List.
From ArmV Require Import Lib.PyZ Lib.Monad Lib.Machine Spec.Pseudocode Spec.Arch Spec.MachineView Spec.Hub Spec.Memory Spec.Vmsa
  Proofs.StateLemmas Proofs.BankProofs Proofs.HubProofs Proofs.MemProofs Proofs.VmsaProofs Proofs.VmsaWalk Proofs.VmsaXlate
  Corr.VmsaSpecRun.
From Gen Require Import enums records core.
Import ListNotations.
Open Scope Z_scope.

(* the whole translation: for every table content, TTBCR.N, TTBR0/1, PD0/PD1, DACR, SCTLR.{M,AFE,EE}, FCSE PID, PRRR/NMRR, every
   virtual address, direction, privilege and alignment: the physical address, memory attributes and NS bit the descriptors
   encode, or exactly the fault (type, level, domain in DFSR; MVA in DFAR) the architecture specifies; nothing else changes *)
Theorem C15_translate cfg va priv w size wa s :
  xlate_ctx cfg s -> walk_ctx cfg s -> 0 <= w <= 1 -> word va ->
  ArmV6_translate_address_v cfg va priv w size wa s =
  xlate_result cfg s w (vmsa_translate (truthy (cfg_have_security_ext cfg)) s (leaf_device s) va (truthy priv) (truthy w) (truthy wa)).
Proof. exact (translate_address_v_spec cfg va priv w size wa s). Qed.
Print Assumptions C15_translate.
(* with the MMU off addresses map flat (after FCSE), Strongly-ordered; an unaligned access takes an alignment fault *)
Theorem C15_mmu_off cfg va priv w size wa s :
  xlate_ctx cfg s -> 0 <= w <= 1 -> bit (sreg s i_sctlr) 0 = 0 ->
  ArmV6_translate_address_v cfg va priv w size wa s =
  let mva := FCSE (sreg s i_fcseidr) va in
  if truthy wa then Ok (flat_desc (IsSecure (sysctx_of cfg s) (cpsr_of s)) mva) s
  else Exc (EDataAbort DAbort_ALIGNMENT 0) (vmsa_fault_state s (FCSE (sreg s i_fcseidr) mva) VF_alignment 0 0 w).
Proof. exact (translate_address_v_mmu_off cfg va priv w size wa s). Qed.
Print Assumptions C15_mmu_off.
(* the table walk alone *)
Theorem C15_walk cfg mva w size s :
  walk_ctx cfg s -> 0 <= w <= 1 -> word mva ->
  ArmV6_translation_table_walk_sd cfg mva w size s =
  match sd_walk (truthy (cfg_have_security_ext cfg)) s mva with
  | W_fault vf lvl dom => Exc (EDataAbort (vf_dtype vf) 0) (vmsa_fault_state s mva vf lvl dom w)
  | W_leaf l => Ok (leaf_record (IsSecure (sysctx_of cfg s) (cpsr_of s)) l
                                (tex_remap (sreg s i_prrr) (sreg s i_nmrr) (lf_texcb l) (lf_s l))) s
  end.
Proof. exact (walk_sd_spec cfg mva w size s). Qed.
Print Assumptions C15_walk.
(* fault reporting: DFAR := MVA; DFSR<13:0> := WnR, FS<4:0> with the level, the domain where valid; then the Data Abort *)
Theorem C15_data_abort cfg mva ip dom lvl iswrite (vf : vfault) ssa ipav s2 s :
  vmsa cfg -> no_lpae cfg -> 0 <= iswrite <= 1 -> 0 <= dom < 16 -> 0 <= lvl <= 2 -> word (getl (sys s) 23) ->
  ArmV6_data_abort cfg mva ip dom lvl iswrite (vf_dtype vf) 0 ssa ipav 0 s2 s
  = Exc (EDataAbort (vf_dtype vf) ssa) (vmsa_fault_state s mva vf lvl dom iswrite).
Proof. exact (vmsa_data_abort cfg mva ip dom lvl iswrite vf ssa ipav s2 s). Qed.
Print Assumptions C15_data_abort.
Theorem C15_check_domain cfg dom mva lvl w s :
  vmsa cfg -> no_lpae cfg -> 0 <= w <= 1 -> 0 <= dom < 16 -> 0 <= lvl <= 2 -> word (getl (sys s) 23) ->
  ArmV6_check_domain cfg dom mva lvl w s =
  match dacr_field (sreg s i_dacr) dom with
  | 0 => Exc (EDataAbort DAbort_DOMAIN 0) (vmsa_fault_state s mva VF_domain lvl dom w)
  | 1 => Ok 1 s
  | _ => Ok 0 s
  end.
Proof. exact (check_domain_vmsa cfg dom mva lvl w s). Qed.
Print Assumptions C15_check_domain.
Theorem C15_check_permission cfg perms mva lvl dom w priv s :
  vmsa cfg -> no_lpae cfg -> 0 <= w <= 1 -> 0 <= dom < 16 -> 0 <= lvl <= 2 -> word (getl (sys s) 23) ->
  0 <= Permissions_ap perms < 8 ->
  ArmV6_check_permission cfg perms mva lvl dom w priv 0 0 s =
  if vmsa_ap_denies (bit (sreg s i_sctlr) 29 =? 1) (Permissions_ap perms) (truthy priv) (truthy w)
  then Exc (EDataAbort DAbort_PERMISSION 0) (vmsa_fault_state s mva VF_permission lvl dom w) else Ok tt s.
Proof. exact (check_permission_vmsa cfg perms mva lvl dom w priv s). Qed.
Print Assumptions C15_check_permission.
Theorem C15_fcse va s : ArmV6_fcse_translate va s = Ok (FCSE (sreg s i_fcseidr) va) s.
Proof. exact (fcse_translate_spec va s). Qed.
Print Assumptions C15_fcse.
Theorem C15_tex_remap texcb sbit s : 0 <= sbit <= 1 ->
  ArmV6_remapped_tex_decode texcb sbit s = Ok (tex_remap (sreg s i_prrr) (sreg s i_nmrr) texcb sbit) s.
Proof. exact (remapped_tex_decode_spec texcb sbit s). Qed.
Print Assumptions C15_tex_remap.
(* the executable driver the correspondence check evaluates is the specification the theorems are about *)
Theorem C15_spec_run cfg s va priv w wa : cfg_have_virt_ext cfg = 0 -> 0 <= w <= 1 ->
  translate_spec (cfg_have_security_ext cfg) s va (truthy priv) (truthy w) (truthy wa)
  = xlate_result cfg s w (vmsa_translate (truthy (cfg_have_security_ext cfg)) s (leaf_device s) va (truthy priv) (truthy w) (truthy wa)).
Proof. exact (spec_run_eq cfg s va priv w wa). Qed.
Print Assumptions C15_spec_run.
