(* Props/C01step.v — C01 end to end.  (1) For ANY encoding of a data-processing instruction with an immediate operand and
   Rd != PC: if fetch, class selection and operand extraction deliver its operand record and execute() is dp_sem (the C01
   theorems), ONE emulate_cycle ends in the architectural result, ITAdvance inside an IT block, and PC + instruction length.
   (2) Two encodings discharged completely, for every word of the encoding and every machine state: ADD{S}<c> Rd, Rn, #const
   (ARM, A1) and ADD{S} Rd, Rn, #imm3 (Thumb, T1; setflags = !InITBlock()).  They compose the fetch interface (C13), class
   selection and operand extraction (C06/C07), the condition guard (C05), dp_sem (C01), ITAdvance (C08), AdvancePC (C04).
   Statements only (proofs in Proofs/StepDP.v, Proofs/StepInstances.v, Proofs/StepInstancesExample.v). *)
From Coq Require Import ZArith Bool List.
From ArmV Require Import Lib.PyZ Lib.Monad Lib.Machine Spec.Pseudocode Spec.Arch Spec.MachineView Spec.Branches Spec.StepFrame
  Spec.OperandSpec Spec.DPSem Proofs.StateLemmas Proofs.CondProofs Proofs.GuardProofs Proofs.DPLemmas Proofs.StepProofs Proofs.StepDP
  Proofs.StepInstances Proofs.StepInstancesArm Proofs.StepInstancesThumb Proofs.DPRange Proofs.StepDPReg Proofs.StepInstancesArmReg Proofs.StepInstancesCmp Proofs.StepInstancesArmRsr Proofs.StepInstancesThumbReg Proofs.StepInstancesMov Proofs.StepInstancesThumb2 Proofs.StepInstancesShift Proofs.StepInstancesThumb2Reg Proofs.StepInstancesCmpReg Proofs.StepInstancesCmpT2 Proofs.StepInstancesCmpRsr Proofs.StepInstancesMovReg Proofs.StepInstancesShiftT16 Proofs.MemProofs Proofs.StepFetch Proofs.StepClosed Proofs.StepInstancesExample.
From Gen Require Import enums opsyn core exec conc decoders step.
Import ListNotations.
Open Scope Z_scope.

Theorem C01_dp_imm_step cfg s w s1 enc op opA S d n imm c :
  ArmV6_fetch_instruction cfg s = Ok w s1 ->
  ArmV6_decode_instruction w s1 = Ok (Some enc) s1 ->
  from_bitarray_dispatch cfg enc w s1 = Ok (Some op) s1 ->
  execute_dispatch cfg op (begin_instr s1 op) = dp_sem cfg opA S (Some d) n (Op2Imm imm c) (begin_instr s1 op) ->
  ictx cfg s1 -> 0 <= d <= 14 -> 0 <= n <= 15 -> word imm -> 0 <= c <= 1 ->
  exists s2,
    dp_sem cfg opA S (Some d) n (Op2Imm imm c) (begin_instr s1 op) = Ok tt s2 /\
    ArmV6_emulate_cycle cfg s = Ok tt (AdvancePC (it_step_after s1 s2)) /\
    pc_of (AdvancePC (it_step_after s1 s2)) = add32 (pc_of s1) (opcode_len s1 / 8).
Proof. exact (dp_imm_step cfg s w s1 enc op opA S d n imm c). Qed.
Print Assumptions C01_dp_imm_step.

(* ADD (immediate, ARM) A1: cond != 1111, bits 27:21 = 0010100, Rn and Rd in r0-r12 and different *)
Theorem C01_add_imm_a1_step cfg s w s1 :
  ArmV6_fetch_instruction cfg s = Ok w s1 ->
  0 <= w < 2 ^ 32 -> is_add_imm_a1 w -> iset_of s1 = 0 -> ictx cfg s1 -> cond_holds s1 ->
  let d := bits w 15 12 in let n := bits w 19 16 in let imm32 := ARMExpandImm (bits w 11 0) in
  let op := (code_AddImmediateArm, [w; bit w 20; d; n; imm32]) in
  exists s2,
    dp_sem cfg ADD (bit w 20) (Some d) n (Op2Imm imm32 0) (begin_instr s1 op) = Ok tt s2 /\
    ArmV6_emulate_cycle cfg s = Ok tt (AdvancePC (it_step_after s1 s2)) /\
    pc_of (AdvancePC (it_step_after s1 s2)) = add32 (pc_of s1) (opcode_len s1 / 8).
Proof. exact (add_imm_a1_step cfg s w s1). Qed.
Print Assumptions C01_add_imm_a1_step.

(* ADD (immediate, Thumb) T1: 0001110 imm3 Rn Rd, any IT position *)
Theorem C01_add_imm_t1_step cfg s w s1 :
  ArmV6_fetch_instruction cfg s = Ok w s1 ->
  0 <= w < 2 ^ 16 -> is_add_imm_t1 w -> iset_of s1 = 1 -> opcode_len s1 = 16 -> ictx cfg s1 -> cond_holds s1 ->
  let d := bits w 2 0 in let n := bits w 5 3 in let imm32 := bits w 8 6 in
  let op := (code_AddImmediateThumb, [w; not_in_it s1; d; n; imm32]) in
  exists s2,
    dp_sem cfg ADD (not_in_it s1) (Some d) n (Op2Imm imm32 0) (begin_instr s1 op) = Ok tt s2 /\
    ArmV6_emulate_cycle cfg s = Ok tt (AdvancePC (it_step_after s1 s2)) /\
    pc_of (AdvancePC (it_step_after s1 s2)) = add32 (pc_of s1) 2.
Proof. exact (add_imm_t1_step cfg s w s1). Qed.
Print Assumptions C01_add_imm_t1_step.

(* the other ARM data-processing (immediate) encodings with a destination register: AND, EOR, SUB, RSB, ADC, SBC, RSC, ORR, BIC
   (A1; bits 24:21 = opcode; for the logical ones the shifter carry of ARMExpandImm_C goes into the C flag) *)
Theorem C01_andImmediateA1_step cfg s w s1 :
  ArmV6_fetch_instruction cfg s = Ok w s1 ->
  0 <= w < 2 ^ 32 -> is_dp_imm_a1 0 0 0 0 w -> iset_of s1 = 0 -> ictx cfg s1 -> cond_holds s1 ->
  let d := bits w 15 12 in let n := bits w 19 16 in let imm32 := ARMExpandImm (bits w 11 0) in
  let c := (snd (ARMExpandImm_C (bits w 11 0) (cflag s1))) in
  let op := (code_AndImmediate, [w; bit w 20; bits w 15 12; bits w 19 16; ARMExpandImm (bits w 11 0); snd (ARMExpandImm_C (bits w 11 0) (cflag s1))]) in
  exists s2,
    dp_sem cfg AND (bit w 20) (Some d) n (Op2Imm imm32 c) (begin_instr s1 op) = Ok tt s2 /\
    ArmV6_emulate_cycle cfg s = Ok tt (AdvancePC (it_step_after s1 s2)) /\
    pc_of (AdvancePC (it_step_after s1 s2)) = add32 (pc_of s1) (opcode_len s1 / 8).
Proof. exact (andImmediateA1_step cfg s w s1). Qed.
Print Assumptions C01_andImmediateA1_step.
Theorem C01_eorImmediateA1_step cfg s w s1 :
  ArmV6_fetch_instruction cfg s = Ok w s1 ->
  0 <= w < 2 ^ 32 -> is_dp_imm_a1 0 0 0 1 w -> iset_of s1 = 0 -> ictx cfg s1 -> cond_holds s1 ->
  let d := bits w 15 12 in let n := bits w 19 16 in let imm32 := ARMExpandImm (bits w 11 0) in
  let c := (snd (ARMExpandImm_C (bits w 11 0) (cflag s1))) in
  let op := (code_EorImmediate, [w; bit w 20; bits w 15 12; bits w 19 16; ARMExpandImm (bits w 11 0); snd (ARMExpandImm_C (bits w 11 0) (cflag s1))]) in
  exists s2,
    dp_sem cfg EOR (bit w 20) (Some d) n (Op2Imm imm32 c) (begin_instr s1 op) = Ok tt s2 /\
    ArmV6_emulate_cycle cfg s = Ok tt (AdvancePC (it_step_after s1 s2)) /\
    pc_of (AdvancePC (it_step_after s1 s2)) = add32 (pc_of s1) (opcode_len s1 / 8).
Proof. exact (eorImmediateA1_step cfg s w s1). Qed.
Print Assumptions C01_eorImmediateA1_step.
Theorem C01_subImmediateArmA1_step cfg s w s1 :
  ArmV6_fetch_instruction cfg s = Ok w s1 ->
  0 <= w < 2 ^ 32 -> is_dp_imm_a1 0 0 1 0 w -> iset_of s1 = 0 -> ictx cfg s1 -> cond_holds s1 ->
  let d := bits w 15 12 in let n := bits w 19 16 in let imm32 := ARMExpandImm (bits w 11 0) in
  let c := 0 in
  let op := (code_SubImmediateArm, [w; bit w 20; bits w 15 12; bits w 19 16; ARMExpandImm (bits w 11 0)]) in
  exists s2,
    dp_sem cfg SUB (bit w 20) (Some d) n (Op2Imm imm32 c) (begin_instr s1 op) = Ok tt s2 /\
    ArmV6_emulate_cycle cfg s = Ok tt (AdvancePC (it_step_after s1 s2)) /\
    pc_of (AdvancePC (it_step_after s1 s2)) = add32 (pc_of s1) (opcode_len s1 / 8).
Proof. exact (subImmediateArmA1_step cfg s w s1). Qed.
Print Assumptions C01_subImmediateArmA1_step.
Theorem C01_rsbImmediateA1_step cfg s w s1 :
  ArmV6_fetch_instruction cfg s = Ok w s1 ->
  0 <= w < 2 ^ 32 -> is_dp_imm_a1 0 0 1 1 w -> iset_of s1 = 0 -> ictx cfg s1 -> cond_holds s1 ->
  let d := bits w 15 12 in let n := bits w 19 16 in let imm32 := ARMExpandImm (bits w 11 0) in
  let c := 0 in
  let op := (code_RsbImmediate, [w; bit w 20; bits w 15 12; bits w 19 16; ARMExpandImm (bits w 11 0)]) in
  exists s2,
    dp_sem cfg RSB (bit w 20) (Some d) n (Op2Imm imm32 c) (begin_instr s1 op) = Ok tt s2 /\
    ArmV6_emulate_cycle cfg s = Ok tt (AdvancePC (it_step_after s1 s2)) /\
    pc_of (AdvancePC (it_step_after s1 s2)) = add32 (pc_of s1) (opcode_len s1 / 8).
Proof. exact (rsbImmediateA1_step cfg s w s1). Qed.
Print Assumptions C01_rsbImmediateA1_step.
Theorem C01_adcImmediateA1_step cfg s w s1 :
  ArmV6_fetch_instruction cfg s = Ok w s1 ->
  0 <= w < 2 ^ 32 -> is_dp_imm_a1 0 1 0 1 w -> iset_of s1 = 0 -> ictx cfg s1 -> cond_holds s1 ->
  let d := bits w 15 12 in let n := bits w 19 16 in let imm32 := ARMExpandImm (bits w 11 0) in
  let c := 0 in
  let op := (code_AdcImmediate, [w; bit w 20; bits w 15 12; bits w 19 16; ARMExpandImm (bits w 11 0)]) in
  exists s2,
    dp_sem cfg ADC (bit w 20) (Some d) n (Op2Imm imm32 c) (begin_instr s1 op) = Ok tt s2 /\
    ArmV6_emulate_cycle cfg s = Ok tt (AdvancePC (it_step_after s1 s2)) /\
    pc_of (AdvancePC (it_step_after s1 s2)) = add32 (pc_of s1) (opcode_len s1 / 8).
Proof. exact (adcImmediateA1_step cfg s w s1). Qed.
Print Assumptions C01_adcImmediateA1_step.
Theorem C01_sbcImmediateA1_step cfg s w s1 :
  ArmV6_fetch_instruction cfg s = Ok w s1 ->
  0 <= w < 2 ^ 32 -> is_dp_imm_a1 0 1 1 0 w -> iset_of s1 = 0 -> ictx cfg s1 -> cond_holds s1 ->
  let d := bits w 15 12 in let n := bits w 19 16 in let imm32 := ARMExpandImm (bits w 11 0) in
  let c := 0 in
  let op := (code_SbcImmediate, [w; bit w 20; bits w 15 12; bits w 19 16; ARMExpandImm (bits w 11 0)]) in
  exists s2,
    dp_sem cfg SBC (bit w 20) (Some d) n (Op2Imm imm32 c) (begin_instr s1 op) = Ok tt s2 /\
    ArmV6_emulate_cycle cfg s = Ok tt (AdvancePC (it_step_after s1 s2)) /\
    pc_of (AdvancePC (it_step_after s1 s2)) = add32 (pc_of s1) (opcode_len s1 / 8).
Proof. exact (sbcImmediateA1_step cfg s w s1). Qed.
Print Assumptions C01_sbcImmediateA1_step.
Theorem C01_rscImmediateA1_step cfg s w s1 :
  ArmV6_fetch_instruction cfg s = Ok w s1 ->
  0 <= w < 2 ^ 32 -> is_dp_imm_a1 0 1 1 1 w -> iset_of s1 = 0 -> ictx cfg s1 -> cond_holds s1 ->
  let d := bits w 15 12 in let n := bits w 19 16 in let imm32 := ARMExpandImm (bits w 11 0) in
  let c := 0 in
  let op := (code_RscImmediate, [w; bit w 20; bits w 15 12; bits w 19 16; ARMExpandImm (bits w 11 0)]) in
  exists s2,
    dp_sem cfg RSC (bit w 20) (Some d) n (Op2Imm imm32 c) (begin_instr s1 op) = Ok tt s2 /\
    ArmV6_emulate_cycle cfg s = Ok tt (AdvancePC (it_step_after s1 s2)) /\
    pc_of (AdvancePC (it_step_after s1 s2)) = add32 (pc_of s1) (opcode_len s1 / 8).
Proof. exact (rscImmediateA1_step cfg s w s1). Qed.
Print Assumptions C01_rscImmediateA1_step.
Theorem C01_orrImmediateA1_step cfg s w s1 :
  ArmV6_fetch_instruction cfg s = Ok w s1 ->
  0 <= w < 2 ^ 32 -> is_dp_imm_a1 1 1 0 0 w -> iset_of s1 = 0 -> ictx cfg s1 -> cond_holds s1 ->
  let d := bits w 15 12 in let n := bits w 19 16 in let imm32 := ARMExpandImm (bits w 11 0) in
  let c := (snd (ARMExpandImm_C (bits w 11 0) (cflag s1))) in
  let op := (code_OrrImmediate, [w; bit w 20; bits w 15 12; bits w 19 16; ARMExpandImm (bits w 11 0); snd (ARMExpandImm_C (bits w 11 0) (cflag s1))]) in
  exists s2,
    dp_sem cfg ORR (bit w 20) (Some d) n (Op2Imm imm32 c) (begin_instr s1 op) = Ok tt s2 /\
    ArmV6_emulate_cycle cfg s = Ok tt (AdvancePC (it_step_after s1 s2)) /\
    pc_of (AdvancePC (it_step_after s1 s2)) = add32 (pc_of s1) (opcode_len s1 / 8).
Proof. exact (orrImmediateA1_step cfg s w s1). Qed.
Print Assumptions C01_orrImmediateA1_step.
Theorem C01_bicImmediateA1_step cfg s w s1 :
  ArmV6_fetch_instruction cfg s = Ok w s1 ->
  0 <= w < 2 ^ 32 -> is_dp_imm_a1 1 1 1 0 w -> iset_of s1 = 0 -> ictx cfg s1 -> cond_holds s1 ->
  let d := bits w 15 12 in let n := bits w 19 16 in let imm32 := ARMExpandImm (bits w 11 0) in
  let c := (snd (ARMExpandImm_C (bits w 11 0) (cflag s1))) in
  let op := (code_BicImmediate, [w; bit w 20; bits w 15 12; bits w 19 16; ARMExpandImm (bits w 11 0); snd (ARMExpandImm_C (bits w 11 0) (cflag s1))]) in
  exists s2,
    dp_sem cfg BIC (bit w 20) (Some d) n (Op2Imm imm32 c) (begin_instr s1 op) = Ok tt s2 /\
    ArmV6_emulate_cycle cfg s = Ok tt (AdvancePC (it_step_after s1 s2)) /\
    pc_of (AdvancePC (it_step_after s1 s2)) = add32 (pc_of s1) (opcode_len s1 / 8).
Proof. exact (bicImmediateA1_step cfg s w s1). Qed.
Print Assumptions C01_bicImmediateA1_step.

(* three more 16-bit Thumb encodings whose flag setting is !InITBlock(): SUB (3-bit immediate) T1, ADD / SUB (8-bit immediate) T2 *)
Theorem C01_subImmediateThumbT1_step cfg s w s1 :
  ArmV6_fetch_instruction cfg s = Ok w s1 ->
  0 <= w < 2 ^ 16 -> is_subImmediateThumbT1 w -> iset_of s1 = 1 -> opcode_len s1 = 16 -> ictx cfg s1 -> cond_holds s1 ->
  let d := bits w 2 0 in let n := bits w 5 3 in let imm32 := bits w 8 6 in
  let op := (code_SubImmediateThumb, [w; not_in_it s1; d; n; imm32]) in
  exists s2,
    dp_sem cfg SUB (not_in_it s1) (Some d) n (Op2Imm imm32 0) (begin_instr s1 op) = Ok tt s2 /\
    ArmV6_emulate_cycle cfg s = Ok tt (AdvancePC (it_step_after s1 s2)) /\
    pc_of (AdvancePC (it_step_after s1 s2)) = add32 (pc_of s1) 2.
Proof. exact (subImmediateThumbT1_step cfg s w s1). Qed.
Print Assumptions C01_subImmediateThumbT1_step.
Theorem C01_addImmediateThumbT2_step cfg s w s1 :
  ArmV6_fetch_instruction cfg s = Ok w s1 ->
  0 <= w < 2 ^ 16 -> is_addImmediateThumbT2 w -> iset_of s1 = 1 -> opcode_len s1 = 16 -> ictx cfg s1 -> cond_holds s1 ->
  let d := bits w 10 8 in let n := bits w 10 8 in let imm32 := bits w 7 0 in
  let op := (code_AddImmediateThumb, [w; not_in_it s1; d; n; imm32]) in
  exists s2,
    dp_sem cfg ADD (not_in_it s1) (Some d) n (Op2Imm imm32 0) (begin_instr s1 op) = Ok tt s2 /\
    ArmV6_emulate_cycle cfg s = Ok tt (AdvancePC (it_step_after s1 s2)) /\
    pc_of (AdvancePC (it_step_after s1 s2)) = add32 (pc_of s1) 2.
Proof. exact (addImmediateThumbT2_step cfg s w s1). Qed.
Print Assumptions C01_addImmediateThumbT2_step.
Theorem C01_subImmediateThumbT2_step cfg s w s1 :
  ArmV6_fetch_instruction cfg s = Ok w s1 ->
  0 <= w < 2 ^ 16 -> is_subImmediateThumbT2 w -> iset_of s1 = 1 -> opcode_len s1 = 16 -> ictx cfg s1 -> cond_holds s1 ->
  let d := bits w 10 8 in let n := bits w 10 8 in let imm32 := bits w 7 0 in
  let op := (code_SubImmediateThumb, [w; not_in_it s1; d; n; imm32]) in
  exists s2,
    dp_sem cfg SUB (not_in_it s1) (Some d) n (Op2Imm imm32 0) (begin_instr s1 op) = Ok tt s2 /\
    ArmV6_emulate_cycle cfg s = Ok tt (AdvancePC (it_step_after s1 s2)) /\
    pc_of (AdvancePC (it_step_after s1 s2)) = add32 (pc_of s1) 2.
Proof. exact (subImmediateThumbT2_step cfg s w s1). Qed.
Print Assumptions C01_subImmediateThumbT2_step.

(* any operand form (immediate, shifted register, register-shifted register, plain register), Rd != PC *)
Theorem C01_dp_step cfg s w s1 enc op opA S d n o :
  ArmV6_fetch_instruction cfg s = Ok w s1 ->
  ArmV6_decode_instruction w s1 = Ok (Some enc) s1 ->
  from_bitarray_dispatch cfg enc w s1 = Ok (Some op) s1 ->
  execute_dispatch cfg op (begin_instr s1 op) = dp_sem cfg opA S (Some d) n o (begin_instr s1 op) ->
  ictx cfg s1 -> 0 <= d <= 14 -> 0 <= n <= 15 -> op2_valid o ->
  exists s2,
    dp_sem cfg opA S (Some d) n o (begin_instr s1 op) = Ok tt s2 /\
    ArmV6_emulate_cycle cfg s = Ok tt (AdvancePC (it_step_after s1 s2)) /\
    pc_of (AdvancePC (it_step_after s1 s2)) = add32 (pc_of s1) (opcode_len s1 / 8).
Proof. exact (dp_step cfg s w s1 enc op opA S d n o). Qed.
Print Assumptions C01_dp_step.

(* the ARM data-processing (register) encodings with a destination: <op>{S}<c> Rd, Rn, Rm{, <shift> #imm5} (A1, bit 4 = 0) *)
Theorem C01_andRegisterA1_step cfg s w s1 :
  ArmV6_fetch_instruction cfg s = Ok w s1 ->
  0 <= w < 2 ^ 32 -> is_dp_reg_a1 0 0 0 0 w -> iset_of s1 = 0 -> ictx cfg s1 -> cond_holds s1 ->
  let d := bits w 15 12 in let n := bits w 19 16 in let m := bits w 3 0 in
  let sh := DecodeImmShift (bits w 6 5) (bits w 11 7) in
  let op := (code_AndRegister, [w; bit w 20; m; d; n; fst sh; snd sh]) in
  exists s2,
    dp_sem cfg AND (bit w 20) (Some d) n (Op2Reg m (fst sh) (snd sh)) (begin_instr s1 op) = Ok tt s2 /\
    ArmV6_emulate_cycle cfg s = Ok tt (AdvancePC (it_step_after s1 s2)) /\
    pc_of (AdvancePC (it_step_after s1 s2)) = add32 (pc_of s1) (opcode_len s1 / 8).
Proof. exact (andRegisterA1_step cfg s w s1). Qed.
Print Assumptions C01_andRegisterA1_step.
Theorem C01_eorRegisterA1_step cfg s w s1 :
  ArmV6_fetch_instruction cfg s = Ok w s1 ->
  0 <= w < 2 ^ 32 -> is_dp_reg_a1 0 0 0 1 w -> iset_of s1 = 0 -> ictx cfg s1 -> cond_holds s1 ->
  let d := bits w 15 12 in let n := bits w 19 16 in let m := bits w 3 0 in
  let sh := DecodeImmShift (bits w 6 5) (bits w 11 7) in
  let op := (code_EorRegister, [w; bit w 20; m; d; n; fst sh; snd sh]) in
  exists s2,
    dp_sem cfg EOR (bit w 20) (Some d) n (Op2Reg m (fst sh) (snd sh)) (begin_instr s1 op) = Ok tt s2 /\
    ArmV6_emulate_cycle cfg s = Ok tt (AdvancePC (it_step_after s1 s2)) /\
    pc_of (AdvancePC (it_step_after s1 s2)) = add32 (pc_of s1) (opcode_len s1 / 8).
Proof. exact (eorRegisterA1_step cfg s w s1). Qed.
Print Assumptions C01_eorRegisterA1_step.
Theorem C01_subRegisterA1_step cfg s w s1 :
  ArmV6_fetch_instruction cfg s = Ok w s1 ->
  0 <= w < 2 ^ 32 -> is_dp_reg_a1 0 0 1 0 w -> iset_of s1 = 0 -> ictx cfg s1 -> cond_holds s1 ->
  let d := bits w 15 12 in let n := bits w 19 16 in let m := bits w 3 0 in
  let sh := DecodeImmShift (bits w 6 5) (bits w 11 7) in
  let op := (code_SubRegister, [w; bit w 20; m; d; n; fst sh; snd sh]) in
  exists s2,
    dp_sem cfg SUB (bit w 20) (Some d) n (Op2Reg m (fst sh) (snd sh)) (begin_instr s1 op) = Ok tt s2 /\
    ArmV6_emulate_cycle cfg s = Ok tt (AdvancePC (it_step_after s1 s2)) /\
    pc_of (AdvancePC (it_step_after s1 s2)) = add32 (pc_of s1) (opcode_len s1 / 8).
Proof. exact (subRegisterA1_step cfg s w s1). Qed.
Print Assumptions C01_subRegisterA1_step.
Theorem C01_rsbRegisterA1_step cfg s w s1 :
  ArmV6_fetch_instruction cfg s = Ok w s1 ->
  0 <= w < 2 ^ 32 -> is_dp_reg_a1 0 0 1 1 w -> iset_of s1 = 0 -> ictx cfg s1 -> cond_holds s1 ->
  let d := bits w 15 12 in let n := bits w 19 16 in let m := bits w 3 0 in
  let sh := DecodeImmShift (bits w 6 5) (bits w 11 7) in
  let op := (code_RsbRegister, [w; bit w 20; m; d; n; fst sh; snd sh]) in
  exists s2,
    dp_sem cfg RSB (bit w 20) (Some d) n (Op2Reg m (fst sh) (snd sh)) (begin_instr s1 op) = Ok tt s2 /\
    ArmV6_emulate_cycle cfg s = Ok tt (AdvancePC (it_step_after s1 s2)) /\
    pc_of (AdvancePC (it_step_after s1 s2)) = add32 (pc_of s1) (opcode_len s1 / 8).
Proof. exact (rsbRegisterA1_step cfg s w s1). Qed.
Print Assumptions C01_rsbRegisterA1_step.
Theorem C01_addRegisterArmA1_step cfg s w s1 :
  ArmV6_fetch_instruction cfg s = Ok w s1 ->
  0 <= w < 2 ^ 32 -> is_dp_reg_a1 0 1 0 0 w -> iset_of s1 = 0 -> ictx cfg s1 -> cond_holds s1 ->
  let d := bits w 15 12 in let n := bits w 19 16 in let m := bits w 3 0 in
  let sh := DecodeImmShift (bits w 6 5) (bits w 11 7) in
  let op := (code_AddRegisterArm, [w; bit w 20; m; d; n; fst sh; snd sh]) in
  exists s2,
    dp_sem cfg ADD (bit w 20) (Some d) n (Op2Reg m (fst sh) (snd sh)) (begin_instr s1 op) = Ok tt s2 /\
    ArmV6_emulate_cycle cfg s = Ok tt (AdvancePC (it_step_after s1 s2)) /\
    pc_of (AdvancePC (it_step_after s1 s2)) = add32 (pc_of s1) (opcode_len s1 / 8).
Proof. exact (addRegisterArmA1_step cfg s w s1). Qed.
Print Assumptions C01_addRegisterArmA1_step.
Theorem C01_adcRegisterA1_step cfg s w s1 :
  ArmV6_fetch_instruction cfg s = Ok w s1 ->
  0 <= w < 2 ^ 32 -> is_dp_reg_a1 0 1 0 1 w -> iset_of s1 = 0 -> ictx cfg s1 -> cond_holds s1 ->
  let d := bits w 15 12 in let n := bits w 19 16 in let m := bits w 3 0 in
  let sh := DecodeImmShift (bits w 6 5) (bits w 11 7) in
  let op := (code_AdcRegister, [w; bit w 20; m; d; n; fst sh; snd sh]) in
  exists s2,
    dp_sem cfg ADC (bit w 20) (Some d) n (Op2Reg m (fst sh) (snd sh)) (begin_instr s1 op) = Ok tt s2 /\
    ArmV6_emulate_cycle cfg s = Ok tt (AdvancePC (it_step_after s1 s2)) /\
    pc_of (AdvancePC (it_step_after s1 s2)) = add32 (pc_of s1) (opcode_len s1 / 8).
Proof. exact (adcRegisterA1_step cfg s w s1). Qed.
Print Assumptions C01_adcRegisterA1_step.
Theorem C01_sbcRegisterA1_step cfg s w s1 :
  ArmV6_fetch_instruction cfg s = Ok w s1 ->
  0 <= w < 2 ^ 32 -> is_dp_reg_a1 0 1 1 0 w -> iset_of s1 = 0 -> ictx cfg s1 -> cond_holds s1 ->
  let d := bits w 15 12 in let n := bits w 19 16 in let m := bits w 3 0 in
  let sh := DecodeImmShift (bits w 6 5) (bits w 11 7) in
  let op := (code_SbcRegister, [w; bit w 20; m; d; n; fst sh; snd sh]) in
  exists s2,
    dp_sem cfg SBC (bit w 20) (Some d) n (Op2Reg m (fst sh) (snd sh)) (begin_instr s1 op) = Ok tt s2 /\
    ArmV6_emulate_cycle cfg s = Ok tt (AdvancePC (it_step_after s1 s2)) /\
    pc_of (AdvancePC (it_step_after s1 s2)) = add32 (pc_of s1) (opcode_len s1 / 8).
Proof. exact (sbcRegisterA1_step cfg s w s1). Qed.
Print Assumptions C01_sbcRegisterA1_step.
Theorem C01_rscRegisterA1_step cfg s w s1 :
  ArmV6_fetch_instruction cfg s = Ok w s1 ->
  0 <= w < 2 ^ 32 -> is_dp_reg_a1 0 1 1 1 w -> iset_of s1 = 0 -> ictx cfg s1 -> cond_holds s1 ->
  let d := bits w 15 12 in let n := bits w 19 16 in let m := bits w 3 0 in
  let sh := DecodeImmShift (bits w 6 5) (bits w 11 7) in
  let op := (code_RscRegister, [w; bit w 20; m; d; n; fst sh; snd sh]) in
  exists s2,
    dp_sem cfg RSC (bit w 20) (Some d) n (Op2Reg m (fst sh) (snd sh)) (begin_instr s1 op) = Ok tt s2 /\
    ArmV6_emulate_cycle cfg s = Ok tt (AdvancePC (it_step_after s1 s2)) /\
    pc_of (AdvancePC (it_step_after s1 s2)) = add32 (pc_of s1) (opcode_len s1 / 8).
Proof. exact (rscRegisterA1_step cfg s w s1). Qed.
Print Assumptions C01_rscRegisterA1_step.
Theorem C01_orrRegisterA1_step cfg s w s1 :
  ArmV6_fetch_instruction cfg s = Ok w s1 ->
  0 <= w < 2 ^ 32 -> is_dp_reg_a1 1 1 0 0 w -> iset_of s1 = 0 -> ictx cfg s1 -> cond_holds s1 ->
  let d := bits w 15 12 in let n := bits w 19 16 in let m := bits w 3 0 in
  let sh := DecodeImmShift (bits w 6 5) (bits w 11 7) in
  let op := (code_OrrRegister, [w; bit w 20; m; d; n; fst sh; snd sh]) in
  exists s2,
    dp_sem cfg ORR (bit w 20) (Some d) n (Op2Reg m (fst sh) (snd sh)) (begin_instr s1 op) = Ok tt s2 /\
    ArmV6_emulate_cycle cfg s = Ok tt (AdvancePC (it_step_after s1 s2)) /\
    pc_of (AdvancePC (it_step_after s1 s2)) = add32 (pc_of s1) (opcode_len s1 / 8).
Proof. exact (orrRegisterA1_step cfg s w s1). Qed.
Print Assumptions C01_orrRegisterA1_step.
Theorem C01_bicRegisterA1_step cfg s w s1 :
  ArmV6_fetch_instruction cfg s = Ok w s1 ->
  0 <= w < 2 ^ 32 -> is_dp_reg_a1 1 1 1 0 w -> iset_of s1 = 0 -> ictx cfg s1 -> cond_holds s1 ->
  let d := bits w 15 12 in let n := bits w 19 16 in let m := bits w 3 0 in
  let sh := DecodeImmShift (bits w 6 5) (bits w 11 7) in
  let op := (code_BicRegister, [w; bit w 20; m; d; n; fst sh; snd sh]) in
  exists s2,
    dp_sem cfg BIC (bit w 20) (Some d) n (Op2Reg m (fst sh) (snd sh)) (begin_instr s1 op) = Ok tt s2 /\
    ArmV6_emulate_cycle cfg s = Ok tt (AdvancePC (it_step_after s1 s2)) /\
    pc_of (AdvancePC (it_step_after s1 s2)) = add32 (pc_of s1) (opcode_len s1 / 8).
Proof. exact (bicRegisterA1_step cfg s w s1). Qed.
Print Assumptions C01_bicRegisterA1_step.

(* comparisons (no destination): flags only — every register but the PC is unchanged *)
Theorem C01_dp_cmp_step cfg s w s1 enc op opA S n o :
  ArmV6_fetch_instruction cfg s = Ok w s1 ->
  ArmV6_decode_instruction w s1 = Ok (Some enc) s1 ->
  from_bitarray_dispatch cfg enc w s1 = Ok (Some op) s1 ->
  execute_dispatch cfg op (begin_instr s1 op) = dp_sem cfg opA S None n o (begin_instr s1 op) ->
  ictx cfg s1 -> 0 <= n <= 15 -> op2_valid o ->
  exists s2,
    dp_sem cfg opA S None n o (begin_instr s1 op) = Ok tt s2 /\
    ArmV6_emulate_cycle cfg s = Ok tt (AdvancePC (it_step_after s1 s2)) /\
    pc_of (AdvancePC (it_step_after s1 s2)) = add32 (pc_of s1) (opcode_len s1 / 8) /\
    (forall k, 0 <= k -> k <> pc_index -> getl (R (AdvancePC (it_step_after s1 s2))) k = getl (R s1) k).
Proof. exact (dp_cmp_step cfg s w s1 enc op opA S n o). Qed.
Print Assumptions C01_dp_cmp_step.

(* TST, TEQ, CMP, CMN (immediate, ARM A1): cond != 1111, 00110 opc 1, Rn in r0-r12 *)
Theorem C01_tstImmediateA1_step cfg s w s1 :
  ArmV6_fetch_instruction cfg s = Ok w s1 ->
  0 <= w < 2 ^ 32 -> is_cmp_imm_a1 1 0 0 0 w -> iset_of s1 = 0 -> ictx cfg s1 -> cond_holds s1 ->
  let n := bits w 19 16 in let imm32 := ARMExpandImm (bits w 11 0) in let c := (snd (ARMExpandImm_C (bits w 11 0) (cflag s1))) in
  let op := (code_TstImmediate, [w; bits w 19 16; ARMExpandImm (bits w 11 0); snd (ARMExpandImm_C (bits w 11 0) (cflag s1))]) in
  exists s2,
    dp_sem cfg AND 1 None n (Op2Imm imm32 c) (begin_instr s1 op) = Ok tt s2 /\
    ArmV6_emulate_cycle cfg s = Ok tt (AdvancePC (it_step_after s1 s2)) /\
    pc_of (AdvancePC (it_step_after s1 s2)) = add32 (pc_of s1) (opcode_len s1 / 8) /\
    (forall k, 0 <= k -> k <> pc_index -> getl (R (AdvancePC (it_step_after s1 s2))) k = getl (R s1) k).
Proof. exact (tstImmediateA1_step cfg s w s1). Qed.
Print Assumptions C01_tstImmediateA1_step.
Theorem C01_teqImmediateA1_step cfg s w s1 :
  ArmV6_fetch_instruction cfg s = Ok w s1 ->
  0 <= w < 2 ^ 32 -> is_cmp_imm_a1 1 0 0 1 w -> iset_of s1 = 0 -> ictx cfg s1 -> cond_holds s1 ->
  let n := bits w 19 16 in let imm32 := ARMExpandImm (bits w 11 0) in let c := (snd (ARMExpandImm_C (bits w 11 0) (cflag s1))) in
  let op := (code_TeqImmediate, [w; bits w 19 16; ARMExpandImm (bits w 11 0); snd (ARMExpandImm_C (bits w 11 0) (cflag s1))]) in
  exists s2,
    dp_sem cfg EOR 1 None n (Op2Imm imm32 c) (begin_instr s1 op) = Ok tt s2 /\
    ArmV6_emulate_cycle cfg s = Ok tt (AdvancePC (it_step_after s1 s2)) /\
    pc_of (AdvancePC (it_step_after s1 s2)) = add32 (pc_of s1) (opcode_len s1 / 8) /\
    (forall k, 0 <= k -> k <> pc_index -> getl (R (AdvancePC (it_step_after s1 s2))) k = getl (R s1) k).
Proof. exact (teqImmediateA1_step cfg s w s1). Qed.
Print Assumptions C01_teqImmediateA1_step.
Theorem C01_cmpImmediateA1_step cfg s w s1 :
  ArmV6_fetch_instruction cfg s = Ok w s1 ->
  0 <= w < 2 ^ 32 -> is_cmp_imm_a1 1 0 1 0 w -> iset_of s1 = 0 -> ictx cfg s1 -> cond_holds s1 ->
  let n := bits w 19 16 in let imm32 := ARMExpandImm (bits w 11 0) in let c := 0 in
  let op := (code_CmpImmediate, [w; bits w 19 16; ARMExpandImm (bits w 11 0)]) in
  exists s2,
    dp_sem cfg SUB 1 None n (Op2Imm imm32 c) (begin_instr s1 op) = Ok tt s2 /\
    ArmV6_emulate_cycle cfg s = Ok tt (AdvancePC (it_step_after s1 s2)) /\
    pc_of (AdvancePC (it_step_after s1 s2)) = add32 (pc_of s1) (opcode_len s1 / 8) /\
    (forall k, 0 <= k -> k <> pc_index -> getl (R (AdvancePC (it_step_after s1 s2))) k = getl (R s1) k).
Proof. exact (cmpImmediateA1_step cfg s w s1). Qed.
Print Assumptions C01_cmpImmediateA1_step.
Theorem C01_cmnImmediateA1_step cfg s w s1 :
  ArmV6_fetch_instruction cfg s = Ok w s1 ->
  0 <= w < 2 ^ 32 -> is_cmp_imm_a1 1 0 1 1 w -> iset_of s1 = 0 -> ictx cfg s1 -> cond_holds s1 ->
  let n := bits w 19 16 in let imm32 := ARMExpandImm (bits w 11 0) in let c := 0 in
  let op := (code_CmnImmediate, [w; bits w 19 16; ARMExpandImm (bits w 11 0)]) in
  exists s2,
    dp_sem cfg ADD 1 None n (Op2Imm imm32 c) (begin_instr s1 op) = Ok tt s2 /\
    ArmV6_emulate_cycle cfg s = Ok tt (AdvancePC (it_step_after s1 s2)) /\
    pc_of (AdvancePC (it_step_after s1 s2)) = add32 (pc_of s1) (opcode_len s1 / 8) /\
    (forall k, 0 <= k -> k <> pc_index -> getl (R (AdvancePC (it_step_after s1 s2))) k = getl (R s1) k).
Proof. exact (cmnImmediateA1_step cfg s w s1). Qed.
Print Assumptions C01_cmnImmediateA1_step.

(* the ARM data-processing (register-shifted register) encodings: <op>{S}<c> Rd, Rn, Rm, <type> Rs (A1, bit 7 = 0, bit 4 = 1) *)
Theorem C01_andRegisterShiftedRegisterA1_step cfg s w s1 :
  ArmV6_fetch_instruction cfg s = Ok w s1 ->
  0 <= w < 2 ^ 32 -> is_dp_rsr_a1 0 0 0 0 w -> iset_of s1 = 0 -> ictx cfg s1 -> cond_holds s1 ->
  let d := bits w 15 12 in let n := bits w 19 16 in let m := bits w 3 0 in let rs := bits w 11 8 in
  let st := DecodeRegShift (bits w 6 5) in
  let op := (code_AndRegisterShiftedRegister, [w; bit w 20; m; rs; d; n; st]) in
  exists s2,
    dp_sem cfg AND (bit w 20) (Some d) n (Op2RegReg m st rs) (begin_instr s1 op) = Ok tt s2 /\
    ArmV6_emulate_cycle cfg s = Ok tt (AdvancePC (it_step_after s1 s2)) /\
    pc_of (AdvancePC (it_step_after s1 s2)) = add32 (pc_of s1) (opcode_len s1 / 8).
Proof. exact (andRegisterShiftedRegisterA1_step cfg s w s1). Qed.
Print Assumptions C01_andRegisterShiftedRegisterA1_step.
Theorem C01_eorRegisterShiftedRegisterA1_step cfg s w s1 :
  ArmV6_fetch_instruction cfg s = Ok w s1 ->
  0 <= w < 2 ^ 32 -> is_dp_rsr_a1 0 0 0 1 w -> iset_of s1 = 0 -> ictx cfg s1 -> cond_holds s1 ->
  let d := bits w 15 12 in let n := bits w 19 16 in let m := bits w 3 0 in let rs := bits w 11 8 in
  let st := DecodeRegShift (bits w 6 5) in
  let op := (code_EorRegisterShiftedRegister, [w; bit w 20; m; rs; d; n; st]) in
  exists s2,
    dp_sem cfg EOR (bit w 20) (Some d) n (Op2RegReg m st rs) (begin_instr s1 op) = Ok tt s2 /\
    ArmV6_emulate_cycle cfg s = Ok tt (AdvancePC (it_step_after s1 s2)) /\
    pc_of (AdvancePC (it_step_after s1 s2)) = add32 (pc_of s1) (opcode_len s1 / 8).
Proof. exact (eorRegisterShiftedRegisterA1_step cfg s w s1). Qed.
Print Assumptions C01_eorRegisterShiftedRegisterA1_step.
Theorem C01_subRegisterShiftedRegisterA1_step cfg s w s1 :
  ArmV6_fetch_instruction cfg s = Ok w s1 ->
  0 <= w < 2 ^ 32 -> is_dp_rsr_a1 0 0 1 0 w -> iset_of s1 = 0 -> ictx cfg s1 -> cond_holds s1 ->
  let d := bits w 15 12 in let n := bits w 19 16 in let m := bits w 3 0 in let rs := bits w 11 8 in
  let st := DecodeRegShift (bits w 6 5) in
  let op := (code_SubRegisterShiftedRegister, [w; bit w 20; m; rs; d; n; st]) in
  exists s2,
    dp_sem cfg SUB (bit w 20) (Some d) n (Op2RegReg m st rs) (begin_instr s1 op) = Ok tt s2 /\
    ArmV6_emulate_cycle cfg s = Ok tt (AdvancePC (it_step_after s1 s2)) /\
    pc_of (AdvancePC (it_step_after s1 s2)) = add32 (pc_of s1) (opcode_len s1 / 8).
Proof. exact (subRegisterShiftedRegisterA1_step cfg s w s1). Qed.
Print Assumptions C01_subRegisterShiftedRegisterA1_step.
Theorem C01_rsbRegisterShiftedRegisterA1_step cfg s w s1 :
  ArmV6_fetch_instruction cfg s = Ok w s1 ->
  0 <= w < 2 ^ 32 -> is_dp_rsr_a1 0 0 1 1 w -> iset_of s1 = 0 -> ictx cfg s1 -> cond_holds s1 ->
  let d := bits w 15 12 in let n := bits w 19 16 in let m := bits w 3 0 in let rs := bits w 11 8 in
  let st := DecodeRegShift (bits w 6 5) in
  let op := (code_RsbRegisterShiftedRegister, [w; bit w 20; m; rs; d; n; st]) in
  exists s2,
    dp_sem cfg RSB (bit w 20) (Some d) n (Op2RegReg m st rs) (begin_instr s1 op) = Ok tt s2 /\
    ArmV6_emulate_cycle cfg s = Ok tt (AdvancePC (it_step_after s1 s2)) /\
    pc_of (AdvancePC (it_step_after s1 s2)) = add32 (pc_of s1) (opcode_len s1 / 8).
Proof. exact (rsbRegisterShiftedRegisterA1_step cfg s w s1). Qed.
Print Assumptions C01_rsbRegisterShiftedRegisterA1_step.
Theorem C01_addRegisterShiftedRegisterA1_step cfg s w s1 :
  ArmV6_fetch_instruction cfg s = Ok w s1 ->
  0 <= w < 2 ^ 32 -> is_dp_rsr_a1 0 1 0 0 w -> iset_of s1 = 0 -> ictx cfg s1 -> cond_holds s1 ->
  let d := bits w 15 12 in let n := bits w 19 16 in let m := bits w 3 0 in let rs := bits w 11 8 in
  let st := DecodeRegShift (bits w 6 5) in
  let op := (code_AddRegisterShiftedRegister, [w; bit w 20; m; rs; d; n; st]) in
  exists s2,
    dp_sem cfg ADD (bit w 20) (Some d) n (Op2RegReg m st rs) (begin_instr s1 op) = Ok tt s2 /\
    ArmV6_emulate_cycle cfg s = Ok tt (AdvancePC (it_step_after s1 s2)) /\
    pc_of (AdvancePC (it_step_after s1 s2)) = add32 (pc_of s1) (opcode_len s1 / 8).
Proof. exact (addRegisterShiftedRegisterA1_step cfg s w s1). Qed.
Print Assumptions C01_addRegisterShiftedRegisterA1_step.
Theorem C01_adcRegisterShiftedRegisterA1_step cfg s w s1 :
  ArmV6_fetch_instruction cfg s = Ok w s1 ->
  0 <= w < 2 ^ 32 -> is_dp_rsr_a1 0 1 0 1 w -> iset_of s1 = 0 -> ictx cfg s1 -> cond_holds s1 ->
  let d := bits w 15 12 in let n := bits w 19 16 in let m := bits w 3 0 in let rs := bits w 11 8 in
  let st := DecodeRegShift (bits w 6 5) in
  let op := (code_AdcRegisterShiftedRegister, [w; bit w 20; m; rs; d; n; st]) in
  exists s2,
    dp_sem cfg ADC (bit w 20) (Some d) n (Op2RegReg m st rs) (begin_instr s1 op) = Ok tt s2 /\
    ArmV6_emulate_cycle cfg s = Ok tt (AdvancePC (it_step_after s1 s2)) /\
    pc_of (AdvancePC (it_step_after s1 s2)) = add32 (pc_of s1) (opcode_len s1 / 8).
Proof. exact (adcRegisterShiftedRegisterA1_step cfg s w s1). Qed.
Print Assumptions C01_adcRegisterShiftedRegisterA1_step.
Theorem C01_sbcRegisterShiftedRegisterA1_step cfg s w s1 :
  ArmV6_fetch_instruction cfg s = Ok w s1 ->
  0 <= w < 2 ^ 32 -> is_dp_rsr_a1 0 1 1 0 w -> iset_of s1 = 0 -> ictx cfg s1 -> cond_holds s1 ->
  let d := bits w 15 12 in let n := bits w 19 16 in let m := bits w 3 0 in let rs := bits w 11 8 in
  let st := DecodeRegShift (bits w 6 5) in
  let op := (code_SbcRegisterShiftedRegister, [w; bit w 20; m; rs; d; n; st]) in
  exists s2,
    dp_sem cfg SBC (bit w 20) (Some d) n (Op2RegReg m st rs) (begin_instr s1 op) = Ok tt s2 /\
    ArmV6_emulate_cycle cfg s = Ok tt (AdvancePC (it_step_after s1 s2)) /\
    pc_of (AdvancePC (it_step_after s1 s2)) = add32 (pc_of s1) (opcode_len s1 / 8).
Proof. exact (sbcRegisterShiftedRegisterA1_step cfg s w s1). Qed.
Print Assumptions C01_sbcRegisterShiftedRegisterA1_step.
Theorem C01_rscRegisterShiftedRegisterA1_step cfg s w s1 :
  ArmV6_fetch_instruction cfg s = Ok w s1 ->
  0 <= w < 2 ^ 32 -> is_dp_rsr_a1 0 1 1 1 w -> iset_of s1 = 0 -> ictx cfg s1 -> cond_holds s1 ->
  let d := bits w 15 12 in let n := bits w 19 16 in let m := bits w 3 0 in let rs := bits w 11 8 in
  let st := DecodeRegShift (bits w 6 5) in
  let op := (code_RscRegisterShiftedRegister, [w; bit w 20; m; rs; d; n; st]) in
  exists s2,
    dp_sem cfg RSC (bit w 20) (Some d) n (Op2RegReg m st rs) (begin_instr s1 op) = Ok tt s2 /\
    ArmV6_emulate_cycle cfg s = Ok tt (AdvancePC (it_step_after s1 s2)) /\
    pc_of (AdvancePC (it_step_after s1 s2)) = add32 (pc_of s1) (opcode_len s1 / 8).
Proof. exact (rscRegisterShiftedRegisterA1_step cfg s w s1). Qed.
Print Assumptions C01_rscRegisterShiftedRegisterA1_step.
Theorem C01_orrRegisterShiftedRegisterA1_step cfg s w s1 :
  ArmV6_fetch_instruction cfg s = Ok w s1 ->
  0 <= w < 2 ^ 32 -> is_dp_rsr_a1 1 1 0 0 w -> iset_of s1 = 0 -> ictx cfg s1 -> cond_holds s1 ->
  let d := bits w 15 12 in let n := bits w 19 16 in let m := bits w 3 0 in let rs := bits w 11 8 in
  let st := DecodeRegShift (bits w 6 5) in
  let op := (code_OrrRegisterShiftedRegister, [w; bit w 20; m; rs; d; n; st]) in
  exists s2,
    dp_sem cfg ORR (bit w 20) (Some d) n (Op2RegReg m st rs) (begin_instr s1 op) = Ok tt s2 /\
    ArmV6_emulate_cycle cfg s = Ok tt (AdvancePC (it_step_after s1 s2)) /\
    pc_of (AdvancePC (it_step_after s1 s2)) = add32 (pc_of s1) (opcode_len s1 / 8).
Proof. exact (orrRegisterShiftedRegisterA1_step cfg s w s1). Qed.
Print Assumptions C01_orrRegisterShiftedRegisterA1_step.
Theorem C01_bicRegisterShiftedRegisterA1_step cfg s w s1 :
  ArmV6_fetch_instruction cfg s = Ok w s1 ->
  0 <= w < 2 ^ 32 -> is_dp_rsr_a1 1 1 1 0 w -> iset_of s1 = 0 -> ictx cfg s1 -> cond_holds s1 ->
  let d := bits w 15 12 in let n := bits w 19 16 in let m := bits w 3 0 in let rs := bits w 11 8 in
  let st := DecodeRegShift (bits w 6 5) in
  let op := (code_BicRegisterShiftedRegister, [w; bit w 20; m; rs; d; n; st]) in
  exists s2,
    dp_sem cfg BIC (bit w 20) (Some d) n (Op2RegReg m st rs) (begin_instr s1 op) = Ok tt s2 /\
    ArmV6_emulate_cycle cfg s = Ok tt (AdvancePC (it_step_after s1 s2)) /\
    pc_of (AdvancePC (it_step_after s1 s2)) = add32 (pc_of s1) (opcode_len s1 / 8).
Proof. exact (bicRegisterShiftedRegisterA1_step cfg s w s1). Qed.
Print Assumptions C01_bicRegisterShiftedRegisterA1_step.

(* the 16-bit Thumb data-processing (register) encodings 010000 opc Rm Rdn: ANDS, EORS, ADCS, SBCS, ORRS, BICS (flags = !InITBlock())
   and the comparisons TST, CMP, CMN, in any IT position *)
Theorem C01_andRegisterT1_step cfg s w s1 :
  ArmV6_fetch_instruction cfg s = Ok w s1 ->
  0 <= w < 2 ^ 16 -> is_dp_t16 0 w -> iset_of s1 = 1 -> opcode_len s1 = 16 -> ictx cfg s1 -> cond_holds s1 ->
  let dn := bits w 2 0 in let m := bits w 5 3 in
  let op := (code_AndRegister, [w; not_in_it s1; m; dn; dn; 1; 0]) in
  exists s2,
    dp_sem cfg AND (not_in_it s1) (Some dn) dn (Op2Reg m SRType_LSL 0) (begin_instr s1 op) = Ok tt s2 /\
    ArmV6_emulate_cycle cfg s = Ok tt (AdvancePC (it_step_after s1 s2)) /\
    pc_of (AdvancePC (it_step_after s1 s2)) = add32 (pc_of s1) 2.
Proof. exact (andRegisterT1_step cfg s w s1). Qed.
Print Assumptions C01_andRegisterT1_step.
Theorem C01_eorRegisterT1_step cfg s w s1 :
  ArmV6_fetch_instruction cfg s = Ok w s1 ->
  0 <= w < 2 ^ 16 -> is_dp_t16 1 w -> iset_of s1 = 1 -> opcode_len s1 = 16 -> ictx cfg s1 -> cond_holds s1 ->
  let dn := bits w 2 0 in let m := bits w 5 3 in
  let op := (code_EorRegister, [w; not_in_it s1; m; dn; dn; 1; 0]) in
  exists s2,
    dp_sem cfg EOR (not_in_it s1) (Some dn) dn (Op2Reg m SRType_LSL 0) (begin_instr s1 op) = Ok tt s2 /\
    ArmV6_emulate_cycle cfg s = Ok tt (AdvancePC (it_step_after s1 s2)) /\
    pc_of (AdvancePC (it_step_after s1 s2)) = add32 (pc_of s1) 2.
Proof. exact (eorRegisterT1_step cfg s w s1). Qed.
Print Assumptions C01_eorRegisterT1_step.
Theorem C01_adcRegisterT1_step cfg s w s1 :
  ArmV6_fetch_instruction cfg s = Ok w s1 ->
  0 <= w < 2 ^ 16 -> is_dp_t16 5 w -> iset_of s1 = 1 -> opcode_len s1 = 16 -> ictx cfg s1 -> cond_holds s1 ->
  let dn := bits w 2 0 in let m := bits w 5 3 in
  let op := (code_AdcRegister, [w; not_in_it s1; m; dn; dn; 1; 0]) in
  exists s2,
    dp_sem cfg ADC (not_in_it s1) (Some dn) dn (Op2Reg m SRType_LSL 0) (begin_instr s1 op) = Ok tt s2 /\
    ArmV6_emulate_cycle cfg s = Ok tt (AdvancePC (it_step_after s1 s2)) /\
    pc_of (AdvancePC (it_step_after s1 s2)) = add32 (pc_of s1) 2.
Proof. exact (adcRegisterT1_step cfg s w s1). Qed.
Print Assumptions C01_adcRegisterT1_step.
Theorem C01_sbcRegisterT1_step cfg s w s1 :
  ArmV6_fetch_instruction cfg s = Ok w s1 ->
  0 <= w < 2 ^ 16 -> is_dp_t16 6 w -> iset_of s1 = 1 -> opcode_len s1 = 16 -> ictx cfg s1 -> cond_holds s1 ->
  let dn := bits w 2 0 in let m := bits w 5 3 in
  let op := (code_SbcRegister, [w; not_in_it s1; m; dn; dn; 1; 0]) in
  exists s2,
    dp_sem cfg SBC (not_in_it s1) (Some dn) dn (Op2Reg m SRType_LSL 0) (begin_instr s1 op) = Ok tt s2 /\
    ArmV6_emulate_cycle cfg s = Ok tt (AdvancePC (it_step_after s1 s2)) /\
    pc_of (AdvancePC (it_step_after s1 s2)) = add32 (pc_of s1) 2.
Proof. exact (sbcRegisterT1_step cfg s w s1). Qed.
Print Assumptions C01_sbcRegisterT1_step.
Theorem C01_orrRegisterT1_step cfg s w s1 :
  ArmV6_fetch_instruction cfg s = Ok w s1 ->
  0 <= w < 2 ^ 16 -> is_dp_t16 12 w -> iset_of s1 = 1 -> opcode_len s1 = 16 -> ictx cfg s1 -> cond_holds s1 ->
  let dn := bits w 2 0 in let m := bits w 5 3 in
  let op := (code_OrrRegister, [w; not_in_it s1; m; dn; dn; 1; 0]) in
  exists s2,
    dp_sem cfg ORR (not_in_it s1) (Some dn) dn (Op2Reg m SRType_LSL 0) (begin_instr s1 op) = Ok tt s2 /\
    ArmV6_emulate_cycle cfg s = Ok tt (AdvancePC (it_step_after s1 s2)) /\
    pc_of (AdvancePC (it_step_after s1 s2)) = add32 (pc_of s1) 2.
Proof. exact (orrRegisterT1_step cfg s w s1). Qed.
Print Assumptions C01_orrRegisterT1_step.
Theorem C01_bicRegisterT1_step cfg s w s1 :
  ArmV6_fetch_instruction cfg s = Ok w s1 ->
  0 <= w < 2 ^ 16 -> is_dp_t16 14 w -> iset_of s1 = 1 -> opcode_len s1 = 16 -> ictx cfg s1 -> cond_holds s1 ->
  let dn := bits w 2 0 in let m := bits w 5 3 in
  let op := (code_BicRegister, [w; not_in_it s1; m; dn; dn; 1; 0]) in
  exists s2,
    dp_sem cfg BIC (not_in_it s1) (Some dn) dn (Op2Reg m SRType_LSL 0) (begin_instr s1 op) = Ok tt s2 /\
    ArmV6_emulate_cycle cfg s = Ok tt (AdvancePC (it_step_after s1 s2)) /\
    pc_of (AdvancePC (it_step_after s1 s2)) = add32 (pc_of s1) 2.
Proof. exact (bicRegisterT1_step cfg s w s1). Qed.
Print Assumptions C01_bicRegisterT1_step.
Theorem C01_tstRegisterT1_step cfg s w s1 :
  ArmV6_fetch_instruction cfg s = Ok w s1 ->
  0 <= w < 2 ^ 16 -> is_dp_t16 8 w -> iset_of s1 = 1 -> opcode_len s1 = 16 -> ictx cfg s1 -> cond_holds s1 ->
  let n := bits w 2 0 in let m := bits w 5 3 in
  let op := (code_TstRegister, [w; m; n; 1; 0]) in
  exists s2,
    dp_sem cfg AND 1 None n (Op2Reg m SRType_LSL 0) (begin_instr s1 op) = Ok tt s2 /\
    ArmV6_emulate_cycle cfg s = Ok tt (AdvancePC (it_step_after s1 s2)) /\
    pc_of (AdvancePC (it_step_after s1 s2)) = add32 (pc_of s1) 2 /\
    (forall k, 0 <= k -> k <> pc_index -> getl (R (AdvancePC (it_step_after s1 s2))) k = getl (R s1) k).
Proof. exact (tstRegisterT1_step cfg s w s1). Qed.
Print Assumptions C01_tstRegisterT1_step.
Theorem C01_cmpRegisterT1_step cfg s w s1 :
  ArmV6_fetch_instruction cfg s = Ok w s1 ->
  0 <= w < 2 ^ 16 -> is_dp_t16 10 w -> iset_of s1 = 1 -> opcode_len s1 = 16 -> ictx cfg s1 -> cond_holds s1 ->
  let n := bits w 2 0 in let m := bits w 5 3 in
  let op := (code_CmpRegister, [w; m; n; 1; 0]) in
  exists s2,
    dp_sem cfg SUB 1 None n (Op2Reg m SRType_LSL 0) (begin_instr s1 op) = Ok tt s2 /\
    ArmV6_emulate_cycle cfg s = Ok tt (AdvancePC (it_step_after s1 s2)) /\
    pc_of (AdvancePC (it_step_after s1 s2)) = add32 (pc_of s1) 2 /\
    (forall k, 0 <= k -> k <> pc_index -> getl (R (AdvancePC (it_step_after s1 s2))) k = getl (R s1) k).
Proof. exact (cmpRegisterT1_step cfg s w s1). Qed.
Print Assumptions C01_cmpRegisterT1_step.
Theorem C01_cmnRegisterT1_step cfg s w s1 :
  ArmV6_fetch_instruction cfg s = Ok w s1 ->
  0 <= w < 2 ^ 16 -> is_dp_t16 11 w -> iset_of s1 = 1 -> opcode_len s1 = 16 -> ictx cfg s1 -> cond_holds s1 ->
  let n := bits w 2 0 in let m := bits w 5 3 in
  let op := (code_CmnRegister, [w; m; n; 1; 0]) in
  exists s2,
    dp_sem cfg ADD 1 None n (Op2Reg m SRType_LSL 0) (begin_instr s1 op) = Ok tt s2 /\
    ArmV6_emulate_cycle cfg s = Ok tt (AdvancePC (it_step_after s1 s2)) /\
    pc_of (AdvancePC (it_step_after s1 s2)) = add32 (pc_of s1) 2 /\
    (forall k, 0 <= k -> k <> pc_index -> getl (R (AdvancePC (it_step_after s1 s2))) k = getl (R s1) k).
Proof. exact (cmnRegisterT1_step cfg s w s1). Qed.
Print Assumptions C01_cmnRegisterT1_step.

(* MOV / MVN (immediate, ARM A1) and the 16-bit Thumb MOVS Rd, #imm8 / CMP Rn, #imm8 *)
Theorem C01_movImmediateA1_step cfg s w s1 :
  ArmV6_fetch_instruction cfg s = Ok w s1 ->
  0 <= w < 2 ^ 32 -> is_mov_imm_a1 0 w -> iset_of s1 = 0 -> ictx cfg s1 -> cond_holds s1 ->
  let d := bits w 15 12 in let imm32 := ARMExpandImm (bits w 11 0) in let c := snd (ARMExpandImm_C (bits w 11 0) (cflag s1)) in
  let op := (code_MovImmediate, [w; bit w 20; d; imm32; c]) in
  exists s2,
    dp_sem cfg MOV (bit w 20) (Some d) 0 (Op2Imm imm32 c) (begin_instr s1 op) = Ok tt s2 /\
    ArmV6_emulate_cycle cfg s = Ok tt (AdvancePC (it_step_after s1 s2)) /\
    pc_of (AdvancePC (it_step_after s1 s2)) = add32 (pc_of s1) (opcode_len s1 / 8).
Proof. exact (movImmediateA1_step cfg s w s1). Qed.
Print Assumptions C01_movImmediateA1_step.
Theorem C01_mvnImmediateA1_step cfg s w s1 :
  ArmV6_fetch_instruction cfg s = Ok w s1 ->
  0 <= w < 2 ^ 32 -> is_mov_imm_a1 1 w -> iset_of s1 = 0 -> ictx cfg s1 -> cond_holds s1 ->
  let d := bits w 15 12 in let imm32 := ARMExpandImm (bits w 11 0) in let c := snd (ARMExpandImm_C (bits w 11 0) (cflag s1)) in
  let op := (code_MvnImmediate, [w; bit w 20; d; imm32; c]) in
  exists s2,
    dp_sem cfg MVN (bit w 20) (Some d) 0 (Op2Imm imm32 c) (begin_instr s1 op) = Ok tt s2 /\
    ArmV6_emulate_cycle cfg s = Ok tt (AdvancePC (it_step_after s1 s2)) /\
    pc_of (AdvancePC (it_step_after s1 s2)) = add32 (pc_of s1) (opcode_len s1 / 8).
Proof. exact (mvnImmediateA1_step cfg s w s1). Qed.
Print Assumptions C01_mvnImmediateA1_step.
Theorem C01_movImmediateT1_step cfg s w s1 :
  ArmV6_fetch_instruction cfg s = Ok w s1 ->
  0 <= w < 2 ^ 16 -> is_t16_op5 4 w -> iset_of s1 = 1 -> opcode_len s1 = 16 -> ictx cfg s1 -> cond_holds s1 ->
  let d := bits w 10 8 in let imm32 := bits w 7 0 in
  let op := (code_MovImmediate, [w; not_in_it s1; d; imm32; cflag s1]) in
  exists s2,
    dp_sem cfg MOV (not_in_it s1) (Some d) 0 (Op2Imm imm32 (cflag s1)) (begin_instr s1 op) = Ok tt s2 /\
    ArmV6_emulate_cycle cfg s = Ok tt (AdvancePC (it_step_after s1 s2)) /\
    pc_of (AdvancePC (it_step_after s1 s2)) = add32 (pc_of s1) 2.
Proof. exact (movImmediateT1_step cfg s w s1). Qed.
Print Assumptions C01_movImmediateT1_step.
Theorem C01_cmpImmediateT1_step cfg s w s1 :
  ArmV6_fetch_instruction cfg s = Ok w s1 ->
  0 <= w < 2 ^ 16 -> is_t16_op5 5 w -> iset_of s1 = 1 -> opcode_len s1 = 16 -> ictx cfg s1 -> cond_holds s1 ->
  let n := bits w 10 8 in let imm32 := bits w 7 0 in
  let op := (code_CmpImmediate, [w; n; imm32]) in
  exists s2,
    dp_sem cfg SUB 1 None n (Op2Imm imm32 0) (begin_instr s1 op) = Ok tt s2 /\
    ArmV6_emulate_cycle cfg s = Ok tt (AdvancePC (it_step_after s1 s2)) /\
    pc_of (AdvancePC (it_step_after s1 s2)) = add32 (pc_of s1) 2 /\
    (forall k, 0 <= k -> k <> pc_index -> getl (R (AdvancePC (it_step_after s1 s2))) k = getl (R s1) k).
Proof. exact (cmpImmediateT1_step cfg s w s1). Qed.
Print Assumptions C01_cmpImmediateT1_step.

(* the 32-bit Thumb data-processing (modified immediate) encodings with a destination: 11110 i 0 op S Rn : 0 imm3 Rd imm8 *)
Theorem C01_andImmediateT1_step cfg s w s1 :
  ArmV6_fetch_instruction cfg s = Ok w s1 ->
  0 <= w < 2 ^ 32 -> is_dp_mi_t32 0 0 0 0 w -> iset_of s1 = 1 -> opcode_len s1 = 32 -> ictx cfg s1 -> cond_holds s1 ->
  let d := bits w 11 8 in let n := bits w 19 16 in let imm32 := ThumbExpandImm (imm12t w) in let c := (snd (ThumbExpandImm_C (imm12t w) (cflag s1))) in
  let op := (code_AndImmediate, [w; bit w 20; bits w 11 8; bits w 19 16; ThumbExpandImm (imm12t w); snd (ThumbExpandImm_C (imm12t w) (cflag s1))]) in
  exists s2,
    dp_sem cfg AND (bit w 20) (Some d) n (Op2Imm imm32 c) (begin_instr s1 op) = Ok tt s2 /\
    ArmV6_emulate_cycle cfg s = Ok tt (AdvancePC (it_step_after s1 s2)) /\
    pc_of (AdvancePC (it_step_after s1 s2)) = add32 (pc_of s1) 4.
Proof. exact (andImmediateT1_step cfg s w s1). Qed.
Print Assumptions C01_andImmediateT1_step.
Theorem C01_bicImmediateT1_step cfg s w s1 :
  ArmV6_fetch_instruction cfg s = Ok w s1 ->
  0 <= w < 2 ^ 32 -> is_dp_mi_t32 0 0 0 1 w -> iset_of s1 = 1 -> opcode_len s1 = 32 -> ictx cfg s1 -> cond_holds s1 ->
  let d := bits w 11 8 in let n := bits w 19 16 in let imm32 := ThumbExpandImm (imm12t w) in let c := (snd (ThumbExpandImm_C (imm12t w) (cflag s1))) in
  let op := (code_BicImmediate, [w; bit w 20; bits w 11 8; bits w 19 16; ThumbExpandImm (imm12t w); snd (ThumbExpandImm_C (imm12t w) (cflag s1))]) in
  exists s2,
    dp_sem cfg BIC (bit w 20) (Some d) n (Op2Imm imm32 c) (begin_instr s1 op) = Ok tt s2 /\
    ArmV6_emulate_cycle cfg s = Ok tt (AdvancePC (it_step_after s1 s2)) /\
    pc_of (AdvancePC (it_step_after s1 s2)) = add32 (pc_of s1) 4.
Proof. exact (bicImmediateT1_step cfg s w s1). Qed.
Print Assumptions C01_bicImmediateT1_step.
Theorem C01_orrImmediateT1_step cfg s w s1 :
  ArmV6_fetch_instruction cfg s = Ok w s1 ->
  0 <= w < 2 ^ 32 -> is_dp_mi_t32 0 0 1 0 w -> iset_of s1 = 1 -> opcode_len s1 = 32 -> ictx cfg s1 -> cond_holds s1 ->
  let d := bits w 11 8 in let n := bits w 19 16 in let imm32 := ThumbExpandImm (imm12t w) in let c := (snd (ThumbExpandImm_C (imm12t w) (cflag s1))) in
  let op := (code_OrrImmediate, [w; bit w 20; bits w 11 8; bits w 19 16; ThumbExpandImm (imm12t w); snd (ThumbExpandImm_C (imm12t w) (cflag s1))]) in
  exists s2,
    dp_sem cfg ORR (bit w 20) (Some d) n (Op2Imm imm32 c) (begin_instr s1 op) = Ok tt s2 /\
    ArmV6_emulate_cycle cfg s = Ok tt (AdvancePC (it_step_after s1 s2)) /\
    pc_of (AdvancePC (it_step_after s1 s2)) = add32 (pc_of s1) 4.
Proof. exact (orrImmediateT1_step cfg s w s1). Qed.
Print Assumptions C01_orrImmediateT1_step.
Theorem C01_ornImmediateT1_step cfg s w s1 :
  ArmV6_fetch_instruction cfg s = Ok w s1 ->
  0 <= w < 2 ^ 32 -> is_dp_mi_t32 0 0 1 1 w -> iset_of s1 = 1 -> opcode_len s1 = 32 -> ictx cfg s1 -> cond_holds s1 ->
  let d := bits w 11 8 in let n := bits w 19 16 in let imm32 := ThumbExpandImm (imm12t w) in let c := (snd (ThumbExpandImm_C (imm12t w) (cflag s1))) in
  let op := (code_OrnImmediate, [w; bit w 20; bits w 11 8; bits w 19 16; ThumbExpandImm (imm12t w); snd (ThumbExpandImm_C (imm12t w) (cflag s1))]) in
  exists s2,
    dp_sem cfg ORN (bit w 20) (Some d) n (Op2Imm imm32 c) (begin_instr s1 op) = Ok tt s2 /\
    ArmV6_emulate_cycle cfg s = Ok tt (AdvancePC (it_step_after s1 s2)) /\
    pc_of (AdvancePC (it_step_after s1 s2)) = add32 (pc_of s1) 4.
Proof. exact (ornImmediateT1_step cfg s w s1). Qed.
Print Assumptions C01_ornImmediateT1_step.
Theorem C01_eorImmediateT1_step cfg s w s1 :
  ArmV6_fetch_instruction cfg s = Ok w s1 ->
  0 <= w < 2 ^ 32 -> is_dp_mi_t32 0 1 0 0 w -> iset_of s1 = 1 -> opcode_len s1 = 32 -> ictx cfg s1 -> cond_holds s1 ->
  let d := bits w 11 8 in let n := bits w 19 16 in let imm32 := ThumbExpandImm (imm12t w) in let c := (snd (ThumbExpandImm_C (imm12t w) (cflag s1))) in
  let op := (code_EorImmediate, [w; bit w 20; bits w 11 8; bits w 19 16; ThumbExpandImm (imm12t w); snd (ThumbExpandImm_C (imm12t w) (cflag s1))]) in
  exists s2,
    dp_sem cfg EOR (bit w 20) (Some d) n (Op2Imm imm32 c) (begin_instr s1 op) = Ok tt s2 /\
    ArmV6_emulate_cycle cfg s = Ok tt (AdvancePC (it_step_after s1 s2)) /\
    pc_of (AdvancePC (it_step_after s1 s2)) = add32 (pc_of s1) 4.
Proof. exact (eorImmediateT1_step cfg s w s1). Qed.
Print Assumptions C01_eorImmediateT1_step.
Theorem C01_addImmediateThumbT3_step cfg s w s1 :
  ArmV6_fetch_instruction cfg s = Ok w s1 ->
  0 <= w < 2 ^ 32 -> is_dp_mi_t32 1 0 0 0 w -> iset_of s1 = 1 -> opcode_len s1 = 32 -> ictx cfg s1 -> cond_holds s1 ->
  let d := bits w 11 8 in let n := bits w 19 16 in let imm32 := ThumbExpandImm (imm12t w) in let c := 0 in
  let op := (code_AddImmediateThumb, [w; bit w 20; bits w 11 8; bits w 19 16; ThumbExpandImm (imm12t w)]) in
  exists s2,
    dp_sem cfg ADD (bit w 20) (Some d) n (Op2Imm imm32 c) (begin_instr s1 op) = Ok tt s2 /\
    ArmV6_emulate_cycle cfg s = Ok tt (AdvancePC (it_step_after s1 s2)) /\
    pc_of (AdvancePC (it_step_after s1 s2)) = add32 (pc_of s1) 4.
Proof. exact (addImmediateThumbT3_step cfg s w s1). Qed.
Print Assumptions C01_addImmediateThumbT3_step.
Theorem C01_adcImmediateT1_step cfg s w s1 :
  ArmV6_fetch_instruction cfg s = Ok w s1 ->
  0 <= w < 2 ^ 32 -> is_dp_mi_t32 1 0 1 0 w -> iset_of s1 = 1 -> opcode_len s1 = 32 -> ictx cfg s1 -> cond_holds s1 ->
  let d := bits w 11 8 in let n := bits w 19 16 in let imm32 := ThumbExpandImm (imm12t w) in let c := 0 in
  let op := (code_AdcImmediate, [w; bit w 20; bits w 11 8; bits w 19 16; ThumbExpandImm (imm12t w)]) in
  exists s2,
    dp_sem cfg ADC (bit w 20) (Some d) n (Op2Imm imm32 c) (begin_instr s1 op) = Ok tt s2 /\
    ArmV6_emulate_cycle cfg s = Ok tt (AdvancePC (it_step_after s1 s2)) /\
    pc_of (AdvancePC (it_step_after s1 s2)) = add32 (pc_of s1) 4.
Proof. exact (adcImmediateT1_step cfg s w s1). Qed.
Print Assumptions C01_adcImmediateT1_step.
Theorem C01_sbcImmediateT1_step cfg s w s1 :
  ArmV6_fetch_instruction cfg s = Ok w s1 ->
  0 <= w < 2 ^ 32 -> is_dp_mi_t32 1 0 1 1 w -> iset_of s1 = 1 -> opcode_len s1 = 32 -> ictx cfg s1 -> cond_holds s1 ->
  let d := bits w 11 8 in let n := bits w 19 16 in let imm32 := ThumbExpandImm (imm12t w) in let c := 0 in
  let op := (code_SbcImmediate, [w; bit w 20; bits w 11 8; bits w 19 16; ThumbExpandImm (imm12t w)]) in
  exists s2,
    dp_sem cfg SBC (bit w 20) (Some d) n (Op2Imm imm32 c) (begin_instr s1 op) = Ok tt s2 /\
    ArmV6_emulate_cycle cfg s = Ok tt (AdvancePC (it_step_after s1 s2)) /\
    pc_of (AdvancePC (it_step_after s1 s2)) = add32 (pc_of s1) 4.
Proof. exact (sbcImmediateT1_step cfg s w s1). Qed.
Print Assumptions C01_sbcImmediateT1_step.
Theorem C01_subImmediateThumbT3_step cfg s w s1 :
  ArmV6_fetch_instruction cfg s = Ok w s1 ->
  0 <= w < 2 ^ 32 -> is_dp_mi_t32 1 1 0 1 w -> iset_of s1 = 1 -> opcode_len s1 = 32 -> ictx cfg s1 -> cond_holds s1 ->
  let d := bits w 11 8 in let n := bits w 19 16 in let imm32 := ThumbExpandImm (imm12t w) in let c := 0 in
  let op := (code_SubImmediateThumb, [w; bit w 20; bits w 11 8; bits w 19 16; ThumbExpandImm (imm12t w)]) in
  exists s2,
    dp_sem cfg SUB (bit w 20) (Some d) n (Op2Imm imm32 c) (begin_instr s1 op) = Ok tt s2 /\
    ArmV6_emulate_cycle cfg s = Ok tt (AdvancePC (it_step_after s1 s2)) /\
    pc_of (AdvancePC (it_step_after s1 s2)) = add32 (pc_of s1) 4.
Proof. exact (subImmediateThumbT3_step cfg s w s1). Qed.
Print Assumptions C01_subImmediateThumbT3_step.
Theorem C01_rsbImmediateT2_step cfg s w s1 :
  ArmV6_fetch_instruction cfg s = Ok w s1 ->
  0 <= w < 2 ^ 32 -> is_dp_mi_t32 1 1 1 0 w -> iset_of s1 = 1 -> opcode_len s1 = 32 -> ictx cfg s1 -> cond_holds s1 ->
  let d := bits w 11 8 in let n := bits w 19 16 in let imm32 := ThumbExpandImm (imm12t w) in let c := 0 in
  let op := (code_RsbImmediate, [w; bit w 20; bits w 11 8; bits w 19 16; ThumbExpandImm (imm12t w)]) in
  exists s2,
    dp_sem cfg RSB (bit w 20) (Some d) n (Op2Imm imm32 c) (begin_instr s1 op) = Ok tt s2 /\
    ArmV6_emulate_cycle cfg s = Ok tt (AdvancePC (it_step_after s1 s2)) /\
    pc_of (AdvancePC (it_step_after s1 s2)) = add32 (pc_of s1) 4.
Proof. exact (rsbImmediateT2_step cfg s w s1). Qed.
Print Assumptions C01_rsbImmediateT2_step.

(* the ARM shift-by-immediate encodings LSL, LSR, ASR, ROR{S}<c> Rd, Rm, #imm5 (MOV with a shifted register operand) *)
Theorem C01_lslImmediateA1_step cfg s w s1 :
  ArmV6_fetch_instruction cfg s = Ok w s1 ->
  0 <= w < 2 ^ 32 -> is_shift_imm_a1 0 true w -> iset_of s1 = 0 -> ictx cfg s1 -> cond_holds s1 ->
  let d := bits w 15 12 in let m := bits w 3 0 in let n := snd (DecodeImmShift 0 (bits w 11 7)) in
  let op := (code_LslImmediate, [w; bit w 20; m; d; n]) in
  exists s2,
    dp_sem cfg MOV (bit w 20) (Some d) 0 (Op2Reg m SRType_LSL n) (begin_instr s1 op) = Ok tt s2 /\
    ArmV6_emulate_cycle cfg s = Ok tt (AdvancePC (it_step_after s1 s2)) /\
    pc_of (AdvancePC (it_step_after s1 s2)) = add32 (pc_of s1) (opcode_len s1 / 8).
Proof. exact (lslImmediateA1_step cfg s w s1). Qed.
Print Assumptions C01_lslImmediateA1_step.
Theorem C01_lsrImmediateA1_step cfg s w s1 :
  ArmV6_fetch_instruction cfg s = Ok w s1 ->
  0 <= w < 2 ^ 32 -> is_shift_imm_a1 1 false w -> iset_of s1 = 0 -> ictx cfg s1 -> cond_holds s1 ->
  let d := bits w 15 12 in let m := bits w 3 0 in let n := snd (DecodeImmShift 1 (bits w 11 7)) in
  let op := (code_LsrImmediate, [w; bit w 20; m; d; n]) in
  exists s2,
    dp_sem cfg MOV (bit w 20) (Some d) 0 (Op2Reg m SRType_LSR n) (begin_instr s1 op) = Ok tt s2 /\
    ArmV6_emulate_cycle cfg s = Ok tt (AdvancePC (it_step_after s1 s2)) /\
    pc_of (AdvancePC (it_step_after s1 s2)) = add32 (pc_of s1) (opcode_len s1 / 8).
Proof. exact (lsrImmediateA1_step cfg s w s1). Qed.
Print Assumptions C01_lsrImmediateA1_step.
Theorem C01_asrImmediateA1_step cfg s w s1 :
  ArmV6_fetch_instruction cfg s = Ok w s1 ->
  0 <= w < 2 ^ 32 -> is_shift_imm_a1 2 false w -> iset_of s1 = 0 -> ictx cfg s1 -> cond_holds s1 ->
  let d := bits w 15 12 in let m := bits w 3 0 in let n := snd (DecodeImmShift 2 (bits w 11 7)) in
  let op := (code_AsrImmediate, [w; bit w 20; m; d; n]) in
  exists s2,
    dp_sem cfg MOV (bit w 20) (Some d) 0 (Op2Reg m SRType_ASR n) (begin_instr s1 op) = Ok tt s2 /\
    ArmV6_emulate_cycle cfg s = Ok tt (AdvancePC (it_step_after s1 s2)) /\
    pc_of (AdvancePC (it_step_after s1 s2)) = add32 (pc_of s1) (opcode_len s1 / 8).
Proof. exact (asrImmediateA1_step cfg s w s1). Qed.
Print Assumptions C01_asrImmediateA1_step.
Theorem C01_rorImmediateA1_step cfg s w s1 :
  ArmV6_fetch_instruction cfg s = Ok w s1 ->
  0 <= w < 2 ^ 32 -> is_shift_imm_a1 3 true w -> iset_of s1 = 0 -> ictx cfg s1 -> cond_holds s1 ->
  let d := bits w 15 12 in let m := bits w 3 0 in let n := snd (DecodeImmShift 3 (bits w 11 7)) in
  let op := (code_RorImmediate, [w; bit w 20; m; d; n]) in
  exists s2,
    dp_sem cfg MOV (bit w 20) (Some d) 0 (Op2Reg m SRType_ROR n) (begin_instr s1 op) = Ok tt s2 /\
    ArmV6_emulate_cycle cfg s = Ok tt (AdvancePC (it_step_after s1 s2)) /\
    pc_of (AdvancePC (it_step_after s1 s2)) = add32 (pc_of s1) (opcode_len s1 / 8).
Proof. exact (rorImmediateA1_step cfg s w s1). Qed.
Print Assumptions C01_rorImmediateA1_step.

(* the 32-bit Thumb data-processing (shifted register) encodings with a destination: 11101 01 op S Rn : (0) imm3 Rd imm2 type Rm *)
Theorem C01_andRegisterT2_step cfg s w s1 :
  ArmV6_fetch_instruction cfg s = Ok w s1 ->
  0 <= w < 2 ^ 32 -> is_dp_sr_t32 0 0 0 0 w -> iset_of s1 = 1 -> opcode_len s1 = 32 -> ictx cfg s1 -> cond_holds s1 ->
  let d := bits w 11 8 in let n := bits w 19 16 in let m := bits w 3 0 in
  let sh := DecodeImmShift (bits w 5 4) (imm5t w) in
  let op := (code_AndRegister, [w; bit w 20; m; d; n; fst sh; snd sh]) in
  exists s2,
    dp_sem cfg AND (bit w 20) (Some d) n (Op2Reg m (fst sh) (snd sh)) (begin_instr s1 op) = Ok tt s2 /\
    ArmV6_emulate_cycle cfg s = Ok tt (AdvancePC (it_step_after s1 s2)) /\
    pc_of (AdvancePC (it_step_after s1 s2)) = add32 (pc_of s1) 4.
Proof. exact (andRegisterT2_step cfg s w s1). Qed.
Print Assumptions C01_andRegisterT2_step.
Theorem C01_bicRegisterT2_step cfg s w s1 :
  ArmV6_fetch_instruction cfg s = Ok w s1 ->
  0 <= w < 2 ^ 32 -> is_dp_sr_t32 0 0 0 1 w -> iset_of s1 = 1 -> opcode_len s1 = 32 -> ictx cfg s1 -> cond_holds s1 ->
  let d := bits w 11 8 in let n := bits w 19 16 in let m := bits w 3 0 in
  let sh := DecodeImmShift (bits w 5 4) (imm5t w) in
  let op := (code_BicRegister, [w; bit w 20; m; d; n; fst sh; snd sh]) in
  exists s2,
    dp_sem cfg BIC (bit w 20) (Some d) n (Op2Reg m (fst sh) (snd sh)) (begin_instr s1 op) = Ok tt s2 /\
    ArmV6_emulate_cycle cfg s = Ok tt (AdvancePC (it_step_after s1 s2)) /\
    pc_of (AdvancePC (it_step_after s1 s2)) = add32 (pc_of s1) 4.
Proof. exact (bicRegisterT2_step cfg s w s1). Qed.
Print Assumptions C01_bicRegisterT2_step.
Theorem C01_orrRegisterT2_step cfg s w s1 :
  ArmV6_fetch_instruction cfg s = Ok w s1 ->
  0 <= w < 2 ^ 32 -> is_dp_sr_t32 0 0 1 0 w -> iset_of s1 = 1 -> opcode_len s1 = 32 -> ictx cfg s1 -> cond_holds s1 ->
  let d := bits w 11 8 in let n := bits w 19 16 in let m := bits w 3 0 in
  let sh := DecodeImmShift (bits w 5 4) (imm5t w) in
  let op := (code_OrrRegister, [w; bit w 20; m; d; n; fst sh; snd sh]) in
  exists s2,
    dp_sem cfg ORR (bit w 20) (Some d) n (Op2Reg m (fst sh) (snd sh)) (begin_instr s1 op) = Ok tt s2 /\
    ArmV6_emulate_cycle cfg s = Ok tt (AdvancePC (it_step_after s1 s2)) /\
    pc_of (AdvancePC (it_step_after s1 s2)) = add32 (pc_of s1) 4.
Proof. exact (orrRegisterT2_step cfg s w s1). Qed.
Print Assumptions C01_orrRegisterT2_step.
Theorem C01_ornRegisterT1_step cfg s w s1 :
  ArmV6_fetch_instruction cfg s = Ok w s1 ->
  0 <= w < 2 ^ 32 -> is_dp_sr_t32 0 0 1 1 w -> iset_of s1 = 1 -> opcode_len s1 = 32 -> ictx cfg s1 -> cond_holds s1 ->
  let d := bits w 11 8 in let n := bits w 19 16 in let m := bits w 3 0 in
  let sh := DecodeImmShift (bits w 5 4) (imm5t w) in
  let op := (code_OrnRegister, [w; bit w 20; m; d; n; fst sh; snd sh]) in
  exists s2,
    dp_sem cfg ORN (bit w 20) (Some d) n (Op2Reg m (fst sh) (snd sh)) (begin_instr s1 op) = Ok tt s2 /\
    ArmV6_emulate_cycle cfg s = Ok tt (AdvancePC (it_step_after s1 s2)) /\
    pc_of (AdvancePC (it_step_after s1 s2)) = add32 (pc_of s1) 4.
Proof. exact (ornRegisterT1_step cfg s w s1). Qed.
Print Assumptions C01_ornRegisterT1_step.
Theorem C01_eorRegisterT2_step cfg s w s1 :
  ArmV6_fetch_instruction cfg s = Ok w s1 ->
  0 <= w < 2 ^ 32 -> is_dp_sr_t32 0 1 0 0 w -> iset_of s1 = 1 -> opcode_len s1 = 32 -> ictx cfg s1 -> cond_holds s1 ->
  let d := bits w 11 8 in let n := bits w 19 16 in let m := bits w 3 0 in
  let sh := DecodeImmShift (bits w 5 4) (imm5t w) in
  let op := (code_EorRegister, [w; bit w 20; m; d; n; fst sh; snd sh]) in
  exists s2,
    dp_sem cfg EOR (bit w 20) (Some d) n (Op2Reg m (fst sh) (snd sh)) (begin_instr s1 op) = Ok tt s2 /\
    ArmV6_emulate_cycle cfg s = Ok tt (AdvancePC (it_step_after s1 s2)) /\
    pc_of (AdvancePC (it_step_after s1 s2)) = add32 (pc_of s1) 4.
Proof. exact (eorRegisterT2_step cfg s w s1). Qed.
Print Assumptions C01_eorRegisterT2_step.
Theorem C01_addRegisterThumbT3_step cfg s w s1 :
  ArmV6_fetch_instruction cfg s = Ok w s1 ->
  0 <= w < 2 ^ 32 -> is_dp_sr_t32 1 0 0 0 w -> iset_of s1 = 1 -> opcode_len s1 = 32 -> ictx cfg s1 -> cond_holds s1 ->
  let d := bits w 11 8 in let n := bits w 19 16 in let m := bits w 3 0 in
  let sh := DecodeImmShift (bits w 5 4) (imm5t w) in
  let op := (code_AddRegisterThumb, [w; bit w 20; m; d; n; fst sh; snd sh]) in
  exists s2,
    dp_sem cfg ADD (bit w 20) (Some d) n (Op2Reg m (fst sh) (snd sh)) (begin_instr s1 op) = Ok tt s2 /\
    ArmV6_emulate_cycle cfg s = Ok tt (AdvancePC (it_step_after s1 s2)) /\
    pc_of (AdvancePC (it_step_after s1 s2)) = add32 (pc_of s1) 4.
Proof. exact (addRegisterThumbT3_step cfg s w s1). Qed.
Print Assumptions C01_addRegisterThumbT3_step.
Theorem C01_adcRegisterT2_step cfg s w s1 :
  ArmV6_fetch_instruction cfg s = Ok w s1 ->
  0 <= w < 2 ^ 32 -> is_dp_sr_t32 1 0 1 0 w -> iset_of s1 = 1 -> opcode_len s1 = 32 -> ictx cfg s1 -> cond_holds s1 ->
  let d := bits w 11 8 in let n := bits w 19 16 in let m := bits w 3 0 in
  let sh := DecodeImmShift (bits w 5 4) (imm5t w) in
  let op := (code_AdcRegister, [w; bit w 20; m; d; n; fst sh; snd sh]) in
  exists s2,
    dp_sem cfg ADC (bit w 20) (Some d) n (Op2Reg m (fst sh) (snd sh)) (begin_instr s1 op) = Ok tt s2 /\
    ArmV6_emulate_cycle cfg s = Ok tt (AdvancePC (it_step_after s1 s2)) /\
    pc_of (AdvancePC (it_step_after s1 s2)) = add32 (pc_of s1) 4.
Proof. exact (adcRegisterT2_step cfg s w s1). Qed.
Print Assumptions C01_adcRegisterT2_step.
Theorem C01_sbcRegisterT2_step cfg s w s1 :
  ArmV6_fetch_instruction cfg s = Ok w s1 ->
  0 <= w < 2 ^ 32 -> is_dp_sr_t32 1 0 1 1 w -> iset_of s1 = 1 -> opcode_len s1 = 32 -> ictx cfg s1 -> cond_holds s1 ->
  let d := bits w 11 8 in let n := bits w 19 16 in let m := bits w 3 0 in
  let sh := DecodeImmShift (bits w 5 4) (imm5t w) in
  let op := (code_SbcRegister, [w; bit w 20; m; d; n; fst sh; snd sh]) in
  exists s2,
    dp_sem cfg SBC (bit w 20) (Some d) n (Op2Reg m (fst sh) (snd sh)) (begin_instr s1 op) = Ok tt s2 /\
    ArmV6_emulate_cycle cfg s = Ok tt (AdvancePC (it_step_after s1 s2)) /\
    pc_of (AdvancePC (it_step_after s1 s2)) = add32 (pc_of s1) 4.
Proof. exact (sbcRegisterT2_step cfg s w s1). Qed.
Print Assumptions C01_sbcRegisterT2_step.
Theorem C01_subRegisterT2_step cfg s w s1 :
  ArmV6_fetch_instruction cfg s = Ok w s1 ->
  0 <= w < 2 ^ 32 -> is_dp_sr_t32 1 1 0 1 w -> iset_of s1 = 1 -> opcode_len s1 = 32 -> ictx cfg s1 -> cond_holds s1 ->
  let d := bits w 11 8 in let n := bits w 19 16 in let m := bits w 3 0 in
  let sh := DecodeImmShift (bits w 5 4) (imm5t w) in
  let op := (code_SubRegister, [w; bit w 20; m; d; n; fst sh; snd sh]) in
  exists s2,
    dp_sem cfg SUB (bit w 20) (Some d) n (Op2Reg m (fst sh) (snd sh)) (begin_instr s1 op) = Ok tt s2 /\
    ArmV6_emulate_cycle cfg s = Ok tt (AdvancePC (it_step_after s1 s2)) /\
    pc_of (AdvancePC (it_step_after s1 s2)) = add32 (pc_of s1) 4.
Proof. exact (subRegisterT2_step cfg s w s1). Qed.
Print Assumptions C01_subRegisterT2_step.
Theorem C01_rsbRegisterT1_step cfg s w s1 :
  ArmV6_fetch_instruction cfg s = Ok w s1 ->
  0 <= w < 2 ^ 32 -> is_dp_sr_t32 1 1 1 0 w -> iset_of s1 = 1 -> opcode_len s1 = 32 -> ictx cfg s1 -> cond_holds s1 ->
  let d := bits w 11 8 in let n := bits w 19 16 in let m := bits w 3 0 in
  let sh := DecodeImmShift (bits w 5 4) (imm5t w) in
  let op := (code_RsbRegister, [w; bit w 20; m; d; n; fst sh; snd sh]) in
  exists s2,
    dp_sem cfg RSB (bit w 20) (Some d) n (Op2Reg m (fst sh) (snd sh)) (begin_instr s1 op) = Ok tt s2 /\
    ArmV6_emulate_cycle cfg s = Ok tt (AdvancePC (it_step_after s1 s2)) /\
    pc_of (AdvancePC (it_step_after s1 s2)) = add32 (pc_of s1) 4.
Proof. exact (rsbRegisterT1_step cfg s w s1). Qed.
Print Assumptions C01_rsbRegisterT1_step.

(* TST, TEQ, CMP, CMN (register, ARM A1): cond != 1111, 00010 opc 1 Rn (0000) imm5 type 0 Rm *)
Theorem C01_tstRegisterA1_step cfg s w s1 :
  ArmV6_fetch_instruction cfg s = Ok w s1 ->
  0 <= w < 2 ^ 32 -> is_cmp_reg_a1 1 0 0 0 w -> iset_of s1 = 0 -> ictx cfg s1 -> cond_holds s1 ->
  let n := bits w 19 16 in let m := bits w 3 0 in let sh := DecodeImmShift (bits w 6 5) (bits w 11 7) in
  let op := (code_TstRegister, [w; m; n; fst sh; snd sh]) in
  exists s2,
    dp_sem cfg AND 1 None n (Op2Reg m (fst sh) (snd sh)) (begin_instr s1 op) = Ok tt s2 /\
    ArmV6_emulate_cycle cfg s = Ok tt (AdvancePC (it_step_after s1 s2)) /\
    pc_of (AdvancePC (it_step_after s1 s2)) = add32 (pc_of s1) (opcode_len s1 / 8) /\
    (forall k, 0 <= k -> k <> pc_index -> getl (R (AdvancePC (it_step_after s1 s2))) k = getl (R s1) k).
Proof. exact (tstRegisterA1_step cfg s w s1). Qed.
Print Assumptions C01_tstRegisterA1_step.
Theorem C01_teqRegisterA1_step cfg s w s1 :
  ArmV6_fetch_instruction cfg s = Ok w s1 ->
  0 <= w < 2 ^ 32 -> is_cmp_reg_a1 1 0 0 1 w -> iset_of s1 = 0 -> ictx cfg s1 -> cond_holds s1 ->
  let n := bits w 19 16 in let m := bits w 3 0 in let sh := DecodeImmShift (bits w 6 5) (bits w 11 7) in
  let op := (code_TeqRegister, [w; m; n; fst sh; snd sh]) in
  exists s2,
    dp_sem cfg EOR 1 None n (Op2Reg m (fst sh) (snd sh)) (begin_instr s1 op) = Ok tt s2 /\
    ArmV6_emulate_cycle cfg s = Ok tt (AdvancePC (it_step_after s1 s2)) /\
    pc_of (AdvancePC (it_step_after s1 s2)) = add32 (pc_of s1) (opcode_len s1 / 8) /\
    (forall k, 0 <= k -> k <> pc_index -> getl (R (AdvancePC (it_step_after s1 s2))) k = getl (R s1) k).
Proof. exact (teqRegisterA1_step cfg s w s1). Qed.
Print Assumptions C01_teqRegisterA1_step.
Theorem C01_cmpRegisterA1_step cfg s w s1 :
  ArmV6_fetch_instruction cfg s = Ok w s1 ->
  0 <= w < 2 ^ 32 -> is_cmp_reg_a1 1 0 1 0 w -> iset_of s1 = 0 -> ictx cfg s1 -> cond_holds s1 ->
  let n := bits w 19 16 in let m := bits w 3 0 in let sh := DecodeImmShift (bits w 6 5) (bits w 11 7) in
  let op := (code_CmpRegister, [w; m; n; fst sh; snd sh]) in
  exists s2,
    dp_sem cfg SUB 1 None n (Op2Reg m (fst sh) (snd sh)) (begin_instr s1 op) = Ok tt s2 /\
    ArmV6_emulate_cycle cfg s = Ok tt (AdvancePC (it_step_after s1 s2)) /\
    pc_of (AdvancePC (it_step_after s1 s2)) = add32 (pc_of s1) (opcode_len s1 / 8) /\
    (forall k, 0 <= k -> k <> pc_index -> getl (R (AdvancePC (it_step_after s1 s2))) k = getl (R s1) k).
Proof. exact (cmpRegisterA1_step cfg s w s1). Qed.
Print Assumptions C01_cmpRegisterA1_step.
Theorem C01_cmnRegisterA1_step cfg s w s1 :
  ArmV6_fetch_instruction cfg s = Ok w s1 ->
  0 <= w < 2 ^ 32 -> is_cmp_reg_a1 1 0 1 1 w -> iset_of s1 = 0 -> ictx cfg s1 -> cond_holds s1 ->
  let n := bits w 19 16 in let m := bits w 3 0 in let sh := DecodeImmShift (bits w 6 5) (bits w 11 7) in
  let op := (code_CmnRegister, [w; m; n; fst sh; snd sh]) in
  exists s2,
    dp_sem cfg ADD 1 None n (Op2Reg m (fst sh) (snd sh)) (begin_instr s1 op) = Ok tt s2 /\
    ArmV6_emulate_cycle cfg s = Ok tt (AdvancePC (it_step_after s1 s2)) /\
    pc_of (AdvancePC (it_step_after s1 s2)) = add32 (pc_of s1) (opcode_len s1 / 8) /\
    (forall k, 0 <= k -> k <> pc_index -> getl (R (AdvancePC (it_step_after s1 s2))) k = getl (R s1) k).
Proof. exact (cmnRegisterA1_step cfg s w s1). Qed.
Print Assumptions C01_cmnRegisterA1_step.

(* TST, TEQ, CMN, CMP <Rn>, #const (Thumb, 32-bit): 11110 i 0 op 1 Rn : 0 imm3 1111 imm8 *)
Theorem C01_tstImmediateT1_step cfg s w s1 :
  ArmV6_fetch_instruction cfg s = Ok w s1 ->
  0 <= w < 2 ^ 32 -> is_cmp_mi_t32 0 0 0 0 w -> iset_of s1 = 1 -> opcode_len s1 = 32 -> ictx cfg s1 -> cond_holds s1 ->
  let n := bits w 19 16 in let imm32 := ThumbExpandImm (imm12t w) in let c := (snd (ThumbExpandImm_C (imm12t w) (cflag s1))) in
  let op := (code_TstImmediate, [w; bits w 19 16; ThumbExpandImm (imm12t w); snd (ThumbExpandImm_C (imm12t w) (cflag s1))]) in
  exists s2,
    dp_sem cfg AND 1 None n (Op2Imm imm32 c) (begin_instr s1 op) = Ok tt s2 /\
    ArmV6_emulate_cycle cfg s = Ok tt (AdvancePC (it_step_after s1 s2)) /\
    pc_of (AdvancePC (it_step_after s1 s2)) = add32 (pc_of s1) 4 /\
    (forall k, 0 <= k -> k <> pc_index -> getl (R (AdvancePC (it_step_after s1 s2))) k = getl (R s1) k).
Proof. exact (tstImmediateT1_step cfg s w s1). Qed.
Print Assumptions C01_tstImmediateT1_step.
Theorem C01_teqImmediateT1_step cfg s w s1 :
  ArmV6_fetch_instruction cfg s = Ok w s1 ->
  0 <= w < 2 ^ 32 -> is_cmp_mi_t32 0 1 0 0 w -> iset_of s1 = 1 -> opcode_len s1 = 32 -> ictx cfg s1 -> cond_holds s1 ->
  let n := bits w 19 16 in let imm32 := ThumbExpandImm (imm12t w) in let c := (snd (ThumbExpandImm_C (imm12t w) (cflag s1))) in
  let op := (code_TeqImmediate, [w; bits w 19 16; ThumbExpandImm (imm12t w); snd (ThumbExpandImm_C (imm12t w) (cflag s1))]) in
  exists s2,
    dp_sem cfg EOR 1 None n (Op2Imm imm32 c) (begin_instr s1 op) = Ok tt s2 /\
    ArmV6_emulate_cycle cfg s = Ok tt (AdvancePC (it_step_after s1 s2)) /\
    pc_of (AdvancePC (it_step_after s1 s2)) = add32 (pc_of s1) 4 /\
    (forall k, 0 <= k -> k <> pc_index -> getl (R (AdvancePC (it_step_after s1 s2))) k = getl (R s1) k).
Proof. exact (teqImmediateT1_step cfg s w s1). Qed.
Print Assumptions C01_teqImmediateT1_step.
Theorem C01_cmnImmediateT1_step cfg s w s1 :
  ArmV6_fetch_instruction cfg s = Ok w s1 ->
  0 <= w < 2 ^ 32 -> is_cmp_mi_t32 1 0 0 0 w -> iset_of s1 = 1 -> opcode_len s1 = 32 -> ictx cfg s1 -> cond_holds s1 ->
  let n := bits w 19 16 in let imm32 := ThumbExpandImm (imm12t w) in let c := 0 in
  let op := (code_CmnImmediate, [w; bits w 19 16; ThumbExpandImm (imm12t w)]) in
  exists s2,
    dp_sem cfg ADD 1 None n (Op2Imm imm32 c) (begin_instr s1 op) = Ok tt s2 /\
    ArmV6_emulate_cycle cfg s = Ok tt (AdvancePC (it_step_after s1 s2)) /\
    pc_of (AdvancePC (it_step_after s1 s2)) = add32 (pc_of s1) 4 /\
    (forall k, 0 <= k -> k <> pc_index -> getl (R (AdvancePC (it_step_after s1 s2))) k = getl (R s1) k).
Proof. exact (cmnImmediateT1_step cfg s w s1). Qed.
Print Assumptions C01_cmnImmediateT1_step.
Theorem C01_cmpImmediateT2_step cfg s w s1 :
  ArmV6_fetch_instruction cfg s = Ok w s1 ->
  0 <= w < 2 ^ 32 -> is_cmp_mi_t32 1 1 0 1 w -> iset_of s1 = 1 -> opcode_len s1 = 32 -> ictx cfg s1 -> cond_holds s1 ->
  let n := bits w 19 16 in let imm32 := ThumbExpandImm (imm12t w) in let c := 0 in
  let op := (code_CmpImmediate, [w; bits w 19 16; ThumbExpandImm (imm12t w)]) in
  exists s2,
    dp_sem cfg SUB 1 None n (Op2Imm imm32 c) (begin_instr s1 op) = Ok tt s2 /\
    ArmV6_emulate_cycle cfg s = Ok tt (AdvancePC (it_step_after s1 s2)) /\
    pc_of (AdvancePC (it_step_after s1 s2)) = add32 (pc_of s1) 4 /\
    (forall k, 0 <= k -> k <> pc_index -> getl (R (AdvancePC (it_step_after s1 s2))) k = getl (R s1) k).
Proof. exact (cmpImmediateT2_step cfg s w s1). Qed.
Print Assumptions C01_cmpImmediateT2_step.

(* TST, TEQ, CMP, CMN (register-shifted register, ARM A1): cond != 1111, 00010 opc 1 Rn (0000) Rs 0 type 1 Rm *)
Theorem C01_tstRegisterShiftedRegisterA1_step cfg s w s1 :
  ArmV6_fetch_instruction cfg s = Ok w s1 ->
  0 <= w < 2 ^ 32 -> is_cmp_rsr_a1 1 0 0 0 w -> iset_of s1 = 0 -> ictx cfg s1 -> cond_holds s1 ->
  let n := bits w 19 16 in let m := bits w 3 0 in let rs := bits w 11 8 in let st := DecodeRegShift (bits w 6 5) in
  let op := (code_TstRegisterShiftedRegister, [w; m; rs; n; st]) in
  exists s2,
    dp_sem cfg AND 1 None n (Op2RegReg m st rs) (begin_instr s1 op) = Ok tt s2 /\
    ArmV6_emulate_cycle cfg s = Ok tt (AdvancePC (it_step_after s1 s2)) /\
    pc_of (AdvancePC (it_step_after s1 s2)) = add32 (pc_of s1) (opcode_len s1 / 8) /\
    (forall k, 0 <= k -> k <> pc_index -> getl (R (AdvancePC (it_step_after s1 s2))) k = getl (R s1) k).
Proof. exact (tstRegisterShiftedRegisterA1_step cfg s w s1). Qed.
Print Assumptions C01_tstRegisterShiftedRegisterA1_step.
Theorem C01_teqRegisterShiftedRegisterA1_step cfg s w s1 :
  ArmV6_fetch_instruction cfg s = Ok w s1 ->
  0 <= w < 2 ^ 32 -> is_cmp_rsr_a1 1 0 0 1 w -> iset_of s1 = 0 -> ictx cfg s1 -> cond_holds s1 ->
  let n := bits w 19 16 in let m := bits w 3 0 in let rs := bits w 11 8 in let st := DecodeRegShift (bits w 6 5) in
  let op := (code_TeqRegisterShiftedRegister, [w; m; rs; n; st]) in
  exists s2,
    dp_sem cfg EOR 1 None n (Op2RegReg m st rs) (begin_instr s1 op) = Ok tt s2 /\
    ArmV6_emulate_cycle cfg s = Ok tt (AdvancePC (it_step_after s1 s2)) /\
    pc_of (AdvancePC (it_step_after s1 s2)) = add32 (pc_of s1) (opcode_len s1 / 8) /\
    (forall k, 0 <= k -> k <> pc_index -> getl (R (AdvancePC (it_step_after s1 s2))) k = getl (R s1) k).
Proof. exact (teqRegisterShiftedRegisterA1_step cfg s w s1). Qed.
Print Assumptions C01_teqRegisterShiftedRegisterA1_step.
Theorem C01_cmpRegisterShiftedRegisterA1_step cfg s w s1 :
  ArmV6_fetch_instruction cfg s = Ok w s1 ->
  0 <= w < 2 ^ 32 -> is_cmp_rsr_a1 1 0 1 0 w -> iset_of s1 = 0 -> ictx cfg s1 -> cond_holds s1 ->
  let n := bits w 19 16 in let m := bits w 3 0 in let rs := bits w 11 8 in let st := DecodeRegShift (bits w 6 5) in
  let op := (code_CmpRegisterShiftedRegister, [w; m; rs; n; st]) in
  exists s2,
    dp_sem cfg SUB 1 None n (Op2RegReg m st rs) (begin_instr s1 op) = Ok tt s2 /\
    ArmV6_emulate_cycle cfg s = Ok tt (AdvancePC (it_step_after s1 s2)) /\
    pc_of (AdvancePC (it_step_after s1 s2)) = add32 (pc_of s1) (opcode_len s1 / 8) /\
    (forall k, 0 <= k -> k <> pc_index -> getl (R (AdvancePC (it_step_after s1 s2))) k = getl (R s1) k).
Proof. exact (cmpRegisterShiftedRegisterA1_step cfg s w s1). Qed.
Print Assumptions C01_cmpRegisterShiftedRegisterA1_step.
Theorem C01_cmnRegisterShiftedRegisterA1_step cfg s w s1 :
  ArmV6_fetch_instruction cfg s = Ok w s1 ->
  0 <= w < 2 ^ 32 -> is_cmp_rsr_a1 1 0 1 1 w -> iset_of s1 = 0 -> ictx cfg s1 -> cond_holds s1 ->
  let n := bits w 19 16 in let m := bits w 3 0 in let rs := bits w 11 8 in let st := DecodeRegShift (bits w 6 5) in
  let op := (code_CmnRegisterShiftedRegister, [w; m; rs; n; st]) in
  exists s2,
    dp_sem cfg ADD 1 None n (Op2RegReg m st rs) (begin_instr s1 op) = Ok tt s2 /\
    ArmV6_emulate_cycle cfg s = Ok tt (AdvancePC (it_step_after s1 s2)) /\
    pc_of (AdvancePC (it_step_after s1 s2)) = add32 (pc_of s1) (opcode_len s1 / 8) /\
    (forall k, 0 <= k -> k <> pc_index -> getl (R (AdvancePC (it_step_after s1 s2))) k = getl (R s1) k).
Proof. exact (cmnRegisterShiftedRegisterA1_step cfg s w s1). Qed.
Print Assumptions C01_cmnRegisterShiftedRegisterA1_step.

(* MOV{S}<c> Rd, Rm and RRX{S}<c> Rd, Rm (ARM A1) *)
Theorem C01_movRegisterArmA1_step cfg s w s1 :
  ArmV6_fetch_instruction cfg s = Ok w s1 ->
  0 <= w < 2 ^ 32 -> is_mov_reg_a1 0 w -> iset_of s1 = 0 -> ictx cfg s1 -> cond_holds s1 ->
  let d := bits w 15 12 in let m := bits w 3 0 in
  let op := (code_MovRegisterArm, [w; bit w 20; m; d]) in
  exists s2,
    dp_sem cfg MOV (bit w 20) (Some d) 0 (Op2Plain m) (begin_instr s1 op) = Ok tt s2 /\
    ArmV6_emulate_cycle cfg s = Ok tt (AdvancePC (it_step_after s1 s2)) /\
    pc_of (AdvancePC (it_step_after s1 s2)) = add32 (pc_of s1) (opcode_len s1 / 8).
Proof. exact (movRegisterArmA1_step cfg s w s1). Qed.
Print Assumptions C01_movRegisterArmA1_step.
Theorem C01_rrxA1_step cfg s w s1 :
  ArmV6_fetch_instruction cfg s = Ok w s1 ->
  0 <= w < 2 ^ 32 -> is_mov_reg_a1 3 w -> iset_of s1 = 0 -> ictx cfg s1 -> cond_holds s1 ->
  let d := bits w 15 12 in let m := bits w 3 0 in
  let op := (code_Rrx, [w; bit w 20; m; d]) in
  exists s2,
    dp_sem cfg MOV (bit w 20) (Some d) 0 (Op2Reg m SRType_RRX 1) (begin_instr s1 op) = Ok tt s2 /\
    ArmV6_emulate_cycle cfg s = Ok tt (AdvancePC (it_step_after s1 s2)) /\
    pc_of (AdvancePC (it_step_after s1 s2)) = add32 (pc_of s1) (opcode_len s1 / 8).
Proof. exact (rrxA1_step cfg s w s1). Qed.
Print Assumptions C01_rrxA1_step.

(* the 16-bit Thumb shifts by immediate LSLS / LSRS / ASRS Rd, Rm, #imm5 (000 op imm5 Rm Rd), flags = !InITBlock() *)
Theorem C01_lslImmediateT1_step cfg s w s1 :
  ArmV6_fetch_instruction cfg s = Ok w s1 ->
  0 <= w < 2 ^ 16 -> is_shift_t16 0 true w -> iset_of s1 = 1 -> opcode_len s1 = 16 -> ictx cfg s1 -> cond_holds s1 ->
  let d := bits w 2 0 in let m := bits w 5 3 in let n := snd (DecodeImmShift 0 (bits w 10 6)) in
  let op := (code_LslImmediate, [w; not_in_it s1; m; d; n]) in
  exists s2,
    dp_sem cfg MOV (not_in_it s1) (Some d) 0 (Op2Reg m SRType_LSL n) (begin_instr s1 op) = Ok tt s2 /\
    ArmV6_emulate_cycle cfg s = Ok tt (AdvancePC (it_step_after s1 s2)) /\
    pc_of (AdvancePC (it_step_after s1 s2)) = add32 (pc_of s1) 2.
Proof. exact (lslImmediateT1_step cfg s w s1). Qed.
Print Assumptions C01_lslImmediateT1_step.
Theorem C01_lsrImmediateT1_step cfg s w s1 :
  ArmV6_fetch_instruction cfg s = Ok w s1 ->
  0 <= w < 2 ^ 16 -> is_shift_t16 1 false w -> iset_of s1 = 1 -> opcode_len s1 = 16 -> ictx cfg s1 -> cond_holds s1 ->
  let d := bits w 2 0 in let m := bits w 5 3 in let n := snd (DecodeImmShift 1 (bits w 10 6)) in
  let op := (code_LsrImmediate, [w; not_in_it s1; m; d; n]) in
  exists s2,
    dp_sem cfg MOV (not_in_it s1) (Some d) 0 (Op2Reg m SRType_LSR n) (begin_instr s1 op) = Ok tt s2 /\
    ArmV6_emulate_cycle cfg s = Ok tt (AdvancePC (it_step_after s1 s2)) /\
    pc_of (AdvancePC (it_step_after s1 s2)) = add32 (pc_of s1) 2.
Proof. exact (lsrImmediateT1_step cfg s w s1). Qed.
Print Assumptions C01_lsrImmediateT1_step.
Theorem C01_asrImmediateT1_step cfg s w s1 :
  ArmV6_fetch_instruction cfg s = Ok w s1 ->
  0 <= w < 2 ^ 16 -> is_shift_t16 2 false w -> iset_of s1 = 1 -> opcode_len s1 = 16 -> ictx cfg s1 -> cond_holds s1 ->
  let d := bits w 2 0 in let m := bits w 5 3 in let n := snd (DecodeImmShift 2 (bits w 10 6)) in
  let op := (code_AsrImmediate, [w; not_in_it s1; m; d; n]) in
  exists s2,
    dp_sem cfg MOV (not_in_it s1) (Some d) 0 (Op2Reg m SRType_ASR n) (begin_instr s1 op) = Ok tt s2 /\
    ArmV6_emulate_cycle cfg s = Ok tt (AdvancePC (it_step_after s1 s2)) /\
    pc_of (AdvancePC (it_step_after s1 s2)) = add32 (pc_of s1) 2.
Proof. exact (asrImmediateT1_step cfg s w s1). Qed.
Print Assumptions C01_asrImmediateT1_step.

(* no hypothesis left about the stages of the cycle: ARM state, flat memory map (PMSA, MPU off), word-aligned PC; the instruction is
   whatever word the memory holds at the PC (Props/C13step.v discharges the fetch) *)
Theorem C01_add_imm_a1_closed cfg s :
  flat cfg s -> ictx cfg s -> iset_of s = 0 -> pc_of s mod 4 = 0 ->
  let w := fetched_arm s in let s1 := after_fetch_arm s in
  is_add_imm_a1 w -> cond_holds s1 ->
  let d := bits w 15 12 in let n := bits w 19 16 in let imm32 := ARMExpandImm (bits w 11 0) in
  let op := (code_AddImmediateArm, [w; bit w 20; d; n; imm32]) in
  exists s2,
    dp_sem cfg ADD (bit w 20) (Some d) n (Op2Imm imm32 0) (begin_instr s1 op) = Ok tt s2 /\
    ArmV6_emulate_cycle cfg s = Ok tt (AdvancePC (it_step_after s1 s2)) /\
    pc_of (AdvancePC (it_step_after s1 s2)) = add32 (pc_of s) 4.
Proof. exact (add_imm_a1_closed cfg s). Qed.
Print Assumptions C01_add_imm_a1_closed.

(* the same for ADD{S} Rd, Rn, #imm3 (Thumb T1), any IT position: Thumb state, flat memory map, halfword-aligned PC *)
Theorem C01_add_imm_t1_closed cfg s :
  flat cfg s -> ictx cfg s -> iset_of s = 1 -> pc_of s mod 2 = 0 ->
  let w := fetched_t16 s in let s1 := after_fetch_t16 s in
  is_add_imm_t1 w -> cond_holds s1 ->
  let d := bits w 2 0 in let n := bits w 5 3 in let imm32 := bits w 8 6 in
  let op := (code_AddImmediateThumb, [w; not_in_it s1; d; n; imm32]) in
  exists s2,
    dp_sem cfg ADD (not_in_it s1) (Some d) n (Op2Imm imm32 0) (begin_instr s1 op) = Ok tt s2 /\
    ArmV6_emulate_cycle cfg s = Ok tt (AdvancePC (it_step_after s1 s2)) /\
    pc_of (AdvancePC (it_step_after s1 s2)) = add32 (pc_of s) 2.
Proof. exact (add_imm_t1_closed cfg s). Qed.
Print Assumptions C01_add_imm_t1_closed.

(* and for AND{S} Rd, Rn, #const (Thumb, 32-bit T1): the two halfwords at the PC *)
Theorem C01_and_imm_t1_closed cfg s :
  flat cfg s -> ictx cfg s -> iset_of s = 1 -> pc_of s mod 2 = 0 ->
  let w := fetched_t32 s in let s1 := after_fetch_t32 s in
  is_dp_mi_t32 0 0 0 0 w -> cond_holds s1 ->
  let d := bits w 11 8 in let n := bits w 19 16 in let imm32 := ThumbExpandImm (imm12t w) in
  let c := snd (ThumbExpandImm_C (imm12t w) (cflag s1)) in
  let op := (code_AndImmediate, [w; bit w 20; bits w 11 8; bits w 19 16; ThumbExpandImm (imm12t w); snd (ThumbExpandImm_C (imm12t w) (cflag s1))]) in
  exists s2,
    dp_sem cfg AND (bit w 20) (Some d) n (Op2Imm imm32 c) (begin_instr s1 op) = Ok tt s2 /\
    ArmV6_emulate_cycle cfg s = Ok tt (AdvancePC (it_step_after s1 s2)) /\
    pc_of (AdvancePC (it_step_after s1 s2)) = add32 (pc_of s) 4.
Proof. exact (and_imm_t1_closed cfg s). Qed.
Print Assumptions C01_and_imm_t1_closed.

(* the hypotheses are satisfiable: ADDSNE r2, r1, #4 (ARM, Z clear) and ADD r1, r2, #3 as the last instruction of an IT EQ block *)
Example C01_add_imm_a1_step_example :
  exists s2, ArmV6_emulate_cycle ex2_cfg ex2_s = Ok tt (AdvancePC (it_step_after ex2_s1 s2)) /\
             pc_of (AdvancePC (it_step_after ex2_s1 s2)) = pc_of ex2_s + 4.
Proof. exact add_imm_a1_step_example. Qed.
Print Assumptions C01_add_imm_a1_step_example.
Example C01_add_imm_t1_step_example :
  exists s2, ArmV6_emulate_cycle ex3_cfg ex3_s = Ok tt (AdvancePC (it_step_after ex3_s1 s2)) /\
             pc_of (AdvancePC (it_step_after ex3_s1 s2)) = pc_of ex3_s + 2 /\ not_in_it ex3_s1 = 0.
Proof. exact add_imm_t1_step_example. Qed.
Print Assumptions C01_add_imm_t1_step_example.
