"""C11 — exception entry: every Take*Exception / TakeReset against the regenerated model and the pseudocode."""
import copy
import common as C
import statelib
from framework import Unit

IMPORTS = 'From Gen Require Import enums core.'
SPEC_IMPORTS = 'From ArmV Require Import Spec.Pseudocode Spec.Arch Spec.MachineView Spec.Exceptions.'
MODES = [16, 17, 18, 19, 22, 23, 26, 27, 31]
KINDS = ['svc', 'undef', 'smc', 'hyp_trap', 'dabort', 'irq', 'fiq', 'reset']
METHOD = {'svc': 'registers.take_svc_exception', 'undef': 'registers.take_undef_instr_exception',
          'smc': 'registers.take_smc_exception', 'hyp_trap': 'registers.take_hyp_trap_exception',
          'dabort': 'registers.take_data_abort_exception', 'irq': 'registers.take_physical_irq_exception',
          'fiq': 'registers.take_physical_fiq_exception', 'reset': 'take_reset'}
COQFN = {'svc': 'Registers_take_svc_exception', 'undef': 'Registers_take_undef_instr_exception',
         'smc': 'Registers_take_smc_exception', 'hyp_trap': 'Registers_take_hyp_trap_exception',
         'dabort': 'Registers_take_data_abort_exception', 'irq': 'Registers_take_physical_irq_exception',
         'fiq': 'Registers_take_physical_fiq_exception', 'reset': 'ArmV6_take_reset'}
PCS = [0, 2, 4, 8, 0x100, 0x7FFFFFFC, 0x80000000, 0xFFFF0000, 0xFFFFFFF0, 0xFFFFFFF4, 0xFFFFFFF8, 0xFFFFFFFA, 0xFFFFFFFC, 0xFFFFFFFE]


def b(x):
    return 'true' if x else 'false'


def entry_cases(rng, tier):
    t = statelib.load_index(C.GEN)['tables']
    ix = {n: t['sys_names'].index(n) for n in ('cpsr', 'scr', 'sctlr', 'hsctlr', 'hcr', 'vbar', 'mvbar', 'hvbar', 'hdcr',
                                               'spsr_svc', 'spsr_hyp', 'elr_hyp', 'hsr', 'fpexc', 'teecr', 'jmcr')}
    pc_index = t['rnames'].index('PC')
    out = []
    per_kind = 40 if tier == 'quick' else 1200
    # the routing corners first: every mode x every SCR value with one bit set / one bit clear (NS, IRQ, FIQ, EA, FW, AW, ...),
    # then random states
    scr_grid = [0, 0x3FF] + [1 << k for k in range(10)] + [0x3FF ^ (1 << k) for k in range(10)]
    plan = []
    for kind in KINDS:
        for mode in MODES:
            for scr in (scr_grid if tier != 'quick' else scr_grid[::2] if kind not in ('dabort', 'irq', 'fiq') else scr_grid):
                plan.append((kind, mode, scr))
        plan += [(kind, None, None)] * per_kind
    for (kind, forced_mode, forced_scr) in plan:
        for ci in range(1):
            cfgd = copy.deepcopy(statelib.DEFAULT_CFG)
            cfgd['have_security_ext'] = rng.random() < 0.75 or kind == 'smc'
            cfgd['have_virt_ext'] = (rng.random() < (0.5 if cfgd['have_security_ext'] else 0.1)) or kind == 'hyp_trap'
            cfgd['impdef_irq_vector'] = rng.choice([24, 0x1000, rng.getrandbits(32) & ~3])
            cfgd['impdef_fiq_vector'] = rng.choice([28, 0x2000, rng.getrandbits(32) & ~3])
            if kind == 'reset':
                cfgd['have_adv_simd_or_vfp'] = rng.random() < 0.5
                cfgd['have_thumbee'] = rng.random() < 0.5
                cfgd['have_jazelle'] = rng.random() < 0.5
                cfgd['has_imp_def_reset_vector'] = rng.random() < 0.4
                cfgd['impdef_reset_vector'] = rng.choice([0, 0x8001, rng.getrandbits(32)])
                cfgd['reset_values']['VBAR'] = rng.choice([0, 0x00400000, rng.getrandbits(27) << 5])
            if forced_mode == 22:
                cfgd['have_security_ext'] = True
            if forced_mode == 26:
                cfgd['have_security_ext'] = True
                cfgd['have_virt_ext'] = True
            st = statelib.reset_state(t, cfg=cfgd, mem=[])
            modes = [m for m in MODES if (m != 22 or cfgd['have_security_ext']) and (m != 26 or cfgd['have_virt_ext'])]
            mode = forced_mode if forced_mode is not None else rng.choice(modes)
            it = rng.choice([0, 0, rng.getrandbits(8)])
            tj = rng.choice([0, 0, 1, 1, 2, 3])          # J:T
            cpsr = (rng.getrandbits(5) << 27) | ((it & 3) << 25) | ((tj >> 1) << 24) | (rng.getrandbits(4) << 16) | \
                   ((it >> 2) << 10) | (rng.getrandbits(4) << 6) | ((tj & 1) << 5) | mode
            st['sys'][ix['cpsr']] = cpsr
            st['sys'][ix['scr']] = rng.getrandbits(10) if forced_scr is None else forced_scr
            st['sys'][ix['sctlr']] = (statelib.DEFAULT_CFG['reset_values']['SCTLR'] & ~((1 << 13) | (1 << 24) | (1 << 25) | (1 << 30))) | \
                (rng.getrandbits(1) << 13) | ((rng.random() < 0.3) << 24) | (rng.getrandbits(1) << 25) | (rng.getrandbits(1) << 30)
            st['sys'][ix['hsctlr']] = (rng.getrandbits(1) << 25) | (rng.getrandbits(1) << 30) | 0x30C50838
            st['sys'][ix['hcr']] = (rng.getrandbits(1) << 27) | (rng.getrandbits(3) << 3)
            st['sys'][ix['hdcr']] = rng.getrandbits(1) << 8
            st['sys'][ix['vbar']] = rng.choice([0, 0x00400000, rng.getrandbits(27) << 5])
            st['sys'][ix['mvbar']] = rng.choice([0, 0x00800000, rng.getrandbits(27) << 5, 0xFFFFFFE0])
            st['sys'][ix['hvbar']] = rng.choice([0, 0x00C00000, rng.getrandbits(27) << 5, 0xFFFFFFE0])
            st['sys'][ix['fpexc']] = rng.getrandbits(32)
            st['sys'][ix['teecr']] = rng.getrandbits(1)
            st['sys'][ix['jmcr']] = rng.getrandbits(32)
            for k in ('spsr_svc', 'spsr_hyp', 'elr_hyp', 'hsr'):
                st['sys'][ix[k]] = rng.getrandbits(32)
            st['R'] = [rng.getrandbits(32) for _ in range(34)]
            pc = rng.choice(PCS) if rng.random() < 0.6 else rng.getrandbits(32)
            if not (tj & 1):
                pc &= ~3
            else:
                pc &= ~1
            st['R'][pc_index] = pc
            cfg = statelib.coq_config(cfgd, t)
            m = statelib.coq_machine(st)
            x = f'(Build_xcfg {b(cfgd["have_security_ext"])} {b(cfgd["have_virt_ext"])} {cfgd["impdef_irq_vector"]} {cfgd["impdef_fiq_vector"]})'
            args, cargs = [], ''
            if kind == 'dabort':
                dtype = rng.choice([1, 2, 2, 5, 6, 7, 3])
                second = rng.random() < 0.3
                args = [['dabort', dtype, second]]
                cargs = f'(EDataAbort {dtype} {int(second)})'
                spec_t = f'(TakeDataAbortException {x} {m} {b(second)} {b(dtype == 2)})'
            elif kind == 'svc':
                spec_t = f'(TakeSVCException {x} {m})'
            elif kind == 'undef':
                spec_t = f'(TakeUndefInstrException {x} {m})'
            elif kind == 'smc':
                spec_t = f'(TakeSMCException {m})'
            elif kind == 'hyp_trap':
                spec_t = f'(TakeHypTrapException {m})'
            elif kind == 'irq':
                spec_t = f'(TakePhysicalIRQException {x} {m})'
            elif kind == 'fiq':
                spec_t = f'(TakePhysicalFIQException {x} {m})'
            else:
                imp = f'(Some {C.zc(cfgd["impdef_reset_vector"])})' if cfgd['has_imp_def_reset_vector'] else 'None'
                r = (f'(Build_rcfg {b(cfgd["have_adv_simd_or_vfp"])} {b(cfgd["have_thumbee"])} {b(cfgd["have_jazelle"])} '
                     f'{cfgd["reset_values"]["VBAR"]} {imp})')
                spec_t = f'(TakeReset {x} {r} {m})'
            out.append({'impl': {'kind': 'method', 'state': st, 'method': METHOD[kind], 'args': args, 'rt': ['unit']},
                        'model': f'(enc_out enc_machine enc_unit ({COQFN[kind]} {cfg} {cargs} {m}))',
                        'spec': f'(enc_out enc_machine enc_unit (Ok tt {spec_t}))',
                        'label': f'{kind}_from_{mode}', 'nontrivial': True})
    return out


def raise_cases(rng, tier):
    """UDF and SVC execute(): the exception is raised with the state untouched (condition passing)"""
    import random
    tt = statelib.load_index(C.GEN)['tables']
    icpsr = tt['sys_names'].index('cpsr')
    out = []
    for cls, module, fields_of in (('Udf', 'udf', lambda r: [0]), ('Svc', 'svc', lambda r: [0, r.getrandbits(24)]), ('Smc', 'smc', lambda r: [0])):
        for _ in range(20 if tier == 'quick' else 800):
            cfgd = dict(statelib.DEFAULT_CFG)
            st = statelib.reset_state(tt, cfg=cfgd, mem=[])
            st['sys'][icpsr] = (16 if cls == 'Smc' else rng.choice([16, 17, 19, 23, 27, 31])) | (rng.getrandbits(1) << 5)
            st['R'] = [rng.getrandbits(32) for _ in range(34)]
            st['opcode'], st['opcode_len'] = 0xE0000000, 32
            fields = fields_of(rng)
            m = statelib.coq_machine(st)
            cfg = statelib.coq_config(cfgd, tt)
            args = ' '.join(str(x) for x in fields)
            exn = 'ESVC' if cls == 'Svc' else 'EUndefined'
            model = f'(enc_out enc_machine enc_unit ({cls}_execute {cfg + " " if cls != "Udf" else ""}{args} {m}))'
            out.append({'impl': {'kind': 'exec', 'state': st, 'module': module, 'cls': cls, 'fields': fields}, 'model': model,
                        'spec': f'(enc_out enc_machine enc_unit (Exc {exn} {m}))', 'label': 'raise_' + cls, 'nontrivial': True})
    return out


PROPS_FILES = ['C11', 'C11raise']


def units():
    thms = ['C11_enter_hyp_mode', 'C11_enter_monitor_mode', 'C11_take_svc', 'C11_take_undef', 'C11_take_smc', 'C11_take_hyp_trap',
            'C11_take_data_abort', 'C11_take_irq', 'C11_take_fiq', 'C11_take_reset', 'C11_dispatch']
    needs = ['registers.Registers.' + n for n in
             ('exc_vector_base', 'enter_hyp_mode', 'enter_monitor_mode', 'take_hyp_trap_exception', 'take_smc_exception',
              'take_data_abort_exception', 'take_undef_instr_exception', 'take_svc_exception',
              'take_physical_irq_exception', 'take_physical_fiq_exception', 'it_advance', 'set_spsr', 'set', 'branch_to')] + \
            ['arm_v6.ArmV6.take_reset']
    return [Unit('entry', thms, ['Proofs/ExcProofs.v'], needs, entry_cases, IMPORTS, SPEC_IMPORTS),
            Unit('raise', ['C11_Udf', 'C11_Svc', 'C11_Bkpt', 'C11_Smc_undefined'], ['Proofs/MiscProofs2.v'],
                 ['opcodes.abstract_opcodes.udf.Udf.execute', 'opcodes.abstract_opcodes.svc.Svc.execute',
                  'opcodes.abstract_opcodes.bkpt.Bkpt.execute', 'opcodes.abstract_opcodes.smc.Smc.execute'], raise_cases,
                 IMPORTS + '\nFrom Gen Require Import exec.', SPEC_IMPORTS + '\nFrom ArmV Require Import Lib.PyZ Lib.Monad.')]
