(* Proofs/StepInstancesMlaT1.v — the multiply family end to end in Thumb: MLA<c> Rd, Rn, Rm, Ra (T1: 11111 0110 000 Rn : Ra Rd 0000 Rm) and
   MLS<c> Rd, Rn, Rm, Ra (T1: 11111 0110 000 Rn : Ra Rd 0001 Rm), the four registers in r0-r12 and pairwise different; same script as MLA / MLS A1. *)
Set Default Timeout 240.
From Coq Require Import ZArith List Bool Lia ZifyBool.
From ArmV Require Import Lib.PyZ Lib.Monad Lib.Machine Spec.Pseudocode Spec.Arch Spec.MachineView Spec.Branches Spec.StepFrame
  Spec.OperandSpec Spec.DPSem Spec.Arith Spec.Arith2
  Proofs.SpecFacts Proofs.StateLemmas Proofs.CondProofs Proofs.GuardProofs Proofs.BankProofs Proofs.MachineOps Proofs.DPLemmas
  Proofs.BranchProofs Proofs.ArithProofs Proofs.ArithProofs2 Proofs.StepProofs Proofs.StepDP Proofs.StepInstances Proofs.StepInstancesMul Proofs.StepInstancesMla Proofs.StepInstancesThumb2 Proofs.OpTac
  Proofs.OpsT0 Proofs.OpsT1 Proofs.OpsT2 Proofs.OpsT3 Proofs.OpsT4 Proofs.OpsT5 Proofs.OpsT6 Proofs.OpsT7.
From Gen Require Import enums bits_ops shift regviews records hubm opsyn core exec conc decoders step.
Import ListNotations.
Open Scope Z_scope.
Ltac Zify.zify_post_hook ::= Z.to_euclidean_division_equations.

Definition is_mlx_t1 (b4 : Z) (w : Z) : Prop :=
  bit w 31 = 1 /\ bit w 30 = 1 /\ bit w 29 = 1 /\ bit w 28 = 1 /\ bit w 27 = 1 /\ bit w 26 = 0 /\ bit w 25 = 1 /\ bit w 24 = 1 /\ bit w 23 = 0 /\
  bit w 22 = 0 /\ bit w 21 = 0 /\ bit w 20 = 0 /\ bit w 7 = 0 /\ bit w 6 = 0 /\ bit w 5 = 0 /\ bit w 4 = b4 /\
  regs13 [bits w 19 16; bits w 15 12; bits w 11 8; bits w 3 0] = true.

Lemma decode_MlaT1 w s : 0 <= w < 2 ^ 32 -> is_mlx_t1 0 w -> iset_of s = 1 -> opcode_len s = 32 ->
  ArmV6_decode_instruction w s = Ok (Some enc_MlaT1) s.
Proof.
  intros Hw (H31 & H30 & H29 & H28 & H27 & H26 & H25 & H24 & H23 & H22 & H21 & H20 & H7 & H6 & H5 & H4 & Hr) Hi Hl. split_regs. dec_t32 w Hi Hl.
  assert (D : dec_thumb_instruction_set_encoding_32_bit w = Val (Some enc_MlaT1)).
  { dec_step dec_thumb_instruction_set_encoding_32_bit. pose_expand w 28 27. pose_expand w 26 25. pose_expand w 26 24. pose_expand w 26 23. ops_if.
    dec_step dec_thumb_multiply_multiply_accumulate_and_absolute_difference. pose_expand w 22 20. pose_expand w 7 6. pose_expand w 5 4. ops_if. reflexivity. }
  unfold lift. rewrite D. rewrite ?Hl. reflexivity.
Qed.
Lemma from_bitarray_MlaT1 cfg w s : 0 <= w < 2 ^ 32 -> is_mlx_t1 0 w ->
  from_bitarray_dispatch cfg enc_MlaT1 w s = Ok (Some (code_Mla, [w; 0; bits w 3 0; bits w 15 12; bits w 11 8; bits w 19 16])) s.
Proof.
  intros Hw (_ & _ & _ & _ & _ & _ & _ & _ & _ & _ & _ & _ & _ & _ & _ & _ & Hr).
  pose proof (ops_MlaT1 w s Hw Hr) as H. unfold fb_out, fb_plain, fb_opt, fb_res, fb_res_opt, fb_m, fb_m_opt in H.
  unfold from_bitarray_dispatch, enc_MlaT1. cbv iota. unfold bind, ret, lift in *.
  repeat match goal with
  | H : match ?x with _ => _ end = _ |- context[?x] => destruct x; try discriminate H
  end.
  inversion H. first [reflexivity | match goal with E : _ = Some _ |- _ => rewrite E end; reflexivity].
Qed.
Theorem mlaT1_step cfg s w s1 :
  ArmV6_fetch_instruction cfg s = Ok w s1 ->
  0 <= w < 2 ^ 32 -> is_mlx_t1 0 w -> iset_of s1 = 1 -> opcode_len s1 = 32 -> ictx cfg s1 -> cond_holds s1 ->
  let d := bits w 11 8 in let a := bits w 15 12 in let n := bits w 19 16 in let m := bits w 3 0 in
  let op := (code_Mla, [w; 0; m; a; d; n]) in
  let s2 := Mla_sem (cfg_arch_version cfg) (begin_instr s1 op) 0 m a d n in
  ArmV6_emulate_cycle cfg s = Ok tt (AdvancePC (it_step_after s1 s2)) /\
  pc_of (AdvancePC (it_step_after s1 s2)) = add32 (pc_of s1) 4.
Proof.
  intros Hf Hw Hcube Hi Hl Hctx Hcond. pose_all_ranges. intros d a n m op s2.
  pose proof Hcube as (_ & _ & _ & _ & _ & _ & _ & _ & _ & _ & _ & _ & _ & _ & _ & _ & Hr). split_regs.
  assert (Qd : 0 <= d <= 12) by (unfold d; lia). assert (Qn : 0 <= n <= 12) by (unfold n; lia). assert (Qm : 0 <= m <= 12) by (unfold m; lia).
  assert (Qa : 0 <= a <= 12) by (unfold a; lia).
  destruct (Mla_sem_ok cfg (begin_instr s1 op) 0 m a d n (ictx_begin cfg s1 op Hctx) ltac:(lia)) as [Hc2 Hk].
  destruct (plain_step cfg s w s1 enc_MlaT1 op s2 Hf) as [A B]; try assumption.
  - apply decode_MlaT1; assumption.
  - apply from_bitarray_MlaT1; assumption.
  - change (execute_dispatch cfg op (begin_instr s1 op)) with (Mla_execute cfg w 0 m a d n (begin_instr s1 op)).
    apply Mla_ok; try lia; [apply ictx_begin; exact Hctx|apply cond_holds_begin; exact Hcond].
  - split; [exact A|]. rewrite B, Hl. reflexivity.
Qed.

Lemma decode_MlsT1 w s : 0 <= w < 2 ^ 32 -> is_mlx_t1 1 w -> iset_of s = 1 -> opcode_len s = 32 ->
  ArmV6_decode_instruction w s = Ok (Some enc_MlsT1) s.
Proof.
  intros Hw (H31 & H30 & H29 & H28 & H27 & H26 & H25 & H24 & H23 & H22 & H21 & H20 & H7 & H6 & H5 & H4 & Hr) Hi Hl. split_regs. dec_t32 w Hi Hl.
  assert (D : dec_thumb_instruction_set_encoding_32_bit w = Val (Some enc_MlsT1)).
  { dec_step dec_thumb_instruction_set_encoding_32_bit. pose_expand w 28 27. pose_expand w 26 25. pose_expand w 26 24. pose_expand w 26 23. ops_if.
    dec_step dec_thumb_multiply_multiply_accumulate_and_absolute_difference. pose_expand w 22 20. pose_expand w 7 6. pose_expand w 5 4. ops_if. reflexivity. }
  unfold lift. rewrite D. rewrite ?Hl. reflexivity.
Qed.
Lemma from_bitarray_MlsT1 cfg w s : 0 <= w < 2 ^ 32 -> is_mlx_t1 1 w ->
  from_bitarray_dispatch cfg enc_MlsT1 w s = Ok (Some (code_Mls, [w; bits w 3 0; bits w 15 12; bits w 11 8; bits w 19 16])) s.
Proof.
  intros Hw (_ & _ & _ & _ & _ & _ & _ & _ & _ & _ & _ & _ & _ & _ & _ & _ & Hr).
  pose proof (ops_MlsT1 w s Hw Hr) as H. unfold fb_out, fb_plain, fb_opt, fb_res, fb_res_opt, fb_m, fb_m_opt in H.
  unfold from_bitarray_dispatch, enc_MlsT1. cbv iota. unfold bind, ret, lift in *.
  repeat match goal with
  | H : match ?x with _ => _ end = _ |- context[?x] => destruct x; try discriminate H
  end.
  inversion H. first [reflexivity | match goal with E : _ = Some _ |- _ => rewrite E end; reflexivity].
Qed.
Theorem mlsT1_step cfg s w s1 :
  ArmV6_fetch_instruction cfg s = Ok w s1 ->
  0 <= w < 2 ^ 32 -> is_mlx_t1 1 w -> iset_of s1 = 1 -> opcode_len s1 = 32 -> ictx cfg s1 -> cond_holds s1 ->
  let d := bits w 11 8 in let a := bits w 15 12 in let n := bits w 19 16 in let m := bits w 3 0 in
  let op := (code_Mls, [w; m; a; d; n]) in
  let s2 := Mls_sem (cfg_arch_version cfg) (begin_instr s1 op) m a d n in
  ArmV6_emulate_cycle cfg s = Ok tt (AdvancePC (it_step_after s1 s2)) /\
  pc_of (AdvancePC (it_step_after s1 s2)) = add32 (pc_of s1) 4.
Proof.
  intros Hf Hw Hcube Hi Hl Hctx Hcond. pose_all_ranges. intros d a n m op s2.
  pose proof Hcube as (_ & _ & _ & _ & _ & _ & _ & _ & _ & _ & _ & _ & _ & _ & _ & _ & Hr). split_regs.
  assert (Qd : 0 <= d <= 12) by (unfold d; lia). assert (Qn : 0 <= n <= 12) by (unfold n; lia). assert (Qm : 0 <= m <= 12) by (unfold m; lia).
  assert (Qa : 0 <= a <= 12) by (unfold a; lia).
  destruct (Mls_sem_ok cfg (begin_instr s1 op) m a d n (ictx_begin cfg s1 op Hctx) ltac:(lia)) as [Hc2 Hk].
  destruct (plain_step cfg s w s1 enc_MlsT1 op s2 Hf) as [A B]; try assumption.
  - apply decode_MlsT1; assumption.
  - apply from_bitarray_MlsT1; assumption.
  - change (execute_dispatch cfg op (begin_instr s1 op)) with (Mls_execute cfg w m a d n (begin_instr s1 op)).
    apply Mls_ok; try lia; [apply ictx_begin; exact Hctx|apply cond_holds_begin; exact Hcond].
  - split; [exact A|]. rewrite B, Hl. reflexivity.
Qed.
