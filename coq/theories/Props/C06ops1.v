(* Props/C06ops1.v — C06: operand extraction of the ARM encodings (shard 1 of 8).
   For every word of the stated domain, from_bitarray returns the class with the fields the encoding diagram
   names, and leaves the state alone.  Statements rendered from harness/optable.py by harness/mkopthm.py. *)
From Coq Require Import ZArith List Bool Lia ZifyBool.
From ArmV Require Import Lib.PyZ Lib.Monad Lib.Machine Spec.Pseudocode Spec.Arch Spec.MachineView Spec.OperandSpec.
From Gen Require Import enums bits_ops shift regviews records hubm opsyn core exec conc.
Import ListNotations.
Open Scope Z_scope.
From ArmV Require Proofs.OpsA1.

Theorem C06_ops_AdcRegisterA1 w s :
  0 <= w < 2 ^ 32 ->
  regs13 [bits w 19 16; bits w 15 12; bits w 3 0] = true ->
  fb_out (AdcRegisterA1_from_bitarray w) s = Ok (Some (code_AdcRegister, [w; bit w 20; bits w 3 0; bits w 15 12; bits w 19 16; fst (DecodeImmShift (bits w 6 5) (bits w 11 7)); snd (DecodeImmShift (bits w 6 5) (bits w 11 7))])) s.
Proof. exact (OpsA1.ops_AdcRegisterA1 w s). Qed.
Print Assumptions C06_ops_AdcRegisterA1.

Theorem C06_ops_AdrA2 w s :
  0 <= w < 2 ^ 32 ->
  regs13 [bits w 15 12] = true ->
  fb_out (AdrA2_from_bitarray w) s = Ok (Some (code_Adr, [w; 0; bits w 15 12; ARMExpandImm (bits w 11 0)])) s.
Proof. exact (OpsA1.ops_AdrA2 w s). Qed.
Print Assumptions C06_ops_AdrA2.

Theorem C06_ops_BicImmediateA1 w s :
  0 <= w < 2 ^ 32 ->
  regs13 [bits w 19 16; bits w 15 12] = true ->
  fb_out (BicImmediateA1_from_bitarray w) s = Ok (Some (code_BicImmediate, [w; bit w 20; bits w 15 12; bits w 19 16; ARMExpandImm (bits w 11 0); snd (ARMExpandImm_C (bits w 11 0) (cflag s))])) s.
Proof. exact (OpsA1.ops_BicImmediateA1 w s). Qed.
Print Assumptions C06_ops_BicImmediateA1.

Theorem C06_ops_CdpCdp2A2 w s :
  0 <= w < 2 ^ 32 ->
  pre_cp_ok w = true ->
  fb_out (CdpCdp2A2_from_bitarray w) s = Ok (Some (code_CdpCdp2, [w; bits w 11 8])) s.
Proof. exact (OpsA1.ops_CdpCdp2A2 w s). Qed.
Print Assumptions C06_ops_CdpCdp2A2.

Theorem C06_ops_CmpRegisterShiftedRegisterA1 w s :
  0 <= w < 2 ^ 32 ->
  regs13 [bits w 19 16; bits w 11 8; bits w 3 0] = true ->
  fb_out (CmpRegisterShiftedRegisterA1_from_bitarray w) s = Ok (Some (code_CmpRegisterShiftedRegister, [w; bits w 3 0; bits w 11 8; bits w 19 16; DecodeRegShift (bits w 6 5)])) s.
Proof. exact (OpsA1.ops_CmpRegisterShiftedRegisterA1 w s). Qed.
Print Assumptions C06_ops_CmpRegisterShiftedRegisterA1.

Theorem C06_ops_LdcLdc2ImmediateA2 w s :
  0 <= w < 2 ^ 32 ->
  regs13 [bits w 19 16] = true ->
  pre_ldc w = true ->
  fb_out (LdcLdc2ImmediateA2_from_bitarray w) s = Ok (Some (code_LdcLdc2Immediate, [w; bits w 11 8; bits w 19 16; bit w 23; bits w 7 0 * 4; bit w 24; bit w 21])) s.
Proof. exact (OpsA1.ops_LdcLdc2ImmediateA2 w s). Qed.
Print Assumptions C06_ops_LdcLdc2ImmediateA2.

Theorem C06_ops_LdmibA1 (cfg : config) w s :
  0 <= w < 2 ^ 32 ->
  regs13 [bits w 19 16] = true ->
  pre_reglist w = true ->
  fb_out (LdmibA1_from_bitarray cfg w) s = Ok (Some (code_Ldmib, [w; bit w 21; bits w 15 0; bits w 19 16])) s.
Proof. exact (OpsA1.ops_LdmibA1 cfg w s). Qed.
Print Assumptions C06_ops_LdmibA1.

Theorem C06_ops_LdrbtA2 (cfg : config) w s :
  0 <= w < 2 ^ 32 ->
  regs13 [bits w 19 16; bits w 15 12; bits w 3 0] = true ->
  fb_out (LdrbtA2_from_bitarray cfg w) s = Ok (Some (code_Ldrbt, [w; bit w 23; 1; 1; bits w 15 12; bits w 19 16; bits w 3 0; fst (DecodeImmShift (bits w 6 5) (bits w 11 7)); snd (DecodeImmShift (bits w 6 5) (bits w 11 7)); 0])) s.
Proof. exact (OpsA1.ops_LdrbtA2 cfg w s). Qed.
Print Assumptions C06_ops_LdrbtA2.

Theorem C06_ops_LdrhImmediateArmA1 w s :
  0 <= w < 2 ^ 32 ->
  regs13 [bits w 19 16; bits w 15 12] = true ->
  fb_out (LdrhImmediateArmA1_from_bitarray w) s = Ok (Some (code_LdrhImmediateArm, [w; bit w 23; if (bit w 24 =? 0) || (bit w 21 =? 1) then 1 else 0; bit w 24; bits w 11 8 * 16 + bits w 3 0; bits w 15 12; bits w 19 16])) s.
Proof. exact (OpsA1.ops_LdrhImmediateArmA1 w s). Qed.
Print Assumptions C06_ops_LdrhImmediateArmA1.

Theorem C06_ops_LdrsbtA1 w s :
  0 <= w < 2 ^ 32 ->
  regs13 [bits w 19 16; bits w 15 12] = true ->
  fb_out (LdrsbtA1_from_bitarray w) s = Ok (Some (code_Ldrsbt, [w; bit w 23; 0; 1; bits w 15 12; bits w 19 16; 0; bits w 11 8 * 16 + bits w 3 0])) s.
Proof. exact (OpsA1.ops_LdrsbtA1 w s). Qed.
Print Assumptions C06_ops_LdrsbtA1.

Theorem C06_ops_LdrtA2 (cfg : config) w s :
  0 <= w < 2 ^ 32 ->
  regs13 [bits w 19 16; bits w 15 12; bits w 3 0] = true ->
  fb_out (LdrtA2_from_bitarray cfg w) s = Ok (Some (code_Ldrt, [w; bit w 23; 1; 1; bits w 15 12; bits w 19 16; bits w 3 0; fst (DecodeImmShift (bits w 6 5) (bits w 11 7)); snd (DecodeImmShift (bits w 6 5) (bits w 11 7)); 0])) s.
Proof. exact (OpsA1.ops_LdrtA2 cfg w s). Qed.
Print Assumptions C06_ops_LdrtA2.

Theorem C06_ops_McrrMcrr2A2 w s :
  0 <= w < 2 ^ 32 ->
  regs13 [bits w 19 16; bits w 15 12] = true ->
  pre_cp_ok w = true ->
  fb_out (McrrMcrr2A2_from_bitarray w) s = Ok (Some (code_McrrMcrr2, [w; bits w 11 8; bits w 15 12; bits w 19 16])) s.
Proof. exact (OpsA1.ops_McrrMcrr2A2 w s). Qed.
Print Assumptions C06_ops_McrrMcrr2A2.

Theorem C06_ops_MrcMrc2A2 w s :
  0 <= w < 2 ^ 32 ->
  regs13 [bits w 15 12] = true ->
  pre_cp_ok w = true ->
  fb_out (MrcMrc2A2_from_bitarray w) s = Ok (Some (code_MrcMrc2, [w; bits w 11 8; bits w 15 12])) s.
Proof. exact (OpsA1.ops_MrcMrc2A2 w s). Qed.
Print Assumptions C06_ops_MrcMrc2A2.

Theorem C06_ops_MsrRegisterSystemA1 w s :
  0 <= w < 2 ^ 32 ->
  regs13 [bits w 3 0] = true ->
  pre_msr_sys w = true ->
  fb_out (MsrRegisterSystemA1_from_bitarray w) s = Ok (Some (code_MsrRegisterSystem, [w; bit w 22; bits w 19 16; bits w 3 0])) s.
Proof. exact (OpsA1.ops_MsrRegisterSystemA1 w s). Qed.
Print Assumptions C06_ops_MsrRegisterSystemA1.

Theorem C06_ops_OrrRegisterShiftedRegisterA1 w s :
  0 <= w < 2 ^ 32 ->
  regs13 [bits w 19 16; bits w 15 12; bits w 11 8; bits w 3 0] = true ->
  fb_out (OrrRegisterShiftedRegisterA1_from_bitarray w) s = Ok (Some (code_OrrRegisterShiftedRegister, [w; bit w 20; bits w 3 0; bits w 11 8; bits w 15 12; bits w 19 16; DecodeRegShift (bits w 6 5)])) s.
Proof. exact (OpsA1.ops_OrrRegisterShiftedRegisterA1 w s). Qed.
Print Assumptions C06_ops_OrrRegisterShiftedRegisterA1.

Theorem C06_ops_PushA2 w s :
  0 <= w < 2 ^ 32 ->
  regs13 [bits w 15 12] = true ->
  in_it s = false ->
  fb_out (PushA2_from_bitarray w) s = Ok (Some (code_Push, [w; 2 ^ bits w 15 12; 1])) s.
Proof. exact (OpsA1.ops_PushA2 w s). Qed.
Print Assumptions C06_ops_PushA2.

Theorem C06_ops_Qsub16A1 w s :
  0 <= w < 2 ^ 32 ->
  regs13 [bits w 19 16; bits w 15 12; bits w 3 0] = true ->
  fb_out (Qsub16A1_from_bitarray w) s = Ok (Some (code_Qsub16, [w; bits w 3 0; bits w 15 12; bits w 19 16])) s.
Proof. exact (OpsA1.ops_Qsub16A1 w s). Qed.
Print Assumptions C06_ops_Qsub16A1.

Theorem C06_ops_RorImmediateA1 w s :
  0 <= w < 2 ^ 32 ->
  regs13 [bits w 15 12; bits w 3 0] = true ->
  fb_out (RorImmediateA1_from_bitarray w) s = Ok (Some (code_RorImmediate, [w; bit w 20; bits w 3 0; bits w 15 12; snd (DecodeImmShift 3 (bits w 11 7))])) s.
Proof. exact (OpsA1.ops_RorImmediateA1 w s). Qed.
Print Assumptions C06_ops_RorImmediateA1.

Theorem C06_ops_RscRegisterShiftedRegisterA1 w s :
  0 <= w < 2 ^ 32 ->
  regs13 [bits w 19 16; bits w 15 12; bits w 11 8; bits w 3 0] = true ->
  fb_out (RscRegisterShiftedRegisterA1_from_bitarray w) s = Ok (Some (code_RscRegisterShiftedRegister, [w; bit w 20; bits w 3 0; bits w 11 8; bits w 15 12; bits w 19 16; DecodeRegShift (bits w 6 5)])) s.
Proof. exact (OpsA1.ops_RscRegisterShiftedRegisterA1 w s). Qed.
Print Assumptions C06_ops_RscRegisterShiftedRegisterA1.

Theorem C06_ops_SdivA1 w s :
  0 <= w < 2 ^ 32 ->
  regs13 [bits w 19 16; bits w 11 8; bits w 3 0] = true ->
  fb_out (SdivA1_from_bitarray w) s = Ok (Some (code_Sdiv, [w; bits w 11 8; bits w 19 16; bits w 3 0])) s.
Proof. exact (OpsA1.ops_SdivA1 w s). Qed.
Print Assumptions C06_ops_SdivA1.

Theorem C06_ops_Shsub16A1 w s :
  0 <= w < 2 ^ 32 ->
  regs13 [bits w 19 16; bits w 15 12; bits w 3 0] = true ->
  fb_out (Shsub16A1_from_bitarray w) s = Ok (Some (code_Shsub16, [w; bits w 3 0; bits w 15 12; bits w 19 16])) s.
Proof. exact (OpsA1.ops_Shsub16A1 w s). Qed.
Print Assumptions C06_ops_Shsub16A1.

Theorem C06_ops_SmlawA1 w s :
  0 <= w < 2 ^ 32 ->
  regs13 [bits w 19 16; bits w 15 12; bits w 11 8; bits w 3 0] = true ->
  fb_out (SmlawA1_from_bitarray w) s = Ok (Some (code_Smlaw, [w; bit w 6; bits w 11 8; bits w 15 12; bits w 19 16; bits w 3 0])) s.
Proof. exact (OpsA1.ops_SmlawA1 w s). Qed.
Print Assumptions C06_ops_SmlawA1.

Theorem C06_ops_SmullA1 (cfg : config) w s :
  0 <= w < 2 ^ 32 ->
  regs13 [bits w 19 16; bits w 15 12; bits w 11 8; bits w 3 0] = true ->
  fb_out (SmullA1_from_bitarray cfg w) s = Ok (Some (code_Smull, [w; bit w 20; bits w 11 8; bits w 19 16; bits w 15 12; bits w 3 0])) s.
Proof. exact (OpsA1.ops_SmullA1 cfg w s). Qed.
Print Assumptions C06_ops_SmullA1.

Theorem C06_ops_Ssub8A1 w s :
  0 <= w < 2 ^ 32 ->
  regs13 [bits w 19 16; bits w 15 12; bits w 3 0] = true ->
  fb_out (Ssub8A1_from_bitarray w) s = Ok (Some (code_Ssub8, [w; bits w 3 0; bits w 15 12; bits w 19 16])) s.
Proof. exact (OpsA1.ops_Ssub8A1 w s). Qed.
Print Assumptions C06_ops_Ssub8A1.

Theorem C06_ops_StrImmediateArmA1 w s :
  0 <= w < 2 ^ 32 ->
  regs13 [bits w 19 16; bits w 15 12] = true ->
  fb_out (StrImmediateArmA1_from_bitarray w) s = Ok (Some (code_StrImmediateArm, [w; bit w 23; if (bit w 24 =? 0) || (bit w 21 =? 1) then 1 else 0; bit w 24; bits w 15 12; bits w 19 16; bits w 11 0])) s.
Proof. exact (OpsA1.ops_StrImmediateArmA1 w s). Qed.
Print Assumptions C06_ops_StrImmediateArmA1.

Theorem C06_ops_StrexA1 w s :
  0 <= w < 2 ^ 32 ->
  regs13 [bits w 19 16; bits w 15 12; bits w 3 0] = true ->
  fb_out (StrexA1_from_bitarray w) s = Ok (Some (code_Strex, [w; 0; bits w 3 0; bits w 15 12; bits w 19 16])) s.
Proof. exact (OpsA1.ops_StrexA1 w s). Qed.
Print Assumptions C06_ops_StrexA1.

Theorem C06_ops_StrtA1 w s :
  0 <= w < 2 ^ 32 ->
  regs13 [bits w 19 16; bits w 15 12] = true ->
  fb_out (StrtA1_from_bitarray w) s = Ok (Some (code_Strt, [w; bit w 23; 0; 1; bits w 15 12; bits w 19 16; 0; 1; 0; bits w 11 0])) s.
Proof. exact (OpsA1.ops_StrtA1 w s). Qed.
Print Assumptions C06_ops_StrtA1.

Theorem C06_ops_SubsPcLrArmA2 w s :
  0 <= w < 2 ^ 32 ->
  regs13 [bits w 19 16; bits w 3 0] = true ->
  fb_out (SubsPcLrArmA2_from_bitarray w) s = Ok (Some (code_SubsPcLrArm, [w; 1; bits w 19 16; bits w 24 21; bits w 3 0; fst (DecodeImmShift (bits w 6 5) (bits w 11 7)); snd (DecodeImmShift (bits w 6 5) (bits w 11 7)); 0])) s.
Proof. exact (OpsA1.ops_SubsPcLrArmA2 w s). Qed.
Print Assumptions C06_ops_SubsPcLrArmA2.

Theorem C06_ops_TeqImmediateA1 w s :
  0 <= w < 2 ^ 32 ->
  regs13 [bits w 19 16] = true ->
  fb_out (TeqImmediateA1_from_bitarray w) s = Ok (Some (code_TeqImmediate, [w; bits w 19 16; ARMExpandImm (bits w 11 0); snd (ARMExpandImm_C (bits w 11 0) (cflag s))])) s.
Proof. exact (OpsA1.ops_TeqImmediateA1 w s). Qed.
Print Assumptions C06_ops_TeqImmediateA1.

Theorem C06_ops_UasxA1 w s :
  0 <= w < 2 ^ 32 ->
  regs13 [bits w 19 16; bits w 15 12; bits w 3 0] = true ->
  fb_out (UasxA1_from_bitarray w) s = Ok (Some (code_Uasx, [w; bits w 3 0; bits w 15 12; bits w 19 16])) s.
Proof. exact (OpsA1.ops_UasxA1 w s). Qed.
Print Assumptions C06_ops_UasxA1.

Theorem C06_ops_Uhsub16A1 w s :
  0 <= w < 2 ^ 32 ->
  regs13 [bits w 19 16; bits w 15 12; bits w 3 0] = true ->
  fb_out (Uhsub16A1_from_bitarray w) s = Ok (Some (code_Uhsub16, [w; bits w 3 0; bits w 15 12; bits w 19 16])) s.
Proof. exact (OpsA1.ops_Uhsub16A1 w s). Qed.
Print Assumptions C06_ops_Uhsub16A1.

Theorem C06_ops_UqsaxA1 w s :
  0 <= w < 2 ^ 32 ->
  regs13 [bits w 19 16; bits w 15 12; bits w 3 0] = true ->
  fb_out (UqsaxA1_from_bitarray w) s = Ok (Some (code_Uqsax, [w; bits w 3 0; bits w 15 12; bits w 19 16])) s.
Proof. exact (OpsA1.ops_UqsaxA1 w s). Qed.
Print Assumptions C06_ops_UqsaxA1.

Theorem C06_ops_Usub16A1 w s :
  0 <= w < 2 ^ 32 ->
  regs13 [bits w 19 16; bits w 15 12; bits w 3 0] = true ->
  fb_out (Usub16A1_from_bitarray w) s = Ok (Some (code_Usub16, [w; bits w 3 0; bits w 15 12; bits w 19 16])) s.
Proof. exact (OpsA1.ops_Usub16A1 w s). Qed.
Print Assumptions C06_ops_Usub16A1.

Theorem C06_ops_WfeA1 w s :
  0 <= w < 2 ^ 32 ->
  in_it s = false ->
  fb_out (WfeA1_from_bitarray w) s = Ok (Some (code_Wfe, [w])) s.
Proof. exact (OpsA1.ops_WfeA1 w s). Qed.
Print Assumptions C06_ops_WfeA1.
