src='''
Theorem and_imm_t1_closed cfg s :
  flat cfg s -> ictx cfg s -> iset_of s = 1 -> pc_of s mod 2 = 0 ->
  let w := fetched_t32 s in let s1 := after_fetch_t32 s in
  is_dp_mi_t32 0 0 0 0 w -> cond_holds s1 ->
  let d := bits w 11 8 in let n := bits w 19 16 in let imm32 := ThumbExpandImm (imm12t w) in
  let c := snd (ThumbExpandImm_C (imm12t w) (cflag s1)) in
  let op := (code_AndImmediate, [w; bit w 20; bits w 11 8; bits w 19 16; ThumbExpandImm (imm12t w); snd (ThumbExpandImm_C (imm12t w) (cflag s1))]) in
  exists s2,
    dp_sem cfg AND (bit w 20) (Some d) n (Op2Imm imm32 c) (begin_instr s1 op) = Ok tt s2 /\\
    ArmV6_emulate_cycle cfg s = Ok tt (AdvancePC (it_step_after s1 s2)) /\\
    pc_of (AdvancePC (it_step_after s1 s2)) = add32 (pc_of s) 4.
Proof.
  intros Hflat Hctx Hi Hal w s1 Hcube Hcond d n imm32 c op.
  assert (Hhigh : 29 <= bits (fetched_t16 s) 15 11).
  { destruct Hcube as (H31 & H30 & H29 & H28 & H27 & _).
    pose proof Hflat as (_ & _ & _ & Hh).
    pose proof (hub_read_range (mem s) ((pc_of s + 2) mod 2 ^ 32) 2 Hh ltac:(lia)) as R2. change (2 ^ (8 * 2)) with (2 ^ 16) in R2.
    unfold w, fetched_t32 in H31, H30, H29, H28, H27. fold (fetched_t16 s) in H31, H30, H29, H28, H27.
    change 31 with (16 + 15) in H31. change 30 with (16 + 14) in H30. change 29 with (16 + 13) in H29.
    change 28 with (16 + 12) in H28. change 27 with (16 + 11) in H27.
    rewrite bit_high_half in H31, H30, H29, H28, H27 by (try lia; exact R2).
    set (hw := fetched_t16 s) in *.
    pose proof (OpTac.bits_top' hw 15 11 14 ltac:(lia) ltac:(lia)) as T1. change (2 ^ (15 - 11)) with 16 in T1.
    pose proof (OpTac.bits_top' hw 14 11 13 ltac:(lia) ltac:(lia)) as U1. change (2 ^ (14 - 11)) with 8 in U1.
    pose proof (OpTac.bits_top' hw 13 11 12 ltac:(lia) ltac:(lia)) as V1. change (2 ^ (13 - 11)) with 4 in V1.
    pose proof (OpTac.bits_top' hw 12 11 11 ltac:(lia) ltac:(lia)) as W1. change (2 ^ (12 - 11)) with 2 in W1.
    rewrite <- (OpTac.bit_bits_eq hw 11) in W1 by lia. lia. }
  destruct (andImmediateT1_step cfg s w s1 (fetch_thumb32_flat cfg s Hflat Hi Hal Hhigh) (fetched_t32_range cfg s Hflat) Hcube Hi
              ltac:(reflexivity) (ictx_after_fetch_t32 cfg s Hctx) Hcond) as (s2 & A & B & C).
  exists s2. split; [exact A|]. split; [exact B|]. exact C.
Qed.
'''
p='/tmp/coqdev/theories/Proofs/StepClosed.v'
s=open(p).read()
s=s.replace("  Proofs.StepFetch Proofs.OpTac.","  Proofs.StepFetch Proofs.OpTac Proofs.StepInstancesThumb2.")
s+=src
open(p,'w').write(s)
