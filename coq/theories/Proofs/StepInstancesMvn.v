(* Proofs/StepInstancesMvn.v — GENERATED text (one block per encoding, same script): MVN{S}<c> Rd, Rm{, <shift>} and
   MVN{S}<c> Rd, Rm, <type> Rs (ARM A1), and the ARM shifts by register LSL, LSR, ASR, ROR{S}<c> Rd, Rn, Rm
   (A1: 0001 101S (0000) Rd Rm 0 type 1 Rn), end to end, for every word of the encoding (registers in r0-r12 and pairwise different). *)
Set Default Timeout 240.
From Coq Require Import ZArith List Bool Lia ZifyBool.
From ArmV Require Import Lib.PyZ Lib.Monad Lib.Machine Spec.Pseudocode Spec.Arch Spec.MachineView Spec.Branches Spec.StepFrame
  Spec.OperandSpec Spec.DPSem
  Proofs.SpecFacts Proofs.StateLemmas Proofs.CondProofs Proofs.GuardProofs Proofs.BankProofs Proofs.MachineOps Proofs.DPLemmas
  Proofs.DPClasses0 Proofs.DPClasses1 Proofs.DPClasses2 Proofs.DPClasses3 Proofs.DPClasses4 Proofs.DPClasses5 Proofs.DPClasses6 Proofs.DPClasses7
  Proofs.StepProofs Proofs.StepDP Proofs.DPRange Proofs.StepDPReg Proofs.StepInstances Proofs.StepInstancesArmRsr Proofs.OpTac
  Proofs.OpsA0 Proofs.OpsA1 Proofs.OpsA2 Proofs.OpsA3 Proofs.OpsA4 Proofs.OpsA5 Proofs.OpsA6 Proofs.OpsA7.
From Gen Require Import enums bits_ops shift regviews records hubm opsyn core exec conc decoders step.
Import ListNotations.
Open Scope Z_scope.
Ltac Zify.zify_post_hook ::= Z.to_euclidean_division_equations.

Definition is_mvn_reg_a1 (w : Z) : Prop :=
  bits w 31 28 <> 15 /\ bit w 27 = 0 /\ bit w 26 = 0 /\ bit w 25 = 0 /\ bit w 24 = 1 /\ bit w 23 = 1 /\ bit w 22 = 1 /\ bit w 21 = 1
  /\ bit w 4 = 0 /\ regs13 [bits w 15 12; bits w 3 0] = true.
Definition is_mvn_rsr_a1 (w : Z) : Prop :=
  bits w 31 28 <> 15 /\ bit w 27 = 0 /\ bit w 26 = 0 /\ bit w 25 = 0 /\ bit w 24 = 1 /\ bit w 23 = 1 /\ bit w 22 = 1 /\ bit w 21 = 1
  /\ bit w 7 = 0 /\ bit w 4 = 1 /\ regs13 [bits w 15 12; bits w 11 8; bits w 3 0] = true.
Definition is_shift_reg_a1 (ty w : Z) : Prop :=
  bits w 31 28 <> 15 /\ bit w 27 = 0 /\ bit w 26 = 0 /\ bit w 25 = 0 /\ bit w 24 = 1 /\ bit w 23 = 1 /\ bit w 22 = 0 /\ bit w 21 = 1
  /\ bit w 7 = 0 /\ bit w 4 = 1 /\ bits w 6 5 = ty /\ regs13 [bits w 15 12; bits w 11 8; bits w 3 0] = true.

(* ================= MvnRegisterA1 ================= *)
Lemma decode_MvnRegisterA1 w s : 0 <= w < 2 ^ 32 -> is_mvn_reg_a1 w -> iset_of s = 0 ->
  ArmV6_decode_instruction w s = Ok (Some enc_MvnRegisterA1) s.
Proof.
  intros Hw (Hc & H27 & H26 & H25 & H24 & H23 & H22 & H21 & H4 & Hr) Hi. split_regs.
  unfold ArmV6_decode_instruction, op_decode_instruction.
  rewrite !run_bind, current_instr_set_spec. cbv beta iota. rewrite Hi. unfold InstrSet_ARM. cbn [Z.eqb]. cbv iota.
  rewrite run_bind.
  assert (D : dec_arm_instruction_set w = Val (Some enc_MvnRegisterA1)).
  { dec_step dec_arm_instruction_set. pose_expand w 27 25. pose_expand w 27 26. ops_if. cbn [ebind].
    dec_step dec_arm_data_processing_and_miscellaneous_instructions. pose_expand w 24 23. ops_if. cbn [ebind].
    dec_step dec_arm_data_processing_register. pose_expand w 24 21. ops_if. reflexivity. }
  rewrite D. reflexivity.
Qed.
Lemma from_bitarray_MvnRegisterA1 cfg w s : 0 <= w < 2 ^ 32 -> is_mvn_reg_a1 w ->
  from_bitarray_dispatch cfg enc_MvnRegisterA1 w s = Ok (Some (code_MvnRegister, [w; bit w 20; bits w 3 0; bits w 15 12; fst (DecodeImmShift (bits w 6 5) (bits w 11 7)); snd (DecodeImmShift (bits w 6 5) (bits w 11 7))])) s.
Proof.
  intros Hw (_ & _ & _ & _ & _ & _ & _ & _ & _ & Hr).
  pose proof (ops_MvnRegisterA1 w s Hw Hr) as H. unfold fb_out, fb_plain, fb_opt, fb_res, fb_res_opt, fb_m, fb_m_opt in H.
  unfold from_bitarray_dispatch, enc_MvnRegisterA1. cbv iota. unfold bind, ret, lift in *.
  repeat match goal with
  | H : match ?x with _ => _ end = _ |- context[?x] => destruct x; try discriminate H
  end.
  inversion H. first [reflexivity | match goal with E : _ = Some _ |- _ => rewrite E end; reflexivity].
Qed.
Theorem mvnRegisterA1_step cfg s w s1 :
  ArmV6_fetch_instruction cfg s = Ok w s1 ->
  0 <= w < 2 ^ 32 -> is_mvn_reg_a1 w -> iset_of s1 = 0 -> ictx cfg s1 -> cond_holds s1 ->
  let d := bits w 15 12 in let m := bits w 3 0 in
  let sh := DecodeImmShift (bits w 6 5) (bits w 11 7) in
  let op := (code_MvnRegister, [w; bit w 20; m; d; fst sh; snd sh]) in
  exists s2,
    dp_sem cfg MVN (bit w 20) (Some d) 0 (Op2Reg m (fst sh) (snd sh)) (begin_instr s1 op) = Ok tt s2 /\
    ArmV6_emulate_cycle cfg s = Ok tt (AdvancePC (it_step_after s1 s2)) /\
    pc_of (AdvancePC (it_step_after s1 s2)) = add32 (pc_of s1) (opcode_len s1 / 8).
Proof.
  intros Hf Hw Hcube Hi Hctx Hcond. pose_all_ranges. intros d m sh op.
  pose proof Hcube as (_ & _ & _ & _ & _ & _ & _ & _ & _ & Hr). split_regs.
  assert (Qd : 0 <= d <= 14) by (unfold d; lia). assert (Qm : 0 <= m <= 15) by (unfold m; lia).
  assert (Hsh : valid_shift (fst sh) (snd sh)) by (unfold sh; apply DecodeImmShift_valid; lia).
  apply (dp_step cfg s w s1 enc_MvnRegisterA1 op MVN (bit w 20) d 0 (Op2Reg m (fst sh) (snd sh)) Hf); try lia; try assumption.
  - apply decode_MvnRegisterA1; assumption.
  - apply from_bitarray_MvnRegisterA1; assumption.
  - change (execute_dispatch cfg op (begin_instr s1 op)) with (MvnRegister_execute cfg w (bit w 20) m d (fst sh) (snd sh) (begin_instr s1 op)).
    apply MvnRegister_sem; try lia; try exact Hsh; [apply ictx_begin; exact Hctx|apply cond_holds_begin; exact Hcond].
  - split; assumption.
Qed.

(* ================= MvnRegisterShiftedRegisterA1 ================= *)
Lemma decode_MvnRegisterShiftedRegisterA1 w s : 0 <= w < 2 ^ 32 -> is_mvn_rsr_a1 w -> iset_of s = 0 ->
  ArmV6_decode_instruction w s = Ok (Some enc_MvnRegisterShiftedRegisterA1) s.
Proof.
  intros Hw (Hc & H27 & H26 & H25 & H24 & H23 & H22 & H21 & H7 & H4 & Hr) Hi. split_regs.
  unfold ArmV6_decode_instruction, op_decode_instruction.
  rewrite !run_bind, current_instr_set_spec. cbv beta iota. rewrite Hi. unfold InstrSet_ARM. cbn [Z.eqb]. cbv iota.
  rewrite run_bind.
  assert (D : dec_arm_instruction_set w = Val (Some enc_MvnRegisterShiftedRegisterA1)).
  { dec_step dec_arm_instruction_set. pose_expand w 27 25. pose_expand w 27 26. ops_if. cbn [ebind].
    dec_step dec_arm_data_processing_and_miscellaneous_instructions. pose_expand w 24 23. ops_if. cbn [ebind].
    dec_step dec_arm_data_processing_register_shifted_register. pose_expand w 24 21. ops_if. reflexivity. }
  rewrite D. reflexivity.
Qed.
Lemma from_bitarray_MvnRegisterShiftedRegisterA1 cfg w s : 0 <= w < 2 ^ 32 -> is_mvn_rsr_a1 w ->
  from_bitarray_dispatch cfg enc_MvnRegisterShiftedRegisterA1 w s = Ok (Some (code_MvnRegisterShiftedRegister, [w; bit w 20; bits w 3 0; bits w 11 8; bits w 15 12; DecodeRegShift (bits w 6 5)])) s.
Proof.
  intros Hw (_ & _ & _ & _ & _ & _ & _ & _ & _ & _ & Hr).
  pose proof (ops_MvnRegisterShiftedRegisterA1 w s Hw Hr) as H. unfold fb_out, fb_plain, fb_opt, fb_res, fb_res_opt, fb_m, fb_m_opt in H.
  unfold from_bitarray_dispatch, enc_MvnRegisterShiftedRegisterA1. cbv iota. unfold bind, ret, lift in *.
  repeat match goal with
  | H : match ?x with _ => _ end = _ |- context[?x] => destruct x; try discriminate H
  end.
  inversion H. first [reflexivity | match goal with E : _ = Some _ |- _ => rewrite E end; reflexivity].
Qed.
Theorem mvnRegisterShiftedRegisterA1_step cfg s w s1 :
  ArmV6_fetch_instruction cfg s = Ok w s1 ->
  0 <= w < 2 ^ 32 -> is_mvn_rsr_a1 w -> iset_of s1 = 0 -> ictx cfg s1 -> cond_holds s1 ->
  let d := bits w 15 12 in let m := bits w 3 0 in let rs := bits w 11 8 in
  let st := DecodeRegShift (bits w 6 5) in
  let op := (code_MvnRegisterShiftedRegister, [w; bit w 20; m; rs; d; st]) in
  exists s2,
    dp_sem cfg MVN (bit w 20) (Some d) 0 (Op2RegReg m st rs) (begin_instr s1 op) = Ok tt s2 /\
    ArmV6_emulate_cycle cfg s = Ok tt (AdvancePC (it_step_after s1 s2)) /\
    pc_of (AdvancePC (it_step_after s1 s2)) = add32 (pc_of s1) (opcode_len s1 / 8).
Proof.
  intros Hf Hw Hcube Hi Hctx Hcond. pose_all_ranges. intros d m rs st op.
  pose proof Hcube as (_ & _ & _ & _ & _ & _ & _ & _ & _ & _ & Hr). split_regs.
  assert (Qd : 0 <= d <= 14) by (unfold d; lia).
  assert (Qm : 0 <= m <= 15) by (unfold m; lia). assert (Qs : 0 <= rs <= 15) by (unfold rs; lia).
  assert (Hk : st = SRType_LSL \/ st = SRType_LSR \/ st = SRType_ASR \/ st = SRType_ROR) by (unfold st; apply DecodeRegShift_kind; lia).
  apply (dp_step cfg s w s1 enc_MvnRegisterShiftedRegisterA1 op MVN (bit w 20) d 0 (Op2RegReg m st rs) Hf); try lia; try assumption.
  - apply decode_MvnRegisterShiftedRegisterA1; assumption.
  - apply from_bitarray_MvnRegisterShiftedRegisterA1; assumption.
  - change (execute_dispatch cfg op (begin_instr s1 op)) with (MvnRegisterShiftedRegister_execute cfg w (bit w 20) m rs d st (begin_instr s1 op)).
    apply MvnRegisterShiftedRegister_sem; try lia; try exact Hk; [apply ictx_begin; exact Hctx|apply cond_holds_begin; exact Hcond].
  - cbn [op2_valid]. split; [lia|]. split; [lia|exact Hk].
Qed.

(* ================= LslRegisterA1 ================= *)
Lemma decode_LslRegisterA1 w s : 0 <= w < 2 ^ 32 -> is_shift_reg_a1 0 w -> iset_of s = 0 ->
  ArmV6_decode_instruction w s = Ok (Some enc_LslRegisterA1) s.
Proof.
  intros Hw (Hc & H27 & H26 & H25 & H24 & H23 & H22 & H21 & H7 & H4 & Hty & Hr) Hi. split_regs.
  unfold ArmV6_decode_instruction, op_decode_instruction.
  rewrite !run_bind, current_instr_set_spec. cbv beta iota. rewrite Hi. unfold InstrSet_ARM. cbn [Z.eqb]. cbv iota.
  rewrite run_bind.
  assert (D : dec_arm_instruction_set w = Val (Some enc_LslRegisterA1)).
  { dec_step dec_arm_instruction_set. pose_expand w 27 25. pose_expand w 27 26. ops_if. cbn [ebind].
    dec_step dec_arm_data_processing_and_miscellaneous_instructions. pose_expand w 24 23. ops_if. cbn [ebind].
    dec_step dec_arm_data_processing_register_shifted_register. pose_expand w 24 21. ops_if. reflexivity. }
  rewrite D. reflexivity.
Qed.
Lemma from_bitarray_LslRegisterA1 cfg w s : 0 <= w < 2 ^ 32 -> is_shift_reg_a1 0 w ->
  from_bitarray_dispatch cfg enc_LslRegisterA1 w s = Ok (Some (code_LslRegister, [w; bit w 20; bits w 11 8; bits w 15 12; bits w 3 0])) s.
Proof.
  intros Hw (_ & _ & _ & _ & _ & _ & _ & _ & _ & _ & _ & Hr).
  pose proof (ops_LslRegisterA1 w s Hw Hr) as H. unfold fb_out, fb_plain, fb_opt, fb_res, fb_res_opt, fb_m, fb_m_opt in H.
  unfold from_bitarray_dispatch, enc_LslRegisterA1. cbv iota. unfold bind, ret, lift in *.
  repeat match goal with
  | H : match ?x with _ => _ end = _ |- context[?x] => destruct x; try discriminate H
  end.
  inversion H. first [reflexivity | match goal with E : _ = Some _ |- _ => rewrite E end; reflexivity].
Qed.
Theorem lslRegisterA1_step cfg s w s1 :
  ArmV6_fetch_instruction cfg s = Ok w s1 ->
  0 <= w < 2 ^ 32 -> is_shift_reg_a1 0 w -> iset_of s1 = 0 -> ictx cfg s1 -> cond_holds s1 ->
  let d := bits w 15 12 in let n := bits w 3 0 in let m := bits w 11 8 in
  let op := (code_LslRegister, [w; bit w 20; m; d; n]) in
  exists s2,
    dp_sem cfg MOV (bit w 20) (Some d) 0 (Op2RegReg n SRType_LSL m) (begin_instr s1 op) = Ok tt s2 /\
    ArmV6_emulate_cycle cfg s = Ok tt (AdvancePC (it_step_after s1 s2)) /\
    pc_of (AdvancePC (it_step_after s1 s2)) = add32 (pc_of s1) (opcode_len s1 / 8).
Proof.
  intros Hf Hw Hcube Hi Hctx Hcond. pose_all_ranges. intros d n m op.
  pose proof Hcube as (_ & _ & _ & _ & _ & _ & _ & _ & _ & _ & _ & Hr). split_regs.
  assert (Qd : 0 <= d <= 14) by (unfold d; lia).
  assert (Qm : 0 <= m <= 15) by (unfold m; lia). assert (Qn : 0 <= n <= 15) by (unfold n; lia).
  apply (dp_step cfg s w s1 enc_LslRegisterA1 op MOV (bit w 20) d 0 (Op2RegReg n SRType_LSL m) Hf); try lia; try assumption.
  - apply decode_LslRegisterA1; assumption.
  - apply from_bitarray_LslRegisterA1; assumption.
  - change (execute_dispatch cfg op (begin_instr s1 op)) with (LslRegister_execute cfg w (bit w 20) m d n (begin_instr s1 op)).
    apply LslRegister_sem; try lia; [apply ictx_begin; exact Hctx|apply cond_holds_begin; exact Hcond].
  - cbn [op2_valid]. split; [lia|]. split; [lia|]. auto.
Qed.

(* ================= LsrRegisterA1 ================= *)
Lemma decode_LsrRegisterA1 w s : 0 <= w < 2 ^ 32 -> is_shift_reg_a1 1 w -> iset_of s = 0 ->
  ArmV6_decode_instruction w s = Ok (Some enc_LsrRegisterA1) s.
Proof.
  intros Hw (Hc & H27 & H26 & H25 & H24 & H23 & H22 & H21 & H7 & H4 & Hty & Hr) Hi. split_regs.
  unfold ArmV6_decode_instruction, op_decode_instruction.
  rewrite !run_bind, current_instr_set_spec. cbv beta iota. rewrite Hi. unfold InstrSet_ARM. cbn [Z.eqb]. cbv iota.
  rewrite run_bind.
  assert (D : dec_arm_instruction_set w = Val (Some enc_LsrRegisterA1)).
  { dec_step dec_arm_instruction_set. pose_expand w 27 25. pose_expand w 27 26. ops_if. cbn [ebind].
    dec_step dec_arm_data_processing_and_miscellaneous_instructions. pose_expand w 24 23. ops_if. cbn [ebind].
    dec_step dec_arm_data_processing_register_shifted_register. pose_expand w 24 21. ops_if. reflexivity. }
  rewrite D. reflexivity.
Qed.
Lemma from_bitarray_LsrRegisterA1 cfg w s : 0 <= w < 2 ^ 32 -> is_shift_reg_a1 1 w ->
  from_bitarray_dispatch cfg enc_LsrRegisterA1 w s = Ok (Some (code_LsrRegister, [w; bit w 20; bits w 11 8; bits w 15 12; bits w 3 0])) s.
Proof.
  intros Hw (_ & _ & _ & _ & _ & _ & _ & _ & _ & _ & _ & Hr).
  pose proof (ops_LsrRegisterA1 w s Hw Hr) as H. unfold fb_out, fb_plain, fb_opt, fb_res, fb_res_opt, fb_m, fb_m_opt in H.
  unfold from_bitarray_dispatch, enc_LsrRegisterA1. cbv iota. unfold bind, ret, lift in *.
  repeat match goal with
  | H : match ?x with _ => _ end = _ |- context[?x] => destruct x; try discriminate H
  end.
  inversion H. first [reflexivity | match goal with E : _ = Some _ |- _ => rewrite E end; reflexivity].
Qed.
Theorem lsrRegisterA1_step cfg s w s1 :
  ArmV6_fetch_instruction cfg s = Ok w s1 ->
  0 <= w < 2 ^ 32 -> is_shift_reg_a1 1 w -> iset_of s1 = 0 -> ictx cfg s1 -> cond_holds s1 ->
  let d := bits w 15 12 in let n := bits w 3 0 in let m := bits w 11 8 in
  let op := (code_LsrRegister, [w; bit w 20; m; d; n]) in
  exists s2,
    dp_sem cfg MOV (bit w 20) (Some d) 0 (Op2RegReg n SRType_LSR m) (begin_instr s1 op) = Ok tt s2 /\
    ArmV6_emulate_cycle cfg s = Ok tt (AdvancePC (it_step_after s1 s2)) /\
    pc_of (AdvancePC (it_step_after s1 s2)) = add32 (pc_of s1) (opcode_len s1 / 8).
Proof.
  intros Hf Hw Hcube Hi Hctx Hcond. pose_all_ranges. intros d n m op.
  pose proof Hcube as (_ & _ & _ & _ & _ & _ & _ & _ & _ & _ & _ & Hr). split_regs.
  assert (Qd : 0 <= d <= 14) by (unfold d; lia).
  assert (Qm : 0 <= m <= 15) by (unfold m; lia). assert (Qn : 0 <= n <= 15) by (unfold n; lia).
  apply (dp_step cfg s w s1 enc_LsrRegisterA1 op MOV (bit w 20) d 0 (Op2RegReg n SRType_LSR m) Hf); try lia; try assumption.
  - apply decode_LsrRegisterA1; assumption.
  - apply from_bitarray_LsrRegisterA1; assumption.
  - change (execute_dispatch cfg op (begin_instr s1 op)) with (LsrRegister_execute cfg w (bit w 20) m d n (begin_instr s1 op)).
    apply LsrRegister_sem; try lia; [apply ictx_begin; exact Hctx|apply cond_holds_begin; exact Hcond].
  - cbn [op2_valid]. split; [lia|]. split; [lia|]. auto.
Qed.

(* ================= AsrRegisterA1 ================= *)
Lemma decode_AsrRegisterA1 w s : 0 <= w < 2 ^ 32 -> is_shift_reg_a1 2 w -> iset_of s = 0 ->
  ArmV6_decode_instruction w s = Ok (Some enc_AsrRegisterA1) s.
Proof.
  intros Hw (Hc & H27 & H26 & H25 & H24 & H23 & H22 & H21 & H7 & H4 & Hty & Hr) Hi. split_regs.
  unfold ArmV6_decode_instruction, op_decode_instruction.
  rewrite !run_bind, current_instr_set_spec. cbv beta iota. rewrite Hi. unfold InstrSet_ARM. cbn [Z.eqb]. cbv iota.
  rewrite run_bind.
  assert (D : dec_arm_instruction_set w = Val (Some enc_AsrRegisterA1)).
  { dec_step dec_arm_instruction_set. pose_expand w 27 25. pose_expand w 27 26. ops_if. cbn [ebind].
    dec_step dec_arm_data_processing_and_miscellaneous_instructions. pose_expand w 24 23. ops_if. cbn [ebind].
    dec_step dec_arm_data_processing_register_shifted_register. pose_expand w 24 21. ops_if. reflexivity. }
  rewrite D. reflexivity.
Qed.
Lemma from_bitarray_AsrRegisterA1 cfg w s : 0 <= w < 2 ^ 32 -> is_shift_reg_a1 2 w ->
  from_bitarray_dispatch cfg enc_AsrRegisterA1 w s = Ok (Some (code_AsrRegister, [w; bit w 20; bits w 11 8; bits w 15 12; bits w 3 0])) s.
Proof.
  intros Hw (_ & _ & _ & _ & _ & _ & _ & _ & _ & _ & _ & Hr).
  pose proof (ops_AsrRegisterA1 w s Hw Hr) as H. unfold fb_out, fb_plain, fb_opt, fb_res, fb_res_opt, fb_m, fb_m_opt in H.
  unfold from_bitarray_dispatch, enc_AsrRegisterA1. cbv iota. unfold bind, ret, lift in *.
  repeat match goal with
  | H : match ?x with _ => _ end = _ |- context[?x] => destruct x; try discriminate H
  end.
  inversion H. first [reflexivity | match goal with E : _ = Some _ |- _ => rewrite E end; reflexivity].
Qed.
Theorem asrRegisterA1_step cfg s w s1 :
  ArmV6_fetch_instruction cfg s = Ok w s1 ->
  0 <= w < 2 ^ 32 -> is_shift_reg_a1 2 w -> iset_of s1 = 0 -> ictx cfg s1 -> cond_holds s1 ->
  let d := bits w 15 12 in let n := bits w 3 0 in let m := bits w 11 8 in
  let op := (code_AsrRegister, [w; bit w 20; m; d; n]) in
  exists s2,
    dp_sem cfg MOV (bit w 20) (Some d) 0 (Op2RegReg n SRType_ASR m) (begin_instr s1 op) = Ok tt s2 /\
    ArmV6_emulate_cycle cfg s = Ok tt (AdvancePC (it_step_after s1 s2)) /\
    pc_of (AdvancePC (it_step_after s1 s2)) = add32 (pc_of s1) (opcode_len s1 / 8).
Proof.
  intros Hf Hw Hcube Hi Hctx Hcond. pose_all_ranges. intros d n m op.
  pose proof Hcube as (_ & _ & _ & _ & _ & _ & _ & _ & _ & _ & _ & Hr). split_regs.
  assert (Qd : 0 <= d <= 14) by (unfold d; lia).
  assert (Qm : 0 <= m <= 15) by (unfold m; lia). assert (Qn : 0 <= n <= 15) by (unfold n; lia).
  apply (dp_step cfg s w s1 enc_AsrRegisterA1 op MOV (bit w 20) d 0 (Op2RegReg n SRType_ASR m) Hf); try lia; try assumption.
  - apply decode_AsrRegisterA1; assumption.
  - apply from_bitarray_AsrRegisterA1; assumption.
  - change (execute_dispatch cfg op (begin_instr s1 op)) with (AsrRegister_execute cfg w (bit w 20) m d n (begin_instr s1 op)).
    apply AsrRegister_sem; try lia; [apply ictx_begin; exact Hctx|apply cond_holds_begin; exact Hcond].
  - cbn [op2_valid]. split; [lia|]. split; [lia|]. auto.
Qed.

(* ================= RorRegisterA1 ================= *)
Lemma decode_RorRegisterA1 w s : 0 <= w < 2 ^ 32 -> is_shift_reg_a1 3 w -> iset_of s = 0 ->
  ArmV6_decode_instruction w s = Ok (Some enc_RorRegisterA1) s.
Proof.
  intros Hw (Hc & H27 & H26 & H25 & H24 & H23 & H22 & H21 & H7 & H4 & Hty & Hr) Hi. split_regs.
  unfold ArmV6_decode_instruction, op_decode_instruction.
  rewrite !run_bind, current_instr_set_spec. cbv beta iota. rewrite Hi. unfold InstrSet_ARM. cbn [Z.eqb]. cbv iota.
  rewrite run_bind.
  assert (D : dec_arm_instruction_set w = Val (Some enc_RorRegisterA1)).
  { dec_step dec_arm_instruction_set. pose_expand w 27 25. pose_expand w 27 26. ops_if. cbn [ebind].
    dec_step dec_arm_data_processing_and_miscellaneous_instructions. pose_expand w 24 23. ops_if. cbn [ebind].
    dec_step dec_arm_data_processing_register_shifted_register. pose_expand w 24 21. ops_if. reflexivity. }
  rewrite D. reflexivity.
Qed.
Lemma from_bitarray_RorRegisterA1 cfg w s : 0 <= w < 2 ^ 32 -> is_shift_reg_a1 3 w ->
  from_bitarray_dispatch cfg enc_RorRegisterA1 w s = Ok (Some (code_RorRegister, [w; bit w 20; bits w 11 8; bits w 15 12; bits w 3 0])) s.
Proof.
  intros Hw (_ & _ & _ & _ & _ & _ & _ & _ & _ & _ & _ & Hr).
  pose proof (ops_RorRegisterA1 w s Hw Hr) as H. unfold fb_out, fb_plain, fb_opt, fb_res, fb_res_opt, fb_m, fb_m_opt in H.
  unfold from_bitarray_dispatch, enc_RorRegisterA1. cbv iota. unfold bind, ret, lift in *.
  repeat match goal with
  | H : match ?x with _ => _ end = _ |- context[?x] => destruct x; try discriminate H
  end.
  inversion H. first [reflexivity | match goal with E : _ = Some _ |- _ => rewrite E end; reflexivity].
Qed.
Theorem rorRegisterA1_step cfg s w s1 :
  ArmV6_fetch_instruction cfg s = Ok w s1 ->
  0 <= w < 2 ^ 32 -> is_shift_reg_a1 3 w -> iset_of s1 = 0 -> ictx cfg s1 -> cond_holds s1 ->
  let d := bits w 15 12 in let n := bits w 3 0 in let m := bits w 11 8 in
  let op := (code_RorRegister, [w; bit w 20; m; d; n]) in
  exists s2,
    dp_sem cfg MOV (bit w 20) (Some d) 0 (Op2RegReg n SRType_ROR m) (begin_instr s1 op) = Ok tt s2 /\
    ArmV6_emulate_cycle cfg s = Ok tt (AdvancePC (it_step_after s1 s2)) /\
    pc_of (AdvancePC (it_step_after s1 s2)) = add32 (pc_of s1) (opcode_len s1 / 8).
Proof.
  intros Hf Hw Hcube Hi Hctx Hcond. pose_all_ranges. intros d n m op.
  pose proof Hcube as (_ & _ & _ & _ & _ & _ & _ & _ & _ & _ & _ & Hr). split_regs.
  assert (Qd : 0 <= d <= 14) by (unfold d; lia).
  assert (Qm : 0 <= m <= 15) by (unfold m; lia). assert (Qn : 0 <= n <= 15) by (unfold n; lia).
  apply (dp_step cfg s w s1 enc_RorRegisterA1 op MOV (bit w 20) d 0 (Op2RegReg n SRType_ROR m) Hf); try lia; try assumption.
  - apply decode_RorRegisterA1; assumption.
  - apply from_bitarray_RorRegisterA1; assumption.
  - change (execute_dispatch cfg op (begin_instr s1 op)) with (RorRegister_execute cfg w (bit w 20) m d n (begin_instr s1 op)).
    apply RorRegister_sem; try lia; [apply ictx_begin; exact Hctx|apply cond_holds_begin; exact Hcond].
  - cbn [op2_valid]. split; [lia|]. split; [lia|]. auto.
Qed.
