"""C12 — system instructions (PSR writes)."""
import copy
import common as C
import statelib
from framework import Unit

IMPORTS = 'From ArmV Require Import Spec.Arch.\nFrom Gen Require Import enums core.'
SPEC_IMPORTS = 'From ArmV Require Import Spec.Pseudocode Spec.Arch.'
MODES = [16, 17, 18, 19, 22, 23, 26, 27, 31]


def cpsr_write_cases(rng, tier):
    t = statelib.load_index(C.GEN)['tables']
    out = []
    n_cases = 400 if tier == 'quick' else 8000
    ix = {n: t['sys_names'].index(n) for n in ('cpsr', 'scr', 'sctlr', 'nsacr')}
    for ci in range(n_cases):
        cfgd = dict(statelib.DEFAULT_CFG)
        cfgd['have_security_ext'] = rng.random() < 0.8
        cfgd['have_virt_ext'] = cfgd['have_security_ext'] and rng.random() < 0.4
        st = statelib.reset_state(t, cfg=cfgd, mem=[])
        mode = rng.choice(MODES)
        if mode == 22 and not cfgd['have_security_ext']:
            mode = 19
        if mode == 26 and not cfgd['have_virt_ext']:
            mode = 16
        cpsr = (rng.getrandbits(27) << 5) | mode
        scr = rng.getrandbits(10)
        sctlr = (rng.getrandbits(1) << 27) | 0x00C50078
        nsacr = rng.getrandbits(1) << 19
        st['sys'][ix['cpsr']] = cpsr
        st['sys'][ix['scr']] = scr
        st['sys'][ix['sctlr']] = sctlr
        st['sys'][ix['nsacr']] = nsacr
        r = rng.random()
        value = (rng.getrandbits(27) << 5) | (rng.choice(MODES) if r < 0.8 else rng.getrandbits(5))
        mask = rng.getrandbits(4) if rng.random() < 0.7 else 0xF
        excp = rng.choice([0, 1])
        hs, hv = int(cfgd['have_security_ext']), int(cfgd['have_virt_ext'])
        ctx = f'(Build_sysctx {hs} {hv} {scr} {sctlr} {nsacr})'
        out.append({'impl': {'kind': 'method', 'state': st, 'method': 'registers.cpsr_write_by_instr',
                             'args': [value, mask, bool(excp)], 'rt': ['unit'], '_probe': 'cpsr'},
                    'model': (f'(match Registers_cpsr_write_by_instr {statelib.coq_config(cfgd, t)} {value} {mask} {excp} '
                              f'{statelib.coq_machine(st)} with Ok _ s => [0; getl (sys s) slot_cpsr] | Exc e _ => exn_enc e end)'),
                    'spec': f'(enc_pure enc_Z (CPSRWriteByInstr {ctx} {cpsr} {value} {mask} {excp}))',
                    'label': 'cpsr_write_' + ('user' if mode == 16 else 'priv'), 'nontrivial': True})
    return out


def coproc_cases(rng, tier):
    """coproc_accepted for every generic coprocessor number, CPACR/NSACR field value, mode and security state"""
    t = statelib.load_index(C.GEN)['tables']
    out = []
    ix = {n: t['sys_names'].index(n) for n in ('cpsr', 'scr', 'nsacr', 'cpacr')}
    reps = 1 if tier == 'quick' else 6
    for cp in [c for c in range(14) if c not in (10, 11)]:
        for field in range(4):
            for mode in (16, 19, 31, 22):
                for ns in (0, 1):
                    for _ in range(reps):
                        cfgd = dict(statelib.DEFAULT_CFG)
                        cfgd['have_security_ext'] = rng.random() < 0.8
                        if mode == 22 and not cfgd['have_security_ext']:
                            continue
                        st = statelib.reset_state(t, cfg=cfgd, mem=[])
                        cpsr = (rng.getrandbits(27) << 5) | mode
                        scr = (rng.getrandbits(9) << 1) | ns
                        nsacr = rng.getrandbits(14) if rng.random() < 0.7 else (rng.getrandbits(14) | (1 << cp))
                        cpacr = (rng.getrandbits(28) & ~(3 << (2 * cp))) | (field << (2 * cp))
                        st['sys'][ix['cpsr']] = cpsr
                        st['sys'][ix['scr']] = scr
                        st['sys'][ix['nsacr']] = nsacr
                        st['sys'][ix['cpacr']] = cpacr
                        instr = rng.getrandbits(32)
                        hs = int(cfgd['have_security_ext'])
                        secure = '(IsSecure (Build_sysctx %d 0 %d %d %d) %d)' % (hs, scr, st['sys'][t['sys_names'].index('sctlr')], nsacr, cpsr)
                        spec = (f'(if coproc_denied {"true" if hs else "false"} {secure} ({mode} =? 16) {nsacr} {cpacr} {cp} '
                                f'then [2; 6] else [2; 7])')
                        out.append({'impl': {'kind': 'method', 'state': st, 'method': 'coproc_accepted', 'args': [cp, instr],
                                             'rt': ['opt', ['Z']], '_only_result': True},
                                    'model': (f'(match ArmV6_coproc_accepted {statelib.coq_config(cfgd, t)} {cp} {instr} '
                                              f'{statelib.coq_machine(st)} with Ok _ _ => [0] | Exc e _ => exn_enc e end)'),
                                    'spec': spec, 'label': f'coproc_cpacr{field}', 'nontrivial': True})
    return out


def units():
    thms = ['C12_cpsr_write', 'C12_user_cannot_mask', 'C12_exec_bits_only_on_return', 'C12_never_bad_mode',
            'C12_no_monitor_from_nonsecure', 'C12_nmfi', 'C12_aw', 'C12_fw', 'C12_reserved']
    return [Unit('cpsr_write', thms, ['Proofs/CpsrWrite.v', 'Proofs/ArchFacts.v'],
                 ['registers.Registers.cpsr_write_by_instr'], cpsr_write_cases, IMPORTS, SPEC_IMPORTS),
            Unit('coproc_gate', ['C12_coproc_gate'], ['Proofs/CoprocProofs.v'], ['arm_v6.ArmV6.coproc_accepted'], coproc_cases,
                 IMPORTS, SPEC_IMPORTS + '\nFrom ArmV Require Import Spec.Coproc.')]
