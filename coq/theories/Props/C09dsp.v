(* Props/C09dsp.v — C09: halfword / word-by-halfword / dual multiplies, divide, SSAT/USAT/SSAT16/USAT16, PKH, RBIT.
   Statements only; proofs in Proofs/DspProofs.v, Proofs/SatProofs.v, Proofs/RbitProofs.v. *)
From Coq Require Import ZArith Bool List.
From ArmV Require Import Lib.PyZ Lib.Monad Lib.Machine Spec.Pseudocode Spec.Arch Spec.DPSem Spec.MachineView Spec.Arith Spec.Arith2
  Proofs.StateLemmas Proofs.CondProofs Proofs.GuardProofs Proofs.BankProofs Proofs.MachineOps Proofs.DPLemmas Proofs.DspProofs Proofs.SatProofs Proofs.RbitProofs.
From Gen Require Import enums core exec.
Import ListNotations.
Open Scope Z_scope.

Theorem C09_SMLA cfg instr m_high n_high m a d n s : ictx cfg s -> cond_holds s -> 0 <= m <= 14 -> 0 <= a <= 14 -> 0 <= d <= 14 -> 0 <= n <= 14 ->
  Smla_execute cfg instr m_high n_high m a d n s = Ok tt (Smla_sem (cfg_arch_version cfg) s m_high n_high m a d n).
Proof. exact (Smla_ok cfg instr m_high n_high m a d n s). Qed.
Print Assumptions C09_SMLA.
Theorem C09_SMUAD cfg instr m_swap m d n s : ictx cfg s -> cond_holds s -> 0 <= m <= 14 -> 0 <= d <= 14 -> 0 <= n <= 14 ->
  Smuad_execute cfg instr m_swap m d n s = Ok tt (Smuad_sem (cfg_arch_version cfg) s m_swap m d n).
Proof. exact (Smuad_ok cfg instr m_swap m d n s). Qed.
Print Assumptions C09_SMUAD.
Theorem C09_SMUSD cfg instr m_swap m d n s : ictx cfg s -> cond_holds s -> 0 <= m <= 14 -> 0 <= d <= 14 -> 0 <= n <= 14 ->
  Smusd_execute cfg instr m_swap m d n s = Ok tt (Smusd_sem (cfg_arch_version cfg) s m_swap m d n).
Proof. exact (Smusd_ok cfg instr m_swap m d n s). Qed.
Print Assumptions C09_SMUSD.
Theorem C09_SMLAD cfg instr m_swap m a d n s : ictx cfg s -> cond_holds s -> 0 <= m <= 14 -> 0 <= a <= 14 -> 0 <= d <= 14 -> 0 <= n <= 14 ->
  Smlad_execute cfg instr m_swap m a d n s = Ok tt (Smlad_sem (cfg_arch_version cfg) s m_swap m a d n).
Proof. exact (Smlad_ok cfg instr m_swap m a d n s). Qed.
Print Assumptions C09_SMLAD.
Theorem C09_SMLSD cfg instr m_swap m a d n s : ictx cfg s -> cond_holds s -> 0 <= m <= 14 -> 0 <= a <= 14 -> 0 <= d <= 14 -> 0 <= n <= 14 ->
  Smlsd_execute cfg instr m_swap m a d n s = Ok tt (Smlsd_sem (cfg_arch_version cfg) s m_swap m a d n).
Proof. exact (Smlsd_ok cfg instr m_swap m a d n s). Qed.
Print Assumptions C09_SMLSD.
Theorem C09_SMLALD cfg instr m_swap m dhi dlo n s : ictx cfg s -> cond_holds s -> 0 <= m <= 14 -> 0 <= dhi <= 14 -> 0 <= dlo <= 14 -> 0 <= n <= 14 ->
  Smlald_execute cfg instr m_swap m dhi dlo n s = Ok tt (Smlald_sem (cfg_arch_version cfg) s m_swap m dhi dlo n).
Proof. exact (Smlald_ok cfg instr m_swap m dhi dlo n s). Qed.
Print Assumptions C09_SMLALD.
Theorem C09_SMLSLD cfg instr m_swap m dhi dlo n s : ictx cfg s -> cond_holds s -> 0 <= m <= 14 -> 0 <= dhi <= 14 -> 0 <= dlo <= 14 -> 0 <= n <= 14 ->
  Smlsld_execute cfg instr m_swap m dhi dlo n s = Ok tt (Smlsld_sem (cfg_arch_version cfg) s m_swap m dhi dlo n).
Proof. exact (Smlsld_ok cfg instr m_swap m dhi dlo n s). Qed.
Print Assumptions C09_SMLSLD.
Theorem C09_SMLALXY cfg instr m_high n_high m dhi dlo n s : ictx cfg s -> cond_holds s -> 0 <= m <= 14 -> 0 <= dhi <= 14 -> 0 <= dlo <= 14 -> 0 <= n <= 14 ->
  Smlalxy_execute cfg instr m_high n_high m dhi dlo n s = Ok tt (Smlalxy_sem (cfg_arch_version cfg) s m_high n_high m dhi dlo n).
Proof. exact (Smlalxy_ok cfg instr m_high n_high m dhi dlo n s). Qed.
Print Assumptions C09_SMLALXY.
Theorem C09_SMULW cfg instr m_high m d n s : ictx cfg s -> cond_holds s -> 0 <= m <= 14 -> 0 <= d <= 14 -> 0 <= n <= 14 ->
  Smulw_execute cfg instr m_high m d n s = Ok tt (Smulw_sem (cfg_arch_version cfg) s m_high m d n).
Proof. exact (Smulw_ok cfg instr m_high m d n s). Qed.
Print Assumptions C09_SMULW.
Theorem C09_SMLAW cfg instr m_high m a d n s : ictx cfg s -> cond_holds s -> 0 <= m <= 14 -> 0 <= a <= 14 -> 0 <= d <= 14 -> 0 <= n <= 14 ->
  Smlaw_execute cfg instr m_high m a d n s = Ok tt (Smlaw_sem (cfg_arch_version cfg) s m_high m a d n).
Proof. exact (Smlaw_ok cfg instr m_high m a d n s). Qed.
Print Assumptions C09_SMLAW.
Theorem C09_UDIV cfg instr m d n s : ictx cfg s -> cond_holds s -> conf_is_armv7r_profile cfg = 0 -> 0 <= m <= 14 -> 0 <= d <= 14 -> 0 <= n <= 14 ->
  Udiv_execute cfg instr m d n s = Ok tt (Udiv_sem (cfg_arch_version cfg) s m d n).
Proof. exact (Udiv_ok cfg instr m d n s). Qed.
Print Assumptions C09_UDIV.
Theorem C09_SDIV cfg instr m d n s : ictx cfg s -> cond_holds s -> conf_is_armv7r_profile cfg = 0 -> 0 <= m <= 14 -> 0 <= d <= 14 -> 0 <= n <= 14 ->
  Sdiv_execute cfg instr m d n s = Ok tt (Sdiv_sem (cfg_arch_version cfg) s m d n).
Proof. exact (Sdiv_ok cfg instr m d n s). Qed.
Print Assumptions C09_SDIV.
Theorem C09_SSAT cfg instr saturate_to d n shift_t shift_n s : ictx cfg s -> cond_holds s -> 1 <= saturate_to <= 32 -> 0 <= d <= 14 -> 0 <= n <= 14 ->
  valid_shift shift_t shift_n ->
  Ssat_execute cfg instr saturate_to d n shift_t shift_n s = Ok tt (Ssat_sem (cfg_arch_version cfg) s saturate_to d n shift_t shift_n).
Proof. exact (Ssat_ok cfg instr saturate_to d n shift_t shift_n s). Qed.
Print Assumptions C09_SSAT.
Theorem C09_USAT cfg instr saturate_to d n shift_t shift_n s : ictx cfg s -> cond_holds s -> 0 <= saturate_to <= 31 -> 0 <= d <= 14 -> 0 <= n <= 14 ->
  valid_shift shift_t shift_n ->
  Usat_execute cfg instr saturate_to d n shift_t shift_n s = Ok tt (Usat_sem (cfg_arch_version cfg) s saturate_to d n shift_t shift_n).
Proof. exact (Usat_ok cfg instr saturate_to d n shift_t shift_n s). Qed.
Print Assumptions C09_USAT.
Theorem C09_SSAT16 cfg instr saturate_to d n s : ictx cfg s -> cond_holds s -> 1 <= saturate_to <= 16 -> 0 <= d <= 14 -> 0 <= n <= 14 ->
  Ssat16_execute cfg instr saturate_to d n s = Ok tt (Ssat16_sem (cfg_arch_version cfg) s saturate_to d n).
Proof. exact (Ssat16_ok cfg instr saturate_to d n s). Qed.
Print Assumptions C09_SSAT16.
Theorem C09_USAT16 cfg instr saturate_to d n s : ictx cfg s -> cond_holds s -> 0 <= saturate_to <= 15 -> 0 <= d <= 14 -> 0 <= n <= 14 ->
  Usat16_execute cfg instr saturate_to d n s = Ok tt (Usat16_sem (cfg_arch_version cfg) s saturate_to d n).
Proof. exact (Usat16_ok cfg instr saturate_to d n s). Qed.
Print Assumptions C09_USAT16.
Theorem C09_PKH cfg instr tb_form m d n shift_t shift_n s : ictx cfg s -> cond_holds s -> 0 <= m <= 14 -> 0 <= d <= 14 -> 0 <= n <= 14 ->
  valid_shift shift_t shift_n ->
  Pkh_execute cfg instr tb_form m d n shift_t shift_n s = Ok tt (Pkh_sem (cfg_arch_version cfg) s tb_form m d n shift_t shift_n).
Proof. exact (Pkh_ok cfg instr tb_form m d n shift_t shift_n s). Qed.
Print Assumptions C09_PKH.
Theorem C09_RBIT cfg instr m d s : ictx cfg s -> cond_holds s -> 0 <= m <= 14 -> 0 <= d <= 14 ->
  Rbit_execute cfg instr m d s = Ok tt (Rbit_sem (cfg_arch_version cfg) s m d).
Proof. exact (Rbit_ok cfg instr m d s). Qed.
Print Assumptions C09_RBIT.
