(* Props/C11raise.v — C11: UDF and SVC raise the Undefined Instruction / Supervisor Call exception with the state untouched (the entry sequences are Props/C11.v).
   Statements only; proofs in Proofs/MiscProofs2.v. *)
From Coq Require Import ZArith Bool List.
From ArmV Require Import Lib.PyZ Lib.Monad Lib.Machine Spec.Pseudocode Spec.Arch Spec.DPSem Spec.MachineView
  Proofs.StateLemmas Proofs.CondProofs Proofs.GuardProofs Proofs.BankProofs Proofs.MachineOps Proofs.DPLemmas Proofs.MiscProofs2.
From Gen Require Import enums core exec.
Import ListNotations.
Open Scope Z_scope.

Theorem C11_Udf instr s : cond_holds s -> Udf_execute instr s = Exc EUndefined s.
Proof. exact (Udf_ok instr s). Qed.
Print Assumptions C11_Udf.
Theorem C11_Svc cfg instr imm32 s : cond_holds s -> have_virt cfg = 0 -> mode_of s <> 26 -> Svc_execute cfg instr imm32 s = Exc ESVC s.
Proof. exact (Svc_ok cfg instr imm32 s). Qed.
Print Assumptions C11_Svc.
Theorem C11_Bkpt instr : Bkpt_execute instr = Err ENotImpl.
Proof. exact (Bkpt_ok instr). Qed.
Print Assumptions C11_Bkpt.
Theorem C11_Smc_undefined cfg instr s : cond_holds s -> cfg_have_security_ext cfg = 0 \/ mode_of s = 16 -> Smc_execute cfg instr s = Exc EUndefined s.
Proof. exact (Smc_undefined cfg instr s). Qed.
Print Assumptions C11_Smc_undefined.
