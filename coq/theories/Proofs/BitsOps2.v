(* Proofs/BitsOps2.v — set_substring as arithmetic insertion, bit_not, byte reversal. *)
From Coq Require Import ZArith Znumtheory Bool Lia ZifyBool List.
From ArmV Require Import Lib.PyZ Spec.Pseudocode Spec.Expected Proofs.BitLemmas Proofs.SpecFacts Proofs.BitsOps.
From Gen Require Import bits_ops.
Open Scope Z_scope.
Ltac Zify.zify_post_hook ::= Z.to_euclidean_division_equations.

Theorem set_substring_insert b hi lo v :
  0 <= lo <= hi -> hi < 256 -> 0 <= b < 2 ^ 256 -> 0 <= v < 2 ^ (hi - lo + 1) ->
  set_substring b hi lo v = exp_set_substring b hi lo v.
Proof.
  intros. unfold exp_set_substring. apply Z.bits_inj'. intros i Hi.
  rewrite set_substring_bits by lia. rewrite testbit_insert by lia. reflexivity.
Qed.
Theorem set_bit_at_insert b i v : 0 <= i < 256 -> 0 <= b < 2 ^ 256 -> 0 <= v <= 1 ->
  set_bit_at b i v = exp_set_bit_at b i v.
Proof.
  intros. unfold set_bit_at, exp_set_bit_at. apply set_substring_insert; try lia.
  replace (i - i + 1) with 1 by lia. change (2 ^ 1) with 2. lia.
Qed.

Theorem bit_not_spec b len : 0 <= len -> 0 <= b < 2 ^ len -> bit_not b len = exp_bit_not b len.
Proof.
  intros Hl Hb. unfold exp_bit_not.
  assert (A : b + bit_not b len = 2 ^ len - 1).
  { assert (L : Z.land b (bit_not b len) = 0).
    { apply Z.bits_inj'. intros i Hi. rewrite Z.land_spec, bit_not_bits, Z.bits_0 by lia.
      destruct (i <? len) eqn:E; [destruct (Z.testbit b i); reflexivity|].
      rewrite (tb_small b len) by lia. reflexivity. }
    rewrite Z.add_nocarry_lxor by exact L. apply Z.bits_inj'. intros i Hi.
    rewrite Z.lxor_spec, bit_not_bits, tb_ones by lia.
    destruct (i <? len) eqn:E; [destruct (Z.testbit b i); reflexivity|].
    rewrite (tb_small b len) by lia. reflexivity. }
  lia.
Qed.

Ltac norm_pows :=
  repeat match goal with
         | |- context [2 ^ ?k] => let v := eval vm_compute in (2 ^ k) in progress change (2 ^ k) with v
         end.

Theorem big_endian_reverse_spec v n : 0 <= v < 2 ^ (8 * n) -> big_endian_reverse v n = exp_big_endian_reverse v n.
Proof.
  intros Hv. unfold big_endian_reverse, exp_big_endian_reverse, eassert.
  destruct ((n =? 1) || (n =? 2) || (n =? 4) || (n =? 8)) eqn:E; [|reflexivity].
  cbn [ebind]. cbv zeta.
  assert (C : n = 1 \/ n = 2 \/ n = 4 \/ n = 8) by lia.
  destruct C as [-> | [-> | [-> | ->]]]; cbn [Z.eqb Pos.eqb]; cbv iota; f_equal;
    unfold BigEndianReverse;
    match goal with |- context [Z.to_nat ?k] => let w := eval vm_compute in (Z.to_nat k) in change (Z.to_nat k) with w end;
    cbn [BigEndianReverseN];
    rewrite ?lower_chunk_mod, ?substring_bits, ?chain_spec by lia; unfold bits;
    rewrite ?Z.div_div by lia; norm_pows;
    repeat match goal with
           | |- context [?a * ?b] => match a with Zpos _ => match b with Zpos _ =>
               let w := eval vm_compute in (a * b) in progress change (a * b) with w end end
           | H : context [2 ^ ?k] |- _ => let w := eval vm_compute in (2 ^ k) in progress change (2 ^ k) with w in H
           end;
    lia.
Qed.
