(* Props/C02.v — C02: single-register loads and stores.  Statements only; proofs in Proofs/LSProofs.v.
   Each class's execute() is the architecture's pseudocode (Spec/LoadStore.v) with MemU instantiated by the emulator's
   mem_u_get / mem_u_set (themselves characterised by C13/C14): the address, the width, the value written to the
   destination, base write-back only after a successful access, loads to the PC through LoadWritePC. *)
From Coq Require Import ZArith Bool List.
From ArmV Require Import Lib.PyZ Lib.Monad Lib.Machine Spec.Pseudocode Spec.Arch Spec.MachineView Spec.DPSem Spec.LoadStore
  Spec.Hub Spec.Memory
  Proofs.StateLemmas Proofs.CondProofs Proofs.GuardProofs Proofs.BankProofs Proofs.MachineOps Proofs.DPLemmas Proofs.MemProofs Proofs.LSProofs.
From Gen Require Import enums core exec.
Import ListNotations.
Open Scope Z_scope.

Theorem C02_LDR_imm_arm cfg instr add wback index t n imm32 s :
  ictx cfg s -> cond_holds s -> 0 <= n <= 15 -> 0 <= t <= 15 -> (wback <> 0 -> n <= 14) ->
  rd_ok cfg (ArmV6_mem_u_get cfg) s 4 ->
  LdrImmediateArm_execute cfg instr add wback index t n imm32 s =
  LOAD (ArmV6_mem_u_get cfg) (cfg_arch_version cfg) (cfg_jazelle_accepts_execution cfg) LWordArm s (rget s n) imm32 add index wback n t.
Proof. exact (LdrImmediateArm_sem cfg instr add wback index t n imm32 s). Qed.
Print Assumptions C02_LDR_imm_arm.
Theorem C02_LDR_imm_thumb cfg instr add wback index t n imm32 s :
  ictx cfg s -> cond_holds s -> iset_of s <> 3 -> 0 <= n <= 15 -> 0 <= t <= 15 -> (wback <> 0 -> n <= 14) ->
  rd_ok cfg (ArmV6_mem_u_get cfg) s 4 ->
  LdrImmediateThumb_execute cfg instr add wback index t n imm32 s =
  LOAD (ArmV6_mem_u_get cfg) (cfg_arch_version cfg) (cfg_jazelle_accepts_execution cfg) LWordThumb s (rget s n) imm32 add index wback n t.
Proof. exact (LdrImmediateThumb_sem cfg instr add wback index t n imm32 s). Qed.
Print Assumptions C02_LDR_imm_thumb.
Theorem C02_LDR_reg_arm cfg instr add wback index m t n shift_t shift_n s :
  ictx cfg s -> cond_holds s -> 0 <= n <= 15 -> 0 <= m <= 15 -> 0 <= t <= 15 -> (wback <> 0 -> n <= 14) -> valid_shift shift_t shift_n ->
  rd_ok cfg (ArmV6_mem_u_get cfg) s 4 ->
  LdrRegisterArm_execute cfg instr add wback index m t n shift_t shift_n s =
  LOAD (ArmV6_mem_u_get cfg) (cfg_arch_version cfg) (cfg_jazelle_accepts_execution cfg) LWordArm s (rget s n)
       (reg_offset s m shift_t shift_n) add index wback n t.
Proof. exact (LdrRegisterArm_sem cfg instr add wback index m t n shift_t shift_n s). Qed.
Print Assumptions C02_LDR_reg_arm.
Theorem C02_LDRB_imm_arm cfg instr add wback index t n imm32 s :
  ictx cfg s -> cond_holds s -> 0 <= n <= 15 -> 0 <= t <= 14 -> (wback <> 0 -> n <= 14) ->
  rd_ok cfg (ArmV6_mem_u_get cfg) s 1 ->
  LdrbImmediateArm_execute cfg instr add wback index t n imm32 s =
  LOAD_dest_first (ArmV6_mem_u_get cfg) LByte s (rget s n) imm32 add index wback n t.
Proof. exact (LdrbImmediateArm_sem cfg instr add wback index t n imm32 s). Qed.
Print Assumptions C02_LDRB_imm_arm.
Theorem C02_LDRSH_imm cfg instr add wback index imm32 t n s :
  ictx cfg s -> cond_holds s -> iset_of s <> 3 -> 0 <= n <= 15 -> 0 <= t <= 14 -> (wback <> 0 -> n <= 14) ->
  rd_ok cfg (ArmV6_mem_u_get cfg) s 2 ->
  LdrshImmediate_execute cfg instr add wback index imm32 t n s =
  LOAD (ArmV6_mem_u_get cfg) (cfg_arch_version cfg) (cfg_jazelle_accepts_execution cfg) LSHalf s (rget s n) imm32 add index wback n t.
Proof. exact (LdrshImmediate_sem cfg instr add wback index imm32 t n s). Qed.
Print Assumptions C02_LDRSH_imm.
Theorem C02_STR_imm_arm cfg instr add wback index t n imm32 s :
  ictx cfg s -> cond_holds s -> 0 <= n <= 15 -> 0 <= t <= 15 -> (wback <> 0 -> n <= 14) ->
  wr_ok cfg (ArmV6_mem_u_set cfg) s 4 ->
  StrImmediateArm_execute cfg instr add wback index t n imm32 s =
  STORE (ArmV6_mem_u_set cfg) 4 s (rget s n) imm32 add index wback n (rget s t).
Proof. exact (StrImmediateArm_sem cfg instr add wback index t n imm32 s). Qed.
Print Assumptions C02_STR_imm_arm.
Theorem C02_STRB_reg cfg instr add wback index m t n shift_t shift_n s :
  ictx cfg s -> cond_holds s -> iset_of s <> 3 -> 0 <= n <= 15 -> 0 <= m <= 15 -> 0 <= t <= 15 -> (wback <> 0 -> n <= 14) ->
  valid_shift shift_t shift_n -> wr_ok cfg (ArmV6_mem_u_set cfg) s 1 ->
  StrbRegister_execute cfg instr add wback index m t n shift_t shift_n s =
  STORE (ArmV6_mem_u_set cfg) 1 s (rget s n) (reg_offset s m shift_t shift_n) add index wback n (bits (rget s t) 7 0).
Proof. exact (StrbRegister_sem cfg instr add wback index m t n shift_t shift_n s). Qed.
Print Assumptions C02_STRB_reg.
(* the memory hypotheses are met on a flat map: the statements above are not vacuous *)
Theorem C02_rd_ok_flat cfg s sz : flat cfg s -> ictx cfg s -> valid_size sz = true -> rd_ok cfg (ArmV6_mem_u_get cfg) s sz.
Proof. exact (flat_rd_ok cfg s sz). Qed.
Print Assumptions C02_rd_ok_flat.
Theorem C02_wr_ok_flat cfg s sz : flat cfg s -> ictx cfg s -> valid_size sz = true -> wr_ok cfg (ArmV6_mem_u_set cfg) s sz.
Proof. exact (flat_wr_ok cfg s sz). Qed.
Print Assumptions C02_wr_ok_flat.
