"""C07 — Thumb decode: 16-bit class selection against the hand-written A6.2 table (all 2^16 halfwords are proved;
the correspondence samples them)."""
import common as C
from framework import Unit

IMPORTS = 'From Gen Require Import decoders.'
SPEC_IMPORTS = 'From ArmV Require Import Proofs.Cube Spec.DecTables.'


def cases(rng, tier):
    out = []
    n = 1200 if tier == 'quick' else 65536
    ws = list(range(65536)) if tier != 'quick' else [rng.getrandbits(16) for _ in range(n - 256)] + list(range(0xBF00, 0xC000))
    for w in ws:
        out.append({'impl': {'kind': 'decode', 'module': 'thumb_instruction_set_encoding_16_bit', 'instr': w},
                    'model': f'(match dec_thumb_instruction_set_encoding_16_bit {w} with Some c => [0; 1; c] | None => [0; 0] end)',
                    'spec': f'(enc_leaf_opt (lookup t16_table (LRet None) {w}) [] {w})', 'label': 'thumb16', 'nontrivial': True})
    return out


def units():
    return [Unit('thumb16', ['C07_thumb16'], ['Proofs/Cube.v', 'Proofs/DecodeReify.v', 'Proofs/DecThumb16.v'], [], cases, IMPORTS, SPEC_IMPORTS)]
