(* Proofs/RbitProofs.v — RBIT: the 32-step bit-reversal loop proved equal to Spec/Arith2.v [Rbit_sem] by a loop invariant. *)
From Coq Require Import ZArith List Bool Lia ZifyBool.
From ArmV Require Import Lib.PyZ Lib.Monad Lib.Machine Spec.Pseudocode Spec.Expected Spec.Arch Spec.DPSem
  Proofs.BitLemmas Proofs.SpecFacts Proofs.BitsOps Proofs.BitsOps2 Proofs.ShiftOps Proofs.FieldsProofs Proofs.StateLemmas
  Proofs.CondProofs Proofs.GuardProofs Proofs.BankProofs Proofs.MachineOps Proofs.DPLemmas Proofs.DPTactics Proofs.BranchProofs
  Proofs.LSProofs Proofs.BlockProofs Spec.MachineView Spec.Arith Spec.Arith2 Proofs.ArithProofs Proofs.ArithProofs2 Proofs.ParProofs
  Proofs.ExtProofs Proofs.ExtProofs2.
From Gen Require Import enums bits_ops shift regviews records hubm opsyn core exec.
Import ListNotations.
Open Scope Z_scope.
(* a sentence that runs this long no longer matches the code it was written for: fail instead of searching *)
Set Default Timeout 240.
Ltac Zify.zify_post_hook ::= Z.to_euclidean_division_equations.

(* the value accumulated after the first j iterations: bits 0..j-1 of x placed at 31..32-j *)
Fixpoint rb_acc (j : nat) (x : Z) : Z :=
  match j with O => 0 | S j' => rb_acc j' x + bit x (Z.of_nat j') * 2 ^ (31 - Z.of_nat j') end.

Lemma bit_rng01 x i : 0 <= bit x i <= 1.
Proof. unfold bit. pose proof (Z.mod_pos_bound (x / 2 ^ i) 2 ltac:(lia)). lia. Qed.

Lemma rb_acc_shape j x : (j <= 32)%nat -> exists q, rb_acc j x = q * 2 ^ (32 - Z.of_nat j) /\ 0 <= q < 2 ^ Z.of_nat j.
Proof.
  induction j as [|j IH]; intros Hj.
  - exists 0. cbn. lia.
  - destruct (IH ltac:(lia)) as [q [Eq Rq]]. exists (2 * q + bit x (Z.of_nat j)). cbn [rb_acc]. rewrite Eq.
    pose proof (bit_rng01 x (Z.of_nat j)) as Hb.
    replace (32 - Z.of_nat j) with (Z.succ (31 - Z.of_nat j)) by lia. rewrite Z.pow_succ_r by lia.
    replace (32 - Z.of_nat (S j)) with (31 - Z.of_nat j) by lia.
    replace (Z.of_nat (S j)) with (Z.succ (Z.of_nat j)) by lia. rewrite Z.pow_succ_r by lia. split; [ring|lia].
Qed.

Lemma rb_step j x : (j < 32)%nat ->
  set_bit_at (rb_acc j x) (31 - Z.of_nat j) (bit_at x (Z.of_nat j)) = rb_acc (S j) x.
Proof.
  intros Hj. destruct (rb_acc_shape j x ltac:(lia)) as [q [Eq Rq]]. rewrite bit_at_bit by lia. pose proof (bit_rng01 x (Z.of_nat j)) as Hb.
  unfold set_bit_at. cbn [rb_acc].
  assert (P : 0 < 2 ^ (31 - Z.of_nat j)) by (apply pow_pos; lia).
  assert (Q : 2 ^ (32 - Z.of_nat j) = 2 * 2 ^ (31 - Z.of_nat j)).
  { replace (32 - Z.of_nat j) with (Z.succ (31 - Z.of_nat j)) by lia. rewrite Z.pow_succ_r by lia. reflexivity. }
  assert (B : 0 <= rb_acc j x < 2 ^ 32).
  { rewrite Eq. assert (E32 : 2 ^ 32 = 2 ^ Z.of_nat j * 2 ^ (32 - Z.of_nat j)) by (rewrite <- Z.pow_add_r by lia; f_equal; lia).
    rewrite E32. assert (0 < 2 ^ (32 - Z.of_nat j)) by (apply pow_pos; lia). nia. }
  apply set_substring_zero; [lia|lia| | | ].
  - split; [lia|]. apply Z.lt_le_trans with (2 ^ 32); [lia|]. apply Z.pow_le_mono_r; lia.
  - unfold bits. rewrite Eq, Q. replace (q * (2 * 2 ^ (31 - Z.of_nat j))) with (q * 2 * 2 ^ (31 - Z.of_nat j)) by ring.
    rewrite Z.div_mul by lia. replace (31 - Z.of_nat j - (31 - Z.of_nat j) + 1) with 1 by lia. change (2 ^ 1) with 2.
    apply Z.mod_mul. lia.
  - replace (31 - Z.of_nat j - (31 - Z.of_nat j) + 1) with 1 by lia. change (2 ^ 1) with 2. lia.
Qed.

Lemma rb_loop x (n : nat) : forall j, (j + n <= 32)%nat ->
  pfold (fun v_i v_result => set_bit_at v_result (31 - v_i) (bit_at x v_i)) (range_up (Z.of_nat j) n 1) (rb_acc j x) = rb_acc (j + n) x.
Proof.
  induction n as [|n IH]; intros j Hj.
  - cbn. f_equal. lia.
  - cbn [range_up pfold]. rewrite rb_step by lia. replace (Z.of_nat j + 1) with (Z.of_nat (S j)) by lia.
    rewrite IH by lia. f_equal. lia.
Qed.

Lemma rb_acc_rbit x : rb_acc 32 x = rbit_from 32 x.
Proof.
  cbn [rb_acc rbit_from]. 
  repeat match goal with |- context [Z.of_nat ?k] => let v := eval compute in (Z.of_nat k) in change (Z.of_nat k) with v end.
  cbn [Z.sub Z.add Z.opp Z.pos_sub Pos.pred_double Pos.succ Z.succ_double Z.pred_double Z.double Pos.add].
  ring.
Qed.

Theorem Rbit_ok cfg instr m d s : ictx cfg s -> cond_holds s -> 0 <= m <= 14 -> 0 <= d <= 14 ->
  Rbit_execute cfg instr m d s = Ok tt (Rbit_sem (cfg_arch_version cfg) s m d).
Proof.
  intros H Hc Hm Hd. unfold Rbit_execute, Rbit_sem. rewrite guard_pass by exact Hc. rewrite bind_ret_tt. cbv zeta. getr cfg H.
  replace (pfold _ (py_range 0 32 1) 0) with (rbit_from 32 (rget s m)).
  2:{ symmetry. rewrite <- rb_acc_rbit. exact (rb_loop (rget s m) 32 0%nat ltac:(lia)). }
  rewrite bind_ret_tt, reg_set; [reflexivity|lia|apply H|apply H].
Qed.
