(* Props/C12misc.v — C12: ISB and the preload hints PLD/PLDW (immediate, literal, register) stop at not-implemented stubs with the state untouched; ENTERX/LEAVEX are SelectInstrSet (ENTERX UNDEFINED in Hyp mode).
   Statements only; proofs in Proofs/MiscProofs2.v. *)
From Coq Require Import ZArith Bool List.
From ArmV Require Import Lib.PyZ Lib.Monad Lib.Machine Spec.Pseudocode Spec.Arch Spec.DPSem Spec.MachineView
  Proofs.StateLemmas Proofs.CondProofs Proofs.GuardProofs Proofs.BankProofs Proofs.MachineOps Proofs.DPLemmas Proofs.MiscProofs2.
From Gen Require Import enums core exec.
Import ListNotations.
Open Scope Z_scope.

Theorem C12_Isb instr s : cond_holds s -> Isb_execute instr s = Exc ENotImpl s.
Proof. exact (Isb_ok instr s). Qed.
Print Assumptions C12_Isb.
Theorem C12_PldImmediate cfg instr add is_pldw n imm32 s : ictx cfg s -> cond_holds s -> 0 <= n <= 15 ->
  PldImmediate_execute cfg instr add is_pldw n imm32 s = Exc ENotImpl s.
Proof. exact (PldImmediate_ok cfg instr add is_pldw n imm32 s). Qed.
Print Assumptions C12_PldImmediate.
Theorem C12_PldLiteral cfg instr add imm32 s : ictx cfg s -> cond_holds s -> PldLiteral_execute cfg instr add imm32 s = Exc ENotImpl s.
Proof. exact (PldLiteral_ok cfg instr add imm32 s). Qed.
Print Assumptions C12_PldLiteral.
Theorem C12_PldRegister cfg instr add is_pldw m n shift_t shift_n s : ictx cfg s -> cond_holds s -> 0 <= n <= 15 -> 0 <= m <= 15 ->
  valid_shift shift_t shift_n -> PldRegister_execute cfg instr add is_pldw m n shift_t shift_n s = Exc ENotImpl s.
Proof. exact (PldRegister_ok cfg instr add is_pldw m n shift_t shift_n s). Qed.
Print Assumptions C12_PldRegister.
Theorem C12_EnterxLeavex cfg instr is_enterx s : ictx cfg s ->
  EnterxLeavex_execute cfg instr is_enterx s =
  if is_enterx =? 0 then Ok tt (with_cpsr s (SelectInstrSet (cpsr_of s) InstrSet_THUMB))
  else if mode_of s =? 26 then Exc EUndefined s else Ok tt (with_cpsr s (SelectInstrSet (cpsr_of s) InstrSet_THUMBEE)).
Proof. exact (EnterxLeavex_ok cfg instr is_enterx s). Qed.
Print Assumptions C12_EnterxLeavex.
Theorem C12_Dsb cfg instr option s : cond_holds s -> have_virt cfg = 0 -> Dsb_execute cfg instr option s = Exc ENotImpl s.
Proof. exact (Dsb_ok cfg instr option s). Qed.
Print Assumptions C12_Dsb.
