(* Corr/HubSpecRun.v — executable expected behaviour of a hub history (spec side only: no generated code). *)
From Coq Require Import ZArith List Bool.
From ArmV Require Import Lib.PyZ Lib.Monad Lib.Machine Lib.Enc Spec.Hub.
Import ListNotations.
Open Scope Z_scope.

(* the expected behaviour: a bad size is an AssertionError, an out-of-range value written to a mapped
   address a struct.error; everything else follows Spec/Hub *)
Fixpoint spec_hub_enc (ops : list hub_op) (h : hub) (acc : list Z) (idx : Z) : list Z :=
  match ops with
  | [] => (0 :: enc_list (rev acc)) ++ enc_hub h
  | HRead pa size :: t =>
      if valid_size size then spec_hub_enc t h (hub_read h pa size :: acc) (idx + 1)
      else exn_enc (EHost HAssert) ++ [idx] ++ enc_hub h
  | HWrite pa size v :: t =>
      if valid_size size then
        match find_dev h pa with
        | None => spec_hub_enc t h acc (idx + 1)
        | Some _ => if (0 <=? v) && (v <? 2 ^ (8 * size)) then spec_hub_enc t (hub_write h pa size v) acc (idx + 1)
                    else exn_enc (EHost HStruct) ++ [idx] ++ enc_hub h
        end
      else exn_enc (EHost HAssert) ++ [idx] ++ enc_hub h
  end.
Definition spec_hub_history (ops : list hub_op) (h : hub) : list Z := spec_hub_enc ops h [] 0.
