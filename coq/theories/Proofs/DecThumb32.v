(* Proofs/DecThumb32.v — 32-bit Thumb class selection: the regenerated decoders agree with the tables of Spec/DecTablesT32.v on
   every one of the 2^32 words (reflective cube checker of Proofs/Cube.v). *)
From Coq Require Import ZArith List Bool String Lia.
From ArmV Require Import Lib.PyZ Proofs.Cube Proofs.DecodeReify Spec.DecTables Spec.DecTablesT32 Proofs.DecArm1.
From Gen Require Import bits_ops opsyn decoders.
Import ListNotations.
Open Scope Z_scope.

Lemma t32_reified : { t : tree (res (option Z)) | forall w, eval t32_env (Val None) t w = dec_thumb_instruction_set_encoding_32_bit w }.
Proof.
  eexists. intros w. unfold dec_thumb_instruction_set_encoding_32_bit. cbv zeta.
  match goal with |- eval _ _ ?T w = ?rhs => let e := eval unfold t32_env in t32_env in let t := reify_t (res (option Z)) w e rhs in unify T t end.
  reflexivity.
Defined.
Theorem dec_thumb32_top_table w : 0 <= w < 2 ^ 32 ->
  dec_thumb_instruction_set_encoding_32_bit w = eval_leaf t32_env (Val None) (lookup t32_table (LRet (Val None)) w) w.
Proof.
  intros Hw. rewrite <- (proj2_sig t32_reified w).
  apply (decode_correct 32%nat res_eqb res_eqb_sound t32_env (Val None) t32_table (LRet (Val None)) (proj1_sig t32_reified) 400).
  - vm_compute. reflexivity.
  - exact Hw.
Qed.

Ltac reify_opt f env :=
  eexists; intros w; unfold f; cbv zeta;
  match goal with |- eval _ _ ?T w = ?rhs => let e := eval unfold env in env in let t := reify_t (option Z) w e rhs in unify T t end;
  reflexivity.

Lemma mvsh_reified : { t : tree (option Z) | forall w, eval no_env None t w = dec_thumb_move_register_and_immediate_shifts w }.
Proof. reify_opt dec_thumb_move_register_and_immediate_shifts no_env. Defined.
Theorem dec_thumb32_move_shift_table w : 0 <= w < 2 ^ 32 ->
  dec_thumb_move_register_and_immediate_shifts w = eval_leaf no_env None (lookup t32_mvsh_table (LRet None) w) w.
Proof.
  intros Hw. rewrite <- (proj2_sig mvsh_reified w).
  apply (decode_correct 32%nat optZ_eqb optZ_eqb_sound no_env None t32_mvsh_table (LRet None) (proj1_sig mvsh_reified) 400).
  - vm_compute. reflexivity.
  - exact Hw.
Qed.

Lemma dpsr_reified : { t : tree (option Z) | forall w, eval t32_dpsr_env None t w = dec_thumb_data_processing_shifted_register w }.
Proof. reify_opt dec_thumb_data_processing_shifted_register t32_dpsr_env. Defined.
Theorem dec_thumb32_dp_shifted_register_table w : 0 <= w < 2 ^ 32 ->
  dec_thumb_data_processing_shifted_register w = eval_leaf t32_dpsr_env None (lookup t32_dpsr_table (LRet None) w) w.
Proof.
  intros Hw. rewrite <- (proj2_sig dpsr_reified w).
  apply (decode_correct 32%nat optZ_eqb optZ_eqb_sound t32_dpsr_env None t32_dpsr_table (LRet None) (proj1_sig dpsr_reified) 400).
  - vm_compute. reflexivity.
  - exact Hw.
Qed.

Lemma dpmi_reified : { t : tree (option Z) | forall w, eval no_env None t w = dec_thumb_data_processing_modified_immediate w }.
Proof. reify_opt dec_thumb_data_processing_modified_immediate no_env. Defined.
Theorem dec_thumb32_dp_modified_immediate_table w : 0 <= w < 2 ^ 32 ->
  dec_thumb_data_processing_modified_immediate w = eval_leaf no_env None (lookup t32_dpmi_table (LRet None) w) w.
Proof.
  intros Hw. rewrite <- (proj2_sig dpmi_reified w).
  apply (decode_correct 32%nat optZ_eqb optZ_eqb_sound no_env None t32_dpmi_table (LRet None) (proj1_sig dpmi_reified) 400).
  - vm_compute. reflexivity.
  - exact Hw.
Qed.

Lemma pbi_reified : { t : tree (option Z) | forall w, eval no_env None t w = dec_thumb_data_processing_plain_binary_immediate w }.
Proof. reify_opt dec_thumb_data_processing_plain_binary_immediate no_env. Defined.
Theorem dec_thumb32_plain_binary_immediate_table w : 0 <= w < 2 ^ 32 ->
  dec_thumb_data_processing_plain_binary_immediate w = eval_leaf no_env None (lookup t32_pbi_table (LRet None) w) w.
Proof.
  intros Hw. rewrite <- (proj2_sig pbi_reified w).
  apply (decode_correct 32%nat optZ_eqb optZ_eqb_sound no_env None t32_pbi_table (LRet None) (proj1_sig pbi_reified) 400).
  - vm_compute. reflexivity.
  - exact Hw.
Qed.
