(* Proofs/StepInstances.v — two instructions end to end: ADD{S}<c> Rd, Rn, #const (ARM, encoding A1) and
   ADD{S} Rd, Rn, #imm3 (Thumb, 16-bit encoding T1, inside or outside an IT block).  For every state and every word of the
   encoding, one emulate_cycle selects the class, extracts the operands and — when the condition holds — ends in the
   architectural data-processing result followed by ITAdvance and PC + 4 / PC + 2 (Proofs/StepDP.v). *)
Set Default Timeout 240.
From Coq Require Import ZArith List Bool Lia ZifyBool.
From ArmV Require Import Lib.PyZ Lib.Monad Lib.Machine Spec.Pseudocode Spec.Arch Spec.MachineView Spec.Branches Spec.StepFrame
  Spec.OperandSpec Spec.DPSem
  Proofs.SpecFacts Proofs.StateLemmas Proofs.CondProofs Proofs.GuardProofs Proofs.BankProofs Proofs.MachineOps Proofs.DPLemmas
  Proofs.DPClasses1 Proofs.DPClasses2 Proofs.StepProofs Proofs.StepDP Proofs.OpTac
  Proofs.OpsA0 Proofs.OpsA1 Proofs.OpsA2 Proofs.OpsA3 Proofs.OpsA4 Proofs.OpsA5 Proofs.OpsA6 Proofs.OpsA7
  Proofs.OpsT0 Proofs.OpsT1 Proofs.OpsT2 Proofs.OpsT3 Proofs.OpsT4 Proofs.OpsT5 Proofs.OpsT6 Proofs.OpsT7.
From Gen Require Import enums bits_ops shift regviews records hubm opsyn core exec conc decoders step.
Import ListNotations.
Open Scope Z_scope.
Ltac Zify.zify_post_hook ::= Z.to_euclidean_division_equations.

Ltac dec_step f := unfold f; cbv zeta; ops_norm; pose_all_ranges.

Lemma word_ARMExpandImm x : 0 <= x < 4096 -> word (ARMExpandImm x).
Proof.
  intros Hx. unfold ARMExpandImm, ARMExpandImm_C. pose proof (bits_range x 7 0 ltac:(lia)) as R. pose proof (bits_range x 11 8 ltac:(lia)) as R2.
  change (2 ^ (7 - 0 + 1)) with 256 in R.
  apply (Shift_C_range 32 (bits x 7 0) SRType_ROR (2 * bits x 11 8) 0); try lia.
  split; [lia|]. right; right; right; left. reflexivity.
Qed.

(* ================= ADD (immediate, ARM) A1: cond != 1111, 0010100S, Rn and Rd in r0-r12 and different ================= *)
Definition is_add_imm_a1 (w : Z) : Prop :=
  bits w 31 28 <> 15 /\ bit w 27 = 0 /\ bit w 26 = 0 /\ bit w 25 = 1 /\ bit w 24 = 0 /\ bit w 23 = 1 /\ bit w 22 = 0 /\ bit w 21 = 0
  /\ regs13 [bits w 19 16; bits w 15 12] = true.

Lemma decode_add_imm_a1 w s : 0 <= w < 2 ^ 32 -> is_add_imm_a1 w -> iset_of s = 0 ->
  ArmV6_decode_instruction w s = Ok (Some enc_AddImmediateArmA1) s.
Proof.
  intros Hw (Hc & H27 & H26 & H25 & H24 & H23 & H22 & H21 & Hr) Hi. split_regs.
  unfold ArmV6_decode_instruction, op_decode_instruction.
  rewrite !run_bind, current_instr_set_spec. cbv beta iota. rewrite Hi. unfold InstrSet_ARM. cbn [Z.eqb]. cbv iota.
  rewrite run_bind.
  assert (D : dec_arm_instruction_set w = Val (Some enc_AddImmediateArmA1)).
  { dec_step dec_arm_instruction_set. pose_expand w 27 25. pose_expand w 27 26. ops_if. cbn [ebind].
    dec_step dec_arm_data_processing_and_miscellaneous_instructions. pose_expand w 24 23. ops_if. cbn [ebind].
    dec_step dec_arm_data_processing_immediate. pose_expand w 24 21. ops_if. reflexivity. }
  rewrite D. reflexivity.
Qed.

Lemma from_bitarray_add_imm_a1 cfg w s : 0 <= w < 2 ^ 32 -> is_add_imm_a1 w ->
  from_bitarray_dispatch cfg enc_AddImmediateArmA1 w s =
  Ok (Some (code_AddImmediateArm, [w; bit w 20; bits w 15 12; bits w 19 16; ARMExpandImm (bits w 11 0)])) s.
Proof.
  intros Hw (_ & _ & _ & _ & _ & _ & _ & _ & Hr).
  pose proof (ops_AddImmediateArmA1 w s Hw Hr) as H. unfold fb_out, fb_m in H.
  unfold from_bitarray_dispatch, enc_AddImmediateArmA1. cbv iota. unfold bind, ret.
  destruct (AddImmediateArmA1_from_bitarray w s) as [v s'|e s']; [|discriminate H].
  inversion H. reflexivity.
Qed.

Theorem add_imm_a1_step cfg s w s1 :
  ArmV6_fetch_instruction cfg s = Ok w s1 ->
  0 <= w < 2 ^ 32 -> is_add_imm_a1 w -> iset_of s1 = 0 -> ictx cfg s1 -> cond_holds s1 ->
  let d := bits w 15 12 in let n := bits w 19 16 in let imm32 := ARMExpandImm (bits w 11 0) in
  let op := (code_AddImmediateArm, [w; bit w 20; d; n; imm32]) in
  exists s2,
    dp_sem cfg ADD (bit w 20) (Some d) n (Op2Imm imm32 0) (begin_instr s1 op) = Ok tt s2 /\
    ArmV6_emulate_cycle cfg s = Ok tt (AdvancePC (it_step_after s1 s2)) /\
    pc_of (AdvancePC (it_step_after s1 s2)) = add32 (pc_of s1) (opcode_len s1 / 8).
Proof.
  intros Hf Hw Hcube Hi Hctx Hcond d n imm32 op.
  pose proof Hcube as (_ & _ & _ & _ & _ & _ & _ & _ & Hr). split_regs.
  pose proof (bits_range w 15 12 ltac:(lia)) as Rd. pose proof (bits_range w 19 16 ltac:(lia)) as Rn.
  pose proof (bits_range w 11 0 ltac:(lia)) as Ri. change (2 ^ (11 - 0 + 1)) with 4096 in Ri.
  assert (Wi : word imm32) by (apply word_ARMExpandImm; lia).
  apply (dp_imm_step cfg s w s1 enc_AddImmediateArmA1 op ADD (bit w 20) d n imm32 0 Hf); try (unfold d, n; lia); try assumption.
  - apply decode_add_imm_a1; assumption.
  - apply from_bitarray_add_imm_a1; assumption.
  - change (execute_dispatch cfg op (begin_instr s1 op)) with (AddImmediateArm_execute cfg w (bit w 20) d n imm32 (begin_instr s1 op)).
    apply AddImmediateArm_sem; try (unfold d, n; lia); [apply ictx_begin; exact Hctx|apply cond_holds_begin; exact Hcond|exact Wi].
Qed.

(* ================= ADD (immediate, Thumb) T1: 0001110 imm3 Rn Rd ================= *)
Definition is_add_imm_t1 (w : Z) : Prop := bits w 15 14 = 0 /\ bits w 13 9 = 14.

Lemma decode_add_imm_t1 w s : 0 <= w < 2 ^ 16 -> is_add_imm_t1 w -> iset_of s = 1 -> opcode_len s = 16 ->
  ArmV6_decode_instruction w s = Ok (Some enc_AddImmediateThumbT1) s.
Proof.
  intros Hw (H1 & H2) Hi Hl.
  unfold ArmV6_decode_instruction, op_decode_instruction.
  rewrite !run_bind, current_instr_set_spec. cbv beta iota. rewrite Hi. unfold InstrSet_ARM, InstrSet_THUMB. cbn [Z.eqb]. cbv iota.
  rewrite o_cur_iset. rewrite Hi. cbn [Z.eqb Pos.eqb]. cbv iota.
  unfold dec_thumb_instruction_set, ArmV6_this_instr_length, get_opcode_len. unfold bind, ret. rewrite Hl. cbn [Z.eqb Pos.eqb]. cbv iota.
  assert (D : dec_thumb_instruction_set_encoding_16_bit w = Some enc_AddImmediateThumbT1).
  { dec_step dec_thumb_instruction_set_encoding_16_bit. ops_if.
    dec_step dec_thumb_shift_immediate_add_subtract_move_and_compare. pose_expand w 13 11. pose_expand w 13 9. ops_if. reflexivity. }
  rewrite D. reflexivity.
Qed.

Lemma from_bitarray_add_imm_t1 cfg w s : 0 <= w < 2 ^ 16 ->
  from_bitarray_dispatch cfg enc_AddImmediateThumbT1 w s =
  Ok (Some (code_AddImmediateThumb, [w; not_in_it s; bits w 2 0; bits w 5 3; bits w 8 6])) s.
Proof.
  intros Hw. pose proof (ops_AddImmediateThumbT1 w s Hw) as H. unfold fb_out, fb_m in H.
  unfold from_bitarray_dispatch, enc_AddImmediateThumbT1. cbv iota. unfold bind, ret.
  destruct (AddImmediateThumbT1_from_bitarray w s) as [v s'|e s']; [|discriminate H].
  inversion H. reflexivity.
Qed.

Theorem add_imm_t1_step cfg s w s1 :
  ArmV6_fetch_instruction cfg s = Ok w s1 ->
  0 <= w < 2 ^ 16 -> is_add_imm_t1 w -> iset_of s1 = 1 -> opcode_len s1 = 16 -> ictx cfg s1 -> cond_holds s1 ->
  let d := bits w 2 0 in let n := bits w 5 3 in let imm32 := bits w 8 6 in
  let op := (code_AddImmediateThumb, [w; not_in_it s1; d; n; imm32]) in
  exists s2,
    dp_sem cfg ADD (not_in_it s1) (Some d) n (Op2Imm imm32 0) (begin_instr s1 op) = Ok tt s2 /\
    ArmV6_emulate_cycle cfg s = Ok tt (AdvancePC (it_step_after s1 s2)) /\
    pc_of (AdvancePC (it_step_after s1 s2)) = add32 (pc_of s1) 2.
Proof.
  intros Hf Hw Hcube Hi Hl Hctx Hcond d n imm32 op.
  pose proof (bits_range w 2 0 ltac:(lia)) as Rd. pose proof (bits_range w 5 3 ltac:(lia)) as Rn.
  pose proof (bits_range w 8 6 ltac:(lia)) as Ri.
  change (2 ^ (2 - 0 + 1)) with 8 in Rd. change (2 ^ (5 - 3 + 1)) with 8 in Rn. change (2 ^ (8 - 6 + 1)) with 8 in Ri.
  assert (Wi : word imm32) by (unfold word, imm32; lia).
  destruct (dp_imm_step cfg s w s1 enc_AddImmediateThumbT1 op ADD (not_in_it s1) d n imm32 0 Hf) as (s2 & A & B & C);
    try (unfold d, n; lia); try assumption.
  - apply decode_add_imm_t1; assumption.
  - apply from_bitarray_add_imm_t1; assumption.
  - change (execute_dispatch cfg op (begin_instr s1 op)) with (AddImmediateThumb_execute cfg w (not_in_it s1) d n imm32 (begin_instr s1 op)).
    apply AddImmediateThumb_sem; try (unfold d, n; lia); [apply ictx_begin; exact Hctx|apply cond_holds_begin; exact Hcond|exact Wi].
  - exists s2. split; [exact A|]. split; [exact B|]. rewrite C, Hl. reflexivity.
Qed.
