hdr='''(* Proofs/StepInstancesSpArm.v — GENERATED text (one block per encoding, same script): the ARM SP-relative additions and subtractions
   ADD / SUB{S}<c> Rd, SP, #const (A1) and ADD / SUB{S}<c> Rd, SP, Rm{, <shift>} (A1) — Rn = 1101 — and MOVW<c> Rd, #imm16 (A2), end to end,
   Rd (and Rm) in r0-r12. *)
Set Default Timeout 240.
From Coq Require Import ZArith List Bool Lia ZifyBool.
From ArmV Require Import Lib.PyZ Lib.Monad Lib.Machine Spec.Pseudocode Spec.Arch Spec.MachineView Spec.Branches Spec.StepFrame
  Spec.OperandSpec Spec.DPSem
  Proofs.SpecFacts Proofs.StateLemmas Proofs.CondProofs Proofs.GuardProofs Proofs.BankProofs Proofs.MachineOps Proofs.DPLemmas
  Proofs.DPClasses0 Proofs.DPClasses1 Proofs.DPClasses2 Proofs.DPClasses3 Proofs.DPClasses4 Proofs.DPClasses5 Proofs.DPClasses6 Proofs.DPClasses7
  Proofs.StepProofs Proofs.StepDP Proofs.DPRange Proofs.StepDPReg Proofs.StepInstances Proofs.StepInstancesArm Proofs.OpTac
  Proofs.OpsA0 Proofs.OpsA1 Proofs.OpsA2 Proofs.OpsA3 Proofs.OpsA4 Proofs.OpsA5 Proofs.OpsA6 Proofs.OpsA7.
From Gen Require Import enums bits_ops shift regviews records hubm opsyn core exec conc decoders step.
Import ListNotations.
Open Scope Z_scope.
Ltac Zify.zify_post_hook ::= Z.to_euclidean_division_equations.

Definition is_sp_imm_a1 (o24 o23 o22 o21 w : Z) : Prop :=
  bits w 31 28 <> 15 /\\ bit w 27 = 0 /\\ bit w 26 = 0 /\\ bit w 25 = 1 /\\ bit w 24 = o24 /\\ bit w 23 = o23 /\\ bit w 22 = o22 /\\ bit w 21 = o21
  /\\ bits w 19 16 = 13 /\\ regs13 [bits w 15 12] = true.
Definition is_sp_reg_a1 (o24 o23 o22 o21 w : Z) : Prop :=
  bits w 31 28 <> 15 /\\ bit w 27 = 0 /\\ bit w 26 = 0 /\\ bit w 25 = 0 /\\ bit w 24 = o24 /\\ bit w 23 = o23 /\\ bit w 22 = o22 /\\ bit w 21 = o21
  /\\ bit w 4 = 0 /\\ bits w 19 16 = 13 /\\ regs13 [bits w 15 12; bits w 3 0] = true.
Definition is_movw_a2 (w : Z) : Prop :=
  bits w 31 28 <> 15 /\\ bit w 27 = 0 /\\ bit w 26 = 0 /\\ bit w 25 = 1 /\\ bit w 24 = 1 /\\ bit w 23 = 0 /\\ bit w 22 = 0 /\\ bit w 21 = 0
  /\\ bit w 20 = 0 /\\ regs13 [bits w 15 12] = true.
'''
FB='''Proof.
  intros Hw HCUBE.
  pose proof (ops_{cls} w s Hw Hr) as H. unfold fb_out, fb_plain, fb_opt, fb_res, fb_res_opt, fb_m, fb_m_opt in H.
  unfold from_bitarray_dispatch, enc_{cls}. cbv iota. unfold bind, ret, lift in *.
  repeat match goal with
  | H : match ?x with _ => _ end = _ |- context[?x] => destruct x; try discriminate H
  end.
  inversion H. first [reflexivity | match goal with E : _ = Some _ |- _ => rewrite E end; reflexivity].
Qed.
'''
def dec(cls,cube,pat,sub,extra=''):
    return f'''
(* ================= {cls} ================= *)
Lemma decode_{cls} w s : 0 <= w < 2 ^ 32 -> {cube} w -> iset_of s = 0 ->
  ArmV6_decode_instruction w s = Ok (Some enc_{cls}) s.
Proof.
  intros Hw {pat} Hi. split_regs.
  unfold ArmV6_decode_instruction, op_decode_instruction.
  rewrite !run_bind, current_instr_set_spec. cbv beta iota. rewrite Hi. unfold InstrSet_ARM. cbn [Z.eqb]. cbv iota.
  rewrite run_bind.
  assert (D : dec_arm_instruction_set w = Val (Some enc_{cls})).
  {{ dec_step dec_arm_instruction_set. pose_expand w 27 25. pose_expand w 27 26. ops_if. cbn [ebind].
    dec_step dec_arm_data_processing_and_miscellaneous_instructions. pose_expand w 24 23. {extra}ops_if. cbn [ebind].
    {sub} }}
  rewrite D. reflexivity.
Qed.
'''
body=''; props='(* ARM SP-relative ADD / SUB (immediate and register) and MOVW (A2) *)\n'
TAIL='''    ArmV6_emulate_cycle cfg s = Ok tt (AdvancePC (it_step_after s1 s2)) /\\
    pc_of (AdvancePC (it_step_after s1 s2)) = add32 (pc_of s1) (opcode_len s1 / 8).
'''
for cls,o,op,ab in (('AddSpPlusImmediateA1','0 1 0 0','ADD','AddSpPlusImmediate'),('SubSpMinusImmediateA1','0 0 1 0','SUB','SubSpMinusImmediate')):
    low=cls[0].lower()+cls[1:]
    cube=f'is_sp_imm_a1 {o}'
    body+=dec(cls,cube,'(Hc & H27 & H26 & H25 & H24 & H23 & H22 & H21 & Hrn & Hr)','dec_step dec_arm_data_processing_immediate. pose_expand w 24 21. ops_if. reflexivity.')
    body+=f'''Lemma from_bitarray_{cls} cfg w s : 0 <= w < 2 ^ 32 -> {cube} w ->
  from_bitarray_dispatch cfg enc_{cls} w s = Ok (Some (code_{ab}, [w; bit w 20; bits w 15 12; ARMExpandImm (bits w 11 0)])) s.
'''+FB.replace('{cls}',cls).replace('HCUBE','(_ & _ & _ & _ & _ & _ & _ & _ & _ & Hr)')
    st=f'''  ArmV6_fetch_instruction cfg s = Ok w s1 ->
  0 <= w < 2 ^ 32 -> {cube} w -> iset_of s1 = 0 -> ictx cfg s1 -> cond_holds s1 ->
  let d := bits w 15 12 in let imm32 := ARMExpandImm (bits w 11 0) in
  let op := (code_{ab}, [w; bit w 20; d; imm32]) in
  exists s2,
    dp_sem cfg {op} (bit w 20) (Some d) 13 (Op2Imm imm32 0) (begin_instr s1 op) = Ok tt s2 /\\
'''+TAIL
    body+=f'Theorem {low}_step cfg s w s1 :\n'+st+f'''Proof.
  intros Hf Hw Hcube Hi Hctx Hcond. pose_all_ranges. intros d imm32 op.
  pose proof Hcube as (_ & _ & _ & _ & _ & _ & _ & _ & _ & Hr). split_regs.
  assert (Qd : 0 <= d <= 14) by (unfold d; lia).
  assert (Wi : word imm32) by (apply word_ARMExpandImm; lia).
  apply (dp_imm_step cfg s w s1 enc_{cls} op {op} (bit w 20) d 13 imm32 0 Hf); try lia; try assumption.
  - apply decode_{cls}; assumption.
  - apply from_bitarray_{cls}; assumption.
  - change (execute_dispatch cfg op (begin_instr s1 op)) with ({ab}_execute cfg w (bit w 20) d imm32 (begin_instr s1 op)).
    apply {ab}_sem; try lia; try exact Wi; [apply ictx_begin; exact Hctx|apply cond_holds_begin; exact Hcond].
Qed.
'''
    props+=f'Theorem C01_{low}_step cfg s w s1 :\n'+st+f'Proof. exact ({low}_step cfg s w s1). Qed.\nPrint Assumptions C01_{low}_step.\n'
for cls,o,op,ab in (('AddSpPlusRegisterArmA1','0 1 0 0','ADD','AddSpPlusRegisterArm'),('SubSpMinusRegisterA1','0 0 1 0','SUB','SubSpMinusRegister')):
    low=cls[0].lower()+cls[1:]
    cube=f'is_sp_reg_a1 {o}'
    body+=dec(cls,cube,'(Hc & H27 & H26 & H25 & H24 & H23 & H22 & H21 & H4 & Hrn & Hr)','dec_step dec_arm_data_processing_register. pose_expand w 24 21. ops_if. reflexivity.')
    body+=f'''Lemma from_bitarray_{cls} cfg w s : 0 <= w < 2 ^ 32 -> {cube} w ->
  from_bitarray_dispatch cfg enc_{cls} w s = Ok (Some (code_{ab}, [w; bit w 20; bits w 3 0; bits w 15 12; fst (DecodeImmShift (bits w 6 5) (bits w 11 7)); snd (DecodeImmShift (bits w 6 5) (bits w 11 7))])) s.
'''+FB.replace('{cls}',cls).replace('HCUBE','(_ & _ & _ & _ & _ & _ & _ & _ & _ & _ & Hr)')
    st=f'''  ArmV6_fetch_instruction cfg s = Ok w s1 ->
  0 <= w < 2 ^ 32 -> {cube} w -> iset_of s1 = 0 -> ictx cfg s1 -> cond_holds s1 ->
  let d := bits w 15 12 in let m := bits w 3 0 in
  let sh := DecodeImmShift (bits w 6 5) (bits w 11 7) in
  let op := (code_{ab}, [w; bit w 20; m; d; fst sh; snd sh]) in
  exists s2,
    dp_sem cfg {op} (bit w 20) (Some d) 13 (Op2Reg m (fst sh) (snd sh)) (begin_instr s1 op) = Ok tt s2 /\\
'''+TAIL
    body+=f'Theorem {low}_step cfg s w s1 :\n'+st+f'''Proof.
  intros Hf Hw Hcube Hi Hctx Hcond. pose_all_ranges. intros d m sh op.
  pose proof Hcube as (_ & _ & _ & _ & _ & _ & _ & _ & _ & _ & Hr). split_regs.
  assert (Qd : 0 <= d <= 14) by (unfold d; lia). assert (Qm : 0 <= m <= 15) by (unfold m; lia).
  assert (Hsh : valid_shift (fst sh) (snd sh)) by (unfold sh; apply DecodeImmShift_valid; lia).
  apply (dp_step cfg s w s1 enc_{cls} op {op} (bit w 20) d 13 (Op2Reg m (fst sh) (snd sh)) Hf); try lia; try assumption.
  - apply decode_{cls}; assumption.
  - apply from_bitarray_{cls}; assumption.
  - change (execute_dispatch cfg op (begin_instr s1 op)) with ({ab}_execute cfg w (bit w 20) m d (fst sh) (snd sh) (begin_instr s1 op)).
    apply {ab}_sem; try lia; try exact Hsh; [apply ictx_begin; exact Hctx|apply cond_holds_begin; exact Hcond].
  - split; assumption.
Qed.
'''
    props+=f'Theorem C01_{low}_step cfg s w s1 :\n'+st+f'Proof. exact ({low}_step cfg s w s1). Qed.\nPrint Assumptions C01_{low}_step.\n'
# MOVW A2
cls='MovImmediateA2'; low='movImmediateA2'
body+=dec(cls,'is_movw_a2','(Hc & H27 & H26 & H25 & H24 & H23 & H22 & H21 & H20 & Hr)','reflexivity.','pose_expand w 24 20. ')
body+='''Lemma from_bitarray_MovImmediateA2 cfg w s : 0 <= w < 2 ^ 32 -> is_movw_a2 w ->
  from_bitarray_dispatch cfg enc_MovImmediateA2 w s = Ok (Some (code_MovImmediate, [w; 0; bits w 15 12; bits w 19 16 * 2 ^ 12 + bits w 11 0; 0])) s.
'''+FB.replace('{cls}',cls).replace('HCUBE','(_ & _ & _ & _ & _ & _ & _ & _ & _ & Hr)')
st='''  ArmV6_fetch_instruction cfg s = Ok w s1 ->
  0 <= w < 2 ^ 32 -> is_movw_a2 w -> iset_of s1 = 0 -> ictx cfg s1 -> cond_holds s1 ->
  let d := bits w 15 12 in let imm16 := bits w 19 16 * 2 ^ 12 + bits w 11 0 in
  let op := (code_MovImmediate, [w; 0; d; imm16; 0]) in
  exists s2,
    dp_sem cfg MOV 0 (Some d) 0 (Op2Imm imm16 0) (begin_instr s1 op) = Ok tt s2 /\\
'''+TAIL
body+='Theorem movImmediateA2_step cfg s w s1 :\n'+st+'''Proof.
  intros Hf Hw Hcube Hi Hctx Hcond. pose_all_ranges. intros d imm16 op.
  pose proof Hcube as (_ & _ & _ & _ & _ & _ & _ & _ & _ & Hr). split_regs.
  assert (Qd : 0 <= d <= 14) by (unfold d; lia).
  assert (Wi : word imm16) by (unfold word, imm16; lia).
  apply (dp_imm_step cfg s w s1 enc_MovImmediateA2 op MOV 0 d 0 imm16 0 Hf); try lia; try assumption.
  - apply decode_MovImmediateA2; assumption.
  - apply from_bitarray_MovImmediateA2; assumption.
  - change (execute_dispatch cfg op (begin_instr s1 op)) with (MovImmediate_execute cfg w 0 d imm16 0 (begin_instr s1 op)).
    apply MovImmediate_sem; try lia; try exact Wi; [apply ictx_begin; exact Hctx|apply cond_holds_begin; exact Hcond].
Qed.
'''
props+='Theorem C01_movImmediateA2_step cfg s w s1 :\n'+st+'Proof. exact (movImmediateA2_step cfg s w s1). Qed.\nPrint Assumptions C01_movImmediateA2_step.\n'
open('/tmp/coqdev/theories/Proofs/StepInstancesSpArm.v','w').write(hdr+body)
open('/tmp/opproto/spa_props_add.txt','w').write(props)
