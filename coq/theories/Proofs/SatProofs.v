(* Proofs/SatProofs.v — SSAT, USAT, SSAT16, USAT16 and PKH proved equal to Spec/Arith2.v. *)
From Coq Require Import ZArith List Bool Lia ZifyBool.
From ArmV Require Import Lib.PyZ Lib.Monad Lib.Machine Spec.Pseudocode Spec.Expected Spec.Arch Spec.DPSem
  Proofs.BitLemmas Proofs.SpecFacts Proofs.BitsOps Proofs.BitsOps2 Proofs.ShiftOps Proofs.FieldsProofs Proofs.StateLemmas
  Proofs.CondProofs Proofs.GuardProofs Proofs.BankProofs Proofs.MachineOps Proofs.DPLemmas Proofs.DPTactics Proofs.BranchProofs
  Proofs.LSProofs Proofs.BlockProofs Spec.MachineView Spec.Arith Spec.Arith2 Proofs.ArithProofs Proofs.ArithProofs2 Proofs.ParProofs
  Proofs.ExtProofs Proofs.ExtProofs2 Proofs.DspProofs.
From Gen Require Import enums bits_ops shift regviews records hubm opsyn core exec.
Import ListNotations.
Open Scope Z_scope.
(* a sentence that runs this long no longer matches the code it was written for: fail instead of searching *)
Set Default Timeout 240.
Ltac Zify.zify_post_hook ::= Z.to_euclidean_division_equations.

Lemma SignedSatQ_rng x n r sat : 0 < n -> SignedSatQ x n = (r, sat) -> 0 <= r < 2 ^ n /\ 0 <= sat <= 1.
Proof.
  intros Hn ES. unfold SignedSatQ in ES. pose proof (pow_pos n ltac:(lia)).
  destruct (_ >? _); [inversion ES; subst; split; [apply Z.mod_pos_bound|]; lia|].
  destruct (_ <? _); inversion ES; subst; (split; [apply Z.mod_pos_bound|]; lia).
Qed.
Lemma UnsignedSatQ_rng x n r sat : 0 <= n -> UnsignedSatQ x n = (r, sat) -> 0 <= r < 2 ^ n /\ 0 <= sat <= 1.
Proof.
  intros Hn ES. unfold UnsignedSatQ in ES. pose proof (pow_pos n ltac:(lia)).
  destruct (_ >? _) eqn:E1; [inversion ES; subst; lia|].
  destruct (_ <? _) eqn:E2; inversion ES; subst; lia.
Qed.

(* the shifted operand, as both SSAT and USAT and PKH compute it *)
Lemma shift_operand {A} cfg s n shift_t shift_n (k : Z -> M machine A) : ictx cfg s -> 0 <= n <= 14 -> valid_shift shift_t shift_n ->
  bind (Registers_get cfg n) (fun t_2 => bind (get_sys 0) (fun r_3 => bind (lift (shift t_2 32 shift_t shift_n (CPSR_get_c r_3))) k)) s
  = k (fst (Shift_C 32 (rget s n) shift_t shift_n (psr_C (cpsr_of s)))) s.
Proof.
  intros H Hn [Hs Ht]. getr cfg H. wordr cfg H s n W. rewrite run_get_sys_bind. rewrite get_c_bit.
  rewrite (b_lift _ _ _ _ (shift_spec 32 (rget s n) shift_t shift_n _ ltac:(lia) W Hs Ht)). reflexivity.
Qed.
Lemma shift_operand_word cfg s n shift_t shift_n : ictx cfg s -> 0 <= n <= 14 -> valid_shift shift_t shift_n ->
  word (fst (Shift_C 32 (rget s n) shift_t shift_n (psr_C (cpsr_of s)))).
Proof.
  intros H Hn Hv. wordr cfg H s n W. apply (Shift_C_range 32 (rget s n) shift_t shift_n (psr_C (cpsr_of s)) ltac:(lia) W (psr_C_range _) Hv).
Qed.
Lemma q1_tail cfg s d r sat : ictx cfg s -> 0 <= d <= 14 -> word r ->
  bind (Registers_set cfg d r) (fun _ =>
  bind (if truthy sat then bind (get_sys 0) (fun r_6 => bind (put_sys 0 (CPSR_set_q r_6 1)) (fun _ => ret tt)) else ret tt)
       (fun _ => ret tt)) s
  = Ok tt (let s1 := rset s d r in if sat =? 0 then s1 else setQ s1).
Proof.
  intros H Hd Wr. rewrite (b_set cfg) by (try exact H; lia).
  assert (H1 : ictx cfg (rset s d r)) by (apply ictx_rset; [exact H|lia|exact Wr]).
  cbv zeta. unfold truthy. destruct (sat =? 0); cbn [negb]; [reflexivity|].
  unfold setQ. abit cfg CPSR_set_q 27 H1. reflexivity.
Qed.

Theorem Ssat_ok cfg instr saturate_to d n shift_t shift_n s : ictx cfg s -> cond_holds s -> 1 <= saturate_to <= 32 -> 0 <= d <= 14 -> 0 <= n <= 14 ->
  valid_shift shift_t shift_n ->
  Ssat_execute cfg instr saturate_to d n shift_t shift_n s = Ok tt (Ssat_sem (cfg_arch_version cfg) s saturate_to d n shift_t shift_n).
Proof.
  intros H Hc Hs Hd Hn Hv. unfold Ssat_execute, Ssat_sem. rewrite guard_pass by exact Hc. rewrite bind_ret_tt.
  rewrite (shift_operand cfg) by assumption. cbv zeta.
  pose proof (shift_operand_word cfg s n shift_t shift_n H Hn Hv) as Wo. set (o := fst _) in *.
  rewrite to_signed_SInt by (try lia; exact Wo). fold (s32 o). rewrite signed_sat_q_spec.
  destruct (SignedSatQ (s32 o) saturate_to) as [r sat] eqn:ES. destruct (SignedSatQ_rng (s32 o) saturate_to r sat ltac:(lia) ES) as [Rr Rs].
  rewrite sign_extend_spec by (try lia; exact Rr). apply q1_tail; try assumption.
  unfold word. apply SignExtend_range. lia.
Qed.
Theorem Usat_ok cfg instr saturate_to d n shift_t shift_n s : ictx cfg s -> cond_holds s -> 0 <= saturate_to <= 31 -> 0 <= d <= 14 -> 0 <= n <= 14 ->
  valid_shift shift_t shift_n ->
  Usat_execute cfg instr saturate_to d n shift_t shift_n s = Ok tt (Usat_sem (cfg_arch_version cfg) s saturate_to d n shift_t shift_n).
Proof.
  intros H Hc Hs Hd Hn Hv. unfold Usat_execute, Usat_sem. rewrite guard_pass by exact Hc. rewrite bind_ret_tt.
  rewrite (shift_operand cfg) by assumption. cbv zeta.
  pose proof (shift_operand_word cfg s n shift_t shift_n H Hn Hv) as Wo. set (o := fst _) in *.
  rewrite to_signed_SInt by (try lia; exact Wo). fold (s32 o). rewrite unsigned_sat_q_spec.
  destruct (UnsignedSatQ (s32 o) saturate_to) as [r sat] eqn:ES. destruct (UnsignedSatQ_rng (s32 o) saturate_to r sat ltac:(lia) ES) as [Rr Rs].
  apply q1_tail; try assumption. unfold word. split; [lia|]. apply Z.lt_le_trans with (2 ^ saturate_to); [lia|]. apply Z.pow_le_mono_r; lia.
Qed.

Lemma q2_tail cfg s d r sat1 sat2 : ictx cfg s -> 0 <= d <= 14 -> word r ->
  bind (Registers_set cfg d r) (fun _ =>
  bind (if truthy sat1 || truthy sat2 then bind (get_sys 0) (fun r_5 => bind (put_sys 0 (CPSR_set_q r_5 1)) (fun _ => ret tt)) else ret tt)
       (fun _ => ret tt)) s
  = Ok tt (let s1 := rset s d r in if (sat1 =? 0) && (sat2 =? 0) then s1 else setQ s1).
Proof. exact (qd_tail cfg s d r sat1 sat2). Qed.
Lemma chain_pack hi lo : 0 <= lo < 2 ^ 16 -> 0 <= hi < 2 ^ 16 -> chain hi lo 16 = pack16 lo hi.
Proof. intros Hl Hh. rewrite chain_spec by lia. unfold pack16. rewrite !Z.mod_small by lia. lia. Qed.

Theorem Ssat16_ok cfg instr saturate_to d n s : ictx cfg s -> cond_holds s -> 1 <= saturate_to <= 16 -> 0 <= d <= 14 -> 0 <= n <= 14 ->
  Ssat16_execute cfg instr saturate_to d n s = Ok tt (Ssat16_sem (cfg_arch_version cfg) s saturate_to d n).
Proof.
  intros H Hc Hs Hd Hn. unfold Ssat16_execute, Ssat16_sem. rewrite guard_pass by exact Hc. rewrite bind_ret_tt.
  getr cfg H. rewrite s16_lo, s16_hi. fold (lo16 (rget s n)). fold (hi16 (rget s n)). fold (s16 (lo16 (rget s n))). fold (s16 (hi16 (rget s n))).
  rewrite !signed_sat_q_spec.
  destruct (SignedSatQ (s16 (lo16 (rget s n))) saturate_to) as [r1 q1] eqn:E1.
  destruct (SignedSatQ (s16 (hi16 (rget s n))) saturate_to) as [r2 q2] eqn:E2.
  destruct (SignedSatQ_rng (s16 (lo16 (rget s n))) saturate_to r1 q1 ltac:(lia) E1) as [R1 _].
  destruct (SignedSatQ_rng (s16 (hi16 (rget s n))) saturate_to r2 q2 ltac:(lia) E2) as [R2 _].
  rewrite !sign_extend_spec by (try lia; assumption).
  rewrite chain_pack by (apply SignExtend_range; lia).
  apply q2_tail; try assumption. apply pack16_word.
Qed.
Theorem Usat16_ok cfg instr saturate_to d n s : ictx cfg s -> cond_holds s -> 0 <= saturate_to <= 15 -> 0 <= d <= 14 -> 0 <= n <= 14 ->
  Usat16_execute cfg instr saturate_to d n s = Ok tt (Usat16_sem (cfg_arch_version cfg) s saturate_to d n).
Proof.
  intros H Hc Hs Hd Hn. unfold Usat16_execute, Usat16_sem. rewrite guard_pass by exact Hc. rewrite bind_ret_tt.
  getr cfg H. rewrite s16_lo, s16_hi. fold (lo16 (rget s n)). fold (hi16 (rget s n)). fold (s16 (lo16 (rget s n))). fold (s16 (hi16 (rget s n))).
  rewrite !unsigned_sat_q_spec.
  destruct (UnsignedSatQ (s16 (lo16 (rget s n))) saturate_to) as [r1 q1] eqn:E1.
  destruct (UnsignedSatQ (s16 (hi16 (rget s n))) saturate_to) as [r2 q2] eqn:E2.
  destruct (UnsignedSatQ_rng (s16 (lo16 (rget s n))) saturate_to r1 q1 ltac:(lia) E1) as [R1 _].
  destruct (UnsignedSatQ_rng (s16 (hi16 (rget s n))) saturate_to r2 q2 ltac:(lia) E2) as [R2 _].
  assert (P : 2 ^ saturate_to <= 2 ^ 16) by (apply Z.pow_le_mono_r; lia).
  rewrite chain_pack by lia.
  apply q2_tail; try assumption. apply pack16_word.
Qed.

Theorem Pkh_ok cfg instr tb_form m d n shift_t shift_n s : ictx cfg s -> cond_holds s -> 0 <= m <= 14 -> 0 <= d <= 14 -> 0 <= n <= 14 ->
  valid_shift shift_t shift_n ->
  Pkh_execute cfg instr tb_form m d n shift_t shift_n s = Ok tt (Pkh_sem (cfg_arch_version cfg) s tb_form m d n shift_t shift_n).
Proof.
  intros H Hc Hm Hd Hn Hv. unfold Pkh_execute, Pkh_sem. rewrite guard_pass by exact Hc. rewrite bind_ret_tt.
  rewrite (shift_operand cfg) by assumption. cbv zeta. set (o := fst _).
  assert (L : forall x, 0 <= bits x 15 0 < 2 ^ 16) by (intros x; apply (bits_range x 15 0); lia).
  assert (U : forall x, 0 <= bits x 31 16 < 2 ^ 16) by (intros x; apply (bits_range x 31 16); lia).
  unfold truthy, lo16, hi16. destruct (tb_form =? 0); cbn [negb].
  - mnorm. getr cfg H. mnorm. rewrite !substring_bits by lia. rewrite chain_pack by auto.
    rewrite bind_ret_tt, reg_set; [reflexivity|lia|apply H|apply H].
  - mnorm. getr cfg H. mnorm. rewrite !substring_bits by lia. rewrite chain_pack by auto.
    rewrite bind_ret_tt, reg_set; [reflexivity|lia|apply H|apply H].
Qed.
