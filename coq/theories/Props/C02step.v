(* Props/C02step.v — C02 end to end for one encoding: STR<c> Rt, [Rn, #+/-imm12], offset / pre-indexed / post-indexed (ARM, A1).
   For every word of the encoding (cond != 1111, 010 P U 0 W 0, not the STRT form P = 0 W = 1, Rn and Rt in r0-r12 and different)
   and every state whose condition holds, ONE emulate_cycle is the architectural STORE (Spec/LoadStore.v) through the emulator's MemU:
   if the access succeeds the base is written back (when P = 0 or W = 1), ITSTATE advances inside an IT block and the PC moves on
   by four; if it aborts, the step is exactly the exception entry applied to the state the abort left — no write-back, no PC
   advance (C11 gives the entry, C13/C14 give MemU).  `wr_ok` is the memory hypothesis of the C02 theorems (shown satisfiable on
   flat maps in Props/C02.v).  Statements only (proofs in Proofs/StepInstancesStore.v). *)
From Coq Require Import ZArith Bool List.
From ArmV Require Import Lib.PyZ Lib.Monad Lib.Machine Spec.Pseudocode Spec.Arch Spec.MachineView Spec.Branches Spec.StepFrame
  Spec.OperandSpec Spec.LoadStore
  Proofs.StateLemmas Proofs.CondProofs Proofs.GuardProofs Proofs.DPLemmas Proofs.LSProofs Proofs.ExcProofs Proofs.StepProofs
  Proofs.StepInstancesStore Proofs.StepInstancesLoad Proofs.StepFetch Proofs.StepClosed Proofs.StepInstancesStoreExample.
From ArmV Require Import Proofs.MemProofs.
From Gen Require Import enums opsyn core exec conc decoders step.
Import ListNotations.
Open Scope Z_scope.

(* any instruction whose body raises: the step is the dispatch of that exception (Props/C11.v) on the state the body left *)
Theorem C02_step_raises cfg s w s1 cls op e s2 :
  ArmV6_fetch_instruction cfg s = Ok w s1 ->
  ArmV6_decode_instruction w s1 = Ok (Some cls) s1 ->
  from_bitarray_dispatch cfg cls w s1 = Ok (Some op) s1 ->
  execute_dispatch cfg op (begin_instr s1 op) = Exc e s2 ->
  ArmV6_emulate_cycle cfg s = dispatch cfg (Exc e s2).
Proof. exact (step_raises cfg s w s1 cls op e s2). Qed.
Print Assumptions C02_step_raises.

Theorem C02_str_imm_a1_step cfg s w s1 :
  ArmV6_fetch_instruction cfg s = Ok w s1 ->
  0 <= w < 2 ^ 32 -> is_str_imm_a1 w -> iset_of s1 = 0 -> ictx cfg s1 -> cond_holds s1 ->
  let t := bits w 15 12 in let n := bits w 19 16 in let imm32 := bits w 11 0 in
  let op := (code_StrImmediateArm, [w; bit w 23; str_wback w; bit w 24; t; n; imm32]) in
  let s0 := begin_instr s1 op in
  wr_ok cfg (ArmV6_mem_u_set cfg) s0 4 ->
  ArmV6_emulate_cycle cfg s =
  match STORE (ArmV6_mem_u_set cfg) 4 s0 (rget s0 n) imm32 (bit w 23) (bit w 24) (str_wback w) n (rget s0 t) with
  | Ok _ s2 => Ok tt (AdvancePC (it_step_after s1 s2))
  | Exc e s2 => dispatch cfg (Exc e s2)
  end.
Proof. exact (str_imm_a1_step cfg s w s1). Qed.
Print Assumptions C02_str_imm_a1_step.

(* the same on a flat memory map (PMSA, MPU off), with the memory hypothesis discharged *)
Theorem C02_str_imm_a1_step_flat cfg s w s1 :
  ArmV6_fetch_instruction cfg s = Ok w s1 ->
  0 <= w < 2 ^ 32 -> is_str_imm_a1 w -> iset_of s1 = 0 -> ictx cfg s1 -> cond_holds s1 -> flat cfg s1 ->
  let t := bits w 15 12 in let n := bits w 19 16 in let imm32 := bits w 11 0 in
  let op := (code_StrImmediateArm, [w; bit w 23; str_wback w; bit w 24; t; n; imm32]) in
  let s0 := begin_instr s1 op in
  ArmV6_emulate_cycle cfg s =
  match STORE (ArmV6_mem_u_set cfg) 4 s0 (rget s0 n) imm32 (bit w 23) (bit w 24) (str_wback w) n (rget s0 t) with
  | Ok _ s2 => Ok tt (AdvancePC (it_step_after s1 s2))
  | Exc e s2 => dispatch cfg (Exc e s2)
  end.
Proof. exact (str_imm_a1_step_flat cfg s w s1). Qed.
Print Assumptions C02_str_imm_a1_step_flat.

(* LDR<c> Rt, [Rn, #+/-imm12] (ARM, A1; cond != 1111, 010 P U 0 W 1, not LDRT, Rn and Rt in r0-r12 and different): the
   architectural LOAD — address, base write-back, rotation of a legacy unaligned word — then ITAdvance and the PC advance; on an
   abort only the exception entry *)
Theorem C02_ldr_imm_a1_step cfg s w s1 :
  ArmV6_fetch_instruction cfg s = Ok w s1 ->
  0 <= w < 2 ^ 32 -> is_ldr_imm_a1 w -> iset_of s1 = 0 -> ictx cfg s1 -> cond_holds s1 ->
  let t := bits w 15 12 in let n := bits w 19 16 in let imm32 := bits w 11 0 in
  let op := (code_LdrImmediateArm, [w; bit w 23; str_wback w; bit w 24; t; n; imm32]) in
  let s0 := begin_instr s1 op in
  rd_ok cfg (ArmV6_mem_u_get cfg) s0 4 ->
  ArmV6_emulate_cycle cfg s =
  match LOAD (ArmV6_mem_u_get cfg) (cfg_arch_version cfg) (cfg_jazelle_accepts_execution cfg) LWordArm s0 (rget s0 n) imm32
             (bit w 23) (bit w 24) (str_wback w) n t with
  | Ok _ s2 => Ok tt (AdvancePC (it_step_after s1 s2))
  | Exc e s2 => dispatch cfg (Exc e s2)
  end.
Proof. exact (ldr_imm_a1_step cfg s w s1). Qed.
Print Assumptions C02_ldr_imm_a1_step.

(* the hypotheses are satisfiable: STR r2, [r1, #4] in Supervisor mode on a flat memory map *)
Example C02_str_imm_a1_step_example :
  exists o, ArmV6_emulate_cycle ex4_cfg ex4_s = o /\
  o = match STORE (ArmV6_mem_u_set ex4_cfg) 4 (begin_instr ex4_s1 (code_StrImmediateArm, [ex4_w; 1; 0; 1; 2; 1; 4]))
                  (rget ex4_s1 1) 4 1 1 0 1 (rget ex4_s1 2) with
      | Ok _ s2 => Ok tt (AdvancePC (it_step_after ex4_s1 s2))
      | Exc e s2 => dispatch ex4_cfg (Exc e s2)
      end.
Proof. exact str_imm_a1_step_example. Qed.
Print Assumptions C02_str_imm_a1_step_example.

(* no hypothesis left about the stages of the cycle or the memory: ARM state, flat memory map, word-aligned PC *)
Theorem C02_str_imm_a1_closed cfg s :
  flat cfg s -> ictx cfg s -> iset_of s = 0 -> pc_of s mod 4 = 0 ->
  let w := fetched_arm s in let s1 := after_fetch_arm s in
  is_str_imm_a1 w -> cond_holds s1 ->
  let t := bits w 15 12 in let n := bits w 19 16 in let imm32 := bits w 11 0 in
  let op := (code_StrImmediateArm, [w; bit w 23; str_wback w; bit w 24; t; n; imm32]) in
  let s0 := begin_instr s1 op in
  ArmV6_emulate_cycle cfg s =
  match STORE (ArmV6_mem_u_set cfg) 4 s0 (rget s0 n) imm32 (bit w 23) (bit w 24) (str_wback w) n (rget s0 t) with
  | Ok _ s2 => Ok tt (AdvancePC (it_step_after s1 s2))
  | Exc e s2 => dispatch cfg (Exc e s2)
  end.
Proof. exact (str_imm_a1_closed cfg s). Qed.
Print Assumptions C02_str_imm_a1_closed.
