(* Proofs/DPRange.v — C10, range invariant for the data-processing family: whatever dp_sem computes (any of the thirteen
   operations, any operand form, any destination incl. the PC, flags or not), every general register, the PC and the CPSR
   still hold 32-bit values and the mode is unchanged (ictx). *)
Set Default Timeout 240.
From Coq Require Import ZArith List Bool Lia ZifyBool.
From ArmV Require Import Lib.PyZ Lib.Monad Lib.Machine Spec.Pseudocode Spec.Arch Spec.MachineView Spec.Branches Spec.DPSem
  Proofs.SpecFacts Proofs.ArchFacts Proofs.StateLemmas Proofs.CondProofs Proofs.BankProofs Proofs.MachineOps
  Proofs.DPLemmas Proofs.DPTactics Proofs.BranchProofs Proofs.BlockProofs Proofs.StepProofs Proofs.StepDP.
Import ListNotations.
Open Scope Z_scope.

Definition op2_valid (o : operand2) : Prop :=
  match o with
  | Op2Imm imm c => word imm /\ 0 <= c <= 1
  | Op2Reg m t n => 0 <= m <= 15 /\ valid_shift t n
  | Op2RegReg m t rs => 0 <= m <= 15 /\ 0 <= rs <= 15 /\ (t = SRType_LSL \/ t = SRType_LSR \/ t = SRType_ASR \/ t = SRType_ROR)
  | Op2Plain m => 0 <= m <= 15
  end.

Lemma eval_op2_range cfg s o : ictx cfg s -> op2_valid o ->
  word (fst (eval_op2 s o)) /\ match snd (eval_op2 s o) with Some c => 0 <= c <= 1 | None => True end.
Proof.
  intros Hctx Hv. destruct o as [imm c|m t n|m t rs|m]; cbn [eval_op2 op2_valid fst snd] in *.
  - exact Hv.
  - destruct Hv as [Hm Hs]. cbv zeta. cbn [fst snd].
    apply (Shift_C_range 32 (rget s m) t n (psr_C (cpsr_of s))); try lia; [apply (word_rget cfg); assumption|apply psr_C_range|exact Hs].
  - destruct Hv as (Hm & Hrs & Ht). cbv zeta. cbn [fst snd].
    apply (Shift_C_range 32 (rget s m) t (rget s rs mod 2 ^ 8) (psr_C (cpsr_of s))); try lia;
      [apply (word_rget cfg); assumption|apply psr_C_range|].
    split; [apply Z.mod_pos_bound; lia|]. destruct Ht as [-> | [-> | [-> | ->]]]; auto.
  - split; [apply (word_rget cfg); assumption|exact I].
Qed.

Lemma ictx_alu_write_pc cfg s d : ictx cfg s -> word d ->
  ictx cfg (apply_pc s (ALUWritePC (cfg_arch_version cfg) (cpsr_of s) (cfg_jazelle_accepts_execution cfg) d)).
Proof.
  intros H Hd. pose proof (ok_cpsr _ _ (i_ok _ _ H)) as Hw.
  unfold ALUWritePC, BXWritePC, BranchWritePC, SelectInstrSet.
  repeat match goal with |- context [if ?c then _ else _] => destruct c end;
    apply ictx_apply_pc; try exact H; try exact Hw; try reflexivity; try (apply word_with_iset; exact Hw);
    try (apply psr_M_with_iset; exact Hw); intros a Ea; inversion Ea; subst; try exact Hd; try (apply word_clear_low; [exact Hd|lia]); discriminate.
Qed.

Theorem dp_sem_ictx cfg opA S dest n o s s' : ictx cfg s -> 0 <= n <= 15 -> op2_valid o ->
  match dest with Some d => 0 <= d <= 15 | None => True end ->
  dp_sem cfg opA S dest n o s = Ok tt s' -> ictx cfg s'.
Proof.
  intros Hctx Hn Ho Hd. unfold dp_sem.
  destruct (eval_op2_range cfg s o Hctx Ho) as [W2 Wc]. destruct (eval_op2 s o) as [op2 shc]. cbn [fst snd] in W2, Wc.
  pose proof (dp_alu_range opA (rget s n) op2 (psr_C (cpsr_of s)) (word_rget cfg s n Hctx Hn) W2 (psr_C_range _)) as [Wr Wf].
  destruct (dp_alu opA (rget s n) op2 (psr_C (cpsr_of s))) as [result cv]. cbn [fst snd] in Wr, Wf.
  assert (Wfl : forall p, word p ->
            word (with_flags p result (match cv with Some (c, _) => Some c | None => shc end) (match cv with Some (_, v) => Some v | None => None end)) /\
            psr_M (with_flags p result (match cv with Some (c, _) => Some c | None => shc end) (match cv with Some (_, v) => Some v | None => None end)) = psr_M p).
  { intros p Hp. apply with_flags_ok; [exact Hp| |].
    - destruct cv as [[c0 v0]|]; [apply Wf|exact Wc].
    - destruct cv as [[c0 v0]|]; [apply Wf|exact I]. }
  pose proof (ok_cpsr cfg s (i_ok cfg s Hctx)) as Wp.
  destruct dest as [d|].
  - destruct (d =? 15) eqn:E15.
    + intros H. inversion H. apply ictx_alu_write_pc; assumption.
    + assert (Hrs : ictx cfg (rset s d result)) by (apply ictx_rset; [exact Hctx|lia|exact Wr]).
      destruct (S =? 0); intros H; inversion H; [exact Hrs|].
      destruct (Wfl (cpsr_of s) Wp) as [A B]. apply ictx_with_cpsr; [exact Hrs|exact A|exact B].
  - intros H. inversion H. destruct (Wfl (cpsr_of s) Wp) as [A B]. apply ictx_with_cpsr; [exact Hctx|exact A|exact B].
Qed.

Lemma ictx_values cfg s : ictx cfg s ->
  (forall k, 0 <= k < 34 -> 0 <= getl (R s) k < 2 ^ 32) /\ 0 <= cpsr_of s < 2 ^ 32 /\ length (R s) = 34%nat.
Proof.
  intros H. split; [exact (i_R_word cfg s H)|]. split; [exact (ok_cpsr cfg s (i_ok cfg s H))|exact (ok_R_len cfg s (i_ok cfg s H))].
Qed.

(* ---- only N, Z, C, V of the CPSR can change when the destination is not the PC: mode, A/I/F, E, T, J, IT, GE, Q are kept ---- *)
Lemma insert_hi_low27 p i x : 0 <= p -> 28 <= i -> 0 <= x <= 1 -> bits (insert p i i x) 27 0 = bits p 27 0 /\ 0 <= insert p i i x.
Proof.
  intros Hp Hi Hx. split; [|apply insert_nonneg; lia]. apply bits_insert_other; try lia.
  replace (i - i + 1) with 1 by lia. change (2 ^ 1) with 2. lia.
Qed.
Lemma with_flags_low27 p r c v : 0 <= p ->
  match c with Some c => 0 <= c <= 1 | None => True end -> match v with Some v => 0 <= v <= 1 | None => True end ->
  bits (with_flags p r c v) 27 0 = bits p 27 0.
Proof.
  intros Hp Hc Hv. unfold with_flags. cbv zeta.
  assert (Hz : 0 <= (if r =? 0 then 1 else 0) <= 1) by (destruct (r =? 0); lia).
  destruct (insert_hi_low27 p 31 (bit r 31) Hp ltac:(lia) (bit_range r 31)) as [E1 N1].
  destruct (insert_hi_low27 _ 30 _ N1 ltac:(lia) Hz) as [E2 N2].
  set (p2 := insert (insert p 31 31 (bit r 31)) 30 30 (if r =? 0 then 1 else 0)) in *.
  assert (H3 : bits (match c with Some c => insert p2 29 29 c | None => p2 end) 27 0 = bits p 27 0 /\
               0 <= match c with Some c => insert p2 29 29 c | None => p2 end).
  { destruct c as [c|]; [|split; [rewrite E2, E1; reflexivity|exact N2]].
    destruct (insert_hi_low27 p2 29 c N2 ltac:(lia) Hc) as [E3 N3]. split; [rewrite E3, E2, E1; reflexivity|exact N3]. }
  destruct H3 as [E3 N3]. destruct v as [v|]; [|exact E3].
  destruct (insert_hi_low27 _ 28 v N3 ltac:(lia) Hv) as [E4 _]. rewrite E4. exact E3.
Qed.

Theorem dp_sem_cpsr_low cfg opA S dest n o s s' : ictx cfg s -> 0 <= n <= 15 -> op2_valid o ->
  match dest with Some d => 0 <= d <= 14 | None => True end ->
  dp_sem cfg opA S dest n o s = Ok tt s' -> bits (cpsr_of s') 27 0 = bits (cpsr_of s) 27 0.
Proof.
  intros Hctx Hn Ho Hd. unfold dp_sem.
  destruct (eval_op2_range cfg s o Hctx Ho) as [W2 Wc]. destruct (eval_op2 s o) as [op2 shc]. cbn [fst snd] in W2, Wc.
  pose proof (dp_alu_range opA (rget s n) op2 (psr_C (cpsr_of s)) (word_rget cfg s n Hctx Hn) W2 (psr_C_range _)) as [Wr Wf].
  destruct (dp_alu opA (rget s n) op2 (psr_C (cpsr_of s))) as [result cv]. cbn [fst snd] in Wr, Wf.
  pose proof (ok_cpsr cfg s (i_ok cfg s Hctx)) as Wp.
  assert (Low : bits (with_flags (cpsr_of s) result (match cv with Some (c, _) => Some c | None => shc end)
                        (match cv with Some (_, v) => Some v | None => None end)) 27 0 = bits (cpsr_of s) 27 0).
  { apply with_flags_low27; [destruct Wp; lia| |].
    - destruct cv as [[c0 v0]|]; [apply Wf|exact Wc].
    - destruct cv as [[c0 v0]|]; [apply Wf|exact I]. }
  assert (Lset : forall st p, (0 < length (sys st))%nat -> cpsr_of (with_cpsr st p) = p).
  { intros st p HL. unfold cpsr_of, with_cpsr. cbn [sys set_sys]. apply getl_setl_same. lia. }
  pose proof (ok_sys_len cfg s (i_ok cfg s Hctx)) as HL.
  destruct dest as [d|].
  - replace (d =? 15) with false by lia.
    destruct (S =? 0); intros H; inversion H.
    + reflexivity.
    + rewrite Lset; [exact Low|]. unfold rset, mark_changed. cbn [sys set_R set_changed]. rewrite HL. unfold enums.n_sys. lia.
  - intros H. inversion H. rewrite Lset; [exact Low|]. rewrite HL. unfold enums.n_sys. lia.
Qed.
