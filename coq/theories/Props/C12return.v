(* Props/C12return.v — C12: exception return by SUBS PC, LR (B9.3.20), ARM (all twelve data-processing opcodes, immediate and
   register forms) and Thumb: the operand value, CPSRWriteByInstr(SPSR[], '1111', TRUE), then BranchWritePC in the restored
   state, for every state of an exception mode.  [ret_ok] excludes the UNPREDICTABLE return to Hyp mode with J and T set.
   Statements only; proofs in Proofs/ReturnProofs.v. *)
From Coq Require Import ZArith Bool List.
From ArmV Require Import Lib.PyZ Lib.Monad Lib.Machine Spec.Pseudocode Spec.Arch Spec.DPSem Spec.MachineView Spec.Exceptions Spec.BlockFamily
  Spec.Return Proofs.StateLemmas Proofs.CondProofs Proofs.GuardProofs Proofs.BankProofs Proofs.MachineOps Proofs.DPLemmas
  Proofs.ReturnProofs.
From Gen Require Import enums core exec.
Import ListNotations.
Open Scope Z_scope.

Theorem C12_SubsPcLrThumb cfg instr imm32 n s : ictx cfg s -> cond_holds s -> 0 <= n <= 14 -> 0 <= imm32 < 2 ^ 32 ->
  mode_of s <> 16 -> mode_of s <> 31 -> iset_of s <> 3 -> ret_ok cfg s ->
  SubsPcLrThumb_execute cfg instr imm32 n s
  = Ok tt (SUBS_PC_LR_thumb (cfg_jazelle_accepts_execution cfg) (have_sec cfg) (have_virt cfg) s imm32 n).
Proof. exact (SubsPcLrThumb_ok cfg instr imm32 n s). Qed.
Print Assumptions C12_SubsPcLrThumb.
Theorem C12_SubsPcLrArm cfg instr register_form n opcode m shift_t shift_n imm32 s :
  ictx cfg s -> cond_holds s -> 0 <= n <= 14 -> 0 <= m <= 14 -> 0 <= imm32 < 2 ^ 32 -> valid_shift shift_t shift_n ->
  (0 <= opcode <= 7 \/ 12 <= opcode <= 15) ->
  mode_of s <> 26 -> mode_of s <> 16 -> mode_of s <> 31 -> ret_ok cfg s ->
  SubsPcLrArm_execute cfg instr register_form n opcode m shift_t shift_n imm32 s
  = Ok tt (SUBS_PC_LR_arm (cfg_jazelle_accepts_execution cfg) (have_sec cfg) (have_virt cfg) s register_form n opcode m shift_t shift_n imm32).
Proof. exact (SubsPcLrArm_ok cfg instr register_form n opcode m shift_t shift_n imm32 s). Qed.
Print Assumptions C12_SubsPcLrArm.
(* [ret_ok] holds whenever the Virtualization Extensions are absent: CPSRWriteByInstr never installs a mode that is not implemented *)
Theorem C12_ret_ok_no_virt cfg s : ictx cfg s -> have_virt cfg = 0 -> ret_ok cfg s.
Proof. exact (ret_ok_no_virt cfg s). Qed.
Print Assumptions C12_ret_ok_no_virt.
