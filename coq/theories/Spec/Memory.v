(* Spec/Memory.v — the memory access model of A3.2 / B2.4 (MemA, MemU): alignment policy, endianness and the
   byte footprint, over the physical memory map of Spec/Hub.v.  Hand-written; imports nothing generated. *)
From Coq Require Import ZArith List Bool.
From ArmV Require Import Lib.PyZ Lib.Monad Lib.Machine Spec.Pseudocode Spec.Arch Spec.MachineView Spec.Hub.
Import ListNotations.
Open Scope Z_scope.

Definition Align (x n : Z) : Z := n * (x / n).
Definition sctlr_of (s : machine) : Z := getl (sys s) 11.
Definition sctlr_A s := bit (sctlr_of s) 1.
Definition sctlr_U s := bit (sctlr_of s) 22.
Definition hsctlr_A s := bit (getl (sys s) 14) 1.
Definition big_endian (s : machine) : bool := psr_E (cpsr_of s) =? 1.

(* data endianness: the value seen by the program for the little-endian memory value v *)
Definition endian (be : bool) (size v : Z) : Z := if be then BigEndianReverse v size else v.

(* MemA: the address actually accessed, or None = alignment fault *)
Definition strict_alignment (arch : Z) (s : machine) : bool :=
  (arch >=? 7) || (sctlr_A s =? 1) || (sctlr_U s =? 1).
Definition MemA_va (arch : Z) (s : machine) (address size : Z) : option Z :=
  if address =? Align address size then Some address
  else if strict_alignment arch s then None else Some (Align address size).

(* aligned read/write of [size] bytes at physical address pa *)
Definition MemA_read (s : machine) (pa size : Z) : Z := endian (big_endian s) size (hub_read (mem s) pa size).
Definition MemA_write (s : machine) (pa size value : Z) : machine :=
  set_mem s (hub_write (mem s) pa size (endian (big_endian s) size value)).

(* MemU: which of the three behaviours applies to an access *)
Inductive memu_kind := MU_aligned (address : Z) | MU_fault (address : Z) | MU_bytes (address : Z).
Definition legacy_align (arch : Z) (s : machine) : bool :=
  (arch <? 7) && (sctlr_A s =? 0) && (sctlr_U s =? 0).
Definition MemU_kind (arch : Z) (have_virt secure : bool) (s : machine) (address size : Z) : memu_kind :=
  let address := if legacy_align arch s then Align address size else address in
  if address =? Align address size then MU_aligned address
  else if have_virt && negb secure && (mode_of s =? M_hyp) && (hsctlr_A s =? 1) then MU_fault address
  else if negb (mode_of s =? M_hyp) && (sctlr_A s =? 1) then MU_fault address
  else MU_bytes address.

(* the value assembled from [size] single-byte reads b_0 .. b_{size-1} (lowest address first) *)
Fixpoint le_combine (bytes : list Z) : Z := match bytes with [] => 0 | b :: t => b + 256 * le_combine t end.

(* ---------- PMSA fault reporting (B5.6): DFAR and DFSR after a synchronous data abort ---------- *)
Definition FS_alignment := 1. Definition FS_background := 0. Definition FS_permission := 13.
Definition i_dfsr := 23. Definition i_dfar := 24.
Definition pmsa_dfsr (old iswrite fs : Z) : Z :=       (* DFSR<13:0> := 0:ExT=0:WnR:FS<4>:000000:FS<3:0> *)
  insert old 13 0 (iswrite * 2 ^ 11 + bit fs 4 * 2 ^ 10 + bits fs 3 0).
Definition pmsa_fault_state (s : machine) (address iswrite fs : Z) : machine :=
  let s1 := set_sys s (setl (sys s) i_dfar address) in
  set_sys s1 (setl (sys s1) i_dfsr (pmsa_dfsr (getl (sys s1) i_dfsr) iswrite fs)).

(* ---------- whole accesses on a flat map (PMSA, MPU disabled): outcome = value/state or alignment Data Abort ---------- *)
Definition DAbort_ALIGNMENT_code := 2.
Definition MemA_get_flat (arch : Z) (s : machine) (address size : Z) : outcome machine Z :=
  match MemA_va arch s address size with
  | Some va => Ok (MemA_read s va size) s
  | None => Exc (EDataAbort DAbort_ALIGNMENT_code 0) (pmsa_fault_state s address 0 FS_alignment)
  end.
Definition MemA_set_flat (arch : Z) (s : machine) (address size value : Z) : outcome machine unit :=
  match MemA_va arch s address size with
  | Some va => Ok tt (MemA_write s va size value)
  | None => Exc (EDataAbort DAbort_ALIGNMENT_code 0) (pmsa_fault_state s address 1 FS_alignment)
  end.
Fixpoint zrange (a : Z) (n : nat) : list Z := match n with O => [] | S k => a :: zrange (a + 1) k end.
(* the addresses of the bytes of an access: they wrap modulo 2^32 *)
Definition byte_addrs (a : Z) (k : Z) (n : nat) : list Z := map (fun i => (a + i) mod 2 ^ 32) (zrange k n).
Definition MemU_get_flat (arch : Z) (have_virt secure : bool) (s : machine) (address size : Z) : outcome machine Z :=
  match MemU_kind arch have_virt secure s address size with
  | MU_aligned a => MemA_get_flat arch s a size
  | MU_fault a => Exc (EDataAbort DAbort_ALIGNMENT_code 0) (pmsa_fault_state s a 0 FS_alignment)
  | MU_bytes a => Ok (endian (big_endian s) size (le_combine (map (fun x => hub_read (mem s) x 1) (byte_addrs a 0 (Z.to_nat size))))) s
  end.
Definition MemU_set_flat (arch : Z) (have_virt secure : bool) (s : machine) (address size value : Z) : outcome machine unit :=
  match MemU_kind arch have_virt secure s address size with
  | MU_aligned a => MemA_set_flat arch s a size value
  | MU_fault a => Exc (EDataAbort DAbort_ALIGNMENT_code 0) (pmsa_fault_state s a 1 FS_alignment)
  | MU_bytes a =>
      let v := endian (big_endian s) size value in
      Ok tt (set_mem s (fst (fold_left (fun hk x => (hub_write (fst hk) x 1 ((v / 256 ^ snd hk) mod 256), snd hk + 1))
                                       (byte_addrs a 0 (Z.to_nat size)) (mem s, 0))))
  end.

(* ---------- PMSA: MPU region lookup and access permissions (B5.3, B5.4) ---------- *)
(* a data region: DRBAR (base), DRSR (enable <0>, size <5:1>, subregion disable <15:8>), DRACR (AP <10:8>) *)
Record region := { rg_base : Z; rg_rsr : Z; rg_racr : Z }.
Definition region_hit (va : Z) (r : region) : bool :=
  let lsbit := bits (rg_rsr r) 5 1 + 1 in
  (bit (rg_rsr r) 0 =? 1)
  && ((lsbit =? 32) || (bits va 31 lsbit =? bits (rg_base r) 31 lsbit))
  && (if lsbit >=? 8 then bit (rg_rsr r) (8 + bits va (lsbit - 1) (lsbit - 3)) =? 0 else true).
(* the matching region: the highest-numbered one that hits *)
Definition mpu_lookup (regions : list region) (va : Z) : option region :=
  fold_left (fun acc r => if region_hit va r then Some r else acc) regions None.
(* CheckPermission for PMSA (AP = 100 and 111 are UNPREDICTABLE: the emulator permits) *)
Definition ap_denies (ap : Z) (ispriv iswrite : bool) : bool :=
  if ap =? 0 then true else if ap =? 1 then negb ispriv else if ap =? 2 then negb ispriv && iswrite
  else if ap =? 5 then negb ispriv || iswrite else if ap =? 6 then iswrite else false.
Definition regions_of (s : machine) (n : nat) : list region :=
  map (fun i => {| rg_base := getl (nth 1 (sysl s) []) i; rg_rsr := getl (nth 0 (sysl s) []) i; rg_racr := getl (nth 2 (sysl s) []) i |})
      (zrange 0 n).
Definition FS_of_dtype (background : bool) : Z := if background then FS_background else FS_permission.
Inductive pmsa_result := P_ok | P_abort (background : bool).
Definition PMSA_check (s : machine) (nregions : nat) (va : Z) (ispriv iswrite : bool) : pmsa_result :=
  if bit (sctlr_of s) 0 =? 0 then P_ok
  else match mpu_lookup (regions_of s nregions) va with
       | Some r =>
           let ap := bits (rg_racr r) 10 8 in
           let ap := if bit (sctlr_of s) 29 =? 1 then insert ap 0 0 1 else ap in
           if ap_denies ap ispriv iswrite then P_abort false else P_ok
       | None => if (bit (sctlr_of s) 17 =? 0) || negb ispriv then P_abort true else P_ok
       end.

(* ---------- instruction fetch (A2.3, A6.1): little-endian whatever CPSR.E; a Thumb halfword whose top five bits are 11101,
   11110 or 11111 is the first half of a 32-bit instruction hw1:hw2 ---------- *)
Definition fetch_spec (s : machine) : Z :=
  let pc := pc_of s in
  if iset_of s =? 0 then hub_read (mem s) pc 4
  else let hw1 := hub_read (mem s) pc 2 in
       if 29 <=? hw1 / 2 ^ 11 then hw1 * 2 ^ 16 + hub_read (mem s) ((pc + 2) mod 2 ^ 32) 2 else hw1.
