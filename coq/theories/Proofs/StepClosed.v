(* Proofs/StepClosed.v — end-to-end statements with no hypothesis left about the stages of the cycle: ARM state, flat memory map
   (PMSA, MPU off), word-aligned PC.  The instruction is whatever word the memory holds at the PC. *)
Set Default Timeout 240.
From Coq Require Import ZArith List Bool Lia ZifyBool.
From ArmV Require Import Lib.PyZ Lib.Monad Lib.Machine Spec.Pseudocode Spec.Arch Spec.MachineView Spec.Branches Spec.StepFrame
  Spec.OperandSpec Spec.DPSem Spec.LoadStore Spec.Hub Spec.Memory
  Proofs.SpecFacts Proofs.StateLemmas Proofs.CondProofs Proofs.GuardProofs Proofs.BankProofs Proofs.MachineOps Proofs.DPLemmas
  Proofs.MemProofs Proofs.LSProofs Proofs.ExcProofs Proofs.StepProofs Proofs.StepDP Proofs.StepInstances Proofs.StepInstancesStore
  Proofs.StepFetch Proofs.OpTac Proofs.StepInstancesThumb2.
From Gen Require Import enums bits_ops shift regviews records hubm opsyn core exec conc decoders step.
Import ListNotations.
Open Scope Z_scope.

Lemma fetched_arm_range cfg s : flat cfg s -> 0 <= fetched_arm s < 2 ^ 32.
Proof. intros (_ & _ & _ & Hh). apply (hub_read_range (mem s) (pc_of s) 4 Hh). lia. Qed.
Lemma ictx_after_fetch cfg s : ictx cfg s -> ictx cfg (after_fetch_arm s).
Proof. intros [[HL HC HR Hw Hm] HRw]. split; [split|]; assumption. Qed.
Lemma flat_after_fetch cfg s : flat cfg s -> flat cfg (after_fetch_arm s).
Proof. intros H. exact H. Qed.

(* ADD{S}<c> Rd, Rn, #const *)
Theorem add_imm_a1_closed cfg s :
  flat cfg s -> ictx cfg s -> iset_of s = 0 -> pc_of s mod 4 = 0 ->
  let w := fetched_arm s in let s1 := after_fetch_arm s in
  is_add_imm_a1 w -> cond_holds s1 ->
  let d := bits w 15 12 in let n := bits w 19 16 in let imm32 := ARMExpandImm (bits w 11 0) in
  let op := (code_AddImmediateArm, [w; bit w 20; d; n; imm32]) in
  exists s2,
    dp_sem cfg ADD (bit w 20) (Some d) n (Op2Imm imm32 0) (begin_instr s1 op) = Ok tt s2 /\
    ArmV6_emulate_cycle cfg s = Ok tt (AdvancePC (it_step_after s1 s2)) /\
    pc_of (AdvancePC (it_step_after s1 s2)) = add32 (pc_of s) 4.
Proof.
  intros Hflat Hctx Hi Hal w s1 Hcube Hcond d n imm32 op.
  destruct (add_imm_a1_step cfg s w s1 (fetch_arm_flat cfg s Hflat Hi Hal) (fetched_arm_range cfg s Hflat) Hcube Hi
              (ictx_after_fetch cfg s Hctx) Hcond) as (s2 & A & B & C).
  exists s2. split; [exact A|]. split; [exact B|]. exact C.
Qed.

(* STR<c> Rt, [Rn, #+/-imm12] (offset, pre-indexed, post-indexed) *)
Theorem str_imm_a1_closed cfg s :
  flat cfg s -> ictx cfg s -> iset_of s = 0 -> pc_of s mod 4 = 0 ->
  let w := fetched_arm s in let s1 := after_fetch_arm s in
  is_str_imm_a1 w -> cond_holds s1 ->
  let t := bits w 15 12 in let n := bits w 19 16 in let imm32 := bits w 11 0 in
  let op := (code_StrImmediateArm, [w; bit w 23; str_wback w; bit w 24; t; n; imm32]) in
  let s0 := begin_instr s1 op in
  ArmV6_emulate_cycle cfg s =
  match STORE (ArmV6_mem_u_set cfg) 4 s0 (rget s0 n) imm32 (bit w 23) (bit w 24) (str_wback w) n (rget s0 t) with
  | Ok _ s2 => Ok tt (AdvancePC (it_step_after s1 s2))
  | Exc e s2 => dispatch cfg (Exc e s2)
  end.
Proof.
  intros Hflat Hctx Hi Hal w s1 Hcube Hcond t n imm32 op s0.
  exact (str_imm_a1_step_flat cfg s w s1 (fetch_arm_flat cfg s Hflat Hi Hal) (fetched_arm_range cfg s Hflat) Hcube Hi
           (ictx_after_fetch cfg s Hctx) Hcond (flat_after_fetch cfg s Hflat)).
Qed.

(* ADD{S} Rd, Rn, #imm3 (Thumb T1), any IT position: Thumb state, flat memory map, halfword-aligned PC *)
Lemma ictx_after_fetch_t16 cfg s : ictx cfg s -> ictx cfg (after_fetch_t16 s).
Proof. intros [[HL HC HR Hw Hm] HRw]. split; [split|]; assumption. Qed.
Lemma fetched_t16_range cfg s : flat cfg s -> 0 <= fetched_t16 s < 2 ^ 16.
Proof. intros (_ & _ & _ & Hh). apply (hub_read_range (mem s) (pc_of s) 2 Hh). lia. Qed.

Theorem add_imm_t1_closed cfg s :
  flat cfg s -> ictx cfg s -> iset_of s = 1 -> pc_of s mod 2 = 0 ->
  let w := fetched_t16 s in let s1 := after_fetch_t16 s in
  is_add_imm_t1 w -> cond_holds s1 ->
  let d := bits w 2 0 in let n := bits w 5 3 in let imm32 := bits w 8 6 in
  let op := (code_AddImmediateThumb, [w; not_in_it s1; d; n; imm32]) in
  exists s2,
    dp_sem cfg ADD (not_in_it s1) (Some d) n (Op2Imm imm32 0) (begin_instr s1 op) = Ok tt s2 /\
    ArmV6_emulate_cycle cfg s = Ok tt (AdvancePC (it_step_after s1 s2)) /\
    pc_of (AdvancePC (it_step_after s1 s2)) = add32 (pc_of s) 2.
Proof.
  intros Hflat Hctx Hi Hal w s1 Hcube Hcond d n imm32 op.
  assert (Hlow : bits (fetched_t16 s) 15 11 < 29).
  { destruct Hcube as [H1 _]. fold w.
    pose proof (OpTac.bits_top' w 15 11 14 ltac:(lia) ltac:(lia)) as T1. change (2 ^ (15 - 11)) with 16 in T1.
    pose proof (OpTac.bits_top' w 15 14 14 ltac:(lia) ltac:(lia)) as T4. change (2 ^ (15 - 14)) with 2 in T4.
    rewrite <- (OpTac.bit_bits_eq w 14) in T4 by lia.
    pose proof (OpTac.bits_top' w 14 11 13 ltac:(lia) ltac:(lia)) as U1. change (2 ^ (14 - 11)) with 8 in U1.
    pose proof (bits_range w 13 11 ltac:(lia)) as R. change (2 ^ (13 - 11 + 1)) with 8 in R.
    pose proof (OpTac.bit_rng w 15). pose proof (OpTac.bit_rng w 14). lia. }
  destruct (add_imm_t1_step cfg s w s1 (fetch_thumb16_flat cfg s Hflat Hi Hal Hlow) (fetched_t16_range cfg s Hflat) Hcube Hi
              ltac:(reflexivity) (ictx_after_fetch_t16 cfg s Hctx) Hcond) as (s2 & A & B & C).
  exists s2. split; [exact A|]. split; [exact B|]. exact C.
Qed.

(* AND{S} Rd, Rn, #const (Thumb, 32-bit T1): Thumb state, flat memory map, halfword-aligned PC; the two halfwords at the PC *)
Lemma ictx_after_fetch_t32 cfg s : ictx cfg s -> ictx cfg (after_fetch_t32 s).
Proof. intros [[HL HC HR Hw Hm] HRw]. split; [split|]; assumption. Qed.
Lemma fetched_t32_range cfg s : flat cfg s -> 0 <= fetched_t32 s < 2 ^ 32.
Proof.
  intros (_ & _ & _ & Hh). unfold fetched_t32.
  pose proof (hub_read_range (mem s) (pc_of s) 2 Hh ltac:(lia)) as R1.
  pose proof (hub_read_range (mem s) ((pc_of s + 2) mod 2 ^ 32) 2 Hh ltac:(lia)) as R2.
  change (2 ^ (8 * 2)) with 65536 in *. change (2 ^ 16) with 65536 in *. change (2 ^ 32) with 4294967296 in *. lia.
Qed.

Theorem and_imm_t1_closed cfg s :
  flat cfg s -> ictx cfg s -> iset_of s = 1 -> pc_of s mod 2 = 0 ->
  let w := fetched_t32 s in let s1 := after_fetch_t32 s in
  is_dp_mi_t32 0 0 0 0 w -> cond_holds s1 ->
  let d := bits w 11 8 in let n := bits w 19 16 in let imm32 := ThumbExpandImm (imm12t w) in
  let c := snd (ThumbExpandImm_C (imm12t w) (cflag s1)) in
  let op := (code_AndImmediate, [w; bit w 20; bits w 11 8; bits w 19 16; ThumbExpandImm (imm12t w); snd (ThumbExpandImm_C (imm12t w) (cflag s1))]) in
  exists s2,
    dp_sem cfg AND (bit w 20) (Some d) n (Op2Imm imm32 c) (begin_instr s1 op) = Ok tt s2 /\
    ArmV6_emulate_cycle cfg s = Ok tt (AdvancePC (it_step_after s1 s2)) /\
    pc_of (AdvancePC (it_step_after s1 s2)) = add32 (pc_of s) 4.
Proof.
  intros Hflat Hctx Hi Hal w s1 Hcube Hcond d n imm32 c op.
  assert (Hhigh : 29 <= bits (fetched_t16 s) 15 11).
  { destruct Hcube as (H31 & H30 & H29 & H28 & H27 & _).
    pose proof Hflat as (_ & _ & _ & Hh).
    pose proof (hub_read_range (mem s) ((pc_of s + 2) mod 2 ^ 32) 2 Hh ltac:(lia)) as R2. change (2 ^ (8 * 2)) with (2 ^ 16) in R2.
    unfold w, fetched_t32 in H31, H30, H29, H28, H27. fold (fetched_t16 s) in H31, H30, H29, H28, H27.
    change 31 with (16 + 15) in H31. change 30 with (16 + 14) in H30. change 29 with (16 + 13) in H29.
    change 28 with (16 + 12) in H28. change 27 with (16 + 11) in H27.
    rewrite bit_high_half in H31, H30, H29, H28, H27 by (try lia; exact R2).
    set (hw := fetched_t16 s) in *.
    pose proof (OpTac.bits_top' hw 15 11 14 ltac:(lia) ltac:(lia)) as T1. change (2 ^ (15 - 11)) with 16 in T1.
    pose proof (OpTac.bits_top' hw 14 11 13 ltac:(lia) ltac:(lia)) as U1. change (2 ^ (14 - 11)) with 8 in U1.
    pose proof (OpTac.bits_top' hw 13 11 12 ltac:(lia) ltac:(lia)) as V1. change (2 ^ (13 - 11)) with 4 in V1.
    pose proof (OpTac.bits_top' hw 12 11 11 ltac:(lia) ltac:(lia)) as W1. change (2 ^ (12 - 11)) with 2 in W1.
    rewrite <- (OpTac.bit_bits_eq hw 11) in W1 by lia. lia. }
  destruct (andImmediateT1_step cfg s w s1 (fetch_thumb32_flat cfg s Hflat Hi Hal Hhigh) (fetched_t32_range cfg s Hflat) Hcube Hi
              ltac:(reflexivity) (ictx_after_fetch_t32 cfg s Hctx) Hcond) as (s2 & A & B & C).
  exists s2. split; [exact A|]. split; [exact B|]. exact C.
Qed.

(* ADD{S}<c> whose condition fails: the whole step is SkipInstr — ARM state, flat memory map, word-aligned PC *)
Theorem add_imm_a1_skipped_closed cfg s :
  flat cfg s -> ictx cfg s -> iset_of s = 0 -> pc_of s mod 4 = 0 ->
  let w := fetched_arm s in let s1 := after_fetch_arm s in
  is_add_imm_a1 w -> cond_fails s1 ->
  let op := (code_AddImmediateArm, [w; bit w 20; bits w 15 12; bits w 19 16; ARMExpandImm (bits w 11 0)]) in
  ArmV6_emulate_cycle cfg s = Ok tt (SkipInstr s1 op) /\ pc_of (SkipInstr s1 op) = add32 (pc_of s) 4.
Proof.
  intros Hflat Hctx Hi Hal w s1 Hcube Hcf op.
  pose proof (ictx_after_fetch cfg s Hctx) as Hctx1.
  split.
  - apply (step_cond_fails cfg s w s1 enc_AddImmediateArmA1 code_AddImmediateArm
             [w; bit w 20; bits w 15 12; bits w 19 16; ARMExpandImm (bits w 11 0)] (fetch_arm_flat cfg s Hflat Hi Hal)).
    + apply decode_add_imm_a1; [apply (fetched_arm_range cfg s Hflat)|exact Hcube|exact Hi].
    + apply from_bitarray_add_imm_a1; [apply (fetched_arm_range cfg s Hflat)|exact Hcube].
    + vm_compute. tauto.
    + vm_compute. reflexivity.
    + exact Hcf.
    + apply (ok_cpsr cfg s1 (i_ok cfg s1 Hctx1)).
  - rewrite skip_pc; [reflexivity|]. pose proof (ok_R_len cfg s1 (i_ok cfg s1 Hctx1)) as HL. rewrite HL. lia.
Qed.
