"""Operand-extraction tables (C06/C07): for each concrete encoding class, which bits of the instruction word give each
constructor field, written from the ARM ARM encoding diagrams (A8.8.x "Encoding A1/T1/..." boxes), NOT from the code.

An entry maps field name -> expression string over the word W (rendered to a Coq term evaluated from Spec/Pseudocode.v):
  'b20'            bit 20                      'f15_12'  bits 15..12             '7'  a constant
  'armimm' / 'armimm_c'      ARMExpandImm_C(W<11:0>, APSR.C) value / carry
  'timm'   / 'timm_c'        ThumbExpandImm_C(i:imm3:imm8, APSR.C) value / carry
  'shA_t' / 'shA_n'          DecodeImmShift(W<6:5>, W<11:7>)                       (ARM register operands)
  'shT_t' / 'shT_n'          DecodeImmShift(W<5:4>, W<14:12>:W<7:6>)               (Thumb-2 register operands)
  'rsr_t'                    DecodeRegShift(W<6:5>)
  'notit'                    setflags = !InITBlock()  (16-bit Thumb data processing)
  any other string is taken as a Coq expression with W substituted.
'_regs' lists the register fields (hi, lo) that the generator keeps inside r0-r12 and pairwise distinct so that the
UNPREDICTABLE rules (PC/SP operands, repeated registers) do not apply; '_w' is the encoding width."""

SR_LSL, SR_LSR, SR_ASR, SR_ROR, SR_RRX = 1, 2, 3, 4, 5
TABLE = {}


def add(names, fields, regs, w=32):
    for n in names.split():
        assert n not in TABLE, n
        d = dict(fields)
        d['_regs'] = regs
        d['_w'] = w
        TABLE[n] = d


def ops(prefixes, suffix):
    return ' '.join(p + suffix for p in prefixes.split())


RN, RD, RS, RM = (19, 16), (15, 12), (11, 8), (3, 0)
T_RD = (11, 8)

# ------------------------------------------------------------------ ARM data processing (A5.2)
add('AdcImmediateA1 AddImmediateArmA1 RsbImmediateA1 RscImmediateA1 SbcImmediateA1 SubImmediateArmA1',
    {'setflags': 'b20', 'd': 'f15_12', 'n': 'f19_16', 'imm32': 'armimm'}, [RN, RD])
add('AndImmediateA1 BicImmediateA1 EorImmediateA1 OrrImmediateA1',
    {'setflags': 'b20', 'd': 'f15_12', 'n': 'f19_16', 'imm32': 'armimm', 'carry': 'armimm_c'}, [RN, RD])
add('CmnImmediateA1 CmpImmediateA1', {'n': 'f19_16', 'imm32': 'armimm'}, [RN])
add('TeqImmediateA1 TstImmediateA1', {'n': 'f19_16', 'imm32': 'armimm', 'carry': 'armimm_c'}, [RN])
add('MovImmediateA1 MvnImmediateA1', {'setflags': 'b20', 'd': 'f15_12', 'imm32': 'armimm', 'carry': 'armimm_c'}, [RD])
add('MovtA1', {'d': 'f15_12', 'imm16': '(bits W 19 16 * 2 ^ 12 + bits W 11 0)'}, [RD])
add('AdcRegisterA1 AddRegisterArmA1 AndRegisterA1 BicRegisterA1 EorRegisterA1 OrrRegisterA1 RsbRegisterA1 RscRegisterA1 SbcRegisterA1 '
    'SubRegisterA1', {'setflags': 'b20', 'm': 'f3_0', 'd': 'f15_12', 'n': 'f19_16', 'shift_t': 'shA_t', 'shift_n': 'shA_n'},
    [RN, RD, RM])
add('CmnRegisterA1 CmpRegisterA1 TeqRegisterA1 TstRegisterA1',
    {'m': 'f3_0', 'n': 'f19_16', 'shift_t': 'shA_t', 'shift_n': 'shA_n'}, [RN, RM])
add('MvnRegisterA1', {'setflags': 'b20', 'm': 'f3_0', 'd': 'f15_12', 'shift_t': 'shA_t', 'shift_n': 'shA_n'}, [RD, RM])
add('MovRegisterArmA1 RrxA1', {'setflags': 'b20', 'm': 'f3_0', 'd': 'f15_12'}, [RD, RM])
add('AdcRegisterShiftedRegisterA1 AddRegisterShiftedRegisterA1 AndRegisterShiftedRegisterA1 BicRegisterShiftedRegisterA1 '
    'EorRegisterShiftedRegisterA1 OrrRegisterShiftedRegisterA1 RsbRegisterShiftedRegisterA1 RscRegisterShiftedRegisterA1 '
    'SbcRegisterShiftedRegisterA1 SubRegisterShiftedRegisterA1',
    {'setflags': 'b20', 'm': 'f3_0', 's': 'f11_8', 'd': 'f15_12', 'n': 'f19_16', 'shift_t': 'rsr_t'}, [RN, RD, RS, RM])
add('CmnRegisterShiftedRegisterA1 CmpRegisterShiftedRegisterA1 TeqRegisterShiftedRegisterA1 TstRegisterShiftedRegisterA1',
    {'m': 'f3_0', 's': 'f11_8', 'n': 'f19_16', 'shift_t': 'rsr_t'}, [RN, RS, RM])
add('MvnRegisterShiftedRegisterA1', {'setflags': 'b20', 'm': 'f3_0', 's': 'f11_8', 'd': 'f15_12', 'shift_t': 'rsr_t'}, [RD, RS, RM])
for nm, ty in (('Lsl', 0), ('Lsr', 1), ('Asr', 2), ('Ror', 3)):
    add(nm + 'ImmediateA1', {'setflags': 'b20', 'm': 'f3_0', 'd': 'f15_12', 'shift_n': f'(snd (DecodeImmShift {ty} (bits W 11 7)))'}, [RD, RM])
    add(nm + 'RegisterA1', {'setflags': 'b20', 'm': 'f11_8', 'd': 'f15_12', 'n': 'f3_0'}, [RD, RS, RM])

# ------------------------------------------------------------------ ARM multiplies (A5.2.5, A5.2.7, A5.4.4)
add('MulA1', {'setflags': 'b20', 'm': 'f11_8', 'd': 'f19_16', 'n': 'f3_0'}, [RN, RS, RM])
add('MlaA1', {'setflags': 'b20', 'm': 'f11_8', 'a': 'f15_12', 'd': 'f19_16', 'n': 'f3_0'}, [RN, RD, RS, RM])
add('MlsA1', {'m': 'f11_8', 'a': 'f15_12', 'd': 'f19_16', 'n': 'f3_0'}, [RN, RD, RS, RM])
add('UmullA1 UmlalA1 SmullA1 SmlalA1', {'setflags': 'b20', 'm': 'f11_8', 'd_hi': 'f19_16', 'd_lo': 'f15_12', 'n': 'f3_0'}, [RN, RD, RS, RM])
add('UmaalA1', {'m': 'f11_8', 'd_hi': 'f19_16', 'd_lo': 'f15_12', 'n': 'f3_0'}, [RN, RD, RS, RM])
add('SmlaA1', {'m_high': 'b6', 'n_high': 'b5', 'm': 'f11_8', 'a': 'f15_12', 'd': 'f19_16', 'n': 'f3_0'}, [RN, RD, RS, RM])
add('SmlalxyA1', {'m_high': 'b6', 'n_high': 'b5', 'm': 'f11_8', 'd_hi': 'f19_16', 'd_lo': 'f15_12', 'n': 'f3_0'}, [RN, RD, RS, RM])
add('SmlawA1', {'m_high': 'b6', 'm': 'f11_8', 'a': 'f15_12', 'd': 'f19_16', 'n': 'f3_0'}, [RN, RD, RS, RM])
add('SmulA1', {'m_high': 'b6', 'n_high': 'b5', 'm': 'f11_8', 'd': 'f19_16', 'n': 'f3_0'}, [RN, RS, RM])
add('SmulwA1', {'m_high': 'b6', 'm': 'f11_8', 'd': 'f19_16', 'n': 'f3_0'}, [RN, RS, RM])
add('SmladA1 SmlsdA1', {'m_swap': 'b5', 'm': 'f11_8', 'a': 'f15_12', 'd': 'f19_16', 'n': 'f3_0'}, [RN, RD, RS, RM])
add('SmlaldA1 SmlsldA1', {'m_swap': 'b5', 'm': 'f11_8', 'd_hi': 'f19_16', 'd_lo': 'f15_12', 'n': 'f3_0'}, [RN, RD, RS, RM])
add('SmuadA1 SmusdA1', {'m_swap': 'b5', 'm': 'f11_8', 'd': 'f19_16', 'n': 'f3_0'}, [RN, RS, RM])
add('SmmlaA1 SmmlsA1', {'round_': 'b5', 'm': 'f11_8', 'a': 'f15_12', 'd': 'f19_16', 'n': 'f3_0'}, [RN, RD, RS, RM])
add('SmmulA1', {'round_': 'b5', 'm': 'f11_8', 'd': 'f19_16', 'n': 'f3_0'}, [RN, RS, RM])
add('SdivA1 UdivA1 Usad8A1', {'m': 'f11_8', 'd': 'f19_16', 'n': 'f3_0'}, [RN, RS, RM])
add('Usada8A1', {'m': 'f11_8', 'a': 'f15_12', 'd': 'f19_16', 'n': 'f3_0'}, [RN, RD, RS, RM])

# ------------------------------------------------------------------ ARM media, saturating, extend, bit field (A5.4, A5.2.6)
PAR = ('Sadd16 Sasx Ssax Ssub16 Sadd8 Ssub8 Qadd16 Qasx Qsax Qsub16 Qadd8 Qsub8 Shadd16 Shasx Shsax Shsub16 Shadd8 Shsub8 '
       'Uadd16 Uasx Usax Usub16 Uadd8 Usub8 Uqadd16 Uqasx Uqsax Uqsub16 Uqadd8 Uqsub8 Uhadd16 Uhasx Uhsax Uhsub16 Uhadd8 Uhsub8 '
       'Qadd Qsub Qdadd Qdsub Sel')
add(ops(PAR, 'A1'), {'m': 'f3_0', 'd': 'f15_12', 'n': 'f19_16'}, [RN, RD, RM])
add('ClzA1 RbitA1 RevA1 Rev16A1 RevshA1', {'m': 'f3_0', 'd': 'f15_12'}, [RD, RM])
add('SxtbA1 Sxtb16A1 SxthA1 UxtbA1 Uxtb16A1 UxthA1', {'m': 'f3_0', 'd': 'f15_12', 'rotation': '(bits W 11 10 * 8)'}, [RD, RM])
add('SxtabA1 Sxtab16A1 SxtahA1 UxtabA1 Uxtab16A1 UxtahA1',
    {'m': 'f3_0', 'd': 'f15_12', 'n': 'f19_16', 'rotation': '(bits W 11 10 * 8)'}, [RN, RD, RM])
add('BfcA1', {'lsbit': 'f11_7', 'msbit': 'f20_16', 'd': 'f15_12', '_pre': 'msb_ge_lsb'}, [RD])
add('BfiA1', {'lsbit': 'f11_7', 'msbit': 'f20_16', 'd': 'f15_12', 'n': 'f3_0', '_pre': 'msb_ge_lsb'}, [RD, RM])
add('SbfxA1 UbfxA1', {'lsbit': 'f11_7', 'widthminus1': 'f20_16', 'd': 'f15_12', 'n': 'f3_0', '_pre': 'width_fits'}, [RD, RM])
add('SsatA1', {'saturate_to': '(bits W 20 16 + 1)', 'd': 'f15_12', 'n': 'f3_0',
               'shift_t': '(fst (DecodeImmShift (bit W 6 * 2) (bits W 11 7)))', 'shift_n': '(snd (DecodeImmShift (bit W 6 * 2) (bits W 11 7)))'}, [RD, RM])
add('UsatA1', {'saturate_to': 'f20_16', 'd': 'f15_12', 'n': 'f3_0',
               'shift_t': '(fst (DecodeImmShift (bit W 6 * 2) (bits W 11 7)))', 'shift_n': '(snd (DecodeImmShift (bit W 6 * 2) (bits W 11 7)))'}, [RD, RM])
add('Ssat16A1', {'saturate_to': '(bits W 19 16 + 1)', 'd': 'f15_12', 'n': 'f3_0'}, [RD, RM])
add('Usat16A1', {'saturate_to': 'f19_16', 'd': 'f15_12', 'n': 'f3_0'}, [RD, RM])
add('PkhA1', {'tb_form': 'b6', 'm': 'f3_0', 'd': 'f15_12', 'n': 'f19_16',
              'shift_t': '(fst (DecodeImmShift (bit W 6 * 2) (bits W 11 7)))', 'shift_n': '(snd (DecodeImmShift (bit W 6 * 2) (bits W 11 7)))'}, [RN, RD, RM])

# ------------------------------------------------------------------ ARM load/store (A5.3, A5.2.8-10)
WB = '(if (bit W 24 =? 0) || (bit W 21 =? 1) then 1 else 0)'
add('LdrImmediateArmA1 LdrbImmediateArmA1 StrImmediateArmA1 StrbImmediateArmA1',
    {'add': 'b23', 'wback': WB, 'index': 'b24', 't': 'f15_12', 'n': 'f19_16', 'imm32': 'f11_0'}, [RN, RD])
add('LdrRegisterArmA1 LdrbRegisterA1 StrRegisterA1 StrbRegisterA1',
    {'add': 'b23', 'wback': WB, 'index': 'b24', 'm': 'f3_0', 't': 'f15_12', 'n': 'f19_16', 'shift_t': 'shA_t', 'shift_n': 'shA_n'},
    [RN, RD, RM])
IMM8 = '(bits W 11 8 * 16 + bits W 3 0)'
add('LdrhImmediateArmA1 LdrsbImmediateA1 LdrshImmediateA1 StrhImmediateArmA1',
    {'add': 'b23', 'wback': WB, 'index': 'b24', 'imm32': IMM8, 't': 'f15_12', 'n': 'f19_16'}, [RN, RD])
add('LdrhRegisterA1 LdrsbRegisterA1 LdrshRegisterA1 StrhRegisterA1',
    {'add': 'b23', 'wback': WB, 'index': 'b24', 'm': 'f3_0', 't': 'f15_12', 'n': 'f19_16', 'shift_t': str(SR_LSL), 'shift_n': '0'},
    [RN, RD, RM])
add('LdrLiteralA1 LdrbLiteralA1', {'add': 'b23', 'imm32': 'f11_0', 't': 'f15_12', '_pre': 'lit'}, [RD])
add('LdrhLiteralA1 LdrsbLiteralA1 LdrshLiteralA1', {'add': 'b23', 'imm32': IMM8, 't': 'f15_12', '_pre': 'lit'}, [RD])
add('LdmArmA1 LdmdaA1 LdmdbA1 LdmibA1 StmA1 StmdaA1 StmdbA1 StmibA1', {'wback': 'b21', 'registers': 'f15_0', 'n': 'f19_16', '_pre': 'reglist'}, [RN])
add('LdrexA1', {'imm32': '0', 't': 'f15_12', 'n': 'f19_16'}, [RN, RD])
add('LdrexbA1 LdrexhA1', {'t': 'f15_12', 'n': 'f19_16'}, [RN, RD])
add('StrexA1', {'imm32': '0', 't': 'f3_0', 'd': 'f15_12', 'n': 'f19_16'}, [RN, RD, RM])
add('StrexbA1 StrexhA1', {'t': 'f3_0', 'd': 'f15_12', 'n': 'f19_16'}, [RN, RD, RM])

# ------------------------------------------------------------------ ARM miscellaneous
add('BxA1 BlxRegisterA1 BxjA1', {'m': 'f3_0'}, [RM])
add('SvcA1', {'imm32': 'f23_0'}, [])
add('MrsApplicationA1', {'d': 'f15_12'}, [RD])
add('SetendA1', {'set_bigend': 'b9'}, [])

# ------------------------------------------------------------------ Thumb 16-bit (A6.2)
L3 = [(2, 0), (5, 3), (8, 6)]
add('LslImmediateT1', {'setflags': 'notit', 'm': 'f5_3', 'd': 'f2_0', 'shift_n': '(snd (DecodeImmShift 0 (bits W 10 6)))', '_pre': 'imm5_nz'}, [], 16)
add('LsrImmediateT1', {'setflags': 'notit', 'm': 'f5_3', 'd': 'f2_0', 'shift_n': '(snd (DecodeImmShift 1 (bits W 10 6)))'}, [], 16)
add('AsrImmediateT1', {'setflags': 'notit', 'm': 'f5_3', 'd': 'f2_0', 'shift_n': '(snd (DecodeImmShift 2 (bits W 10 6)))'}, [], 16)
add('AddRegisterThumbT1 SubRegisterT1', {'setflags': 'notit', 'm': 'f8_6', 'd': 'f2_0', 'n': 'f5_3', 'shift_t': str(SR_LSL), 'shift_n': '0'}, [], 16)
add('AddImmediateThumbT1 SubImmediateThumbT1', {'setflags': 'notit', 'd': 'f2_0', 'n': 'f5_3', 'imm32': 'f8_6'}, [], 16)
add('AddImmediateThumbT2 SubImmediateThumbT2', {'setflags': 'notit', 'd': 'f10_8', 'n': 'f10_8', 'imm32': 'f7_0'}, [], 16)
add('MovImmediateT1', {'setflags': 'notit', 'd': 'f10_8', 'imm32': 'f7_0', 'carry': 'cflag'}, [], 16)
add('CmpImmediateT1', {'n': 'f10_8', 'imm32': 'f7_0'}, [], 16)
add('AndRegisterT1 EorRegisterT1 AdcRegisterT1 SbcRegisterT1 OrrRegisterT1 BicRegisterT1',
    {'setflags': 'notit', 'm': 'f5_3', 'd': 'f2_0', 'n': 'f2_0', 'shift_t': str(SR_LSL), 'shift_n': '0'}, [], 16)
add('LslRegisterT1 LsrRegisterT1 AsrRegisterT1 RorRegisterT1', {'setflags': 'notit', 'm': 'f5_3', 'd': 'f2_0', 'n': 'f2_0'}, [], 16)
add('TstRegisterT1 CmnRegisterT1 CmpRegisterT1', {'m': 'f5_3', 'n': 'f2_0', 'shift_t': str(SR_LSL), 'shift_n': '0'}, [], 16)
add('RsbImmediateT1', {'setflags': 'notit', 'd': 'f2_0', 'n': 'f5_3', 'imm32': '0'}, [], 16)
add('MulT1', {'setflags': 'notit', 'm': 'f2_0', 'd': 'f2_0', 'n': 'f5_3'}, [], 16)
add('MvnRegisterT1', {'setflags': 'notit', 'm': 'f5_3', 'd': 'f2_0', 'shift_t': str(SR_LSL), 'shift_n': '0'}, [], 16)
add('StrRegisterT1 StrhRegisterT1 StrbRegisterT1 LdrsbRegisterT1 LdrhRegisterT1 LdrbRegisterT1 LdrshRegisterT1',
    {'add': '1', 'wback': '0', 'index': '1', 'm': 'f8_6', 't': 'f2_0', 'n': 'f5_3', 'shift_t': str(SR_LSL), 'shift_n': '0'}, [], 16)
add('LdrRegisterThumbT1', {'m': 'f8_6', 't': 'f2_0', 'n': 'f5_3', 'shift_t': str(SR_LSL), 'shift_n': '0'}, [], 16)
add('StrImmediateThumbT1 LdrImmediateThumbT1', {'add': '1', 'wback': '0', 'index': '1', 't': 'f2_0', 'n': 'f5_3', 'imm32': '(bits W 10 6 * 4)'}, [], 16)
add('StrbImmediateThumbT1 LdrbImmediateThumbT1', {'add': '1', 'wback': '0', 'index': '1', 't': 'f2_0', 'n': 'f5_3', 'imm32': 'f10_6'}, [], 16)
add('StrhImmediateThumbT1 LdrhImmediateThumbT1', {'add': '1', 'wback': '0', 'index': '1', 't': 'f2_0', 'n': 'f5_3', 'imm32': '(bits W 10 6 * 2)'}, [], 16)
add('StrImmediateThumbT2 LdrImmediateThumbT2', {'add': '1', 'wback': '0', 'index': '1', 't': 'f10_8', 'n': '13', 'imm32': '(bits W 7 0 * 4)'}, [], 16)
add('LdrLiteralT1', {'add': '1', 'imm32': '(bits W 7 0 * 4)', 't': 'f10_8'}, [], 16)
add('AdrT1', {'add': '1', 'd': 'f10_8', 'imm32': '(bits W 7 0 * 4)'}, [], 16)
add('AddSpPlusImmediateT1', {'setflags': '0', 'd': 'f10_8', 'imm32': '(bits W 7 0 * 4)'}, [], 16)
add('AddSpPlusImmediateT2', {'setflags': '0', 'd': '13', 'imm32': '(bits W 6 0 * 4)'}, [], 16)
add('SubSpMinusImmediateT1', {'setflags': '0', 'd': '13', 'imm32': '(bits W 6 0 * 4)'}, [], 16)
add('SxthT1 SxtbT1 UxthT1 UxtbT1', {'m': 'f5_3', 'd': 'f2_0', 'rotation': '0'}, [], 16)
add('RevT1 Rev16T1 RevshT1', {'m': 'f5_3', 'd': 'f2_0'}, [], 16)
add('BxT1', {'m': 'f6_3', '_noit': True}, [], 16)
add('SvcT1', {'imm32': 'f7_0'}, [], 16)
add('SetendT1', {'set_bigend': 'b3', '_noit': True}, [], 16)
add('ItT1', {'firstcond': 'f7_4', 'mask': 'f3_0', '_noit': True, '_pre': 'it_ok'}, [], 16)

# ------------------------------------------------------------------ Thumb-2 data processing (A6.3.1, A6.3.3, A6.3.11)
T_RN, T_RM = (19, 16), (3, 0)
add('AdcImmediateT1 SbcImmediateT1 RsbImmediateT2 AddImmediateThumbT3 SubImmediateThumbT3',
    {'setflags': 'b20', 'd': 'f11_8', 'n': 'f19_16', 'imm32': 'timm'}, [T_RN, T_RD])
add('AndImmediateT1 BicImmediateT1 EorImmediateT1 OrrImmediateT1 OrnImmediateT1',
    {'setflags': 'b20', 'd': 'f11_8', 'n': 'f19_16', 'imm32': 'timm', 'carry': 'timm_c'}, [T_RN, T_RD])
add('CmnImmediateT1 CmpImmediateT2', {'n': 'f19_16', 'imm32': 'timm'}, [T_RN])
add('TstImmediateT1 TeqImmediateT1', {'n': 'f19_16', 'imm32': 'timm', 'carry': 'timm_c'}, [T_RN])
add('MovImmediateT2 MvnImmediateT1', {'setflags': 'b20', 'd': 'f11_8', 'imm32': 'timm', 'carry': 'timm_c'}, [T_RD])
IMM12T = '(bit W 26 * 2 ^ 11 + bits W 14 12 * 2 ^ 8 + bits W 7 0)'
add('AddImmediateThumbT4 SubImmediateThumbT4', {'setflags': '0', 'd': 'f11_8', 'n': 'f19_16', 'imm32': IMM12T}, [T_RN, T_RD])
add('MovtT1', {'d': 'f11_8', 'imm16': '(bits W 19 16 * 2 ^ 12 + ' + IMM12T + ')'}, [T_RD])
add('AdcRegisterT2 AddRegisterThumbT3 AndRegisterT2 BicRegisterT2 EorRegisterT2 OrrRegisterT2 OrnRegisterT1 RsbRegisterT1 SbcRegisterT2 SubRegisterT2',
    {'setflags': 'b20', 'm': 'f3_0', 'd': 'f11_8', 'n': 'f19_16', 'shift_t': 'shT_t', 'shift_n': 'shT_n'}, [T_RN, T_RD, T_RM])
add('CmnRegisterT2 CmpRegisterT3 TstRegisterT2 TeqRegisterT1', {'m': 'f3_0', 'n': 'f19_16', 'shift_t': 'shT_t', 'shift_n': 'shT_n'}, [T_RN, T_RM])
add('MvnRegisterT2', {'setflags': 'b20', 'm': 'f3_0', 'd': 'f11_8', 'shift_t': 'shT_t', 'shift_n': 'shT_n'}, [T_RD, T_RM])
IMM5T = '(bits W 14 12 * 4 + bits W 7 6)'
for nm, ty in (('LslImmediateT2', 0), ('LsrImmediateT2', 1), ('AsrImmediateT2', 2), ('RorImmediateT1', 3)):
    add(nm, {'setflags': 'b20', 'm': 'f3_0', 'd': 'f11_8', 'shift_n': f'(snd (DecodeImmShift {ty} {IMM5T}))', '_pre': 'imm5t_nz'}, [T_RD, T_RM])
add('RrxT1 MovRegisterThumbT3', {'setflags': 'b20', 'm': 'f3_0', 'd': 'f11_8'}, [T_RD, T_RM])
add('LslRegisterT2 LsrRegisterT2 AsrRegisterT2 RorRegisterT2', {'setflags': 'b20', 'm': 'f3_0', 'd': 'f11_8', 'n': 'f19_16'}, [T_RN, T_RD, T_RM])
# Thumb-2 multiplies and media (A6.3.16, A6.3.17, A6.3.13-15)
add('MulT2', {'setflags': '0', 'm': 'f3_0', 'd': 'f11_8', 'n': 'f19_16'}, [T_RN, T_RD, T_RM])
add('MlaT1', {'setflags': '0', 'm': 'f3_0', 'a': 'f15_12', 'd': 'f11_8', 'n': 'f19_16'}, [T_RN, RD, T_RD, T_RM])
add('MlsT1', {'m': 'f3_0', 'a': 'f15_12', 'd': 'f11_8', 'n': 'f19_16'}, [T_RN, RD, T_RD, T_RM])
add('UmullT1 UmlalT1 SmullT1 SmlalT1', {'setflags': '0', 'm': 'f3_0', 'd_hi': 'f11_8', 'd_lo': 'f15_12', 'n': 'f19_16'}, [T_RN, RD, T_RD, T_RM])
add('UmaalT1', {'m': 'f3_0', 'd_hi': 'f11_8', 'd_lo': 'f15_12', 'n': 'f19_16'}, [T_RN, RD, T_RD, T_RM])
add('SmlaT1', {'m_high': 'b4', 'n_high': 'b5', 'm': 'f3_0', 'a': 'f15_12', 'd': 'f11_8', 'n': 'f19_16'}, [T_RN, RD, T_RD, T_RM])
add('SmlalxyT1', {'m_high': 'b4', 'n_high': 'b5', 'm': 'f3_0', 'd_hi': 'f11_8', 'd_lo': 'f15_12', 'n': 'f19_16'}, [T_RN, RD, T_RD, T_RM])
add('SmlawT1', {'m_high': 'b4', 'm': 'f3_0', 'a': 'f15_12', 'd': 'f11_8', 'n': 'f19_16'}, [T_RN, RD, T_RD, T_RM])
add('SmulT1', {'m_high': 'b4', 'n_high': 'b5', 'm': 'f3_0', 'd': 'f11_8', 'n': 'f19_16'}, [T_RN, T_RD, T_RM])
add('SmulwT1', {'m_high': 'b4', 'm': 'f3_0', 'd': 'f11_8', 'n': 'f19_16'}, [T_RN, T_RD, T_RM])
add('SmladT1 SmlsdT1', {'m_swap': 'b4', 'm': 'f3_0', 'a': 'f15_12', 'd': 'f11_8', 'n': 'f19_16'}, [T_RN, RD, T_RD, T_RM])
add('SmlaldT1 SmlsldT1', {'m_swap': 'b4', 'm': 'f3_0', 'd_hi': 'f11_8', 'd_lo': 'f15_12', 'n': 'f19_16'}, [T_RN, RD, T_RD, T_RM])
add('SmuadT1 SmusdT1', {'m_swap': 'b4', 'm': 'f3_0', 'd': 'f11_8', 'n': 'f19_16'}, [T_RN, T_RD, T_RM])
add('SmmlaT1 SmmlsT1', {'round_': 'b4', 'm': 'f3_0', 'a': 'f15_12', 'd': 'f11_8', 'n': 'f19_16'}, [T_RN, RD, T_RD, T_RM])
add('SmmulT1', {'round_': 'b4', 'm': 'f3_0', 'd': 'f11_8', 'n': 'f19_16'}, [T_RN, T_RD, T_RM])
add('SdivT1 UdivT1 Usad8T1', {'m': 'f3_0', 'd': 'f11_8', 'n': 'f19_16'}, [T_RN, T_RD, T_RM])
add('Usada8T1', {'m': 'f3_0', 'a': 'f15_12', 'd': 'f11_8', 'n': 'f19_16'}, [T_RN, RD, T_RD, T_RM])
add(ops(PAR, 'T1'), {'m': 'f3_0', 'd': 'f11_8', 'n': 'f19_16'}, [T_RN, T_RD, T_RM])
add('ClzT1 RbitT1 RevT2 Rev16T2 RevshT2', {'m': 'f3_0', 'd': 'f11_8', '_pre': 'rm_twice'}, [T_RD, T_RM])
add('SxtbT2 Sxtb16T1 SxthT2 UxtbT2 Uxtb16T1 UxthT2', {'m': 'f3_0', 'd': 'f11_8', 'rotation': '(bits W 5 4 * 8)'}, [T_RD, T_RM])
add('SxtabT1 Sxtab16T1 SxtahT1 UxtabT1 Uxtab16T1 UxtahT1', {'m': 'f3_0', 'd': 'f11_8', 'n': 'f19_16', 'rotation': '(bits W 5 4 * 8)'}, [T_RN, T_RD, T_RM])
add('BfcT1', {'lsbit': IMM5T, 'msbit': 'f4_0', 'd': 'f11_8', '_pre': 'msb_ge_lsb_t'}, [T_RD])
add('BfiT1', {'lsbit': IMM5T, 'msbit': 'f4_0', 'd': 'f11_8', 'n': 'f19_16', '_pre': 'msb_ge_lsb_t'}, [T_RN, T_RD])
add('SbfxT1 UbfxT1', {'lsbit': IMM5T, 'widthminus1': 'f4_0', 'd': 'f11_8', 'n': 'f19_16', '_pre': 'width_fits_t'}, [T_RN, T_RD])
SAT_T = f'(fst (DecodeImmShift (bit W 21 * 2) {IMM5T}))'
SAT_N = f'(snd (DecodeImmShift (bit W 21 * 2) {IMM5T}))'
add('SsatT1', {'saturate_to': '(bits W 4 0 + 1)', 'd': 'f11_8', 'n': 'f19_16', 'shift_t': SAT_T, 'shift_n': SAT_N, '_pre': 'sat_t'}, [T_RN, T_RD])
add('UsatT1', {'saturate_to': 'f4_0', 'd': 'f11_8', 'n': 'f19_16', 'shift_t': SAT_T, 'shift_n': SAT_N, '_pre': 'sat_t'}, [T_RN, T_RD])
add('Ssat16T1', {'saturate_to': '(bits W 3 0 + 1)', 'd': 'f11_8', 'n': 'f19_16', '_zero': [4, 5]}, [T_RN, T_RD])
add('Usat16T1', {'saturate_to': 'f3_0', 'd': 'f11_8', 'n': 'f19_16', '_zero': [4, 5]}, [T_RN, T_RD])
add('PkhT1', {'_pre': 'pkh_t', 'tb_form': 'b5', 'm': 'f3_0', 'd': 'f11_8', 'n': 'f19_16',
              'shift_t': f'(fst (DecodeImmShift (bit W 5 * 2) {IMM5T}))', 'shift_n': f'(snd (DecodeImmShift (bit W 5 * 2) {IMM5T}))'}, [T_RN, T_RD, T_RM])
# Thumb-2 load/store (A6.3.7-10)
add('LdrImmediateThumbT3 StrImmediateThumbT3 LdrbImmediateThumbT2 StrbImmediateThumbT2 LdrhImmediateThumbT2 StrhImmediateThumbT2',
    {'add': '1', 'wback': '0', 'index': '1', 't': 'f15_12', 'n': 'f19_16', 'imm32': 'f11_0'}, [T_RN, RD])
add('LdrsbImmediateT1 LdrshImmediateT1', {'add': '1', 'wback': '0', 'index': '1', 'imm32': 'f11_0', 't': 'f15_12', 'n': 'f19_16'}, [T_RN, RD])
add('LdrImmediateThumbT4 StrImmediateThumbT4 LdrbImmediateThumbT3 StrbImmediateThumbT3 LdrhImmediateThumbT3 StrhImmediateThumbT3',
    {'add': 'b9', 'wback': 'b8', 'index': 'b10', 't': 'f15_12', 'n': 'f19_16', 'imm32': 'f7_0', '_pre': 'puw'}, [T_RN, RD])
add('LdrsbImmediateT2 LdrshImmediateT2', {'add': 'b9', 'wback': 'b8', 'index': 'b10', 'imm32': 'f7_0', 't': 'f15_12', 'n': 'f19_16', '_pre': 'puw'}, [T_RN, RD])
add('LdrRegisterThumbT2', {'m': 'f3_0', 't': 'f15_12', 'n': 'f19_16', 'shift_t': str(SR_LSL), 'shift_n': 'f5_4'}, [T_RN, RD, T_RM])
add('StrRegisterT2 StrbRegisterT2 StrhRegisterT2 LdrbRegisterT2 LdrhRegisterT2 LdrsbRegisterT2 LdrshRegisterT2',
    {'add': '1', 'wback': '0', 'index': '1', 'm': 'f3_0', 't': 'f15_12', 'n': 'f19_16', 'shift_t': str(SR_LSL), 'shift_n': 'f5_4'}, [T_RN, RD, T_RM])
add('LdrLiteralT2 LdrbLiteralT1 LdrhLiteralT1 LdrsbLiteralT1 LdrshLiteralT1', {'add': 'b23', 'imm32': 'f11_0', 't': 'f15_12'}, [RD])
# registers = P:M:'0':register_list (loads) / '0':M:'0':register_list (stores): bits 13 (and 15 for stores) of the word are (0)
add('LdmThumbT2 LdmdbT1', {'wback': 'b21', 'registers': '(bits W 15 14 * 2 ^ 14 + bits W 12 0)', 'n': 'f19_16', '_pre': 'reglist_lt'}, [T_RN])
add('StmT2 StmdbT1', {'wback': 'b21', 'registers': '(bit W 14 * 2 ^ 14 + bits W 12 0)', 'n': 'f19_16', '_pre': 'reglist_st'}, [T_RN])
add('TbbTbhT1', {'is_tbh': 'b4', 'm': 'f3_0', 'n': 'f19_16', '_noit': True}, [T_RN, T_RM])
add('LdrexT1', {'imm32': '(bits W 7 0 * 4)', 't': 'f15_12', 'n': 'f19_16'}, [T_RN, RD])
add('StrexT1', {'imm32': '(bits W 7 0 * 4)', 't': 'f15_12', 'd': 'f11_8', 'n': 'f19_16'}, [T_RN, RD, T_RD])


# ------------------------------------------------------------------ privileged block transfers (B9.3.5, B9.3.6, B9.3.13, B9.3.16, B9.3.17)
WH = '(if bit W 24 =? bit W 23 then 1 else 0)'
add('StmUserRegistersA1', {'increment': 'b23', 'word_higher': WH, 'registers': 'f15_0', 'n': 'f19_16', '_pre': 'reglist'}, [RN])
add('LdmUserRegistersA1', {'increment': 'b23', 'word_higher': WH, 'registers': 'f14_0', 'n': 'f19_16', '_pre': 'reglist', '_zero': [15]}, [RN])
# the emulator's list for this class carries bit 15 (fixed to 1 by the encoding: the PC is always loaded); pinned by its tests
add('LdmExceptionReturnA1', {'increment': 'b23', 'word_higher': WH, 'wback': 'b21', 'registers': 'f15_0', 'n': 'f19_16', '_pre': 'reglist'}, [RN])
add('SrsArmA1', {'increment': 'b23', 'word_higher': WH, 'wback': 'b21', 'mode': 'f4_0'}, [])
add('RfeA1', {'increment': 'b23', 'word_higher': WH, 'wback': 'b21', 'n': 'f19_16'}, [RN])
add('SrsThumbT1', {'increment': '0', 'word_higher': '0', 'wback': 'b21', 'mode': 'f4_0', '_noit': True}, [])
add('SrsThumbT2', {'increment': '1', 'word_higher': '0', 'wback': 'b21', 'mode': 'f4_0', '_noit': True}, [])
add('RfeT1', {'increment': '0', 'word_higher': '0', 'wback': 'b21', 'n': 'f19_16', '_noit': True}, [T_RN])
add('RfeT2', {'increment': '1', 'word_higher': '0', 'wback': 'b21', 'n': 'f19_16', '_noit': True}, [T_RN])

# ------------------------------------------------------------------ SP / PC where they are valid operands
# UNPREDICTABLE operand combinations leave the behaviour open, so nothing is expected of them; what is checked is the converse:
# operand values that ARE architecturally valid must be accepted.  VALID[class] = list of (register field, value) that the
# encoding allows (the other register fields stay inside r0-r12).

# ================================================================== further encodings (session 4)
# Unused operands of an encoding (e.g. m / shift of an immediate form) are compared against the constructor defaults (0, LSL #0).
LSL0 = {'shift_t': str(SR_LSL), 'shift_n': '0'}

# ------------------------------------------------------------------ PUSH / POP (A8.8.131-133)
add('PushT1', {'registers': '(bit W 8 * 2 ^ 14 + bits W 7 0)', 'unaligned_allowed': '0', '_pre': 'list8_nz'}, [], 16)
add('PopThumbT1', {'registers': '(bit W 8 * 2 ^ 15 + bits W 7 0)', 'unaligned_allowed': '0', '_pre': 'list8_nz', '_noit': True}, [], 16)
add('PushT2', {'registers': '(bit W 14 * 2 ^ 14 + bits W 12 0)', 'unaligned_allowed': '0', '_pre': 'list13_2', '_zero': [13, 15]}, [])
add('PopThumbT2', {'registers': '(bits W 15 14 * 2 ^ 14 + bits W 12 0)', 'unaligned_allowed': '0', '_pre': 'list13_2pm', '_zero': [13],
                   '_noit': True}, [])
add('PushT3 PushA2 PopThumbT3 PopArmA2', {'registers': '(2 ^ bits W 15 12)', 'unaligned_allowed': '1', '_noit': True}, [RD])
add('PushA1', {'registers': 'f15_0', 'unaligned_allowed': '0', '_pre': 'list16_2'}, [])
add('PopArmA1', {'registers': 'f15_0', 'unaligned_allowed': '0', '_pre': 'list16_2', '_zero': [13]}, [])
add('LdmThumbT1', {'wback': '(if bit (bits W 7 0) (bits W 10 8) =? 0 then 1 else 0)', 'registers': 'f7_0', 'n': 'f10_8', '_pre': 'list8_nz'}, [], 16)
add('StmT1', {'wback': '1', 'registers': 'f7_0', 'n': 'f10_8', '_pre': 'list8_nz'}, [], 16)

# ------------------------------------------------------------------ unprivileged loads and stores (A8.8.64, 92, 219 ...)
UNP_S_A1 = dict({'add': 'b23', 'register_form': '0', 'post_index': '1', 't': 'f15_12', 'n': 'f19_16', 'm': '0', 'imm32': 'f11_0'}, **LSL0)
UNP_S_A2 = {'add': 'b23', 'register_form': '1', 'post_index': '1', 't': 'f15_12', 'n': 'f19_16', 'm': 'f3_0', 'shift_t': 'shA_t',
            'shift_n': 'shA_n', 'imm32': '0'}
UNP_S_T1 = dict({'add': '1', 'register_form': '0', 'post_index': '0', 't': 'f15_12', 'n': 'f19_16', 'm': '0', 'imm32': 'f7_0'}, **LSL0)
add('LdrtA1 LdrbtA1 StrtA1 StrbtA1', UNP_S_A1, [RN, RD])
add('LdrtA2 LdrbtA2 StrtA2 StrbtA2', UNP_S_A2, [RN, RD, RM])
add('LdrtT1 LdrbtT1 StrtT1 StrbtT1', UNP_S_T1, [T_RN, RD])
UNP_A1 = {'add': 'b23', 'register_form': '0', 'post_index': '1', 't': 'f15_12', 'n': 'f19_16', 'm': '0', 'imm32': IMM8}
UNP_A2 = {'add': 'b23', 'register_form': '1', 'post_index': '1', 't': 'f15_12', 'n': 'f19_16', 'm': 'f3_0', 'imm32': '0'}
UNP_T1 = {'add': '1', 'register_form': '0', 'post_index': '0', 't': 'f15_12', 'n': 'f19_16', 'm': '0', 'imm32': 'f7_0'}
add('LdrhtA1 LdrsbtA1 LdrshtA1 StrhtA1', UNP_A1, [RN, RD])
add('LdrhtA2 LdrsbtA2 LdrshtA2 StrhtA2', UNP_A2, [RN, RD, RM])
add('LdrhtT1 LdrsbtT1 LdrshtT1 StrhtT1', UNP_T1, [T_RN, RD])

# ------------------------------------------------------------------ SP-relative ADD / SUB, ADR (A8.8.9-12, 225-227)
add('AddSpPlusImmediateA1 SubSpMinusImmediateA1', {'setflags': 'b20', 'd': 'f15_12', 'imm32': 'armimm'}, [RD])
add('AddSpPlusImmediateT3 SubSpMinusImmediateT2', {'setflags': 'b20', 'd': 'f11_8', 'imm32': 'timm'}, [T_RD])
add('AddSpPlusImmediateT4 SubSpMinusImmediateT3', {'setflags': '0', 'd': 'f11_8', 'imm32': IMM12T}, [T_RD])
add('AddSpPlusRegisterArmA1 SubSpMinusRegisterA1', {'setflags': 'b20', 'm': 'f3_0', 'd': 'f15_12', 'shift_t': 'shA_t', 'shift_n': 'shA_n'}, [RD, RM])
add('AddSpPlusRegisterThumbT3 SubSpMinusRegisterT1', {'setflags': 'b20', 'm': 'f3_0', 'd': 'f11_8', 'shift_t': 'shT_t', 'shift_n': 'shT_n'},
    [T_RD, T_RM])
DM = '(bit W 7 * 8 + bits W 2 0)'
add('AddSpPlusRegisterThumbT1', dict({'setflags': '0', 'm': DM, 'd': DM, '_pre': 'dm_low'}, **LSL0), [], 16)
add('AddSpPlusRegisterThumbT2', dict({'setflags': '0', 'm': 'f6_3', 'd': '13', '_pre': 'rm63_low'}, **LSL0), [], 16)
add('AdrA1', {'add': '1', 'd': 'f15_12', 'imm32': 'armimm'}, [RD])
add('AdrA2', {'add': '0', 'd': 'f15_12', 'imm32': 'armimm'}, [RD])
add('AdrT2', {'add': '0', 'd': 'f11_8', 'imm32': IMM12T}, [T_RD])
add('AdrT3', {'add': '1', 'd': 'f11_8', 'imm32': IMM12T}, [T_RD])
add('AddRegisterThumbT2', dict({'setflags': '0', 'm': 'f6_3', 'd': DM, 'n': DM, '_pre': 'add_t2'}, **LSL0), [], 16)
add('CmpRegisterT2', dict({'m': 'f6_3', 'n': DM, '_pre': 'cmp_t2'}, **LSL0), [], 16)
add('MovRegisterThumbT1', {'setflags': '0', 'm': 'f6_3', 'd': DM, '_pre': 'mov_t1'}, [], 16)
add('MovRegisterThumbT2', {'setflags': '1', 'm': 'f5_3', 'd': 'f2_0', '_noit': True}, [], 16)
add('MovImmediateA2', {'setflags': '0', 'd': 'f15_12', 'imm32': '(bits W 19 16 * 2 ^ 12 + bits W 11 0)', 'carry': '0'}, [RD])
add('MovImmediateT3', {'setflags': '0', 'd': 'f11_8', 'imm32': '(bits W 19 16 * 2 ^ 12 + ' + IMM12T + ')', 'carry': '0'}, [T_RD])

# ------------------------------------------------------------------ LDRD / STRD (A8.8.72-74, 210-211), exclusives (A8.8.76-78, 213-215)
PW = '(if (bit W 24 =? 0) || (bit W 21 =? 1) then 1 else 0)'
add('LdrdImmediateT1 StrdImmediateT1', {'add': 'b23', 'wback': 'b21', 'index': 'b24', 'imm32': '(bits W 7 0 * 4)', 't': 'f15_12', 't2': 'f11_8',
                                        'n': 'f19_16', '_pre': 'pw_t'}, [T_RN, RD, T_RD])
add('LdrdImmediateA1 StrdImmediateA1', {'add': 'b23', 'wback': PW, 'index': 'b24', 'imm32': IMM8, 't': 'f15_12', 't2': '(bits W 15 12 + 1)',
                                        'n': 'f19_16', '_pre': 'dual_a'}, [])
add('LdrdRegisterA1 StrdRegisterA1', {'add': 'b23', 'wback': PW, 'index': 'b24', 'm': 'f3_0', 't': 'f15_12', 't2': '(bits W 15 12 + 1)',
                                      'n': 'f19_16', '_pre': 'dual_a'}, [])
add('LdrdLiteralT1', {'add': 'b23', 'imm32': '(bits W 7 0 * 4)', 't': 'f15_12', 't2': 'f11_8', '_pre': 'pw_lit_t'}, [RD, T_RD])
add('LdrdLiteralA1', {'add': 'b23', 'imm32': IMM8, 't': 'f15_12', 't2': '(bits W 15 12 + 1)', '_pre': 'dual_lit_a'}, [])
add('LdrexbT1 LdrexhT1', {'t': 'f15_12', 'n': 'f19_16', '_one': [0, 1, 2, 3, 8, 9, 10, 11]}, [T_RN, RD])
add('LdrexdT1', {'t': 'f15_12', 't2': 'f11_8', 'n': 'f19_16', '_one': [0, 1, 2, 3]}, [T_RN, RD, T_RD])
add('LdrexdA1', {'t': 'f15_12', 't2': '(bits W 15 12 + 1)', 'n': 'f19_16', '_one': [0, 1, 2, 3, 8, 9, 10, 11], '_pre': 'dual_ex_a'}, [])
add('StrexbT1 StrexhT1', {'t': 'f15_12', 'd': 'f3_0', 'n': 'f19_16', '_one': [8, 9, 10, 11]}, [T_RN, RD, RM])
add('StrexdT1', {'t': 'f15_12', 't2': 'f11_8', 'd': 'f3_0', 'n': 'f19_16'}, [T_RN, RD, T_RD, RM])
add('StrexdA1', {'t': 'f3_0', 't2': '(bits W 3 0 + 1)', 'd': 'f15_12', 'n': 'f19_16', '_one': [8, 9, 10, 11], '_pre': 'strexd_a'}, [])

# ------------------------------------------------------------------ status-register access, CPS, hints, barriers (B9.3, A8.8)
add('MrsApplicationT1', {'d': 'f11_8', '_noit': False}, [T_RD])
add('MrsSystemT1', {'read_spsr': 'b20', 'd': 'f11_8'}, [T_RD])
add('MrsSystemA1', {'read_spsr': 'b22', 'd': 'f15_12'}, [RD])
add('MsrImmediateApplicationA1', {'write_nzcvq': 'b19', 'write_g': 'b18', 'imm32': 'armimm', '_pre': 'msr_app'}, [])
add('MsrRegisterApplicationA1', {'write_nzcvq': 'b19', 'write_g': 'b18', 'n': 'f3_0', '_pre': 'msr_app'}, [RM])
add('MsrRegisterApplicationT1', {'write_nzcvq': 'b11', 'write_g': 'b10', 'n': 'f19_16', '_pre': 'msr_app_t'}, [T_RN])
add('MsrImmediateSystemA1', {'write_spsr': 'b22', 'mask': 'f19_16', 'imm32': 'armimm', '_pre': 'msr_sys'}, [])
add('MsrRegisterSystemA1', {'write_spsr': 'b22', 'mask': 'f19_16', 'n': 'f3_0', '_pre': 'msr_sys'}, [RM])
add('MsrRegisterSystemT1', {'write_spsr': 'b20', 'mask': 'f11_8', 'n': 'f19_16', '_pre': 'msr_sys_t'}, [T_RN])
CPS_EN = '(if bits W {h} {l} =? 2 then 1 else 0)'
CPS_DIS = '(if bits W {h} {l} =? 3 then 1 else 0)'
add('CpsArmA1', {'affect_a': 'b8', 'affect_i': 'b7', 'affect_f': 'b6', 'enable': CPS_EN.format(h=19, l=18), 'disable': CPS_DIS.format(h=19, l=18),
                 'change_mode': 'b17', 'mode': 'f4_0', '_pre': 'cps_a'}, [])
add('CpsThumbT2', {'affect_a': 'b7', 'affect_i': 'b6', 'affect_f': 'b5', 'enable': CPS_EN.format(h=10, l=9), 'disable': CPS_DIS.format(h=10, l=9),
                   'change_mode': 'b8', 'mode': 'f4_0', '_pre': 'cps_t2', '_noit': True}, [])
add('CpsThumbT1', {'affect_a': 'b2', 'affect_i': 'b1', 'affect_f': 'b0', 'enable': '(1 - bit W 4)', 'disable': 'b4', 'change_mode': '0',
                   'mode': '0', '_pre': 'cps_t1', '_noit': True}, [], 16)
add('DsbA1 DsbT1', {'option': 'f3_0'}, [])
add('EnterxLeavexT1', {'is_enterx': 'b4'}, [])
add('SubsPcLrThumbT1', {'imm32': 'f7_0', 'n': '14', '_noit': True}, [])
add('SubsPcLrArmA1', dict({'register_form': '0', 'n': 'f19_16', 'opcode': 'f24_21', 'm': '0', 'imm32': 'armimm'}, **LSL0), [RN])
add('SubsPcLrArmA2', {'register_form': '1', 'n': 'f19_16', 'opcode': 'f24_21', 'm': 'f3_0', 'shift_t': 'shA_t', 'shift_n': 'shA_n', 'imm32': '0'},
    [RN, RM])

# ------------------------------------------------------------------ preloads (A8.8.126-128)
NOTR = '(1 - bit W 22)'
add('PldImmediateA1', {'add': 'b23', 'is_pldw': NOTR, 'n': 'f19_16', 'imm32': 'f11_0'}, [RN])
add('PldImmediateT1', {'add': '1', 'is_pldw': 'b21', 'n': 'f19_16', 'imm32': 'f11_0'}, [T_RN])
add('PldImmediateT2', {'add': '0', 'is_pldw': 'b21', 'n': 'f19_16', 'imm32': 'f7_0'}, [T_RN])
add('PldLiteralA1 PldLiteralT1', {'add': 'b23', 'imm32': 'f11_0'}, [])
add('PldRegisterA1', {'add': 'b23', 'is_pldw': NOTR, 'm': 'f3_0', 'n': 'f19_16', 'shift_t': 'shA_t', 'shift_n': 'shA_n'}, [RN, RM])
add('PldRegisterT1', {'add': '1', 'is_pldw': 'b21', 'm': 'f3_0', 'n': 'f19_16', 'shift_t': str(SR_LSL), 'shift_n': 'f5_4'}, [T_RN, T_RM])

# ------------------------------------------------------------------ coprocessor (A8.8.29, 51-53, 98-103, 198): the same bit positions in both sets
add(ops('CdpCdp2', 'A1') + ' ' + ops('CdpCdp2', 'A2') + ' ' + ops('CdpCdp2', 'T1') + ' ' + ops('CdpCdp2', 'T2'), {'cp': 'f11_8', '_pre': 'cp_ok'}, [])
add('McrMcr2A1 McrMcr2A2 McrMcr2T1 McrMcr2T2 MrcMrc2A1 MrcMrc2A2 MrcMrc2T1 MrcMrc2T2', {'cp': 'f11_8', 't': 'f15_12', '_pre': 'cp_ok'}, [RD])
add('McrrMcrr2A1 McrrMcrr2A2 McrrMcrr2T1 McrrMcrr2T2 MrrcMrrc2A1 MrrcMrrc2A2 MrrcMrrc2T1 MrrcMrrc2T2',
    {'cp': 'f11_8', 't': 'f15_12', 't2': 'f19_16', '_pre': 'cp_ok'}, [RN, RD])
LDC = {'cp': 'f11_8', 'n': 'f19_16', 'add': 'b23', 'imm32': '(bits W 7 0 * 4)', 'index': 'b24', 'wback': 'b21', '_pre': 'ldc'}
add('LdcLdc2ImmediateA1 LdcLdc2ImmediateA2 LdcLdc2ImmediateT1 LdcLdc2ImmediateT2 StcStc2A1 StcStc2A2 StcStc2T1 StcStc2T2', LDC, [RN])
add('LdcLdc2LiteralA1 LdcLdc2LiteralA2 LdcLdc2LiteralT1 LdcLdc2LiteralT2',
    {'cp': 'f11_8', 'add': 'b23', 'imm32': '(bits W 7 0 * 4)', 'index': 'b24', '_pre': 'ldc_lit'}, [])

# ------------------------------------------------------------------ operand-less encodings
add('BkptA1', {'_one': [31, 30, 29], '_zero': [28]}, [])      # cond != 1110 is UNPREDICTABLE
add('ClrexA1 ClrexT1 IsbA1 IsbT1 NopA1 NopT2 SevA1 SevT2 WfeA1 WfeT2 WfiA1 WfiT2 YieldA1 YieldT2 UdfA1 UdfT2 SmcA1 SmcT1 EretT1',
    {'_noit': True}, [])
add('BkptT1 NopT1 SevT1 WfeT1 WfiT1 YieldT1 UdfT1', {'_noit': True}, [], 16)

VALID = {}


def valid(names, combos):
    for n in names.split():
        assert n in TABLE, n
        VALID.setdefault(n, []).extend(combos)


ARM_SP_OK = ('MulA1 MlaA1 MlsA1 UmullA1 UmlalA1 SmullA1 SmlalA1 UmaalA1 SmlaA1 SmlalxyA1 SmlawA1 SmulA1 SmulwA1 SmladA1 SmlsdA1 SmlaldA1 '
             'SmlsldA1 SmuadA1 SmusdA1 SmmlaA1 SmmlsA1 SmmulA1 SdivA1 UdivA1 Usad8A1 Usada8A1 ClzA1 RbitA1 RevA1 Rev16A1 RevshA1 '
             'SxtbA1 Sxtb16A1 SxthA1 UxtbA1 Uxtb16A1 UxthA1 SxtabA1 Sxtab16A1 SxtahA1 UxtabA1 Uxtab16A1 UxtahA1 SsatA1 UsatA1 '
             'Ssat16A1 Usat16A1 PkhA1 SbfxA1 UbfxA1 BfcA1 BfiA1 ') + ops(PAR, 'A1')
for _n in ARM_SP_OK.split():
    valid(_n, [(f, 13) for f in TABLE[_n]['_regs']])       # r13 is an ordinary register in ARM multiply/media encodings
DP_A1 = ('AdcImmediateA1 AddImmediateArmA1 RsbImmediateA1 RscImmediateA1 SbcImmediateA1 SubImmediateArmA1 AndImmediateA1 BicImmediateA1 '
         'EorImmediateA1 OrrImmediateA1 AdcRegisterA1 AndRegisterA1 BicRegisterA1 EorRegisterA1 OrrRegisterA1 RsbRegisterA1 RscRegisterA1 '
         'SbcRegisterA1 CmnImmediateA1 CmpImmediateA1 TeqImmediateA1 TstImmediateA1 CmnRegisterA1 CmpRegisterA1 TeqRegisterA1 TstRegisterA1')
for _n in DP_A1.split():
    valid(_n, [(RN, 15)])                                   # ARM data processing may read the PC as Rn
valid('MovRegisterThumbT3', [((11, 8), 13), ((3, 0), 13)])  # MOV.W (S = 0): one of Rd / Rm may be the SP
valid('CmpImmediateT2 CmpRegisterT3 CmnImmediateT1', [((19, 16), 13)])
valid('LdrImmediateThumbT3 StrImmediateThumbT3 LdrbImmediateThumbT2 StrbImmediateThumbT2 LdrhImmediateThumbT2 StrhImmediateThumbT2 '
      'LdrRegisterThumbT2 StrRegisterT2', [((19, 16), 13)])
valid('LdrImmediateThumbT3 StrImmediateThumbT3', [((15, 12), 13)])
valid('LdrImmediateThumbT3', [((15, 12), 15)])
