(* Spec/DPSem.v — the data-processing instruction family (A8.8 ADC ... TST, shifts, moves) as ONE
   semantic function over the architectural view of the machine, written from the instruction pseudocode. *)
From Coq Require Import ZArith List Bool Lia ZifyBool.
From ArmV Require Import Lib.PyZ Lib.Monad Lib.Machine Spec.Pseudocode Spec.Arch Spec.MachineView.
Import ListNotations.
Open Scope Z_scope.

Inductive dp_op := AND | EOR | SUB | RSB | ADD | ADC | SBC | RSC | ORR | MOV | BIC | MVN | ORN.
Definition NOT32 (x : Z) : Z := 2 ^ 32 - 1 - x.
(* result and, for the arithmetic operations, (carry, overflow) *)
Definition dp_alu (op : dp_op) (rn op2 cin : Z) : Z * option (Z * Z) :=
  let awc a b c := let r := AddWithCarry 32 a b c in (fst (fst r), Some (snd (fst r), snd r)) in
  match op with
  | ADD => awc rn op2 0
  | ADC => awc rn op2 cin
  | SUB => awc rn (NOT32 op2) 1
  | SBC => awc rn (NOT32 op2) cin
  | RSB => awc (NOT32 rn) op2 1
  | RSC => awc (NOT32 rn) op2 cin
  | AND => (Z.land rn op2, None)
  | EOR => (Z.lxor rn op2, None)
  | ORR => (Z.lor rn op2, None)
  | BIC => (Z.land rn (NOT32 op2), None)
  | ORN => (Z.lor rn (NOT32 op2), None)
  | MOV => (op2, None)
  | MVN => (NOT32 op2, None)
  end.

Inductive operand2 :=
| Op2Imm (imm32 carry : Z)          (* expanded modified immediate and the carry-out of its expansion *)
| Op2Reg (m shift_t shift_n : Z)    (* register shifted by an immediate amount *)
| Op2RegReg (m shift_t s : Z)       (* register shifted by the bottom byte of Rs *)
| Op2Plain (m : Z).                 (* plain register (MOV register): no shifter carry *)

Definition eval_op2 (s : machine) (o : operand2) : Z * option Z :=
  let c := psr_C (cpsr_of s) in
  match o with
  | Op2Imm imm32 carry => (imm32, Some carry)
  | Op2Reg m t n => let r := Shift_C 32 (rget s m) t n c in (fst r, Some (snd r))
  | Op2RegReg m t rs => let r := Shift_C 32 (rget s m) t (rget s rs mod 2 ^ 8) c in (fst r, Some (snd r))
  | Op2Plain m => (rget s m, None)
  end.

(* APSR.N/Z/C(/V) from a result *)
Definition with_flags (p result : Z) (c v : option Z) : Z :=
  let p := insert p 31 31 (bit result 31) in
  let p := insert p 30 30 (if result =? 0 then 1 else 0) in
  let p := match c with Some c => insert p 29 29 c | None => p end in
  match v with Some v => insert p 28 28 v | None => p end.

(* dest = None: comparison (TST/TEQ/CMP/CMN), flags always written *)
Definition dp_sem (cfg : config) (op : dp_op) (setflags : Z) (dest : option Z) (n : Z) (o : operand2) (s : machine)
  : outcome machine unit :=
  let '(op2, shc) := eval_op2 s o in
  let '(result, cv) := dp_alu op (rget s n) op2 (psr_C (cpsr_of s)) in
  let c := match cv with Some (c, _) => Some c | None => shc end in
  let v := match cv with Some (_, v) => Some v | None => None end in
  match dest with
  | Some d =>
      if d =? 15 then
        Ok tt (apply_pc s (ALUWritePC (cfg_arch_version cfg) (cpsr_of s) (cfg_jazelle_accepts_execution cfg) result))
      else
        let s1 := rset s d result in
        if setflags =? 0 then Ok tt s1 else Ok tt (with_cpsr s1 (with_flags (cpsr_of s) result c v))
  | None => Ok tt (with_cpsr s (with_flags (cpsr_of s) result c v))
  end.

Definition valid_shift (t n : Z) : Prop :=
  0 <= n /\ (t = SRType_LSL \/ t = SRType_LSR \/ t = SRType_ASR \/ t = SRType_ROR \/ (t = SRType_RRX /\ n = 1)).
