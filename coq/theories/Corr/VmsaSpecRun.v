(* Corr/VmsaSpecRun.v — executable specification-side driver for the C15 correspondence.  Imports the specification and
   the (generated) record type declarations only — none of the regenerated code. *)
From Coq Require Import ZArith List Bool.
From ArmV Require Import Lib.PyZ Lib.Monad Lib.Machine Spec.Pseudocode Spec.Arch Spec.MachineView Spec.Hub Spec.Memory Spec.Vmsa.
From Gen Require Import enums records.
Import ListNotations.
Open Scope Z_scope.

Definition enc_addrdesc (d : AddressDescriptor) : list Z :=
  let m := AddressDescriptor_memattrs d in
  [MemoryAttributes_type m; MemoryAttributes_innerattrs m; MemoryAttributes_outerattrs m; MemoryAttributes_innerhints m;
   MemoryAttributes_outerhints m; MemoryAttributes_innertransient m; MemoryAttributes_outertransient m;
   MemoryAttributes_shareable m; MemoryAttributes_outershareable m;
   FullAddress_physicaladdress (AddressDescriptor_paddress d); FullAddress_ns (AddressDescriptor_paddress d)].

Definition secure_of (have_sec : Z) (s : machine) : bool :=
  IsSecure {| c_have_sec := have_sec; c_have_virt := 0; c_scr := getl (sys s) 9; c_sctlr := getl (sys s) 11; c_nsacr := getl (sys s) 10 |}
           (cpsr_of s).

(* B3.8.2 (SCTLR.TRE = 0): the default decoding of TEX[2:0], C, B; texcb = TEX:C:B *)
Definition default_tex (texcb sbit : Z) : MemoryAttributes :=
  let sh := if sbit =? 1 then 1 else 0 in
  match texcb with
  | 0 => mk_MemoryAttributes MemType_STRONGLY_ORDERED 0 0 0 0 0 0 1 1
  | 1 => mk_MemoryAttributes MemType_DEVICE 0 0 0 0 0 0 1 1
  | 2 => mk_MemoryAttributes MemType_NORMAL 2 2 2 2 0 0 sh sh
  | 3 => mk_MemoryAttributes MemType_NORMAL 3 3 2 2 0 0 sh sh
  | 4 => mk_MemoryAttributes MemType_NORMAL 0 0 0 0 0 0 sh sh
  | 7 => mk_MemoryAttributes MemType_NORMAL 3 3 3 3 0 0 sh sh
  | 8 => mk_MemoryAttributes MemType_DEVICE 0 0 0 0 0 0 0 0
  | _ => if 16 <=? texcb
         then let '(ia, ih) := attrs_hints (bits texcb 1 0) in let '(oa, oh) := attrs_hints (bits texcb 3 2) in
              mk_MemoryAttributes MemType_NORMAL ia oa ih oh 0 0 sh sh
         else new_MemoryAttributes
  end.

(* the address descriptor TranslateAddressV returns for a leaf / for the flat map; [decode] gives the memory attributes *)
Definition leaf_desc_gen (decode : Z -> Z -> MemoryAttributes) (secure : bool) (l : sd_leaf) : AddressDescriptor :=
  let m := decode (lf_texcb l) (lf_s l) in
  mk_AddressDescriptor
    (mk_MemoryAttributes (MemoryAttributes_type m) (MemoryAttributes_innerattrs m) (MemoryAttributes_outerattrs m)
       (MemoryAttributes_innerhints m) (MemoryAttributes_outerhints m) 0 0 (MemoryAttributes_shareable m) (MemoryAttributes_outershareable m))
    (mk_FullAddress (lf_pa l) (if secure then lf_ns l else 1)).
Definition flat_desc_spec (secure : bool) (mva : Z) : AddressDescriptor :=
  mk_AddressDescriptor (mk_MemoryAttributes MemType_STRONGLY_ORDERED 0 0 0 0 0 0 1 1) (mk_FullAddress mva (if secure then 0 else 1)).
Definition is_device (m : MemoryAttributes) : bool :=
  (MemoryAttributes_type m =? MemType_DEVICE) || (MemoryAttributes_type m =? MemType_STRONGLY_ORDERED).

Definition translate_spec_gen (decode : Z -> Z -> MemoryAttributes) (have_sec : Z) (s : machine) (va : Z)
           (ispriv iswrite wasaligned : bool) : outcome machine AddressDescriptor :=
  let w := if iswrite then 1 else 0 in
  match vmsa_translate (negb (have_sec =? 0)) s (fun l => is_device (decode (lf_texcb l) (lf_s l))) va ispriv iswrite wasaligned with
  | X_fault a vf lvl dom => Exc (EDataAbort (vf_dtype vf) 0) (vmsa_fault_state s a vf lvl dom w)
  | X_ok l => Ok (leaf_desc_gen decode (secure_of have_sec s) l) s
  | X_flat mva => Ok (flat_desc_spec (secure_of have_sec s) mva) s
  end.
(* SCTLR.TRE = 1 (what the theorems cover) and SCTLR.TRE = 0 with the remap registers at their reset values *)
Definition translate_spec (have_sec : Z) (s : machine) := translate_spec_gen (tex_remap (sreg s i_prrr) (sreg s i_nmrr)) have_sec s.
Definition translate_spec_tre0 (have_sec : Z) (s : machine) := translate_spec_gen default_tex have_sec s.

(* MemA through the translation: aligned accesses only (the alignment decision itself is C13) *)
Definition pa_of_desc (d : AddressDescriptor) : Z := FullAddress_physicaladdress (AddressDescriptor_paddress d).
Definition MemA_get_vmsa_spec (have_sec : Z) (s : machine) (address size : Z) (priv : bool) : outcome machine Z :=
  match translate_spec have_sec s address priv false true with
  | Ok d s1 => Ok (MemA_read s1 (pa_of_desc d) size) s1
  | Exc e s1 => Exc e s1
  end.
Definition MemA_set_vmsa_spec (have_sec : Z) (s : machine) (address size value : Z) (priv : bool) : outcome machine unit :=
  match translate_spec have_sec s address priv true true with
  | Ok d s1 => Ok tt (MemA_write s1 (pa_of_desc d) size value)
  | Exc e s1 => Exc e s1
  end.

(* long-descriptor format: the physical address and NS bit of a successful translation (memory attributes through MAIRn are not
   specified here); faults are reported as the Data Abort type only: the emulator cannot report them at all (finding) *)
Definition ld_translate_spec (have_sec : Z) (s : machine) (va : Z) (ispriv iswrite : bool) : list Z :=
  match ld_translate (secure_of have_sec s) s va ispriv iswrite with
  | LX_ok pa ns => [0; pa; ns]
  | LX_fault f _ => [2; 4; vf_dtype f; 0]
  end.
