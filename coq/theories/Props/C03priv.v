(* Props/C03priv.v — C03 (and the exception-return clause of C12): the privileged members of the block-transfer family.  RFE, SRS
   (ARM and Thumb), LDM (exception return), LDM and STM (user registers) are the architecture's pseudocode (Spec/BlockFamily.v:
   B9.3.5, 6, 13, 16, 17) with MemA instantiated by the emulator's mem_a_get / mem_a_set, for every register list, base,
   addressing flags and state of an exception mode: the exact address range, lowest register at the lowest address, the user
   bank for the user-register forms, write-back of the base (or of the banked SP of the target mode for SRS), and for the
   return forms CPSRWriteByInstr(SPSR or loaded PSR, '1111', TRUE) followed by BranchWritePC in the restored state.
   [Inv] is any invariant that implies the representation invariant and survives the register writes and successful accesses
   the instruction performs (Props/C03.v shows the flat-map instance for ordinary register writes).  Configurations with the
   Virtualization Extensions are excluded (have_virt = 0): Hyp mode makes these instructions UNDEFINED or UNPREDICTABLE.
   Statements only; proofs in Proofs/ReturnProofs2.v. *)
From Coq Require Import ZArith Bool List.
From ArmV Require Import Lib.PyZ Lib.Monad Lib.Machine Spec.Pseudocode Spec.Arch Spec.MachineView Spec.Exceptions Spec.BlockTransfer Spec.BlockFamily
  Proofs.StateLemmas Proofs.CondProofs Proofs.GuardProofs Proofs.BankProofs Proofs.MachineOps Proofs.DPLemmas Proofs.ReturnProofs2.
From Gen Require Import enums bits_ops core exec.
Import ListNotations.
Open Scope Z_scope.

Theorem C03_RFE :
  forall (cfg : config) (Inv : machine -> Prop),
       (forall s : machine, Inv s -> ictx cfg s) ->
       (forall (s : machine) (n v : Z), Inv s -> 0 <= n <= 14 -> word v -> Inv (rset s n v)) ->
       (forall (s : machine) (a d : Z) (s1 : machine), Inv s -> ArmV6_mem_a_get cfg a 4 s = Ok d s1 -> Inv s1 /\ word d) ->
       forall (instr increment word_higher wback n : Z) (s : machine),
       Inv s ->
       cond_holds s ->
       have_virt cfg = 0 ->
       mode_of s <> 16 ->
       iset_of s <> 3 ->
       0 <= n <= 14 ->
       Rfe_execute cfg instr increment word_higher wback n s =
       RFE (ArmV6_mem_a_get cfg) (cfg_jazelle_accepts_execution cfg) (have_sec cfg) (have_virt cfg) s increment word_higher wback n.
Proof. exact (Rfe_sem). Qed.
Print Assumptions C03_RFE.
Theorem C03_SRS_arm :
  forall (cfg : config) (Inv : machine -> Prop),
       (forall s : machine, Inv s -> ictx cfg s) ->
       (forall (s : machine) (a v : Z) (s1 : machine), Inv s -> word v -> ArmV6_mem_a_set cfg a 4 v s = Ok tt s1 -> Inv s1) ->
       (forall s : machine, Inv s -> word (get_SPSR s)) ->
       forall (instr increment word_higher wback mode : Z) (s : machine),
       Inv s ->
       cond_holds s ->
       legal_mode cfg mode ->
       have_virt cfg = 0 ->
       mode_of s <> 16 ->
       mode_of s <> 31 -> SrsArm_execute cfg instr increment word_higher wback mode s = SRS (ArmV6_mem_a_set cfg) s increment word_higher wback mode.
Proof. exact (SrsArm_sem). Qed.
Print Assumptions C03_SRS_arm.
Theorem C03_SRS_thumb :
  forall (cfg : config) (Inv : machine -> Prop),
       (forall s : machine, Inv s -> ictx cfg s) ->
       (forall (s : machine) (a v : Z) (s1 : machine), Inv s -> word v -> ArmV6_mem_a_set cfg a 4 v s = Ok tt s1 -> Inv s1) ->
       (forall s : machine, Inv s -> word (get_SPSR s)) ->
       forall (instr increment word_higher wback mode : Z) (s : machine),
       Inv s ->
       cond_holds s ->
       legal_mode cfg mode ->
       have_virt cfg = 0 ->
       mode_of s <> 16 ->
       mode_of s <> 31 -> SrsThumb_execute cfg instr increment word_higher wback mode s = SRS (ArmV6_mem_a_set cfg) s increment word_higher wback mode.
Proof. exact (SrsThumb_sem). Qed.
Print Assumptions C03_SRS_thumb.
Theorem C03_LDM_exception_return :
  forall (cfg : config) (Inv : machine -> Prop),
       (forall s : machine, Inv s -> ictx cfg s) ->
       (forall (s : machine) (n v : Z), Inv s -> 0 <= n <= 14 -> word v -> Inv (rset s n v)) ->
       (forall (s : machine) (a d : Z) (s1 : machine), Inv s -> ArmV6_mem_a_get cfg a 4 s = Ok d s1 -> Inv s1 /\ word d) ->
       (forall (s : machine) (a v : Z) (s1 : machine), Inv s -> word v -> ArmV6_mem_a_set cfg a 4 v s = Ok tt s1 -> Inv s1) ->
       forall (instr increment word_higher wback registers n : Z) (s : machine),
       Inv s ->
       cond_holds s ->
       have_virt cfg = 0 ->
       mode_of s <> 16 ->
       mode_of s <> 31 ->
       iset_of s <> 3 ->
       0 <= n <= 14 ->
       0 <= registers < 2 ^ 16 ->
       LdmExceptionReturn_execute cfg instr increment word_higher wback registers n s =
       LDM_eret (ArmV6_mem_a_get cfg) (cfg_jazelle_accepts_execution cfg) (have_sec cfg) (have_virt cfg) s increment word_higher wback (bits registers 14 0) n.
Proof. exact (LdmExceptionReturn_sem). Qed.
Print Assumptions C03_LDM_exception_return.
Theorem C03_LDM_user_registers :
  forall (cfg : config) (Inv : machine -> Prop),
       (forall s : machine, Inv s -> ictx cfg s) ->
       (forall (s : machine) (i v : Z), Inv s -> 0 <= i <= 14 -> word v -> Inv (rset_mode s i M_usr v)) ->
       (forall (s : machine) (a d : Z) (s1 : machine), Inv s -> ArmV6_mem_a_get cfg a 4 s = Ok d s1 -> Inv s1 /\ word d) ->
       (forall (s : machine) (a v : Z) (s1 : machine), Inv s -> word v -> ArmV6_mem_a_set cfg a 4 v s = Ok tt s1 -> Inv s1) ->
       legal_mode cfg M_usr ->
       forall (instr increment word_higher regs n : Z) (s : machine),
       Inv s ->
       cond_holds s ->
       have_virt cfg = 0 ->
       mode_of s <> 16 ->
       mode_of s <> 31 ->
       0 <= n <= 14 ->
       0 <= regs < 2 ^ 16 -> LdmUserRegisters_execute cfg instr increment word_higher regs n s = LDM_user (ArmV6_mem_a_get cfg) s increment word_higher regs n.
Proof. exact (LdmUserRegisters_sem). Qed.
Print Assumptions C03_LDM_user_registers.
Theorem C03_STM_user_registers :
  forall (cfg : config) (Inv : machine -> Prop),
       (forall s : machine, Inv s -> ictx cfg s) ->
       (forall (s : machine) (i v : Z), Inv s -> 0 <= i <= 14 -> word v -> Inv (rset_mode s i M_usr v)) ->
       (forall (s : machine) (a d : Z) (s1 : machine), Inv s -> ArmV6_mem_a_get cfg a 4 s = Ok d s1 -> Inv s1 /\ word d) ->
       (forall (s : machine) (a v : Z) (s1 : machine), Inv s -> word v -> ArmV6_mem_a_set cfg a 4 v s = Ok tt s1 -> Inv s1) ->
       legal_mode cfg M_usr ->
       forall (instr increment word_higher regs n : Z) (s : machine),
       Inv s ->
       cond_holds s ->
       have_virt cfg = 0 ->
       mode_of s <> 16 ->
       mode_of s <> 31 ->
       0 <= n <= 14 ->
       0 <= regs < 2 ^ 16 ->
       (forall (s0 : machine) (i : Z), Inv s0 -> 0 <= i <= 14 -> word (rget_mode s0 i M_usr)) ->
       StmUserRegisters_execute cfg instr increment word_higher regs n s = STM_user (ArmV6_mem_a_set cfg) s increment word_higher regs n.
Proof. exact (StmUserRegisters_sem). Qed.
Print Assumptions C03_STM_user_registers.
