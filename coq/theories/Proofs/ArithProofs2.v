(* Proofs/ArithProofs2.v — further classes of the arithmetic family proved equal to Spec/Arith2.v. *)
From Coq Require Import ZArith List Bool Lia ZifyBool.
From ArmV Require Import Lib.PyZ Lib.Monad Lib.Machine Spec.Pseudocode Spec.Expected Spec.Arch
  Proofs.BitLemmas Proofs.SpecFacts Proofs.BitsOps Proofs.BitsOps2 Proofs.ShiftOps Proofs.FieldsProofs Proofs.StateLemmas
  Proofs.CondProofs Proofs.GuardProofs Proofs.BankProofs Proofs.MachineOps Proofs.DPLemmas Proofs.DPTactics Proofs.BranchProofs
  Proofs.LSProofs Proofs.BlockProofs Spec.MachineView Spec.Arith Spec.Arith2 Proofs.ArithProofs.
From Gen Require Import enums bits_ops shift regviews records hubm opsyn core exec.
Import ListNotations.
Open Scope Z_scope.
(* a sentence that runs this long no longer matches the code it was written for: fail instead of searching *)
Set Default Timeout 240.
Ltac Zify.zify_post_hook ::= Z.to_euclidean_division_equations.

Ltac getr cfg H := rewrite (b_get cfg) by (try exact H; lia); cbv zeta.
Ltac wordr cfg H s n W := assert (W : word (rget s n)) by (apply (word_rget cfg); [exact H|lia]).

Theorem Mls_ok cfg instr m a d n s :
  ictx cfg s -> cond_holds s -> 0 <= m <= 14 -> 0 <= a <= 14 -> 0 <= d <= 14 -> 0 <= n <= 14 ->
  Mls_execute cfg instr m a d n s = Ok tt (Mls_sem (cfg_arch_version cfg) s m a d n).
Proof.
  intros H Hc Hm Ha Hd Hn. unfold Mls_execute, Mls_sem, w32, s32. rewrite guard_pass by exact Hc. rewrite bind_ret_tt.
  getr cfg H. getr cfg H. getr cfg H.
  wordr cfg H s n Wn. wordr cfg H s m Wm. wordr cfg H s a Wa.
  rewrite !to_signed_SInt by (try lia; assumption). rewrite to_unsigned_spec.
  rewrite bind_ret_tt, reg_set; [|lia|apply H|apply H].
  f_equal. f_equal. f_equal. ring.
Qed.

Theorem Mla_ok cfg instr setflags m a d n s :
  ictx cfg s -> cond_holds s -> 0 <= m <= 14 -> 0 <= a <= 14 -> 0 <= d <= 14 -> 0 <= n <= 14 ->
  Mla_execute cfg instr setflags m a d n s = Ok tt (Mla_sem (cfg_arch_version cfg) s setflags m a d n).
Proof.
  intros H Hc Hm Ha Hd Hn. unfold Mla_execute. rewrite guard_pass by exact Hc. rewrite bind_ret_tt.
  getr cfg H. getr cfg H. getr cfg H.
  wordr cfg H s n Wn. wordr cfg H s m Wm. wordr cfg H s a Wa.
  rewrite !to_signed_SInt by (try lia; assumption). rewrite to_unsigned_spec.
  unfold Mla_sem, w32, s32. set (r := (SInt (rget s n) 32 * SInt (rget s m) 32 + SInt (rget s a) 32) mod 2 ^ 32).
  assert (Wr : word r) by (unfold r, word; apply Z.mod_pos_bound; lia).
  rewrite (b_set cfg) by (try exact H; lia). set (s1 := rset s d r).
  assert (H1 : ictx cfg s1) by (apply ictx_rset; [exact H|lia|exact Wr]).
  unfold truthy at 1. destruct (setflags =? 0); cbn [negb]; [reflexivity|].
  rewrite bit_at_bit by lia. rewrite zbit_code.
  abit cfg CPSR_set_n 31 H1. set (s2 := upd_cpsr s1 (setbit 31 (bit r 31))).
  assert (H2 : ictx cfg s2) by (apply ictx_upd_bit; [exact H1|lia|apply bit_range]).
  abit cfg CPSR_set_z 30 H2. set (s3 := upd_cpsr s2 (setbit 30 (zbit r))).
  assert (H3 : ictx cfg s3) by (apply ictx_upd_bit; [exact H2|lia|apply zbit_range]).
  unfold conf_arch_version. destruct (cfg_arch_version cfg =? 4); [|reflexivity].
  abit cfg CPSR_set_c 29 H3. reflexivity.
Qed.

Lemma word_bits32 x lo : 0 <= lo -> word (bits x (lo + 31) lo).
Proof. intros. unfold word. pose proof (bits_range x (lo + 31) lo ltac:(lia)). replace (lo + 31 - lo + 1) with 32 in * by lia. lia. Qed.

Theorem Smul_ok cfg instr m_high n_high m d n s :
  ictx cfg s -> cond_holds s -> 0 <= m <= 14 -> 0 <= d <= 14 -> 0 <= n <= 14 ->
  Smul_execute cfg instr m_high n_high m d n s = Ok tt (Smul_sem (cfg_arch_version cfg) s m_high n_high m d n).
Proof.
  intros H Hc Hm Hd Hn. unfold Smul_execute, Smul_sem, w32, s16, sel_half, lo16, hi16. rewrite guard_pass by exact Hc. rewrite bind_ret_tt.
  getr cfg H. getr cfg H. rewrite !substring_bits by lia. rewrite to_unsigned_spec.
  rewrite bind_ret_tt, reg_set; [|lia|apply H|apply H].
  assert (E : forall h x, to_signed (if truthy h then bits x 31 16 else bits x 15 0) 16 = SInt (if h =? 0 then bits x 15 0 else bits x 31 16) 16).
  { intros h x. unfold truthy. destruct (h =? 0); cbn [negb]; apply to_signed_SInt; try lia; apply (bits_range x); lia. }
  rewrite !E. reflexivity.
Qed.

Theorem Umaal_ok cfg instr m dhi dlo n s :
  ictx cfg s -> cond_holds s -> 0 <= m <= 14 -> 0 <= dhi <= 14 -> 0 <= dlo <= 14 -> 0 <= n <= 14 ->
  Umaal_execute cfg instr m dhi dlo n s = Ok tt (Umaal_sem (cfg_arch_version cfg) s m dhi dlo n).
Proof.
  intros H Hc Hm Hh Hl Hn. unfold Umaal_execute, Umaal_sem, set64. rewrite guard_pass by exact Hc. rewrite bind_ret_tt.
  getr cfg H. getr cfg H. getr cfg H. getr cfg H. rewrite !substring_bits by lia.
  set (r := rget s n * rget s m + rget s dhi + rget s dlo).
  rewrite (b_set cfg) by (try exact H; lia).
  assert (H1 : ictx cfg (rset s dhi (bits r 63 32))) by (apply ictx_rset; [exact H|lia|apply (word_bits32 r 32); lia]).
  rewrite bind_ret_tt, reg_set; [reflexivity|lia|apply H1|apply H1].
Qed.

Theorem Usad8_ok cfg instr m d n s :
  ictx cfg s -> cond_holds s -> 0 <= m <= 14 -> 0 <= d <= 14 -> 0 <= n <= 14 ->
  Usad8_execute cfg instr m d n s = Ok tt (Usad8_sem (cfg_arch_version cfg) s m d n).
Proof.
  intros H Hc Hm Hd Hn. unfold Usad8_execute, Usad8_sem, absdiff, byte. rewrite guard_pass by exact Hc. rewrite bind_ret_tt.
  getr cfg H. getr cfg H. rewrite !substring_bits by lia.
  cbn [Z.mul Z.add Pos.mul Pos.add].
  change (8 * 0 + 7) with 7; change (8 * 0) with 0; change (8 * 1 + 7) with 15; change (8 * 1) with 8;
  change (8 * 2 + 7) with 23; change (8 * 2) with 16; change (8 * 3 + 7) with 31; change (8 * 3) with 24.
  set (t := Z.abs _ + Z.abs _ + Z.abs _ + Z.abs _).
  assert (Ht : 0 <= t < 2 ^ 32).
  { subst t. pose proof (bits_range (rget s n) 7 0 ltac:(lia)). pose proof (bits_range (rget s m) 7 0 ltac:(lia)).
    pose proof (bits_range (rget s n) 15 8 ltac:(lia)). pose proof (bits_range (rget s m) 15 8 ltac:(lia)).
    pose proof (bits_range (rget s n) 23 16 ltac:(lia)). pose proof (bits_range (rget s m) 23 16 ltac:(lia)).
    pose proof (bits_range (rget s n) 31 24 ltac:(lia)). pose proof (bits_range (rget s m) 31 24 ltac:(lia)).
    change (2 ^ (7 - 0 + 1)) with 256 in *. change (2 ^ (15 - 8 + 1)) with 256 in *. change (2 ^ (23 - 16 + 1)) with 256 in *.
    change (2 ^ (31 - 24 + 1)) with 256 in *. lia. }
  assert (Eb : bits t 31 0 = t). { unfold bits. change (2 ^ 0) with 1. rewrite Z.div_1_r. apply Z.mod_small. exact Ht. }
  rewrite Eb. rewrite bind_ret_tt, reg_set; [reflexivity|lia|apply H|apply H].
Qed.

Theorem Qsub_ok cfg instr m d n s :
  ictx cfg s -> cond_holds s -> 0 <= m <= 14 -> 0 <= d <= 14 -> 0 <= n <= 14 ->
  Qsub_execute cfg instr m d n s = Ok tt (Qsub_sem (cfg_arch_version cfg) s m d n).
Proof.
  intros H Hc Hm Hd Hn. unfold Qsub_execute, Qsub_sem, satq, s32. rewrite guard_pass by exact Hc. rewrite bind_ret_tt.
  getr cfg H. getr cfg H.
  wordr cfg H s n Wn. wordr cfg H s m Wm.
  rewrite !to_signed_SInt by (try lia; assumption). rewrite signed_sat_q_spec.
  destruct (SignedSatQ (SInt (rget s m) 32 - SInt (rget s n) 32) 32) as [r sat] eqn:ES.
  assert (Wr : word r /\ 0 <= sat <= 1).
  { unfold SignedSatQ in ES. change (2 ^ (32 - 1)) with 2147483648 in ES.
    destruct (_ >? _); [inversion ES; subst; split; [unfold word; apply Z.mod_pos_bound|]; lia|].
    destruct (_ <? _); inversion ES; subst; (split; [unfold word; apply Z.mod_pos_bound|]; lia). }
  destruct Wr as [Wr Hs]. rewrite (Z.mod_small r) by exact Wr. rewrite (b_set cfg) by (try exact H; lia).
  assert (H1 : ictx cfg (rset s d r)) by (apply ictx_rset; [exact H|lia|exact Wr]).
  unfold truthy. destruct (sat =? 0); cbn [negb]; [reflexivity|].
  unfold setQ. abit cfg CPSR_set_q 27 H1. reflexivity.
Qed.

(* the long multiplies: 64-bit result in RdHi:RdLo, N and Z from the 64-bit result *)
Lemma long_tail cfg s dhi dlo r setflags :
  ictx cfg s -> 0 <= dhi <= 14 -> 0 <= dlo <= 14 -> 0 <= r < 2 ^ 64 ->
  bind (Registers_set cfg dhi (substring r 63 32)) (fun _ =>
  bind (Registers_set cfg dlo (substring r 31 0)) (fun _ =>
  bind (if truthy setflags
        then bind (get_sys 0) (fun r_6 => bind (put_sys 0 (CPSR_set_n r_6 (bit_at r 63))) (fun _ =>
             bind (get_sys 0) (fun r_7 => bind (put_sys 0 (CPSR_set_z r_7 (if truthy r then 0 else 1))) (fun _ =>
             bind (if conf_arch_version cfg =? 4
                   then bind (get_sys 0) (fun r_8 => bind (put_sys 0 (CPSR_set_c r_8 0)) (fun _ =>
                        bind (get_sys 0) (fun r_9 => bind (put_sys 0 (CPSR_set_v r_9 0)) (fun _ => ret tt))))
                   else ret tt) (fun _ => ret tt)))))
        else ret tt) (fun _ => ret tt))) s
  = Ok tt (let s1 := set64 s dhi dlo r in if setflags =? 0 then s1 else nz64 (cfg_arch_version cfg) s1 r).
Proof.
  intros H Hh Hl Hr. rewrite !substring_bits by lia. cbv zeta.
  rewrite (b_set cfg) by (try exact H; lia).
  assert (H1 : ictx cfg (rset s dhi (bits r 63 32))) by (apply ictx_rset; [exact H|lia|apply (word_bits32 r 32); lia]).
  rewrite (b_set cfg) by (try exact H1; lia). fold (set64 s dhi dlo r). set (s1 := set64 s dhi dlo r).
  assert (H2 : ictx cfg s1) by (apply ictx_rset; [exact H1|lia|apply (word_bits32 r 0); lia]).
  unfold truthy at 1. destruct (setflags =? 0); cbn [negb]; [reflexivity|].
  rewrite bit_at_bit by lia. rewrite zbit_code. unfold nz64. rewrite (Z.mod_small r) by exact Hr.
  abit cfg CPSR_set_n 31 H2. set (s2 := upd_cpsr s1 (setbit 31 (bit r 63))).
  assert (H3 : ictx cfg s2) by (apply ictx_upd_bit; [exact H2|lia|apply bit_range]).
  abit cfg CPSR_set_z 30 H3. set (s3 := upd_cpsr s2 (setbit 30 (zbit r))).
  assert (H4 : ictx cfg s3) by (apply ictx_upd_bit; [exact H3|lia|apply zbit_range]).
  unfold conf_arch_version. destruct (cfg_arch_version cfg =? 4); [|reflexivity].
  abit cfg CPSR_set_c 29 H4.
  assert (H5 : ictx cfg (upd_cpsr s3 (setbit 29 0))) by (apply ictx_upd_bit; [exact H4|lia|lia]).
  abit cfg CPSR_set_v 28 H5. reflexivity.
Qed.

Theorem Smull_ok cfg instr setflags m dhi dlo n s :
  ictx cfg s -> cond_holds s -> 0 <= m <= 14 -> 0 <= dhi <= 14 -> 0 <= dlo <= 14 -> 0 <= n <= 14 ->
  Smull_execute cfg instr setflags m dhi dlo n s = Ok tt (Smull_sem (cfg_arch_version cfg) s setflags m dhi dlo n).
Proof.
  intros H Hc Hm Hh Hl Hn. unfold Smull_execute, Smull_sem, s32. rewrite guard_pass by exact Hc. rewrite bind_ret_tt.
  getr cfg H. getr cfg H. wordr cfg H s n Wn. wordr cfg H s m Wm.
  rewrite !to_signed_SInt by (try lia; assumption). rewrite to_unsigned_spec.
  set (r := (SInt (rget s n) 32 * SInt (rget s m) 32) mod 2 ^ 64).
  assert (Hr : 0 <= r < 2 ^ 64) by (unfold r; apply Z.mod_pos_bound; lia).
  rewrite ?bind_ret_tt. exact (long_tail cfg s dhi dlo r setflags H Hh Hl Hr).
Qed.

Lemma acc_code dlo dhi : word dlo -> word dhi -> set_substring dlo 63 32 dhi = dhi * 2 ^ 32 + dlo.
Proof.
  intros Wl Wh. rewrite set_substring_insert; [|lia|lia| |exact Wh].
  - unfold exp_set_substring, insert. assert (E : bits dlo 63 32 = 0).
    { unfold bits. rewrite Z.div_small by exact Wl. reflexivity. }
    rewrite E. lia.
  - unfold word in Wl. split; [lia|]. apply Z.lt_le_trans with (2 ^ 32); [lia|]. apply Z.pow_le_mono_r; lia.
Qed.

Theorem Umlal_ok cfg instr setflags m dhi dlo n s :
  ictx cfg s -> cond_holds s -> 0 <= m <= 14 -> 0 <= dhi <= 14 -> 0 <= dlo <= 14 -> 0 <= n <= 14 ->
  Umlal_execute cfg instr setflags m dhi dlo n s = Ok tt (Umlal_sem (cfg_arch_version cfg) s setflags m dhi dlo n).
Proof.
  intros H Hc Hm Hh Hl Hn. unfold Umlal_execute, Umlal_sem, acc64. rewrite guard_pass by exact Hc. rewrite bind_ret_tt.
  getr cfg H. getr cfg H. getr cfg H. getr cfg H.
  wordr cfg H s dlo Wl. wordr cfg H s dhi Wh.
  rewrite acc_code by assumption. rewrite lower_chunk_mod by lia.
  set (r := (rget s n * rget s m + (rget s dhi * 2 ^ 32 + rget s dlo)) mod 2 ^ 64).
  assert (Hr : 0 <= r < 2 ^ 64) by (unfold r; apply Z.mod_pos_bound; lia).
  rewrite ?bind_ret_tt. exact (long_tail cfg s dhi dlo r setflags H Hh Hl Hr).
Qed.

Theorem Smlal_ok cfg instr setflags m dhi dlo n s :
  ictx cfg s -> cond_holds s -> 0 <= m <= 14 -> 0 <= dhi <= 14 -> 0 <= dlo <= 14 -> 0 <= n <= 14 ->
  Smlal_execute cfg instr setflags m dhi dlo n s = Ok tt (Smlal_sem (cfg_arch_version cfg) s setflags m dhi dlo n).
Proof.
  intros H Hc Hm Hh Hl Hn. unfold Smlal_execute, Smlal_sem, acc64, s32. rewrite guard_pass by exact Hc. rewrite bind_ret_tt.
  getr cfg H. getr cfg H. getr cfg H. getr cfg H.
  wordr cfg H s dlo Wl. wordr cfg H s dhi Wh. wordr cfg H s n Wn. wordr cfg H s m Wm.
  rewrite acc_code by assumption.
  assert (Ha : 0 <= rget s dhi * 2 ^ 32 + rget s dlo < 2 ^ 64) by (unfold word in *; lia).
  rewrite !to_signed_SInt by (try lia; assumption). rewrite to_unsigned_spec.
  set (r := (SInt (rget s n) 32 * SInt (rget s m) 32 + SInt (rget s dhi * 2 ^ 32 + rget s dlo) 64) mod 2 ^ 64).
  assert (Hr : 0 <= r < 2 ^ 64) by (unfold r; apply Z.mod_pos_bound; lia).
  rewrite ?bind_ret_tt. exact (long_tail cfg s dhi dlo r setflags H Hh Hl Hr).
Qed.

Theorem Umull_ok cfg instr setflags m dhi dlo n s :
  ictx cfg s -> cond_holds s -> 0 <= m <= 14 -> 0 <= dhi <= 14 -> 0 <= dlo <= 14 -> 0 <= n <= 14 ->
  Umull_execute cfg instr setflags m dhi dlo n s = Ok tt (Umull_sem (cfg_arch_version cfg) s setflags m dhi dlo n).
Proof.
  intros H Hc Hm Hh Hl Hn. unfold Umull_execute, Umull_sem, UMULL_sem. rewrite guard_pass by exact Hc. rewrite bind_ret_tt.
  getr cfg H. getr cfg H. wordr cfg H s n Wn. wordr cfg H s m Wm.
  set (r := rget s n * rget s m).
  assert (Hr : 0 <= r < 2 ^ 64) by (unfold r, word in *; nia).
  rewrite ?bind_ret_tt. rewrite (long_tail cfg s dhi dlo r setflags H Hh Hl Hr). cbv zeta. unfold set64, nz64.
  rewrite (Z.mod_small r) by exact Hr. reflexivity.
Qed.
