(* Corr/ItBlockSpec.v — what an IT instruction followed by four 16-bit MOVS Rk,#imm (k = 0..3, imm <> 0) must do, from
   Spec/Arch.v only (ConditionHolds, ITAdvance): which of them execute, that those inside the block leave the flags alone,
   the flags left by the ones outside it, and the final ITSTATE.  Executable driver for the C08 correspondence. *)
From Coq Require Import ZArith List Bool.
From ArmV Require Import Lib.PyZ Spec.Pseudocode Spec.Arch.
Import ListNotations.
Open Scope Z_scope.

(* state: (ITSTATE, N, Z) — C and V are never changed by MOVS #imm8 *)
Fixpoint it_run (imms olds : list Z) (it n z c v : Z) : list Z * (Z * Z * Z) :=
  match imms, olds with
  | imm :: imms', old :: olds' =>
      if InITBlock it then
        let ex := ConditionHolds (bits it 7 4) n z c v in
        let '(rs, fin) := it_run imms' olds' (ITAdvance it) n z c v in
        ((if ex then imm else old) :: rs, fin)
      else
        let '(rs, fin) := it_run imms' olds' 0 0 (if imm =? 0 then 1 else 0) c v in
        (imm :: rs, fin)
  | _, _ => ([], (it, n, z))
  end.
Definition it_block_spec (firstcond mask nzcv : Z) (imms olds : list Z) : list Z :=
  let n := bit nzcv 3 in let z := bit nzcv 2 in let c := bit nzcv 1 in let v := bit nzcv 0 in
  let '(rs, (it, n', z')) := it_run imms olds (firstcond * 16 + mask) n z c v in
  rs ++ [n' * 8 + z' * 4 + c * 2 + v; it].
