(* Proofs/BlockProofs3.v — STMDA / STMDB / STMIB: the regenerated execute() equals the pseudocode of Spec/BlockFamily.v
   [STMx] with MemA instantiated by the emulator's mem_a_set.  The code's own lowest-set-bit helper is shown equal to the
   specification's [lowest_set] for every 16-bit register list by an exhaustive evaluation. *)
From Coq Require Import ZArith List Bool Lia ZifyBool.
From ArmV Require Import Lib.PyZ Lib.Monad Lib.Machine Spec.Pseudocode Spec.Expected Spec.Arch
  Proofs.BitLemmas Proofs.SpecFacts Proofs.BitsOps Proofs.BitsOps2 Proofs.ShiftOps Proofs.FieldsProofs Proofs.StateLemmas
  Proofs.CondProofs Proofs.GuardProofs Proofs.BankProofs Proofs.MachineOps Proofs.DPLemmas Proofs.DPTactics Proofs.BranchProofs
  Proofs.LSProofs Proofs.ExcProofs Spec.MachineView Spec.BlockTransfer Spec.BlockFamily Proofs.BlockProofs Proofs.BlockProofs2 Proofs.LowestSweep.
From Gen Require Import enums bits_ops shift regviews records hubm opsyn core exec.
Import ListNotations.
Open Scope Z_scope.
(* a sentence that runs this long no longer matches the code it was written for: fail instead of searching *)
Set Default Timeout 240.
Ltac Zify.zify_post_hook ::= Z.to_euclidean_division_equations.

Section Block3.
  Variable cfg : config.
  Variable Inv : machine -> Prop.
  Hypothesis Inv_ictx : forall s, Inv s -> ictx cfg s.
  Hypothesis Inv_rset : forall s n v, Inv s -> 0 <= n <= 14 -> word v -> Inv (rset s n v).
  Hypothesis Inv_rd : forall s a d s1, Inv s -> ArmV6_mem_a_get cfg a 4 s = Ok d s1 -> Inv s1 /\ word d.
  Hypothesis Inv_wr : forall s a v s1, Inv s -> word v -> ArmV6_mem_a_set cfg a 4 v s = Ok tt s1 -> Inv s1.

  (* the specification's loop with the UNKNOWN-store rule is the loop of Spec/BlockTransfer.v *)
  Lemma store_loop_stm regs n wback : forall l a s,
    store_loop (ArmV6_mem_a_set cfg) (fun s i => if (i =? n) && negb (wback =? 0) && negb (i =? lowest_set regs) then 0 else rget s i) regs l a s
    = stm_loop (ArmV6_mem_a_set cfg) regs n wback (lowest_set regs) l a s.
  Proof.
    induction l as [|i l IH]; intros a s; [reflexivity|]. cbn [store_loop stm_loop].
    destruct (bit regs i =? 1); [|apply IH]. cbv zeta. destruct (ArmV6_mem_a_set cfg a 4 _ s) as [[] s1|e s1]; [apply IH|reflexivity].
  Qed.

  Lemma stmx_loop_code regs n wback lowest : forall l address s, Inv s -> (forall i, In i l -> 0 <= i <= 14) ->
    foldM (fun v_i v_address =>
             bind (if truthy (bit_at regs v_i)
                   then bind (lift (if (v_i =? n) && truthy wback
                                    then Val (negb (v_i =? lowest))
                                    else Val false))
                         (fun b_5 => bind (if b_5 : bool then bind (ArmV6_mem_a_set cfg v_address 4 0) (fun _ => ret tt)
                                           else bind (Registers_get cfg v_i) (fun t_7 => bind (ArmV6_mem_a_set cfg v_address 4 t_7) (fun _ => ret tt)))
                                          (fun _ => ret (add v_address 4 32)))
                   else ret v_address) (fun v_address => ret v_address)) l address s
    = stm_loop (ArmV6_mem_a_set cfg) regs n wback lowest l address s.
  Proof.
    induction l as [|i l IH]; intros address s HI Hl; [reflexivity|].
    cbn [foldM stm_loop]. assert (Hi : 0 <= i <= 14) by (apply Hl; left; reflexivity). pose proof (Inv_ictx _ HI) as H.
    rewrite truthy_bit_at by lia. destruct (bit regs i =? 1).
    - set (unk := (i =? n) && negb (wback =? 0) && negb (i =? lowest)).
      assert (Eb : (if (i =? n) && truthy wback then Val (negb (i =? lowest)) else Val false) = Val unk).
      { unfold unk, truthy. destruct (i =? n), (negb (wback =? 0)); reflexivity. }
      rewrite Eb. unfold lift at 1. rewrite !bind_assoc_run, bind_ret_run. cbv beta.
      assert (Wv : word (if unk then 0 else rget s i)).
      { destruct unk; [unfold word; lia|apply (word_rget cfg); [exact H|lia]]. }
      assert (Ew : forall K : unit -> M machine Z,
               bind (if unk then bind (ArmV6_mem_a_set cfg address 4 0) (fun _ => ret tt)
                     else bind (Registers_get cfg i) (fun t_7 => bind (ArmV6_mem_a_set cfg address 4 t_7) (fun _ => ret tt))) K s
               = bind (ArmV6_mem_a_set cfg address 4 (if unk then 0 else rget s i)) K s).
      { intros K. destruct unk; [rewrite bind_assoc_run; unfold bind, ret; destruct (ArmV6_mem_a_set cfg address 4 0 s) as [[] ?|]; reflexivity|].
        rewrite bind_assoc_run, (b_get cfg) by (try exact H; lia). rewrite bind_assoc_run. unfold bind, ret.
        destruct (ArmV6_mem_a_set cfg address 4 (rget s i) s) as [[] ?|]; reflexivity. }
      rewrite !bind_assoc_run. rewrite Ew. rewrite run_bind.
      destruct (ArmV6_mem_a_set cfg address 4 (if unk then 0 else rget s i) s) as [[] s1|e s1] eqn:E1; [|reflexivity].
      pose proof (Inv_wr _ _ _ _ HI Wv E1) as HI1. cbn beta iota. rewrite !bind_ret_run. cbv beta iota.
      rewrite add_spec. fold (add32 address 4). apply IH; [exact HI1|intros j Hj; apply Hl; right; exact Hj].
    - rewrite bind_assoc_run, !bind_ret_run. apply IH; [exact HI|intros j Hj; apply Hl; right; exact Hj].
  Qed.

  Lemma stm_tail regs n wback lowest a0 (wbf : Z -> Z) s :
    Inv s -> 0 <= n <= 14 -> word a0 ->
    bind (foldM (fun v_i v_address =>
             bind (if truthy (bit_at regs v_i)
                   then bind (lift (if (v_i =? n) && truthy wback then Val (negb (v_i =? lowest)) else Val false))
                         (fun b_5 => bind (if b_5 : bool then bind (ArmV6_mem_a_set cfg v_address 4 0) (fun _ => ret tt)
                                           else bind (Registers_get cfg v_i) (fun t_7 => bind (ArmV6_mem_a_set cfg v_address 4 t_7) (fun _ => ret tt)))
                                          (fun _ => ret (add v_address 4 32)))
                   else ret v_address) (fun v_address => ret v_address)) (zrange 0 15) a0) (fun v_address =>
    bind (if truthy (bit_at regs 15)
          then bind (Registers_get_pc cfg) (fun t_9 => bind (ArmV6_mem_a_set cfg v_address 4 t_9) (fun _ => ret tt)) else ret tt) (fun _ =>
    bind (if truthy wback
          then bind (Registers_get cfg n) (fun t_11 => bind (Registers_set cfg n (wbf t_11)) (fun _ => ret tt)) else ret tt) (fun _ => ret tt))) s
    = match stm_loop (ArmV6_mem_a_set cfg) regs n wback lowest (zrange 0 15) a0 s with
      | Exc e s' => Exc e s'
      | Ok address s1 =>
          match (if bit regs 15 =? 1
                 then match ArmV6_mem_a_set cfg address 4 (rget s1 15) s1 with Exc e s' => Exc e s' | Ok _ s2 => Ok tt s2 end
                 else Ok tt s1) with
          | Exc e s' => Exc e s'
          | Ok _ s3 => if wback =? 0 then Ok tt s3 else Ok tt (rset s3 n (wbf (rget s3 n)))
          end
      end.
  Proof.
    intros HI Hn Wa. pose proof (Inv_ictx _ HI) as H.
    assert (Hr15 : forall i, In i (zrange 0 15) -> 0 <= i <= 14).
    { intros i Hin. apply zrange_bounds' in Hin. change (Z.of_nat 15) with 15 in Hin. lia. }
    rewrite run_bind, (stmx_loop_code regs n wback lowest (zrange 0 15) a0 s HI Hr15).
    destruct (stm_loop (ArmV6_mem_a_set cfg) regs n wback lowest (zrange 0 15) a0 s) as [addr s1|e s1] eqn:EL; [|reflexivity].
    destruct (stm_loop_inv cfg Inv Inv_ictx Inv_rset Inv_rd Inv_wr regs n wback lowest _ _ _ _ _ HI Hr15 Wa EL) as [HI1 Wad].
    pose proof (Inv_ictx _ HI1) as H1.
    cbn beta iota. rewrite truthy_bit_at by lia.
    destruct (bit regs 15 =? 1) eqn:E15.
    - rewrite !bind_assoc_run, (b_get_pc cfg) by exact H1. rewrite !bind_assoc_run, run_bind.
      assert (Wpc : word (rget s1 15)) by (apply (word_rget cfg); [exact H1|lia]).
      destruct (ArmV6_mem_a_set cfg addr 4 (rget s1 15) s1) as [[] s2|e s2] eqn:E2; [|reflexivity].
      pose proof (Inv_ictx _ (Inv_wr _ _ _ _ HI1 Wpc E2)) as H2. cbn beta iota. rewrite !bind_ret_run. cbv beta.
      unfold truthy. destruct (wback =? 0); cbn [negb]; [reflexivity|].
      rewrite bind_assoc_run, (b_get cfg) by (try exact H2; lia). rewrite bind_assoc_run, (b_set cfg) by (try exact H2; lia).
      rewrite !bind_ret_run. reflexivity.
    - rewrite bind_ret_run. cbv beta.
      unfold truthy. destruct (wback =? 0); cbn [negb]; [reflexivity|].
      rewrite bind_assoc_run, (b_get cfg) by (try exact H1; lia). rewrite bind_assoc_run, (b_set cfg) by (try exact H1; lia).
      rewrite !bind_ret_run. reflexivity.
  Qed.

  Ltac stm_fin regs Hregs wbf :=
    rewrite (lowest_code regs Hregs); cbn [enone ebind];
    rewrite (stm_tail regs _ _ (lowest_set regs) _ wbf) by (first [assumption | apply Z.mod_pos_bound; lia]);
    unfold STMx, bt_start, bt_final, sub32, add32; rewrite store_loop_stm; cbv beta; rewrite ?sub_spec, ?add_spec; reflexivity.

  Theorem Stmdb_sem instr wback regs n s :
    Inv s -> cond_holds s -> iset_of s <> 3 -> 0 <= n <= 14 -> 0 < regs < 2 ^ 16 ->
    Stmdb_execute cfg instr wback regs n s = STMx (ArmV6_mem_a_set cfg) 2 s wback regs n.
  Proof.
    intros HI Hc Hi Hn Hregs. unfold Stmdb_execute. pose proof (Inv_ictx _ HI) as H.
    rewrite guard_pass by exact Hc. rewrite bind_ret_tt. cbv zeta. rewrite try_null_check by exact Hi.
    rewrite (b_get cfg) by (try exact H; lia). cbv zeta. rewrite py_range_15. rewrite !bit_count_spec by lia. rewrite ?sub_spec, ?add_spec.
    stm_fin regs Hregs (fun t => sub t (4 * BitCount 16 regs) 32).
  Qed.
  Theorem Stmda_sem instr wback regs n s :
    Inv s -> cond_holds s -> 0 <= n <= 14 -> 0 < regs < 2 ^ 16 ->
    Stmda_execute cfg instr wback regs n s = STMx (ArmV6_mem_a_set cfg) 1 s wback regs n.
  Proof.
    intros HI Hc Hn Hregs. unfold Stmda_execute. pose proof (Inv_ictx _ HI) as H. cbv zeta.
    rewrite guard_pass by exact Hc. rewrite bind_ret_tt.
    rewrite (b_get cfg) by (try exact H; lia). cbv zeta. rewrite py_range_15. rewrite !bit_count_spec by lia. rewrite ?sub_spec, ?add_spec.
    stm_fin regs Hregs (fun t => sub t (4 * BitCount 16 regs) 32).
  Qed.
  Theorem Stmib_sem instr wback regs n s :
    Inv s -> cond_holds s -> 0 <= n <= 14 -> 0 < regs < 2 ^ 16 ->
    Stmib_execute cfg instr wback regs n s = STMx (ArmV6_mem_a_set cfg) 3 s wback regs n.
  Proof.
    intros HI Hc Hn Hregs. unfold Stmib_execute. pose proof (Inv_ictx _ HI) as H. cbv zeta.
    rewrite guard_pass by exact Hc. rewrite bind_ret_tt.
    rewrite (b_get cfg) by (try exact H; lia). cbv zeta. rewrite py_range_15. rewrite !bit_count_spec by lia. rewrite ?sub_spec, ?add_spec.
    stm_fin regs Hregs (fun t => add t (4 * BitCount 16 regs) 32).
  Qed.

  (* ---------- PUSH (every access through MemA: unaligned_allowed = 0) ---------- *)
  Lemma b_get_sp {A} (k : Z -> M machine A) s : ictx cfg s -> bind (Registers_get_sp cfg) k s = k (rget s 13) s.
  Proof. intros H. unfold Registers_get_sp. rewrite bind_assoc_run, (b_get cfg) by (try exact H; lia). reflexivity. Qed.
  Lemma b_set_sp {A} v (k : unit -> M machine A) s : ictx cfg s -> bind (Registers_set_sp cfg v) k s = k tt (rset s 13 v).
  Proof. intros H. unfold Registers_set_sp. rewrite bind_assoc_run, (b_set cfg) by (try exact H; lia). reflexivity. Qed.
  Lemma BitCount32_16 regs : 0 <= regs < 2 ^ 16 -> BitCount 32 regs = BitCount 16 regs.
  Proof.
    intros Hr. unfold BitCount. change (Z.to_nat 32) with 32%nat. change (Z.to_nat 16) with 16%nat.
    assert (Z0 : forall k, 16 <= k -> bit regs k = 0).
    { intros k Hk. unfold bit. rewrite Z.div_small; [reflexivity|]. split; [lia|]. apply Z.lt_le_trans with (2 ^ 16); [lia|]. apply Z.pow_le_mono_r; lia. }
    do 16 (rewrite BitCountN_S; rewrite (Z0 (Z.of_nat _)) by (cbn; lia); rewrite Z.add_0_r). reflexivity.
  Qed.

  Lemma push_loop_code regs lowest : forall l address s, Inv s -> (forall i, In i l -> 0 <= i <= 14) ->
    foldM (fun v_i v_address =>
             bind (if truthy (bit_at regs v_i)
                   then bind (lift (if (v_i =? 13) then Val (negb (v_i =? lowest)) else Val false))
                         (fun b_5 => bind (if b_5 : bool then bind (ArmV6_mem_a_set cfg v_address 4 0) (fun _ => ret tt)
                                           else bind (if truthy 0
                                                      then bind (Registers_get cfg v_i) (fun t_7 => bind (ArmV6_mem_u_set cfg v_address 4 t_7) (fun _ => ret tt))
                                                      else bind (Registers_get cfg v_i) (fun t_9 => bind (ArmV6_mem_a_set cfg v_address 4 t_9) (fun _ => ret tt)))
                                                     (fun _ => ret tt))
                                          (fun _ => ret (add v_address 4 32)))
                   else ret v_address) (fun v_address => ret v_address)) l address s
    = stm_loop (ArmV6_mem_a_set cfg) regs 13 1 lowest l address s.
  Proof.
    induction l as [|i l IH]; intros address s HI Hl; [reflexivity|].
    cbn [foldM stm_loop]. assert (Hi : 0 <= i <= 14) by (apply Hl; left; reflexivity). pose proof (Inv_ictx _ HI) as H.
    rewrite truthy_bit_at by lia. destruct (bit regs i =? 1).
    - set (unk := (i =? 13) && negb (1 =? 0) && negb (i =? lowest)).
      assert (Eb : (if (i =? 13) then Val (negb (i =? lowest)) else Val false) = Val unk).
      { unfold unk. destruct (i =? 13); reflexivity. }
      rewrite Eb. unfold lift at 1. rewrite !bind_assoc_run, bind_ret_run. cbv beta.
      assert (Wv : word (if unk then 0 else rget s i)).
      { destruct unk; [unfold word; lia|apply (word_rget cfg); [exact H|lia]]. }
      change (truthy 0) with false. cbv iota.
      assert (Ew : forall K : unit -> M machine Z,
               bind (if unk then bind (ArmV6_mem_a_set cfg address 4 0) (fun _ => ret tt)
                     else bind (bind (Registers_get cfg i) (fun t_9 => bind (ArmV6_mem_a_set cfg address 4 t_9) (fun _ => ret tt))) (fun _ => ret tt)) K s
               = bind (ArmV6_mem_a_set cfg address 4 (if unk then 0 else rget s i)) K s).
      { intros K. destruct unk; [rewrite bind_assoc_run; unfold bind, ret; destruct (ArmV6_mem_a_set cfg address 4 0 s) as [[] ?|]; reflexivity|].
        rewrite !bind_assoc_run, (b_get cfg) by (try exact H; lia). rewrite !bind_assoc_run. unfold bind, ret.
        destruct (ArmV6_mem_a_set cfg address 4 (rget s i) s) as [[] ?|]; reflexivity. }
      rewrite !bind_assoc_run. rewrite <- !bind_assoc_run. rewrite !bind_assoc_run.
      first [rewrite Ew | idtac].
      rewrite run_bind.
      destruct (ArmV6_mem_a_set cfg address 4 (if unk then 0 else rget s i) s) as [[] s1|e s1] eqn:E1; [|reflexivity].
      pose proof (Inv_wr _ _ _ _ HI Wv E1) as HI1. cbn beta iota. rewrite !bind_ret_run. cbv beta iota.
      rewrite add_spec. fold (add32 address 4). apply IH; [exact HI1|intros j Hj; apply Hl; right; exact Hj].
    - rewrite bind_assoc_run, !bind_ret_run. apply IH; [exact HI|intros j Hj; apply Hl; right; exact Hj].
  Qed.

  Theorem Push_sem instr regs s :
    Inv s -> cond_holds s -> iset_of s <> 3 -> 0 < regs < 2 ^ 16 ->
    Push_execute cfg instr regs 0 s = PUSH (ArmV6_mem_a_set cfg) s regs.
  Proof.
    intros HI Hc Hi Hregs. unfold Push_execute. pose proof (Inv_ictx _ HI) as H.
    rewrite guard_pass by exact Hc. rewrite bind_ret_tt. cbv zeta. rewrite try_null_check by exact Hi.
    rewrite b_get_sp by exact H. cbv zeta. rewrite py_range_15. rewrite !bit_count_spec by lia. rewrite BitCount32_16 by lia.
    rewrite (lowest_code regs Hregs). cbn [enone ebind]. rewrite sub_spec.
    assert (Hr15 : forall i, In i (zrange 0 15) -> 0 <= i <= 14).
    { intros i Hin. apply zrange_bounds' in Hin. change (Z.of_nat 15) with 15 in Hin. lia. }
    set (a0 := (rget s 13 - 4 * BitCount 16 regs) mod 2 ^ 32). assert (Wa : word a0) by (apply Z.mod_pos_bound; lia).
    rewrite run_bind, (push_loop_code regs (lowest_set regs) (zrange 0 15) a0 s HI Hr15).
    unfold PUSH, sub32. fold a0.
    replace (store_loop (ArmV6_mem_a_set cfg) (fun s i => if (i =? 13) && negb (i =? lowest_set regs) then 0 else rget s i) regs (zrange 0 15) a0 s)
      with (stm_loop (ArmV6_mem_a_set cfg) regs 13 1 (lowest_set regs) (zrange 0 15) a0 s).
    2:{ rewrite <- (store_loop_stm regs 13 1). generalize (zrange 0 15) a0 s. induction l as [|i l IH]; intros a s'; [reflexivity|].
        cbn [store_loop]. destruct (bit regs i =? 1); [|apply IH]. change (negb (1 =? 0)) with true. rewrite andb_true_r.
        destruct (ArmV6_mem_a_set cfg a 4 _ s') as [[] s1|e s1]; [apply IH|reflexivity]. }
    destruct (stm_loop (ArmV6_mem_a_set cfg) regs 13 1 (lowest_set regs) (zrange 0 15) a0 s) as [addr s1|e s1] eqn:EL; [|reflexivity].
    destruct (stm_loop_inv cfg Inv Inv_ictx Inv_rset Inv_rd Inv_wr regs 13 1 (lowest_set regs) _ _ _ _ _ HI Hr15 Wa EL) as [HI1 Wad].
    pose proof (Inv_ictx _ HI1) as H1.
    cbn beta iota. rewrite truthy_bit_at by lia. change (truthy 0) with false. cbv iota.
    destruct (bit regs 15 =? 1) eqn:E15.
    - rewrite !bind_assoc_run, (b_get_pc cfg) by exact H1. rewrite !bind_assoc_run, run_bind.
      assert (Wpc : word (rget s1 15)) by (apply (word_rget cfg); [exact H1|lia]).
      destruct (ArmV6_mem_a_set cfg addr 4 (rget s1 15) s1) as [[] s2|e s2] eqn:E2; [|reflexivity].
      pose proof (Inv_ictx _ (Inv_wr _ _ _ _ HI1 Wpc E2)) as H2. cbn beta iota. rewrite !bind_ret_run. cbv beta.
      rewrite b_get_sp by exact H2. rewrite b_set_sp by exact H2. rewrite sub_spec. reflexivity.
    - rewrite bind_ret_run. cbv beta. rewrite b_get_sp by exact H1. rewrite b_set_sp by exact H1. rewrite sub_spec. reflexivity.
  Qed.
End Block3.
