(* Props/C07ops6.v — C07: operand extraction of the Thumb encodings (shard 6 of 8).
   For every word of the stated domain, from_bitarray returns the class with the fields the encoding diagram
   names, and leaves the state alone.  Statements rendered from harness/optable.py by harness/mkopthm.py. *)
From Coq Require Import ZArith List Bool Lia ZifyBool.
From ArmV Require Import Lib.PyZ Lib.Monad Lib.Machine Spec.Pseudocode Spec.Arch Spec.MachineView Spec.OperandSpec.
From Gen Require Import enums bits_ops shift regviews records hubm opsyn core exec conc.
Import ListNotations.
Open Scope Z_scope.
From ArmV Require Proofs.OpsT6.

Theorem C07_ops_AddImmediateThumbT4 w s :
  0 <= w < 2 ^ 32 ->
  regs13 [bits w 19 16; bits w 11 8] = true ->
  fb_out (AddImmediateThumbT4_from_bitarray w) s = Ok (Some (code_AddImmediateThumb, [w; 0; bits w 11 8; bits w 19 16; imm12t w])) s.
Proof. exact (OpsT6.ops_AddImmediateThumbT4 w s). Qed.
Print Assumptions C07_ops_AddImmediateThumbT4.

Theorem C07_ops_AddSpPlusRegisterThumbT1 w s :
  0 <= w < 2 ^ 16 ->
  pre_dm_low w = true ->
  fb_out (AddSpPlusRegisterThumbT1_from_bitarray w) s = Ok (Some (code_AddSpPlusRegisterThumb, [w; 0; bit w 7 * 8 + bits w 2 0; bit w 7 * 8 + bits w 2 0; 1; 0])) s.
Proof. exact (OpsT6.ops_AddSpPlusRegisterThumbT1 w s). Qed.
Print Assumptions C07_ops_AddSpPlusRegisterThumbT1.

Theorem C07_ops_AndRegisterT2 w s :
  0 <= w < 2 ^ 32 ->
  regs13 [bits w 19 16; bits w 11 8; bits w 3 0] = true ->
  fb_out (AndRegisterT2_from_bitarray w) s = Ok (Some (code_AndRegister, [w; bit w 20; bits w 3 0; bits w 11 8; bits w 19 16; fst (DecodeImmShift (bits w 5 4) (imm5t w)); snd (DecodeImmShift (bits w 5 4) (imm5t w))])) s.
Proof. exact (OpsT6.ops_AndRegisterT2 w s). Qed.
Print Assumptions C07_ops_AndRegisterT2.

Theorem C07_ops_BicRegisterT1 w s :
  0 <= w < 2 ^ 16 ->
  fb_out (BicRegisterT1_from_bitarray w) s = Ok (Some (code_BicRegister, [w; not_in_it s; bits w 5 3; bits w 2 0; bits w 2 0; 1; 0])) s.
Proof. exact (OpsT6.ops_BicRegisterT1 w s). Qed.
Print Assumptions C07_ops_BicRegisterT1.

Theorem C07_ops_CmnImmediateT1 w s :
  0 <= w < 2 ^ 32 ->
  regs13 [bits w 19 16] = true ->
  fb_out (CmnImmediateT1_from_bitarray w) s = Ok (Some (code_CmnImmediate, [w; bits w 19 16; ThumbExpandImm (imm12t w)])) s.
Proof. exact (OpsT6.ops_CmnImmediateT1 w s). Qed.
Print Assumptions C07_ops_CmnImmediateT1.

Theorem C07_ops_CpsThumbT1 w s :
  0 <= w < 2 ^ 16 ->
  pre_cps_t1 w = true ->
  in_it s = false ->
  fb_out (CpsThumbT1_from_bitarray w) s = Ok (Some (code_CpsThumb, [w; bit w 2; bit w 1; bit w 0; 1 - bit w 4; bit w 4; 0; 0])) s.
Proof. exact (OpsT6.ops_CpsThumbT1 w s). Qed.
Print Assumptions C07_ops_CpsThumbT1.

Theorem C07_ops_IsbT1 w s :
  0 <= w < 2 ^ 32 ->
  in_it s = false ->
  fb_out (IsbT1_from_bitarray w) s = Ok (Some (code_Isb, [w])) s.
Proof. exact (OpsT6.ops_IsbT1 w s). Qed.
Print Assumptions C07_ops_IsbT1.

Theorem C07_ops_LdmdbT1 w s :
  0 <= w < 2 ^ 32 ->
  regs13 [bits w 19 16] = true ->
  pre_reglist_lt w = true ->
  fb_out (LdmdbT1_from_bitarray w) s = Ok (Some (code_Ldmdb, [w; bit w 21; bits w 15 14 * 2 ^ 14 + bits w 12 0; bits w 19 16])) s.
Proof. exact (OpsT6.ops_LdmdbT1 w s). Qed.
Print Assumptions C07_ops_LdmdbT1.

Theorem C07_ops_LdrRegisterThumbT2 w s :
  0 <= w < 2 ^ 32 ->
  regs13 [bits w 19 16; bits w 15 12; bits w 3 0] = true ->
  fb_out (LdrRegisterThumbT2_from_bitarray w) s = Ok (Some (code_LdrRegisterThumb, [w; bits w 3 0; bits w 15 12; bits w 19 16; 1; bits w 5 4])) s.
Proof. exact (OpsT6.ops_LdrRegisterThumbT2 w s). Qed.
Print Assumptions C07_ops_LdrRegisterThumbT2.

Theorem C07_ops_LdrdImmediateT1 w s :
  0 <= w < 2 ^ 32 ->
  regs13 [bits w 19 16; bits w 15 12; bits w 11 8] = true ->
  pre_pw_t w = true ->
  fb_out (LdrdImmediateT1_from_bitarray w) s = Ok (Some (code_LdrdImmediate, [w; bit w 23; bit w 21; bit w 24; bits w 7 0 * 4; bits w 15 12; bits w 11 8; bits w 19 16])) s.
Proof. exact (OpsT6.ops_LdrdImmediateT1 w s). Qed.
Print Assumptions C07_ops_LdrdImmediateT1.

Theorem C07_ops_LdrhImmediateThumbT3 w s :
  0 <= w < 2 ^ 32 ->
  regs13 [bits w 19 16; bits w 15 12] = true ->
  pre_puw w = true ->
  fb_out (LdrhImmediateThumbT3_from_bitarray w) s = Ok (Some (code_LdrhImmediateThumb, [w; bit w 9; bit w 8; bit w 10; bits w 15 12; bits w 19 16; bits w 7 0])) s.
Proof. exact (OpsT6.ops_LdrhImmediateThumbT3 w s). Qed.
Print Assumptions C07_ops_LdrhImmediateThumbT3.

Theorem C07_ops_LdrsbRegisterT1 w s :
  0 <= w < 2 ^ 16 ->
  fb_out (LdrsbRegisterT1_from_bitarray w) s = Ok (Some (code_LdrsbRegister, [w; 1; 0; 1; bits w 8 6; bits w 2 0; bits w 5 3; 1; 0])) s.
Proof. exact (OpsT6.ops_LdrsbRegisterT1 w s). Qed.
Print Assumptions C07_ops_LdrsbRegisterT1.

Theorem C07_ops_LdrshtT1 w s :
  0 <= w < 2 ^ 32 ->
  regs13 [bits w 19 16; bits w 15 12] = true ->
  fb_out (LdrshtT1_from_bitarray w) s = Ok (Some (code_Ldrsht, [w; 1; 0; 0; bits w 15 12; bits w 19 16; 0; bits w 7 0])) s.
Proof. exact (OpsT6.ops_LdrshtT1 w s). Qed.
Print Assumptions C07_ops_LdrshtT1.

Theorem C07_ops_LsrRegisterT1 w s :
  0 <= w < 2 ^ 16 ->
  fb_out (LsrRegisterT1_from_bitarray w) s = Ok (Some (code_LsrRegister, [w; not_in_it s; bits w 5 3; bits w 2 0; bits w 2 0])) s.
Proof. exact (OpsT6.ops_LsrRegisterT1 w s). Qed.
Print Assumptions C07_ops_LsrRegisterT1.

Theorem C07_ops_MovImmediateT1 w s :
  0 <= w < 2 ^ 16 ->
  fb_out (MovImmediateT1_from_bitarray w) s = Ok (Some (code_MovImmediate, [w; not_in_it s; bits w 10 8; bits w 7 0; cflag s])) s.
Proof. exact (OpsT6.ops_MovImmediateT1 w s). Qed.
Print Assumptions C07_ops_MovImmediateT1.

Theorem C07_ops_MrcMrc2T2 w s :
  0 <= w < 2 ^ 32 ->
  regs13 [bits w 15 12] = true ->
  pre_cp_ok w = true ->
  fb_out (MrcMrc2T2_from_bitarray w) s = Ok (Some (code_MrcMrc2, [w; bits w 11 8; bits w 15 12])) s.
Proof. exact (OpsT6.ops_MrcMrc2T2 w s). Qed.
Print Assumptions C07_ops_MrcMrc2T2.

Theorem C07_ops_MulT2 w s :
  0 <= w < 2 ^ 32 ->
  regs13 [bits w 19 16; bits w 11 8; bits w 3 0] = true ->
  fb_out (MulT2_from_bitarray w) s = Ok (Some (code_Mul, [w; 0; bits w 3 0; bits w 11 8; bits w 19 16])) s.
Proof. exact (OpsT6.ops_MulT2 w s). Qed.
Print Assumptions C07_ops_MulT2.

Theorem C07_ops_OrrImmediateT1 w s :
  0 <= w < 2 ^ 32 ->
  regs13 [bits w 19 16; bits w 11 8] = true ->
  fb_out (OrrImmediateT1_from_bitarray w) s = Ok (Some (code_OrrImmediate, [w; bit w 20; bits w 11 8; bits w 19 16; ThumbExpandImm (imm12t w); snd (ThumbExpandImm_C (imm12t w) (cflag s))])) s.
Proof. exact (OpsT6.ops_OrrImmediateT1 w s). Qed.
Print Assumptions C07_ops_OrrImmediateT1.

Theorem C07_ops_PopThumbT1 w s :
  0 <= w < 2 ^ 16 ->
  pre_list8_nz w = true ->
  in_it s = false ->
  fb_out (PopThumbT1_from_bitarray w) s = Ok (Some (code_PopThumb, [w; bit w 8 * 2 ^ 15 + bits w 7 0; 0])) s.
Proof. exact (OpsT6.ops_PopThumbT1 w s). Qed.
Print Assumptions C07_ops_PopThumbT1.

Theorem C07_ops_QasxT1 w s :
  0 <= w < 2 ^ 32 ->
  regs13 [bits w 19 16; bits w 11 8; bits w 3 0] = true ->
  fb_out (QasxT1_from_bitarray w) s = Ok (Some (code_Qasx, [w; bits w 3 0; bits w 11 8; bits w 19 16])) s.
Proof. exact (OpsT6.ops_QasxT1 w s). Qed.
Print Assumptions C07_ops_QasxT1.

Theorem C07_ops_Rev16T1 w s :
  0 <= w < 2 ^ 16 ->
  fb_out (Rev16T1_from_bitarray w) s = Ok (Some (code_Rev16, [w; bits w 5 3; bits w 2 0])) s.
Proof. exact (OpsT6.ops_Rev16T1 w s). Qed.
Print Assumptions C07_ops_Rev16T1.

Theorem C07_ops_RorImmediateT1 w s :
  0 <= w < 2 ^ 32 ->
  regs13 [bits w 11 8; bits w 3 0] = true ->
  pre_imm5t_nz w = true ->
  fb_out (RorImmediateT1_from_bitarray w) s = Ok (Some (code_RorImmediate, [w; bit w 20; bits w 3 0; bits w 11 8; snd (DecodeImmShift 3 (imm5t w))])) s.
Proof. exact (OpsT6.ops_RorImmediateT1 w s). Qed.
Print Assumptions C07_ops_RorImmediateT1.

Theorem C07_ops_Sadd8T1 w s :
  0 <= w < 2 ^ 32 ->
  regs13 [bits w 19 16; bits w 11 8; bits w 3 0] = true ->
  fb_out (Sadd8T1_from_bitarray w) s = Ok (Some (code_Sadd8, [w; bits w 3 0; bits w 11 8; bits w 19 16])) s.
Proof. exact (OpsT6.ops_Sadd8T1 w s). Qed.
Print Assumptions C07_ops_Sadd8T1.

Theorem C07_ops_SetendT1 w s :
  0 <= w < 2 ^ 16 ->
  in_it s = false ->
  fb_out (SetendT1_from_bitarray w) s = Ok (Some (code_Setend, [w; bit w 3])) s.
Proof. exact (OpsT6.ops_SetendT1 w s). Qed.
Print Assumptions C07_ops_SetendT1.

Theorem C07_ops_Shsub8T1 w s :
  0 <= w < 2 ^ 32 ->
  regs13 [bits w 19 16; bits w 11 8; bits w 3 0] = true ->
  fb_out (Shsub8T1_from_bitarray w) s = Ok (Some (code_Shsub8, [w; bits w 3 0; bits w 11 8; bits w 19 16])) s.
Proof. exact (OpsT6.ops_Shsub8T1 w s). Qed.
Print Assumptions C07_ops_Shsub8T1.

Theorem C07_ops_SmlsdT1 w s :
  0 <= w < 2 ^ 32 ->
  regs13 [bits w 19 16; bits w 15 12; bits w 11 8; bits w 3 0] = true ->
  fb_out (SmlsdT1_from_bitarray w) s = Ok (Some (code_Smlsd, [w; bit w 4; bits w 3 0; bits w 15 12; bits w 11 8; bits w 19 16])) s.
Proof. exact (OpsT6.ops_SmlsdT1 w s). Qed.
Print Assumptions C07_ops_SmlsdT1.

Theorem C07_ops_SmulwT1 w s :
  0 <= w < 2 ^ 32 ->
  regs13 [bits w 19 16; bits w 11 8; bits w 3 0] = true ->
  fb_out (SmulwT1_from_bitarray w) s = Ok (Some (code_Smulw, [w; bit w 4; bits w 3 0; bits w 11 8; bits w 19 16])) s.
Proof. exact (OpsT6.ops_SmulwT1 w s). Qed.
Print Assumptions C07_ops_SmulwT1.

Theorem C07_ops_Ssub8T1 w s :
  0 <= w < 2 ^ 32 ->
  regs13 [bits w 19 16; bits w 11 8; bits w 3 0] = true ->
  fb_out (Ssub8T1_from_bitarray w) s = Ok (Some (code_Ssub8, [w; bits w 3 0; bits w 11 8; bits w 19 16])) s.
Proof. exact (OpsT6.ops_Ssub8T1 w s). Qed.
Print Assumptions C07_ops_Ssub8T1.

Theorem C07_ops_StrImmediateThumbT3 w s :
  0 <= w < 2 ^ 32 ->
  regs13 [bits w 19 16; bits w 15 12] = true ->
  fb_out (StrImmediateThumbT3_from_bitarray w) s = Ok (Some (code_StrImmediateThumb, [w; 1; 0; 1; bits w 15 12; bits w 19 16; bits w 11 0])) s.
Proof. exact (OpsT6.ops_StrImmediateThumbT3 w s). Qed.
Print Assumptions C07_ops_StrImmediateThumbT3.

Theorem C07_ops_StrbRegisterT2 w s :
  0 <= w < 2 ^ 32 ->
  regs13 [bits w 19 16; bits w 15 12; bits w 3 0] = true ->
  fb_out (StrbRegisterT2_from_bitarray w) s = Ok (Some (code_StrbRegister, [w; 1; 0; 1; bits w 3 0; bits w 15 12; bits w 19 16; 1; bits w 5 4])) s.
Proof. exact (OpsT6.ops_StrbRegisterT2 w s). Qed.
Print Assumptions C07_ops_StrbRegisterT2.

Theorem C07_ops_StrhImmediateThumbT2 w s :
  0 <= w < 2 ^ 32 ->
  regs13 [bits w 19 16; bits w 15 12] = true ->
  fb_out (StrhImmediateThumbT2_from_bitarray w) s = Ok (Some (code_StrhImmediateThumb, [w; 1; 0; 1; bits w 15 12; bits w 19 16; bits w 11 0])) s.
Proof. exact (OpsT6.ops_StrhImmediateThumbT2 w s). Qed.
Print Assumptions C07_ops_StrhImmediateThumbT2.

Theorem C07_ops_SubImmediateThumbT3 w s :
  0 <= w < 2 ^ 32 ->
  regs13 [bits w 19 16; bits w 11 8] = true ->
  fb_out (SubImmediateThumbT3_from_bitarray w) s = Ok (Some (code_SubImmediateThumb, [w; bit w 20; bits w 11 8; bits w 19 16; ThumbExpandImm (imm12t w)])) s.
Proof. exact (OpsT6.ops_SubImmediateThumbT3 w s). Qed.
Print Assumptions C07_ops_SubImmediateThumbT3.

Theorem C07_ops_SubsPcLrThumbT1 (cfg : config) w s :
  0 <= w < 2 ^ 32 ->
  in_it s = false ->
  mode_of s <> 26 ->
  iset_of s <> 3 ->
  fb_out (SubsPcLrThumbT1_from_bitarray cfg w) s = Ok (Some (code_SubsPcLrThumb, [w; bits w 7 0; 14])) s.
Proof. exact (OpsT6.ops_SubsPcLrThumbT1 cfg w s). Qed.
Print Assumptions C07_ops_SubsPcLrThumbT1.

Theorem C07_ops_SxthT1 w s :
  0 <= w < 2 ^ 16 ->
  fb_out (SxthT1_from_bitarray w) s = Ok (Some (code_Sxth, [w; bits w 5 3; bits w 2 0; 0])) s.
Proof. exact (OpsT6.ops_SxthT1 w s). Qed.
Print Assumptions C07_ops_SxthT1.

Theorem C07_ops_Uadd16T1 w s :
  0 <= w < 2 ^ 32 ->
  regs13 [bits w 19 16; bits w 11 8; bits w 3 0] = true ->
  fb_out (Uadd16T1_from_bitarray w) s = Ok (Some (code_Uadd16, [w; bits w 3 0; bits w 11 8; bits w 19 16])) s.
Proof. exact (OpsT6.ops_Uadd16T1 w s). Qed.
Print Assumptions C07_ops_Uadd16T1.

Theorem C07_ops_Uhadd8T1 w s :
  0 <= w < 2 ^ 32 ->
  regs13 [bits w 19 16; bits w 11 8; bits w 3 0] = true ->
  fb_out (Uhadd8T1_from_bitarray w) s = Ok (Some (code_Uhadd8, [w; bits w 3 0; bits w 11 8; bits w 19 16])) s.
Proof. exact (OpsT6.ops_Uhadd8T1 w s). Qed.
Print Assumptions C07_ops_Uhadd8T1.

Theorem C07_ops_Uqadd16T1 w s :
  0 <= w < 2 ^ 32 ->
  regs13 [bits w 19 16; bits w 11 8; bits w 3 0] = true ->
  fb_out (Uqadd16T1_from_bitarray w) s = Ok (Some (code_Uqadd16, [w; bits w 3 0; bits w 11 8; bits w 19 16])) s.
Proof. exact (OpsT6.ops_Uqadd16T1 w s). Qed.
Print Assumptions C07_ops_Uqadd16T1.

Theorem C07_ops_Usat16T1 w s :
  0 <= w < 2 ^ 32 ->
  regs13 [bits w 19 16; bits w 11 8] = true ->
  bit w 4 = 0 ->
  bit w 5 = 0 ->
  fb_out (Usat16T1_from_bitarray w) s = Ok (Some (code_Usat16, [w; bits w 3 0; bits w 11 8; bits w 19 16])) s.
Proof. exact (OpsT6.ops_Usat16T1 w s). Qed.
Print Assumptions C07_ops_Usat16T1.

Theorem C07_ops_Uxtb16T1 w s :
  0 <= w < 2 ^ 32 ->
  regs13 [bits w 11 8; bits w 3 0] = true ->
  fb_out (Uxtb16T1_from_bitarray w) s = Ok (Some (code_Uxtb16, [w; bits w 3 0; bits w 11 8; bits w 5 4 * 8])) s.
Proof. exact (OpsT6.ops_Uxtb16T1 w s). Qed.
Print Assumptions C07_ops_Uxtb16T1.

Theorem C07_ops_WfiT2 w s :
  0 <= w < 2 ^ 32 ->
  in_it s = false ->
  fb_out (WfiT2_from_bitarray w) s = Ok (Some (code_Wfi, [w])) s.
Proof. exact (OpsT6.ops_WfiT2 w s). Qed.
Print Assumptions C07_ops_WfiT2.
