(* Props/C12.v — C12: system instructions (first part: PSR writes by instructions).
   Statements only; proofs in Proofs/CpsrWrite.v (code = pseudocode) and Proofs/ArchFacts.v (consequences). *)
From Coq Require Import ZArith Bool List.
From ArmV Require Import Lib.PyZ Lib.Monad Lib.Machine Spec.Pseudocode Spec.Arch
  Spec.MachineView Spec.Coproc Proofs.StateLemmas Proofs.CondProofs Proofs.BankProofs Proofs.CpsrWrite Proofs.ArchFacts Proofs.CoprocProofs.
From Gen Require Import enums core.
Open Scope Z_scope.

(* cpsr_write_by_instr is CPSRWriteByInstr(): for every value, byte mask, exception-return flag,
   configuration and state it writes that value to the CPSR and changes nothing else *)
Theorem C12_cpsr_write cfg value bytemask excp s : length (sys s) = n_sys -> word (cpsr_of s) ->
  Registers_cpsr_write_by_instr cfg value bytemask excp s =
  Ok tt (set_cpsr s (CPSRWriteByInstr (sysctx_of cfg s) (cpsr_of s) value bytemask excp)).
Proof. exact (cpsr_write_spec cfg value bytemask excp s). Qed.
Print Assumptions C12_cpsr_write.

(* consequences, for every value / mask / flag / context *)
Theorem C12_user_cannot_mask x cpsr value bytemask excp : 0 <= cpsr -> psr_M cpsr = M_usr ->
  bits (CPSRWriteByInstr x cpsr value bytemask excp) 8 6 = bits cpsr 8 6 /\
  psr_M (CPSRWriteByInstr x cpsr value bytemask excp) = psr_M cpsr.
Proof. exact (user_cannot_mask x cpsr value bytemask excp). Qed.
Print Assumptions C12_user_cannot_mask.
Theorem C12_exec_bits_only_on_return x cpsr value bytemask excp : 0 <= cpsr -> excp = 0 ->
  bits (CPSRWriteByInstr x cpsr value bytemask excp) 26 24 = bits cpsr 26 24 /\
  bits (CPSRWriteByInstr x cpsr value bytemask excp) 15 10 = bits cpsr 15 10 /\
  bits (CPSRWriteByInstr x cpsr value bytemask excp) 5 5 = bits cpsr 5 5.
Proof. exact (exec_bits_only_on_return x cpsr value bytemask excp). Qed.
Print Assumptions C12_exec_bits_only_on_return.
Theorem C12_never_bad_mode x cpsr value bytemask excp : 0 <= cpsr ->
  BadMode (c_have_sec x) (c_have_virt x) (psr_M cpsr) = false ->
  BadMode (c_have_sec x) (c_have_virt x) (psr_M (CPSRWriteByInstr x cpsr value bytemask excp)) = false.
Proof. exact (never_bad_mode x cpsr value bytemask excp). Qed.
Print Assumptions C12_never_bad_mode.
Theorem C12_no_monitor_from_nonsecure x cpsr value bytemask excp : 0 <= cpsr ->
  IsSecure x cpsr = false -> psr_M cpsr <> M_mon -> psr_M (CPSRWriteByInstr x cpsr value bytemask excp) <> M_mon.
Proof. exact (no_monitor_from_nonsecure x cpsr value bytemask excp). Qed.
Print Assumptions C12_no_monitor_from_nonsecure.
Theorem C12_nmfi x cpsr value bytemask excp : 0 <= cpsr -> sctlr_NMFI x = 1 -> bit value 6 = 1 ->
  bits (CPSRWriteByInstr x cpsr value bytemask excp) 6 6 = bits cpsr 6 6.
Proof. exact (nmfi_keeps_F x cpsr value bytemask excp). Qed.
Print Assumptions C12_nmfi.
Theorem C12_aw x cpsr value bytemask excp : 0 <= cpsr -> IsSecure x cpsr = false -> scr_AW x = 0 -> c_have_virt x = 0 ->
  bits (CPSRWriteByInstr x cpsr value bytemask excp) 8 8 = bits cpsr 8 8.
Proof. exact (aw_gates_A x cpsr value bytemask excp). Qed.
Print Assumptions C12_aw.
Theorem C12_fw x cpsr value bytemask excp : 0 <= cpsr -> IsSecure x cpsr = false -> scr_FW x = 0 -> c_have_virt x = 0 ->
  bits (CPSRWriteByInstr x cpsr value bytemask excp) 6 6 = bits cpsr 6 6.
Proof. exact (fw_gates_F x cpsr value bytemask excp). Qed.
Print Assumptions C12_fw.
Theorem C12_reserved x cpsr value bytemask excp : 0 <= cpsr ->
  bits (CPSRWriteByInstr x cpsr value bytemask excp) 23 20 = bits cpsr 23 20.
Proof. exact (reserved_unchanged x cpsr value bytemask excp). Qed.
Print Assumptions C12_reserved.

(* coprocessor gating (no Virtualization Extensions): an access the access-control registers deny (NSACR for Non-secure
   state, CPACR by privilege) is UNDEFINED and changes nothing; a permitted one reaches the coprocessor itself, which the
   emulator does not implement (documented not-implemented outcome) *)
Theorem C12_coproc_gate cfg cp instr s :
  cfg_have_virt_ext cfg = 0 -> 0 <= cp < 14 -> cp <> 10 -> cp <> 11 ->
  ArmV6_coproc_accepted cfg cp instr s =
  if coproc_denied (truthy (cfg_have_security_ext cfg)) (IsSecure (sysctx_of cfg s) (cpsr_of s)) (mode_of s =? 16)
                   (getl (sys s) 10) (getl (sys s) 43) cp
  then Exc EUndefined s else Exc ENotImpl s.
Proof. exact (coproc_accepted_spec cfg cp instr s). Qed.
Print Assumptions C12_coproc_gate.
