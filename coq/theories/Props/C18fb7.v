(* Props/C18fb7.v — C18: operand extraction is total (shard 7 of 8).  For EVERY integer w and every machine state,
   from_bitarray of the encoding class returns an operand record or None (UNPREDICTABLE), or raises the Undefined
   Instruction exception — never a host error — and leaves the state untouched.  One theorem per concrete class. *)
From Coq Require Import ZArith List Bool Lia ZifyBool.
From ArmV Require Import Lib.PyZ Lib.Monad Lib.Machine Spec.Pseudocode Spec.Arch Spec.MachineView Spec.OperandSpec.
From Gen Require Import enums bits_ops shift regviews records hubm opsyn core exec conc.
Import ListNotations.
Open Scope Z_scope.
From ArmV Require Proofs.FbTotal7.

Theorem C18_fb_AddImmediateThumbT1 w s : fb_safe (fb_out (AddImmediateThumbT1_from_bitarray w) s) s.
Proof. exact (FbTotal7.safe_AddImmediateThumbT1 w s). Qed.
Print Assumptions C18_fb_AddImmediateThumbT1.

Theorem C18_fb_AddRegisterThumbT3 w s : fb_safe (fb_out (AddRegisterThumbT3_from_bitarray w) s) s.
Proof. exact (FbTotal7.safe_AddRegisterThumbT3 w s). Qed.
Print Assumptions C18_fb_AddRegisterThumbT3.

Theorem C18_fb_AddSpPlusRegisterThumbT2 w s : fb_safe (fb_out (AddSpPlusRegisterThumbT2_from_bitarray w) s) s.
Proof. exact (FbTotal7.safe_AddSpPlusRegisterThumbT2 w s). Qed.
Print Assumptions C18_fb_AddSpPlusRegisterThumbT2.

Theorem C18_fb_AndImmediateT1 w s : fb_safe (fb_out (AndImmediateT1_from_bitarray w) s) s.
Proof. exact (FbTotal7.safe_AndImmediateT1 w s). Qed.
Print Assumptions C18_fb_AndImmediateT1.

Theorem C18_fb_AsrRegisterA1 w s : fb_safe (fb_out (AsrRegisterA1_from_bitarray w) s) s.
Proof. exact (FbTotal7.safe_AsrRegisterA1 w s). Qed.
Print Assumptions C18_fb_AsrRegisterA1.

Theorem C18_fb_BfcA1 w s : fb_safe (fb_out (BfcA1_from_bitarray w) s) s.
Proof. exact (FbTotal7.safe_BfcA1 w s). Qed.
Print Assumptions C18_fb_BfcA1.

Theorem C18_fb_BicRegisterT1 w s : fb_safe (fb_out (BicRegisterT1_from_bitarray w) s) s.
Proof. exact (FbTotal7.safe_BicRegisterT1 w s). Qed.
Print Assumptions C18_fb_BicRegisterT1.

Theorem C18_fb_BlxRegisterA1 w s : fb_safe (fb_out (BlxRegisterA1_from_bitarray w) s) s.
Proof. exact (FbTotal7.safe_BlxRegisterA1 w s). Qed.
Print Assumptions C18_fb_BlxRegisterA1.

Theorem C18_fb_CdpCdp2A2 w s : fb_safe (fb_out (CdpCdp2A2_from_bitarray w) s) s.
Proof. exact (FbTotal7.safe_CdpCdp2A2 w s). Qed.
Print Assumptions C18_fb_CdpCdp2A2.

Theorem C18_fb_CmnImmediateT1 w s : fb_safe (fb_out (CmnImmediateT1_from_bitarray w) s) s.
Proof. exact (FbTotal7.safe_CmnImmediateT1 w s). Qed.
Print Assumptions C18_fb_CmnImmediateT1.

Theorem C18_fb_CmpRegisterA1 w s : fb_safe (fb_out (CmpRegisterA1_from_bitarray w) s) s.
Proof. exact (FbTotal7.safe_CmpRegisterA1 w s). Qed.
Print Assumptions C18_fb_CmpRegisterA1.

Theorem C18_fb_DsbA1 w s : fb_safe (fb_out (DsbA1_from_bitarray w) s) s.
Proof. exact (FbTotal7.safe_DsbA1 w s). Qed.
Print Assumptions C18_fb_DsbA1.

Theorem C18_fb_EorRegisterT2 w s : fb_safe (fb_out (EorRegisterT2_from_bitarray w) s) s.
Proof. exact (FbTotal7.safe_EorRegisterT2 w s). Qed.
Print Assumptions C18_fb_EorRegisterT2.

Theorem C18_fb_LdcLdc2ImmediateT2 w s : fb_safe (fb_out (LdcLdc2ImmediateT2_from_bitarray w) s) s.
Proof. exact (FbTotal7.safe_LdcLdc2ImmediateT2 w s). Qed.
Print Assumptions C18_fb_LdcLdc2ImmediateT2.

Theorem C18_fb_LdmThumbT2 w s : fb_safe (fb_out (LdmThumbT2_from_bitarray w) s) s.
Proof. exact (FbTotal7.safe_LdmThumbT2 w s). Qed.
Print Assumptions C18_fb_LdmThumbT2.

Theorem C18_fb_LdrImmediateThumbT2 w s : fb_safe (fb_out (LdrImmediateThumbT2_from_bitarray w) s) s.
Proof. exact (FbTotal7.safe_LdrImmediateThumbT2 w s). Qed.
Print Assumptions C18_fb_LdrImmediateThumbT2.

Theorem C18_fb_LdrRegisterThumbT2 w s : fb_safe (fb_out (LdrRegisterThumbT2_from_bitarray w) s) s.
Proof. exact (FbTotal7.safe_LdrRegisterThumbT2 w s). Qed.
Print Assumptions C18_fb_LdrRegisterThumbT2.

Theorem C18_fb_LdrbRegisterT1 w s : fb_safe (fb_out (LdrbRegisterT1_from_bitarray w) s) s.
Proof. exact (FbTotal7.safe_LdrbRegisterT1 w s). Qed.
Print Assumptions C18_fb_LdrbRegisterT1.

Theorem C18_fb_LdrdLiteralT1 w s : fb_safe (fb_out (LdrdLiteralT1_from_bitarray w) s) s.
Proof. exact (FbTotal7.safe_LdrdLiteralT1 w s). Qed.
Print Assumptions C18_fb_LdrdLiteralT1.

Theorem C18_fb_LdrexhA1 w s : fb_safe (fb_out (LdrexhA1_from_bitarray w) s) s.
Proof. exact (FbTotal7.safe_LdrexhA1 w s). Qed.
Print Assumptions C18_fb_LdrexhA1.

Theorem C18_fb_LdrhRegisterA1 (cfg : config) w s : fb_safe (fb_out (LdrhRegisterA1_from_bitarray cfg w) s) s.
Proof. exact (FbTotal7.safe_LdrhRegisterA1 cfg w s). Qed.
Print Assumptions C18_fb_LdrhRegisterA1.

Theorem C18_fb_LdrsbImmediateT2 w s : fb_safe (fb_out (LdrsbImmediateT2_from_bitarray w) s) s.
Proof. exact (FbTotal7.safe_LdrsbImmediateT2 w s). Qed.
Print Assumptions C18_fb_LdrsbImmediateT2.

Theorem C18_fb_LdrsbtT1 w s : fb_safe (fb_out (LdrsbtT1_from_bitarray w) s) s.
Proof. exact (FbTotal7.safe_LdrsbtT1 w s). Qed.
Print Assumptions C18_fb_LdrsbtT1.

Theorem C18_fb_LdrshRegisterT2 w s : fb_safe (fb_out (LdrshRegisterT2_from_bitarray w) s) s.
Proof. exact (FbTotal7.safe_LdrshRegisterT2 w s). Qed.
Print Assumptions C18_fb_LdrshRegisterT2.

Theorem C18_fb_LslImmediateT1 w s : fb_safe (fb_out (LslImmediateT1_from_bitarray w) s) s.
Proof. exact (FbTotal7.safe_LslImmediateT1 w s). Qed.
Print Assumptions C18_fb_LslImmediateT1.

Theorem C18_fb_LsrRegisterA1 w s : fb_safe (fb_out (LsrRegisterA1_from_bitarray w) s) s.
Proof. exact (FbTotal7.safe_LsrRegisterA1 w s). Qed.
Print Assumptions C18_fb_LsrRegisterA1.

Theorem C18_fb_McrrMcrr2A2 w s : fb_safe (fb_out (McrrMcrr2A2_from_bitarray w) s) s.
Proof. exact (FbTotal7.safe_McrrMcrr2A2 w s). Qed.
Print Assumptions C18_fb_McrrMcrr2A2.

Theorem C18_fb_MovImmediateA2 w s : fb_safe (fb_out (MovImmediateA2_from_bitarray w) s) s.
Proof. exact (FbTotal7.safe_MovImmediateA2 w s). Qed.
Print Assumptions C18_fb_MovImmediateA2.

Theorem C18_fb_MovtA1 w s : fb_safe (fb_out (MovtA1_from_bitarray w) s) s.
Proof. exact (FbTotal7.safe_MovtA1 w s). Qed.
Print Assumptions C18_fb_MovtA1.

Theorem C18_fb_MrrcMrrc2T1 w s : fb_safe (fb_out (MrrcMrrc2T1_from_bitarray w) s) s.
Proof. exact (FbTotal7.safe_MrrcMrrc2T1 w s). Qed.
Print Assumptions C18_fb_MrrcMrrc2T1.

Theorem C18_fb_MsrRegisterApplicationA1 w s : fb_safe (fb_out (MsrRegisterApplicationA1_from_bitarray w) s) s.
Proof. exact (FbTotal7.safe_MsrRegisterApplicationA1 w s). Qed.
Print Assumptions C18_fb_MsrRegisterApplicationA1.

Theorem C18_fb_MvnImmediateT1 w s : fb_safe (fb_out (MvnImmediateT1_from_bitarray w) s) s.
Proof. exact (FbTotal7.safe_MvnImmediateT1 w s). Qed.
Print Assumptions C18_fb_MvnImmediateT1.

Theorem C18_fb_OrnImmediateT1 w s : fb_safe (fb_out (OrnImmediateT1_from_bitarray w) s) s.
Proof. exact (FbTotal7.safe_OrnImmediateT1 w s). Qed.
Print Assumptions C18_fb_OrnImmediateT1.

Theorem C18_fb_PkhA1 w s : fb_safe (fb_out (PkhA1_from_bitarray w) s) s.
Proof. exact (FbTotal7.safe_PkhA1 w s). Qed.
Print Assumptions C18_fb_PkhA1.

Theorem C18_fb_PldRegisterT1 w s : fb_safe (fb_out (PldRegisterT1_from_bitarray w) s) s.
Proof. exact (FbTotal7.safe_PldRegisterT1 w s). Qed.
Print Assumptions C18_fb_PldRegisterT1.

Theorem C18_fb_PushT1 w s : fb_safe (fb_out (PushT1_from_bitarray w) s) s.
Proof. exact (FbTotal7.safe_PushT1 w s). Qed.
Print Assumptions C18_fb_PushT1.

Theorem C18_fb_QaddT1 w s : fb_safe (fb_out (QaddT1_from_bitarray w) s) s.
Proof. exact (FbTotal7.safe_QaddT1 w s). Qed.
Print Assumptions C18_fb_QaddT1.

Theorem C18_fb_QsaxT1 w s : fb_safe (fb_out (QsaxT1_from_bitarray w) s) s.
Proof. exact (FbTotal7.safe_QsaxT1 w s). Qed.
Print Assumptions C18_fb_QsaxT1.

Theorem C18_fb_RbitT1 w s : fb_safe (fb_out (RbitT1_from_bitarray w) s) s.
Proof. exact (FbTotal7.safe_RbitT1 w s). Qed.
Print Assumptions C18_fb_RbitT1.

Theorem C18_fb_RevshT1 w s : fb_safe (fb_out (RevshT1_from_bitarray w) s) s.
Proof. exact (FbTotal7.safe_RevshT1 w s). Qed.
Print Assumptions C18_fb_RevshT1.

Theorem C18_fb_RorRegisterT1 w s : fb_safe (fb_out (RorRegisterT1_from_bitarray w) s) s.
Proof. exact (FbTotal7.safe_RorRegisterT1 w s). Qed.
Print Assumptions C18_fb_RorRegisterT1.

Theorem C18_fb_RsbRegisterShiftedRegisterA1 w s : fb_safe (fb_out (RsbRegisterShiftedRegisterA1_from_bitarray w) s) s.
Proof. exact (FbTotal7.safe_RsbRegisterShiftedRegisterA1 w s). Qed.
Print Assumptions C18_fb_RsbRegisterShiftedRegisterA1.

Theorem C18_fb_Sadd8T1 w s : fb_safe (fb_out (Sadd8T1_from_bitarray w) s) s.
Proof. exact (FbTotal7.safe_Sadd8T1 w s). Qed.
Print Assumptions C18_fb_Sadd8T1.

Theorem C18_fb_SbcRegisterT2 w s : fb_safe (fb_out (SbcRegisterT2_from_bitarray w) s) s.
Proof. exact (FbTotal7.safe_SbcRegisterT2 w s). Qed.
Print Assumptions C18_fb_SbcRegisterT2.

Theorem C18_fb_SetendT1 w s : fb_safe (fb_out (SetendT1_from_bitarray w) s) s.
Proof. exact (FbTotal7.safe_SetendT1 w s). Qed.
Print Assumptions C18_fb_SetendT1.

Theorem C18_fb_ShasxA1 w s : fb_safe (fb_out (ShasxA1_from_bitarray w) s) s.
Proof. exact (FbTotal7.safe_ShasxA1 w s). Qed.
Print Assumptions C18_fb_ShasxA1.

Theorem C18_fb_SmcA1 w s : fb_safe (fb_out (SmcA1_from_bitarray w) s) s.
Proof. exact (FbTotal7.safe_SmcA1 w s). Qed.
Print Assumptions C18_fb_SmcA1.

Theorem C18_fb_SmlaldA1 w s : fb_safe (fb_out (SmlaldA1_from_bitarray w) s) s.
Proof. exact (FbTotal7.safe_SmlaldA1 w s). Qed.
Print Assumptions C18_fb_SmlaldA1.

Theorem C18_fb_SmlsldA1 w s : fb_safe (fb_out (SmlsldA1_from_bitarray w) s) s.
Proof. exact (FbTotal7.safe_SmlsldA1 w s). Qed.
Print Assumptions C18_fb_SmlsldA1.

Theorem C18_fb_SmuadA1 w s : fb_safe (fb_out (SmuadA1_from_bitarray w) s) s.
Proof. exact (FbTotal7.safe_SmuadA1 w s). Qed.
Print Assumptions C18_fb_SmuadA1.

Theorem C18_fb_SmusdA1 w s : fb_safe (fb_out (SmusdA1_from_bitarray w) s) s.
Proof. exact (FbTotal7.safe_SmusdA1 w s). Qed.
Print Assumptions C18_fb_SmusdA1.

Theorem C18_fb_SsatT1 w s : fb_safe (fb_out (SsatT1_from_bitarray w) s) s.
Proof. exact (FbTotal7.safe_SsatT1 w s). Qed.
Print Assumptions C18_fb_SsatT1.

Theorem C18_fb_StcStc2A2 w s : fb_safe (fb_out (StcStc2A2_from_bitarray w) s) s.
Proof. exact (FbTotal7.safe_StcStc2A2 w s). Qed.
Print Assumptions C18_fb_StcStc2A2.

Theorem C18_fb_StmdbA1 w s : fb_safe (fb_out (StmdbA1_from_bitarray w) s) s.
Proof. exact (FbTotal7.safe_StmdbA1 w s). Qed.
Print Assumptions C18_fb_StmdbA1.

Theorem C18_fb_StrRegisterA1 (cfg : config) w s : fb_safe (fb_out (StrRegisterA1_from_bitarray cfg w) s) s.
Proof. exact (FbTotal7.safe_StrRegisterA1 cfg w s). Qed.
Print Assumptions C18_fb_StrRegisterA1.

Theorem C18_fb_StrbRegisterT1 w s : fb_safe (fb_out (StrbRegisterT1_from_bitarray w) s) s.
Proof. exact (FbTotal7.safe_StrbRegisterT1 w s). Qed.
Print Assumptions C18_fb_StrbRegisterT1.

Theorem C18_fb_StrexA1 w s : fb_safe (fb_out (StrexA1_from_bitarray w) s) s.
Proof. exact (FbTotal7.safe_StrexA1 w s). Qed.
Print Assumptions C18_fb_StrexA1.

Theorem C18_fb_StrhImmediateArmA1 w s : fb_safe (fb_out (StrhImmediateArmA1_from_bitarray w) s) s.
Proof. exact (FbTotal7.safe_StrhImmediateArmA1 w s). Qed.
Print Assumptions C18_fb_StrhImmediateArmA1.

Theorem C18_fb_StrhtA2 w s : fb_safe (fb_out (StrhtA2_from_bitarray w) s) s.
Proof. exact (FbTotal7.safe_StrhtA2 w s). Qed.
Print Assumptions C18_fb_StrhtA2.

Theorem C18_fb_SubImmediateThumbT3 w s : fb_safe (fb_out (SubImmediateThumbT3_from_bitarray w) s) s.
Proof. exact (FbTotal7.safe_SubImmediateThumbT3 w s). Qed.
Print Assumptions C18_fb_SubImmediateThumbT3.

Theorem C18_fb_SubSpMinusImmediateT2 w s : fb_safe (fb_out (SubSpMinusImmediateT2_from_bitarray w) s) s.
Proof. exact (FbTotal7.safe_SubSpMinusImmediateT2 w s). Qed.
Print Assumptions C18_fb_SubSpMinusImmediateT2.

Theorem C18_fb_SvcT1 w s : fb_safe (fb_out (SvcT1_from_bitarray w) s) s.
Proof. exact (FbTotal7.safe_SvcT1 w s). Qed.
Print Assumptions C18_fb_SvcT1.

Theorem C18_fb_Sxtb16T1 w s : fb_safe (fb_out (Sxtb16T1_from_bitarray w) s) s.
Proof. exact (FbTotal7.safe_Sxtb16T1 w s). Qed.
Print Assumptions C18_fb_Sxtb16T1.

Theorem C18_fb_TeqImmediateA1 w s : fb_safe (fb_out (TeqImmediateA1_from_bitarray w) s) s.
Proof. exact (FbTotal7.safe_TeqImmediateA1 w s). Qed.
Print Assumptions C18_fb_TeqImmediateA1.

Theorem C18_fb_TstRegisterShiftedRegisterA1 w s : fb_safe (fb_out (TstRegisterShiftedRegisterA1_from_bitarray w) s) s.
Proof. exact (FbTotal7.safe_TstRegisterShiftedRegisterA1 w s). Qed.
Print Assumptions C18_fb_TstRegisterShiftedRegisterA1.

Theorem C18_fb_UasxT1 w s : fb_safe (fb_out (UasxT1_from_bitarray w) s) s.
Proof. exact (FbTotal7.safe_UasxT1 w s). Qed.
Print Assumptions C18_fb_UasxT1.

Theorem C18_fb_Uhadd16A1 w s : fb_safe (fb_out (Uhadd16A1_from_bitarray w) s) s.
Proof. exact (FbTotal7.safe_Uhadd16A1 w s). Qed.
Print Assumptions C18_fb_Uhadd16A1.

Theorem C18_fb_Uhsub16A1 w s : fb_safe (fb_out (Uhsub16A1_from_bitarray w) s) s.
Proof. exact (FbTotal7.safe_Uhsub16A1 w s). Qed.
Print Assumptions C18_fb_Uhsub16A1.

Theorem C18_fb_UmullA1 (cfg : config) w s : fb_safe (fb_out (UmullA1_from_bitarray cfg w) s) s.
Proof. exact (FbTotal7.safe_UmullA1 cfg w s). Qed.
Print Assumptions C18_fb_UmullA1.

Theorem C18_fb_UqsaxA1 w s : fb_safe (fb_out (UqsaxA1_from_bitarray w) s) s.
Proof. exact (FbTotal7.safe_UqsaxA1 w s). Qed.
Print Assumptions C18_fb_UqsaxA1.

Theorem C18_fb_Usada8A1 w s : fb_safe (fb_out (Usada8A1_from_bitarray w) s) s.
Proof. exact (FbTotal7.safe_Usada8A1 w s). Qed.
Print Assumptions C18_fb_Usada8A1.

Theorem C18_fb_Usub16A1 w s : fb_safe (fb_out (Usub16A1_from_bitarray w) s) s.
Proof. exact (FbTotal7.safe_Usub16A1 w s). Qed.
Print Assumptions C18_fb_Usub16A1.

Theorem C18_fb_UxtahA1 w s : fb_safe (fb_out (UxtahA1_from_bitarray w) s) s.
Proof. exact (FbTotal7.safe_UxtahA1 w s). Qed.
Print Assumptions C18_fb_UxtahA1.

Theorem C18_fb_UxthT1 w s : fb_safe (fb_out (UxthT1_from_bitarray w) s) s.
Proof. exact (FbTotal7.safe_UxthT1 w s). Qed.
Print Assumptions C18_fb_UxthT1.

Theorem C18_fb_YieldA1 w s : fb_safe (fb_out (YieldA1_from_bitarray w) s) s.
Proof. exact (FbTotal7.safe_YieldA1 w s). Qed.
Print Assumptions C18_fb_YieldA1.
