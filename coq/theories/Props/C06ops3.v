(* Props/C06ops3.v — C06: operand extraction of the ARM encodings (shard 3 of 8).
   For every word of the stated domain, from_bitarray returns the class with the fields the encoding diagram
   names, and leaves the state alone.  Statements rendered from harness/optable.py by harness/mkopthm.py. *)
From Coq Require Import ZArith List Bool Lia ZifyBool.
From ArmV Require Import Lib.PyZ Lib.Monad Lib.Machine Spec.Pseudocode Spec.Arch Spec.MachineView Spec.OperandSpec.
From Gen Require Import enums bits_ops shift regviews records hubm opsyn core exec conc.
Import ListNotations.
Open Scope Z_scope.
From ArmV Require Proofs.OpsA3.

Theorem C06_ops_AddImmediateArmA1 w s :
  0 <= w < 2 ^ 32 ->
  regs13 [bits w 19 16; bits w 15 12] = true ->
  fb_out (AddImmediateArmA1_from_bitarray w) s = Ok (Some (code_AddImmediateArm, [w; bit w 20; bits w 15 12; bits w 19 16; ARMExpandImm (bits w 11 0)])) s.
Proof. exact (OpsA3.ops_AddImmediateArmA1 w s). Qed.
Print Assumptions C06_ops_AddImmediateArmA1.

Theorem C06_ops_AndRegisterA1 w s :
  0 <= w < 2 ^ 32 ->
  regs13 [bits w 19 16; bits w 15 12; bits w 3 0] = true ->
  fb_out (AndRegisterA1_from_bitarray w) s = Ok (Some (code_AndRegister, [w; bit w 20; bits w 3 0; bits w 15 12; bits w 19 16; fst (DecodeImmShift (bits w 6 5) (bits w 11 7)); snd (DecodeImmShift (bits w 6 5) (bits w 11 7))])) s.
Proof. exact (OpsA3.ops_AndRegisterA1 w s). Qed.
Print Assumptions C06_ops_AndRegisterA1.

Theorem C06_ops_BicRegisterShiftedRegisterA1 w s :
  0 <= w < 2 ^ 32 ->
  regs13 [bits w 19 16; bits w 15 12; bits w 11 8; bits w 3 0] = true ->
  fb_out (BicRegisterShiftedRegisterA1_from_bitarray w) s = Ok (Some (code_BicRegisterShiftedRegister, [w; bit w 20; bits w 3 0; bits w 11 8; bits w 15 12; bits w 19 16; DecodeRegShift (bits w 6 5)])) s.
Proof. exact (OpsA3.ops_BicRegisterShiftedRegisterA1 w s). Qed.
Print Assumptions C06_ops_BicRegisterShiftedRegisterA1.

Theorem C06_ops_ClzA1 w s :
  0 <= w < 2 ^ 32 ->
  regs13 [bits w 15 12; bits w 3 0] = true ->
  fb_out (ClzA1_from_bitarray w) s = Ok (Some (code_Clz, [w; bits w 3 0; bits w 15 12])) s.
Proof. exact (OpsA3.ops_ClzA1 w s). Qed.
Print Assumptions C06_ops_ClzA1.

Theorem C06_ops_DsbA1 w s :
  0 <= w < 2 ^ 32 ->
  fb_out (DsbA1_from_bitarray w) s = Ok (Some (code_Dsb, [w; bits w 3 0])) s.
Proof. exact (OpsA3.ops_DsbA1 w s). Qed.
Print Assumptions C06_ops_DsbA1.

Theorem C06_ops_LdcLdc2LiteralA2 w s :
  0 <= w < 2 ^ 32 ->
  pre_ldc_lit w = true ->
  fb_out (LdcLdc2LiteralA2_from_bitarray w) s = Ok (Some (code_LdcLdc2Literal, [w; bits w 11 8; bit w 23; bits w 7 0 * 4; bit w 24])) s.
Proof. exact (OpsA3.ops_LdcLdc2LiteralA2 w s). Qed.
Print Assumptions C06_ops_LdcLdc2LiteralA2.

Theorem C06_ops_LdrLiteralA1 w s :
  0 <= w < 2 ^ 32 ->
  regs13 [bits w 15 12] = true ->
  pre_lit w = true ->
  fb_out (LdrLiteralA1_from_bitarray w) s = Ok (Some (code_LdrLiteral, [w; bit w 23; bits w 11 0; bits w 15 12])) s.
Proof. exact (OpsA3.ops_LdrLiteralA1 w s). Qed.
Print Assumptions C06_ops_LdrLiteralA1.

Theorem C06_ops_LdrdLiteralA1 w s :
  0 <= w < 2 ^ 32 ->
  pre_dual_lit_a w = true ->
  fb_out (LdrdLiteralA1_from_bitarray w) s = Ok (Some (code_LdrdLiteral, [w; bit w 23; bits w 11 8 * 16 + bits w 3 0; bits w 15 12; bits w 15 12 + 1])) s.
Proof. exact (OpsA3.ops_LdrdLiteralA1 w s). Qed.
Print Assumptions C06_ops_LdrdLiteralA1.

Theorem C06_ops_LdrhRegisterA1 (cfg : config) w s :
  0 <= w < 2 ^ 32 ->
  regs13 [bits w 19 16; bits w 15 12; bits w 3 0] = true ->
  fb_out (LdrhRegisterA1_from_bitarray cfg w) s = Ok (Some (code_LdrhRegister, [w; bit w 23; if (bit w 24 =? 0) || (bit w 21 =? 1) then 1 else 0; bit w 24; bits w 3 0; bits w 15 12; bits w 19 16; 1; 0])) s.
Proof. exact (OpsA3.ops_LdrhRegisterA1 cfg w s). Qed.
Print Assumptions C06_ops_LdrhRegisterA1.

Theorem C06_ops_LdrshImmediateA1 w s :
  0 <= w < 2 ^ 32 ->
  regs13 [bits w 19 16; bits w 15 12] = true ->
  fb_out (LdrshImmediateA1_from_bitarray w) s = Ok (Some (code_LdrshImmediate, [w; bit w 23; if (bit w 24 =? 0) || (bit w 21 =? 1) then 1 else 0; bit w 24; bits w 11 8 * 16 + bits w 3 0; bits w 15 12; bits w 19 16])) s.
Proof. exact (OpsA3.ops_LdrshImmediateA1 w s). Qed.
Print Assumptions C06_ops_LdrshImmediateA1.

Theorem C06_ops_LslRegisterA1 w s :
  0 <= w < 2 ^ 32 ->
  regs13 [bits w 15 12; bits w 11 8; bits w 3 0] = true ->
  fb_out (LslRegisterA1_from_bitarray w) s = Ok (Some (code_LslRegister, [w; bit w 20; bits w 11 8; bits w 15 12; bits w 3 0])) s.
Proof. exact (OpsA3.ops_LslRegisterA1 w s). Qed.
Print Assumptions C06_ops_LslRegisterA1.

Theorem C06_ops_MlsA1 w s :
  0 <= w < 2 ^ 32 ->
  regs13 [bits w 19 16; bits w 15 12; bits w 11 8; bits w 3 0] = true ->
  fb_out (MlsA1_from_bitarray w) s = Ok (Some (code_Mls, [w; bits w 11 8; bits w 15 12; bits w 19 16; bits w 3 0])) s.
Proof. exact (OpsA3.ops_MlsA1 w s). Qed.
Print Assumptions C06_ops_MlsA1.

Theorem C06_ops_MrrcMrrc2A2 w s :
  0 <= w < 2 ^ 32 ->
  regs13 [bits w 19 16; bits w 15 12] = true ->
  pre_cp_ok w = true ->
  fb_out (MrrcMrrc2A2_from_bitarray w) s = Ok (Some (code_MrrcMrrc2, [w; bits w 11 8; bits w 15 12; bits w 19 16])) s.
Proof. exact (OpsA3.ops_MrrcMrrc2A2 w s). Qed.
Print Assumptions C06_ops_MrrcMrrc2A2.

Theorem C06_ops_MvnImmediateA1 w s :
  0 <= w < 2 ^ 32 ->
  regs13 [bits w 15 12] = true ->
  fb_out (MvnImmediateA1_from_bitarray w) s = Ok (Some (code_MvnImmediate, [w; bit w 20; bits w 15 12; ARMExpandImm (bits w 11 0); snd (ARMExpandImm_C (bits w 11 0) (cflag s))])) s.
Proof. exact (OpsA3.ops_MvnImmediateA1 w s). Qed.
Print Assumptions C06_ops_MvnImmediateA1.

Theorem C06_ops_PldImmediateA1 w s :
  0 <= w < 2 ^ 32 ->
  regs13 [bits w 19 16] = true ->
  fb_out (PldImmediateA1_from_bitarray w) s = Ok (Some (code_PldImmediate, [w; bit w 23; 1 - bit w 22; bits w 19 16; bits w 11 0])) s.
Proof. exact (OpsA3.ops_PldImmediateA1 w s). Qed.
Print Assumptions C06_ops_PldImmediateA1.

Theorem C06_ops_Qadd8A1 w s :
  0 <= w < 2 ^ 32 ->
  regs13 [bits w 19 16; bits w 15 12; bits w 3 0] = true ->
  fb_out (Qadd8A1_from_bitarray w) s = Ok (Some (code_Qadd8, [w; bits w 3 0; bits w 15 12; bits w 19 16])) s.
Proof. exact (OpsA3.ops_Qadd8A1 w s). Qed.
Print Assumptions C06_ops_Qadd8A1.

Theorem C06_ops_QsubA1 w s :
  0 <= w < 2 ^ 32 ->
  regs13 [bits w 19 16; bits w 15 12; bits w 3 0] = true ->
  fb_out (QsubA1_from_bitarray w) s = Ok (Some (code_Qsub, [w; bits w 3 0; bits w 15 12; bits w 19 16])) s.
Proof. exact (OpsA3.ops_QsubA1 w s). Qed.
Print Assumptions C06_ops_QsubA1.

Theorem C06_ops_RrxA1 w s :
  0 <= w < 2 ^ 32 ->
  regs13 [bits w 15 12; bits w 3 0] = true ->
  fb_out (RrxA1_from_bitarray w) s = Ok (Some (code_Rrx, [w; bit w 20; bits w 3 0; bits w 15 12])) s.
Proof. exact (OpsA3.ops_RrxA1 w s). Qed.
Print Assumptions C06_ops_RrxA1.

Theorem C06_ops_Sadd8A1 w s :
  0 <= w < 2 ^ 32 ->
  regs13 [bits w 19 16; bits w 15 12; bits w 3 0] = true ->
  fb_out (Sadd8A1_from_bitarray w) s = Ok (Some (code_Sadd8, [w; bits w 3 0; bits w 15 12; bits w 19 16])) s.
Proof. exact (OpsA3.ops_Sadd8A1 w s). Qed.
Print Assumptions C06_ops_Sadd8A1.

Theorem C06_ops_SetendA1 w s :
  0 <= w < 2 ^ 32 ->
  fb_out (SetendA1_from_bitarray w) s = Ok (Some (code_Setend, [w; bit w 9])) s.
Proof. exact (OpsA3.ops_SetendA1 w s). Qed.
Print Assumptions C06_ops_SetendA1.

Theorem C06_ops_SmcA1 w s :
  0 <= w < 2 ^ 32 ->
  in_it s = false ->
  fb_out (SmcA1_from_bitarray w) s = Ok (Some (code_Smc, [w])) s.
Proof. exact (OpsA3.ops_SmcA1 w s). Qed.
Print Assumptions C06_ops_SmcA1.

Theorem C06_ops_SmlsldA1 w s :
  0 <= w < 2 ^ 32 ->
  regs13 [bits w 19 16; bits w 15 12; bits w 11 8; bits w 3 0] = true ->
  fb_out (SmlsldA1_from_bitarray w) s = Ok (Some (code_Smlsld, [w; bit w 5; bits w 11 8; bits w 19 16; bits w 15 12; bits w 3 0])) s.
Proof. exact (OpsA3.ops_SmlsldA1 w s). Qed.
Print Assumptions C06_ops_SmlsldA1.

Theorem C06_ops_SmusdA1 w s :
  0 <= w < 2 ^ 32 ->
  regs13 [bits w 19 16; bits w 11 8; bits w 3 0] = true ->
  fb_out (SmusdA1_from_bitarray w) s = Ok (Some (code_Smusd, [w; bit w 5; bits w 11 8; bits w 19 16; bits w 3 0])) s.
Proof. exact (OpsA3.ops_SmusdA1 w s). Qed.
Print Assumptions C06_ops_SmusdA1.

Theorem C06_ops_StcStc2A2 w s :
  0 <= w < 2 ^ 32 ->
  regs13 [bits w 19 16] = true ->
  pre_ldc w = true ->
  fb_out (StcStc2A2_from_bitarray w) s = Ok (Some (code_StcStc2, [w; bits w 11 8; bits w 19 16; bit w 23; bits w 7 0 * 4; bit w 24; bit w 21])) s.
Proof. exact (OpsA3.ops_StcStc2A2 w s). Qed.
Print Assumptions C06_ops_StcStc2A2.

Theorem C06_ops_StrbImmediateArmA1 w s :
  0 <= w < 2 ^ 32 ->
  regs13 [bits w 19 16; bits w 15 12] = true ->
  fb_out (StrbImmediateArmA1_from_bitarray w) s = Ok (Some (code_StrbImmediateArm, [w; bit w 23; if (bit w 24 =? 0) || (bit w 21 =? 1) then 1 else 0; bit w 24; bits w 15 12; bits w 19 16; bits w 11 0])) s.
Proof. exact (OpsA3.ops_StrbImmediateArmA1 w s). Qed.
Print Assumptions C06_ops_StrbImmediateArmA1.

Theorem C06_ops_StrexdA1 w s :
  0 <= w < 2 ^ 32 ->
  bit w 8 = 1 ->
  bit w 9 = 1 ->
  bit w 10 = 1 ->
  bit w 11 = 1 ->
  pre_strexd_a w = true ->
  fb_out (StrexdA1_from_bitarray w) s = Ok (Some (code_Strexd, [w; bits w 3 0; bits w 3 0 + 1; bits w 15 12; bits w 19 16])) s.
Proof. exact (OpsA3.ops_StrexdA1 w s). Qed.
Print Assumptions C06_ops_StrexdA1.

Theorem C06_ops_SubImmediateArmA1 w s :
  0 <= w < 2 ^ 32 ->
  regs13 [bits w 19 16; bits w 15 12] = true ->
  fb_out (SubImmediateArmA1_from_bitarray w) s = Ok (Some (code_SubImmediateArm, [w; bit w 20; bits w 15 12; bits w 19 16; ARMExpandImm (bits w 11 0)])) s.
Proof. exact (OpsA3.ops_SubImmediateArmA1 w s). Qed.
Print Assumptions C06_ops_SubImmediateArmA1.

Theorem C06_ops_Sxtab16A1 w s :
  0 <= w < 2 ^ 32 ->
  regs13 [bits w 19 16; bits w 15 12; bits w 3 0] = true ->
  fb_out (Sxtab16A1_from_bitarray w) s = Ok (Some (code_Sxtab16, [w; bits w 3 0; bits w 15 12; bits w 19 16; bits w 11 10 * 8])) s.
Proof. exact (OpsA3.ops_Sxtab16A1 w s). Qed.
Print Assumptions C06_ops_Sxtab16A1.

Theorem C06_ops_TeqRegisterShiftedRegisterA1 w s :
  0 <= w < 2 ^ 32 ->
  regs13 [bits w 19 16; bits w 11 8; bits w 3 0] = true ->
  fb_out (TeqRegisterShiftedRegisterA1_from_bitarray w) s = Ok (Some (code_TeqRegisterShiftedRegister, [w; bits w 3 0; bits w 11 8; bits w 19 16; DecodeRegShift (bits w 6 5)])) s.
Proof. exact (OpsA3.ops_TeqRegisterShiftedRegisterA1 w s). Qed.
Print Assumptions C06_ops_TeqRegisterShiftedRegisterA1.

Theorem C06_ops_UdfA1 w s :
  0 <= w < 2 ^ 32 ->
  in_it s = false ->
  fb_out (UdfA1_from_bitarray w) s = Ok (Some (code_Udf, [w])) s.
Proof. exact (OpsA3.ops_UdfA1 w s). Qed.
Print Assumptions C06_ops_UdfA1.

Theorem C06_ops_UmaalA1 w s :
  0 <= w < 2 ^ 32 ->
  regs13 [bits w 19 16; bits w 15 12; bits w 11 8; bits w 3 0] = true ->
  fb_out (UmaalA1_from_bitarray w) s = Ok (Some (code_Umaal, [w; bits w 11 8; bits w 19 16; bits w 15 12; bits w 3 0])) s.
Proof. exact (OpsA3.ops_UmaalA1 w s). Qed.
Print Assumptions C06_ops_UmaalA1.

Theorem C06_ops_Uqsub8A1 w s :
  0 <= w < 2 ^ 32 ->
  regs13 [bits w 19 16; bits w 15 12; bits w 3 0] = true ->
  fb_out (Uqsub8A1_from_bitarray w) s = Ok (Some (code_Uqsub8, [w; bits w 3 0; bits w 15 12; bits w 19 16])) s.
Proof. exact (OpsA3.ops_Uqsub8A1 w s). Qed.
Print Assumptions C06_ops_Uqsub8A1.

Theorem C06_ops_Uxtab16A1 w s :
  0 <= w < 2 ^ 32 ->
  regs13 [bits w 19 16; bits w 15 12; bits w 3 0] = true ->
  fb_out (Uxtab16A1_from_bitarray w) s = Ok (Some (code_Uxtab16, [w; bits w 3 0; bits w 15 12; bits w 19 16; bits w 11 10 * 8])) s.
Proof. exact (OpsA3.ops_Uxtab16A1 w s). Qed.
Print Assumptions C06_ops_Uxtab16A1.

Theorem C06_ops_YieldA1 w s :
  0 <= w < 2 ^ 32 ->
  in_it s = false ->
  fb_out (YieldA1_from_bitarray w) s = Ok (Some (code_Yield, [w])) s.
Proof. exact (OpsA3.ops_YieldA1 w s). Qed.
Print Assumptions C06_ops_YieldA1.
