(* Proofs/Isolation.v — a step is a function of the instance's own configuration and machine state, so instances do not
   influence each other: for every schedule interleaving the steps of any number of instances, each instance ends in
   the state it reaches running alone for as many steps as it was scheduled. *)
From Coq Require Import ZArith List Bool Lia Arith.
From ArmV Require Import Lib.PyZ Lib.Monad Lib.Machine.
From Gen Require Import enums core step.
Import ListNotations.

(* one emulate_cycle of one instance: the state afterwards (whether it returned or raised) *)
Definition stepf (cfg : config) (s : machine) : machine :=
  match ArmV6_emulate_cycle cfg s with Ok _ s' => s' | Exc _ s' => s' end.
Definition inst := (config * machine)%type.
Fixpoint upd_nth {A} (l : list A) (i : nat) (x : A) : list A :=
  match l, i with [], _ => [] | _ :: t, O => x :: t | h :: t, S k => h :: upd_nth t k x end.
Definition step_inst (l : list inst) (i : nat) : list inst :=
  match nth_error l i with Some (c, s) => upd_nth l i (c, stepf c s) | None => l end.
Definition run_sched (l : list inst) (sched : list nat) : list inst := fold_left step_inst sched l.
Fixpoint count (i : nat) (sched : list nat) : nat :=
  match sched with [] => 0 | j :: t => (if Nat.eqb i j then 1 else 0) + count i t end.

Lemma nth_upd_nth_same {A} (l : list A) i x : (i < length l)%nat -> nth_error (upd_nth l i x) i = Some x.
Proof. revert i. induction l as [|h t IH]; intros [|i] H; cbn in *; try lia; [reflexivity|apply IH; lia]. Qed.
Lemma nth_upd_nth_other {A} (l : list A) i j x : i <> j -> nth_error (upd_nth l i x) j = nth_error l j.
Proof. revert i j. induction l as [|h t IH]; intros [|i] [|j] H; cbn; try reflexivity; try congruence. apply IH. congruence. Qed.
Lemma iter_shift {A} (f : A -> A) n x : Nat.iter n f (f x) = f (Nat.iter n f x).
Proof. induction n as [|n IH]; [reflexivity|]. change (Nat.iter (S n) f (f x)) with (f (Nat.iter n f (f x))). rewrite IH. reflexivity. Qed.

Theorem isolation sched : forall (l : list inst) i c s, nth_error l i = Some (c, s) ->
  nth_error (run_sched l sched) i = Some (c, Nat.iter (count i sched) (stepf c) s).
Proof.
  induction sched as [|j t IH]; intros l i c s H; [exact H|].
  cbn [run_sched fold_left count]. fold (run_sched (step_inst l j) t).
  destruct (Nat.eqb i j) eqn:E.
  - apply Nat.eqb_eq in E. subst j. unfold step_inst at 1. rewrite H.
    assert (Hl : (i < length l)%nat) by (apply nth_error_Some; congruence).
    rewrite (IH _ i c (stepf c s)) by (apply nth_upd_nth_same; exact Hl).
    cbn [Nat.add Nat.iter]. rewrite iter_shift. reflexivity.
  - apply Nat.eqb_neq in E. cbn [Nat.add]. apply IH.
    unfold step_inst. destruct (nth_error l j) as [[cj sj]|]; [|exact H].
    rewrite nth_upd_nth_other by congruence. exact H.
Qed.
