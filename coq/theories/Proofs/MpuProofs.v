(* Proofs/MpuProofs.v — PMSA address translation (translate_address_p, check_permission) against the MPU
   specification of Spec/Memory.v: region lookup, access permissions, background region, fault reporting. *)
From Coq Require Import ZArith List Bool Lia ZifyBool.
From ArmV Require Import Lib.PyZ Lib.Monad Lib.Machine Spec.Pseudocode Spec.Expected Spec.Arch Spec.Hub Spec.Memory
  Proofs.BitLemmas Proofs.SpecFacts Proofs.BitsOps Proofs.BitsOps2 Proofs.FieldsProofs Proofs.StateLemmas
  Proofs.CondProofs Proofs.BankProofs Proofs.MachineOps Proofs.HubProofs Proofs.MemProofs.
From Gen Require Import enums bits_ops shift regviews records hubm opsyn core.
Import ListNotations.
Open Scope Z_scope.
Ltac Zify.zify_post_hook ::= Z.to_euclidean_division_equations.

Definition mpu_ok (s : machine) (n : nat) : Prop :=
  bits (getl (sys s) 42) 15 8 = Z.of_nat n /\
  (n <= length (nth 0 (sysl s) []))%nat /\ (n <= length (nth 1 (sysl s) []))%nat /\ (n <= length (nth 2 (sysl s) []))%nat.

Lemma run_get_sysl_bind {A} li i (k : Z -> M machine A) s :
  0 <= i < Z.of_nat (length (nth (Z.to_nat li) (sysl s) [])) ->
  bind (get_sysl li i) k s = k (getl (nth (Z.to_nat li) (sysl s) []) i) s.
Proof.
  intros Hi. unfold bind, get_sysl, py_index. cbv zeta.
  replace ((0 <=? i) && (i <? Z.of_nat (length (nth (Z.to_nat li) (sysl s) [])))) with true by lia. reflexivity.
Qed.

Lemma truthy_b2z c : truthy (b2z c) = c.
Proof. destruct c; reflexivity. Qed.
Ltac mnorm_in H := repeat (first [rewrite bind_assoc_run in H | rewrite bind_ret_run in H]; cbv beta iota in H).
Ltac mnorm := repeat (first [rewrite bind_assoc_run | rewrite bind_ret_run]; cbv beta iota).

Lemma range_up_zrange n : forall a, range_up a n 1 = zrange a n.
Proof. induction n as [|n IH]; intros a; cbn [range_up zrange]; [reflexivity|]. rewrite IH. reflexivity. Qed.
Lemma py_range_zrange n : py_range 0 (Z.of_nat n) 1 = zrange 0 n.
Proof.
  unfold py_range. cbn [Z.gtb Z.compare]. destruct n as [|n]; [reflexivity|].
  replace (0 <? Z.of_nat (S n)) with true by lia.
  replace (Z.to_nat ((Z.of_nat (S n) - 0 + 1 - 1) / 1)) with (S n) by (rewrite Z.div_1_r; lia). apply range_up_zrange.
Qed.
Lemma zrange_in n : forall a r, In r (zrange a n) -> a <= r < a + Z.of_nat n.
Proof.
  induction n as [|n IH]; intros a r H; cbn [zrange] in H; [contradiction|]. destruct H as [<-|H]; [lia|]. apply IH in H. lia.
Qed.

Definition region_at (s : machine) (i : Z) : region :=
  {| rg_base := getl (nth 1 (sysl s) []) i; rg_rsr := getl (nth 0 (sysl s) []) i; rg_racr := getl (nth 2 (sysl s) []) i |}.
Definition lookup_step (va : Z) (acc : option region) (r : region) : option region := if region_hit va r then Some r else acc.
Definition loop_inv (acc : Z * Z * Permissions * Z) (a : option region) : Prop :=
  let '(_, _, perms, found) := acc in
  match a with Some r => found = 1 /\ Permissions_ap perms = bits (rg_racr r) 10 8 | None => found = 0 end.

Lemma truthy_pand' a b : truthy (pand a b) = truthy a && truthy b.
Proof. unfold pand. destruct (truthy a) eqn:E; [reflexivity|exact E]. Qed.
Lemma truthy_por' a b : truthy (por a b) = truthy a || truthy b.
Proof. unfold por. destruct (truthy a) eqn:E; [exact E|reflexivity]. Qed.

Lemma check_permission_pmsa cfg perms va w priv s : pmsa cfg -> word (getl (sys s) 23) -> 0 <= w <= 1 ->
  0 <= Permissions_ap perms < 8 ->
  ArmV6_check_permission cfg perms va 0 0 w priv 0 0 s =
  if ap_denies (if bit (getl (sys s) 11) 29 =? 1 then insert (Permissions_ap perms) 0 0 1 else Permissions_ap perms)
               (truthy priv) (truthy w)
  then Exc (EDataAbort DAbort_PERMISSION 0) (pmsa_fault_state s va w FS_permission) else Ok tt s.
Proof.
  intros Hp Wd Hw Hap. unfold ArmV6_check_permission. cbv zeta. rewrite run_get_sys_bind. cbv beta.
  unfold SCTLR_get_afe. rewrite flag_get, truthy_bit' by lia.
  set (ap := if bit (getl (sys s) 11) 29 =? 1 then insert (Permissions_ap perms) 0 0 1 else Permissions_ap perms).
  assert (Eap : Permissions_ap (if bit (getl (sys s) 11) 29 =? 1
                  then set_Permissions_ap perms (set_bit_at (Permissions_ap perms) 0 1) else perms) = ap).
  { unfold ap. destruct (bit (getl (sys s) 11) 29 =? 1); [|reflexivity].
    destruct perms as [pa px pp]; unfold set_Permissions_ap; simpl Permissions_ap in *. rewrite set_bit_at_insert by lia. reflexivity. }
  rewrite Eap. unfold conf_memory_system_architecture. unfold pmsa in Hp. rewrite Hp. change (MemArch_PMSA =? MemArch_VMSA) with false.
  match goal with |- context [if truthy ?ab then _ else _] => set (abort := ab) end.
  assert (Eab : truthy abort = ap_denies ap (truthy priv) (truthy w)).
  { unfold abort, ap_denies.
    destruct (ap =? 0); [reflexivity|]. destruct (ap =? 1); [apply truthy_b2z|].
    destruct (ap =? 2); [rewrite truthy_pand', truthy_b2z; reflexivity|].
    destruct (ap =? 3) eqn:E3; [destruct (ap =? 5) eqn:?, (ap =? 6) eqn:?; try reflexivity; lia|].
    destruct (ap =? 4) eqn:E4; [destruct (ap =? 5) eqn:?, (ap =? 6) eqn:?; try reflexivity; lia|].
    destruct (ap =? 5); [rewrite truthy_por', truthy_b2z; reflexivity|].
    destruct (ap =? 6); [reflexivity|]. destruct (ap =? 7); reflexivity. }
  rewrite Eab. destruct (ap_denies ap (truthy priv) (truthy w)).
  - rewrite !bind_assoc_run. rewrite run_bind, pmsa_data_abort by (try assumption; right; right; reflexivity). reflexivity.
  - reflexivity.
Qed.

Theorem pmsa_translate cfg va priv w wa s n : pmsa cfg -> mpu_ok s n -> word (getl (sys s) 23) -> 0 <= w <= 1 ->
  match PMSA_check s n va (truthy priv) (truthy w) with
  | P_ok => exists d, ArmV6_translate_address_p cfg va priv w wa s = Ok d s /\ pa_of d = va
  | P_abort bg => ArmV6_translate_address_p cfg va priv w wa s
                  = Exc (EDataAbort (if bg then DAbort_BACKGROUND else DAbort_PERMISSION) 0)
                        (pmsa_fault_state s va w (if bg then FS_background else FS_permission))
  end.
Proof.
  intros Hp [Hn [L0 [L1 L2]]] Wd Hw.
  cut (forall out, ArmV6_translate_address_p cfg va priv w wa s = out ->
         match PMSA_check s n va (truthy priv) (truthy w) with
         | P_ok => exists d, out = Ok d s /\ pa_of d = va
         | P_abort bg => out = Exc (EDataAbort (if bg then DAbort_BACKGROUND else DAbort_PERMISSION) 0)
                                  (pmsa_fault_state s va w (if bg then FS_background else FS_permission))
         end).
  { intros C. specialize (C _ eq_refl). destruct (PMSA_check s n va (truthy priv) (truthy w)); exact C. }
  intros out E. unfold PMSA_check. unfold ArmV6_translate_address_p in E. cbv zeta in E.
  rewrite run_get_sys_bind in E. cbv beta in E. unfold SCTLR_get_m in E. unfold sctlr_of. rewrite flag_get in E by lia. rewrite negb_truthy_bit' in E.
  destruct (bit (getl (sys s) 11) 0 =? 0).
  - destruct (default_memory_attributes_total va s) as [m Em].
    rewrite !bind_assoc_run in E. rewrite run_bind, Em in E. cbn beta iota in E. rewrite !bind_ret_run in E. cbv beta in E.
    eexists. split; [symmetry; exact E|reflexivity].
  - rewrite !bind_assoc_run in E. rewrite run_get_sys_bind in E. cbv beta in E. unfold MPUIR_get_dregion in E. rewrite get_slice, Hn in E by lia.
    match type of E with context [foldM ?f ?l ?a] => set (body := f) in E; set (acc0 := a) in E end.
    assert (G : forall l acc a, loop_inv acc a -> (forall r, In r l -> 0 <= r < Z.of_nat n) ->
                exists acc', foldM body l acc s = Ok acc' s /\ loop_inv acc' (fold_left (lookup_step va) (map (region_at s) l) a)).
    { induction l as [|r l IH]; intros acc a Hinv Hl.
      - exists acc. split; [reflexivity|exact Hinv].
      - cbn [foldM map fold_left]. destruct acc as [[[tx sh] perms] found].
        assert (Hr : 0 <= r < Z.of_nat n) by (apply Hl; left; reflexivity).
        unfold body at 1. cbv beta iota.
        rewrite !bind_assoc_run. rewrite (run_get_sysl_bind 1) by (change (Z.to_nat 1) with 1%nat; lia). cbv beta. change (Z.to_nat 1) with 1%nat.
        rewrite !bind_assoc_run. rewrite (run_get_sysl_bind 0) by (change (Z.to_nat 0) with 0%nat; lia). cbv beta. change (Z.to_nat 0) with 0%nat.
        set (rsr := getl (nth 0 (sysl s) []) r). set (base := getl (nth 1 (sysl s) []) r). set (racr := getl (nth 2 (sysl s) []) r).
        assert (Hstep : lookup_step va a (region_at s r) =
                        if region_hit va {| rg_base := base; rg_rsr := rsr; rg_racr := racr |}
                        then Some {| rg_base := base; rg_rsr := rsr; rg_racr := racr |} else a) by reflexivity.
        rewrite Hstep. unfold region_hit. cbn [rg_base rg_rsr rg_racr].
        unfold RSR_get_en. rewrite flag_get, truthy_bit' by lia.
        assert (Same : exists acc', (bind (ret (tx, sh, perms, found)) (foldM body l)) s = Ok acc' s /\
                        loop_inv acc' (fold_left (lookup_step va) (map (region_at s) l) a)).
        { rewrite bind_ret_run. apply IH; [exact Hinv|intros r0 Hr0; apply Hl; right; exact Hr0]. }
        destruct (bit rsr 0 =? 1); cbn [andb]; [|mnorm; rewrite <- bind_ret_run; exact Same].
        rewrite !bind_assoc_run. rewrite (run_get_sysl_bind 0) by (change (Z.to_nat 0) with 0%nat; lia). cbv beta.
        change (Z.to_nat 0) with 0%nat. fold rsr. unfold RSR_get_rsize. rewrite get_slice by lia.
        set (ls := bits rsr 5 1 + 1). pose proof (bits_range rsr 5 1 ltac:(lia)) as Rls. change (2 ^ (5 - 1 + 1)) with 32 in Rls.
        assert (Hm : ((ls =? 32) || (substring va 31 ls =? substring base 31 ls)) = ((ls =? 32) || (bits va 31 ls =? bits base 31 ls))).
        { destruct (ls =? 32) eqn:E32; [reflexivity|]. cbn [orb]. rewrite !substring_bits by lia. reflexivity. }
        rewrite Hm. destruct ((ls =? 32) || (bits va 31 ls =? bits base 31 ls)); cbn [andb];
          [|mnorm; rewrite <- bind_ret_run; exact Same].
        set (rgn := {| rg_base := base; rg_rsr := rsr; rg_racr := racr |}).
        assert (InvHit : forall tx' sh' xn', loop_inv (tx', sh', set_Permissions_xn (set_Permissions_ap perms (RACR_get_ap racr)) xn', 1) (Some rgn)).
        { intros. unfold loop_inv. cbn [rg_racr rgn]. split; [reflexivity|]. unfold RACR_get_ap. rewrite get_slice by lia. reflexivity. }
        destruct (ls >=? 8) eqn:E8.
        * mnorm. rewrite (run_get_sysl_bind 0) by (change (Z.to_nat 0) with 0%nat; lia). cbv beta. change (Z.to_nat 0) with 0%nat. fold rsr.
          mnorm. rewrite substring_bits by lia. pose proof (bits_range va (ls - 1) (ls - 3) ltac:(lia)) as Rk.
          unfold RSR_get_sd_n. rewrite flag_get by lia. rewrite truthy_b2z.
          destruct (bit rsr (8 + bits va (ls - 1) (ls - 3)) =? 0).
          -- mnorm. do 6 (rewrite (run_get_sysl_bind 2) by (change (Z.to_nat 2) with 2%nat; lia); cbv beta; mnorm).
            change (Z.to_nat 2) with 2%nat. fold racr. apply IH; [apply InvHit|intros r0 Hr0; apply Hl; right; exact Hr0].
          -- mnorm. rewrite <- bind_ret_run. exact Same.
        * mnorm. change (truthy 1) with true. cbv iota.
          mnorm. do 6 (rewrite (run_get_sysl_bind 2) by (change (Z.to_nat 2) with 2%nat; lia); cbv beta; mnorm).
            change (Z.to_nat 2) with 2%nat. fold racr. apply IH; [apply InvHit|intros r0 Hr0; apply Hl; right; exact Hr0]. }
    destruct (G (py_range 0 (Z.of_nat n) 1) acc0 None) as [[[[tx sh] perms] found] [EL Inv]].
    { reflexivity. }
    { intros r Hr. rewrite py_range_zrange in Hr. apply zrange_in in Hr. lia. }
    rewrite !bind_assoc_run in E. rewrite run_bind, EL in E. cbn beta iota in E. rewrite py_range_zrange in Inv.
    change (map (region_at s) (zrange 0 n)) with (regions_of s n) in Inv.
    change (fold_left (lookup_step va) (regions_of s n) None) with (mpu_lookup (regions_of s n) va) in Inv.
    clear G EL. unfold loop_inv in Inv.
    destruct (mpu_lookup (regions_of s n) va) as [rg|].
    + destruct Inv as [-> Eap]. change (truthy 1) with true in E. cbv iota in E.
      mnorm_in E. pose proof (bits_range (rg_racr rg) 10 8 ltac:(lia)) as Rap. change (2 ^ (10 - 8 + 1)) with 8 in Rap.
      rewrite run_bind, check_permission_pmsa in E by (try assumption; rewrite Eap; exact Rap). rewrite Eap in E.
      destruct (ap_denies _ _ _).
      * symmetry. exact E.
      * cbn beta iota in E. eexists. split; [symmetry; exact E|reflexivity].
    + subst found. change (truthy 0) with false in E. cbv iota in E.
      mnorm_in E. rewrite run_get_sys_bind in E. cbv beta in E. unfold SCTLR_get_br in E. rewrite flag_get, negb_truthy_bit' in E by lia.
      destruct ((bit (getl (sys s) 11) 17 =? 0) || negb (truthy priv)).
      * mnorm_in E. rewrite run_bind, pmsa_data_abort in E by (try assumption; right; left; reflexivity). symmetry. exact E.
      * destruct (default_memory_attributes_total va s) as [m Em].
        mnorm_in E. rewrite run_bind, Em in E. cbn beta iota in E. mnorm_in E. rewrite run_get_sys_bind in E. cbv beta in E. mnorm_in E.
        rewrite run_bind, check_permission_pmsa in E by (try assumption; cbn; lia).
        assert (Hno : forall c : bool, ap_denies (if c then insert 3 0 0 1 else 3) (truthy priv) (truthy w) = false) by (intros []; reflexivity).
        cbn [Permissions_ap set_Permissions_pxn set_Permissions_xn set_Permissions_ap] in E. rewrite Hno in E.
        cbn beta iota in E. eexists. split; [symmetry; exact E|reflexivity].
Qed.

(* ---------- MemA under the MPU: allowed accesses transfer, denied ones change only DFSR/DFAR and raise ---------- *)
Definition dtype_of (bg : bool) : Z := if bg then DAbort_BACKGROUND else DAbort_PERMISSION.
Definition fs_bg (bg : bool) : Z := if bg then FS_background else FS_permission.
Definition MemA_get_mpu (arch : Z) (n : nat) (s : machine) (address size : Z) (priv : bool) : outcome machine Z :=
  match MemA_va arch s address size with
  | None => Exc (EDataAbort DAbort_ALIGNMENT 0) (pmsa_fault_state s address 0 FS_alignment)
  | Some va => match PMSA_check s n va priv false with
               | P_ok => Ok (MemA_read s va size) s
               | P_abort bg => Exc (EDataAbort (dtype_of bg) 0) (pmsa_fault_state s va 0 (fs_bg bg))
               end
  end.
Definition MemA_set_mpu (arch : Z) (n : nat) (s : machine) (address size value : Z) (priv : bool) : outcome machine unit :=
  match MemA_va arch s address size with
  | None => Exc (EDataAbort DAbort_ALIGNMENT 0) (pmsa_fault_state s address 1 FS_alignment)
  | Some va => match PMSA_check s n va priv true with
               | P_ok => Ok tt (MemA_write s va size value)
               | P_abort bg => Exc (EDataAbort (dtype_of bg) 0) (pmsa_fault_state s va 1 (fs_bg bg))
               end
  end.

Lemma translate_address_pmsa cfg va priv w size wa s : pmsa cfg ->
  ArmV6_translate_address cfg va priv w size wa s = bind (ArmV6_translate_address_p cfg va priv w wa) (fun d => ret (Some d)) s.
Proof.
  intros Hp. unfold ArmV6_translate_address, conf_memory_system_architecture. unfold pmsa in Hp. rewrite Hp. reflexivity.
Qed.

Theorem mem_a_get_mpu cfg address size priv wa s n : pmsa cfg -> mpu_ok s n -> word (getl (sys s) 23) -> hub_ok (mem s) ->
  valid_size size = true ->
  ArmV6_mem_a_with_priv_get cfg address size priv wa s = MemA_get_mpu (cfg_arch_version cfg) n s address size (truthy priv).
Proof.
  intros Hp Hm Wd Hh V. unfold MemA_get_mpu. destruct (MemA_va (cfg_arch_version cfg) s address size) as [va|] eqn:Eva.
  - pose proof (pmsa_translate cfg va priv 0 wa s n Hp Hm Wd ltac:(lia)) as T. change (truthy 0) with false in T.
    destruct (PMSA_check s n va (truthy priv) false) as [|bg].
    + destruct T as [d [Ed Hpa]]. apply (mem_a_get_ok cfg address size priv wa s va va s V Hh Eva).
      exists d. split; [|exact Hpa]. rewrite translate_address_pmsa by exact Hp. rewrite run_bind, Ed. reflexivity.
    + (* the abort happens inside translation: nothing after it runs *)
      unfold ArmV6_mem_a_with_priv_get, MemA_va in *. rewrite align_spec in *. change (Pseudocode.Align address size) with (Align address size) in *.
      assert (E1 : forall k : option Z -> M machine Z,
        bind (if address =? Align address size then ret (Some address)
              else bind (get_sys 11) (fun r_1 => bind (get_sys 11) (fun r_2 =>
                   bind (if (conf_arch_version cfg >=? 7) || truthy (SCTLR_get_a r_1) || truthy (SCTLR_get_u r_2)
                         then bind (ArmV6_alignment_fault cfg address 0) (fun _ => ret None)
                         else ret (Some (Align address size))) (fun v => ret v)))) k s = k (Some va) s).
      { intros k. destruct (address =? Align address size).
        - inversion Eva. reflexivity.
        - rewrite bind_assoc_run, run_get_sys_bind. cbv beta. rewrite bind_assoc_run, run_get_sys_bind. cbv beta.
          rewrite strict_code. destruct (strict_alignment (cfg_arch_version cfg) s); [discriminate|]. inversion Eva. reflexivity. }
      cbv zeta. rewrite E1. unfold lift at 1, eunbound. rewrite bind_ret_run. cbv beta.
      rewrite run_bind, translate_address_pmsa by exact Hp. rewrite run_bind, T. destruct bg; reflexivity.
  - apply mem_a_get_alignment_fault; assumption.
Qed.

Theorem mem_a_set_mpu cfg address size priv wa value s n : pmsa cfg -> mpu_ok s n -> word (getl (sys s) 23) ->
  valid_size size = true -> 0 <= value < 2 ^ (8 * size) ->
  ArmV6_mem_a_with_priv_set cfg address size priv wa value s = MemA_set_mpu (cfg_arch_version cfg) n s address size value (truthy priv).
Proof.
  intros Hp Hm Wd V Hv. unfold MemA_set_mpu. destruct (MemA_va (cfg_arch_version cfg) s address size) as [va|] eqn:Eva.
  - pose proof (pmsa_translate cfg va priv 1 wa s n Hp Hm Wd ltac:(lia)) as T. change (truthy 1) with true in T.
    destruct (PMSA_check s n va (truthy priv) true) as [|bg].
    + destruct T as [d [Ed Hpa]]. apply (mem_a_set_ok cfg address size priv wa value s va va s V Hv Eva).
      exists d. split; [|exact Hpa]. rewrite translate_address_pmsa by exact Hp. rewrite run_bind, Ed. reflexivity.
    + unfold ArmV6_mem_a_with_priv_set, MemA_va in *. rewrite align_spec in *. change (Pseudocode.Align address size) with (Align address size) in *.
      assert (E1 : forall k : option Z -> M machine unit,
        bind (if address =? Align address size then ret (Some address)
              else bind (get_sys 11) (fun r_1 => bind (get_sys 11) (fun r_2 =>
                   bind (if (conf_arch_version cfg >=? 7) || truthy (SCTLR_get_a r_1) || truthy (SCTLR_get_u r_2)
                         then bind (ArmV6_alignment_fault cfg address 1) (fun _ => ret None)
                         else ret (Some (Align address size))) (fun v => ret v)))) k s = k (Some va) s).
      { intros k. destruct (address =? Align address size).
        - inversion Eva. reflexivity.
        - rewrite bind_assoc_run, run_get_sys_bind. cbv beta. rewrite bind_assoc_run, run_get_sys_bind. cbv beta.
          rewrite strict_code. destruct (strict_alignment (cfg_arch_version cfg) s); [discriminate|]. inversion Eva. reflexivity. }
      cbv zeta. rewrite E1. unfold lift at 1, eunbound. rewrite bind_ret_run. cbv beta.
      rewrite run_bind, translate_address_pmsa by exact Hp. rewrite run_bind, T. destruct bg; reflexivity.
  - apply mem_a_set_alignment_fault; assumption.
Qed.
