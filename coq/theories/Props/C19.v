(* Props/C19.v — C19: privilege confinement (the parts that are theorems).  Statements only; proofs in
   Proofs/Confinement.v, on top of C12 (PSR write masks), C11 (exception entry) and C14 (MPU permissions). *)
From Coq Require Import ZArith Bool List.
From ArmV Require Import Lib.PyZ Lib.Monad Lib.Machine Spec.Pseudocode Spec.Arch Spec.MachineView Spec.Exceptions
  Proofs.StateLemmas Proofs.BankProofs Proofs.ExcProofs Proofs.Confinement.
From Gen Require Import enums core.
Open Scope Z_scope.

(* a PSR write by an instruction in User mode: still User mode, A/I/F as before, every other system register, every
   general register, every MPU register and memory unchanged *)
Theorem C19_user_psr_write cfg value bytemask s : length (sys s) = n_sys -> word (cpsr_of s) -> mode_of s = M_usr ->
  exists s', Registers_cpsr_write_by_instr cfg value bytemask 0 s = Ok tt s' /\
    mode_of s' = M_usr /\ bits (cpsr_of s') 8 6 = bits (cpsr_of s) 8 6 /\
    (forall i, 0 < i -> getl (sys s') i = getl (sys s) i) /\ R s' = R s /\ sysl s' = sysl s /\ mem s' = mem s.
Proof. exact (user_psr_write cfg value bytemask s). Qed.
Print Assumptions C19_user_psr_write.
(* an SVC from User mode enters Supervisor mode with SPSR_svc.M = User *)
Theorem C19_svc_from_user cfg s : xok cfg s -> mode_of s = M_usr ->
  take_to_hyp (xcfg_of cfg) (it_adv s) = false -> tge_route (xcfg_of cfg) (it_adv s) = false ->
  exists s', Registers_take_svc_exception cfg s = Ok tt s' /\ mode_of s' = M_svc /\ psr_M (sysv s' i_spsr_svc) = M_usr.
Proof. exact (svc_from_user cfg s). Qed.
Print Assumptions C19_svc_from_user.
(* the unprivileged load/store primitives access memory as User whatever the current mode (C14 then applies the AP
   check with ispriv = false) *)
Theorem C19_unpriv_read cfg a sz s : ArmV6_mem_u_unpriv_get cfg a sz s = ArmV6_mem_u_with_priv_get cfg a sz 0 s.
Proof. exact (unpriv_get_is_user cfg a sz s). Qed.
Print Assumptions C19_unpriv_read.
Theorem C19_unpriv_write cfg a sz v s : ArmV6_mem_u_unpriv_set cfg a sz v s = ArmV6_mem_u_with_priv_set cfg a sz 0 v s.
Proof. exact (unpriv_set_is_user cfg a sz v s). Qed.
Print Assumptions C19_unpriv_write.
