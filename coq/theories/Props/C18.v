(* Props/C18.v — C18: stepping is total (decode stage).  Statements only; proofs in Proofs/DecodeTotal.v.
   For every instruction word and every machine state, decode_instruction returns a class, None (taken as UNDEFINED by
   emulate_cycle), the UNDEFINED outcome or the documented not-implemented outcome, and leaves the state unchanged: it
   never fails with a host error.  C11_dispatch then hands UNDEFINED to the architectural exception entry. *)
From Coq Require Import ZArith Bool List.
From ArmV Require Import Lib.PyZ Lib.Monad Lib.Machine Proofs.DecodeTotal.
From Gen Require Import enums core decoders.
Open Scope Z_scope.

Theorem C18_decode_total w s : ok_out (ArmV6_decode_instruction w s) s.
Proof. exact (decode_total w s). Qed.
Print Assumptions C18_decode_total.
Theorem C18_arm_total w : ok_res (dec_arm_instruction_set w).
Proof. exact (total_arm w). Qed.
Print Assumptions C18_arm_total.
Theorem C18_thumb32_total w : ok_res (dec_thumb_instruction_set_encoding_32_bit w).
Proof. exact (total_thumb32 w). Qed.
Print Assumptions C18_thumb32_total.
