(* Machine.v — the first-order machine state of the translated emulator and the
   primitive accessors the translator emits.  Hand-written, static (does not
   depend on generated code): opcode instances are (class code, field list). *)
From Coq Require Import ZArith List Bool.
From ArmV Require Import Lib.PyZ Lib.Monad.
Import ListNotations.
Open Scope Z_scope.

(* the keys of arm_configurations.json read by the code through `configurations.<key>` *)
Record config : Type := mk_config {
  cfg_number_of_mpu_regions : Z;
  cfg_have_security_ext : Z;
  cfg_have_virt_ext : Z;
  cfg_arch_version : Z;
  cfg_jazelle_accepts_execution : Z;
  cfg_memory_system_architecture : Z;   (* 1 = VMSA, 2 = PMSA (enum MemArch); other = KeyError *)
  cfg_have_lpae : Z;
  cfg_have_mp_ext : Z;
  cfg_have_adv_simd_or_vfp : Z;
  cfg_have_thumbee : Z;
  cfg_have_jazelle : Z;
  cfg_implementation_supports_transient : Z;
  cfg_processor_id : Z;
  cfg_is_armv7r_profile : Z;
  cfg_has_imp_def_reset_vector : Z;
  cfg_write_hsr_hsr_value_24 : Z;
  cfg_write_hsr_23_22_cond : Z;
  cfg_dfsr_string_12 : Z;
  cfg_data_abort_hsr_9 : Z;
  cfg_data_abort_pmsa_change_dfar : Z;
  cfg_translation_walk_sd_l1descaddr_attrs_10 : Z;
  cfg_translation_walk_sd_l1descaddr_hints_01 : Z;
  cfg_coproc_accepted_pl0_undefined : Z;
  cfg_impdef_reset_vector : Z;
  cfg_impdef_irq_vector : Z;
  cfg_impdef_fiq_vector : Z;
  cfg_reset_values : list Z    (* per scalar slot of Registers: the configured reset value of its register class (0 if none) *)
}.

Record device : Type := mk_device { dev_beg : Z; dev_end : Z; dev_bytes : list Z }.
Definition hub : Type := list device.

Definition opcode : Type := (Z * list Z)%type.

Record machine : Type := mk_machine {
  R : list Z;               (* Registers._R, index = RName value - 1 (34 entries) *)
  sys : list Z;             (* scalar attributes of Registers, in __init__ order *)
  sysl : list (list Z);     (* list attributes of Registers (MPU region registers) *)
  changed : list Z;         (* Registers.changed_registers (16 entries) *)
  opcode_w : Z;             (* ArmV6.opcode *)
  opcode_len : Z;           (* ArmV6.opcode_len *)
  run_ : Z;                 (* ArmV6.run *)
  wfe : Z;                  (* ArmV6.is_wait_for_event *)
  wfi : Z;                  (* ArmV6.is_wait_for_interrupt *)
  executed : option opcode; (* ArmV6.executed_opcode *)
  mem : hub                 (* ArmV6.mem.memories *)
}.

Definition MM := M machine.

Definition set_R (s : machine) (x : list Z) : machine :=
  mk_machine x (sys s) (sysl s) (changed s) (opcode_w s) (opcode_len s) (run_ s) (wfe s) (wfi s) (executed s) (mem s).
Definition set_sys (s : machine) (x : list Z) : machine :=
  mk_machine (R s) x (sysl s) (changed s) (opcode_w s) (opcode_len s) (run_ s) (wfe s) (wfi s) (executed s) (mem s).
Definition set_sysl (s : machine) (x : list (list Z)) : machine :=
  mk_machine (R s) (sys s) x (changed s) (opcode_w s) (opcode_len s) (run_ s) (wfe s) (wfi s) (executed s) (mem s).
Definition set_changed (s : machine) (x : list Z) : machine :=
  mk_machine (R s) (sys s) (sysl s) x (opcode_w s) (opcode_len s) (run_ s) (wfe s) (wfi s) (executed s) (mem s).
Definition set_opcode_w (s : machine) (x : Z) : machine :=
  mk_machine (R s) (sys s) (sysl s) (changed s) x (opcode_len s) (run_ s) (wfe s) (wfi s) (executed s) (mem s).
Definition set_opcode_len (s : machine) (x : Z) : machine :=
  mk_machine (R s) (sys s) (sysl s) (changed s) (opcode_w s) x (run_ s) (wfe s) (wfi s) (executed s) (mem s).
Definition set_run_ (s : machine) (x : Z) : machine :=
  mk_machine (R s) (sys s) (sysl s) (changed s) (opcode_w s) (opcode_len s) x (wfe s) (wfi s) (executed s) (mem s).
Definition set_wfe (s : machine) (x : Z) : machine :=
  mk_machine (R s) (sys s) (sysl s) (changed s) (opcode_w s) (opcode_len s) (run_ s) x (wfi s) (executed s) (mem s).
Definition set_wfi (s : machine) (x : Z) : machine :=
  mk_machine (R s) (sys s) (sysl s) (changed s) (opcode_w s) (opcode_len s) (run_ s) (wfe s) x (executed s) (mem s).
Definition set_executed (s : machine) (x : option opcode) : machine :=
  mk_machine (R s) (sys s) (sysl s) (changed s) (opcode_w s) (opcode_len s) (run_ s) (wfe s) (wfi s) x (mem s).
Definition set_mem (s : machine) (x : hub) : machine :=
  mk_machine (R s) (sys s) (sysl s) (changed s) (opcode_w s) (opcode_len s) (run_ s) (wfe s) (wfi s) (executed s) x.

(* ---- primitives emitted by the translator ---- *)
(* Registers._R[rname]: a dict keyed by RName; a key that is not an RName
   (None from r_bank_select falling through) is a KeyError *)
Definition getR (rn : option Z) : MM Z := fun s =>
  match rn with
  | Some r => if (1 <=? r) && (r <=? 34) then Ok (getl (R s) (r - 1)) s else Exc (EHost HKey) s
  | None => Exc (EHost HKey) s
  end.
Definition putR (rn : option Z) (v : Z) : MM unit := fun s =>
  match rn with
  | Some r => if (1 <=? r) && (r <=? 34) then Ok tt (set_R s (setl (R s) (r - 1) v)) else Exc (EHost HKey) s
  | None => Ok tt s   (* dict assignment with key None succeeds in Python; the key is not an RName so no register changes *)
  end.
(* scalar attributes: always present *)
Definition get_sys (i : Z) : MM Z := fun s => Ok (getl (sys s) i) s.
Definition put_sys (i v : Z) : MM unit := fun s => Ok tt (set_sys s (setl (sys s) i v)).
(* list attributes: Python list indexing *)
Definition get_sysl (li i : Z) : MM Z := fun s =>
  let l := nth (Z.to_nat li) (sysl s) [] in
  match py_index l i with Some k => Ok (nth k l 0) s | None => Exc (EHost HIndex) s end.
Definition put_sysl (li i v : Z) : MM unit := fun s =>
  let l := nth (Z.to_nat li) (sysl s) [] in
  match py_index l i with
  | Some k => Ok tt (set_sysl s (upd (sysl s) (Z.to_nat li) (upd l k v)))
  | None => Exc (EHost HIndex) s
  end.
Definition get_changed (i : Z) : MM Z := fun s =>
  match py_index (changed s) i with Some k => Ok (nth k (changed s) 0) s | None => Exc (EHost HIndex) s end.
Definition put_changed (i v : Z) : MM unit := fun s =>
  match py_index (changed s) i with
  | Some k => Ok tt (set_changed s (upd (changed s) k v))
  | None => Exc (EHost HIndex) s
  end.
Definition reset_changed (v : Z) (n : Z) : MM unit := fun s => Ok tt (set_changed s (repeat v (Z.to_nat n))).
Definition get_opcode_w : MM Z := fun s => Ok (opcode_w s) s.
Definition put_opcode_w (v : Z) : MM unit := fun s => Ok tt (set_opcode_w s v).
Definition get_opcode_len : MM Z := fun s => Ok (opcode_len s) s.
Definition put_opcode_len (v : Z) : MM unit := fun s => Ok tt (set_opcode_len s v).
Definition get_run_ : MM Z := fun s => Ok (run_ s) s.
Definition put_run_ (v : Z) : MM unit := fun s => Ok tt (set_run_ s v).
Definition get_wfe : MM Z := fun s => Ok (wfe s) s.
Definition put_wfe (v : Z) : MM unit := fun s => Ok tt (set_wfe s v).
Definition get_wfi : MM Z := fun s => Ok (wfi s) s.
Definition put_wfi (v : Z) : MM unit := fun s => Ok tt (set_wfi s v).
Definition get_executed : MM (option opcode) := fun s => Ok (executed s) s.
Definition put_executed (v : option opcode) : MM unit := fun s => Ok tt (set_executed s v).
Definition zoom_mem {A} (m : M hub A) : MM A := zoom mem set_mem m.

(* run a computation on the bytes of device number i of the hub *)
Definition zoom_dev {A} (i : Z) (m : M (list Z) A) : M hub A :=
  zoom (fun h => dev_bytes (nth (Z.to_nat i) h (mk_device 0 0 [])))
       (fun h b => let d := nth (Z.to_nat i) h (mk_device 0 0 []) in
                   upd h (Z.to_nat i) (mk_device (dev_beg d) (dev_end d) b)) m.

(* fuel of translated `while` loops (the LPAE walk needs at most 3 iterations; the coprocessor loops are mocks) *)
Definition while_fuel : nat := 64%nat.

(* opcode field access: fields are positional *)
Definition op_field (o : opcode) (i : nat) : Z := nth i (snd o) 0.

(* ---- bytes (bytearray / bytes) with Python slice semantics ---- *)
Definition clip (n i : Z) : Z := if i <? 0 then Z.max 0 (n + i) else Z.min i n.
Definition py_slice (l : list Z) (a b : Z) : list Z :=
  let n := Z.of_nat (length l) in
  let a' := clip n a in let b' := clip n b in
  if a' <? b' then firstn (Z.to_nat (b' - a')) (skipn (Z.to_nat a') l) else [].
(* l[a:b] = v  (bytearray slice assignment: splices, may change the length) *)
Definition py_slice_assign (l : list Z) (a b : Z) (v : list Z) : list Z :=
  let n := Z.of_nat (length l) in
  let a' := clip n a in let b' := Z.max a' (clip n b) in
  firstn (Z.to_nat a') l ++ v ++ skipn (Z.to_nat b') l.

(* struct.pack('<fmt', v) / struct.unpack: little endian, sizes 1 2 4 8 *)
Fixpoint le_bytes (n : nat) (v : Z) : list Z :=
  match n with O => [] | S k => (v mod 256) :: le_bytes k (v / 256) end.
Fixpoint le_value (l : list Z) : Z :=
  match l with [] => 0 | b :: t => b + 256 * le_value t end.
Definition struct_pack (size v : Z) : res (list Z) :=
  if (0 <=? v) && (v <? 2 ^ (8 * size)) then Val (le_bytes (Z.to_nat size) v) else Err (EHost HStruct).
Definition struct_unpack (size : Z) (b : list Z) : res Z :=
  if Z.of_nat (length b) =? size then Val (le_value b) else Err (EHost HStruct).
