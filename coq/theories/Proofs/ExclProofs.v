(* Proofs/ExclProofs.v — the exclusive loads and stores on a flat map (PMSA, MPU disabled).  The emulator's exclusive monitors
   are mocks: marking does nothing and the local monitor never reports a match, so LDREX* are plain MemA loads and STREX* write
   status 1 and store nothing (after the alignment check ExclusiveMonitorsPass makes for the access size). *)
From Coq Require Import ZArith List Bool Lia ZifyBool.
From ArmV Require Import Lib.PyZ Lib.Monad Lib.Machine Spec.Pseudocode Spec.Expected Spec.Arch Spec.DPSem
  Proofs.BitLemmas Proofs.SpecFacts Proofs.BitsOps Proofs.BitsOps2 Proofs.ShiftOps Proofs.FieldsProofs Proofs.StateLemmas
  Proofs.CondProofs Proofs.GuardProofs Proofs.BankProofs Proofs.MachineOps Proofs.DPLemmas Proofs.DPTactics Proofs.BranchProofs
  Spec.MachineView Spec.LoadStore Spec.LoadStoreUnpriv Spec.Hub Spec.Memory Proofs.ExcProofs Proofs.LSProofs Proofs.LSProofs2 Proofs.MemProofs
  Proofs.LSProofs5.
From Gen Require Import enums bits_ops shift regviews records hubm opsyn core exec.
Import ListNotations.
Open Scope Z_scope.
(* a sentence that runs this long no longer matches the code it was written for: fail instead of searching *)
Set Default Timeout 240.
Ltac Zify.zify_post_hook ::= Z.to_euclidean_division_equations.

Lemma set_monitors_flat cfg a sz s : pmsa cfg -> bit (getl (sys s) 11) 0 = 0 -> ArmV6_set_exclusive_monitors cfg a sz s = Ok tt s.
Proof.
  intros Hp Hm. unfold ArmV6_set_exclusive_monitors. rewrite b_not_user.
  destruct (translate_flat_mpu_off cfg a (B2Z (negb (mode_of s =? 16))) 0 sz 1 s Hp Hm) as [d [Et _]].
  rewrite run_bind, Et. cbn beta iota. cbv zeta. cbn [enone]. unfold lift at 1. rewrite bind_ret_run.
  destruct (truthy (MemoryAttributes_shareable (AddressDescriptor_memattrs d))); reflexivity.
Qed.
Lemma monitors_pass_flat cfg a sz s : pmsa cfg -> bit (getl (sys s) 11) 0 = 0 -> a = align a sz ->
  ArmV6_exclusive_monitors_pass cfg a sz s = Ok 0 s.
Proof.
  intros Hp Hm Ha. unfold ArmV6_exclusive_monitors_pass. replace (a =? align a sz) with true by lia. cbn [negb].
  rewrite !bind_assoc_run, b_not_user.
  destruct (translate_flat_mpu_off cfg a (B2Z (negb (mode_of s =? 16))) 1 sz 1 s Hp Hm) as [d [Et _]].
  rewrite !bind_assoc_run, run_bind, Et. cbn beta iota. rewrite !bind_ret_run. cbv zeta.
  unfold ArmV6_is_exclusive_local. cbv [bind ret lift eunbound enone ebind truthy]. cbn [Z.eqb negb].
  destruct (negb (MemoryAttributes_shareable (AddressDescriptor_memattrs d) =? 0)); reflexivity.
Qed.

Section Excl.
  Variable cfg : config.
  Hypothesis Hp : pmsa cfg.

  Definition mpu_off (s : machine) : Prop := bit (getl (sys s) 11) 0 = 0.

  (* LDREX, LDREXB, LDREXH: R[t] = MemA[address, size] (MemA zero-extends) *)
  Definition LDREX_sem (size : Z) (s : machine) (a t : Z) : outcome machine unit :=
    match ArmV6_mem_a_get cfg a size s with Exc e s' => Exc e s' | Ok d s1 => Ok tt (rset s1 t d) end.
  Lemma ldrex_tail size a t s : ictx cfg s -> mpu_off s -> 0 <= t <= 14 ->
    (forall d s1, ArmV6_mem_a_get cfg a size s = Ok d s1 -> ictx cfg s1) ->
    bind (ArmV6_set_exclusive_monitors cfg a size) (fun _ => bind (ArmV6_mem_a_get cfg a size) (fun t_5 => bind (Registers_set cfg t t_5) (fun _ => ret tt))) s
    = LDREX_sem size s a t.
  Proof.
    intros H Hm Ht Hrd. rewrite run_bind, set_monitors_flat by assumption. cbn beta iota. unfold LDREX_sem. rewrite run_bind.
    destruct (ArmV6_mem_a_get cfg a size s) as [d s1|e s1] eqn:E; [|reflexivity]. cbn beta iota.
    rewrite !bind_ret_tt, reg_set; [reflexivity|lia|apply (Hrd d s1 eq_refl)|apply (Hrd d s1 eq_refl)].
  Qed.

  Theorem Ldrex_ok instr imm32 t n s : ictx cfg s -> mpu_off s -> cond_holds s -> iset_of s <> 3 -> 0 <= t <= 14 -> 0 <= n <= 15 ->
    (forall a d s1, ArmV6_mem_a_get cfg a 4 s = Ok d s1 -> ictx cfg s1) ->
    Ldrex_execute cfg instr imm32 t n s = LDREX_sem 4 s (add32 (rget s n) imm32) t.
  Proof.
    intros H Hm Hc Hi Ht Hn Hrd. unfold Ldrex_execute. rewrite guard_pass by exact Hc. rewrite bind_ret_tt. cbv zeta.
    rewrite try_null_check by exact Hi. rewrite (b_get cfg) by (try exact H; lia). cbv zeta. rewrite add_spec. fold (add32 (rget s n) imm32).
    apply ldrex_tail; try assumption. apply Hrd.
  Qed.
  Theorem Ldrexb_ok instr t n s : ictx cfg s -> mpu_off s -> cond_holds s -> iset_of s <> 3 -> 0 <= t <= 14 -> 0 <= n <= 15 ->
    (forall a d s1, ArmV6_mem_a_get cfg a 1 s = Ok d s1 -> ictx cfg s1) ->
    Ldrexb_execute cfg instr t n s = LDREX_sem 1 s (rget s n) t.
  Proof.
    intros H Hm Hc Hi Ht Hn Hrd. unfold Ldrexb_execute. rewrite guard_pass by exact Hc. rewrite bind_ret_tt. cbv zeta.
    rewrite try_null_check by exact Hi. rewrite (b_get cfg) by (try exact H; lia). cbv zeta. apply ldrex_tail; try assumption. apply Hrd.
  Qed.
  Theorem Ldrexh_ok instr t n s : ictx cfg s -> mpu_off s -> cond_holds s -> iset_of s <> 3 -> 0 <= t <= 14 -> 0 <= n <= 15 ->
    (forall a d s1, ArmV6_mem_a_get cfg a 2 s = Ok d s1 -> ictx cfg s1) ->
    Ldrexh_execute cfg instr t n s = LDREX_sem 2 s (rget s n) t.
  Proof.
    intros H Hm Hc Hi Ht Hn Hrd. unfold Ldrexh_execute. rewrite guard_pass by exact Hc. rewrite bind_ret_tt. cbv zeta.
    rewrite try_null_check by exact Hi. rewrite (b_get cfg) by (try exact H; lia). cbv zeta. apply ldrex_tail; try assumption. apply Hrd.
  Qed.

  (* STREX*: the monitor never passes: status 1, nothing stored; a misaligned address takes the alignment fault first *)
  Definition STREX_sem (size : Z) (s : machine) (a d : Z) : outcome machine unit :=
    if a =? Align a size then Ok tt (rset s d 1)
    else Exc (EDataAbort DAbort_ALIGNMENT 0) (pmsa_fault_state s a 1 FS_alignment).
  Lemma strex_tail size a d (body : M machine unit) s : ictx cfg s -> mpu_off s -> word (getl (sys s) 23) -> 0 <= d <= 14 ->
    bind (ArmV6_exclusive_monitors_pass cfg a size) (fun t_4 =>
      bind (if truthy t_4 then body else bind (Registers_set cfg d 1) (fun _ => ret tt)) (fun _ => ret tt)) s
    = STREX_sem size s a d.
  Proof.
    intros H Hm Wd Hd. unfold STREX_sem. rewrite <- align_spec. destruct (a =? align a size) eqn:E.
    - rewrite run_bind, monitors_pass_flat by (try assumption; lia). cbn beta iota. cbn [truthy Z.eqb negb]. cbv iota.
      rewrite !bind_ret_tt, reg_set; [reflexivity|lia|apply H|apply H].
    - unfold ArmV6_exclusive_monitors_pass. rewrite E. cbn [negb]. rewrite !bind_assoc_run, run_bind.
      rewrite pmsa_alignment_fault by (first [exact Hp | lia | exact Wd]). reflexivity.
  Qed.
  Theorem Strex_ok instr imm32 t d n s : ictx cfg s -> mpu_off s -> word (getl (sys s) 23) -> cond_holds s -> iset_of s <> 3 -> 0 <= d <= 14 -> 0 <= n <= 15 ->
    Strex_execute cfg instr imm32 t d n s = STREX_sem 4 s (add32 (rget s n) imm32) d.
  Proof.
    intros H Hm Wd Hc Hi Hd Hn. unfold Strex_execute. rewrite guard_pass by exact Hc. rewrite bind_ret_tt. cbv zeta.
    rewrite try_null_check by exact Hi. rewrite (b_get cfg) by (try exact H; lia). cbv zeta. rewrite add_spec. fold (add32 (rget s n) imm32).
    apply strex_tail; assumption.
  Qed.
  Theorem Strexb_ok instr t d n s : ictx cfg s -> mpu_off s -> word (getl (sys s) 23) -> cond_holds s -> iset_of s <> 3 -> 0 <= d <= 14 -> 0 <= n <= 15 ->
    Strexb_execute cfg instr t d n s = STREX_sem 1 s (rget s n) d.
  Proof.
    intros H Hm Wd Hc Hi Hd Hn. unfold Strexb_execute. rewrite guard_pass by exact Hc. rewrite bind_ret_tt. cbv zeta.
    rewrite try_null_check by exact Hi. rewrite (b_get cfg) by (try exact H; lia). cbv zeta. apply strex_tail; assumption.
  Qed.
  Theorem Strexh_ok instr t d n s : ictx cfg s -> mpu_off s -> word (getl (sys s) 23) -> cond_holds s -> iset_of s <> 3 -> 0 <= d <= 14 -> 0 <= n <= 15 ->
    Strexh_execute cfg instr t d n s = STREX_sem 2 s (rget s n) d.
  Proof.
    intros H Hm Wd Hc Hi Hd Hn. unfold Strexh_execute. rewrite guard_pass by exact Hc. rewrite bind_ret_tt. cbv zeta.
    rewrite try_null_check by exact Hi. rewrite (b_get cfg) by (try exact H; lia). cbv zeta. apply strex_tail; assumption.
  Qed.
  Theorem Strexd_ok instr t t2 d n s : ictx cfg s -> mpu_off s -> word (getl (sys s) 23) -> cond_holds s -> iset_of s <> 3 -> 0 <= d <= 14 -> 0 <= n <= 15 ->
    0 <= t <= 14 -> 0 <= t2 <= 14 ->
    Strexd_execute cfg instr t t2 d n s = STREX_sem 8 s (rget s n) d.
  Proof.
    intros H Hm Wd Hc Hi Hd Hn Ht Ht2. unfold Strexd_execute. rewrite guard_pass by exact Hc. rewrite bind_ret_tt. cbv zeta.
    rewrite try_null_check by exact Hi. rewrite (b_get cfg) by (try exact H; lia). cbv zeta.
    rewrite (b_get cfg) by (try exact H; lia). rewrite (b_get cfg) by (try exact H; lia). rewrite b_big_endian. cbv zeta.
    apply strex_tail; assumption.
  Qed.


  (* LDREXD: doubleword-aligned addresses only; the halves go to Rt / Rt2 by endianness *)
  Definition LDREXD_sem (s : machine) (a t t2 : Z) : outcome machine unit :=
    if bits a 2 0 =? 0 then
      match ArmV6_mem_a_get cfg a 8 s with
      | Exc e s' => Exc e s'
      | Ok d s1 => Ok tt (if LoadStoreUnpriv.big_endian s1 then rset (rset s1 t (bits d 63 32)) t2 (bits d 31 0)
                          else rset (rset s1 t (bits d 31 0)) t2 (bits d 63 32))
      end
    else Exc (EDataAbort DAbort_ALIGNMENT 0) (pmsa_fault_state s a 0 FS_alignment).
  Theorem Ldrexd_ok instr t t2 n s : ictx cfg s -> mpu_off s -> word (getl (sys s) 23) -> cond_holds s -> iset_of s <> 3 ->
    0 <= t <= 14 -> 0 <= t2 <= 14 -> 0 <= n <= 15 ->
    (forall a d s1, ArmV6_mem_a_get cfg a 8 s = Ok d s1 -> ictx cfg s1) ->
    Ldrexd_execute cfg instr t t2 n s = LDREXD_sem s (rget s n) t t2.
  Proof.
    intros H Hm Wd Hc Hi Ht Ht2 Hn Hrd. unfold Ldrexd_execute, LDREXD_sem. rewrite guard_pass by exact Hc. rewrite bind_ret_tt. cbv zeta.
    rewrite try_null_check by exact Hi. rewrite (b_get cfg) by (try exact H; lia). cbv zeta. rewrite substring_bits by lia.
    destruct (bits (rget s n) 2 0 =? 0); cbn [negb].
    - rewrite bind_ret_run. rewrite run_bind, set_monitors_flat by assumption. cbn beta iota. rewrite run_bind.
      destruct (ArmV6_mem_a_get cfg (rget s n) 8 s) as [d s1|e s1] eqn:E; [|reflexivity]. pose proof (Hrd _ _ _ E) as H1. cbn beta iota. cbv zeta.
      rewrite b_big_endian, truthy_e. rewrite !substring_bits by lia. destruct (LoadStoreUnpriv.big_endian s1).
      + rewrite ?bind_assoc_run. rewrite (b_set cfg) by (try exact H1; lia).
        assert (H2 : ictx cfg (rset s1 t (bits d 63 32))) by (apply ictx_rset; [exact H1|lia|apply word_hi64]).
        rewrite ?bind_assoc_run. rewrite (b_set cfg) by (try exact H2; lia). rewrite ?bind_ret_run. reflexivity.
      + rewrite ?bind_assoc_run. rewrite (b_set cfg) by (try exact H1; lia).
        assert (H2 : ictx cfg (rset s1 t (bits d 31 0))) by (apply ictx_rset; [exact H1|lia|apply word_lo64]).
        rewrite ?bind_assoc_run. rewrite (b_set cfg) by (try exact H2; lia). rewrite ?bind_ret_run. reflexivity.
    - rewrite ?bind_assoc_run. rewrite run_bind. rewrite pmsa_alignment_fault by (first [exact Hp | lia | exact Wd]). reflexivity.
  Qed.
End Excl.
