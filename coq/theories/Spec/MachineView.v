(* Spec/MachineView.v — the architectural view of the machine record used by the instruction-level
   specifications: which list entries are CPSR, PC and the banked general registers.  The layout is
   written down here as numbers (it is the order of the emulator's RName enumeration and of the
   Registers attributes); Proofs/BankProofs.v proves that the regenerated code uses exactly this layout. *)
From Coq Require Import ZArith List Bool.
From ArmV Require Import Lib.PyZ Lib.Monad Lib.Machine Spec.Pseudocode Spec.Arch.
Import ListNotations.
Open Scope Z_scope.

Definition cpsr_of (s : machine) : Z := getl (sys s) 0.
Definition mode_of (s : machine) : Z := psr_M (cpsr_of s).
Definition iset_of (s : machine) : Z := bit (cpsr_of s) 24 * 2 + bit (cpsr_of s) 5.

Definition bank_no (b : bank) : Z :=
  match b with Busr => 0 | Bfiq => 1 | Birq => 2 | Bsvc => 3 | Babt => 4 | Bund => 5 | Bmon => 6 | Bhyp => 7 end.
(* index in the register list of architectural register n (0..14) as seen from `mode` *)
Definition spec_ridx (n mode : Z) : Z :=
  let b := phys_bank n mode in
  if n <=? 7 then n
  else if n <=? 12 then 8 + 2 * (n - 8) + (match b with Bfiq => 1 | _ => 0 end)
  else if n =? 13 then 18 + bank_no b
  else 26 + (match b with Bhyp => 0 | _ => bank_no b end).
Definition pc_index : Z := 33.

Definition pc_of (s : machine) : Z := getl (R s) pc_index.
Definition rget (s : machine) (n : Z) : Z :=
  if n =? 15 then PCRead (cpsr_of s) (pc_of s) else getl (R s) (spec_ridx n (mode_of s)).
Definition mark_changed (s : machine) (n : Z) : machine := set_changed s (upd (changed s) (Z.to_nat n) 1).
Definition rset (s : machine) (n v : Z) : machine :=
  set_R (mark_changed s n) (setl (R s) (spec_ridx n (mode_of s)) v).
Definition branch_to (s : machine) (addr : Z) : machine :=
  set_R (mark_changed s 15) (setl (R s) pc_index addr).
Definition with_cpsr (s : machine) (p : Z) : machine := set_sys s (setl (sys s) 0 p).
Definition apply_pc (s : machine) (r : Z * option Z) : machine :=
  match snd r with
  | Some target => branch_to (with_cpsr s (fst r)) target
  | None => with_cpsr s (fst r)
  end.
