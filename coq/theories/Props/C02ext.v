(* Props/C02ext.v — C02: twenty-nine further single-register load/store classes, each equal to the parametric specification of
   Spec/LoadStore.v (Spec/LoadStoreUnpriv.v for the unprivileged forms) with the emulator's MemU / MemU_unpriv as the
   accessor: the address used, the width, zero/sign extension, the UNKNOWN value of a misaligned access without unaligned
   support, base write-back only when the access succeeded, LDR pc (Thumb register form) branching to the loaded word.
   Statements only; proofs in Proofs/LSProofs2.v, Proofs/LSProofs3.v and Proofs/LSProofs4.v (literal loads). *)
From Coq Require Import ZArith Bool List.
From ArmV Require Import Lib.PyZ Lib.Monad Lib.Machine Spec.Pseudocode Spec.Arch Spec.DPSem Spec.MachineView Spec.LoadStore Spec.LoadStoreUnpriv
  Spec.Hub Proofs.StateLemmas Proofs.CondProofs Proofs.GuardProofs Proofs.BankProofs Proofs.MachineOps Proofs.DPLemmas Proofs.MemProofs
  Proofs.LSProofs Proofs.LSProofs2 Proofs.LSProofs3 Proofs.LSProofs4.
From Gen Require Import enums core exec.
Import ListNotations.
Open Scope Z_scope.

Theorem C02_LdrbImmediateThumb cfg instr add wback index t n imm32 s :
  ictx cfg s -> cond_holds s -> iset_of s <> 3 -> 0 <= n <= 15 -> 0 <= t <= 14 -> (wback <> 0 -> n <= 14) ->
  rd_ok cfg (ArmV6_mem_u_get cfg) s 1 ->
  LdrbImmediateThumb_execute cfg instr add wback index t n imm32 s =
  LOAD_dest_first (ArmV6_mem_u_get cfg) LByte s (rget s n) imm32 add index wback n t.
Proof. exact (LdrbImmediateThumb_sem cfg instr add wback index t n imm32 s). Qed.
Print Assumptions C02_LdrbImmediateThumb.
Theorem C02_LdrbRegister cfg instr add wback index m t n shift_t shift_n s :
  ictx cfg s -> cond_holds s -> iset_of s <> 3 -> 0 <= n <= 15 -> 0 <= m <= 15 -> 0 <= t <= 14 -> (wback <> 0 -> n <= 14) ->
  valid_shift shift_t shift_n -> rd_ok cfg (ArmV6_mem_u_get cfg) s 1 ->
  LdrbRegister_execute cfg instr add wback index m t n shift_t shift_n s =
  LOAD_dest_first (ArmV6_mem_u_get cfg) LByte s (rget s n) (reg_offset s m shift_t shift_n) add index wback n t.
Proof. exact (LdrbRegister_sem cfg instr add wback index m t n shift_t shift_n s). Qed.
Print Assumptions C02_LdrbRegister.
Theorem C02_LdrsbImmediate cfg instr add wback index imm32 t n s :
  ictx cfg s -> cond_holds s -> iset_of s <> 3 -> 0 <= n <= 15 -> 0 <= t <= 14 -> (wback <> 0 -> n <= 14) ->
  rd_ok cfg (ArmV6_mem_u_get cfg) s 1 ->
  LdrsbImmediate_execute cfg instr add wback index imm32 t n s =
  LOAD_dest_first (ArmV6_mem_u_get cfg) LSByte s (rget s n) imm32 add index wback n t.
Proof. exact (LdrsbImmediate_sem cfg instr add wback index imm32 t n s). Qed.
Print Assumptions C02_LdrsbImmediate.
Theorem C02_LdrsbRegister cfg instr add wback index m t n shift_t shift_n s :
  ictx cfg s -> cond_holds s -> iset_of s <> 3 -> 0 <= n <= 15 -> 0 <= m <= 15 -> 0 <= t <= 14 -> (wback <> 0 -> n <= 14) ->
  valid_shift shift_t shift_n -> rd_ok cfg (ArmV6_mem_u_get cfg) s 1 ->
  LdrsbRegister_execute cfg instr add wback index m t n shift_t shift_n s =
  LOAD_dest_first (ArmV6_mem_u_get cfg) LSByte s (rget s n) (reg_offset s m shift_t shift_n) add index wback n t.
Proof. exact (LdrsbRegister_sem cfg instr add wback index m t n shift_t shift_n s). Qed.
Print Assumptions C02_LdrsbRegister.
Theorem C02_LdrhImmediateArm cfg instr add wback index imm32 t n s :
  ictx cfg s -> cond_holds s -> 0 <= n <= 15 -> 0 <= t <= 14 -> (wback <> 0 -> n <= 14) ->
  rd_ok cfg (ArmV6_mem_u_get cfg) s 2 ->
  LdrhImmediateArm_execute cfg instr add wback index imm32 t n s =
  LOAD (ArmV6_mem_u_get cfg) (cfg_arch_version cfg) (cfg_jazelle_accepts_execution cfg) LHalf s (rget s n) imm32 add index wback n t.
Proof. exact (LdrhImmediateArm_sem cfg instr add wback index imm32 t n s). Qed.
Print Assumptions C02_LdrhImmediateArm.
Theorem C02_LdrhImmediateThumb cfg instr add wback index t n imm32 s :
  ictx cfg s -> cond_holds s -> iset_of s <> 3 -> 0 <= n <= 15 -> 0 <= t <= 14 -> (wback <> 0 -> n <= 14) ->
  rd_ok cfg (ArmV6_mem_u_get cfg) s 2 ->
  LdrhImmediateThumb_execute cfg instr add wback index t n imm32 s =
  LOAD (ArmV6_mem_u_get cfg) (cfg_arch_version cfg) (cfg_jazelle_accepts_execution cfg) LHalf s (rget s n) imm32 add index wback n t.
Proof. exact (LdrhImmediateThumb_sem cfg instr add wback index t n imm32 s). Qed.
Print Assumptions C02_LdrhImmediateThumb.
Theorem C02_LdrhRegister cfg instr add wback index m t n shift_t shift_n s :
  ictx cfg s -> cond_holds s -> iset_of s <> 3 -> 0 <= n <= 15 -> 0 <= m <= 15 -> 0 <= t <= 14 -> (wback <> 0 -> n <= 14) ->
  valid_shift shift_t shift_n -> rd_ok cfg (ArmV6_mem_u_get cfg) s 2 ->
  LdrhRegister_execute cfg instr add wback index m t n shift_t shift_n s =
  LOAD (ArmV6_mem_u_get cfg) (cfg_arch_version cfg) (cfg_jazelle_accepts_execution cfg) LHalf s (rget s n) (reg_offset s m shift_t shift_n) add index wback n t.
Proof. exact (LdrhRegister_sem cfg instr add wback index m t n shift_t shift_n s). Qed.
Print Assumptions C02_LdrhRegister.
Theorem C02_LdrshRegister cfg instr add wback index m t n shift_t shift_n s :
  ictx cfg s -> cond_holds s -> iset_of s <> 3 -> 0 <= n <= 15 -> 0 <= m <= 15 -> 0 <= t <= 14 -> (wback <> 0 -> n <= 14) ->
  valid_shift shift_t shift_n -> rd_ok cfg (ArmV6_mem_u_get cfg) s 2 ->
  LdrshRegister_execute cfg instr add wback index m t n shift_t shift_n s =
  LOAD (ArmV6_mem_u_get cfg) (cfg_arch_version cfg) (cfg_jazelle_accepts_execution cfg) LSHalf s (rget s n) (reg_offset s m shift_t shift_n) add index wback n t.
Proof. exact (LdrshRegister_sem cfg instr add wback index m t n shift_t shift_n s). Qed.
Print Assumptions C02_LdrshRegister.
Theorem C02_LdrRegisterThumb cfg instr m t n shift_t shift_n s :
  ictx cfg s -> cond_holds s -> iset_of s <> 3 -> 0 <= n <= 15 -> 0 <= m <= 15 -> 0 <= t <= 15 ->
  valid_shift shift_t shift_n -> rd_ok cfg (ArmV6_mem_u_get cfg) s 4 ->
  LdrRegisterThumb_execute cfg instr m t n shift_t shift_n s =
  LOAD (ArmV6_mem_u_get cfg) (cfg_arch_version cfg) (cfg_jazelle_accepts_execution cfg) LWordThumb s (rget s n) (reg_offset s m shift_t shift_n) 1 1 0 n t.
Proof. exact (LdrRegisterThumb_sem cfg instr m t n shift_t shift_n s). Qed.
Print Assumptions C02_LdrRegisterThumb.
Theorem C02_StrbImmediateArm cfg instr add wback index t n imm32 s :
  ictx cfg s -> cond_holds s -> 0 <= n <= 15 -> 0 <= t <= 14 -> (wback <> 0 -> n <= 14) ->
  wr_ok cfg (ArmV6_mem_u_set cfg) s 1 ->
  StrbImmediateArm_execute cfg instr add wback index t n imm32 s =
  STORE (ArmV6_mem_u_set cfg) 1 s (rget s n) imm32 add index wback n (bits (rget s t) 7 0).
Proof. exact (StrbImmediateArm_sem cfg instr add wback index t n imm32 s). Qed.
Print Assumptions C02_StrbImmediateArm.
Theorem C02_StrbImmediateThumb cfg instr add wback index t n imm32 s :
  ictx cfg s -> cond_holds s -> iset_of s <> 3 -> 0 <= n <= 15 -> 0 <= t <= 14 -> (wback <> 0 -> n <= 14) ->
  wr_ok cfg (ArmV6_mem_u_set cfg) s 1 ->
  StrbImmediateThumb_execute cfg instr add wback index t n imm32 s =
  STORE (ArmV6_mem_u_set cfg) 1 s (rget s n) imm32 add index wback n (bits (rget s t) 7 0).
Proof. exact (StrbImmediateThumb_sem cfg instr add wback index t n imm32 s). Qed.
Print Assumptions C02_StrbImmediateThumb.
Theorem C02_StrhImmediateArm cfg instr add wback index imm32 t n s :
  ictx cfg s -> cond_holds s -> 0 <= n <= 15 -> 0 <= t <= 14 -> (wback <> 0 -> n <= 14) ->
  wr_ok cfg (ArmV6_mem_u_set cfg) s 2 ->
  StrhImmediateArm_execute cfg instr add wback index imm32 t n s =
  STORE (ArmV6_mem_u_set cfg) 2 s (rget s n) imm32 add index wback n
        (if unaligned_support s || (bit (ls_address (rget s n) imm32 add index) 0 =? 0) then bits (rget s t) 15 0 else 0).
Proof. exact (StrhImmediateArm_sem cfg instr add wback index imm32 t n s). Qed.
Print Assumptions C02_StrhImmediateArm.
Theorem C02_StrhImmediateThumb cfg instr add wback index t n imm32 s :
  ictx cfg s -> cond_holds s -> iset_of s <> 3 -> 0 <= n <= 15 -> 0 <= t <= 14 -> (wback <> 0 -> n <= 14) ->
  wr_ok cfg (ArmV6_mem_u_set cfg) s 2 ->
  StrhImmediateThumb_execute cfg instr add wback index t n imm32 s =
  STORE (ArmV6_mem_u_set cfg) 2 s (rget s n) imm32 add index wback n
        (if unaligned_support s || (bit (ls_address (rget s n) imm32 add index) 0 =? 0) then bits (rget s t) 15 0 else 0).
Proof. exact (StrhImmediateThumb_sem cfg instr add wback index t n imm32 s). Qed.
Print Assumptions C02_StrhImmediateThumb.
Theorem C02_StrhRegister cfg instr add wback index m t n shift_t shift_n s :
  ictx cfg s -> cond_holds s -> iset_of s <> 3 -> 0 <= n <= 15 -> 0 <= m <= 15 -> 0 <= t <= 14 -> (wback <> 0 -> n <= 14) ->
  valid_shift shift_t shift_n -> wr_ok cfg (ArmV6_mem_u_set cfg) s 2 ->
  StrhRegister_execute cfg instr add wback index m t n shift_t shift_n s =
  STORE (ArmV6_mem_u_set cfg) 2 s (rget s n) (reg_offset s m shift_t shift_n) add index wback n
        (if unaligned_support s || (bit (ls_address (rget s n) (reg_offset s m shift_t shift_n) add index) 0 =? 0) then bits (rget s t) 15 0 else 0).
Proof. exact (StrhRegister_sem cfg instr add wback index m t n shift_t shift_n s). Qed.
Print Assumptions C02_StrhRegister.
Theorem C02_StrImmediateThumb cfg instr add wback index t n imm32 s :
  ictx cfg s -> cond_holds s -> iset_of s <> 3 -> 0 <= n <= 15 -> 0 <= t <= 14 -> (wback <> 0 -> n <= 14) ->
  wr_ok cfg (ArmV6_mem_u_set cfg) s 4 ->
  StrImmediateThumb_execute cfg instr add wback index t n imm32 s =
  STORE (ArmV6_mem_u_set cfg) 4 s (rget s n) imm32 add index wback n
        (if unaligned_support s || (bits (ls_address (rget s n) imm32 add index) 1 0 =? 0) then rget s t else 0).
Proof. exact (StrImmediateThumb_sem cfg instr add wback index t n imm32 s). Qed.
Print Assumptions C02_StrImmediateThumb.
Theorem C02_StrRegister cfg instr add wback index m t n shift_t shift_n s :
  ictx cfg s -> cond_holds s -> iset_of s <> 3 -> 0 <= n <= 15 -> 0 <= m <= 15 -> 0 <= t <= 15 -> (wback <> 0 -> n <= 14) ->
  valid_shift shift_t shift_n -> wr_ok cfg (ArmV6_mem_u_set cfg) s 4 ->
  StrRegister_execute cfg instr add wback index m t n shift_t shift_n s =
  STORE (ArmV6_mem_u_set cfg) 4 s (rget s n) (reg_offset s m shift_t shift_n) add index wback n
        (if unaligned_support s || (bits (ls_address (rget s n) (reg_offset s m shift_t shift_n) add index) 1 0 =? 0) || (iset_of s =? 0)
         then rget s t else 0).
Proof. exact (StrRegister_sem cfg instr add wback index m t n shift_t shift_n s). Qed.
Print Assumptions C02_StrRegister.
Theorem C02_Ldrbt cfg instr add register_form post_index t n m shift_t shift_n imm32 s :
  ictx cfg s -> cond_holds s -> mode_of s <> 26 -> iset_of s <> 3 -> 0 <= n <= 15 -> 0 <= m <= 15 -> 0 <= t <= 14 -> (post_index <> 0 -> n <= 14) ->
  valid_shift shift_t shift_n -> rd_ok cfg (ArmV6_mem_u_unpriv_get cfg) s 1 ->
  Ldrbt_execute cfg instr add register_form post_index t n m shift_t shift_n imm32 s =
  LOAD_dest_first (ArmV6_mem_u_unpriv_get cfg) LByte s (rget s n) (unp_off_shift s register_form m shift_t shift_n imm32) add
                  (unp_index post_index) post_index n t.
Proof. exact (Ldrbt_sem cfg instr add register_form post_index t n m shift_t shift_n imm32 s). Qed.
Print Assumptions C02_Ldrbt.
Theorem C02_Ldrsbt cfg instr add register_form post_index t n m imm32 s :
  ictx cfg s -> cond_holds s -> mode_of s <> 26 -> iset_of s <> 3 -> 0 <= n <= 15 -> 0 <= m <= 15 -> 0 <= t <= 14 -> (post_index <> 0 -> n <= 14) ->
  rd_ok cfg (ArmV6_mem_u_unpriv_get cfg) s 1 ->
  Ldrsbt_execute cfg instr add register_form post_index t n m imm32 s =
  LOAD_dest_first (ArmV6_mem_u_unpriv_get cfg) LSByte s (rget s n) (unp_off s register_form m imm32) add (unp_index post_index) post_index n t.
Proof. exact (Ldrsbt_sem cfg instr add register_form post_index t n m imm32 s). Qed.
Print Assumptions C02_Ldrsbt.
Theorem C02_Ldrht cfg instr add register_form post_index t n m imm32 s :
  ictx cfg s -> cond_holds s -> mode_of s <> 26 -> iset_of s <> 3 -> 0 <= n <= 15 -> 0 <= m <= 15 -> 0 <= t <= 14 -> (post_index <> 0 -> n <= 14) ->
  rd_ok cfg (ArmV6_mem_u_unpriv_get cfg) s 2 ->
  Ldrht_execute cfg instr add register_form post_index t n m imm32 s =
  LOAD (ArmV6_mem_u_unpriv_get cfg) (cfg_arch_version cfg) (cfg_jazelle_accepts_execution cfg) LHalf s (rget s n)
       (unp_off s register_form m imm32) add (unp_index post_index) post_index n t.
Proof. exact (Ldrht_sem cfg instr add register_form post_index t n m imm32 s). Qed.
Print Assumptions C02_Ldrht.
Theorem C02_Ldrsht cfg instr add register_form post_index t n m imm32 s :
  ictx cfg s -> cond_holds s -> mode_of s <> 26 -> iset_of s <> 3 -> 0 <= n <= 15 -> 0 <= m <= 15 -> 0 <= t <= 14 -> (post_index <> 0 -> n <= 14) ->
  rd_ok cfg (ArmV6_mem_u_unpriv_get cfg) s 2 ->
  Ldrsht_execute cfg instr add register_form post_index t n m imm32 s =
  LOAD (ArmV6_mem_u_unpriv_get cfg) (cfg_arch_version cfg) (cfg_jazelle_accepts_execution cfg) LSHalf s (rget s n)
       (unp_off s register_form m imm32) add (unp_index post_index) post_index n t.
Proof. exact (Ldrsht_sem cfg instr add register_form post_index t n m imm32 s). Qed.
Print Assumptions C02_Ldrsht.
Theorem C02_Strbt cfg instr add register_form post_index t n m shift_t shift_n imm32 s :
  ictx cfg s -> cond_holds s -> mode_of s <> 26 -> iset_of s <> 3 -> 0 <= n <= 15 -> 0 <= m <= 15 -> 0 <= t <= 14 -> (post_index <> 0 -> n <= 14) ->
  valid_shift shift_t shift_n -> wr_ok cfg (ArmV6_mem_u_unpriv_set cfg) s 1 ->
  Strbt_execute cfg instr add register_form post_index t n m shift_t shift_n imm32 s =
  STORE (ArmV6_mem_u_unpriv_set cfg) 1 s (rget s n) (unp_off_shift s register_form m shift_t shift_n imm32) add (unp_index post_index) post_index n
        (bits (rget s t) 7 0).
Proof. exact (Strbt_sem cfg instr add register_form post_index t n m shift_t shift_n imm32 s). Qed.
Print Assumptions C02_Strbt.
Theorem C02_Strht cfg instr add register_form post_index t n m imm32 s :
  ictx cfg s -> cond_holds s -> mode_of s <> 26 -> iset_of s <> 3 -> 0 <= n <= 15 -> 0 <= m <= 15 -> 0 <= t <= 14 -> (post_index <> 0 -> n <= 14) ->
  wr_ok cfg (ArmV6_mem_u_unpriv_set cfg) s 2 ->
  Strht_execute cfg instr add register_form post_index t n m imm32 s =
  STORE (ArmV6_mem_u_unpriv_set cfg) 2 s (rget s n) (unp_off s register_form m imm32) add (unp_index post_index) post_index n
        (if unaligned_support s || (bit (ls_address (rget s n) (unp_off s register_form m imm32) add (unp_index post_index)) 0 =? 0)
         then bits (rget s t) 15 0 else 0).
Proof. exact (Strht_sem cfg instr add register_form post_index t n m imm32 s). Qed.
Print Assumptions C02_Strht.
Theorem C02_Ldrt cfg instr add register_form post_index t n m shift_t shift_n imm32 s :
  ictx cfg s -> cond_holds s -> mode_of s <> 26 -> iset_of s <> 3 -> 0 <= n <= 15 -> 0 <= m <= 15 -> 0 <= t <= 14 -> (post_index <> 0 -> n <= 14) ->
  valid_shift shift_t shift_n -> rd_ok cfg (ArmV6_mem_u_unpriv_get cfg) s 4 ->
  Ldrt_execute cfg instr add register_form post_index t n m shift_t shift_n imm32 s =
  LOAD_T (ArmV6_mem_u_unpriv_get cfg) s (rget s n) (unp_off_shift s register_form m shift_t shift_n imm32) add post_index n t.
Proof. exact (Ldrt_sem cfg instr add register_form post_index t n m shift_t shift_n imm32 s). Qed.
Print Assumptions C02_Ldrt.
Theorem C02_Strt cfg instr add register_form post_index t n m shift_t shift_n imm32 s :
  ictx cfg s -> cond_holds s -> mode_of s <> 26 -> iset_of s <> 3 -> 0 <= n <= 15 -> 0 <= m <= 15 -> 0 <= t <= 15 -> (post_index <> 0 -> n <= 14) ->
  valid_shift shift_t shift_n -> wr_ok cfg (ArmV6_mem_u_unpriv_set cfg) s 4 ->
  Strt_execute cfg instr add register_form post_index t n m shift_t shift_n imm32 s =
  STORE (ArmV6_mem_u_unpriv_set cfg) 4 s (rget s n) (unp_off_shift s register_form m shift_t shift_n imm32) add (unp_index post_index) post_index n
        (if unaligned_support s
            || (bits (ls_address (rget s n) (unp_off_shift s register_form m shift_t shift_n imm32) add (unp_index post_index)) 1 0 =? 0)
            || (iset_of s =? 0)
         then rget s t else 0).
Proof. exact (Strt_sem cfg instr add register_form post_index t n m shift_t shift_n imm32 s). Qed.
Print Assumptions C02_Strt.
Theorem C02_LdrbLiteral cfg instr add imm32 t s :
  ictx cfg s -> cond_holds s -> iset_of s <> 3 -> 0 <= t <= 14 -> rd_ok cfg (ArmV6_mem_u_get cfg) s 1 ->
  LdrbLiteral_execute cfg instr add imm32 t s = LOAD_lit (ArmV6_mem_u_get cfg) LByte s add imm32 t.
Proof. exact (LdrbLiteral_sem cfg instr add imm32 t s). Qed.
Print Assumptions C02_LdrbLiteral.
Theorem C02_LdrsbLiteral cfg instr add imm32 t s :
  ictx cfg s -> cond_holds s -> iset_of s <> 3 -> 0 <= t <= 14 -> rd_ok cfg (ArmV6_mem_u_get cfg) s 1 ->
  LdrsbLiteral_execute cfg instr add imm32 t s = LOAD_lit (ArmV6_mem_u_get cfg) LSByte s add imm32 t.
Proof. exact (LdrsbLiteral_sem cfg instr add imm32 t s). Qed.
Print Assumptions C02_LdrsbLiteral.
Theorem C02_LdrhLiteral cfg instr add imm32 t s :
  ictx cfg s -> cond_holds s -> iset_of s <> 3 -> 0 <= t <= 14 -> rd_ok cfg (ArmV6_mem_u_get cfg) s 2 ->
  LdrhLiteral_execute cfg instr add imm32 t s = LOAD_lit (ArmV6_mem_u_get cfg) LHalf s add imm32 t.
Proof. exact (LdrhLiteral_sem cfg instr add imm32 t s). Qed.
Print Assumptions C02_LdrhLiteral.
Theorem C02_LdrshLiteral cfg instr add imm32 t s :
  ictx cfg s -> cond_holds s -> iset_of s <> 3 -> 0 <= t <= 14 -> rd_ok cfg (ArmV6_mem_u_get cfg) s 2 ->
  LdrshLiteral_execute cfg instr add imm32 t s = LOAD_lit (ArmV6_mem_u_get cfg) LSHalf s add imm32 t.
Proof. exact (LdrshLiteral_sem cfg instr add imm32 t s). Qed.
Print Assumptions C02_LdrshLiteral.
Theorem C02_LdrLiteral cfg instr add imm32 t s :
  ictx cfg s -> cond_holds s -> iset_of s <> 3 -> 0 <= t <= 15 -> rd_ok cfg (ArmV6_mem_u_get cfg) s 4 ->
  LdrLiteral_execute cfg instr add imm32 t s =
  LOAD_lit_word (ArmV6_mem_u_get cfg) (cfg_arch_version cfg) (cfg_jazelle_accepts_execution cfg) s add imm32 t.
Proof. exact (LdrLiteral_sem cfg instr add imm32 t s). Qed.
Print Assumptions C02_LdrLiteral.
(* the memory hypotheses of the unprivileged forms hold on a flat map *)
Theorem C02_rd_ok_flat_unpriv cfg s sz : flat cfg s -> ictx cfg s -> valid_size sz = true -> rd_ok cfg (ArmV6_mem_u_unpriv_get cfg) s sz.
Proof. exact (flat_rd_ok_unpriv cfg s sz). Qed.
Print Assumptions C02_rd_ok_flat_unpriv.
Theorem C02_wr_ok_flat_unpriv cfg s sz : flat cfg s -> ictx cfg s -> valid_size sz = true -> wr_ok cfg (ArmV6_mem_u_unpriv_set cfg) s sz.
Proof. exact (flat_wr_ok_unpriv cfg s sz). Qed.
Print Assumptions C02_wr_ok_flat_unpriv.
